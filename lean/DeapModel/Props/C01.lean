/-
C01 — Fitness comparison and Pareto dominance follow the weighted values.
Property theorems only; the model is `DeapModel/Core/Fitness.lean`.
-/
import DeapModel.Core.Fitness
import DeapModel.Core.FitClass
import DeapModel.Lemmas.C01Class
import DeapModel.Lemmas.C01Gen
import Mathlib.Order.Defs.LinearOrder
import Mathlib.Algebra.Order.Field.Basic
import Mathlib.Data.List.Lex
import Mathlib.Data.List.Induction
import Mathlib.Algebra.Order.Ring.Rat
import Mathlib.Algebra.Order.Field.Rat
import Mathlib.Data.Rat.Defs

set_option linter.unusedSectionVars false
set_option linter.unusedSimpArgs false

namespace C01
open Fitness

section Order
variable {α : Type} [LinearOrder α]

/-- `<` on fitnesses is exactly the lexicographic order of the weighted value tuples
(core's `List` order: first differing position, then length). -/
theorem lt_iff_lex (a b : Fit α) : lt a b = true ↔ a.wvalues < b.wvalues := by
  obtain ⟨x⟩ := a; obtain ⟨y⟩ := b
  simp only [lt]
  induction x generalizing y with
  | nil => cases y <;> simp [Py.tupleLt]
  | cons a as ih =>
    cases y with
    | nil => simp [Py.tupleLt]
    | cons b bs =>
      simp only [Py.tupleLt, List.cons_lt_cons_iff]
      split
      · next h => subst h; rw [ih]; simp
      · next h => simp [h]

/-- `==` is equality of the weighted value tuples. -/
theorem eq_iff (a b : Fit α) : eq a b = true ↔ a.wvalues = b.wvalues := by
  simp [eq, Py.tupleEq]

/-- `<=` is `<` or `==`. -/
theorem le_iff_lt_or_eq (a b : Fit α) : le a b = true ↔ (lt a b = true ∨ eq a b = true) := by
  obtain ⟨x⟩ := a; obtain ⟨y⟩ := b
  simp only [le, lt, eq, Py.tupleEq, decide_eq_true_eq]
  induction x generalizing y with
  | nil => cases y <;> simp [Py.tupleLe, Py.tupleLt]
  | cons a as ih =>
    cases y with
    | nil => simp [Py.tupleLe, Py.tupleLt]
    | cons b bs =>
      simp only [Py.tupleLe, Py.tupleLt]
      split
      · next h => subst h; rw [ih]; simp
      · next h => simp [h, _root_.le_iff_lt_or_eq]

/-- Trichotomy: exactly the linear order on tuples — one of `<`, `==`, `>` (swapped `<`). -/
theorem lt_trichotomy (a b : Fit α) : lt a b = true ∨ eq a b = true ∨ lt b a = true := by
  rw [lt_iff_lex, lt_iff_lex, eq_iff]; exact _root_.lt_trichotomy _ _

theorem lt_irrefl (a : Fit α) : lt a a = false := by
  have := lt_iff_lex a a; simp at this; simpa using this

theorem lt_asymm (a b : Fit α) (h : lt a b = true) : lt b a = false := by
  rw [lt_iff_lex] at h
  have : ¬ (lt b a = true) := by rw [lt_iff_lex]; exact _root_.lt_asymm h
  simpa using this

theorem lt_trans (a b c : Fit α) (h₁ : lt a b = true) (h₂ : lt b c = true) : lt a c = true := by
  rw [lt_iff_lex] at *; exact _root_.lt_trans h₁ h₂

/-- `>` (defined by the class as `not <=`) is `<` with the operands swapped. -/
theorem gt_iff_swap (a b : Fit α) : gt a b = lt b a := by
  have h := le_iff_lt_or_eq a b
  rcases lt_trichotomy a b with h1 | h1 | h1
  · simp [gt, h.2 (Or.inl h1), lt_asymm a b h1]
  · have e : b.wvalues = a.wvalues := ((eq_iff a b).1 h1).symm
    have : lt b a = false := by
      have := lt_irrefl b; simp only [lt] at *; rw [← e]; exact this
    simp [gt, h.2 (Or.inr h1), this]
  · have h2 : lt a b = false := lt_asymm b a h1
    have h3 : eq a b = false := by
      by_contra hc; simp at hc
      have e := (eq_iff a b).1 hc
      have := lt_irrefl a; simp only [lt] at *; rw [e] at h1; rw [e] at this; simp_all
    have : le a b = false := by
      by_contra hc; simp at hc; rcases h.1 hc with h | h <;> simp_all
    simp [gt, this, h1]

/-- `>=` (defined as `not <`) is `<=` with the operands swapped. -/
theorem ge_iff_swap (a b : Fit α) : ge a b = le b a := by
  have := gt_iff_swap b a; simp only [gt, ge] at *
  cases h : le b a <;> simp_all

/-- `!=` is the negation of `==`. -/
theorem ne_iff (a b : Fit α) : ne a b = !eq a b := rfl

end Order

section Weights
variable {α : Type} [Field α] [LinearOrder α] [IsStrictOrderedRing α]

/-- A negative weight makes smaller better: weighted values compare in the *opposite* order. -/
theorem weighted_order_neg (w v v' : α) (hw : w < 0) : v * w < v' * w ↔ v' < v :=
  mul_lt_mul_right_of_neg hw

/-- A positive weight keeps the order of the raw values. -/
theorem weighted_order_pos (w v v' : α) (hw : 0 < w) : v * w < v' * w ↔ v < v' :=
  mul_lt_mul_iff_left₀ hw

/-- Values assigned are read back unchanged for every vector of non-zero weights
(in particular ±1). -/
theorem values_roundtrip (weights values : List α) (hlen : values.length = weights.length)
    (hnz : ∀ w ∈ weights, w ≠ 0) :
    (setValues weights values).map (getValues weights) = some values := by
  simp only [setValues, hlen, ↓reduceIte, Option.map_some, getValues, Option.some.injEq]
  induction values generalizing weights with
  | nil => cases weights <;> simp_all
  | cons v vs ih =>
    cases weights with
    | nil => simp at hlen
    | cons w ws =>
      simp only [List.zipWith_cons_cons, List.cons.injEq]
      refine ⟨mul_div_cancel_right₀ v (hnz w (by simp)), ih ws (by simpa using hlen) ?_⟩
      intro x hx; exact hnz x (by simp [hx])

end Weights

section Dominance
variable {α : Type} [LinearOrder α]

theorem dominatesLoop_iff (xs ys : List α) (ne : Bool) :
    dominatesLoop xs ys ne = true ↔
      (∀ p ∈ xs.zip ys, p.2 ≤ p.1) ∧ (ne = true ∨ ∃ p ∈ xs.zip ys, p.2 < p.1) := by
  induction xs generalizing ys ne with
  | nil => simp [dominatesLoop]
  | cons x xs ih =>
    cases ys with
    | nil => simp [dominatesLoop]
    | cons y ys =>
      simp only [dominatesLoop, List.zip_cons_cons, List.mem_cons, forall_eq_or_imp, exists_eq_or_imp]
      split
      · next h => rw [ih]; simp [h, le_of_lt h]
      · next h =>
        split
        · next h' => simp [not_le.2 h']
        · next h' =>
          have : y = x := le_antisymm (not_lt.1 h') (not_lt.1 h)
          subst this; rw [ih]; simp

/-- Dominance on any selection of objectives: no worse on every selected weighted objective and
strictly better on at least one. -/
theorem dominates_iff (a b : Fit α) (idxA idxB : List Nat) :
    dominates a b idxA idxB = true ↔
      (∀ p ∈ (Py.slice idxA a.wvalues).zip (Py.slice idxB b.wvalues), p.2 ≤ p.1) ∧
      (∃ p ∈ (Py.slice idxA a.wvalues).zip (Py.slice idxB b.wvalues), p.2 < p.1) := by
  simp [dominates, dominatesLoop_iff]

/-- For tuples of equal length and an in-range index list this is the pointwise statement. -/
theorem dominates_iff_pointwise (a b : Fit α) (idx : List Nat)
    (hlen : a.wvalues.length = b.wvalues.length) (hidx : ∀ i ∈ idx, i < a.wvalues.length) :
    dominates a b idx idx = true ↔
      (∀ i ∈ idx, ∀ x y, a.wvalues[i]? = some x → b.wvalues[i]? = some y → y ≤ x) ∧
      (∃ i ∈ idx, ∃ x y, a.wvalues[i]? = some x ∧ b.wvalues[i]? = some y ∧ y < x) := by
  rw [dominates_iff]
  have key : ∀ (idx : List Nat), (∀ i ∈ idx, i < a.wvalues.length) →
      (Py.slice idx a.wvalues).zip (Py.slice idx b.wvalues) =
        idx.filterMap (fun i => match a.wvalues[i]?, b.wvalues[i]? with
          | some x, some y => some (x, y) | _, _ => none) := by
    intro idx h
    induction idx with
    | nil => simp [Py.slice]
    | cons i is ih =>
      have hi : i < a.wvalues.length := h i (by simp)
      have hi' : i < b.wvalues.length := hlen ▸ hi
      have := ih (fun j hj => h j (by simp [hj]))
      simp only [Py.slice] at this ⊢
      simp [List.filterMap_cons, List.getElem?_eq_getElem hi, List.getElem?_eq_getElem hi', this]
  rw [key idx hidx]
  constructor
  · rintro ⟨h1, p, hp, hlt⟩
    refine ⟨?_, ?_⟩
    · intro i hi x y hx hy
      exact h1 (x, y) (by simp only [List.mem_filterMap]; exact ⟨i, hi, by simp [hx, hy]⟩)
    · simp only [List.mem_filterMap] at hp
      obtain ⟨i, hi, hm⟩ := hp
      refine ⟨i, hi, ?_⟩
      cases hx : a.wvalues[i]? <;> cases hy : b.wvalues[i]? <;> simp [hx, hy] at hm
      exact ⟨_, _, rfl, rfl, by rw [← hm] at hlt; exact hlt⟩
  · rintro ⟨h1, i, hi, x, y, hx, hy, hlt⟩
    refine ⟨?_, (x, y), ?_, hlt⟩
    · intro p hp
      simp only [List.mem_filterMap] at hp
      obtain ⟨j, hj, hm⟩ := hp
      cases hx' : a.wvalues[j]? <;> cases hy' : b.wvalues[j]? <;> simp [hx', hy'] at hm
      rw [← hm]; exact h1 j hj _ _ hx' hy'
    · simp only [List.mem_filterMap]; exact ⟨i, hi, by simp [hx, hy]⟩

/-- Dominance is irreflexive. -/
theorem dominates_irrefl (a : Fit α) (idx : List Nat) : dominates a a idx idx = false := by
  have := dominates_iff a a idx idx
  by_contra h; simp at h
  obtain ⟨_, p, hp, hlt⟩ := this.1 h
  have : p.1 = p.2 := by
    have := List.of_mem_zip hp
    clear hlt h
    generalize Py.slice idx a.wvalues = l at hp
    induction l with
    | nil => simp at hp
    | cons x xs ih => simp at hp; rcases hp with rfl | hp; rfl; exact ih hp
  rw [this] at hlt; exact absurd hlt (_root_.lt_irrefl _)

end Dominance

section History
variable {α : Type} [Mul α]

/-- A fitness is valid exactly while values are assigned and not deleted: after any history of
assignments (of the class's length, which is ≥ 1) and deletions, it is valid iff the last
operation was an assignment. -/
theorem valid_history (weights : List α) (hw : weights ≠ []) (f : Fit α) (ops : List (Op α))
    (hops : ∀ o ∈ ops, ∀ v, o = Op.set v → v.length = weights.length) (hne : ops ≠ []) :
    valid (run weights f ops) = (match ops.getLast hne with | .set _ => true | .del => false) := by
  induction ops using List.reverseRecOn with
  | nil => exact absurd rfl hne
  | append_singleton init o _ =>
    simp only [run, List.foldl_append, List.foldl_cons, List.foldl_nil, List.getLast_append_singleton]
    cases o with
    | del => simp [step, delValues, valid]
    | set v =>
      have hl := hops (Op.set v) (by simp) v rfl
      have : weights.length ≠ 0 := by simpa using hw
      simp [step, setValues, hl, valid, this]

end History

section Clone
variable {α : Type} [LinearOrder α]

/-- A clone compares equal to its original, is neither smaller nor greater, has the same hash key
and the same validity. -/
theorem clone_eq (f : Fit α) :
    eq (deepcopy f) f = true ∧ lt (deepcopy f) f = false ∧ lt f (deepcopy f) = false ∧
    hashKey (deepcopy f) = hashKey f ∧ valid (deepcopy f) = valid f := by
  refine ⟨by simp [eq, deepcopy, Py.tupleEq], ?_, ?_, rfl, rfl⟩ <;> exact lt_irrefl f

/-- Same for constrained fitnesses, whose clone keeps the violation flags. -/
theorem cclone_eq (f : CFit α) :
    ceq (cdeepcopy f) f = true ∧ violates (cdeepcopy f) = violates f ∧ cdeepcopy f = f := by
  have hc : cdeepcopy f = f := rfl
  refine ⟨?_, rfl, rfl⟩
  rw [hc]; simp only [ceq]
  cases h : violates f <;> simp [eq, Py.tupleEq]

end Clone

section Constrained
variable {α : Type} [LinearOrder α]

/-- A constraint-violating fitness never compares better than, equal to, or dominating a
non-violating one (feasible evaluated *or* unevaluated), and the non-violating one is strictly
better and dominates it. -/
theorem constrained_table (v f : CFit α) (hv : violates v = true) (hf : violates f = false) :
    cgt v f = false ∧ cge v f = false ∧ ceq v f = false ∧ cdominates v f = false ∧
    clt v f = true ∧ cle v f = true ∧ cne v f = true ∧
    cgt f v = true ∧ cge f v = true ∧ cdominates f v = true ∧ ceq f v = false ∧
    clt f v = false ∧ cle f v = false := by
  simp [cgt, cge, ceq, cdominates, clt, cle, cne, hv, hf]

/-- Two violating fitnesses are equal to each other and neither dominates. -/
theorem constrained_both (v w : CFit α) (hv : violates v = true) (hw : violates w = true) :
    ceq v w = true ∧ clt v w = false ∧ cgt v w = false ∧ cdominates v w = false ∧
    cle v w = true ∧ cge v w = true := by
  simp [cgt, cge, ceq, cdominates, clt, cle, hv, hw]

/-- Two non-violating constrained fitnesses compare exactly like plain fitnesses. -/
theorem constrained_neither (a b : CFit α) (ha : violates a = false) (hb : violates b = false) :
    clt a b = lt a.base b.base ∧ cle a b = le a.base b.base ∧ ceq a b = eq a.base b.base ∧
    cgt a b = gt a.base b.base ∧ cge a b = ge a.base b.base ∧
    cdominates a b = dominatesLoop a.wvalues b.wvalues false := by
  simp [cgt, cge, ceq, cdominates, clt, cle, gt, ge, ha, hb]

/-- A violating fitness is never valid (the flags only count while unevaluated). -/
theorem violates_not_valid (v : CFit α) (hv : violates v = true) : valid v.base = false := by
  simp only [violates, Bool.and_eq_true, Bool.not_eq_true'] at hv; exact hv.1

end Constrained


/-! ### Constrained fitness histories, weighted order lifted to tuples, dominance implies order -/

section ConstrainedHistory
variable {α : Type} [Mul α]

/-- What "valid exactly while values are assigned and not deleted" means for a history that may also
set the violation record: only assignments and deletions count, the last one decides. -/
def cvalidSpec : List (COp α) → Bool → Bool
  | [], b => b
  | .set _ :: ops, _ => cvalidSpec ops true
  | .del :: ops, _ => cvalidSpec ops false
  | .setCv _ :: ops, b => cvalidSpec ops b

/-- A constrained fitness is valid exactly while values are assigned and not deleted, whatever is done
to its violation record in between. -/
theorem cvalid_history (weights : List α) (hw : weights ≠ []) (f : CFit α) (ops : List (COp α))
    (hops : ∀ o ∈ ops, ∀ v, o = COp.set v → v.length = weights.length) :
    valid (crun weights f ops).base = cvalidSpec ops (valid f.base) := by
  induction ops generalizing f with
  | nil => rfl
  | cons o ops ih =>
    have hrest : ∀ o' ∈ ops, ∀ v, o' = COp.set v → v.length = weights.length :=
      fun o' ho' => hops o' (by simp [ho'])
    simp only [crun, List.foldl_cons] at *
    cases o with
    | set v =>
      have hl := hops (COp.set v) (by simp) v rfl
      have hne : weights.length ≠ 0 := by simpa using hw
      rw [ih _ hrest]
      have : valid (cstep weights f (COp.set v)).base = true := by
        simp [cstep, setValues, hl, valid, CFit.base, hne]
      rw [this]; rfl
    | setCv cv => rw [ih _ hrest]; simp [cstep, cvalidSpec, CFit.base]
    | del => rw [ih _ hrest]; simp [cstep, cvalidSpec, cdelValues, valid, CFit.base]

/-- Deleting the values also clears the violation record: the fitness is then neither valid nor violating. -/
theorem cdel_clears [LT α] [LE α] [DecidableEq α] [DecidableLT α] [DecidableLE α] (weights : List α) (f : CFit α) :
    (cstep weights f COp.del).cv = none ∧ valid (cstep weights f COp.del).base = false ∧
    violates (cstep weights f COp.del) = false := by
  simp [cstep, cdelValues, valid, CFit.base, violates]

end ConstrainedHistory

example : cvalidSpec ([COp.set [1], COp.setCv (some [1]), COp.del, COp.setCv (some [1])] : List (COp Int)) false = false ∧
    valid (crun [1] (⟨[], none⟩ : CFit Int) [COp.set [5], COp.setCv (some [1]), COp.del]).base = false ∧
    valid (crun [1] (⟨[], none⟩ : CFit Int) [COp.del, COp.setCv (some [1]), COp.set [5]]).base = true := by decide

section WeightedTuples
variable {α : Type} [Field α] [LinearOrder α] [IsStrictOrderedRing α]

/-- The order the statement describes: the first objective on which the raw values differ decides, and a
negative weight makes the smaller raw value the better (greater) one. -/
def WLex : List α → List α → List α → Prop
  | w :: ws, v :: vs, v' :: vs' =>
      (v ≠ v' ∧ (if 0 < w then v < v' else v' < v)) ∨ (v = v' ∧ WLex ws vs vs')
  | _, _, _ => False

/-- `<` on two fitnesses of the same class, expressed on the RAW values and the weights. -/
theorem lt_weighted_iff (ws vs vs' : List α) (hl : vs.length = ws.length) (hl' : vs'.length = ws.length)
    (hnz : ∀ w ∈ ws, w ≠ 0) :
    lt (⟨List.zipWith (· * ·) vs ws⟩ : Fit α) ⟨List.zipWith (· * ·) vs' ws⟩ = true ↔ WLex ws vs vs' := by
  simp only [lt]
  induction ws generalizing vs vs' with
  | nil =>
    cases vs <;> cases vs' <;> simp_all [Py.tupleLt, WLex]
  | cons w ws ih =>
    cases vs with
    | nil => simp at hl
    | cons v vs =>
      cases vs' with
      | nil => simp at hl'
      | cons v' vs' =>
        have hw : w ≠ 0 := hnz w (by simp)
        have hrest : ∀ x ∈ ws, x ≠ 0 := fun x hx => hnz x (by simp [hx])
        have hl1 : vs.length = ws.length := by simpa using hl
        have hl2 : vs'.length = ws.length := by simpa using hl'
        simp only [List.zipWith_cons_cons, Py.tupleLt, WLex]
        by_cases hv : v = v'
        · subst hv; simp [ih vs vs' hl1 hl2 hrest]
        · have hne : v * w ≠ v' * w := fun h => hv (mul_right_cancel₀ hw h)
          simp only [hne, ↓reduceIte, decide_eq_true_eq, ne_eq, hv, not_false_eq_true, true_and, false_and, or_false]
          rcases lt_or_gt_of_ne hw with hneg | hpos
          · simp [not_lt.2 (le_of_lt hneg), mul_lt_mul_right_of_neg hneg]
          · simp [hpos, mul_lt_mul_iff_left₀ hpos]

/-- Single objective: with a negative weight `a > b` holds exactly when `a`'s raw value is smaller. -/
theorem gt_single_neg (w v v' : α) (hw : w < 0) :
    gt (⟨[v * w]⟩ : Fit α) ⟨[v' * w]⟩ = true ↔ v < v' := by
  rw [gt_iff_swap]
  have := lt_weighted_iff [w] [v'] [v] rfl rfl (by simp [ne_of_lt hw])
  simp only [List.zipWith_cons_cons, List.zipWith_nil_right] at this
  rw [this]
  simp only [WLex, not_lt.2 (le_of_lt hw), ↓reduceIte, and_false, or_false, ne_eq]
  constructor
  · rintro ⟨_, h⟩; exact h
  · intro h; exact ⟨ne_of_gt h, h⟩

end WeightedTuples

example : WLex ([1, -1] : List ℚ) [3, 5] [3, 4] ∧ ¬ WLex ([1, -1] : List ℚ) [3, 4] [3, 5] := by
  have h : ¬ ((1 : ℚ) < 0) := by norm_num
  constructor <;> simp [WLex, h] <;> decide

section DominanceOrder
variable {α : Type} [LinearOrder α]

/-- Dominance (on all objectives, equal lengths) implies being strictly greater in the lexicographic
order: a dominating fitness always compares `>`. -/
theorem dominates_imp_gt (xs ys : List α) (hlen : xs.length = ys.length)
    (h : dominatesLoop xs ys false = true) : lt (⟨ys⟩ : Fit α) ⟨xs⟩ = true := by
  rw [dominatesLoop_iff] at h
  obtain ⟨hall, hex⟩ := h
  simp only [Bool.false_eq_true, false_or] at hex
  simp only [lt]
  induction xs generalizing ys with
  | nil => simp at hex
  | cons x xs ih =>
    cases ys with
    | nil => simp at hlen
    | cons y ys =>
      simp only [List.zip_cons_cons, List.mem_cons, forall_eq_or_imp, exists_eq_or_imp] at hall hex
      simp only [Py.tupleLt]
      by_cases hxy : y = x
      · subst hxy
        simp only [↓reduceIte]
        rcases hex with h0 | h1
        · exact absurd h0 (_root_.lt_irrefl _)
        · exact ih ys (by simpa using hlen) hall.2 h1
      · simp only [hxy, ↓reduceIte, decide_eq_true_eq]
        exact lt_of_le_of_ne hall.1 hxy

end DominanceOrder

/-! ### Comparisons see only the order of the weighted values

Every operator and `dominates` are invariant under a strictly increasing re-labelling of the weighted values.
This is what lets the correspondence drive the (rational) model with an order-isomorphic image of weighted
values that saturated at ±∞ in the implementation's doubles, and it is a law of the implementation's
comparison in its own right (no operator looks at magnitudes). -/
section MonotoneImage
variable {α β : Type} [LinearOrder α] [LinearOrder β]

/-- The image of a fitness under a re-labelling of its weighted values. -/
def mapFit (f : α → β) (a : Fit α) : Fit β := ⟨a.wvalues.map f⟩

theorem tupleLt_map (f : α → β) (hf : StrictMono f) (x y : List α) :
    Py.tupleLt (x.map f) (y.map f) = Py.tupleLt x y := by
  induction x generalizing y with
  | nil => cases y <;> simp [Py.tupleLt]
  | cons a as ih =>
    cases y with
    | nil => simp [Py.tupleLt]
    | cons b bs =>
      simp only [List.map_cons, Py.tupleLt, hf.injective.eq_iff, hf.lt_iff_lt, ih]

theorem tupleLe_map (f : α → β) (hf : StrictMono f) (x y : List α) :
    Py.tupleLe (x.map f) (y.map f) = Py.tupleLe x y := by
  induction x generalizing y with
  | nil => cases y <;> simp [Py.tupleLe]
  | cons a as ih =>
    cases y with
    | nil => simp [Py.tupleLe]
    | cons b bs =>
      simp only [List.map_cons, Py.tupleLe, hf.injective.eq_iff, hf.le_iff_le, ih]

theorem dominatesLoop_map (f : α → β) (hf : StrictMono f) (x y : List α) (ne : Bool) :
    dominatesLoop (x.map f) (y.map f) ne = dominatesLoop x y ne := by
  induction x generalizing y ne with
  | nil => simp [dominatesLoop]
  | cons a as ih =>
    cases y with
    | nil => simp [dominatesLoop]
    | cons b bs =>
      simp only [List.map_cons, dominatesLoop, hf.lt_iff_lt, ih]

theorem slice_map {γ δ : Type} (f : γ → δ) (idx : List Nat) (l : List γ) :
    Py.slice idx (l.map f) = (Py.slice idx l).map f := by
  simp [Py.slice, List.map_filterMap, List.filterMap_congr]

/-- All six operators and `dominates` (on every slice) give the same answers on a strictly increasing image
of the weighted values. -/
theorem compare_order_invariant (f : α → β) (hf : StrictMono f) (a b : Fit α) (idxA idxB : List Nat) :
    lt (mapFit f a) (mapFit f b) = lt a b ∧ le (mapFit f a) (mapFit f b) = le a b ∧
    gt (mapFit f a) (mapFit f b) = gt a b ∧ ge (mapFit f a) (mapFit f b) = ge a b ∧
    eq (mapFit f a) (mapFit f b) = eq a b ∧ ne (mapFit f a) (mapFit f b) = ne a b ∧
    dominates (mapFit f a) (mapFit f b) idxA idxB = dominates a b idxA idxB := by
  have heq : eq (mapFit f a) (mapFit f b) = eq a b := by
    simp only [eq, Py.tupleEq, mapFit]
    exact decide_eq_decide.2 (List.map_injective_iff.2 hf.injective).eq_iff
  refine ⟨tupleLt_map f hf _ _, tupleLe_map f hf _ _, ?_, ?_, heq, ?_, ?_⟩
  · simp only [gt, le, mapFit, tupleLe_map f hf]
  · simp only [ge, lt, mapFit, tupleLt_map f hf]
  · simp only [ne, heq]
  · simp only [dominates, mapFit, slice_map, dominatesLoop_map f hf]

end MonotoneImage

example : lt (mapFit (fun x : Int => 2 * x + 1) ⟨[3, -5]⟩) (mapFit (fun x : Int => 2 * x + 1) ⟨[3, -2]⟩) = true := by decide

example : dominatesLoop ([3, -2] : List Int) [3, -5] false = true ∧ lt (⟨[3, -5]⟩ : Fit Int) ⟨[3, -2]⟩ = true := by decide


/-! ### Families of related fitness classes: attribute lookup, class isolation, read-back in a hierarchy

`Core/FitClass.lean` makes the per-class state explicit: a class is its own `weights` entry (or none) and its
parent; `lookupWeights` is Python's attribute lookup along the MRO; a `World` holds the class table and the
caller's fitness objects, `wstep` / `wrun` run a caller's history of operations on it. -/

section Lookup
variable {α : Type}

/-- A class that declares `weights` resolves to its own declaration, whatever its ancestors declare. -/
theorem resolve_own (tbl : ClassTable α) (c : Nat) (w : List α) (p : Option Nat)
    (h : tbl[c]? = some ⟨some w, p⟩) : lookupWeights tbl c = some w :=
  lookupWeights_own tbl c w p h

/-- A class that declares no `weights` resolves to what its parent resolves to (inheritance, any depth). -/
theorem resolve_inherited (tbl : ClassTable α) (h : TableWF tbl) (c p : Nat)
    (hc : tbl[c]? = some ⟨none, some p⟩) : lookupWeights tbl c = lookupWeights tbl p :=
  lookupWeights_inherit tbl h c p hc

/-- Creating further classes (children, siblings, unrelated ones) never changes what an existing class resolves to. -/
theorem resolve_stable (tbl ext : ClassTable α) (h : TableWF tbl) (c : Nat) (hc : c < tbl.length) :
    lookupWeights (tbl ++ ext) c = lookupWeights tbl c :=
  lookupWeights_append tbl ext h c hc

end Lookup

example : TableWF ([⟨some [1], none⟩, ⟨none, some 0⟩, ⟨some [-1], some 1⟩] : ClassTable Int) ∧
    lookupWeights ([⟨some [1], none⟩, ⟨none, some 0⟩, ⟨some [-1], some 1⟩] : ClassTable Int) 1 = some [1] ∧
    lookupWeights ([⟨some [1], none⟩, ⟨none, some 0⟩, ⟨some [-1], some 1⟩] : ClassTable Int) 2 = some [-1] ∧
    lookupWeights ([⟨none, none⟩, ⟨none, some 0⟩] : ClassTable Int) 1 = none := by
  refine ⟨?_, by decide, by decide, by decide⟩
  intro c k hc p hp
  match c, hc with
  | 0, hc => simp at hc; subst hc; simp at hp
  | 1, hc => simp at hc; subst hc; simp at hp; omega
  | 2, hc => simp at hc; subst hc; simp at hp; omega
  | n + 3, hc => simp at hc

section Isolation
variable {α : Type} [LT α] [LE α] [DecidableEq α] [DecidableLT α] [DecidableLE α] [Mul α] [Div α]

/-- Every world a caller can reach from the empty one is well-formed (parents exist before their children, every
object's class exists): the hypothesis `WorldWF` of the theorems below is met by every history. -/
theorem wf_reachable (ops : List (WOp α)) : WorldWF (wrun (World.empty : World α) ops).1 :=
  wrun_wf _ ops worldWF_empty

/-- CLASS ISOLATION.  The result of an operation on fitness objects — what the caller observes and the state left in
the variables it touched — depends only on each object's OWN weighted values and on the weights its OWN class resolves
to (`World.view`).  It is the same in two arbitrary worlds that agree on those views, after two arbitrary histories
`pre`, `pre'` of operations on OTHER variables: assignments, read-backs (in any order of first use), comparisons,
clones, deletions on instances of the same class, of its ancestors and descendants, creation of new classes and
objects.  Nothing done to another class or instance can change a read-back, a comparison, a dominance test or a
clone. -/
theorem class_isolation (W W' : World α) (hW : WorldWF W) (hW' : WorldWF W') (pre pre' : List (WOp α))
    (o : WOp α) (S : List Nat) (hS : o.reads = some S)
    (hpre : ∀ p ∈ pre, ∀ s ∈ S, p.writes ≠ some s) (hpre' : ∀ p ∈ pre', ∀ s ∈ S, p.writes ≠ some s)
    (hview : ∀ s ∈ S, W.view s = W'.view s) :
    (wstep (wrun W pre).1 o).2 = (wstep (wrun W' pre').1 o).2 ∧
    ∀ s, (s ∈ S ∨ (o.writes = some s ∧ (wstep (wrun W pre).1 o).2 ≠ Out.err)) →
      (wstep (wrun W pre).1 o).1.view s = (wstep (wrun W' pre').1 o).1.view s := by
  apply step_congr _ _ o S hS
  intro s hs
  rw [wrun_view_frame W pre s hW (fun p hp => hpre p hp s hs),
    wrun_view_frame W' pre' s hW' (fun p hp => hpre' p hp s hs)]
  exact hview s hs

/-- The single-world reading: a history on other variables changes no result on these. -/
theorem class_isolation_history (W : World α) (hW : WorldWF W) (pre : List (WOp α)) (o : WOp α) (S : List Nat)
    (hS : o.reads = some S) (hpre : ∀ p ∈ pre, ∀ s ∈ S, p.writes ≠ some s) :
    (wstep (wrun W pre).1 o).2 = (wstep W o).2 :=
  (class_isolation W W hW hW pre [] o S hS hpre (by simp) (fun _ _ => rfl)).1

end Isolation

/-- a world with a parent class (weights 1) and a child overriding them (weights -1), one object of each -/
def exWorld : World Int := (wrun (World.empty : World Int)
  [.defclass ⟨some [1], none⟩, .defclass ⟨some [-1], some 0⟩, .new 0 0 ⟨.tuple, [3]⟩, .new 1 1 ⟨.list, [5]⟩]).1

/-- a world with ONE flat class of weights -1 and an object carrying the same weighted values in variable 1 -/
def exFlat : World Int := (wrun (World.empty : World Int)
  [.defclass ⟨some [-1], none⟩, .new 1 0 ⟨.ndarray, [5]⟩, .new 4 0 ⟨.tuple, []⟩]).1

/-- the hypotheses of `class_isolation_history` are met: the parent's object is read, re-assigned, cloned and the clone
deleted; reading the child's object afterwards answers what it answers at once -/
example : (wstep (wrun exWorld [.get 0, .set 0 ⟨.tuple, [4]⟩, .clone 0 2, .del 2, .defclass ⟨none, some 1⟩]).1 (.get 1)).2 =
    (wstep exWorld (.get 1)).2 ∧ (wstep exWorld (.get 1)).2 = Out.values [-5] [5] true :=
  ⟨class_isolation_history exWorld (wf_reachable _) _ (.get 1) [1] rfl (by simp [WOp.writes]), by decide⟩

/-- the hypotheses of `class_isolation` are met by two different worlds (a derived class under a parent that is used in
between / a flat class): equal views of variable 1, equal answers -/
example : (wstep (wrun exWorld [.get 0, .str 0, .cmp 0 0]).1 (.get 1)).2 =
    (wstep (wrun exFlat [.set 4 ⟨.tuple, [9]⟩, .get 4]).1 (.get 1)).2 :=
  (class_isolation exWorld exFlat (wf_reachable _) (wf_reachable _) _ _ (.get 1) [1] rfl
    (by simp [WOp.writes]) (by simp [WOp.writes]) (by intro s hs; simp at hs; subst hs; decide)).1

section ReadbackHierarchy
variable {α : Type} [Field α] [LinearOrder α] [IsStrictOrderedRing α]

/-- Read-back for a class that RESOLVES to non-zero weights `w` (declared by itself or inherited): after
`slot.values = vals` and any history on other variables, `slot.values` is `vals`, `slot.wvalues` the products,
and the fitness is valid. -/
theorem readback_resolved (W : World α) (hW : WorldWF W) (slot : Nat) (x : Inst α) (hx : W.insts slot = some x)
    (w : List α) (hres : lookupWeights W.classes x.cls = some w) (hnz : ∀ u ∈ w, u ≠ 0)
    (box : Box) (vals : List α) (hlen : vals.length = w.length)
    (others : List (WOp α)) (hoth : ∀ o ∈ others, o.writes ≠ some slot) :
    (wstep (wrun (wstep W (.set slot ⟨box, vals⟩)).1 others).1 (.get slot)).2 =
      Out.values (List.zipWith (· * ·) vals w) vals (vals.length != 0) := by
  have hset : setValues w vals = some ⟨List.zipWith (· * ·) vals w⟩ := by simp [setValues, hlen]
  have hstep : (wstep W (.set slot ⟨box, vals⟩)).1 = W.put slot ⟨x.cls, ⟨List.zipWith (· * ·) vals w⟩⟩ := by
    simp only [wstep, hx, hres, hset]
  have hwf : WorldWF (wstep W (.set slot ⟨box, vals⟩)).1 := wstep_wf W _ hW
  have hview : (wrun (wstep W (.set slot ⟨box, vals⟩)).1 others).1.view slot =
      some (List.zipWith (· * ·) vals w, some w) := by
    rw [wrun_view_frame _ others slot hwf hoth, hstep, put_view_self]
    simp only [hres]
  rw [get_of_view _ slot _ w hview]
  have hrt := values_roundtrip w vals hlen hnz
  simp only [hset, Option.map_some, Option.some.injEq] at hrt
  rw [hrt]
  simp [valid, hlen]

/-- READ-BACK IN A HIERARCHY.  For a class that declares weights `w` of +1/−1 itself — whatever parent `p` it has and
whatever that parent and the further ancestors declare — values assigned to an instance are read back unchanged,
after any history of operations on other variables (ancestors' and descendants' instances read first or not). -/
theorem readback_hierarchy (W : World α) (hW : WorldWF W) (slot : Nat) (x : Inst α) (hx : W.insts slot = some x)
    (w : List α) (p : Option Nat) (hcls : W.classes[x.cls]? = some ⟨some w, p⟩)
    (hunit : ∀ u ∈ w, u = 1 ∨ u = -1)
    (box : Box) (vals : List α) (hlen : vals.length = w.length)
    (others : List (WOp α)) (hoth : ∀ o ∈ others, o.writes ≠ some slot) :
    (wstep (wrun (wstep W (.set slot ⟨box, vals⟩)).1 others).1 (.get slot)).2 =
      Out.values (List.zipWith (· * ·) vals w) vals (vals.length != 0) := by
  refine readback_resolved W hW slot x hx w (resolve_own _ _ w p hcls) ?_ box vals hlen others hoth
  intro u hu
  rcases hunit u hu with rfl | rfl
  · exact one_ne_zero
  · exact neg_ne_zero.2 one_ne_zero

end ReadbackHierarchy

/-- the hypotheses are met: a child declaring (-1) under a parent declaring (1); the conclusion then holds for a
history that uses the parent in between -/
example : ∃ (W : World ℚ) (x : Inst ℚ), WorldWF W ∧ W.insts 1 = some x ∧
    W.classes[x.cls]? = some ⟨some [-1], some 0⟩ ∧ (∀ u ∈ ([-1] : List ℚ), u = 1 ∨ u = -1) ∧
    (wstep (wrun (wstep W (.set 1 ⟨.tuple, [7]⟩)).1 [.get 0, .set 0 ⟨.list, [2]⟩, .get 0]).1 (.get 1)).2 =
      Out.values (List.zipWith (· * ·) [7] [-1]) [7] true := by
  refine ⟨(wrun (World.empty : World ℚ) [.defclass ⟨some [1], none⟩, .defclass ⟨some [-1], some 0⟩,
      .new 0 0 ⟨.tuple, []⟩, .new 1 1 ⟨.tuple, []⟩]).1, ⟨1, ⟨[]⟩⟩, wf_reachable _, rfl, rfl, by simp, ?_⟩
  exact readback_hierarchy _ (wf_reachable _) 1 ⟨1, ⟨[]⟩⟩ rfl [-1] (some 0) rfl (by simp) .tuple [7] rfl _
    (by simp [WOp.writes])

/-- `readback_resolved` with INHERITED weights: class 2 declares nothing and resolves to class 1's (-1) -/
example : ∃ (W : World ℚ) (x : Inst ℚ), WorldWF W ∧ W.insts 2 = some x ∧ lookupWeights W.classes x.cls = some [-1] ∧
    (wstep (wrun (wstep W (.set 2 ⟨.list, [7]⟩)).1 [.get 0, .get 1]).1 (.get 2)).2 =
      Out.values (List.zipWith (· * ·) [7] [-1]) [7] true := by
  refine ⟨(wrun (World.empty : World ℚ) [.defclass ⟨some [1], none⟩, .defclass ⟨some [-1], some 0⟩,
      .defclass ⟨none, some 1⟩, .new 0 0 ⟨.tuple, []⟩, .new 1 1 ⟨.tuple, []⟩, .new 2 2 ⟨.tuple, []⟩]).1,
    ⟨2, ⟨[]⟩⟩, wf_reachable _, rfl, rfl, ?_⟩
  exact readback_resolved _ (wf_reachable _) 2 ⟨2, ⟨[]⟩⟩ rfl [-1] rfl (by simp) .list [7] rfl _ (by simp [WOp.writes])

/-! ### The constructor, `__str__`, `__hash__` -/

section Ctor
variable {α : Type} [Mul α]

/-- `Fitness(values)` is valid exactly when the container handed over is non-empty (`len(values) > 0`), for every
container kind. -/
theorem init_valid_iff (weights : List α) (hw : weights ≠ []) (a : Arg α) (f : Fit α)
    (h : init weights a = some f) : valid f = true ↔ a.items ≠ [] := by
  unfold init Arg.len at h
  by_cases hpos : a.items.length > 0
  · simp only [hpos, ↓reduceIte, setValues] at h
    by_cases hl : a.items.length = weights.length
    · simp only [hl, ↓reduceIte, Option.some.injEq] at h
      subst h
      have hwl : weights.length ≠ 0 := by simpa using hw
      have hne : a.items ≠ [] := by intro e; simp [e] at hpos
      simp [valid, hl, hwl, hne]
    · simp [hl] at h
  · simp only [hpos, ↓reduceIte, Option.some.injEq] at h
    subst h
    have : a.items = [] := by
      cases hi : a.items with
      | nil => rfl
      | cons _ _ => simp [hi] at hpos
    simp [valid, this]

/-- The constructor looks at the length and the items only: the container kind is irrelevant. -/
theorem init_ignores_container (weights : List α) (b b' : Box) (items : List α) :
    init weights ⟨b, items⟩ = init weights ⟨b', items⟩ := rfl

end Ctor

example : init ([1, -1] : List Int) ⟨.ndarray, [3, 4]⟩ = some ⟨[3, -4]⟩ ∧
    init ([1, -1] : List Int) ⟨.deque, []⟩ = some ⟨[]⟩ ∧ init ([1, -1] : List Int) ⟨.list, [3]⟩ = none := by decide

section CtorArray
variable {α : Type} [Field α] [DecidableEq α]

/-- A falsy but non-empty numpy array (`bool(numpy.array([0.0]))` is `False`) is still assigned: the fitness built
from it is valid and carries the weighted value `0 * w`. -/
theorem init_falsy_array (w : α) :
    (⟨.ndarray, [0]⟩ : Arg α).truthy = some false ∧
    init [w] ⟨.ndarray, [0]⟩ = some ⟨[0 * w]⟩ ∧ valid (⟨[0 * w]⟩ : Fit α) = true := by
  refine ⟨by simp [Arg.truthy], by simp [init, Arg.len, setValues], by simp [valid]⟩

end CtorArray

section StrHash
variable {α : Type}

/-- `str(fitness)` shows exactly `fitness.values` (an unevaluated fitness shows the empty tuple, which is its `values`). -/
theorem str_eq_values [Div α] (weights : List α) (f : Fit α) : strValues weights f = getValues weights f := by
  unfold strValues
  by_cases h : valid f = true
  · simp [h]
  · have : f.wvalues = [] := by
      simp only [valid, bne_iff_ne, ne_eq, Decidable.not_not, List.length_eq_zero_iff] at h; exact h
    simp [h, getValues, this]

/-- Fitnesses that compare equal hash equal, for every tuple hash `h` (what `sortNondominated`'s grouping of
individuals by fitness in a `dict` relies on). -/
theorem eq_imp_hash_eq [DecidableEq α] {β : Type} (h : List α → β) (a b : Fit α) (hab : Fitness.eq a b = true) :
    hashWith h a = hashWith h b := by
  simp only [Fitness.eq, Py.tupleEq, decide_eq_true_eq] at hab
  simp [hashWith, hab]

/-- A clone hashes like its original. -/
theorem clone_hash_eq {β : Type} (h : List α → β) (f : Fit α) : hashWith h (deepcopy f) = hashWith h f := rfl

end StrHash

example : Fitness.eq (⟨[3, -4]⟩ : Fit Int) ⟨[3, -4]⟩ = true := by decide

/-! ### The clone carries the weighted values themselves; a clone *rebuilt* through `values` does not

`clone_bitwise` needs no arithmetic and no order on the scalars: it is the statement the IEEE-replay stream
(`rclone`) checks bit for bit on the real objects for arbitrary finite non-zero weights.  `clone_no_recompute`
says when a clone recomputed through the public values would still be the original: exactly when
`(x / w) * w = x` for every weighted value — true in a field (`reclone_field`), false under binary64 rounding
(`reclone_witness` for `/`, `recloneInv_witness` for cached inverse weights; `Fitness.R64` = correctly rounded
`*` and `/` on the rationals that are doubles, cross-checked against the machine's `Float` by the driver). -/

section CloneBitwise
variable {α : Type} [LT α] [LE α] [DecidableEq α] [DecidableLT α] [DecidableLE α]

theorem clone_bitwise (f : Fit α) : (deepcopy f).wvalues = f.wvalues ∧ deepcopy f = f := ⟨rfl, rfl⟩

theorem cclone_bitwise (f : CFit α) :
    (cdeepcopy f).wvalues = f.wvalues ∧ (cdeepcopy f).cv = f.cv := ⟨rfl, rfl⟩

/-- What a clone rebuilt by `cls(self.values)` holds: every weighted value pushed through `/ w * w`. -/
theorem reclone_wvalues [Mul α] [Div α] (weights : List α) (f : Fit α) (hl : f.wvalues.length = weights.length) :
    reclone weights f = some ⟨List.zipWith (fun x w => x / w * w) f.wvalues weights⟩ := by
  have h : (getValues weights f).length = weights.length := by simp [getValues, hl]
  unfold reclone setValues
  rw [if_pos h]
  simp [getValues, zipWith_div_mul]

/-- A clone recomputed through the public values is the original exactly when `(x / w) * w = x` for every
weighted value and its weight — nothing the scalar arithmetic has to grant. -/
theorem clone_no_recompute [Mul α] [Div α] (weights : List α) (f : Fit α) (hl : f.wvalues.length = weights.length) :
    reclone weights f = some f ↔ ∀ p ∈ List.zip f.wvalues weights, p.1 / p.2 * p.2 = p.1 := by
  rw [reclone_wvalues weights f hl, ← zipWith_eq_left_iff (fun x w => x / w * w) f.wvalues weights hl]
  constructor
  · intro h; exact congrArg Fit.wvalues (Option.some.inj h)
  · intro h; cases f; simp_all

example : (⟨[3, -4]⟩ : Fit Int).wvalues.length = ([1, -1] : List Int).length := rfl

end CloneBitwise

section CloneField
variable {α : Type} [Field α] [LinearOrder α] [IsStrictOrderedRing α]

/-- In exact arithmetic (any ordered field, non-zero weights) the recomputed clone *is* the original. -/
theorem reclone_field (weights : List α) (f : Fit α) (hl : f.wvalues.length = weights.length)
    (hnz : ∀ w ∈ weights, w ≠ 0) : reclone weights f = some f := by
  rw [clone_no_recompute weights f hl]
  intro p hp
  exact div_mul_cancel₀ p.1 (hnz p.2 (List.of_mem_zip hp).2)

example : (⟨[3, -4]⟩ : Fit ℚ).wvalues.length = ([1, -2] : List ℚ).length ∧ ∀ w ∈ ([1, -2] : List ℚ), w ≠ 0 := by
  decide

end CloneField

section CloneRounded

/-- the doubles -0.7, 1.3 (weights) and 0.1, 0.7 (values) of the round-7 reproducer -/
def wWit : List R64 := [⟨-(3152519739159347 / 4503599627370496)⟩, ⟨5854679515581645 / 4503599627370496⟩]
def vWit : List R64 := [⟨3602879701896397 / 36028797018963968⟩, ⟨3152519739159347 / 4503599627370496⟩]

/-- Under binary64 rounding a clone rebuilt through `values` computed with inverse weights is NOT the original:
weights (-0.7, 1.3), values (0.1, 0.7): the second weighted value 0.9099999999999999 comes back as
0.9099999999999998; the clone is not equal, is smaller, and is dominated by its original. -/
theorem recloneInv_witness :
    (setValues wWit vWit).bind (fun f => (recloneInv ⟨1⟩ wWit f).map
      (fun g => (eq g f, lt g f, dominates f g [0, 1] [0, 1], eq (deepcopy f) f))) = some (false, true, true, true) := by
  decide +kernel

/-- Even with the true division the round trip `(x / w) * w` is not the identity on doubles: weight 49.0,
value 0.020408163265306124, weighted value exactly 1.0, rebuilt 0.9999999999999999. -/
theorem reclone_witness :
    (setValues [(⟨49⟩ : R64)] [⟨2941126287262365 / 144115188075855872⟩]).bind (fun f => (reclone [⟨49⟩] f).map
      (fun g => (f.wvalues, eq g f, lt g f, eq (deepcopy f) f))) = some ([⟨1⟩], false, true, true) := by
  decide +kernel

/-- ... so the hypothesis of `clone_no_recompute` fails there: `(1.0 / 49.0) * 49.0 ≠ 1.0` in binary64. -/
theorem r64_div_mul_ne : ((⟨1⟩ : R64) / ⟨49⟩) * ⟨49⟩ ≠ ⟨1⟩ := by decide +kernel

end CloneRounded

/-! ### The sliced constrained dominance (repair F38) -/

section ConstrainedSlice
variable {α : Type} [LT α] [LE α] [DecidableEq α] [DecidableLT α] [DecidableLE α]

/-- on every objective (`obj = slice(None)`: each tuple's own full index range) the sliced constrained dominance is
the unsliced one the earlier theorems speak about -/
theorem cdominatesObj_all (a b : CFit α) :
    cdominatesObj a b (List.range a.wvalues.length) (List.range b.wvalues.length) = cdominates a b := by
  unfold cdominatesObj cdominates dominates
  simp only [CFit.base, Gen01L.pySlice_range]

/-- a violating fitness never dominates and a non-violating one dominates every violating one, on every slice;
between two non-violating ones it is the base class's sliced dominance -/
theorem cdominatesObj_cases (a b : CFit α) (ia ib : List Nat) :
    (violates a = true → cdominatesObj a b ia ib = false) ∧
    (violates a = false → violates b = true → cdominatesObj a b ia ib = true) ∧
    (violates a = false → violates b = false → cdominatesObj a b ia ib = dominates a.base b.base ia ib) := by
  refine ⟨?_, ?_, ?_⟩
  · intro ha; simp [cdominatesObj, ha]
  · intro ha hb; simp [cdominatesObj, ha, hb]
  · intro ha hb; simp [cdominatesObj, ha, hb]

end ConstrainedSlice

/-! ### Non-vacuity: concrete instances of the hypotheses above -/

example : violates (⟨[], some [1]⟩ : CFit Int) = true ∧ violates (⟨[1, 5], some [1]⟩ : CFit Int) = false ∧
    cdominatesObj (⟨[1, 5], none⟩ : CFit Int) ⟨[2, 4], none⟩ [1] [1] = true ∧
    cdominatesObj (⟨[1, 5], none⟩ : CFit Int) ⟨[], some [1]⟩ [1] [] = true := by decide

example : violates (⟨[], some [1, 0]⟩ : CFit Int) = true ∧ violates (⟨[], some [1, -1]⟩ : CFit Int) = false ∧
    violates (⟨[3, -2], none⟩ : CFit Int) = false := by decide
example : dominates (⟨[3, -2]⟩ : Fit Int) ⟨[3, -5]⟩ [0, 1] [0, 1] = true ∧
    dominates (⟨[3, -2]⟩ : Fit Int) ⟨[4, -5]⟩ [0, 1] [0, 1] = false ∧
    dominates (⟨[3, -2]⟩ : Fit Int) ⟨[4, -5]⟩ [1] [1] = true := by decide
example : lt (⟨[1, 2]⟩ : Fit Int) ⟨[1, 2, 0]⟩ = true ∧ lt (⟨[1, 3]⟩ : Fit Int) ⟨[1, 2, 0]⟩ = false := by decide
example : (setValues [1, -1] [3, 4] : Option (Fit Int)) = some ⟨[3, -4]⟩ := by decide

end C01
