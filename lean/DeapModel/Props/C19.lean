/-
C19 — Penalty decorators leave feasible fitness intact and never reward infeasibility.
Property theorems only; the model is `DeapModel/Core/Penalty.lean`, helper lemmas are in
`DeapModel/Lemmas/C19.lean`.

All theorems hold for every linearly ordered ring `α` (so for ℚ, ℝ, ℤ), every type `X` of
individuals, every type `A` of forwarded extra arguments, every feasibility / distance /
closest-point / evaluation function and every number of objectives.  `sgn w = if 0 ≤ w then 1 else -1`
is the code's reading of a weight: a zero weight is treated as `+1`.
-/
import DeapModel.Lemmas.C19
import DeapModel.Lemmas.C19Gen
import DeapModel.Lemmas.C01Class

set_option linter.unusedSectionVars false
set_option linter.unusedSimpArgs false

namespace C19
open Penalty

variable {α : Type} [Ring α] [LinearOrder α] [IsStrictOrderedRing α] {X A : Type}

/-! ### Feasible individuals: the decorated function *is* the undecorated one -/

/-- For a feasible individual `DeltaPenalty` returns exactly what the undecorated function
returns and calls it exactly once, on that individual, with the extra arguments forwarded. -/
theorem feasible_passthrough_delta (feas : X → Bool) (delta : SV α) (dist : Option (X → SV α))
    (weights : X → List α) (f : X → A → List α) (x : X) (a : A) (h : feas x = true) :
    deltaPenalty feas delta dist weights f x a = ⟨some (f x a), [(x, a)]⟩ := by
  simp [deltaPenalty, h]

/-- Same for `ClosestValidPenalty`: the closest-point function plays no role. -/
theorem feasible_passthrough_closest (feas : X → Bool) (closest : X → X) (alpha : α)
    (dist : Option (X → X → SV α)) (weights : X → List α) (f : X → A → List α) (x : X) (a : A)
    (h : feas x = true) :
    closestValidPenalty feas closest alpha dist weights f x a = ⟨some (f x a), [(x, a)]⟩ := by
  simp [closestValidPenalty, h]

/-! ### DeltaPenalty on infeasible individuals -/

/-- The evaluation function is not called for an infeasible individual, and a fitness is
returned (no exception). -/
theorem delta_no_call (feas : X → Bool) (delta : SV α) (dist : Option (X → SV α))
    (weights : X → List α) (f : X → A → List α) (x : X) (a : A) (h : feas x = false) :
    (deltaPenalty feas delta dist weights f x a).calls = [] ∧
    (deltaPenalty feas delta dist weights f x a).result.isSome = true := by
  simp [deltaPenalty, h]

/-- Exact characterisation of every returned objective: position `i` of the result exists
iff the constant, the weight and the distance all have an `i`-th item (`zip`), and then it is
`δᵢ − sgn(wᵢ)·dᵢ`, where `dᵢ` is `0` without a distance function, the scalar returned by it,
or the `i`-th item of the vector returned by it. -/
theorem delta_formula (feas : X → Bool) (delta : SV α) (dist : Option (X → SV α))
    (weights : X → List α) (f : X → A → List α) (x : X) (a : A) (h : feas x = false) :
    ∃ r, (deltaPenalty feas delta dist weights f x a).result = some r ∧
      ∀ i p, r[i]? = some p ↔
        ∃ δi wi di, delta.get? i = some δi ∧ (weights x)[i]? = some wi ∧
          (deltaDists dist (weights x) x).get? i = some di ∧ p = δi - sgn wi * di := by
  refine ⟨_, by simp only [deltaPenalty, h]; rfl, ?_⟩
  intro i p
  simp only [zip3With_getElem?, signs, List.length_map, List.getElem?_map]
  constructor
  · intro hp
    cases hw : (weights x)[i]? with
    | none => simp [hw] at hp
    | some wi =>
      have hi : i < (weights x).length := (List.getElem?_eq_some_iff.1 hw).1
      rw [upTo_getElem? _ _ _ hi, upTo_getElem? _ _ _ hi, hw] at hp
      cases hδ : delta.get? i with
      | none => simp [hδ] at hp
      | some δi =>
        cases hd : (deltaDists dist (weights x) x).get? i with
        | none => simp [hδ, hd] at hp
        | some di =>
          simp only [hδ, hd, Option.map_some, Option.bind_some, Option.some.injEq] at hp
          exact ⟨δi, wi, di, rfl, rfl, rfl, hp.symm⟩
  · rintro ⟨δi, wi, di, hδ, hw, hd, rfl⟩
    have hi : i < (weights x).length := (List.getElem?_eq_some_iff.1 hw).1
    rw [upTo_getElem? _ _ _ hi, upTo_getElem? _ _ _ hi, hw, hδ, hd]
    simp

/-- One value per objective when the constants and the distances are well-sized (a scalar, or a
vector with one entry per objective). -/
theorem delta_length (feas : X → Bool) (delta : SV α) (dist : Option (X → SV α))
    (weights : X → List α) (f : X → A → List α) (x : X) (a : A) (h : feas x = false)
    (hδ : ∀ v, delta = .seq v → v.length = (weights x).length)
    (hd : ∀ d v, dist = some d → d x = .seq v → v.length = (weights x).length) :
    ∃ r, (deltaPenalty feas delta dist weights f x a).result = some r ∧
      r.length = (weights x).length := by
  refine ⟨_, by simp only [deltaPenalty, h]; rfl, ?_⟩
  rw [zip3With_length]
  have h1 : (delta.upTo (signs (weights x)).length).length = (weights x).length := by
    cases delta with
    | scalar c => simp [SV.upTo, signs]
    | seq v => simpa [SV.upTo] using hδ v rfl
  have h2 : ((deltaDists dist (weights x) x).upTo (signs (weights x)).length).length
      = (weights x).length := by
    cases dist with
    | none => simp [deltaDists, SV.upTo]
    | some d =>
      cases hdx : d x with
      | scalar c => simp [deltaDists, hdx, SV.upTo, signs]
      | seq v => simpa [deltaDists, hdx, SV.upTo] using hd d v rfl hdx
  rw [h1, h2]; simp [signs]

/-- Without a distance function the penalised fitness is the constant itself. -/
theorem delta_formula_no_distance (feas : X → Bool) (delta : SV α)
    (weights : X → List α) (f : X → A → List α) (x : X) (a : A) (h : feas x = false) :
    ∃ r, (deltaPenalty feas delta none weights f x a).result = some r ∧
      ∀ i δi, i < (weights x).length → delta.get? i = some δi → r[i]? = some δi := by
  obtain ⟨r, hr, hf⟩ := delta_formula feas delta none weights f x a h
  refine ⟨r, hr, fun i δi hi hδ => ?_⟩
  rw [hf]
  exact ⟨δi, (weights x)[i], 0, hδ, List.getElem?_eq_getElem hi,
    by simp [deltaDists, SV.get?, hi], by simp⟩

/-! ### ClosestValidPenalty on infeasible individuals -/

/-- The evaluation function is called exactly once, on the supplied closest feasible point,
with the extra arguments forwarded — whether or not the sizes match. -/
theorem closest_calls (feas : X → Bool) (closest : X → X) (alpha : α)
    (dist : Option (X → X → SV α)) (weights : X → List α) (f : X → A → List α) (x : X) (a : A)
    (h : feas x = false) :
    (closestValidPenalty feas closest alpha dist weights f x a).calls = [(closest x, a)] := by
  simp only [closestValidPenalty, h, Bool.false_eq_true, ↓reduceIte]
  split <;> rfl

/-- Exact characterisation of every returned objective when the evaluation function returns one
value per weight: `fᵢ(valid x) − sgn(wᵢ)·α·dᵢ`, the distance function being asked for
`(valid x, x)`. -/
theorem closest_formula (feas : X → Bool) (closest : X → X) (alpha : α)
    (dist : Option (X → X → SV α)) (weights : X → List α) (f : X → A → List α) (x : X) (a : A)
    (h : feas x = false) (hlen : (f (closest x) a).length = (weights x).length) :
    (closestValidPenalty feas closest alpha dist weights f x a).calls = [(closest x, a)] ∧
    ∃ r, (closestValidPenalty feas closest alpha dist weights f x a).result = some r ∧
      ∀ i p, r[i]? = some p ↔
        ∃ fi wi di, (f (closest x) a)[i]? = some fi ∧ (weights x)[i]? = some wi ∧
          (closestDists dist (weights x) (closest x) x).get? i = some di ∧
          p = fi - sgn wi * alpha * di := by
  refine ⟨closest_calls feas closest alpha dist weights f x a h, ?_⟩
  have hl : (signs (weights x)).length = (f (closest x) a).length := by simp [signs, hlen]
  refine ⟨(zip3With (fun f w d => f - w * alpha * d) (f (closest x) a) (signs (weights x))
      ((closestDists dist (weights x) (closest x) x).upTo (signs (weights x)).length)),
    by simp [closestValidPenalty, h, hl], ?_⟩
  intro i p
  simp only [zip3With_getElem?, signs, List.length_map, List.getElem?_map]
  constructor
  · intro hp
    cases hw : (weights x)[i]? with
    | none => simp [hw] at hp
    | some wi =>
      have hi : i < (weights x).length := (List.getElem?_eq_some_iff.1 hw).1
      rw [upTo_getElem? _ _ _ hi, hw] at hp
      cases hδ : (f (closest x) a)[i]? with
      | none => simp [hδ] at hp
      | some fi =>
        cases hd : (closestDists dist (weights x) (closest x) x).get? i with
        | none => simp [hδ, hd] at hp
        | some di =>
          simp only [hδ, hd, Option.map_some, Option.bind_some, Option.some.injEq] at hp
          exact ⟨fi, wi, di, rfl, rfl, rfl, hp.symm⟩
  · rintro ⟨fi, wi, di, hδ, hw, hd, rfl⟩
    have hi : i < (weights x).length := (List.getElem?_eq_some_iff.1 hw).1
    rw [upTo_getElem? _ _ _ hi, hw, hδ, hd]
    simp

/-- One value per objective when the distances are well-sized. -/
theorem closest_length (feas : X → Bool) (closest : X → X) (alpha : α)
    (dist : Option (X → X → SV α)) (weights : X → List α) (f : X → A → List α) (x : X) (a : A)
    (h : feas x = false) (hlen : (f (closest x) a).length = (weights x).length)
    (hd : ∀ d v, dist = some d → d (closest x) x = .seq v → v.length = (weights x).length) :
    ∃ r, (closestValidPenalty feas closest alpha dist weights f x a).result = some r ∧
      r.length = (weights x).length := by
  have hl : (signs (weights x)).length = (f (closest x) a).length := by simp [signs, hlen]
  refine ⟨(zip3With (fun f w d => f - w * alpha * d) (f (closest x) a) (signs (weights x))
      ((closestDists dist (weights x) (closest x) x).upTo (signs (weights x)).length)),
    by simp [closestValidPenalty, h, hl], ?_⟩
  rw [zip3With_length]
  have h2 : ((closestDists dist (weights x) (closest x) x).upTo (signs (weights x)).length).length
      = (weights x).length := by
    cases dist with
    | none => simp [closestDists, SV.upTo]
    | some d =>
      cases hdx : d (closest x) x with
      | scalar c => simp [closestDists, hdx, SV.upTo, signs]
      | seq v => simpa [closestDists, hdx, SV.upTo] using hd d v rfl hdx
  rw [h2, hlen]; simp [signs]

/-- The code's guard (constraint.py:122-123): a fitness of the wrong size is rejected with an
exception, after the single call on the closest point. -/
theorem closest_size_mismatch (feas : X → Bool) (closest : X → X) (alpha : α)
    (dist : Option (X → X → SV α)) (weights : X → List α) (f : X → A → List α) (x : X) (a : A)
    (h : feas x = false) (hlen : (f (closest x) a).length ≠ (weights x).length) :
    closestValidPenalty feas closest alpha dist weights f x a = ⟨none, [(closest x, a)]⟩ := by
  have hl : (signs (weights x)).length ≠ (f (closest x) a).length := by
    simpa [signs] using fun e => hlen e.symm
  simp [closestValidPenalty, h, hl]

/-! ### Never better than the constant / the closest valid fitness -/

/-- With non-negative distances the penalised fitness is on no objective better than the
constant: in weighted terms `wᵢ·penᵢ ≤ wᵢ·δᵢ` for every sign and magnitude of `wᵢ` (zero included),
i.e. not above `δᵢ` for a maximised (or zero-weight) objective and not below it for a minimised one. -/
theorem never_better_delta (feas : X → Bool) (delta : SV α) (dist : Option (X → SV α))
    (weights : X → List α) (f : X → A → List α) (x : X) (a : A) (h : feas x = false)
    (hd : ∀ d, dist = some d → ∀ v ∈ (d x).vals, 0 ≤ v)
    (r : List α) (hr : (deltaPenalty feas delta dist weights f x a).result = some r)
    (i : Nat) (p δi wi : α) (hp : r[i]? = some p) (hδ : delta.get? i = some δi)
    (hw : (weights x)[i]? = some wi) :
    wi * p ≤ wi * δi ∧ (0 ≤ wi → p ≤ δi) ∧ (wi < 0 → δi ≤ p) := by
  obtain ⟨r', hr', hf⟩ := delta_formula feas delta dist weights f x a h
  have : r' = r := by rw [hr'] at hr; exact Option.some.inj hr
  subst this
  obtain ⟨δ', w', di, hδ', hw', hdi, rfl⟩ := (hf i p).1 hp
  rw [hδ] at hδ'; rw [hw] at hw'
  obtain rfl := Option.some.inj hδ'; obtain rfl := Option.some.inj hw'
  have hdn : 0 ≤ di := by
    cases dist with
    | none =>
      simp only [deltaDists, SV.get?, List.getElem?_map] at hdi
      cases hh : (weights x)[i]? <;> simp [hh] at hdi
      rw [← hdi]
    | some d =>
      apply hd d rfl
      simp only [deltaDists] at hdi
      cases hdx : d x with
      | scalar c => simp [hdx, SV.get?] at hdi; simp [SV.vals, hdi]
      | seq v => simp only [hdx, SV.get?] at hdi; exact List.mem_of_getElem? hdi
  exact ⟨never_better_scalar _ _ _ hdn, fun h0 => never_better_pos _ _ _ h0 hdn,
    fun h0 => never_better_neg _ _ _ h0 hdn⟩

/-- With `α ≥ 0` and non-negative distances the penalised fitness is on no objective better
than the fitness of the closest valid point. -/
theorem never_better_closest (feas : X → Bool) (closest : X → X) (alpha : α)
    (dist : Option (X → X → SV α)) (weights : X → List α) (f : X → A → List α) (x : X) (a : A)
    (h : feas x = false) (hα : 0 ≤ alpha)
    (hd : ∀ d, dist = some d → ∀ v ∈ (d (closest x) x).vals, 0 ≤ v)
    (r : List α) (hr : (closestValidPenalty feas closest alpha dist weights f x a).result = some r)
    (i : Nat) (p fi wi : α) (hp : r[i]? = some p) (hfi : (f (closest x) a)[i]? = some fi)
    (hw : (weights x)[i]? = some wi) :
    wi * p ≤ wi * fi ∧ (0 ≤ wi → p ≤ fi) ∧ (wi < 0 → fi ≤ p) := by
  have hlen : (f (closest x) a).length = (weights x).length := by
    by_contra hne
    rw [closest_size_mismatch feas closest alpha dist weights f x a h hne] at hr
    exact absurd hr (by simp)
  obtain ⟨_, r', hr', hf⟩ := closest_formula feas closest alpha dist weights f x a h hlen
  have : r' = r := by rw [hr'] at hr; exact Option.some.inj hr
  subst this
  obtain ⟨f', w', di, hf', hw', hdi, rfl⟩ := (hf i p).1 hp
  rw [hfi] at hf'; rw [hw] at hw'
  obtain rfl := Option.some.inj hf'; obtain rfl := Option.some.inj hw'
  have hdn : 0 ≤ di := by
    cases dist with
    | none =>
      simp only [closestDists, SV.get?, List.getElem?_map] at hdi
      cases hh : (weights x)[i]? <;> simp [hh] at hdi
      rw [← hdi]
    | some d =>
      apply hd d rfl
      simp only [closestDists] at hdi
      cases hdx : d (closest x) x with
      | scalar c => simp [hdx, SV.get?] at hdi; simp [SV.vals, hdi]
      | seq v => simp only [hdx, SV.get?] at hdi; exact List.mem_of_getElem? hdi
  have hαd : 0 ≤ alpha * di := mul_nonneg hα hdn
  simp only [mul_assoc]
  exact ⟨never_better_scalar _ _ _ hαd, fun h0 => never_better_pos _ _ _ h0 hαd,
    fun h0 => never_better_neg _ _ _ h0 hαd⟩

/-! ### Never improves as the distance grows -/

/-- Two distance functions (or the same one at two individuals' worth of distance): where the
`i`-th distance is larger, the `i`-th penalised objective is no better. -/
theorem monotone_in_distance_delta (feas : X → Bool) (delta : SV α) (dist dist' : Option (X → SV α))
    (weights : X → List α) (f : X → A → List α) (x : X) (a : A) (h : feas x = false)
    (r r' : List α) (hr : (deltaPenalty feas delta dist weights f x a).result = some r)
    (hr' : (deltaPenalty feas delta dist' weights f x a).result = some r')
    (i : Nat) (p p' wi di di' : α) (hp : r[i]? = some p) (hp' : r'[i]? = some p')
    (hw : (weights x)[i]? = some wi)
    (hdi : (deltaDists dist (weights x) x).get? i = some di)
    (hdi' : (deltaDists dist' (weights x) x).get? i = some di') (hle : di ≤ di') :
    wi * p' ≤ wi * p ∧ (0 ≤ wi → p' ≤ p) ∧ (wi < 0 → p ≤ p') := by
  obtain ⟨s, hs, hf⟩ := delta_formula feas delta dist weights f x a h
  obtain ⟨s', hs', hf'⟩ := delta_formula feas delta dist' weights f x a h
  have e : s = r := by rw [hs] at hr; exact Option.some.inj hr
  have e' : s' = r' := by rw [hs'] at hr'; exact Option.some.inj hr'
  subst e; subst e'
  obtain ⟨δ1, w1, d1, hδ1, hw1, hd1, rfl⟩ := (hf i p).1 hp
  obtain ⟨δ2, w2, d2, hδ2, hw2, hd2, rfl⟩ := (hf' i p').1 hp'
  rw [hw] at hw1 hw2; rw [hdi] at hd1; rw [hdi'] at hd2; rw [hδ1] at hδ2
  obtain rfl := Option.some.inj hw1; obtain rfl := Option.some.inj hw2
  obtain rfl := Option.some.inj hd1; obtain rfl := Option.some.inj hd2
  obtain rfl := Option.some.inj hδ2
  exact ⟨monotone_scalar _ _ _ _ hle, fun h0 => monotone_pos _ _ _ _ h0 hle,
    fun h0 => monotone_neg _ _ _ _ h0 hle⟩

/-- Same for the closest-valid decorator, for every `α ≥ 0`. -/
theorem monotone_in_distance_closest (feas : X → Bool) (closest : X → X) (alpha : α)
    (dist dist' : Option (X → X → SV α)) (weights : X → List α) (f : X → A → List α) (x : X) (a : A)
    (h : feas x = false) (hα : 0 ≤ alpha)
    (r r' : List α)
    (hr : (closestValidPenalty feas closest alpha dist weights f x a).result = some r)
    (hr' : (closestValidPenalty feas closest alpha dist' weights f x a).result = some r')
    (i : Nat) (p p' wi di di' : α) (hp : r[i]? = some p) (hp' : r'[i]? = some p')
    (hw : (weights x)[i]? = some wi)
    (hdi : (closestDists dist (weights x) (closest x) x).get? i = some di)
    (hdi' : (closestDists dist' (weights x) (closest x) x).get? i = some di') (hle : di ≤ di') :
    wi * p' ≤ wi * p ∧ (0 ≤ wi → p' ≤ p) ∧ (wi < 0 → p ≤ p') := by
  have hlen : (f (closest x) a).length = (weights x).length := by
    by_contra hne
    rw [closest_size_mismatch feas closest alpha dist weights f x a h hne] at hr
    exact absurd hr (by simp)
  obtain ⟨_, s, hs, hf⟩ := closest_formula feas closest alpha dist weights f x a h hlen
  obtain ⟨_, s', hs', hf'⟩ := closest_formula feas closest alpha dist' weights f x a h hlen
  have e : s = r := by rw [hs] at hr; exact Option.some.inj hr
  have e' : s' = r' := by rw [hs'] at hr'; exact Option.some.inj hr'
  subst e; subst e'
  obtain ⟨f1, w1, d1, hf1, hw1, hd1, rfl⟩ := (hf i p).1 hp
  obtain ⟨f2, w2, d2, hf2, hw2, hd2, rfl⟩ := (hf' i p').1 hp'
  rw [hw] at hw1 hw2; rw [hdi] at hd1; rw [hdi'] at hd2; rw [hf1] at hf2
  obtain rfl := Option.some.inj hw1; obtain rfl := Option.some.inj hw2
  obtain rfl := Option.some.inj hd1; obtain rfl := Option.some.inj hd2
  obtain rfl := Option.some.inj hf2
  have hαd : alpha * di ≤ alpha * di' := mul_le_mul_of_nonneg_left hle hα
  simp only [mul_assoc]
  exact ⟨monotone_scalar _ _ _ _ hαd, fun h0 => monotone_pos _ _ _ _ h0 hαd,
    fun h0 => monotone_neg _ _ _ _ h0 hαd⟩

/-! ### No history: the decorators are pure functions of what they are given at `x` -/

/-- The decorated function has no memory and looks at nothing but the individual it is called on:
two configurations (feasibility, distance, weights, closest point, evaluation function — e.g. the
same decorator instance before and after any number of other calls, or called on individuals of
other fitness classes) that agree AT `x` return the same fitness and the same call log.  Hence a
sequence of calls through one decorator instance is the list of the independent single calls, and
any dependence of the implementation on earlier calls contradicts the model. -/
theorem decorators_stateless (delta : SV α) (alpha : α) (x : X) (a : A)
    (feas feas' : X → Bool) (weights weights' : X → List α) (f f' : X → A → List α)
    (dist dist' : Option (X → SV α)) (closest closest' : X → X) (dist2 dist2' : Option (X → X → SV α))
    (hfe : feas x = feas' x) (hw : weights x = weights' x) (hf : f x a = f' x a)
    (hd : dist.map (· x) = dist'.map (· x))
    (hc : closest x = closest' x) (hfc : f (closest x) a = f' (closest x) a)
    (hd2 : dist2.map (· (closest x) x) = dist2'.map (· (closest x) x)) :
    deltaPenalty feas delta dist weights f x a = deltaPenalty feas' delta dist' weights' f' x a ∧
    closestValidPenalty feas closest alpha dist2 weights f x a =
      closestValidPenalty feas' closest' alpha dist2' weights' f' x a := by
  have h1 : deltaDists dist (weights x) x = deltaDists dist' (weights' x) x := by
    rw [← hw]
    cases dist <;> cases dist' <;> simp_all [deltaDists]
  have h2 : closestDists dist2 (weights x) (closest x) x =
      closestDists dist2' (weights' x) (closest' x) x := by
    rw [← hw, ← hc]
    cases dist2 <;> cases dist2' <;> simp_all [closestDists]
  constructor
  · simp only [deltaPenalty, ← hfe, ← hw, ← hf, h1]
  · simp only [closestValidPenalty, ← hfe, ← hc, ← hfc, ← hf]
    rw [hc] at h2; simp only [← hw, ← hc] at h2 ⊢; simp only [h2]

/-- One decorator object decorating several functions (`toolbox.decorate` called twice with the
same object): a decorated function is a pure function of (decorator parameters, wrapped function,
arguments), so the `j`-th wrapper is the decoration of the `j`-th function and of nothing else —
whatever else was decorated before or after, and whatever fitness is stored on the individual or
on the closest point (the model has no such input). -/
theorem wrappers_independent (feas : X → Bool) (delta : SV α) (dist : Option (X → SV α))
    (closest : X → X) (alpha : α) (dist2 : Option (X → X → SV α)) (weights : X → List α)
    (fs : List (X → A → List α)) (j : Nat) (hj : j < fs.length) (x : X) (a : A) :
    ((fs.map fun f => deltaPenalty feas delta dist weights f)[j]'(by simpa using hj)) x a =
      deltaPenalty feas delta dist weights fs[j] x a ∧
    ((fs.map fun f => closestValidPenalty feas closest alpha dist2 weights f)[j]'(by simpa using hj)) x a =
      closestValidPenalty feas closest alpha dist2 weights fs[j] x a := by
  simp

/-! ### Families of related fitness classes: only the weights the individual's OWN class resolves to matter -/

section Classes
open Fitness

/-- **Class isolation.**  The penalised value (and the call log) of an individual depends on the world of fitness
classes only through the weights its OWN class resolves to: two class tables (e.g. before and after other classes
were created) and two class assignments under which the class of `x` resolves to the same weights give the same
outcome, for both decorators — whatever any other class (parent, child, sibling) declares, and whichever individuals
of those classes went through a decorator before (a decorated call returns no new table: `runHistory`). -/
theorem penalty_class_isolation (tbl tbl' : ClassTable α) (cls cls' : X → Nat) (feas : X → Bool) (delta : SV α)
    (dist : Option (X → SV α)) (closest : X → X) (alpha : α) (dist2 : Option (X → X → SV α))
    (f : X → A → List α) (x : X) (a : A)
    (h : lookupWeights tbl (cls x) = lookupWeights tbl' (cls' x)) :
    deltaPenaltyCls tbl cls feas delta dist f x a = deltaPenaltyCls tbl' cls' feas delta dist f x a ∧
    closestValidPenaltyCls tbl cls feas closest alpha dist2 f x a =
      closestValidPenaltyCls tbl' cls' feas closest alpha dist2 f x a := by
  simp [deltaPenaltyCls, closestValidPenaltyCls, h]

/-- A class that declares its own `weights` is penalised with them, whatever its parent (or any ancestor) declares:
the derived class `creator.create("MinMax", creator.MinMin, weights=(-1, 1))` moves its second objective DOWN. -/
theorem penalty_class_own_weights (tbl : ClassTable α) (cls : X → Nat) (w : List α) (p : Option Nat)
    (feas : X → Bool) (delta : SV α) (dist : Option (X → SV α)) (closest : X → X) (alpha : α)
    (dist2 : Option (X → X → SV α)) (f : X → A → List α) (x : X) (a : A)
    (h : tbl[cls x]? = some ⟨some w, p⟩) :
    deltaPenaltyCls tbl cls feas delta dist f x a = some (deltaPenalty feas delta dist (fun _ => w) f x a) ∧
    closestValidPenaltyCls tbl cls feas closest alpha dist2 f x a =
      some (closestValidPenalty feas closest alpha dist2 (fun _ => w) f x a) := by
  simp [deltaPenaltyCls, closestValidPenaltyCls, C01.lookupWeights_own tbl (cls x) w p h]

/-- A class that declares no `weights` is penalised exactly as an individual of its parent class would be. -/
theorem penalty_class_inherits (tbl : ClassTable α) (hwf : C01.TableWF tbl) (cls cls' : X → Nat) (p : Nat)
    (feas : X → Bool) (delta : SV α) (dist : Option (X → SV α)) (closest : X → X) (alpha : α)
    (dist2 : Option (X → X → SV α)) (f : X → A → List α) (x : X) (a : A)
    (h : tbl[cls x]? = some ⟨none, some p⟩) (hp : cls' x = p) :
    deltaPenaltyCls tbl cls feas delta dist f x a = deltaPenaltyCls tbl cls' feas delta dist f x a ∧
    closestValidPenaltyCls tbl cls feas closest alpha dist2 f x a =
      closestValidPenaltyCls tbl cls' feas closest alpha dist2 f x a :=
  penalty_class_isolation tbl tbl cls cls' feas delta dist closest alpha dist2 f x a
    (by rw [C01.lookupWeights_inherit tbl hwf (cls x) p h, hp])

/-- Classes created later (a derived class, a sibling) change nothing for the individuals of an existing class. -/
theorem penalty_class_later_classes (tbl ext : ClassTable α) (hwf : C01.TableWF tbl) (cls : X → Nat)
    (feas : X → Bool) (delta : SV α) (dist : Option (X → SV α)) (closest : X → X) (alpha : α)
    (dist2 : Option (X → X → SV α)) (f : X → A → List α) (x : X) (a : A) (hc : cls x < tbl.length) :
    deltaPenaltyCls (tbl ++ ext) cls feas delta dist f x a = deltaPenaltyCls tbl cls feas delta dist f x a ∧
    closestValidPenaltyCls (tbl ++ ext) cls feas closest alpha dist2 f x a =
      closestValidPenaltyCls tbl cls feas closest alpha dist2 f x a :=
  penalty_class_isolation (tbl ++ ext) tbl cls cls feas delta dist closest alpha dist2 f x a
    (C01.lookupWeights_append tbl ext hwf (cls x) hc)

/-- **Histories.**  The outcome of the `j`-th call of a history (any decorators of either class, any decorated
functions, individuals of any classes of the family) is the outcome of that call made alone: it does not depend on
which calls came before it, in which order the classes were first used, or on how many calls there were. -/
theorem penalty_history_independent (tbl : ClassTable α) (cls : X → Nat) (h : List (HCall X A α)) (j : Nat)
    (hj : j < h.length) :
    (runHistory tbl cls h)[j]? = some (h[j].run tbl cls) ∧
    ∀ (h' : List (HCall X A α)) (j' : Nat), h'[j']? = some h[j] → (runHistory tbl cls h')[j']? = (runHistory tbl cls h)[j]? := by
  refine ⟨by simp [runHistory, hj], fun h' j' e => ?_⟩
  simp [runHistory, hj, e]

end Classes

/-! ### The whole keyword map is passed through -/

/-- The extras are `*args` and the keyword MAP `**kwargs` (names `String`, values `V`).  For a feasible individual
both decorators return what the undecorated function returns when called the same way and call it once with the
same positional arguments and a keyword map in which EVERY name — `verbose`, `func`, `self`, `alpha`, any string —
has the value the caller gave it (and no name was added); for an infeasible individual `ClosestValidPenalty`
evaluates the closest point with that same map. -/
theorem feasible_passthrough_kwargs {P V : Type} (feas : X → Bool) (delta : SV α) (dist : Option (X → SV α))
    (closest : X → X) (alpha : α) (dist2 : Option (X → X → SV α)) (weights : X → List α)
    (f : X → (List P × List (String × V)) → List α) (x : X) (args : List P) (kw : List (String × V)) :
    (feas x = true →
      deltaPenalty feas delta dist weights f x (args, kw) = ⟨some (f x (args, kw)), [(x, (args, kw))]⟩ ∧
      closestValidPenalty feas closest alpha dist2 weights f x (args, kw) = ⟨some (f x (args, kw)), [(x, (args, kw))]⟩) ∧
    (∀ c ∈ (deltaPenalty feas delta dist weights f x (args, kw)).calls ++
        (closestValidPenalty feas closest alpha dist2 weights f x (args, kw)).calls,
      c.2.1 = args ∧ c.2.2 = kw ∧ ∀ name : String, c.2.2.lookup name = kw.lookup name) := by
  refine ⟨fun h => ⟨feasible_passthrough_delta feas delta dist weights f x _ h,
    feasible_passthrough_closest feas closest alpha dist2 weights f x _ h⟩, ?_⟩
  intro c hc
  have key : c.2 = (args, kw) := by
    cases h : feas x
    · have h1 := (delta_no_call feas delta dist weights f x (args, kw) h).1
      have h2 := closest_calls feas closest alpha dist2 weights f x (args, kw) h
      rw [h1, h2] at hc
      simp at hc; rw [hc]
    · rw [feasible_passthrough_delta feas delta dist weights f x _ h,
        feasible_passthrough_closest feas closest alpha dist2 weights f x _ h] at hc
      simp at hc; rw [hc]
  rw [key]; exact ⟨rfl, rfl, fun _ => rfl⟩

/-! ### Non-vacuity: concrete instances (weights of both signs and zero, scalar / vector
constants and distances, a forwarded extra argument) -/

-- infeasible, scalar constant, vector distance, weights (+, −, 0): δ − d, δ + d, δ − d; no call
example : deltaPenalty (fun _ => false) (.scalar (10 : Int)) (some fun _ => .seq [1, 2, 3])
    (fun _ => [2, -3, 0]) (fun (_ : Nat) (_ : Nat) => [0, 0, 0]) 7 5 = ⟨some [9, 12, 7], []⟩ := by
  decide
-- infeasible, per-objective constants, scalar distance
example : deltaPenalty (fun _ => false) (.seq [10, 20]) (some fun _ => .scalar (4 : Int))
    (fun _ => [1, -1]) (fun (_ : Nat) (_ : Nat) => [0, 0]) 7 5 = ⟨some [6, 24], []⟩ := by decide
-- infeasible, no distance function
example : deltaPenalty (fun _ => false) (.seq [10, 20]) (none : Option (Nat → SV Int))
    (fun _ => [1, -1]) (fun (_ : Nat) (_ : Nat) => [0, 0]) 7 5 = ⟨some [10, 20], []⟩ := by decide
-- feasible: untouched result, one call with the extra argument 5
example : deltaPenalty (fun _ => true) (.scalar (10 : Int)) (some fun _ => .scalar 4)
    (fun _ => [1, -1]) (fun (x : Nat) (a : Nat) => [x, a]) 7 5 = ⟨some [7, 5], [(7, 5)]⟩ := by decide
-- closest valid: f is called on `closest x = x + 100` only; α = 2, d = (3, 3)
example : closestValidPenalty (fun _ => false) (· + 100) (2 : Int) (some fun _ _ => .scalar 3)
    (fun _ => [1, -1]) (fun (x : Nat) (a : Nat) => [x, a]) 7 5 = ⟨some [101, 11], [(107, 5)]⟩ := by
  decide
-- the distance function is asked for (closest x, x), in this order
example : closestValidPenalty (fun _ => false) (· + 100) (1 : Int)
    (some fun (c y : Nat) => .seq [(c : Int), (y : Int)])
    (fun _ => [1, -1]) (fun (_ : Nat) (_ : Nat) => [0, 0]) 7 5 = ⟨some [-107, 7], [(107, 5)]⟩ := by
  decide
-- the size guard
example : closestValidPenalty (fun _ => false) (· + 100) (1 : Int) none
    (fun _ => [1, -1]) (fun (x : Nat) (_ : Nat) => [x]) 7 5 = ⟨none, [(107, 5)]⟩ := by decide
-- `decorators_stateless`: two configurations that differ away from x = 7 but agree there
example : deltaPenalty (fun y => decide (y < 5)) (.scalar (10 : Int)) (some fun (y : Nat) => .scalar (y : Int))
      (fun y => if y = 7 then [1, -1] else [-1]) (fun (y : Nat) (_ : Nat) => [y, y]) 7 5 =
    deltaPenalty (fun _ => false) (.scalar (10 : Int)) (some fun _ => .scalar 7)
      (fun _ => [1, -1]) (fun (_ : Nat) (_ : Nat) => [7, 7]) 7 5 := by decide
-- `wrappers_independent`: three functions behind one decorator, the middle wrapper uses the middle one
example : (([fun (y : Nat) (_ : Nat) => [(y : Int)], fun y a => [(y + a : Nat)], fun _ _ => [0]].map
      fun f => deltaPenalty (fun _ => true) (.scalar (10 : Int)) none (fun _ => [1]) f)[1]) 7 5 =
    ⟨some [12], [(7, 5)]⟩ := by decide
-- hypotheses of `never_better_*` / `delta_length`: non-negative distances, well-sized vectors
example : (∀ v ∈ (SV.seq [(1 : Int), 2, 3]).vals, 0 ≤ v) ∧ (∀ v ∈ (SV.scalar (0 : Int)).vals, 0 ≤ v) := by
  decide
-- `penalty_class_own_weights` / r7m2's family: parent (-1, -1), child overriding with (-1, 1), a grandchild inheriting
-- from the child; the table is well-formed; the child's second objective goes DOWN, whatever the parent declares
example : C01.TableWF ([⟨some [-1, -1], none⟩, ⟨some [-1, 1], some 0⟩, ⟨none, some 1⟩] : Fitness.ClassTable Int) := by
  intro c k h p hp
  match c, h with
  | 0, h => simp at h; subst h; simp at hp
  | 1, h => simp at h; subst h; simp at hp; omega
  | 2, h => simp at h; subst h; simp at hp; omega
  | _ + 3, h => simp at h
example : (runHistory ([⟨some [-1, -1], none⟩, ⟨some [-1, 1], some 0⟩, ⟨none, some 1⟩] : Fitness.ClassTable Int)
      (fun (x : Nat) => x)
      [⟨false, fun _ => false, .scalar 100, some fun _ => .scalar 7, id, 0, none, fun _ (_ : Nat) => [0, 0], 0, 5⟩,
       ⟨false, fun _ => false, .seq [100, -100], some fun _ => .scalar 7, id, 0, none, fun _ _ => [0, 0], 1, 5⟩,
       ⟨true, fun _ => false, .scalar 0, none, id, 2, some fun _ _ => .scalar 7, fun _ _ => [3, 4], 2, 5⟩]).map
      (fun o => o.bind (·.result)) = [some [107, 107], some [107, -107], some [17, -10]] := by decide
-- `feasible_passthrough_kwargs`: a keyword named `verbose` arrives
example : (closestValidPenalty (fun _ => true) id (1 : Int) none (fun _ => [1])
      (fun (x : Nat) (a : List Nat × List (String × Nat)) => [(x : Int) + ((a.2.lookup "verbose").getD 0 : Nat)])
      7 ([], [("verbose", 2)])).result = some [9] := by decide

end C19
