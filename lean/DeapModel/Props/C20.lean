/-
C20 — Benchmark functions equal their published definitions and optima.
Property theorems only (over ℝ / ℚ / exact integers); the models are `DeapModel/Core/Bench.lean`,
`BenchMO.lean`, `BenchBinary.lean`, `BenchTools.lean`, `MovingPeaks.lean`; helper lemmas are in
`DeapModel/Lemmas/C20*.lean`.

Level: **partial** — the identities, exact optima, decoder range, decorator arguments and the
moving-peaks invariants are proved for all dimensions / objective counts / tapes; that each float
function equals its definition is a tolerance correspondence (rounding is not modelled).
Optima the documentation gives only to a few decimals (schwefel, three minima of himmelblau, h1,
shekel) are numeric tests of the harness, not theorems.
-/
import DeapModel.Lemmas.C20Real
import DeapModel.Lemmas.C20Front
import DeapModel.Lemmas.C20Binary
import DeapModel.Lemmas.C20Tools
import DeapModel.Lemmas.C20MP
import DeapModel.Lemmas.C20MPTotal
import DeapModel.Lemmas.C20Misc
import DeapModel.Lemmas.C20World
import DeapModel.Lemmas.C20Ind
import DeapModel.Lemmas.C20Gen
import Mathlib.Analysis.SpecialFunctions.Trigonometric.Basic
import Mathlib.Analysis.SpecialFunctions.Pow.Real
import Mathlib.Data.Matrix.Mul

set_option linter.unusedSimpArgs false
set_option linter.unusedTactic false
set_option linter.unusedVariables false

namespace C20
open RealLike Bench BenchBin BenchTools MovingPeaks BenchInd C20L

/-! ## 1. Continuous single-objective functions: value at the documented optimum -/

/-- plane at the documented optimum `x = 0` (any dimension ≥ 1, which the code requires) -/
theorem plane_opt (n : Nat) : plane (List.replicate (n + 1) (0 : ℝ)) = some 0 := by
  simp [plane, List.replicate_succ]

/-- sphere(0,…,0) = 0, every dimension -/
theorem sphere_opt (n : Nat) : sphere (List.replicate n (0 : ℝ)) = 0 := by
  simp [sphere]

/-- 0 is the global minimum value of `sphere` -/
theorem sphere_nonneg (x : List ℝ) : 0 ≤ sphere x := by
  simp only [sphere, real_sum, real_mul]
  exact sum_map_nonneg _ _ (fun p _ => mul_self_nonneg p)

/-- cigar(0,…,0) = 0, every dimension ≥ 1 -/
theorem cigar_opt (n : Nat) : cigar (List.replicate (n + 1) (0 : ℝ)) = some 0 := by
  simp [cigar, List.replicate_succ]

/-- rosenbrock(1,…,1) = 0, every dimension -/
theorem rosenbrock_opt (n : Nat) : rosenbrock (List.replicate n (1 : ℝ)) = 0 := by
  simp only [rosenbrock, adjacent_replicate, real_sum]
  apply sum_map_eq_zero
  intro p hp
  rw [List.eq_of_mem_replicate hp]
  real_bridge; norm_num

/-- rastrigin(0,…,0) = 0, every dimension -/
theorem rastrigin_opt (n : Nat) : rastrigin (List.replicate n (0 : ℝ)) = 0 := by
  simp only [rastrigin, real_sum, real_nat, List.length_replicate, real_add]
  rw [sum_map_const _ _ (-10 : ℝ)]
  · simp; ring
  · intro p hp; rw [List.eq_of_mem_replicate hp]; simp

/-- ackley(0,…,0) = 20 - 20·e⁰ + e - e¹ = 0, every dimension ≥ 1 (dimension 0 divides by zero) -/
theorem ackley_opt (n : Nat) : ackley (List.replicate (n + 1) (0 : ℝ)) = some 0 := by
  have hne : ((n : ℝ) + 1) ≠ 0 := by positivity
  simp only [ackley, List.isEmpty_replicate, List.length_replicate, List.map_replicate]
  real_bridge
  simp only [List.sum_replicate, smul_eq_mul]
  norm_num
  rw [inv_mul_cancel₀ hne]
  ring

/-- bohachevsky(0,…,0) = 0, every dimension -/
theorem bohachevsky_opt (n : Nat) : bohachevsky (List.replicate n (0 : ℝ)) = 0 := by
  simp only [bohachevsky, adjacent_replicate, real_sum]
  apply sum_map_eq_zero
  intro p hp
  rw [List.eq_of_mem_replicate hp]
  real_bridge; norm_num

/-- griewank(0,…,0) = 0, every dimension -/
theorem griewank_opt (n : Nat) : griewank (List.replicate n (0 : ℝ)) = 0 := by
  simp only [griewank, List.map_replicate]
  real_bridge
  rw [prod_map_eq_one]
  · simp
  · intro p hp
    rw [enumFrom_replicate_snd _ _ _ p hp]; simp

/-- rastrigin_scaled(0,…,0) = 0 for every dimension the code accepts (N = 1 divides by zero) -/
theorem rastriginScaled_opt (n : Nat) (h : n ≠ 1) :
    rastriginScaled (List.replicate n (0 : ℝ)) = some 0 := by
  simp only [rastriginScaled, List.length_replicate, h, if_false]
  real_bridge
  rw [sum_map_const _ _ (-10 : ℝ)]
  · simp [enumFrom_length]; ring
  · intro p hp
    rw [enumFrom_replicate_snd _ _ _ p hp]; simp

example : (2 : Nat) ≠ 1 := by decide

/-- rastrigin_skew(0,…,0) = 0, every dimension -/
theorem rastriginSkew_opt (n : Nat) : rastriginSkew (List.replicate n (0 : ℝ)) = 0 := by
  simp only [rastriginSkew, List.length_replicate]
  real_bridge
  rw [sum_map_const _ _ (-10 : ℝ)]
  · simp; ring
  · intro p hp; rw [List.eq_of_mem_replicate hp]; simp

/-- schaffer(0,…,0) = 0, every dimension (0^0.25 = 0) -/
theorem schaffer_opt (n : Nat) : schaffer (List.replicate n (0 : ℝ)) = 0 := by
  simp only [schaffer, adjacent_replicate, real_sum]
  apply sum_map_eq_zero
  intro p hp
  rw [List.eq_of_mem_replicate hp]
  real_bridge
  have : (0:ℝ) ^ ((25:ℤ) / (100:ℕ) : ℝ) = 0 := Real.zero_rpow (by norm_num)
  norm_num [this]

/-- himmelblau(3, 2) = 0 — the one minimum the documentation gives exactly -/
theorem himmelblau_opt : himmelblau [(3 : ℝ), 2] = some 0 := by
  simp only [himmelblau]; real_bridge; norm_num

/-- 0 is the global minimum value of `himmelblau` -/
theorem himmelblau_nonneg (x0 x1 : ℝ) (t : List ℝ) : ∃ v, himmelblau (x0 :: x1 :: t) = some v ∧ 0 ≤ v := by
  refine ⟨_, rfl, ?_⟩
  real_bridge; positivity

/-- 0 is the global minimum value of `rosenbrock` -/
theorem rosenbrock_nonneg (x : List ℝ) : 0 ≤ rosenbrock x := by
  simp only [rosenbrock, real_sum]
  apply sum_map_nonneg
  intro p _; real_bridge; positivity

/-- 0 is the global minimum value of `rastrigin` (x² + 10(1 - cos) ≥ 0 term by term) -/
theorem rastrigin_nonneg (x : List ℝ) : 0 ≤ rastrigin x := by
  simp only [rastrigin]
  real_bridge
  have h : ∀ l : List ℝ, 0 ≤ ((10 * l.length : ℕ) : ℝ) + (l.map fun g => g * g - ((10:ℕ):ℝ) * Real.cos (((2:ℕ):ℝ) * Real.pi * g)).sum := by
    intro l
    induction l with
    | nil => simp
    | cons a t ih =>
      simp only [List.length_cons, List.map_cons, List.sum_cons]
      push_cast at ih ⊢
      have := Real.cos_le_one (2 * Real.pi * a)
      nlinarith [mul_self_nonneg a]
  exact h x

/-- 0 is the global minimum value of `cigar` -/
theorem cigar_nonneg (x0 : ℝ) (t : List ℝ) : ∃ v, cigar (x0 :: t) = some v ∧ 0 ≤ v := by
  refine ⟨_, rfl, ?_⟩
  real_bridge
  have := sum_map_nonneg t (fun g => g * g) (fun p _ => mul_self_nonneg p)
  positivity

/-- 0 is the global minimum value of `bohachevsky` -/
theorem bohachevsky_nonneg (x : List ℝ) : 0 ≤ bohachevsky x := by
  simp only [bohachevsky, real_sum]
  apply sum_map_nonneg
  intro p _
  real_bridge; push_cast
  have h1 := Real.cos_le_one (3 * Real.pi * p.1)
  have h2 := Real.cos_le_one (4 * Real.pi * p.2)
  nlinarith [sq_nonneg p.1, sq_nonneg p.2]

/-- 0 is the global minimum value of `schaffer` -/
theorem schaffer_nonneg (x : List ℝ) : 0 ≤ schaffer x := by
  simp only [schaffer, real_sum]
  apply sum_map_nonneg
  intro p _
  real_bridge
  have : 0 ≤ p.1 ^ 2 + p.2 ^ 2 := by positivity
  have := Real.rpow_nonneg this ((25 : ℤ) / (100 : ℕ) : ℝ)
  positivity

/-- 0 is the global minimum value of `griewank` -/
theorem griewank_nonneg (x : List ℝ) : 0 ≤ griewank x := by
  simp only [griewank]
  real_bridge
  have h1 := sum_map_nonneg x (fun v => v ^ 2) (fun p _ => sq_nonneg p)
  have h2 : ((enumFrom 0 x).map fun p => Real.cos (p.2 / Real.sqrt (((p.1 : ℕ) : ℝ) + ((1 : ℕ) : ℝ)))).prod ≤ 1 := by
    have := prod_cos_le_one ((enumFrom 0 x).map fun p => p.2 / Real.sqrt (((p.1 : ℕ) : ℝ) + ((1 : ℕ) : ℝ)))
    rw [List.map_map] at this
    exact le_trans (le_abs_self _) this
  push_cast at h2 ⊢
  have : (0:ℝ) ≤ 1 / 4000 * (x.map fun v => v ^ 2).sum := by positivity
  linarith

/-! ## 2. ZDT: f₂ = g · h(f₁, g) with the published g -/

/-- the published g of ZDT1–3: 1 + 9/(n-1) · Σ_{i≥2} xᵢ -/
noncomputable def zdtGSpec (x : List ℝ) : ℝ := 1 + 9 / ((x.length : ℝ) - 1) * x.tail.sum

/-- the model's g (source operation order) is the published g -/
theorem zdtG_eq (x0 x1 : ℝ) (t : List ℝ) : zdtG (x0 :: x1 :: t) = zdtGSpec (x0 :: x1 :: t) := by
  simp only [zdtG, zdtGSpec, List.tail_cons, List.length_cons]
  real_bridge
  push_cast
  have : ((t.length : ℝ) + 1 + 1 - 1) = (t.length : ℝ) + 1 := by ring
  rw [this]
  ring

/-- ZDT1: f₁ = x₁, f₂ = g·(1 - √(f₁/g)) with the published g, every n ≥ 2 -/
theorem zdt1_f2 (x0 x1 : ℝ) (t : List ℝ) :
    zdt1 (x0 :: x1 :: t) =
      some [x0, zdtGSpec (x0 :: x1 :: t) * (1 - Real.sqrt (x0 / zdtGSpec (x0 :: x1 :: t)))] := by
  simp only [zdt1, zdt1H, zdtG_eq]; real_bridge; norm_num

/-- ZDT2: f₂ = g·(1 - (f₁/g)²) -/
theorem zdt2_f2 (x0 x1 : ℝ) (t : List ℝ) :
    zdt2 (x0 :: x1 :: t) =
      some [x0, zdtGSpec (x0 :: x1 :: t) * (1 - (x0 / zdtGSpec (x0 :: x1 :: t)) ^ 2)] := by
  simp only [zdt2, zdt2H, zdtG_eq]; real_bridge; norm_num

/-- ZDT3: f₂ = g·(1 - √(f₁/g) - (f₁/g)·sin(10πf₁)) -/
theorem zdt3_f2 (x0 x1 : ℝ) (t : List ℝ) :
    zdt3 (x0 :: x1 :: t) =
      some [x0, zdtGSpec (x0 :: x1 :: t) * (1 - Real.sqrt (x0 / zdtGSpec (x0 :: x1 :: t))
        - x0 / zdtGSpec (x0 :: x1 :: t) * Real.sin (10 * Real.pi * x0))] := by
  simp only [zdt3, zdt3H, zdtG_eq]; real_bridge; norm_num

/-- the published g of ZDT4: 1 + 10(n-1) + Σ_{i≥2} (xᵢ² - 10cos(4πxᵢ)) -/
noncomputable def zdt4GSpec (x : List ℝ) : ℝ :=
  1 + 10 * ((x.length : ℝ) - 1) + (x.tail.map fun v => v ^ 2 - 10 * Real.cos (4 * Real.pi * v)).sum

/-- ZDT4: f₂ = g·(1 - √(f₁/g)) with g = 1 + 10(n-1) + Σ(xᵢ² - 10cos(4πxᵢ)), every n ≥ 1 -/
theorem zdt4_f2 (x0 : ℝ) (t : List ℝ) :
    zdt4 (x0 :: t) = some [x0, zdt4GSpec (x0 :: t) * (1 - Real.sqrt (x0 / zdt4GSpec (x0 :: t)))] := by
  have hg : zdt4G (x0 :: t) = zdt4GSpec (x0 :: t) := by
    simp only [zdt4G, zdt4GSpec, List.tail_cons, List.length_cons, Nat.add_sub_cancel]
    real_bridge; push_cast; ring
  simp only [zdt4, zdt1H, hg]; real_bridge; norm_num

/-- the published g and f₁ of ZDT6 -/
noncomputable def zdt6GSpec (x : List ℝ) : ℝ := 1 + 9 * (x.tail.sum / ((x.length : ℝ) - 1)) ^ (0.25 : ℝ)
noncomputable def zdt6F1Spec (x0 : ℝ) : ℝ := 1 - Real.exp (-4 * x0) * Real.sin (6 * Real.pi * x0) ^ 6

/-- ZDT6: f₁ = 1 - e^{-4x₁}sin⁶(6πx₁), f₂ = g·(1 - (f₁/g)²) -/
theorem zdt6_f2 (x0 x1 : ℝ) (t : List ℝ) :
    zdt6 (x0 :: x1 :: t) =
      some [zdt6F1Spec x0, zdt6GSpec (x0 :: x1 :: t) * (1 - (zdt6F1Spec x0 / zdt6GSpec (x0 :: x1 :: t)) ^ 2)] := by
  have hg : zdt6G (x0 :: x1 :: t) = zdt6GSpec (x0 :: x1 :: t) := by
    simp only [zdt6G, zdt6GSpec, List.tail_cons, List.length_cons]
    real_bridge
    have : ((t.length + 1 + 1 - 1 : ℕ) : ℝ) = ((t.length + 1 + 1 : ℕ) : ℝ) - 1 := by
      rw [Nat.add_sub_cancel]; push_cast; ring
    rw [this]; norm_num
  have hf : zdt6F1 x0 = zdt6F1Spec x0 := by
    simp only [zdt6F1, zdt6F1Spec]; real_bridge; norm_num
  simp only [zdt6, zdt2H, hg, hf]; real_bridge; norm_num

/-! ## 3. DTLZ front identities, for every individual and every objective count -/

/-- published g of DTLZ1/3 -/
noncomputable def dtlzG1Spec (xm : List ℝ) : ℝ :=
  100 * ((xm.length : ℝ) + (xm.map fun v => (v - 0.5) ^ 2 - Real.cos (20 * Real.pi * (v - 0.5))).sum)
/-- published g of DTLZ2/4/5 -/
noncomputable def dtlzG2Spec (xm : List ℝ) : ℝ := (xm.map fun v => (v - 0.5) ^ 2).sum
/-- published g of DTLZ6 -/
noncomputable def dtlzG6Spec (xm : List ℝ) : ℝ := (xm.map fun v => v ^ (0.1 : ℝ)).sum

/-- the model's g of DTLZ1/3 is the published g -/
theorem dtlzG1_eq (xm : List ℝ) : dtlzG1 xm = dtlzG1Spec xm := by
  simp only [dtlzG1, dtlzG1Spec]; real_bridge; norm_num
/-- the model's g of DTLZ2/4/5 is the published g -/
theorem dtlzG2_eq (xm : List ℝ) : dtlzG2 xm = dtlzG2Spec xm := by
  simp only [dtlzG2, dtlzG2Spec]; real_bridge; norm_num
/-- the model's g of DTLZ6 is the published g -/
theorem dtlzG6_eq (xm : List ℝ) : dtlzG6 xm = dtlzG6Spec xm := by
  simp only [dtlzG6, dtlzG6Spec]; real_bridge; norm_num

/-- DTLZ1: for every individual and every number of objectives the code accepts, the `M`
objectives sum to (1+g)/2. -/
theorem dtlz1_sum (x : List ℝ) (M : Nat) (hM : 1 ≤ M) (hn : M - 1 ≤ x.length) :
    ∃ f, dtlz1 x M = some f ∧ f.length = M ∧ f.sum = (1 + dtlzG1Spec (x.drop (M - 1))) / 2 := by
  have hok : dtlzOk x.length M = true := (dtlzOk_iff _ _).2 ⟨hM, hn⟩
  refine ⟨_, by simp only [dtlz1, hok, if_true]; rfl, ?_, ?_⟩
  · rw [front_length]; simp; omega
  · rw [front_sum]
    · rw [dtlzG1_eq]; real_bridge; norm_num; ring
    · intro p hp
      simp only [List.mem_map] at hp
      obtain ⟨v, _, rfl⟩ := hp
      real_bridge; norm_num

example : (1 : Nat) ≤ 3 ∧ 3 - 1 ≤ [(0.5 : ℝ), 0.25, 1].length := by simp

/-- DTLZ2: Σ fᵢ² = (1+g)². -/
theorem dtlz2_norm (x : List ℝ) (M : Nat) (hM : 1 ≤ M) (hn : M - 1 ≤ x.length) :
    ∃ f, dtlz2 x M = some f ∧ f.length = M ∧
      (f.map (· ^ 2)).sum = (1 + dtlzG2Spec (x.drop (M - 1))) ^ 2 := by
  have hok : dtlzOk x.length M = true := (dtlzOk_iff _ _).2 ⟨hM, hn⟩
  refine ⟨_, by simp only [dtlz2, hok, if_true]; rfl, ?_, ?_⟩
  · rw [front_length]; simp; omega
  · rw [front_norm _ _ _ (sphere_pairs _ _)]
    rw [dtlzG2_eq]; real_bridge; norm_num

example : (1 : Nat) ≤ 4 ∧ 4 - 1 ≤ [(0.5 : ℝ), 0.25, 1, 0].length := by simp

/-- DTLZ3: Σ fᵢ² = (1+g)² with DTLZ1's g -/
theorem dtlz3_norm (x : List ℝ) (M : Nat) (hM : 1 ≤ M) (hn : M - 1 ≤ x.length) :
    ∃ f, dtlz3 x M = some f ∧ f.length = M ∧
      (f.map (· ^ 2)).sum = (1 + dtlzG1Spec (x.drop (M - 1))) ^ 2 := by
  have hok : dtlzOk x.length M = true := (dtlzOk_iff _ _).2 ⟨hM, hn⟩
  refine ⟨_, by simp only [dtlz3, hok, if_true]; rfl, ?_, ?_⟩
  · rw [front_length]; simp; omega
  · rw [front_norm _ _ _ (sphere_pairs _ _)]
    rw [dtlzG1_eq]; real_bridge; norm_num

example : (1 : Nat) ≤ 4 ∧ 4 - 1 ≤ [(0.5 : ℝ), 0.25, 1, 0].length := by simp

/-- DTLZ4: Σ fᵢ² = (1+g)² for every exponent α -/
theorem dtlz4_norm (x : List ℝ) (M : Nat) (alpha : ℝ) (hM : 1 ≤ M) (hn : M - 1 ≤ x.length) :
    ∃ f, dtlz4 x M alpha = some f ∧ f.length = M ∧
      (f.map (· ^ 2)).sum = (1 + dtlzG2Spec (x.drop (M - 1))) ^ 2 := by
  have hok : dtlzOk x.length M = true := (dtlzOk_iff _ _).2 ⟨hM, hn⟩
  refine ⟨_, by simp only [dtlz4, hok, if_true]; rfl, ?_, ?_⟩
  · rw [front_length]; simp; omega
  · rw [front_norm _ _ _ (sphere_pairs _ _)]
    rw [dtlzG2_eq]; real_bridge; norm_num

example : (1 : Nat) ≤ 4 ∧ 4 - 1 ≤ [(0.5 : ℝ), 0.25, 1, 0].length := by simp

/-- DTLZ5 (repaired first objective, F8): Σ fᵢ² = (1+g)² for every M ≥ 2. -/
theorem dtlz5_norm (x : List ℝ) (M : Nat) (hM : 2 ≤ M) (hn : M - 1 ≤ x.length) :
    ∃ f, dtlz5 x M = some f ∧ f.length = M ∧
      (f.map (· ^ 2)).sum = (1 + dtlzG2Spec (x.drop (M - 1))) ^ 2 := by
  have hok : dtlzOk x.length M = true := (dtlzOk_iff _ _).2 ⟨by omega, hn⟩
  have h1 : M ≠ 1 := by omega
  refine ⟨_, by simp only [dtlz5, h1, hok, hM, if_false, and_self, if_true]; rfl, ?_, ?_⟩
  · rw [front_length, angles_length]; simp; omega
  · rw [front_norm _ _ _ (angles_pairs _ _)]
    rw [dtlzG2_eq]; real_bridge; norm_num

example : (2 : Nat) ≤ 3 ∧ 3 - 1 ≤ [(0.5 : ℝ), 0.25, 1].length := by simp

/-- DTLZ6 (repaired first objective, F8): Σ fᵢ² = (1+g)² for every M ≥ 2 -/
theorem dtlz6_norm (x : List ℝ) (M : Nat) (hM : 2 ≤ M) (hn : M - 1 ≤ x.length) :
    ∃ f, dtlz6 x M = some f ∧ f.length = M ∧
      (f.map (· ^ 2)).sum = (1 + dtlzG6Spec (x.drop (M - 1))) ^ 2 := by
  have hok : dtlzOk x.length M = true := (dtlzOk_iff _ _).2 ⟨by omega, hn⟩
  have h1 : M ≠ 1 := by omega
  refine ⟨_, by simp only [dtlz6, h1, hok, hM, if_false, and_self, if_true]; rfl, ?_, ?_⟩
  · rw [front_length, angles_length]; simp; omega
  · rw [front_norm _ _ _ (angles_pairs _ _)]
    rw [dtlzG6_eq]; real_bridge; norm_num

example : (2 : Nat) ≤ 3 ∧ 3 - 1 ≤ [(0.5 : ℝ), 0.25, 1].length := by simp

/-! ## 4. Binary functions -/

/-- `trap`: the all-ones string scores its length, and nothing scores more. -/
theorem trap_max (k : Nat) : trap (List.replicate k true) = k ∧ ∀ b : List Bool, b.length = k → trap b ≤ k := by
  refine ⟨by simp [trap, ones_replicate_true], fun b hb => hb ▸ trap_le b⟩

/-- the deceptive attractor of `trap`: all zeros scores `k - 1`. -/
theorem trap_zeros (k : Nat) (hk : 1 ≤ k) : trap (List.replicate k false) = (k : Int) - 1 := by
  simp only [trap, ones_replicate_false, List.length_replicate]
  split <;> omega

example : (1 : Nat) ≤ 4 := by decide

/-- `inv_trap`: the all-zeros string scores its length, and nothing scores more -/
theorem inv_trap_max (k : Nat) :
    invTrap (List.replicate k false) = k ∧ ∀ b : List Bool, b.length = k → invTrap b ≤ k := by
  refine ⟨by simp [invTrap, ones_replicate_false], fun b hb => hb ▸ invTrap_le b⟩

/-- Royal Road R1 = order × number of complete (all-ones) blocks, for every order ≥ 1 (order 0 is
rejected by the code). -/
theorem royal_road1_blocks (x : List Bool) (order : Nat) (ho : 1 ≤ order) :
    royalRoad1 x order = some (order *
      (List.range (x.length / order)).countP (fun i => (slice x (i * order) order).all id)) := by
  have h0 : order ≠ 0 := by omega
  simp only [royalRoad1, h0, if_false]
  rw [natsum_foldl, sum_blocks _ _ order ho]
  intro i hi
  apply slice_length
  have hi' : i < x.length / order := by simpa using hi
  have : (i + 1) * order ≤ x.length := by
    calc (i + 1) * order ≤ (x.length / order) * order := Nat.mul_le_mul_right _ hi'
      _ ≤ x.length := Nat.div_mul_le_self _ _
  linarith [Nat.succ_mul i order]

example : (1 : Nat) ≤ 8 := by decide

/-- `chuang_f1` on 4k+1 bits: both documented optima score 4k, and no string scores more. -/
theorem chuang_f1_opt (k : Nat) :
    chuangF1 (List.replicate (4 * k + 1) true) = some (4 * k : Int) ∧
    chuangF1 (List.replicate (4 * k + 1) false) = some (4 * k : Int) ∧
    ∀ x : List Bool, x.length = 4 * k + 1 → ∀ v, chuangF1 x = some v → v ≤ 4 * k := by
  refine ⟨?_, ?_, ?_⟩
  · simp only [chuangF1, getLast?_replicate_succ, List.length_replicate, Nat.add_sub_cancel, isum_eq]
    rw [isum_map_const _ _ 4]
    · rw [rangeStep_length]; congr 1; have : (4 * k - 0 + 4 - 1) / 4 = k := by omega
      rw [this]
    · intro i hi
      obtain ⟨j, hj, rfl⟩ := mem_rangeStep hi
      have hj' : j < k := by omega
      simp only [slice_replicate]
      have : min 4 (4 * k + 1 - (0 + j * 4)) = 4 := by omega
      rw [this]; simpa using trap_rep_true 4
  · simp only [chuangF1, getLast?_replicate_succ, List.length_replicate, Nat.add_sub_cancel, isum_eq]
    rw [isum_map_const _ _ 4]
    · rw [rangeStep_length]; congr 1; have : (4 * k - 0 + 4 - 1) / 4 = k := by omega
      rw [this]
    · intro i hi
      obtain ⟨j, hj, rfl⟩ := mem_rangeStep hi
      have hj' : j < k := by omega
      simp only [slice_replicate]
      have : min 4 (4 * k + 1 - (0 + j * 4)) = 4 := by omega
      rw [this]; simpa using invTrap_rep_false 4
  · intro x hx v hv
    simp only [chuangF1] at hv
    cases hl : x.getLast? with
    | none => rw [hl] at hv; simp at hv
    | some last =>
      rw [hl] at hv
      simp only [Option.some.injEq, isum_eq] at hv
      rw [← hv]
      have := isum_map_le (rangeStep 0 (x.length - 1) 4)
        (fun i => if last = false then invTrap (slice x i 4) else trap (slice x i 4)) 4 (by
          intro i _
          have h1 := slice_length_le x i 4
          have h2 := trap_le (slice x i 4)
          have h3 := invTrap_le (slice x i 4)
          split <;> omega)
      rw [rangeStep_length, hx] at this
      have e : (4 * k + 1 - 1 - 0 + 4 - 1) / 4 = k := by omega
      rw [e] at this
      rw [hx]; linarith

/-- `chuang_f2` on 8k+2 bits: the four documented optima — blocks `s2⁴ s1⁴` repeated, followed by the
selector bits `s2 s1` — score 8k, and no string scores more. -/
theorem chuang_f2_opt (k : Nat) :
    (∀ s2 s1 : Bool,
      chuangF2 ((List.replicate k (List.replicate 4 s2 ++ List.replicate 4 s1)).flatten ++ [s2, s1])
        = some (8 * k : Int)) ∧
    ∀ x : List Bool, x.length = 8 * k + 2 → ∀ v, chuangF2 x = some v → v ≤ 8 * k := by
  constructor
  · intro s2 s1
    have hF : ((List.replicate k (List.replicate 4 s2 ++ List.replicate 4 s1)).flatten).length = 8 * k := by
      simp [List.length_flatten]; ring
    have hlen : ((List.replicate k (List.replicate 4 s2 ++ List.replicate 4 s1)).flatten ++ [s2, s1]).length
        = 8 * k + 2 := by rw [List.length_append, hF]; rfl
    have hnot : ¬ (8 * k + 2 < 2) := by omega
    simp only [chuangF2, hlen, hnot, if_false, isum_eq]
    have g2 : ((List.replicate k (List.replicate 4 s2 ++ List.replicate 4 s1)).flatten ++ [s2, s1]).getD
        (8 * k + 2 - 2) false = s2 := by
      rw [List.getD_eq_getElem?_getD, List.getElem?_append_right (by rw [hF]; omega), hF]
      have : 8 * k + 2 - 2 - 8 * k = 0 := by omega
      rw [this]; rfl
    have g1 : ((List.replicate k (List.replicate 4 s2 ++ List.replicate 4 s1)).flatten ++ [s2, s1]).getD
        (8 * k + 2 - 1) false = s1 := by
      rw [List.getD_eq_getElem?_getD, List.getElem?_append_right (by rw [hF]; omega), hF]
      have : 8 * k + 2 - 1 - 8 * k = 1 := by omega
      rw [this]; rfl
    rw [g2, g1, isum_map_const _ _ 8]
    · rw [rangeStep_length]
      have : (8 * k + 2 - 2 - 0 + 8 - 1) / 8 = k := by omega
      rw [this]
    · intro i hi
      obtain ⟨j, hj, rfl⟩ := mem_rangeStep hi
      have hj' : j < k := by omega
      obtain ⟨h1, h2⟩ := f2_blocks s2 s1 k j hj'
      simp only [Nat.zero_add]
      rw [h1, h2]
      have a := sel_rep s2; have b := sel_rep s1
      simp only [sel] at a b
      rw [a, b]; rfl
  · intro x hx v hv
    have hnot : ¬ (x.length < 2) := by omega
    simp only [chuangF2, hnot, if_false, Option.some.injEq, isum_eq] at hv
    rw [← hv]
    have := isum_map_le (rangeStep 0 (x.length - 2) 8)
      (fun i => (if x.getD (x.length - 2) false = false then invTrap (slice x i 4) else trap (slice x i 4))
        + (if x.getD (x.length - 1) false = false then invTrap (slice x (i + 4) 4) else trap (slice x (i + 4) 4))) 8 (by
      intro i _
      have h1 := slice_length_le x i 4
      have h1' := slice_length_le x (i + 4) 4
      have h2 := trap_le (slice x i 4)
      have h3 := invTrap_le (slice x i 4)
      have h2' := trap_le (slice x (i + 4) 4)
      have h3' := invTrap_le (slice x (i + 4) 4)
      show _ + _ ≤ (8 : Int)
      split <;> split <;> omega)
    rw [rangeStep_length, hx] at this
    have e : (8 * k + 2 - 2 - 0 + 8 - 1) / 8 = k := by omega
    rw [e] at this
    rw [hx]; linarith

/-- `chuang_f3` on 4k+1 bits: the all-zeros optimum scores 4k -/
theorem chuang_f3_zeros (k : Nat) : chuangF3 (List.replicate (4 * k + 1) false) = some (4 * k : Int) := by
  simp only [chuangF3, getLast?_replicate_succ, List.length_replicate, Nat.add_sub_cancel, isum_eq, if_true]
  rw [isum_map_const _ _ 4]
  · rw [rangeStep_length]; congr 1; have : (4 * k - 0 + 4 - 1) / 4 = k := by omega
    rw [this]
  · intro i hi
    obtain ⟨j, hj, rfl⟩ := mem_rangeStep hi
    have hj' : j < k := by omega
    simp only [slice_replicate]
    have : min 4 (4 * k + 1 - (0 + j * 4)) = 4 := by omega
    rw [this]; simpa using invTrap_rep_false 4

/-- the optimum of the last-bit-1 branch of `chuang_f3`: `11 0…0 11` (4k+1 bits, k ≥ 1) scores 4k. -/
theorem chuang_f3_shifted (k : Nat) (hk : 1 ≤ k) :
    chuangF3 ([true, true] ++ List.replicate (4 * k - 3) false ++ [true, true]) = some (4 * k : Int) := by
  have hlen : ([true, true] ++ List.replicate (4 * k - 3) false ++ [true, true]).length = 4 * k + 1 := by
    simp; omega
  have hlast : ([true, true] ++ List.replicate (4 * k - 3) false ++ [true, true]).getLast? = some true :=
    getLast?_two _
  simp only [chuangF3, hlast, hlen, isum_eq]
  simp only [Bool.true_eq_false, if_false]
  rw [isum_map_const _ _ 4]
  · rw [rangeStep_length]
    have e : (4 * k + 1 - 3 - 2 + 4 - 1) / 4 = k - 1 := by omega
    rw [e]
    have hd : ([true, true] ++ List.replicate (4 * k - 3) false ++ [true, true]).drop (4 * k + 1 - 2)
        = [true, true] := by
      rw [List.drop_append_of_le_length (by simp; omega)]
      rw [List.drop_eq_nil_of_le (by simp; omega)]; rfl
    rw [hd]
    have ht : ([true, true] ++ List.replicate (4 * k - 3) false ++ [true, true]).take 2 = [true, true] := by
      simp
    rw [ht]
    have : trap ([true, true] ++ [true, true]) = 4 := by decide
    rw [this]; congr 1; push_cast; omega
  · intro i hi
    obtain ⟨j, hj, rfl⟩ := mem_rangeStep hi
    have hj' : j < k - 1 := by omega
    rw [slice_mid _ _ (by omega) (by omega)]
    simpa using invTrap_rep_false 4

example : (1 : Nat) ≤ 10 := by decide

/-- `chuang_f3` on 4k+1 bits (k ≥ 1): no string scores more than 4k. -/
theorem chuang_f3_le (k : Nat) (hk : 1 ≤ k) (x : List Bool) (hx : x.length = 4 * k + 1) (v : Int)
    (hv : chuangF3 x = some v) : v ≤ 4 * k := by
  simp only [chuangF3] at hv
  cases hl : x.getLast? with
  | none => rw [hl] at hv; simp at hv
  | some last =>
    rw [hl] at hv
    have bound : ∀ i, invTrap (slice x i 4) ≤ 4 := fun i => by
      have h1 := slice_length_le x i 4; have h3 := invTrap_le (slice x i 4); omega
    cases last with
    | false =>
      simp only [if_true, Option.some.injEq, isum_eq] at hv
      rw [← hv]
      have := isum_map_le (rangeStep 0 (x.length - 1) 4) (fun i => invTrap (slice x i 4)) 4 (fun i _ => bound i)
      rw [rangeStep_length, hx] at this
      have e : (4 * k + 1 - 1 - 0 + 4 - 1) / 4 = k := by omega
      rw [e] at this; rw [hx]; linarith
    | true =>
      simp only [Bool.true_eq_false, if_false, Option.some.injEq, isum_eq] at hv
      rw [← hv]
      have := isum_map_le (rangeStep 2 (x.length - 3) 4) (fun i => invTrap (slice x i 4)) 4 (fun i _ => bound i)
      rw [rangeStep_length, hx] at this
      have e : (4 * k + 1 - 3 - 2 + 4 - 1) / 4 = k - 1 := by omega
      rw [e] at this
      have ht := trap_le (x.drop (x.length - 2) ++ x.take 2)
      have hl2 : (x.drop (x.length - 2) ++ x.take 2).length ≤ 4 := by simp; omega
      rw [hx] at *
      have : ((k - 1 : Nat) : Int) = (k : Int) - 1 := by omega
      linarith

example : (1 : Nat) ≤ 10 ∧ (List.replicate 41 true).length = 4 * 10 + 1 := by decide

/-- the all-ones string, which the docstring of `chuang_f3` lists as a global optimum, scores only
3k+1 < 4k for k ≥ 2 (the docstring was copied from `chuang_f1`). -/
theorem chuang_f3_ones (k : Nat) (hk : 1 ≤ k) :
    chuangF3 (List.replicate (4 * k + 1) true) = some (3 * k + 1 : Int) := by
  simp only [chuangF3, getLast?_replicate_succ, List.length_replicate, isum_eq]
  simp only [Bool.true_eq_false, if_false]
  rw [isum_map_const _ _ 3]
  · rw [rangeStep_length]
    have e : (4 * k + 1 - 3 - 2 + 4 - 1) / 4 = k - 1 := by omega
    rw [e]
    have : trap (List.drop (4 * k + 1 - 2) (List.replicate (4 * k + 1) true) ++
        List.take 2 (List.replicate (4 * k + 1) true)) = 4 := by
      simp only [List.drop_replicate, List.take_replicate, ← List.replicate_add]
      have : 4 * k + 1 - (4 * k + 1 - 2) + min 2 (4 * k + 1) = 4 := by omega
      rw [this]; decide
    rw [this]; congr 1; omega
  · intro i hi
    obtain ⟨j, hj, rfl⟩ := mem_rangeStep hi
    have hj' : j < k - 1 := by omega
    simp only [slice_replicate]
    have : min 4 (4 * k + 1 - (2 + j * 4)) = 4 := by omega
    rw [this]; decide

example : (1 : Nat) ≤ 10 := by decide

/-! ## 5. `bin2float` decoding (exact, ℚ) -/

/-- the value decoded from one block -/
def decodeBlock (mn mx : ℚ) (nbits : Nat) (blk : List Bool) : ℚ :=
  mn + ((binVal blk : ℚ) / ((2 ^ nbits - 1 : Nat) : ℚ)) * (mx - mn)

/-- `bin2float` hands the wrapped function one value `min + gene/(2ⁿ-1)·(max-min)` per complete block -/
theorem bin2float_eq (mn mx : ℚ) (nbits : Nat) (h : 1 ≤ nbits) (x : List Bool) :
    bin2float mn mx nbits x = some ((List.range (x.length / nbits)).map fun i =>
      decodeBlock mn mx nbits (slice x (i * nbits) nbits)) := by
  have : nbits ≠ 0 := by omega
  simp only [bin2float, this, if_false, decodeBlock]

example : (1 : Nat) ≤ 16 := by decide

/-- `bin2float`: every decoded value lies in [min, max] (for min ≤ max and a bit width ≥ 1, which the
code requires), one value per complete block. -/
theorem bin2float_range (mn mx : ℚ) (nbits : Nat) (h : 1 ≤ nbits) (hle : mn ≤ mx) (x : List Bool) :
    ∃ d, bin2float mn mx nbits x = some d ∧ d.length = x.length / nbits ∧ ∀ v ∈ d, mn ≤ v ∧ v ≤ mx := by
  refine ⟨_, bin2float_eq mn mx nbits h x, by simp, ?_⟩
  intro v hv
  simp only [List.mem_map, List.mem_range] at hv
  obtain ⟨i, hi, rfl⟩ := hv
  have hl : (slice x (i * nbits) nbits).length = nbits := slice_length _ _ _ (block_in_range hi)
  have hlt := binVal_lt (slice x (i * nbits) nbits)
  rw [hl] at hlt
  have hpos := two_pow_sub_one_pos nbits h
  have hdpos : (0 : ℚ) < ((2 ^ nbits - 1 : Nat) : ℚ) := by exact_mod_cast hpos
  have hle1 : (binVal (slice x (i * nbits) nbits) : ℚ) ≤ ((2 ^ nbits - 1 : Nat) : ℚ) := by
    exact_mod_cast (by omega : binVal (slice x (i * nbits) nbits) ≤ 2 ^ nbits - 1)
  have h0 : (0 : ℚ) ≤ (binVal (slice x (i * nbits) nbits) : ℚ) / ((2 ^ nbits - 1 : Nat) : ℚ) :=
    div_nonneg (by exact_mod_cast Nat.zero_le _) hdpos.le
  have h1 : (binVal (slice x (i * nbits) nbits) : ℚ) / ((2 ^ nbits - 1 : Nat) : ℚ) ≤ 1 :=
    (div_le_one hdpos).2 hle1
  have hs : 0 ≤ mx - mn := by linarith
  simp only [decodeBlock]
  constructor
  · nlinarith [mul_nonneg h0 hs]
  · nlinarith [mul_le_mul_of_nonneg_right h1 hs]

example : (1 : Nat) ≤ 8 ∧ (-5.12 : ℚ) ≤ 5.12 := by norm_num

/-- all-zeros decodes to `min` in every block -/
theorem bin2float_zeros (mn mx : ℚ) (nbits : Nat) (h : 1 ≤ nbits) (n : Nat) :
    bin2float mn mx nbits (List.replicate n false) = some (List.replicate (n / nbits) mn) := by
  rw [bin2float_eq mn mx nbits h, List.length_replicate]
  congr 1
  apply List.ext_getElem (by simp)
  intro i h1 h2
  simp only [List.getElem_map, List.getElem_range, List.getElem_replicate, decodeBlock, slice_replicate,
    binVal_replicate_false]
  simp

example : (1 : Nat) ≤ 16 := by decide

/-- all-ones decodes to `max` in every block -/
theorem bin2float_ones (mn mx : ℚ) (nbits : Nat) (h : 1 ≤ nbits) (n : Nat) :
    bin2float mn mx nbits (List.replicate n true) = some (List.replicate (n / nbits) mx) := by
  rw [bin2float_eq mn mx nbits h, List.length_replicate]
  congr 1
  apply List.ext_getElem (by simp)
  intro i h1 h2
  have hi : i < n / nbits := by simpa using h1
  have hb := block_in_range hi
  simp only [List.getElem_map, List.getElem_range, List.getElem_replicate, decodeBlock, slice_replicate]
  have hm : min nbits (n - i * nbits) = nbits := by omega
  rw [hm]
  have hv : binVal (List.replicate nbits true) = 2 ^ nbits - 1 := by
    have := (binVal_max_iff (List.replicate nbits true)).2 (by simp)
    simpa using this
  rw [hv]
  have hpos := two_pow_sub_one_pos nbits h
  have hd : ((2 ^ nbits - 1 : Nat) : ℚ) ≠ 0 := by exact_mod_cast (by omega : 2 ^ nbits - 1 ≠ 0)
  rw [div_self hd]; ring

example : (1 : Nat) ≤ 16 := by decide

/-! ## 6. Decorators: the wrapped function receives the inversely transformed individual -/

/-- `translate`: the wrapped function receives `x - t` component-wise (one entry per gene when the
vector has the individual's length), i.e. adding the translation back gives the individual. -/
theorem translate_arg {β : Type} (f : List ℝ → β) (t x : List ℝ) (h : t.length = x.length) :
    translate f t x = f (List.zipWith (· - ·) x t) ∧
    (List.zipWith (· - ·) x t).length = x.length ∧
    List.zipWith (· + ·) (List.zipWith (· - ·) x t) t = x := by
  refine ⟨?_, by simp [h], zipWith_sub_add x t h⟩
  simp only [translate, translateArg, List.map_zip_eq_zipWith]
  rfl

example : ([1, 2] : List ℝ).length = ([3, 4] : List ℝ).length := rfl

/-- `scale`: with non-zero factors (a zero factor raises in `__init__`) the wrapped function receives
`x / factor` component-wise; multiplying back gives the individual. -/
theorem scale_arg {β : Type} (f : List ℝ → β) (factor x : List ℝ) (h : ∀ c ∈ factor, c ≠ 0)
    (hl : factor.length = x.length) :
    scale f factor x = some (f (List.zipWith (· / ·) x factor)) ∧
    (List.zipWith (· / ·) x factor).length = x.length ∧
    List.zipWith (· * ·) (List.zipWith (· / ·) x factor) factor = x := by
  refine ⟨?_, by simp [hl], ?_⟩
  · simp only [scale, scaleArg, scaleFactor_eq factor h, Option.map_some, List.map_zip_eq_zipWith]
    congr 2
    clear hl
    induction x generalizing factor with
    | nil => simp
    | cons a x ih =>
      cases factor with
      | nil => simp
      | cons c t =>
        simp only [List.map_cons, List.zipWith_cons_cons]
        rw [ih t (fun d hd => h d (by simp [hd]))]
        congr 1; simp only [Function.curry]; real_bridge; ring
  · induction x generalizing factor with
    | nil => simp
    | cons a x ih =>
      cases factor with
      | nil => simp at hl
      | cons c t =>
        simp only [List.zipWith_cons_cons]
        rw [ih t (fun d hd => h d (by simp [hd])) (by simpa using hl)]
        have : c ≠ 0 := h c (by simp)
        congr 1; field_simp

example : (∀ c ∈ ([2, -4] : List ℝ), c ≠ 0) ∧ ([2, -4] : List ℝ).length = ([1, 3] : List ℝ).length := by simp

/-- a zero factor is rejected (ZeroDivisionError in `scale.__init__`) -/
theorem scale_zero_rejected (pre post x : List ℝ) : scaleArg (pre ++ 0 :: post) x = none := by
  have : scaleFactor (pre ++ (0 : ℝ) :: post) = none := by
    unfold scaleFactor
    induction pre with
    | nil =>
      have : ¬ ((0 : ℝ) < 0 ∨ (0 : ℝ) < 0) := by simp
      simp only [List.nil_append, List.mapM_cons]; real_bridge; push_cast; rw [if_neg this]; rfl
    | cons a t ih => rw [List.cons_append, List.mapM_cons, ih]; split <;> rfl
  simp [scaleArg, this]

/-- `rotate`: with `numpy.linalg.inv` meeting its contract (`inv R = R⁻¹`, i.e. `R · R⁻¹ = 1`), the wrapped
function receives `R⁻¹ x`: rotating it by `R` gives the individual back. -/
theorem rotate_arg {β : Type} {n : Nat} (f : List ℝ → β) (R Rinv : Matrix (Fin n) (Fin n) ℝ)
    (inv : List (List ℝ) → List (List ℝ)) (hcontract : inv (rows R) = rows Rinv) (hinv : R * Rinv = 1)
    (v : Fin n → ℝ) :
    rotate f inv (rows R) (List.ofFn v) = some (f (List.ofFn (Rinv.mulVec v))) ∧
    R.mulVec (Rinv.mulVec v) = v := by
  constructor
  · simp only [rotate, rotateArg, hcontract, matVec_rows, Option.map_some]
  · rw [Matrix.mulVec_mulVec, hinv, Matrix.one_mulVec]

example : (fun _ => rows (1 : Matrix (Fin 2) (Fin 2) ℝ)) (rows (1 : Matrix (Fin 2) (Fin 2) ℝ))
      = rows (1 : Matrix (Fin 2) (Fin 2) ℝ) ∧
    (1 : Matrix (Fin 2) (Fin 2) ℝ) * 1 = 1 := ⟨rfl, by simp⟩

/-- `noise`: every objective with a noise function gets exactly the next draw added, the others pass
unchanged, and exactly one draw per noisy objective is consumed. -/
theorem noise_adds (spec : NoiseSpec) (result tape out rest : List ℝ)
    (h : noise spec result tape = some (out, rest)) :
    let l := result.zip (spec.flags result.length)
    ∃ used, tape = used ++ rest ∧ used.length = l.countP (·.2) ∧ out.length = l.length ∧
      ∀ i r b, l[i]? = some (r, b) →
        (b = false → out[i]? = some r) ∧
        (b = true → ∃ d, used[(l.take i).countP (·.2)]? = some d ∧ out[i]? = some (r + d)) :=
  noiseGo_spec _ _ _ _ h

example : noise (.rep true) [(1 : ℝ), 2] [10, 20, 30] = some ([1 + 10, 2 + 20], [30]) := by
  simp [noise, NoiseSpec.flags, noiseGo, List.replicate]

/-- `bound`: the three bounding modes return the operator's result unchanged (they are stubs). -/
theorem bound_id {γ : Type} (k : BoundKind) (inds : γ) : bound k inds = inds := rfl

/-! ## 7. Moving peaks -/

/-- `MovingPeaks.__call__` returns the maximum of its peak functions (and the basis function):
the value is one of the separately evaluated values and no value exceeds it; it is defined
whenever there is at least one peak or a basis function. -/
theorem mp_eval_max (peaks : List (Peak ℝ)) (basis : Option ℝ) (x : List ℝ) :
    (possibleValues peaks basis x ≠ [] → ∃ v, call peaks basis x = some v) ∧
    ∀ v, call peaks basis x = some v →
      v ∈ possibleValues peaks basis x ∧ ∀ w ∈ possibleValues peaks basis x, w ≤ v := by
  unfold call
  cases hp : possibleValues peaks basis x with
  | nil => simp [pyMax]
  | cons a t =>
    refine ⟨fun _ => ⟨_, rfl⟩, ?_⟩
    intro v hv
    simp only [pyMax, Option.some.injEq] at hv
    rw [← hv]
    have := pyMax_fold t a
    simpa only [real_lt] using this

example : possibleValues [⟨.cone, [0], 50, 1, [0]⟩] none [(3 : ℝ)] ≠ [] := by simp [possibleValues]

/-- `changePeaks`, any number of times, on any tape: with limits configured and the initial count
inside them, the number of peaks stays inside `[minpeaks, maxpeaks]`; without limits it never
changes. -/
theorem mp_count_inv (cfg : Config ℝ) (k : Nat) (peaks : List (Peak ℝ)) (t : Tape ℝ)
    (p' : List (Peak ℝ)) (t' : Tape ℝ) (h : changeTimes cfg k peaks t = some (p', t')) :
    (cfg.limits = none → p'.length = peaks.length) ∧
    (∀ mn mx, cfg.limits = some (mn, mx) → mn ≤ (peaks.length : Int) → (peaks.length : Int) ≤ mx →
      mn ≤ (p'.length : Int) ∧ (p'.length : Int) ≤ mx) := by
  induction k generalizing peaks t with
  | zero =>
    simp only [changeTimes, Option.some.injEq, Prod.mk.injEq] at h
    rw [← h.1]; exact ⟨fun _ => rfl, fun _ _ _ h1 h2 => ⟨h1, h2⟩⟩
  | succ j ih =>
    simp only [changeTimes] at h
    split at h
    · simp at h
    · next p1 t1 h1 =>
      have hc := changePeaks_count _ _ _ _ _ h1
      obtain ⟨i1, i2⟩ := ih _ _ h
      constructor
      · intro hl; rw [hl] at hc; rw [i1 hl]; exact hc
      · intro mn mx hl a b
        rw [hl] at hc
        obtain ⟨c1, c2⟩ := hc a b
        exact i2 mn mx hl c1 c2

/-- a configuration with limits [1, 3] and one change that adds a peak: the hypothesis of `mp_count_inv`
(`changeTimes … = some …`) is met by the tape `u = 0.75` (add), `u' = 0.5`, the new peak's choice / height /
width, then one height and one width draw per peak -/
noncomputable def cfgEx : Config ℝ :=
  { dim := 0, limits := some (1, 3), numberSeverity := 1, pool := [.cone], minCoord := 0, maxCoord := 100,
    minHeight := 30, maxHeight := 70, minWidth := 1, maxWidth := 12, lambda := 0, moveSeverity := 1,
    heightSeverity := 7, widthSeverity := 1, roundInt := fun _ => 1 }

example : (changeTimes cfgEx 1 [⟨.cone, [], 50, 5, []⟩]
    [.random (3/4), .random (1/2), .choice 0, .uniform 40, .uniform 2, .gauss 0, .gauss 0, .gauss 0, .gauss 0]).isSome
    = true := by
  simp only [changeTimes, changePeaks, changeNumber, cfgEx, popRandom, half]
  real_bridge
  norm_num [imin, addPeaks, popMany, popUniform, popRandom, changeAll, changePeak, popGauss, reflect, shiftScale]

/-! ## 8. Further characterisations: global minima, published forms, ZDT domain facts, DTLZ7 -/

/-- 0 is the global minimum value of `rastrigin_skew` -/
theorem rastriginSkew_nonneg (x : List ℝ) : 0 ≤ rastriginSkew x := by
  simp only [rastriginSkew]
  real_bridge
  have := sum_map_ge x (fun v => (if ((0:ℕ):ℝ) < v then ((10:ℕ):ℝ) * v else v) ^ 2 -
      ((10:ℕ):ℝ) * Real.cos (((2:ℕ):ℝ) * Real.pi * (if ((0:ℕ):ℝ) < v then ((10:ℕ):ℝ) * v else v))) (-10) (by
    intro p _
    have := Real.cos_le_one (((2:ℕ):ℝ) * Real.pi * (if ((0:ℕ):ℝ) < p then ((10:ℕ):ℝ) * p else p))
    have := sq_nonneg (if ((0:ℕ):ℝ) < p then ((10:ℕ):ℝ) * p else p)
    push_cast at *; linarith)
  push_cast at *
  linarith

/-- 0 is the global minimum value of `rastrigin_scaled` (for every dimension the code accepts) -/
theorem rastriginScaled_nonneg (x : List ℝ) (h : x.length ≠ 1) :
    ∃ v, rastriginScaled x = some v ∧ 0 ≤ v := by
  simp only [rastriginScaled, h, if_false]
  refine ⟨_, rfl, ?_⟩
  real_bridge
  have e : ((10 * x.length : ℕ) : ℝ) = -(-10 * ((enumFrom 0 x).length : ℝ)) := by
    rw [enumFrom_length]; push_cast; ring
  rw [e]
  have key : ∀ (l : List (ℕ × ℝ)) (F : ℕ × ℝ → ℝ), (∀ p ∈ l, (-10 : ℝ) ≤ F p) →
      0 ≤ -(-10 * (l.length : ℝ)) + (l.map F).sum := by
    intro l F hF; have := sum_map_ge l F (-10) hF; linarith
  apply key
  intro p _
  exact sq_sub_ten_cos _ _

/-- the published Ackley function -/
noncomputable def ackleySpec (x : List ℝ) : ℝ :=
  20 - 20 * Real.exp (-0.2 * Real.sqrt (1 / (x.length : ℝ) * (x.map (· ^ 2)).sum)) + Real.exp 1
    - Real.exp (1 / (x.length : ℝ) * (x.map fun v => Real.cos (2 * Real.pi * v)).sum)

theorem ackley_eq (x0 : ℝ) (t : List ℝ) : ackley (x0 :: t) = some (ackleySpec (x0 :: t)) := by
  simp only [ackley, ackleySpec, List.isEmpty_cons, Bool.false_eq_true, if_false]
  real_bridge; norm_num

/-- 0 is the global minimum value of `ackley`: 20(1 − e^{−0.2√(mean x²)}) ≥ 0 and e − e^{mean cos} ≥ 0. -/
theorem ackley_nonneg (x0 : ℝ) (t : List ℝ) : ∃ v, ackley (x0 :: t) = some v ∧ 0 ≤ v := by
  refine ⟨_, ackley_eq x0 t, ?_⟩
  unfold ackleySpec
  set x := x0 :: t with hx
  have hN : (0 : ℝ) < (x.length : ℝ) := by rw [hx]; simp; positivity
  have h1 : Real.exp (-0.2 * Real.sqrt (1 / (x.length : ℝ) * (x.map (· ^ 2)).sum)) ≤ 1 := by
    rw [Real.exp_le_one_iff]
    have := Real.sqrt_nonneg (1 / (x.length : ℝ) * (x.map (· ^ 2)).sum)
    nlinarith
  have h2 : Real.exp (1 / (x.length : ℝ) * (x.map fun v => Real.cos (2 * Real.pi * v)).sum) ≤ Real.exp 1 := by
    apply Real.exp_le_exp.2
    have hs := sum_map_le' x (fun v => Real.cos (2 * Real.pi * v)) 1 (fun p _ => Real.cos_le_one _)
    rw [div_mul_eq_mul_div, one_mul, div_le_one hN]
    linarith
  linarith

/-! ### published forms of the two-objective problems -/

theorem kursawe_eq (x : List ℝ) :
    kursawe x = [((adjacent x).map fun p => -10 * Real.exp (-0.2 * Real.sqrt (p.1 ^ 2 + p.2 ^ 2))).sum,
                 (x.map fun v => |v| ^ (0.8 : ℝ) + 5 * Real.sin (v ^ 3)).sum] := by
  simp only [kursawe]; real_bridge
  congr 2
  · congr 1; funext p; norm_num; ring_nf
  · congr 2; funext v; norm_num; ring_nf

theorem fonseca_eq (x : List ℝ) :
    fonseca x = [1 - Real.exp (-((x.take 3).map fun v => (v - 1 / Real.sqrt 3) ^ 2).sum),
                 1 - Real.exp (-((x.take 3).map fun v => (v + 1 / Real.sqrt 3) ^ 2).sum)] := by
  simp only [fonseca]; real_bridge; norm_num

theorem poloni_eq (x1 x2 : ℝ) (t : List ℝ) :
    poloni (x1 :: x2 :: t) =
      (let A1 := 0.5 * Real.sin 1 - 2 * Real.cos 1 + Real.sin 2 - 1.5 * Real.cos 2
       let A2 := 1.5 * Real.sin 1 - Real.cos 1 + 2 * Real.sin 2 - 0.5 * Real.cos 2
       let B1 := 0.5 * Real.sin x1 - 2 * Real.cos x1 + Real.sin x2 - 1.5 * Real.cos x2
       let B2 := 1.5 * Real.sin x1 - Real.cos x1 + 2 * Real.sin x2 - 0.5 * Real.cos x2
       some [1 + (A1 - B1) ^ 2 + (A2 - B2) ^ 2, (x1 + 3) ^ 2 + (x2 + 1) ^ 2]) := by
  simp only [poloni, poloniA1, poloniA2]; real_bridge; norm_num

theorem dent_eq (lam x1 x2 : ℝ) (t : List ℝ) :
    dent lam (x1 :: x2 :: t) =
      (let d := lam * Real.exp (-(x1 - x2) ^ 2)
       some [0.5 * (Real.sqrt (1 + (x1 + x2) ^ 2) + Real.sqrt (1 + (x1 - x2) ^ 2) + x1 - x2) + d,
             0.5 * (Real.sqrt (1 + (x1 + x2) ^ 2) + Real.sqrt (1 + (x1 - x2) ^ 2) - x1 + x2) + d]) := by
  simp only [dent]; real_bridge; norm_num

/-! ### ZDT on its domain -/

/-- ZDT1–3: g ≥ 1 when the distance variables are non-negative (domain [0,1]) -/
theorem zdt_g_ge_one (x0 x1 : ℝ) (t : List ℝ) (h : ∀ v ∈ x1 :: t, 0 ≤ v) : 1 ≤ zdtGSpec (x0 :: x1 :: t) := by
  simp only [zdtGSpec, List.tail_cons, List.length_cons]
  have hs := sum_nonneg_of_mem (x1 :: t) h
  have e : ((t.length + 1 + 1 : ℕ) : ℝ) - 1 = (t.length : ℝ) + 1 := by push_cast; ring
  rw [e]
  have : (0:ℝ) < (t.length : ℝ) + 1 := by positivity
  have : 0 ≤ 9 / ((t.length : ℝ) + 1) * (x1 :: t).sum := by positivity
  linarith

example : ∀ v ∈ [(0.5 : ℝ), 1, 0], 0 ≤ v := by norm_num

/-- ZDT4: g ≥ 1 for every input -/
theorem zdt4_g_ge_one (x0 : ℝ) (t : List ℝ) : 1 ≤ zdt4GSpec (x0 :: t) := by
  simp only [zdt4GSpec, List.tail_cons, List.length_cons]
  have := sum_map_ge t (fun v => v ^ 2 - 10 * Real.cos (4 * Real.pi * v)) (-10) (fun p _ => by
    have := Real.cos_le_one (4 * Real.pi * p); have := sq_nonneg p; linarith)
  push_cast; linarith

/-- ZDT6: g ≥ 1 when the distance variables are non-negative -/
theorem zdt6_g_ge_one (x0 x1 : ℝ) (t : List ℝ) (h : ∀ v ∈ x1 :: t, 0 ≤ v) : 1 ≤ zdt6GSpec (x0 :: x1 :: t) := by
  simp only [zdt6GSpec, List.tail_cons, List.length_cons]
  have hs := sum_nonneg_of_mem (x1 :: t) h
  have e : ((t.length + 1 + 1 : ℕ) : ℝ) - 1 = (t.length : ℝ) + 1 := by push_cast; ring
  rw [e]
  have : (0:ℝ) < (t.length : ℝ) + 1 := by positivity
  have : 0 ≤ (x1 :: t).sum / ((t.length : ℝ) + 1) := by positivity
  have := Real.rpow_nonneg this (0.25 : ℝ)
  linarith

/-- the ZDT1 Pareto front: with all distance variables zero, g = 1 and f₂ = 1 − √f₁ -/
theorem zdt1_front (x0 : ℝ) (n : Nat) :
    zdtGSpec (x0 :: List.replicate (n + 1) 0) = 1 ∧
    zdt1 (x0 :: List.replicate (n + 1) 0) = some [x0, 1 - Real.sqrt x0] := by
  have hg : zdtGSpec (x0 :: List.replicate (n + 1) 0) = 1 := by
    simp [zdtGSpec]
  refine ⟨hg, ?_⟩
  rw [List.replicate_succ, zdt1_f2, ← List.replicate_succ, hg]; simp

/-- conversely on the domain, g = 1 forces f₂ = 1 − √f₁ -/
theorem zdt1_front_of_g (x0 x1 : ℝ) (t : List ℝ) (hg : zdtGSpec (x0 :: x1 :: t) = 1) :
    zdt1 (x0 :: x1 :: t) = some [x0, 1 - Real.sqrt x0] := by
  rw [zdt1_f2, hg]; simp

example : zdtGSpec [(0.3 : ℝ), 0, 0] = 1 := by simp [zdtGSpec]

/-! ### DTLZ7 -/

/-- DTLZ7: the first M−1 objectives are the position variables, the last is (1+g)·h with
g = 1 + 9/|x_m|·Σx_m and h = M − Σ fᵢ/(1+g)·(1 + sin(3πfᵢ)); needs 1 ≤ M ≤ n. -/
theorem dtlz7_structure (x : List ℝ) (M : Nat) (hM : 1 ≤ M) (hn : M ≤ x.length) :
    let g := 1 + 9 / ((x.drop (M - 1)).length : ℝ) * (x.drop (M - 1)).sum
    let h := (M : ℝ) - ((x.take (M - 1)).map fun f => f / (1 + g) * (1 + Real.sin (3 * Real.pi * f))).sum
    dtlz7 x M = some (x.take (M - 1) ++ [(1 + g) * h]) ∧ (x.take (M - 1) ++ [(1 + g) * h]).length = M := by
  intro g h
  constructor
  · simp only [dtlz7, hM, hn, and_self, if_true, g, h]; real_bridge; norm_num
  · simp; omega

example : (1 : Nat) ≤ 3 ∧ 3 ≤ [(0.1 : ℝ), 0.2, 0.3, 0.4].length := by simp

/-! ## 8b. `rand`, stacked decorators -/


/-- `rand`: one objective, the next draw of `random.random()`, independent of the individual. -/
theorem rand_draw (x : List ℝ) (r : ℝ) (rest : List ℝ) : Bench.rand x (r :: rest) = some (r, rest) := rfl

/-- Stacked decorators `@translate(t) @rotate(R) @scale(c)`: the innermost function receives
`R⁻¹(x − t) / c`; scaling, rotating and translating it forward gives the individual back. -/
theorem stack_arg {n : Nat} (R Rinv : Matrix (Fin n) (Fin n) ℝ) (hinv : R * Rinv = 1)
    (t c v : Fin n → ℝ) (hc : ∀ i, c i ≠ 0) :
    stackArg (List.ofFn t) (rows Rinv) (List.ofFn c) (List.ofFn v)
      = some (List.ofFn fun i => Rinv.mulVec (fun j => v j - t j) i / c i) ∧
    (fun i => R.mulVec (fun k => (Rinv.mulVec (fun j => v j - t j) k / c k) * c k) i + t i) = v := by
  constructor
  · have ht : translateArg (List.ofFn t) (List.ofFn v) = List.ofFn fun j => v j - t j := by
      simp only [translateArg, List.map_zip_eq_zipWith]
      exact zipWith_ofFn (fun a b => a - b) v t
    have hcs : ∀ d ∈ List.ofFn c, d ≠ 0 := by
      intro d hd; simp only [List.mem_ofFn] at hd; obtain ⟨i, rfl⟩ := hd; exact hc i
    simp only [stackArg, ht, matVec_rows]
    have := (scale_arg (fun l => l) (List.ofFn c) (List.ofFn (Rinv.mulVec fun j => v j - t j)) hcs (by simp)).1
    simp only [scale, Option.map_eq_some_iff] at this
    obtain ⟨a, ha, rfl⟩ := this
    rw [ha, zipWith_ofFn]
  · funext i
    have : (fun k => (Rinv.mulVec (fun j => v j - t j) k / c k) * c k) = Rinv.mulVec (fun j => v j - t j) := by
      funext k; field_simp [hc k]
    rw [this, Matrix.mulVec_mulVec, hinv, Matrix.one_mulVec]; ring

example : (1 : Matrix (Fin 2) (Fin 2) ℝ) * 1 = 1 ∧ ∀ i : Fin 2, (fun _ => (2 : ℝ)) i ≠ 0 := by simp

/-! ## 9. Moving peaks: totality on well-typed tapes, counted evaluations (any scalar type) -/

section MPTotal
variable {α : Type} [RealLike α]

/-- **`changePeaks` is total on well-typed tapes.**  If every peak has `dim` coordinates (the class
invariant) and the tape answers the request sequence `changeReqs` — right kind of draw at every
position, `randrange`/`choice` indices in range, at least `(changeReqs …).length` draws — the call
succeeds, consumes exactly that many draws, leaves `newLen` peaks and keeps the invariant.  With limits
`[mn, mx]` and the count inside them the sequence is at most `2 + (mx-mn)(2·dim+3) + mx(dim+2)` long. -/
theorem changePeaks_total (cfg : Config α) (peaks : List (Peak α)) (t : Tape α)
    (hd : DimOK cfg.dim peaks) (h : Serves (changeReqs cfg peaks.length t) t) :
    (∃ p' t', changePeaks cfg peaks t = some (p', t') ∧ p'.length = newLen cfg peaks.length t ∧
      DimOK cfg.dim p' ∧ t' = t.drop (changeReqs cfg peaks.length t).length) ∧
    (∀ mn mx, cfg.limits = some (mn, mx) → mn ≤ (peaks.length : Int) → (peaks.length : Int) ≤ mx →
      (changeReqs cfg peaks.length t).length ≤ 2 + (mx - mn).toNat * (2 * cfg.dim + 3) + mx.toNat * (cfg.dim + 2)) ∧
    (cfg.limits = none → (changeReqs cfg peaks.length t).length = peaks.length * (cfg.dim + 2)) := by
  refine ⟨?_, fun mn mx hl h1 h2 => changeReqs_length_le cfg _ t mn mx hl h1 h2,
    fun hl => changeReqs_length_nolimits cfg _ t hl⟩
  obtain ⟨p', t', e1, e2, e3, e4, _⟩ := changePeaks_total' cfg [] peaks t hd (by simpa using h)
  exact ⟨p', t', e1, e2, e3, e4⟩

/-- the hypotheses are met: no limits, one 1-D peak, the tape `random, gauss, gauss` -/
example : DimOK 1 [(⟨.cone, [5], 50, 1, [0]⟩ : Peak ℝ)] ∧
    ∀ cfg : Config ℝ, cfg.dim = 1 → cfg.limits = none →
      Serves (changeReqs cfg 1 [Draw.random 0, .gauss 0, .gauss 0]) [Draw.random (0 : ℝ), .gauss 0, .gauss 0] := by
  constructor
  · intro p hp; simp at hp; subst hp; simp
  · intro cfg h1 h2
    simp [changeReqs, numberReqs, newLen, plan, h2, allReqs, peakReqs, h1, Serves, kindOK]

/-- **Count invariant, unconditionally on well-typed tapes**: if the tape answers `k` successive calls
(`ServesTimes`), all `k` changes succeed and the number of peaks stays inside the configured limits
(resp. unchanged without limits). -/
theorem mp_count_inv_total (cfg : Config α) (k : Nat) (peaks : List (Peak α)) (t : Tape α)
    (hd : DimOK cfg.dim peaks) (h : ServesTimes cfg k peaks.length t) :
    ∃ p' t', changeTimes cfg k peaks t = some (p', t') ∧
      (cfg.limits = none → p'.length = peaks.length) ∧
      (∀ mn mx, cfg.limits = some (mn, mx) → mn ≤ (peaks.length : Int) → (peaks.length : Int) ≤ mx →
        mn ≤ (p'.length : Int) ∧ (p'.length : Int) ≤ mx) := by
  obtain ⟨p', t', e, _⟩ := changeTimes_total cfg k peaks t hd h
  refine ⟨p', t', e, ?_⟩
  -- the count part is `mp_count_inv`, proved for every scalar type
  clear hd h
  induction k generalizing peaks t with
  | zero =>
    simp only [changeTimes, Option.some.injEq, Prod.mk.injEq] at e
    rw [← e.1]; exact ⟨fun _ => rfl, fun _ _ _ h1 h2 => ⟨h1, h2⟩⟩
  | succ j ih =>
    simp only [changeTimes] at e
    split at e
    · simp at e
    · next p1 t1 h1 =>
      have hc := changePeaks_count _ _ _ _ _ h1
      obtain ⟨i1, i2⟩ := ih _ _ e
      constructor
      · intro hl; rw [hl] at hc; rw [i1 hl]; exact hc
      · intro mn mx hl a b
        rw [hl] at hc
        obtain ⟨c1, c2⟩ := hc a b
        exact i2 mn mx hl c1 c2

example : ∀ cfg : Config ℝ, cfg.limits = none → ServesTimes cfg 2 0 [] := by
  intro cfg h
  simp [ServesTimes, changeReqs, numberReqs, newLen, plan, h, allReqs, Serves]

/-- a realistic instance of the hypotheses of `mp_count_inv_total`: limits [1, 3], two 1-D peaks, one change that
adds a peak (u = 3/4 ≥ ½, rounded request 1), served by a 16-draw tape -/
noncomputable def cfgEx2 : Config ℝ :=
  { dim := 1, limits := some (1, 3), numberSeverity := 1, pool := [.cone, .function1], minCoord := 0, maxCoord := 100,
    minHeight := 30, maxHeight := 70, minWidth := 1, maxWidth := 12, lambda := 0, moveSeverity := 1,
    heightSeverity := 7, widthSeverity := 1, roundInt := fun _ => 1 }

example :
    DimOK cfgEx2.dim [(⟨.cone, [10], 50, 5, [0]⟩ : Peak ℝ), ⟨.function1, [60], 40, 2, [1/4]⟩] ∧
    ServesTimes cfgEx2 1 2
      [.random (3/4), .random (1/2), .choice 1, .uniform 33, .uniform 45, .uniform 3, .random (1/8),
       .random (1/2), .gauss 0, .gauss 1, .random (1/4), .gauss (-1), .gauss 0, .random (3/4), .gauss 2, .gauss 0] := by
  constructor
  · intro p hp; simp at hp; rcases hp with rfl | rfl <;> simp [cfgEx2]
  · have h : ¬ ((3 / 4 : ℝ) < 1 / 2) := by norm_num
    simp only [ServesTimes, changeReqs, numberReqs, newLen, plan, cfgEx2, half, RealLike.real_ofRatio, RealLike.real_lt]
    norm_num [imin, addReqs, addBlock, allReqs, peakReqs, Serves, kindOK, List.replicate]

/-- `MovingPeaks.__init__` builds one peak per peak function, each with `dim` coordinates and a `dim`-long
last-change vector — the invariant `DimOK` that `changePeaks_total` and `mp_count_inv_total` start from. -/
theorem mp_init_dim (dim : Nat) (fns : List PFunc) (uh uw : α) (t : Tape α) (peaks : List (Peak α)) (t' : Tape α)
    (h : initPeaks dim fns uh uw t = some (peaks, t')) :
    peaks.length = fns.length ∧ DimOK dim peaks ∧ peaks.map (·.fn) = fns := by
  unfold initPeaks at h
  simp only at h
  split at h
  · simp at h
  · next poss t1 h1 =>
    split at h
    · simp at h
    · next hs t2 h2 =>
      split at h
      · simp at h
      · next ws t3 h3 =>
        split at h
        · simp at h
        · next lasts t4 h4 =>
          simp only [Option.some.injEq, Prod.mk.injEq] at h
          obtain ⟨p1, p2⟩ := popGroups_spec _ _ _ _ _ _ h1
          obtain ⟨l1, l2⟩ := popGroups_spec _ _ _ _ _ _ h4
          have hh := initScalars_length _ _ _ _ _ h2
          have hw := initScalars_length _ _ _ _ _ h3
          rw [← h.1]
          refine ⟨by simp [List.length_zip, p1, l1, hh, hw], ?_, ?_⟩
          · intro p hp
            simp only [List.mem_map] at hp
            obtain ⟨q, hq, rfl⟩ := hp
            have a := List.of_mem_zip hq
            have b := List.of_mem_zip a.2
            have c := List.of_mem_zip b.2
            have d := List.of_mem_zip c.2
            exact ⟨p2 _ b.1, by simp [l2 _ d.2]⟩
          · simp only [List.map_map]
            have : ((fun p : Peak α => p.fn) ∘ fun q : PFunc × List α × α × α × List α =>
                (⟨q.1, q.2.1, q.2.2.1, q.2.2.2.1, q.2.2.2.2.map fun r => r - half⟩ : Peak α)) = Prod.fst := rfl
            rw [this, List.map_fst_zip]
            simp [List.length_zip, p1, l1, hh, hw]

/-- **Counted evaluation**: the fitness is the `max` of the current peaks' values, `nevals` grows by
exactly one, and `changePeaks` runs (on the current peaks, with the current tape) exactly when
`period > 0 ∧ nevals % period = 0` for the incremented counter; otherwise peaks and tape are untouched. -/
theorem mp_call_step (cfg : Config α) (period : Int) (basis : Option (List α → α)) (st : State α)
    (x : List α) (t : Tape α) (v : α) (ch : Bool) (st' : State α) (t' : Tape α)
    (h : evalCounted cfg period basis st x t = some (v, ch, st', t')) :
    call st.peaks (basis.map fun b => b x) x = some v ∧
    st'.nevals = st.nevals + 1 ∧
    (ch = true ↔ (0 < period ∧ ((st.nevals + 1 : Nat) : Int) % period = 0)) ∧
    (ch = true → changePeaks cfg st.peaks t = some (st'.peaks, t')) ∧
    (ch = false → st'.peaks = st.peaks ∧ t' = t) := by
  unfold evalCounted at h
  split at h
  · simp at h
  · next v0 hv =>
    by_cases hemp : st.peaks.isEmpty = true
    · simp [hemp] at h
    · simp only [hemp, Bool.false_eq_true, if_false] at h
      by_cases htr : triggers period (st.nevals + 1) = true
      · simp only [htr, if_true] at h
        split at h
        · simp at h
        · next p1 t1 hc =>
          simp only [Option.some.injEq, Prod.mk.injEq] at h
          obtain ⟨rfl, rfl, rfl, rfl⟩ := h
          refine ⟨hv, rfl, ?_, fun _ => hc, fun hf => by simp at hf⟩
          simpa [triggers] using htr
      · simp only [htr, Bool.false_eq_true, if_false] at h
        simp only [Option.some.injEq, Prod.mk.injEq] at h
        obtain ⟨rfl, rfl, rfl, rfl⟩ := h
        refine ⟨hv, rfl, ?_, fun hf => by simp at hf, fun _ => ⟨rfl, rfl⟩⟩
        simp only [triggers, decide_eq_true_eq] at htr
        constructor
        · intro hf; simp at hf
        · intro hc; exact absurd hc htr

/-- **Over any history of evaluations**: after `n` counted evaluations `nevals` has grown by `n`, and the
`j`-th evaluation (0-based) triggered a change exactly when `period > 0 ∧ (nevals₀ + j + 1) % period = 0`. -/
theorem mp_call_count (cfg : Config α) (period : Int) (basis : Option (List α → α)) (xs : List (List α))
    (st : State α) (t : Tape α) (outs : List (α × Bool)) (st' : State α) (t' : Tape α)
    (h : evalMany cfg period basis xs st t = some (outs, st', t')) :
    st'.nevals = st.nevals + xs.length ∧ outs.length = xs.length ∧
    ∀ j (hj : j < outs.length),
      ((outs[j]).2 = true ↔ (0 < period ∧ ((st.nevals + j + 1 : Nat) : Int) % period = 0)) := by
  induction xs generalizing st t outs with
  | nil =>
    simp only [evalMany, Option.some.injEq, Prod.mk.injEq] at h
    obtain ⟨rfl, rfl, rfl⟩ := h
    simp
  | cons x rest ih =>
    simp only [evalMany] at h
    split at h
    · simp at h
    · next v ch st1 t1 h1 =>
      split at h
      · simp at h
      · next o2 st2 t2 h2 =>
        simp only [Option.some.injEq, Prod.mk.injEq] at h
        obtain ⟨rfl, rfl, rfl⟩ := h
        obtain ⟨_, a2, a3, _, _⟩ := mp_call_step _ _ _ _ _ _ _ _ _ _ h1
        obtain ⟨b1, b2, b3⟩ := ih _ _ _ h2
        refine ⟨by rw [b1, a2]; simp; omega, by simp [b2], ?_⟩
        intro j hj
        cases j with
        | zero => simpa using a3
        | succ i =>
          have := b3 i (by simpa using hj)
          simp only [List.getElem_cons_succ]
          rw [this, a2]
          have : st.nevals + 1 + i + 1 = st.nevals + (i + 1) + 1 := by omega
          rw [this]

end MPTotal

/-! ## 10. Benchmark objects: the constructor's three `pfunc` paths, whole histories, several objects -/

section Objects
variable {α : Type} [RealLike α]

/-- **`MovingPeaks.__init__`, the peak functions** (after fixes F33 / F34).  Whatever the form of `pfunc`
— one function, a list of exactly `npeaks` functions, a longer pool — the object gets exactly `npeaks`
peak functions, all taken from the pool `pfunc_pool`, which is the caller's function(s); a list of the
right length is taken as it is without touching the random source, any other list costs exactly one
`random.sample` draw, and a list shorter than `npeaks` is rejected. -/
theorem mp_init_functions (pf : PFuncArg) (n : Nat) (t : Tape α) (fns pool : List PFunc) (t' : Tape α)
    (h : initFunctions pf n t = some (fns, pool, t')) :
    fns.length = n ∧ pool = poolOf pf ∧ (∀ f ∈ fns, f ∈ pool) ∧
    (match pf with
     | .one f => fns = List.replicate n f ∧ t' = t
     | .many fs => (fs.length = n → fns = fs ∧ t' = t) ∧
                   (fs.length ≠ n → n < fs.length ∧ ∃ idx, t = .sample idx :: t')) :=
  initFunctions_spec pf n t fns pool t' h

/-- the three paths are inhabited: one function; a list of the right length; a pool of three for two peaks
(sample `[2, 0]`) -/
example : initFunctions (α := ℝ) (.one .cone) 3 [] = some ([.cone, .cone, .cone], [.cone], []) ∧
    initFunctions (α := ℝ) (.many [.cone, .function1]) 2 [] = some ([.cone, .function1], [.cone, .function1], []) ∧
    initFunctions (α := ℝ) (.many [.cone, .function1, .sphere]) 2 [.sample [2, 0]]
      = some ([.sphere, .cone], [.cone, .function1, .sphere], []) := by
  have hs : sampleOK 3 2 [2, 0] = true := by decide
  refine ⟨rfl, rfl, ?_⟩
  simp [initFunctions, hs]

/-- **The constructed object**: `npeaks` peaks of `dim` coordinates each, evaluation counter 0, the
configured limits, the pool of the `pfunc` argument, every peak function from that pool. -/
theorem mp_init_inv (base : Config α) (period : Int) (basis : Option (List α → α)) (pf : PFuncArg) (n : Nat)
    (uh uw : α) (t : Tape α) (b : Bench α) (t' : Tape α)
    (h : init base period basis pf n uh uw t = some (b, t'))
    (hl : ∀ mn mx, base.limits = some (mn, mx) → mn ≤ (n : Int) ∧ (n : Int) ≤ mx) :
    b.st.peaks.length = n ∧ DimOK base.dim b.st.peaks ∧ b.st.nevals = 0 ∧ b.cfg.pool = poolOf pf ∧
    b.cfg.limits = base.limits ∧ b.cfg.dim = base.dim ∧ Inv n b := by
  unfold init at h
  split at h
  · simp at h
  · next fns pool t1 hf =>
    split at h
    · simp at h
    · next peaks t2 hp =>
      simp only [Option.some.injEq, Prod.mk.injEq] at h
      obtain ⟨rfl, _⟩ := h
      obtain ⟨f1, f2, f3, _⟩ := initFunctions_spec _ _ _ _ _ _ hf
      obtain ⟨p1, p2, p3⟩ := mp_init_dim _ _ _ _ _ _ _ hp
      have hlen : peaks.length = n := by rw [p1, f1]
      refine ⟨hlen, p2, rfl, f2, rfl, rfl, ⟨?_, ?_⟩⟩
      · show (match base.limits with
          | none => peaks.length = n
          | some (mn, mx) => mn ≤ (peaks.length : Int) ∧ (peaks.length : Int) ≤ mx)
        cases hb : base.limits with
        | none => exact hlen
        | some lim => obtain ⟨mn, mx⟩ := lim; simp only; rw [hlen]; exact hl mn mx hb
      · intro p hm
        show p.fn ∈ pool
        apply f3
        rw [← p3]
        exact List.mem_map_of_mem hm

/-- the hypotheses are met: one function, three peaks, dimension 0 (no coordinate draws), fixed heights and widths -/
example : (init (α := ℝ) cfgEx 0 none (.one .cone) 3 50 5 []).isSome = true ∧
    (∀ mn mx, cfgEx.limits = some (mn, mx) → mn ≤ ((3 : Nat) : Int) ∧ ((3 : Nat) : Int) ≤ mx) := by
  constructor
  · have hh : ((50 : ℝ) < 0 ∨ (0 : ℝ) < 50) := by norm_num
    have hw : ((5 : ℝ) < 0 ∨ (0 : ℝ) < 5) := by norm_num
    have e3 : ∀ (pop : Tape ℝ → Option (ℝ × Tape ℝ)) (t : Tape ℝ), popGroups pop 0 3 t = some ([[], [], []], t) := by
      intro pop t; rfl
    simp only [init, initFunctions, initPeaks, cfgEx, initScalars, List.length_replicate, e3]
    real_bridge
    norm_num
  · intro mn mx h; simp only [cfgEx, Option.some.injEq, Prod.mk.injEq] at h; obtain ⟨rfl, rfl⟩ := h; norm_num

/-- **Count invariant for benchmark objects** (`mp_count_inv` along whole lives): an object built by the
constructor — from any form of `pfunc` — and then taken through ANY history of `changePeaks()`, plain
and counted evaluations (which trigger changes of their own every `period` evaluations) keeps its
number of peaks inside `[minpeaks, maxpeaks]` (resp. at `npeaks` when no limits are configured), and
all its peak functions come from the caller's `pfunc`. -/
theorem mp_count_inv_bench (base : Config α) (period : Int) (basis : Option (List α → α)) (pf : PFuncArg) (n : Nat)
    (uh uw : α) (t : Tape α) (b : Bench α) (t1 : Tape α)
    (h : init base period basis pf n uh uw t = some (b, t1))
    (hl : ∀ mn mx, base.limits = some (mn, mx) → mn ≤ (n : Int) ∧ (n : Int) ≤ mx)
    (acts : List (Action α)) (s' : Slot α) (outs : List (Out α))
    (hr : Slot.run acts ⟨b, t1⟩ = some (s', outs)) :
    (base.limits = none → s'.b.st.peaks.length = n) ∧
    (∀ mn mx, base.limits = some (mn, mx) →
      mn ≤ (s'.b.st.peaks.length : Int) ∧ (s'.b.st.peaks.length : Int) ≤ mx) ∧
    (∀ p ∈ s'.b.st.peaks, p.fn ∈ poolOf pf) := by
  obtain ⟨_, _, _, hpool, hlim, _, hinv⟩ := mp_init_inv base period basis pf n uh uw t b t1 h hl
  obtain ⟨i, hc⟩ := Slot.run_inv n acts ⟨b, t1⟩ s' outs hr hinv
  have hc' : s'.b.cfg = b.cfg := hc
  have hcount := i.count
  rw [hc', hlim] at hcount
  refine ⟨?_, ?_, ?_⟩
  · intro h0; rw [h0] at hcount; exact hcount
  · intro mn mx h1; rw [h1] at hcount; exact hcount
  · intro p hp
    have := i.pool p hp
    rwa [hc', hpool] at this

/-- the hypotheses are met: scenario-like configuration with limits [1, 3], a list of two functions for two
peaks (taken as it is), dimension 0 so that the constructor needs no coordinate draws; one `changePeaks()`
that adds a peak, then an evaluation -/
example :
    (∀ mn mx, cfgEx.limits = some (mn, mx) → mn ≤ ((2 : Nat) : Int) ∧ ((2 : Nat) : Int) ≤ mx) ∧
    ((init (α := ℝ) cfgEx 0 none (.many [.cone, .function1]) 2 50 5 [.random (3/4), .random (1/2), .choice 0, .uniform 40,
      .uniform 2, .gauss 0, .gauss 0, .gauss 0, .gauss 0, .gauss 0, .gauss 0]).bind
        fun bt => Slot.run [.change] ⟨bt.1, bt.2⟩).isSome = true := by
  constructor
  · intro mn mx h; simp only [cfgEx, Option.some.injEq, Prod.mk.injEq] at h; obtain ⟨rfl, rfl⟩ := h; norm_num
  · have hh : ((50 : ℝ) < 0 ∨ (0 : ℝ) < 50) := by norm_num
    have hw : ((5 : ℝ) < 0 ∨ (0 : ℝ) < 5) := by norm_num
    have e2 : ∀ (pop : Tape ℝ → Option (ℝ × Tape ℝ)) (t : Tape ℝ), popGroups pop 0 2 t = some ([[], []], t) := by
      intro pop t; rfl
    simp only [init, initFunctions, initPeaks, cfgEx, initScalars, List.length_cons, List.length_nil, e2]
    real_bridge
    norm_num [List.replicate, Slot.run, Slot.step, Bench.step, changePeaks, changeNumber, popRandom, half,
      imin, addPeaks, popMany, popUniform, changeAll, changePeak, popGauss, reflect, shiftScale, e2]

/-- **Instance independence.**  Several benchmark objects — e.g. built from one scenario dictionary and
one list of peak functions — taken through any interleaved history of changes and evaluations: every
object goes through exactly the history of the actions addressed to it (with its own random source),
whatever is done to the others in between; in particular an object nobody addresses is unchanged.
The model has value semantics, so this holds by construction; that the implementation behaves like
the model (no list shared between objects or with the caller) is what the `mpworld` correspondence
stream checks — it is what fix F33 established. -/
theorem mp_instances_independent (ops : List (Nat × Action α)) (w w' : World α) (outs : List (Out α))
    (h : World.run ops w = some (w', outs)) :
    w'.length = w.length ∧
    (∀ j s, w[j]? = some s →
      ∃ s' outs_j, Slot.run (project j ops) s = some (s', outs_j) ∧ w'[j]? = some s') ∧
    (∀ j, (∀ op ∈ ops, op.1 ≠ j) → w'[j]? = w[j]?) := by
  obtain ⟨hl, hp⟩ := World.run_project ops w w' outs h
  refine ⟨hl, hp, ?_⟩
  intro j hj
  have hproj : project j ops = [] := by
    simp only [project, List.map_eq_nil_iff, List.filter_eq_nil_iff]
    intro op hop; simpa using hj op hop
  cases hs : w[j]? with
  | none =>
    have : w.length ≤ j := by
      rcases Nat.lt_or_ge j w.length with hlt | hge
      · rw [List.getElem?_eq_getElem hlt] at hs; simp at hs
      · exact hge
    exact List.getElem?_eq_none (by omega)
  | some s =>
    obtain ⟨s', oj, r1, r2⟩ := hp j s hs
    rw [hproj] at r1
    simp only [Slot.run, Option.some.injEq, Prod.mk.injEq] at r1
    rw [r2, ← r1.1]

/-- the hypothesis is met by two objects (same configuration, own tapes) and an interleaved history -/
example : (World.run (α := ℝ) [(1, .eval []), (0, .eval []), (1, .eval [])]
    [⟨⟨cfgEx, 0, none, ⟨[⟨.cone, [], 50, 5, []⟩], 0⟩, ⟨none, none, 0⟩⟩, []⟩,
     ⟨⟨cfgEx, 0, none, ⟨[⟨.cone, [], 60, 5, []⟩], 0⟩, ⟨none, none, 0⟩⟩, []⟩]).isSome = true := by
  simp [World.run, World.step, Slot.step, Bench.step, call, possibleValues, pyMax]

end Objects

/-- **Evaluation of a benchmark object = max over its peak functions** (`mp_eval_max` for objects): an
uncounted evaluation returns the maximum of the separately evaluated peak (and basis) values and leaves the
object and its random source untouched; a counted evaluation returns the maximum over the peaks it had
BEFORE the change it may trigger. -/
theorem mp_eval_max_bench (b b' : Bench ℝ) (x : List ℝ) (t t' : Tape ℝ) (o : Out ℝ) :
    (b.step (.eval x) t = some (b', o, t') →
      ∃ v, o = .value v ∧ b' = b ∧ t' = t ∧
        v ∈ possibleValues b.st.peaks (b.basis.map fun f => f x) x ∧
        ∀ w ∈ possibleValues b.st.peaks (b.basis.map fun f => f x) x, w ≤ v) ∧
    (b.step (.evalCount x) t = some (b', o, t') →
      ∃ v ch ne np er, o = .counted v ch ne np er ∧ ne = b.st.nevals + 1 ∧
        v ∈ possibleValues b.st.peaks (b.basis.map fun f => f x) x ∧
        ∀ w ∈ possibleValues b.st.peaks (b.basis.map fun f => f x) x, w ≤ v) := by
  constructor
  · intro h
    simp only [Bench.step] at h
    split at h
    · simp at h
    · next v hv =>
      simp only [Option.some.injEq, Prod.mk.injEq] at h
      obtain ⟨rfl, rfl, rfl⟩ := h
      obtain ⟨m1, m2⟩ := (mp_eval_max _ _ _).2 v hv
      exact ⟨v, rfl, rfl, rfl, m1, m2⟩
  · intro h
    simp only [Bench.step] at h
    split at h
    · simp at h
    · next v ch st' t1 he =>
      split at h
      · simp at h
      · next e' _ =>
        simp only [Option.some.injEq, Prod.mk.injEq] at h
        obtain ⟨_, rfl, _⟩ := h
        obtain ⟨c1, c2, _⟩ := mp_call_step _ _ _ _ _ _ _ _ _ _ he
        obtain ⟨m1, m2⟩ := (mp_eval_max _ _ _).2 v c1
        exact ⟨v, ch, _, _, _, rfl, c2, m1, m2⟩

example : ((⟨cfgEx, 0, none, ⟨[⟨.cone, [], 50, 5, []⟩], 0⟩, ⟨none, none, 0⟩⟩ : Bench ℝ).step (.eval []) []).isSome
    = true := by
  simp [Bench.step, call, possibleValues, pyMax]

/-! ## 11. `globalMaximum`, peak functions at their own centre, the offline-error registers, `diversity(population)` -/

/-- every peak function at its own centre: `cone` and `function1` give the height, `sphere` gives 0 -/
theorem peakValue_centre (fn : PFunc) (p : List ℝ) (h w : ℝ) :
    peakValue fn p p h w = match fn with | .cone => h | .function1 => h | .sphere => 0 := by
  cases fn <;> simp only [peakValue, dist2_self] <;> real_bridge <;> simp

/-- `globalMaximum()` returns one of the peaks' own centre values (with that peak's position), and no peak's
own centre value exceeds it; with `cone` / `function1` peaks that is the largest height. -/
theorem mp_global_max (peaks : List (Peak ℝ)) (g : ℝ × List ℝ) (h : globalMaximum peaks = some g) :
    g ∈ potentialMax peaks ∧ (∀ q ∈ potentialMax peaks, q.1 ≤ g.1) ∧
    ((∀ p ∈ peaks, p.fn ≠ .sphere) → (∃ p ∈ peaks, g.1 = p.height) ∧ ∀ p ∈ peaks, p.height ≤ g.1) := by
  unfold globalMaximum at h
  split at h
  · simp at h
  · next a t hpm =>
    simp only [Option.some.injEq] at h
    have := maxPairFold t a
    rw [h, ← hpm] at this
    refine ⟨this.1, this.2, ?_⟩
    intro hns
    have key : ∀ p ∈ peaks, peakValue p.fn p.pos p.pos p.height p.width = p.height := by
      intro p hp
      rw [peakValue_centre]
      have := hns p hp
      cases hf : p.fn <;> simp_all
    constructor
    · obtain ⟨p, hp, e⟩ := List.mem_map.mp this.1
      exact ⟨p, hp, by rw [← e]; exact key p hp⟩
    · intro p hp
      have := this.2 (peakValue p.fn p.pos p.pos p.height p.width, p.pos) (List.mem_map.mpr ⟨p, hp, rfl⟩)
      simpa [key p hp] using this

example : globalMaximum [(⟨.cone, [1], 50, 5, [0]⟩ : Peak ℝ)] = some (peakValue .cone [1] [1] 50 5, [1]) := rfl

/-- `maximums()` lists only peaks' own centre values, each of them equal to the landscape's value at that
position (the peak is visible there). -/
theorem mp_maximums_visible (peaks : List (Peak ℝ)) (basis : Option (List ℝ → ℝ)) (vp : ℝ × List ℝ)
    (h : vp ∈ maximums peaks basis) :
    vp ∈ potentialMax peaks ∧ call peaks (basis.map fun f => f vp.2) vp.2 = some vp.1 := by
  unfold maximums at h
  rw [mem_sortDesc, List.mem_filter] at h
  obtain ⟨hm, hv⟩ := h
  refine ⟨hm, ?_⟩
  split at hv
  · simp at hv
  · next c hc =>
    simp only [Bool.not_eq_true', decide_eq_false_iff_not, real_lt, not_lt] at hv
    obtain ⟨m1, m2⟩ := (mp_eval_max _ _ _).2 c hc
    obtain ⟨p, hp, rfl⟩ := List.mem_map.mp hm
    have : peakValue p.fn p.pos p.pos p.height p.width ≤ c :=
      m2 _ (by simp only [possibleValues, List.mem_append, List.mem_map]; exact Or.inl ⟨p, hp, rfl⟩)
    rw [hc]; congr 1; linarith

example : (peakValue .cone [1] [1] 50 5, [(1 : ℝ)]) ∈ maximums [(⟨.cone, [1], 50, 5, [0]⟩ : Peak ℝ)] none := by
  simp [maximums, potentialMax, call, possibleValues, pyMax, sortDesc, insertDesc]

/-- one counted evaluation on the offline-error registers: the current error is non-negative, at most the
distance of this fitness to the optimum in force, never above the previous error while the optimum stands,
and it is what is added to the offline sum. -/
theorem mp_error_step (peaks : List (Peak ℝ)) (e e' : ErrState ℝ) (v : ℝ) (ch : Bool)
    (h : errStep peaks e v ch = some e') (hprev : ∀ er, e.error = some er → 0 ≤ er) :
    ∃ er o, e'.error = some er ∧ 0 ≤ er ∧ er ≤ |v - o| ∧ e'.offline = e.offline + er ∧
      (e.optimum = some o ∨ (e.optimum = none ∧ ∃ g, globalMaximum peaks = some g ∧ g.1 = o)) ∧
      (∀ er0, e.optimum ≠ none → e.error = some er0 → er ≤ er0) ∧
      (e'.optimum = if ch then none else some o) := by
  unfold errStep at h
  cases ho : e.optimum with
  | some o =>
    simp only [ho] at h
    cases he : e.error with
    | none => simp [he] at h
    | some er0 =>
      simp only [he, Option.some.injEq] at h
      have h0 := hprev er0 he
      rw [← h]
      refine ⟨fmin er0 (RealLike.abs (v - o)), o, rfl, ?_, ?_, rfl, Or.inl rfl, ?_, rfl⟩
      · unfold fmin; real_bridge; split <;> [exact abs_nonneg _; exact h0]
      · unfold fmin; real_bridge; split <;> [exact le_refl _; (rename_i hlt; linarith [not_lt.mp hlt])]
      · intro er1 _ he1
        simp only [Option.some.injEq] at he1; subst he1
        unfold fmin; real_bridge; split <;> [(rename_i hlt; linarith); exact le_refl _]
  | none =>
    simp only [ho] at h
    cases hg : globalMaximum peaks with
    | none => simp [hg] at h
    | some g =>
      simp only [hg, Option.map_some, Option.some.injEq] at h
      rw [← h]
      refine ⟨fmin (RealLike.abs (v - g.1)) (RealLike.abs (v - g.1)), g.1, rfl, ?_, ?_, rfl,
        Or.inr ⟨rfl, g, rfl, rfl⟩, fun _ hne => absurd rfl hne, rfl⟩
      · unfold fmin; real_bridge; split <;> exact abs_nonneg _
      · unfold fmin; real_bridge; split <;> exact le_refl _

example : (errStep [(⟨.cone, [1], 50, 5, [0]⟩ : Peak ℝ)] ⟨none, none, 0⟩ 3 false).isSome = true ∧
    ∀ er, (⟨none, none, 0⟩ : ErrState ℝ).error = some er → 0 ≤ er := by
  constructor
  · simp [errStep, globalMaximum, potentialMax]
  · intro er h; simp at h

/-- `movingpeaks.diversity(population)` is a square root, hence non-negative -/
theorem popDiversity_nonneg (pop : List (List ℝ)) (v : ℝ) (h : popDiversity pop = some v) : 0 ≤ v := by
  unfold popDiversity at h
  split at h
  · simp at h
  · simp only [Option.some.injEq] at h; rw [← h]; real_bridge; exact Real.sqrt_nonneg _

example : ∃ v, popDiversity [[(1 : ℝ), 2], [3, 4]] = some v := ⟨_, rfl⟩

/-! ## 12. Decorator histories: the parameter installed last is the one in force -/

/-- **`translate`, any history.**  However the function was decorated and whatever setter calls and
evaluations came before, after `evaluate.translate(t)` (and any number of evaluations) the wrapped function
receives `x - t` for the vector `t` passed LAST — not an earlier one, not the one of decoration time. -/
theorem translate_history (v0 : List ℝ) (pre : List (HOp (List ℝ) (List ℝ))) (t : List ℝ) (xs : List (List ℝ))
    (x : List ℝ) (outs : List (List ℝ)) (hl : t.length = x.length)
    (h : translateHist v0 (pre ++ HOp.set t :: (xs.map HOp.call ++ [HOp.call x])) = some outs) :
    outs.getLast? = some (List.zipWith (· - ·) x t) ∧
    List.zipWith (· + ·) (List.zipWith (· - ·) x t) t = x := by
  obtain ⟨s, y, e1, e2, e3⟩ := runHist_last_set _ _ _ _ _ _ _ _ h
  simp only [Option.some.injEq] at e1 e2
  subst e1
  refine ⟨?_, zipWith_sub_add x t hl⟩
  rw [e3, ← e2]
  simp only [translateArg, List.map_zip_eq_zipWith]
  rfl

example : translateHist [(1 : ℝ)] [.call [5], .set [2], .call [5]] = some [[5 - 1], [5 - 2]] := by
  simp [translateHist, runHist, translateArg]

/-- **`scale`, any history**: after `evaluate.scale(f)` with non-zero factors the wrapped function receives
`x / f` for the factor passed last. -/
theorem scale_history (f0 : List ℝ) (pre : List (HOp (List ℝ) (List ℝ))) (f : List ℝ) (xs : List (List ℝ))
    (x : List ℝ) (outs : List (List ℝ)) (hnz : ∀ c ∈ f, c ≠ 0) (hl : f.length = x.length)
    (h : scaleHist f0 (pre ++ HOp.set f :: (xs.map HOp.call ++ [HOp.call x])) = some outs) :
    outs.getLast? = some (List.zipWith (· / ·) x f) ∧
    List.zipWith (· * ·) (List.zipWith (· / ·) x f) f = x := by
  unfold scaleHist at h
  split at h
  · simp at h
  · next r0 _ =>
    obtain ⟨s, y, e1, e2, e3⟩ := runHist_last_set _ _ _ _ _ _ _ _ h
    obtain ⟨a1, _, a3⟩ := scale_arg (fun l => l) f x hnz hl
    refine ⟨?_, a3⟩
    simp only [Option.some.injEq] at e2
    rw [e3, ← e2]
    simp only [scale, scaleArg, e1, Option.map_some, Option.some.injEq] at a1
    rw [← a1]

example : (∀ c ∈ ([2] : List ℝ), c ≠ 0) ∧ ([2] : List ℝ).length = ([6] : List ℝ).length := by simp

/-- **`rotate`, any history** (this is what seeded change C20-r5m2 breaks in the implementation): after
`evaluate.rotate(R)` — with `numpy.linalg.inv` meeting its contract on `R` — the wrapped function receives
`R⁻¹ x` for the matrix passed last, whatever matrix (or the same object with other contents) was installed
before. -/
theorem rotate_history {n : Nat} (inv : List (List ℝ) → List (List ℝ)) (R0 : List (List ℝ))
    (pre : List (HOp (List (List ℝ)) (List ℝ))) (R Rinv : Matrix (Fin n) (Fin n) ℝ)
    (hcontract : inv (rows R) = rows Rinv) (hinv : R * Rinv = 1)
    (xs : List (List ℝ)) (v : Fin n → ℝ) (outs : List (List ℝ))
    (h : rotateHist inv R0 (pre ++ HOp.set (rows R) :: (xs.map HOp.call ++ [HOp.call (List.ofFn v)])) = some outs) :
    outs.getLast? = some (List.ofFn (Rinv.mulVec v)) ∧ R.mulVec (Rinv.mulVec v) = v := by
  obtain ⟨s, y, e1, e2, e3⟩ := runHist_last_set _ _ _ _ _ _ _ _ h
  simp only [Option.some.injEq] at e1
  subst e1
  rw [hcontract, matVec_rows] at e2
  simp only [Option.some.injEq] at e2
  refine ⟨by rw [e3, ← e2], ?_⟩
  rw [Matrix.mulVec_mulVec, hinv, Matrix.one_mulVec]

example : (fun _ => rows (1 : Matrix (Fin 2) (Fin 2) ℝ)) (rows (1 : Matrix (Fin 2) (Fin 2) ℝ))
      = rows (1 : Matrix (Fin 2) (Fin 2) ℝ) ∧ (1 : Matrix (Fin 2) (Fin 2) ℝ) * 1 = 1 := ⟨rfl, by simp⟩

/-- **Stacked decorators, setters are local**: on `@translate @rotate @scale` each setter replaces its own
decorator's parameter and leaves the other two alone. -/
theorem stack_setters_local (inv : List (List ℝ) → List (List ℝ)) (st st' : StackState ℝ) (p : StackParam ℝ)
    (h : stackInstall inv st p = some st') :
    match p with
    | .t v => st' = { st with vector := v }
    | .r R => st' = { st with minv := inv R }
    | .s f => st'.vector = st.vector ∧ st'.minv = st.minv ∧ scaleFactor f = some st'.recip := by
  cases p with
  | t v => simp only [stackInstall, Option.some.injEq] at h; exact h.symm
  | r R => simp only [stackInstall, Option.some.injEq] at h; exact h.symm
  | s f =>
    simp only [stackInstall, Option.map_eq_some_iff] at h
    obtain ⟨r, hr, rfl⟩ := h
    exact ⟨rfl, rfl, hr⟩

example : stackInstall (α := ℝ) id ⟨[1], [[1]], [1]⟩ (.t [5]) = some ⟨[5], [[1]], [1]⟩ := rfl

/-- **Stacked decorators, any history**: an evaluation after any interleaving of the three setters and earlier
evaluations hands the innermost function `scale⁻¹(rotate⁻¹(translate⁻¹ x))` under the parameters in force —
those of `stackStateAfter`, each one the argument of the last call of its own setter. -/
theorem stack_history (inv : List (List ℝ) → List (List ℝ)) (st : StackState ℝ)
    (pre : List (HOp (StackParam ℝ) (List ℝ))) (x : List ℝ) (outs : List (List ℝ))
    (h : stackHist inv st (pre ++ [HOp.call x]) = some outs) :
    ∃ st' y, stackStateAfter inv st pre = some st' ∧ stackApply st' x = some y ∧ outs.getLast? = some y :=
  stackHist_last inv st pre x outs h

example : (stackHist (α := ℝ) id ⟨[1], [[1]], [1]⟩ ([.set (.t [5])] ++ [.call [7]])).isSome = true := by
  simp [stackHist, stackInstall, stackApply, matVec, translateArg]

/-! ## 13. Quality indicators (`benchmarks/tools.py:262-327`) -/

/-- `igd` is a mean of distances: non-negative. -/
theorem igd_nonneg (A Z : List (List ℝ)) (v : ℝ) (h : igd A Z = some v) : 0 ≤ v := by
  obtain ⟨_, ds, f2, rfl, _⟩ := igd_spec A Z v h
  apply div_nonneg _ (Nat.cast_nonneg _)
  apply sum_nonneg_of_mem
  intro d hd
  obtain ⟨z, _, ⟨a, _, _, e⟩, _⟩ := forall2_mem_right f2 d hd
  rw [e]; exact Real.sqrt_nonneg _

/-- **`igd(A, Z) = 0` exactly when every reference point of `Z` is a point of `A`.** -/
theorem igd_eq_zero_iff (A Z : List (List ℝ)) (v : ℝ) (h : igd A Z = some v) :
    v = 0 ↔ ∀ z ∈ Z, z ∈ A := by
  obtain ⟨hZ, ds, f2, rfl, hlen⟩ := igd_spec A Z v h
  have hnn : ∀ d ∈ ds, 0 ≤ d := by
    intro d hd
    obtain ⟨z, _, ⟨a, _, _, e⟩, _⟩ := forall2_mem_right f2 d hd
    rw [e]; exact Real.sqrt_nonneg _
  have hpos : (0 : ℝ) < (ds.length : ℝ) := by
    rw [hlen]; exact Nat.cast_pos.mpr (List.length_pos_of_ne_nil hZ)
  constructor
  · intro h0
    have hs : ds.sum = 0 := by
      have := div_eq_zero_iff.mp h0
      rcases this with h1 | h1
      · exact h1
      · linarith
    have hall := sum_eq_zero_of_nonneg ds hnn hs
    intro z hz
    obtain ⟨d, hd, ⟨a, ha, hla, e⟩, _⟩ := forall2_mem_left f2 z hz
    have hd0 := hall d hd
    rw [hd0] at e
    have : d2 a z = 0 := by
      have := (Real.sqrt_eq_zero (d2_nonneg a z)).mp e.symm
      exact this
    rw [← d2_eq_zero a z hla this]; exact ha
  · intro hsub
    have hall : ∀ d ∈ ds, d = 0 := by
      intro d hd
      obtain ⟨z, hz, _, hle⟩ := forall2_mem_right f2 d hd
      have := hle z (hsub z hz)
      rw [d2_self, Real.sqrt_zero] at this
      linarith [hnn d hd]
    rw [sum_zero_of_all_zero ds hall]; simp

example : igd [[(0 : ℝ), 1]] [[0, 1]] = some (RealLike.sum [RealLike.sqrt (RealLike.sum [(0 - 0) * (0 - 0), (1 - 1) * (1 - 1)])] / RealLike.ofNat 1) := rfl

/-- `convergence` is a mean of distances: non-negative. -/
theorem convergence_nonneg (front opt : List (List ℝ)) (v : ℝ) (h : convergence front opt = some v) : 0 ≤ v := by
  obtain ⟨_, ds, f2, rfl, _⟩ := convergence_spec front opt v h
  apply div_nonneg _ (Nat.cast_nonneg _)
  apply sum_nonneg_of_mem
  intro d hd
  obtain ⟨p, _, m, e, _⟩ := forall2_mem_right f2 d hd
  rw [e]; exact Real.sqrt_nonneg _

/-- **`convergence(front, optimal) = 0` exactly when every point of the front is on the optimal front**
(points of one dimension). -/
theorem convergence_eq_zero_iff (front opt : List (List ℝ)) (v : ℝ) (h : convergence front opt = some v)
    (hdim : ∀ p ∈ front, ∀ o ∈ opt, p.length = o.length) :
    v = 0 ↔ ∀ p ∈ front, p ∈ opt := by
  obtain ⟨hF, ds, f2, rfl, hlen⟩ := convergence_spec front opt v h
  have hnn : ∀ d ∈ ds, 0 ≤ d := by
    intro d hd
    obtain ⟨p, _, m, e, _⟩ := forall2_mem_right f2 d hd
    rw [e]; exact Real.sqrt_nonneg _
  have hpos : (0 : ℝ) < (ds.length : ℝ) := by
    rw [hlen]; exact Nat.cast_pos.mpr (List.length_pos_of_ne_nil hF)
  constructor
  · intro h0
    have hs : ds.sum = 0 := by
      rcases div_eq_zero_iff.mp h0 with h1 | h1
      · exact h1
      · linarith
    have hall := sum_eq_zero_of_nonneg ds hnn hs
    intro p hp
    obtain ⟨d, hd, m, e, ⟨o, ho, _, em⟩, _⟩ := forall2_mem_left f2 p hp
    rw [hall d hd, em] at e
    have : d2 p o = 0 := (Real.sqrt_eq_zero (d2_nonneg p o)).mp e.symm
    rw [d2_eq_zero p o (hdim p hp o ho) this]; exact ho
  · intro hsub
    have hall : ∀ d ∈ ds, d = 0 := by
      intro d hd
      obtain ⟨p, hp, m, e, ⟨o, _, _, em⟩, hle⟩ := forall2_mem_right f2 d hd
      have h1 := hle p (hsub p hp)
      rw [d2_self] at h1
      have h2 : 0 ≤ m := by rw [em]; exact d2_nonneg _ _
      have : m = 0 := le_antisymm h1 h2
      rw [e, this, Real.sqrt_zero]
    rw [sum_zero_of_all_zero ds hall]; simp

example : (convergence [[(0 : ℝ), 1]] [[0, 1], [1, 0]]).isSome = true ∧
    ∀ p ∈ [[(0 : ℝ), 1]], ∀ o ∈ [[(0 : ℝ), 1], [1, 0]], p.length = o.length := by
  refine ⟨rfl, ?_⟩
  intro p hp o ho; simp at hp ho; rcases ho with rfl | rfl <;> simp [hp]

/-- `diversity` of a one-point front is the sum of its distances to the two extreme points. -/
theorem diversity_single (p first last : ℝ × ℝ) :
    diversity [p] first last = some (hyp p first + hyp p last) := by
  simp [diversity, lastOr]

/-- `diversity` (Deb's spread Δ) is non-negative. -/
theorem diversity_nonneg (front : List (ℝ × ℝ)) (first last : ℝ × ℝ) (v : ℝ)
    (h : diversity front first last = some v) : 0 ≤ v := by
  unfold diversity at h
  split at h
  · simp at h
  · next p0 rest =>
    simp only at h
    by_cases hr : rest.isEmpty = true
    · simp only [hr, if_true, Option.some.injEq] at h
      rw [← h]; real_bridge
      have := hyp_nonneg p0 first; have := hyp_nonneg (lastOr p0 (p0 :: rest)) last; linarith
    · simp only [hr, Bool.false_eq_true, if_false] at h
      split at h
      · simp only [Option.some.injEq] at h
        rw [← h]
        real_bridge
        have h1 := hyp_nonneg p0 first
        have h2 := hyp_nonneg (lastOr p0 (p0 :: rest)) last
        have h3 : 0 ≤ (gaps (p0 :: rest)).sum := sum_nonneg_of_mem _ (gaps_nonneg _)
        have h4 : 0 ≤ ((gaps (p0 :: rest)).map fun d => |d - (gaps (p0 :: rest)).sum / ((gaps (p0 :: rest)).length : ℝ)|).sum :=
          sum_map_nonneg _ _ (fun _ _ => abs_nonneg _)
        have h5 : 0 ≤ ((gaps (p0 :: rest)).length : ℝ) * ((gaps (p0 :: rest)).sum / ((gaps (p0 :: rest)).length : ℝ)) :=
          mul_nonneg (Nat.cast_nonneg _) (div_nonneg h3 (Nat.cast_nonneg _))
        apply div_nonneg <;> linarith
      · simp at h

example : diversity [((0 : ℝ), (1 : ℝ))] (0, 1) (1, 0) = some (hyp (0, 1) (0, 1) + hyp (0, 1) (1, 0)) :=
  diversity_single _ _ _

/-- **A perfectly spread front has diversity 0**: extreme points reached (`d_f = d_l = 0`) and all
consecutive distances equal to some `g > 0`. -/
theorem diversity_uniform (p0 p1 : ℝ × ℝ) (rest : List (ℝ × ℝ)) (first last : ℝ × ℝ) (g : ℝ) (hg : 0 < g)
    (hf : hyp p0 first = 0) (hlast : hyp (lastOr p0 (p0 :: p1 :: rest)) last = 0)
    (hgap : ∀ d ∈ gaps (p0 :: p1 :: rest), d = g) :
    diversity (p0 :: p1 :: rest) first last = some 0 := by
  have hlenpos : (0 : ℝ) < ((gaps (p0 :: p1 :: rest)).length : ℝ) := by
    simp [gaps]; positivity
  have hsum : (gaps (p0 :: p1 :: rest)).sum = ((gaps (p0 :: p1 :: rest)).length : ℝ) * g :=
    sum_const_of_all _ g hgap
  have hdm : (gaps (p0 :: p1 :: rest)).sum / ((gaps (p0 :: p1 :: rest)).length : ℝ) = g := by
    rw [hsum]; field_simp
  have hdi : ((gaps (p0 :: p1 :: rest)).map fun d => |d - g|).sum = 0 := by
    apply sum_map_eq_zero
    intro d hd; rw [hgap d hd]; simp
  unfold diversity
  simp only [List.isEmpty_cons, Bool.false_eq_true, if_false]
  real_bridge
  rw [hf, hlast, hdm, hdi]
  have hden : (0 : ℝ) < 0 + 0 + ((gaps (p0 :: p1 :: rest)).length : ℝ) * g := by
    have := mul_pos hlenpos hg; linarith
  push_cast
  rw [if_pos (Or.inr hden)]
  simp

/-- the hypotheses are met by the three equally spaced points (0,2), (1,1), (2,0) between the extremes (0,2), (2,0) -/
example : hyp ((0 : ℝ), (2 : ℝ)) (0, 2) = 0 ∧
    hyp (lastOr ((0 : ℝ), (2 : ℝ)) [((0 : ℝ), (2 : ℝ)), (1, 1), (2, 0)]) (2, 0) = 0 ∧
    ∀ d ∈ gaps [((0 : ℝ), (2 : ℝ)), (1, 1), (2, 0)], d = Real.sqrt 2 := by
  refine ⟨by rw [hyp_eq]; simp, by simp only [lastOr]; rw [hyp_eq]; simp, ?_⟩
  intro d hd
  simp only [gaps, List.tail_cons, List.zip_cons_cons, List.zip_nil_right, List.map_cons, List.map_nil,
    List.mem_cons, List.not_mem_nil, or_false] at hd
  rcases hd with rfl | rfl <;> (rw [hyp_eq]; norm_num)

/-! ## 14. Symbolic-regression targets (`gp.py`): distinguished values, bounds, symmetries -/

/-- `kotanchek` peaks at (1, 2.5) with value 1/3.2 and is positive everywhere. -/
theorem kotanchek_max (x0 x1 : ℝ) (t : List ℝ) :
    kotanchek [(1 : ℝ), 5 / 2] = some (1 / (32 / 10)) ∧
    ∃ v, kotanchek (x0 :: x1 :: t) = some v ∧ 0 < v ∧ v ≤ 1 / (32 / 10) := by
  constructor
  · simp only [kotanchek]; real_bridge; norm_num
  · refine ⟨_, rfl, ?_, ?_⟩
    · real_bridge; push_cast; positivity
    · real_bridge; push_cast
      have h1 : Real.exp (-(x0 - 1) ^ 2) ≤ 1 := by
        rw [Real.exp_le_one_iff]; nlinarith [sq_nonneg (x0 - 1)]
      have h2 : (32 / 10 : ℝ) ≤ 32 / 10 + (x1 - 25 / 10) ^ 2 := by nlinarith [sq_nonneg (x1 - 25 / 10)]
      have h3 : (0 : ℝ) < 32 / 10 + (x1 - 25 / 10) ^ 2 := by positivity
      rw [div_le_div_iff₀ h3 (by norm_num)]
      nlinarith [Real.exp_pos (-(x0 - 1) ^ 2)]

/-- `salustowicz_1d` vanishes at 0; `salustowicz_2d` is `salustowicz_1d(x₁)·(x₂ − 5)` and vanishes on `x₂ = 5`. -/
theorem salustowicz_facts (x0 x1 : ℝ) (t : List ℝ) :
    salustowicz1d [(0 : ℝ)] = some 0 ∧
    salustowicz2d (x0 :: x1 :: t) = some (salustowiczCore x0 * (x1 - 5)) ∧
    salustowicz1d (x0 :: t) = some (salustowiczCore x0) ∧
    salustowicz2d (x0 :: 5 :: t) = some 0 := by
  refine ⟨?_, rfl, rfl, ?_⟩
  · simp only [salustowicz1d, salustowiczCore]; real_bridge; simp
  · simp only [salustowicz2d]; real_bridge; simp

/-- `unwrapped_ball` takes its maximum 2 at (3, …, 3) and lies in (0, 2] everywhere, in every dimension. -/
theorem unwrapped_ball_max (n : Nat) (x : List ℝ) :
    unwrappedBall (List.replicate n (3 : ℝ)) = 2 ∧ 0 < unwrappedBall x ∧ unwrappedBall x ≤ 2 := by
  have hnn : 0 ≤ (x.map fun d => (d - 3) ^ 2).sum := sum_map_nonneg _ _ (fun _ _ => sq_nonneg _)
  refine ⟨?_, ?_, ?_⟩
  · unfold unwrappedBall; real_bridge
    rw [sum_map_eq_zero _ _ (by intro p hp; rw [List.eq_of_mem_replicate hp]; norm_num)]
    norm_num
  · unfold unwrappedBall; real_bridge; push_cast; positivity
  · unfold unwrappedBall; real_bridge; push_cast
    rw [div_le_iff₀ (by positivity)]; linarith

/-- `rational_polynomial` vanishes on `x₁ = 1` and on `x₃ = 1` (wherever it is defined). -/
theorem rational_polynomial_zero (x0 x1 x2 : ℝ) (t : List ℝ) (v : ℝ)
    (h : rationalPolynomial (x0 :: x1 :: x2 :: t) = some v) (h1 : x0 = 1 ∨ x2 = 1) : v = 0 := by
  simp only [rationalPolynomial] at h
  split at h
  · simp only [Option.some.injEq] at h
    rw [← h]; real_bridge
    rcases h1 with rfl | rfl <;> simp
  · simp at h

example : (rationalPolynomial [(1 : ℝ), 1, 2]).isSome = true := by
  simp only [rationalPolynomial]
  real_bridge
  rw [if_pos (by norm_num)]
  rfl

/-- `sin_cos`: |f| ≤ 6, the bound is attained at (π/2, 0), odd in `x₁`, even in `x₂`. -/
theorem sin_cos_facts (x0 x1 : ℝ) (t : List ℝ) :
    (∃ v, sinCos (x0 :: x1 :: t) = some v ∧ |v| ≤ 6) ∧
    sinCos [Real.pi / 2, (0 : ℝ)] = some 6 ∧
    sinCos [-x0, x1] = (sinCos [x0, x1]).map (fun v => -v) ∧
    sinCos [x0, -x1] = sinCos [x0, x1] := by
  refine ⟨⟨_, rfl, ?_⟩, ?_, ?_, ?_⟩
  · real_bridge; push_cast
    rw [abs_mul, abs_mul]
    have h1 := Real.abs_sin_le_one x0
    have h2 := Real.abs_cos_le_one x1
    have h3 : |(6 : ℝ)| = 6 := by norm_num
    rw [h3]
    have : |Real.sin x0| * |Real.cos x1| ≤ 1 := by
      calc |Real.sin x0| * |Real.cos x1| ≤ 1 * 1 := mul_le_mul h1 h2 (abs_nonneg _) (by norm_num)
        _ = 1 := by ring
    nlinarith [abs_nonneg (Real.sin x0), abs_nonneg (Real.cos x1)]
  · simp only [sinCos]; real_bridge; simp
  · simp only [sinCos, Option.map_some]; real_bridge; simp
  · simp only [sinCos]; real_bridge; simp

/-- `ripple` is symmetric in its two arguments; at (3, 3) it is 2 sin 1, at (4, 4) it is 1. -/
theorem ripple_facts (x0 x1 : ℝ) :
    ripple [x0, x1] = ripple [x1, x0] ∧ ripple [(3 : ℝ), 3] = some (2 * Real.sin 1) ∧ ripple [(4 : ℝ), 4] = some 1 := by
  refine ⟨?_, ?_, ?_⟩
  · simp only [ripple]; real_bridge; push_cast; congr 1; ring_nf
  · simp only [ripple]; real_bridge; norm_num
  · simp only [ripple]; real_bridge; norm_num

/-- `rational_polynomial2` is defined everywhere (its denominator is at least 10) and vanishes at (3, 3). -/
theorem rational_polynomial2_facts (x0 x1 : ℝ) (t : List ℝ) :
    (∃ v, rationalPolynomial2 (x0 :: x1 :: t) = some v ∧
      v * ((x1 - 2) ^ 4 + 10) = (x0 - 3) ^ 4 + (x1 - 3) ^ 3 - (x1 - 3)) ∧
    rationalPolynomial2 [(3 : ℝ), 3] = some 0 := by
  constructor
  · refine ⟨_, rfl, ?_⟩
    real_bridge; push_cast
    have : (x1 - 2) ^ 4 + 10 ≠ 0 := by positivity
    field_simp
  · simp only [rationalPolynomial2]; real_bridge; norm_num


/-! ## 15. Remaining functions: `schaffer_mo`, `schwefel`, `h1`, `shekel`, `royal_road2`, `diversity(population)` -/

/-- `schaffer_mo` is (x₁², (x₁−2)²); on its Pareto set 0 ≤ x₁ ≤ 2 the objectives satisfy √f₁ + √f₂ = 2. -/
theorem schaffer_mo_front (x0 : ℝ) (t : List ℝ) :
    schafferMo (x0 :: t) = some [x0 ^ 2, (x0 - 2) ^ 2] ∧
    (0 ≤ x0 → x0 ≤ 2 → Real.sqrt (x0 ^ 2) + Real.sqrt ((x0 - 2) ^ 2) = 2) := by
  constructor
  · simp only [schafferMo]; real_bridge
  · intro h0 h2
    rw [Real.sqrt_sq h0, Real.sqrt_sq_eq_abs, abs_of_nonpos (by linarith)]; ring

example : (0 : ℝ) ≤ 1 ∧ (1 : ℝ) ≤ 2 := by norm_num

/-- `schwefel`: at the origin the value is 418.9828872724339·N, and everywhere
418.98…·N − Σ|xᵢ| ≤ f(x) ≤ 418.98…·N + Σ|xᵢ| (|sin| ≤ 1); the documented optimum near 420.9687 is a numeric test. -/
theorem schwefel_bounds (x : List ℝ) (n : Nat) :
    schwefel (List.replicate n (0 : ℝ)) = 4189828872724339 / 10000000000000 * n ∧
    |schwefel x - 4189828872724339 / 10000000000000 * x.length| ≤ (x.map fun v => |v|).sum := by
  constructor
  · unfold schwefel; real_bridge
    rw [sum_map_eq_zero _ _ (by intro p hp; rw [List.eq_of_mem_replicate hp]; simp)]
    simp
  · unfold schwefel; real_bridge; push_cast
    have key : |(x.map fun v => v * Real.sin (Real.sqrt |v|)).sum| ≤ (x.map fun v => |v|).sum := by
      induction x with
      | nil => simp
      | cons a t ih =>
        simp only [List.map_cons, List.sum_cons]
        have h1 : |a * Real.sin (Real.sqrt |a|)| ≤ |a| := by
          rw [abs_mul]
          have := Real.abs_sin_le_one (Real.sqrt |a|)
          nlinarith [abs_nonneg a]
        calc |a * Real.sin (Real.sqrt |a|) + (t.map fun v => v * Real.sin (Real.sqrt |v|)).sum|
            ≤ |a * Real.sin (Real.sqrt |a|)| + |(t.map fun v => v * Real.sin (Real.sqrt |v|)).sum| := abs_add_le _ _
          _ ≤ |a| + (t.map fun v => |v|).sum := by linarith
    have : 4189828872724339 / 10000000000000 * (x.length : ℝ) - (x.map fun v => v * Real.sin (Real.sqrt |v|)).sum
        - 4189828872724339 / 10000000000000 * (x.length : ℝ) = -(x.map fun v => v * Real.sin (Real.sqrt |v|)).sum := by ring
    rw [this, abs_neg]; exact key

/-- `h1` lies in [0, 2] (its documented maximum value is 2). -/
theorem h1_range (x0 x1 : ℝ) (t : List ℝ) : ∃ v, h1 (x0 :: x1 :: t) = some v ∧ 0 ≤ v ∧ v ≤ 2 := by
  refine ⟨_, rfl, ?_, ?_⟩
  · real_bridge; push_cast
    apply div_nonneg
    · positivity
    · have := Real.sqrt_nonneg ((x0 - 86998 / 10000) ^ 2 + (x1 - 67665 / 10000) ^ 2); linarith
  · real_bridge; push_cast
    have hs := Real.sqrt_nonneg ((x0 - 86998 / 10000) ^ 2 + (x1 - 67665 / 10000) ^ 2)
    rw [div_le_iff₀ (by linarith)]
    have h1 := Real.sin_sq_le_one (x0 - x1 / 8)
    have h2 := Real.sin_sq_le_one (x1 + x0 / 8)
    nlinarith

/-- `royal_road2` adds the royal-road-1 score of every schema order `order·2^k < order²`; in
particular (for `order ≥ 2`) it is at least `royal_road1` of the base order, and for `order = 1` no schema
level exists and the value is 0. -/
theorem royal_road2_ge_road1 (x : List Bool) (order : Nat) (ho : 2 ≤ order) (v v1 : Nat)
    (h2 : royalRoad2 x order = some v) (h1 : royalRoad1 x order = some v1) : v1 ≤ v := by
  unfold royalRoad2 at h2
  simp only [royalRoad2Loop] at h2
  have : order < order * order := by nlinarith
  rw [if_pos this, h1] at h2
  have := royalRoad2Loop_ge _ _ _ _ _ _ h2
  omega

example : (2 : Nat) ≤ 8 ∧ (royalRoad2 [true, true] 2).isSome = true ∧ (royalRoad1 [true, true] 2).isSome = true := by decide

theorem royal_road2_order1 (x : List Bool) : royalRoad2 x 1 = some 0 := by
  simp [royalRoad2, royalRoad2Loop]

/-- a population of identical individuals has diversity 0 -/
theorem popDiversity_equal (x : List ℝ) (n : Nat) : popDiversity (List.replicate (n + 1) x) = some 0 := by
  have hpop : List.replicate (n + 1) x = x :: List.replicate n x := rfl
  unfold popDiversity
  rw [hpop]
  simp only
  rw [← hpop]
  real_bridge
  simp only [Nat.cast_zero]
  rw [zeros_as_map, fold_replicate]
  have hmean : (x.map fun xi => ((0 : ℝ) + ((n + 1 : Nat) : ℝ)) * xi).map (fun di => di / (((List.replicate (n + 1) x).length : Nat) : ℝ)) = x := by
    rw [List.map_map]
    conv_rhs => rw [← List.map_id x]
    apply List.map_congr_left; intro a _
    simp only [Function.comp, List.length_replicate, id]
    have : ((n + 1 : Nat) : ℝ) ≠ 0 := by positivity
    field_simp
    ring
  rw [hmean]
  have hz : ((List.replicate (n + 1) x).map fun y => (x.zip y).map fun p => (p.1 - p.2) * (p.1 - p.2)).flatten.sum = 0 := by
    apply sum_zero_of_all_zero
    intro d hd
    simp only [List.mem_flatten, List.mem_map] at hd
    obtain ⟨l, ⟨y, hy, rfl⟩, hd⟩ := hd
    rw [List.eq_of_mem_replicate hy] at hd
    simp only [List.mem_map] at hd
    obtain ⟨p, hp, rfl⟩ := hd
    rw [mem_zip_self x p hp]; ring
  rw [hz]; simp

/-- with positive `c` every Shekel term is positive, hence the function is positive wherever it is defined -/
theorem shekel_pos (x : List ℝ) (a : List (List ℝ)) (c : List ℝ) (hc : ∀ ci ∈ c, 0 < ci) (hne : c ≠ [])
    (v : ℝ) (h : shekel x a c = some v) : 0 < v := by
  unfold shekel at h
  split at h
  · simp at h
  · rw [Option.map_eq_some_iff] at h
    obtain ⟨ts, hts, rfl⟩ := h
    have f2 := mapM_forall2 _ _ _ hts
    have hpos : ∀ d ∈ ts, 0 < d := by
      intro d hd
      obtain ⟨p, hp, hr⟩ := forall2_mem_right f2 d hd
      unfold shekelTerm at hr
      split at hr
      · simp at hr
      · simp only [Option.some.injEq] at hr
        rw [← hr]; real_bridge; push_cast
        have h1 : 0 < p.1 := hc p.1 (List.of_mem_zip hp).1
        have h2 : 0 ≤ ((x.zip p.2).map fun q => (q.1 - q.2) ^ 2).sum := sum_map_nonneg _ _ (fun _ _ => sq_nonneg _)
        positivity
    have hlen : ts ≠ [] := by
      intro he; rw [he] at f2
      cases hz : c.zip a with
      | nil =>
        have : (c.zip a).length = 0 := by rw [hz]; rfl
        rw [List.length_zip] at this
        have hc0 : 0 < c.length := List.length_pos_of_ne_nil hne
        omega
      | cons q r => rw [hz] at f2; cases f2
    real_bridge
    cases ts with
    | nil => exact absurd rfl hlen
    | cons d r =>
      simp only [List.sum_cons]
      have := hpos d (by simp)
      have := sum_nonneg_of_mem r (fun e he => le_of_lt (hpos e (by simp [he])))
      linarith

example : (∀ ci ∈ ([0.002, 0.005] : List ℝ), 0 < ci) ∧ ([0.002, 0.005] : List ℝ) ≠ [] := by
  constructor
  · intro ci h; simp at h; rcases h with rfl | rfl <;> norm_num
  · simp

end C20
