/-
C20 — Benchmark functions equal their published definitions and optima.
Property theorems only (over ℝ / ℚ / exact integers); the models are `DeapModel/Core/Bench.lean`,
`BenchMO.lean`, `BenchBinary.lean`, `BenchTools.lean`, `MovingPeaks.lean`; helper lemmas are in
`DeapModel/Lemmas/C20*.lean`.

Level: **partial** — the identities, exact optima, decoder range, decorator arguments and the
moving-peaks invariants are proved for all dimensions / objective counts / tapes; that each float
function equals its definition is a tolerance correspondence (rounding is not modelled).
Optima the documentation gives only to a few decimals (schwefel, three minima of himmelblau, h1,
shekel) are numeric tests of the harness, not theorems.
-/
import DeapModel.Lemmas.C20Real
import DeapModel.Lemmas.C20Front
import DeapModel.Lemmas.C20Binary
import DeapModel.Lemmas.C20Tools
import DeapModel.Lemmas.C20MP
import DeapModel.Lemmas.C20MPTotal
import DeapModel.Lemmas.C20Misc
import Mathlib.Analysis.SpecialFunctions.Trigonometric.Basic
import Mathlib.Analysis.SpecialFunctions.Pow.Real
import Mathlib.Data.Matrix.Mul

set_option linter.unusedSimpArgs false
set_option linter.unusedTactic false
set_option linter.unusedVariables false

namespace C20
open RealLike Bench BenchBin BenchTools MovingPeaks C20L

/-! ## 1. Continuous single-objective functions: value at the documented optimum -/

/-- plane at the documented optimum `x = 0` (any dimension ≥ 1, which the code requires) -/
theorem plane_opt (n : Nat) : plane (List.replicate (n + 1) (0 : ℝ)) = some 0 := by
  simp [plane, List.replicate_succ]

/-- sphere(0,…,0) = 0, every dimension -/
theorem sphere_opt (n : Nat) : sphere (List.replicate n (0 : ℝ)) = 0 := by
  simp [sphere]

/-- 0 is the global minimum value of `sphere` -/
theorem sphere_nonneg (x : List ℝ) : 0 ≤ sphere x := by
  simp only [sphere, real_sum, real_mul]
  exact sum_map_nonneg _ _ (fun p _ => mul_self_nonneg p)

/-- cigar(0,…,0) = 0, every dimension ≥ 1 -/
theorem cigar_opt (n : Nat) : cigar (List.replicate (n + 1) (0 : ℝ)) = some 0 := by
  simp [cigar, List.replicate_succ]

/-- rosenbrock(1,…,1) = 0, every dimension -/
theorem rosenbrock_opt (n : Nat) : rosenbrock (List.replicate n (1 : ℝ)) = 0 := by
  simp only [rosenbrock, adjacent_replicate, real_sum]
  apply sum_map_eq_zero
  intro p hp
  rw [List.eq_of_mem_replicate hp]
  real_bridge; norm_num

/-- rastrigin(0,…,0) = 0, every dimension -/
theorem rastrigin_opt (n : Nat) : rastrigin (List.replicate n (0 : ℝ)) = 0 := by
  simp only [rastrigin, real_sum, real_nat, List.length_replicate, real_add]
  rw [sum_map_const _ _ (-10 : ℝ)]
  · simp; ring
  · intro p hp; rw [List.eq_of_mem_replicate hp]; simp

/-- ackley(0,…,0) = 20 - 20·e⁰ + e - e¹ = 0, every dimension ≥ 1 (dimension 0 divides by zero) -/
theorem ackley_opt (n : Nat) : ackley (List.replicate (n + 1) (0 : ℝ)) = some 0 := by
  have hne : ((n : ℝ) + 1) ≠ 0 := by positivity
  simp only [ackley, List.isEmpty_replicate, List.length_replicate, List.map_replicate]
  real_bridge
  simp only [List.sum_replicate, smul_eq_mul]
  norm_num
  rw [inv_mul_cancel₀ hne]
  ring

/-- bohachevsky(0,…,0) = 0, every dimension -/
theorem bohachevsky_opt (n : Nat) : bohachevsky (List.replicate n (0 : ℝ)) = 0 := by
  simp only [bohachevsky, adjacent_replicate, real_sum]
  apply sum_map_eq_zero
  intro p hp
  rw [List.eq_of_mem_replicate hp]
  real_bridge; norm_num

/-- griewank(0,…,0) = 0, every dimension -/
theorem griewank_opt (n : Nat) : griewank (List.replicate n (0 : ℝ)) = 0 := by
  simp only [griewank, List.map_replicate]
  real_bridge
  rw [prod_map_eq_one]
  · simp
  · intro p hp
    rw [enumFrom_replicate_snd _ _ _ p hp]; simp

/-- rastrigin_scaled(0,…,0) = 0 for every dimension the code accepts (N = 1 divides by zero) -/
theorem rastriginScaled_opt (n : Nat) (h : n ≠ 1) :
    rastriginScaled (List.replicate n (0 : ℝ)) = some 0 := by
  simp only [rastriginScaled, List.length_replicate, h, if_false]
  real_bridge
  rw [sum_map_const _ _ (-10 : ℝ)]
  · simp [enumFrom_length]; ring
  · intro p hp
    rw [enumFrom_replicate_snd _ _ _ p hp]; simp

example : (2 : Nat) ≠ 1 := by decide

/-- rastrigin_skew(0,…,0) = 0, every dimension -/
theorem rastriginSkew_opt (n : Nat) : rastriginSkew (List.replicate n (0 : ℝ)) = 0 := by
  simp only [rastriginSkew, List.length_replicate]
  real_bridge
  rw [sum_map_const _ _ (-10 : ℝ)]
  · simp; ring
  · intro p hp; rw [List.eq_of_mem_replicate hp]; simp

/-- schaffer(0,…,0) = 0, every dimension (0^0.25 = 0) -/
theorem schaffer_opt (n : Nat) : schaffer (List.replicate n (0 : ℝ)) = 0 := by
  simp only [schaffer, adjacent_replicate, real_sum]
  apply sum_map_eq_zero
  intro p hp
  rw [List.eq_of_mem_replicate hp]
  real_bridge
  have : (0:ℝ) ^ ((25:ℤ) / (100:ℕ) : ℝ) = 0 := Real.zero_rpow (by norm_num)
  norm_num [this]

/-- himmelblau(3, 2) = 0 — the one minimum the documentation gives exactly -/
theorem himmelblau_opt : himmelblau [(3 : ℝ), 2] = some 0 := by
  simp only [himmelblau]; real_bridge; norm_num

/-- 0 is the global minimum value of `himmelblau` -/
theorem himmelblau_nonneg (x0 x1 : ℝ) (t : List ℝ) : ∃ v, himmelblau (x0 :: x1 :: t) = some v ∧ 0 ≤ v := by
  refine ⟨_, rfl, ?_⟩
  real_bridge; positivity

/-- 0 is the global minimum value of `rosenbrock` -/
theorem rosenbrock_nonneg (x : List ℝ) : 0 ≤ rosenbrock x := by
  simp only [rosenbrock, real_sum]
  apply sum_map_nonneg
  intro p _; real_bridge; positivity

/-- 0 is the global minimum value of `rastrigin` (x² + 10(1 - cos) ≥ 0 term by term) -/
theorem rastrigin_nonneg (x : List ℝ) : 0 ≤ rastrigin x := by
  simp only [rastrigin]
  real_bridge
  have h : ∀ l : List ℝ, 0 ≤ ((10 * l.length : ℕ) : ℝ) + (l.map fun g => g * g - ((10:ℕ):ℝ) * Real.cos (((2:ℕ):ℝ) * Real.pi * g)).sum := by
    intro l
    induction l with
    | nil => simp
    | cons a t ih =>
      simp only [List.length_cons, List.map_cons, List.sum_cons]
      push_cast at ih ⊢
      have := Real.cos_le_one (2 * Real.pi * a)
      nlinarith [mul_self_nonneg a]
  exact h x

/-- 0 is the global minimum value of `cigar` -/
theorem cigar_nonneg (x0 : ℝ) (t : List ℝ) : ∃ v, cigar (x0 :: t) = some v ∧ 0 ≤ v := by
  refine ⟨_, rfl, ?_⟩
  real_bridge
  have := sum_map_nonneg t (fun g => g * g) (fun p _ => mul_self_nonneg p)
  positivity

/-- 0 is the global minimum value of `bohachevsky` -/
theorem bohachevsky_nonneg (x : List ℝ) : 0 ≤ bohachevsky x := by
  simp only [bohachevsky, real_sum]
  apply sum_map_nonneg
  intro p _
  real_bridge; push_cast
  have h1 := Real.cos_le_one (3 * Real.pi * p.1)
  have h2 := Real.cos_le_one (4 * Real.pi * p.2)
  nlinarith [sq_nonneg p.1, sq_nonneg p.2]

/-- 0 is the global minimum value of `schaffer` -/
theorem schaffer_nonneg (x : List ℝ) : 0 ≤ schaffer x := by
  simp only [schaffer, real_sum]
  apply sum_map_nonneg
  intro p _
  real_bridge
  have : 0 ≤ p.1 ^ 2 + p.2 ^ 2 := by positivity
  have := Real.rpow_nonneg this ((25 : ℤ) / (100 : ℕ) : ℝ)
  positivity

/-- 0 is the global minimum value of `griewank` -/
theorem griewank_nonneg (x : List ℝ) : 0 ≤ griewank x := by
  simp only [griewank]
  real_bridge
  have h1 := sum_map_nonneg x (fun v => v ^ 2) (fun p _ => sq_nonneg p)
  have h2 : ((enumFrom 0 x).map fun p => Real.cos (p.2 / Real.sqrt (((p.1 : ℕ) : ℝ) + ((1 : ℕ) : ℝ)))).prod ≤ 1 := by
    have := prod_cos_le_one ((enumFrom 0 x).map fun p => p.2 / Real.sqrt (((p.1 : ℕ) : ℝ) + ((1 : ℕ) : ℝ)))
    rw [List.map_map] at this
    exact le_trans (le_abs_self _) this
  push_cast at h2 ⊢
  have : (0:ℝ) ≤ 1 / 4000 * (x.map fun v => v ^ 2).sum := by positivity
  linarith

/-! ## 2. ZDT: f₂ = g · h(f₁, g) with the published g -/

/-- the published g of ZDT1–3: 1 + 9/(n-1) · Σ_{i≥2} xᵢ -/
noncomputable def zdtGSpec (x : List ℝ) : ℝ := 1 + 9 / ((x.length : ℝ) - 1) * x.tail.sum

/-- the model's g (source operation order) is the published g -/
theorem zdtG_eq (x0 x1 : ℝ) (t : List ℝ) : zdtG (x0 :: x1 :: t) = zdtGSpec (x0 :: x1 :: t) := by
  simp only [zdtG, zdtGSpec, List.tail_cons, List.length_cons]
  real_bridge
  push_cast
  have : ((t.length : ℝ) + 1 + 1 - 1) = (t.length : ℝ) + 1 := by ring
  rw [this]
  ring

/-- ZDT1: f₁ = x₁, f₂ = g·(1 - √(f₁/g)) with the published g, every n ≥ 2 -/
theorem zdt1_f2 (x0 x1 : ℝ) (t : List ℝ) :
    zdt1 (x0 :: x1 :: t) =
      some [x0, zdtGSpec (x0 :: x1 :: t) * (1 - Real.sqrt (x0 / zdtGSpec (x0 :: x1 :: t)))] := by
  simp only [zdt1, zdt1H, zdtG_eq]; real_bridge; norm_num

/-- ZDT2: f₂ = g·(1 - (f₁/g)²) -/
theorem zdt2_f2 (x0 x1 : ℝ) (t : List ℝ) :
    zdt2 (x0 :: x1 :: t) =
      some [x0, zdtGSpec (x0 :: x1 :: t) * (1 - (x0 / zdtGSpec (x0 :: x1 :: t)) ^ 2)] := by
  simp only [zdt2, zdt2H, zdtG_eq]; real_bridge; norm_num

/-- ZDT3: f₂ = g·(1 - √(f₁/g) - (f₁/g)·sin(10πf₁)) -/
theorem zdt3_f2 (x0 x1 : ℝ) (t : List ℝ) :
    zdt3 (x0 :: x1 :: t) =
      some [x0, zdtGSpec (x0 :: x1 :: t) * (1 - Real.sqrt (x0 / zdtGSpec (x0 :: x1 :: t))
        - x0 / zdtGSpec (x0 :: x1 :: t) * Real.sin (10 * Real.pi * x0))] := by
  simp only [zdt3, zdt3H, zdtG_eq]; real_bridge; norm_num

/-- the published g of ZDT4: 1 + 10(n-1) + Σ_{i≥2} (xᵢ² - 10cos(4πxᵢ)) -/
noncomputable def zdt4GSpec (x : List ℝ) : ℝ :=
  1 + 10 * ((x.length : ℝ) - 1) + (x.tail.map fun v => v ^ 2 - 10 * Real.cos (4 * Real.pi * v)).sum

/-- ZDT4: f₂ = g·(1 - √(f₁/g)) with g = 1 + 10(n-1) + Σ(xᵢ² - 10cos(4πxᵢ)), every n ≥ 1 -/
theorem zdt4_f2 (x0 : ℝ) (t : List ℝ) :
    zdt4 (x0 :: t) = some [x0, zdt4GSpec (x0 :: t) * (1 - Real.sqrt (x0 / zdt4GSpec (x0 :: t)))] := by
  have hg : zdt4G (x0 :: t) = zdt4GSpec (x0 :: t) := by
    simp only [zdt4G, zdt4GSpec, List.tail_cons, List.length_cons, Nat.add_sub_cancel]
    real_bridge; push_cast; ring
  simp only [zdt4, zdt1H, hg]; real_bridge; norm_num

/-- the published g and f₁ of ZDT6 -/
noncomputable def zdt6GSpec (x : List ℝ) : ℝ := 1 + 9 * (x.tail.sum / ((x.length : ℝ) - 1)) ^ (0.25 : ℝ)
noncomputable def zdt6F1Spec (x0 : ℝ) : ℝ := 1 - Real.exp (-4 * x0) * Real.sin (6 * Real.pi * x0) ^ 6

/-- ZDT6: f₁ = 1 - e^{-4x₁}sin⁶(6πx₁), f₂ = g·(1 - (f₁/g)²) -/
theorem zdt6_f2 (x0 x1 : ℝ) (t : List ℝ) :
    zdt6 (x0 :: x1 :: t) =
      some [zdt6F1Spec x0, zdt6GSpec (x0 :: x1 :: t) * (1 - (zdt6F1Spec x0 / zdt6GSpec (x0 :: x1 :: t)) ^ 2)] := by
  have hg : zdt6G (x0 :: x1 :: t) = zdt6GSpec (x0 :: x1 :: t) := by
    simp only [zdt6G, zdt6GSpec, List.tail_cons, List.length_cons]
    real_bridge
    have : ((t.length + 1 + 1 - 1 : ℕ) : ℝ) = ((t.length + 1 + 1 : ℕ) : ℝ) - 1 := by
      rw [Nat.add_sub_cancel]; push_cast; ring
    rw [this]; norm_num
  have hf : zdt6F1 x0 = zdt6F1Spec x0 := by
    simp only [zdt6F1, zdt6F1Spec]; real_bridge; norm_num
  simp only [zdt6, zdt2H, hg, hf]; real_bridge; norm_num

/-! ## 3. DTLZ front identities, for every individual and every objective count -/

/-- published g of DTLZ1/3 -/
noncomputable def dtlzG1Spec (xm : List ℝ) : ℝ :=
  100 * ((xm.length : ℝ) + (xm.map fun v => (v - 0.5) ^ 2 - Real.cos (20 * Real.pi * (v - 0.5))).sum)
/-- published g of DTLZ2/4/5 -/
noncomputable def dtlzG2Spec (xm : List ℝ) : ℝ := (xm.map fun v => (v - 0.5) ^ 2).sum
/-- published g of DTLZ6 -/
noncomputable def dtlzG6Spec (xm : List ℝ) : ℝ := (xm.map fun v => v ^ (0.1 : ℝ)).sum

/-- the model's g of DTLZ1/3 is the published g -/
theorem dtlzG1_eq (xm : List ℝ) : dtlzG1 xm = dtlzG1Spec xm := by
  simp only [dtlzG1, dtlzG1Spec]; real_bridge; norm_num
/-- the model's g of DTLZ2/4/5 is the published g -/
theorem dtlzG2_eq (xm : List ℝ) : dtlzG2 xm = dtlzG2Spec xm := by
  simp only [dtlzG2, dtlzG2Spec]; real_bridge; norm_num
/-- the model's g of DTLZ6 is the published g -/
theorem dtlzG6_eq (xm : List ℝ) : dtlzG6 xm = dtlzG6Spec xm := by
  simp only [dtlzG6, dtlzG6Spec]; real_bridge; norm_num

/-- DTLZ1: for every individual and every number of objectives the code accepts, the `M`
objectives sum to (1+g)/2. -/
theorem dtlz1_sum (x : List ℝ) (M : Nat) (hM : 1 ≤ M) (hn : M - 1 ≤ x.length) :
    ∃ f, dtlz1 x M = some f ∧ f.length = M ∧ f.sum = (1 + dtlzG1Spec (x.drop (M - 1))) / 2 := by
  have hok : dtlzOk x.length M = true := (dtlzOk_iff _ _).2 ⟨hM, hn⟩
  refine ⟨_, by simp only [dtlz1, hok, if_true]; rfl, ?_, ?_⟩
  · rw [front_length]; simp; omega
  · rw [front_sum]
    · rw [dtlzG1_eq]; real_bridge; norm_num; ring
    · intro p hp
      simp only [List.mem_map] at hp
      obtain ⟨v, _, rfl⟩ := hp
      real_bridge; norm_num

example : (1 : Nat) ≤ 3 ∧ 3 - 1 ≤ [(0.5 : ℝ), 0.25, 1].length := by simp

/-- DTLZ2: Σ fᵢ² = (1+g)². -/
theorem dtlz2_norm (x : List ℝ) (M : Nat) (hM : 1 ≤ M) (hn : M - 1 ≤ x.length) :
    ∃ f, dtlz2 x M = some f ∧ f.length = M ∧
      (f.map (· ^ 2)).sum = (1 + dtlzG2Spec (x.drop (M - 1))) ^ 2 := by
  have hok : dtlzOk x.length M = true := (dtlzOk_iff _ _).2 ⟨hM, hn⟩
  refine ⟨_, by simp only [dtlz2, hok, if_true]; rfl, ?_, ?_⟩
  · rw [front_length]; simp; omega
  · rw [front_norm _ _ _ (sphere_pairs _ _)]
    rw [dtlzG2_eq]; real_bridge; norm_num

example : (1 : Nat) ≤ 4 ∧ 4 - 1 ≤ [(0.5 : ℝ), 0.25, 1, 0].length := by simp

/-- DTLZ3: Σ fᵢ² = (1+g)² with DTLZ1's g -/
theorem dtlz3_norm (x : List ℝ) (M : Nat) (hM : 1 ≤ M) (hn : M - 1 ≤ x.length) :
    ∃ f, dtlz3 x M = some f ∧ f.length = M ∧
      (f.map (· ^ 2)).sum = (1 + dtlzG1Spec (x.drop (M - 1))) ^ 2 := by
  have hok : dtlzOk x.length M = true := (dtlzOk_iff _ _).2 ⟨hM, hn⟩
  refine ⟨_, by simp only [dtlz3, hok, if_true]; rfl, ?_, ?_⟩
  · rw [front_length]; simp; omega
  · rw [front_norm _ _ _ (sphere_pairs _ _)]
    rw [dtlzG1_eq]; real_bridge; norm_num

example : (1 : Nat) ≤ 4 ∧ 4 - 1 ≤ [(0.5 : ℝ), 0.25, 1, 0].length := by simp

/-- DTLZ4: Σ fᵢ² = (1+g)² for every exponent α -/
theorem dtlz4_norm (x : List ℝ) (M : Nat) (alpha : ℝ) (hM : 1 ≤ M) (hn : M - 1 ≤ x.length) :
    ∃ f, dtlz4 x M alpha = some f ∧ f.length = M ∧
      (f.map (· ^ 2)).sum = (1 + dtlzG2Spec (x.drop (M - 1))) ^ 2 := by
  have hok : dtlzOk x.length M = true := (dtlzOk_iff _ _).2 ⟨hM, hn⟩
  refine ⟨_, by simp only [dtlz4, hok, if_true]; rfl, ?_, ?_⟩
  · rw [front_length]; simp; omega
  · rw [front_norm _ _ _ (sphere_pairs _ _)]
    rw [dtlzG2_eq]; real_bridge; norm_num

example : (1 : Nat) ≤ 4 ∧ 4 - 1 ≤ [(0.5 : ℝ), 0.25, 1, 0].length := by simp

/-- DTLZ5 (repaired first objective, F8): Σ fᵢ² = (1+g)² for every M ≥ 2. -/
theorem dtlz5_norm (x : List ℝ) (M : Nat) (hM : 2 ≤ M) (hn : M - 1 ≤ x.length) :
    ∃ f, dtlz5 x M = some f ∧ f.length = M ∧
      (f.map (· ^ 2)).sum = (1 + dtlzG2Spec (x.drop (M - 1))) ^ 2 := by
  have hok : dtlzOk x.length M = true := (dtlzOk_iff _ _).2 ⟨by omega, hn⟩
  have h1 : M ≠ 1 := by omega
  refine ⟨_, by simp only [dtlz5, h1, hok, hM, if_false, and_self, if_true]; rfl, ?_, ?_⟩
  · rw [front_length, angles_length]; simp; omega
  · rw [front_norm _ _ _ (angles_pairs _ _)]
    rw [dtlzG2_eq]; real_bridge; norm_num

example : (2 : Nat) ≤ 3 ∧ 3 - 1 ≤ [(0.5 : ℝ), 0.25, 1].length := by simp

/-- DTLZ6 (repaired first objective, F8): Σ fᵢ² = (1+g)² for every M ≥ 2 -/
theorem dtlz6_norm (x : List ℝ) (M : Nat) (hM : 2 ≤ M) (hn : M - 1 ≤ x.length) :
    ∃ f, dtlz6 x M = some f ∧ f.length = M ∧
      (f.map (· ^ 2)).sum = (1 + dtlzG6Spec (x.drop (M - 1))) ^ 2 := by
  have hok : dtlzOk x.length M = true := (dtlzOk_iff _ _).2 ⟨by omega, hn⟩
  have h1 : M ≠ 1 := by omega
  refine ⟨_, by simp only [dtlz6, h1, hok, hM, if_false, and_self, if_true]; rfl, ?_, ?_⟩
  · rw [front_length, angles_length]; simp; omega
  · rw [front_norm _ _ _ (angles_pairs _ _)]
    rw [dtlzG6_eq]; real_bridge; norm_num

example : (2 : Nat) ≤ 3 ∧ 3 - 1 ≤ [(0.5 : ℝ), 0.25, 1].length := by simp

/-! ## 4. Binary functions -/

/-- `trap`: the all-ones string scores its length, and nothing scores more. -/
theorem trap_max (k : Nat) : trap (List.replicate k true) = k ∧ ∀ b : List Bool, b.length = k → trap b ≤ k := by
  refine ⟨by simp [trap, ones_replicate_true], fun b hb => hb ▸ trap_le b⟩

/-- the deceptive attractor of `trap`: all zeros scores `k - 1`. -/
theorem trap_zeros (k : Nat) (hk : 1 ≤ k) : trap (List.replicate k false) = (k : Int) - 1 := by
  simp only [trap, ones_replicate_false, List.length_replicate]
  split <;> omega

example : (1 : Nat) ≤ 4 := by decide

/-- `inv_trap`: the all-zeros string scores its length, and nothing scores more -/
theorem inv_trap_max (k : Nat) :
    invTrap (List.replicate k false) = k ∧ ∀ b : List Bool, b.length = k → invTrap b ≤ k := by
  refine ⟨by simp [invTrap, ones_replicate_false], fun b hb => hb ▸ invTrap_le b⟩

/-- Royal Road R1 = order × number of complete (all-ones) blocks, for every order ≥ 1 (order 0 is
rejected by the code). -/
theorem royal_road1_blocks (x : List Bool) (order : Nat) (ho : 1 ≤ order) :
    royalRoad1 x order = some (order *
      (List.range (x.length / order)).countP (fun i => (slice x (i * order) order).all id)) := by
  have h0 : order ≠ 0 := by omega
  simp only [royalRoad1, h0, if_false]
  rw [natsum_foldl, sum_blocks _ _ order ho]
  intro i hi
  apply slice_length
  have hi' : i < x.length / order := by simpa using hi
  have : (i + 1) * order ≤ x.length := by
    calc (i + 1) * order ≤ (x.length / order) * order := Nat.mul_le_mul_right _ hi'
      _ ≤ x.length := Nat.div_mul_le_self _ _
  linarith [Nat.succ_mul i order]

example : (1 : Nat) ≤ 8 := by decide

/-- `chuang_f1` on 4k+1 bits: both documented optima score 4k, and no string scores more. -/
theorem chuang_f1_opt (k : Nat) :
    chuangF1 (List.replicate (4 * k + 1) true) = some (4 * k : Int) ∧
    chuangF1 (List.replicate (4 * k + 1) false) = some (4 * k : Int) ∧
    ∀ x : List Bool, x.length = 4 * k + 1 → ∀ v, chuangF1 x = some v → v ≤ 4 * k := by
  refine ⟨?_, ?_, ?_⟩
  · simp only [chuangF1, getLast?_replicate_succ, List.length_replicate, Nat.add_sub_cancel, isum_eq]
    rw [isum_map_const _ _ 4]
    · rw [rangeStep_length]; congr 1; have : (4 * k - 0 + 4 - 1) / 4 = k := by omega
      rw [this]
    · intro i hi
      obtain ⟨j, hj, rfl⟩ := mem_rangeStep hi
      have hj' : j < k := by omega
      simp only [slice_replicate]
      have : min 4 (4 * k + 1 - (0 + j * 4)) = 4 := by omega
      rw [this]; simpa using trap_rep_true 4
  · simp only [chuangF1, getLast?_replicate_succ, List.length_replicate, Nat.add_sub_cancel, isum_eq]
    rw [isum_map_const _ _ 4]
    · rw [rangeStep_length]; congr 1; have : (4 * k - 0 + 4 - 1) / 4 = k := by omega
      rw [this]
    · intro i hi
      obtain ⟨j, hj, rfl⟩ := mem_rangeStep hi
      have hj' : j < k := by omega
      simp only [slice_replicate]
      have : min 4 (4 * k + 1 - (0 + j * 4)) = 4 := by omega
      rw [this]; simpa using invTrap_rep_false 4
  · intro x hx v hv
    simp only [chuangF1] at hv
    cases hl : x.getLast? with
    | none => rw [hl] at hv; simp at hv
    | some last =>
      rw [hl] at hv
      simp only [Option.some.injEq, isum_eq] at hv
      rw [← hv]
      have := isum_map_le (rangeStep 0 (x.length - 1) 4)
        (fun i => if last = false then invTrap (slice x i 4) else trap (slice x i 4)) 4 (by
          intro i _
          have h1 := slice_length_le x i 4
          have h2 := trap_le (slice x i 4)
          have h3 := invTrap_le (slice x i 4)
          split <;> omega)
      rw [rangeStep_length, hx] at this
      have e : (4 * k + 1 - 1 - 0 + 4 - 1) / 4 = k := by omega
      rw [e] at this
      rw [hx]; linarith

/-- `chuang_f2` on 8k+2 bits: the four documented optima — blocks `s2⁴ s1⁴` repeated, followed by the
selector bits `s2 s1` — score 8k, and no string scores more. -/
theorem chuang_f2_opt (k : Nat) :
    (∀ s2 s1 : Bool,
      chuangF2 ((List.replicate k (List.replicate 4 s2 ++ List.replicate 4 s1)).flatten ++ [s2, s1])
        = some (8 * k : Int)) ∧
    ∀ x : List Bool, x.length = 8 * k + 2 → ∀ v, chuangF2 x = some v → v ≤ 8 * k := by
  constructor
  · intro s2 s1
    have hF : ((List.replicate k (List.replicate 4 s2 ++ List.replicate 4 s1)).flatten).length = 8 * k := by
      simp [List.length_flatten]; ring
    have hlen : ((List.replicate k (List.replicate 4 s2 ++ List.replicate 4 s1)).flatten ++ [s2, s1]).length
        = 8 * k + 2 := by rw [List.length_append, hF]; rfl
    have hnot : ¬ (8 * k + 2 < 2) := by omega
    simp only [chuangF2, hlen, hnot, if_false, isum_eq]
    have g2 : ((List.replicate k (List.replicate 4 s2 ++ List.replicate 4 s1)).flatten ++ [s2, s1]).getD
        (8 * k + 2 - 2) false = s2 := by
      rw [List.getD_eq_getElem?_getD, List.getElem?_append_right (by rw [hF]; omega), hF]
      have : 8 * k + 2 - 2 - 8 * k = 0 := by omega
      rw [this]; rfl
    have g1 : ((List.replicate k (List.replicate 4 s2 ++ List.replicate 4 s1)).flatten ++ [s2, s1]).getD
        (8 * k + 2 - 1) false = s1 := by
      rw [List.getD_eq_getElem?_getD, List.getElem?_append_right (by rw [hF]; omega), hF]
      have : 8 * k + 2 - 1 - 8 * k = 1 := by omega
      rw [this]; rfl
    rw [g2, g1, isum_map_const _ _ 8]
    · rw [rangeStep_length]
      have : (8 * k + 2 - 2 - 0 + 8 - 1) / 8 = k := by omega
      rw [this]
    · intro i hi
      obtain ⟨j, hj, rfl⟩ := mem_rangeStep hi
      have hj' : j < k := by omega
      obtain ⟨h1, h2⟩ := f2_blocks s2 s1 k j hj'
      simp only [Nat.zero_add]
      rw [h1, h2]
      have a := sel_rep s2; have b := sel_rep s1
      simp only [sel] at a b
      rw [a, b]; rfl
  · intro x hx v hv
    have hnot : ¬ (x.length < 2) := by omega
    simp only [chuangF2, hnot, if_false, Option.some.injEq, isum_eq] at hv
    rw [← hv]
    have := isum_map_le (rangeStep 0 (x.length - 2) 8)
      (fun i => (if x.getD (x.length - 2) false = false then invTrap (slice x i 4) else trap (slice x i 4))
        + (if x.getD (x.length - 1) false = false then invTrap (slice x (i + 4) 4) else trap (slice x (i + 4) 4))) 8 (by
      intro i _
      have h1 := slice_length_le x i 4
      have h1' := slice_length_le x (i + 4) 4
      have h2 := trap_le (slice x i 4)
      have h3 := invTrap_le (slice x i 4)
      have h2' := trap_le (slice x (i + 4) 4)
      have h3' := invTrap_le (slice x (i + 4) 4)
      show _ + _ ≤ (8 : Int)
      split <;> split <;> omega)
    rw [rangeStep_length, hx] at this
    have e : (8 * k + 2 - 2 - 0 + 8 - 1) / 8 = k := by omega
    rw [e] at this
    rw [hx]; linarith

/-- `chuang_f3` on 4k+1 bits: the all-zeros optimum scores 4k -/
theorem chuang_f3_zeros (k : Nat) : chuangF3 (List.replicate (4 * k + 1) false) = some (4 * k : Int) := by
  simp only [chuangF3, getLast?_replicate_succ, List.length_replicate, Nat.add_sub_cancel, isum_eq, if_true]
  rw [isum_map_const _ _ 4]
  · rw [rangeStep_length]; congr 1; have : (4 * k - 0 + 4 - 1) / 4 = k := by omega
    rw [this]
  · intro i hi
    obtain ⟨j, hj, rfl⟩ := mem_rangeStep hi
    have hj' : j < k := by omega
    simp only [slice_replicate]
    have : min 4 (4 * k + 1 - (0 + j * 4)) = 4 := by omega
    rw [this]; simpa using invTrap_rep_false 4

/-- the optimum of the last-bit-1 branch of `chuang_f3`: `11 0…0 11` (4k+1 bits, k ≥ 1) scores 4k. -/
theorem chuang_f3_shifted (k : Nat) (hk : 1 ≤ k) :
    chuangF3 ([true, true] ++ List.replicate (4 * k - 3) false ++ [true, true]) = some (4 * k : Int) := by
  have hlen : ([true, true] ++ List.replicate (4 * k - 3) false ++ [true, true]).length = 4 * k + 1 := by
    simp; omega
  have hlast : ([true, true] ++ List.replicate (4 * k - 3) false ++ [true, true]).getLast? = some true :=
    getLast?_two _
  simp only [chuangF3, hlast, hlen, isum_eq]
  simp only [Bool.true_eq_false, if_false]
  rw [isum_map_const _ _ 4]
  · rw [rangeStep_length]
    have e : (4 * k + 1 - 3 - 2 + 4 - 1) / 4 = k - 1 := by omega
    rw [e]
    have hd : ([true, true] ++ List.replicate (4 * k - 3) false ++ [true, true]).drop (4 * k + 1 - 2)
        = [true, true] := by
      rw [List.drop_append_of_le_length (by simp; omega)]
      rw [List.drop_eq_nil_of_le (by simp; omega)]; rfl
    rw [hd]
    have ht : ([true, true] ++ List.replicate (4 * k - 3) false ++ [true, true]).take 2 = [true, true] := by
      simp
    rw [ht]
    have : trap ([true, true] ++ [true, true]) = 4 := by decide
    rw [this]; congr 1; push_cast; omega
  · intro i hi
    obtain ⟨j, hj, rfl⟩ := mem_rangeStep hi
    have hj' : j < k - 1 := by omega
    rw [slice_mid _ _ (by omega) (by omega)]
    simpa using invTrap_rep_false 4

example : (1 : Nat) ≤ 10 := by decide

/-- `chuang_f3` on 4k+1 bits (k ≥ 1): no string scores more than 4k. -/
theorem chuang_f3_le (k : Nat) (hk : 1 ≤ k) (x : List Bool) (hx : x.length = 4 * k + 1) (v : Int)
    (hv : chuangF3 x = some v) : v ≤ 4 * k := by
  simp only [chuangF3] at hv
  cases hl : x.getLast? with
  | none => rw [hl] at hv; simp at hv
  | some last =>
    rw [hl] at hv
    have bound : ∀ i, invTrap (slice x i 4) ≤ 4 := fun i => by
      have h1 := slice_length_le x i 4; have h3 := invTrap_le (slice x i 4); omega
    cases last with
    | false =>
      simp only [if_true, Option.some.injEq, isum_eq] at hv
      rw [← hv]
      have := isum_map_le (rangeStep 0 (x.length - 1) 4) (fun i => invTrap (slice x i 4)) 4 (fun i _ => bound i)
      rw [rangeStep_length, hx] at this
      have e : (4 * k + 1 - 1 - 0 + 4 - 1) / 4 = k := by omega
      rw [e] at this; rw [hx]; linarith
    | true =>
      simp only [Bool.true_eq_false, if_false, Option.some.injEq, isum_eq] at hv
      rw [← hv]
      have := isum_map_le (rangeStep 2 (x.length - 3) 4) (fun i => invTrap (slice x i 4)) 4 (fun i _ => bound i)
      rw [rangeStep_length, hx] at this
      have e : (4 * k + 1 - 3 - 2 + 4 - 1) / 4 = k - 1 := by omega
      rw [e] at this
      have ht := trap_le (x.drop (x.length - 2) ++ x.take 2)
      have hl2 : (x.drop (x.length - 2) ++ x.take 2).length ≤ 4 := by simp; omega
      rw [hx] at *
      have : ((k - 1 : Nat) : Int) = (k : Int) - 1 := by omega
      linarith

example : (1 : Nat) ≤ 10 ∧ (List.replicate 41 true).length = 4 * 10 + 1 := by decide

/-- the all-ones string, which the docstring of `chuang_f3` lists as a global optimum, scores only
3k+1 < 4k for k ≥ 2 (the docstring was copied from `chuang_f1`). -/
theorem chuang_f3_ones (k : Nat) (hk : 1 ≤ k) :
    chuangF3 (List.replicate (4 * k + 1) true) = some (3 * k + 1 : Int) := by
  simp only [chuangF3, getLast?_replicate_succ, List.length_replicate, isum_eq]
  simp only [Bool.true_eq_false, if_false]
  rw [isum_map_const _ _ 3]
  · rw [rangeStep_length]
    have e : (4 * k + 1 - 3 - 2 + 4 - 1) / 4 = k - 1 := by omega
    rw [e]
    have : trap (List.drop (4 * k + 1 - 2) (List.replicate (4 * k + 1) true) ++
        List.take 2 (List.replicate (4 * k + 1) true)) = 4 := by
      simp only [List.drop_replicate, List.take_replicate, ← List.replicate_add]
      have : 4 * k + 1 - (4 * k + 1 - 2) + min 2 (4 * k + 1) = 4 := by omega
      rw [this]; decide
    rw [this]; congr 1; omega
  · intro i hi
    obtain ⟨j, hj, rfl⟩ := mem_rangeStep hi
    have hj' : j < k - 1 := by omega
    simp only [slice_replicate]
    have : min 4 (4 * k + 1 - (2 + j * 4)) = 4 := by omega
    rw [this]; decide

example : (1 : Nat) ≤ 10 := by decide

/-! ## 5. `bin2float` decoding (exact, ℚ) -/

/-- the value decoded from one block -/
def decodeBlock (mn mx : ℚ) (nbits : Nat) (blk : List Bool) : ℚ :=
  mn + ((binVal blk : ℚ) / ((2 ^ nbits - 1 : Nat) : ℚ)) * (mx - mn)

/-- `bin2float` hands the wrapped function one value `min + gene/(2ⁿ-1)·(max-min)` per complete block -/
theorem bin2float_eq (mn mx : ℚ) (nbits : Nat) (h : 1 ≤ nbits) (x : List Bool) :
    bin2float mn mx nbits x = some ((List.range (x.length / nbits)).map fun i =>
      decodeBlock mn mx nbits (slice x (i * nbits) nbits)) := by
  have : nbits ≠ 0 := by omega
  simp only [bin2float, this, if_false, decodeBlock]

example : (1 : Nat) ≤ 16 := by decide

/-- `bin2float`: every decoded value lies in [min, max] (for min ≤ max and a bit width ≥ 1, which the
code requires), one value per complete block. -/
theorem bin2float_range (mn mx : ℚ) (nbits : Nat) (h : 1 ≤ nbits) (hle : mn ≤ mx) (x : List Bool) :
    ∃ d, bin2float mn mx nbits x = some d ∧ d.length = x.length / nbits ∧ ∀ v ∈ d, mn ≤ v ∧ v ≤ mx := by
  refine ⟨_, bin2float_eq mn mx nbits h x, by simp, ?_⟩
  intro v hv
  simp only [List.mem_map, List.mem_range] at hv
  obtain ⟨i, hi, rfl⟩ := hv
  have hl : (slice x (i * nbits) nbits).length = nbits := slice_length _ _ _ (block_in_range hi)
  have hlt := binVal_lt (slice x (i * nbits) nbits)
  rw [hl] at hlt
  have hpos := two_pow_sub_one_pos nbits h
  have hdpos : (0 : ℚ) < ((2 ^ nbits - 1 : Nat) : ℚ) := by exact_mod_cast hpos
  have hle1 : (binVal (slice x (i * nbits) nbits) : ℚ) ≤ ((2 ^ nbits - 1 : Nat) : ℚ) := by
    exact_mod_cast (by omega : binVal (slice x (i * nbits) nbits) ≤ 2 ^ nbits - 1)
  have h0 : (0 : ℚ) ≤ (binVal (slice x (i * nbits) nbits) : ℚ) / ((2 ^ nbits - 1 : Nat) : ℚ) :=
    div_nonneg (by exact_mod_cast Nat.zero_le _) hdpos.le
  have h1 : (binVal (slice x (i * nbits) nbits) : ℚ) / ((2 ^ nbits - 1 : Nat) : ℚ) ≤ 1 :=
    (div_le_one hdpos).2 hle1
  have hs : 0 ≤ mx - mn := by linarith
  simp only [decodeBlock]
  constructor
  · nlinarith [mul_nonneg h0 hs]
  · nlinarith [mul_le_mul_of_nonneg_right h1 hs]

example : (1 : Nat) ≤ 8 ∧ (-5.12 : ℚ) ≤ 5.12 := by norm_num

/-- all-zeros decodes to `min` in every block -/
theorem bin2float_zeros (mn mx : ℚ) (nbits : Nat) (h : 1 ≤ nbits) (n : Nat) :
    bin2float mn mx nbits (List.replicate n false) = some (List.replicate (n / nbits) mn) := by
  rw [bin2float_eq mn mx nbits h, List.length_replicate]
  congr 1
  apply List.ext_getElem (by simp)
  intro i h1 h2
  simp only [List.getElem_map, List.getElem_range, List.getElem_replicate, decodeBlock, slice_replicate,
    binVal_replicate_false]
  simp

example : (1 : Nat) ≤ 16 := by decide

/-- all-ones decodes to `max` in every block -/
theorem bin2float_ones (mn mx : ℚ) (nbits : Nat) (h : 1 ≤ nbits) (n : Nat) :
    bin2float mn mx nbits (List.replicate n true) = some (List.replicate (n / nbits) mx) := by
  rw [bin2float_eq mn mx nbits h, List.length_replicate]
  congr 1
  apply List.ext_getElem (by simp)
  intro i h1 h2
  have hi : i < n / nbits := by simpa using h1
  have hb := block_in_range hi
  simp only [List.getElem_map, List.getElem_range, List.getElem_replicate, decodeBlock, slice_replicate]
  have hm : min nbits (n - i * nbits) = nbits := by omega
  rw [hm]
  have hv : binVal (List.replicate nbits true) = 2 ^ nbits - 1 := by
    have := (binVal_max_iff (List.replicate nbits true)).2 (by simp)
    simpa using this
  rw [hv]
  have hpos := two_pow_sub_one_pos nbits h
  have hd : ((2 ^ nbits - 1 : Nat) : ℚ) ≠ 0 := by exact_mod_cast (by omega : 2 ^ nbits - 1 ≠ 0)
  rw [div_self hd]; ring

example : (1 : Nat) ≤ 16 := by decide

/-! ## 6. Decorators: the wrapped function receives the inversely transformed individual -/

/-- `translate`: the wrapped function receives `x - t` component-wise (one entry per gene when the
vector has the individual's length), i.e. adding the translation back gives the individual. -/
theorem translate_arg {β : Type} (f : List ℝ → β) (t x : List ℝ) (h : t.length = x.length) :
    translate f t x = f (List.zipWith (· - ·) x t) ∧
    (List.zipWith (· - ·) x t).length = x.length ∧
    List.zipWith (· + ·) (List.zipWith (· - ·) x t) t = x := by
  refine ⟨?_, by simp [h], zipWith_sub_add x t h⟩
  simp only [translate, translateArg, List.map_zip_eq_zipWith]
  rfl

example : ([1, 2] : List ℝ).length = ([3, 4] : List ℝ).length := rfl

/-- `scale`: with non-zero factors (a zero factor raises in `__init__`) the wrapped function receives
`x / factor` component-wise; multiplying back gives the individual. -/
theorem scale_arg {β : Type} (f : List ℝ → β) (factor x : List ℝ) (h : ∀ c ∈ factor, c ≠ 0)
    (hl : factor.length = x.length) :
    scale f factor x = some (f (List.zipWith (· / ·) x factor)) ∧
    (List.zipWith (· / ·) x factor).length = x.length ∧
    List.zipWith (· * ·) (List.zipWith (· / ·) x factor) factor = x := by
  refine ⟨?_, by simp [hl], ?_⟩
  · simp only [scale, scaleArg, scaleFactor_eq factor h, Option.map_some, List.map_zip_eq_zipWith]
    congr 2
    clear hl
    induction x generalizing factor with
    | nil => simp
    | cons a x ih =>
      cases factor with
      | nil => simp
      | cons c t =>
        simp only [List.map_cons, List.zipWith_cons_cons]
        rw [ih t (fun d hd => h d (by simp [hd]))]
        congr 1; simp only [Function.curry]; real_bridge; ring
  · induction x generalizing factor with
    | nil => simp
    | cons a x ih =>
      cases factor with
      | nil => simp at hl
      | cons c t =>
        simp only [List.zipWith_cons_cons]
        rw [ih t (fun d hd => h d (by simp [hd])) (by simpa using hl)]
        have : c ≠ 0 := h c (by simp)
        congr 1; field_simp

example : (∀ c ∈ ([2, -4] : List ℝ), c ≠ 0) ∧ ([2, -4] : List ℝ).length = ([1, 3] : List ℝ).length := by simp

/-- a zero factor is rejected (ZeroDivisionError in `scale.__init__`) -/
theorem scale_zero_rejected (pre post x : List ℝ) : scaleArg (pre ++ 0 :: post) x = none := by
  have : scaleFactor (pre ++ (0 : ℝ) :: post) = none := by
    unfold scaleFactor
    induction pre with
    | nil =>
      have : ¬ ((0 : ℝ) < 0 ∨ (0 : ℝ) < 0) := by simp
      simp only [List.nil_append, List.mapM_cons]; real_bridge; push_cast; rw [if_neg this]; rfl
    | cons a t ih => rw [List.cons_append, List.mapM_cons, ih]; split <;> rfl
  simp [scaleArg, this]

/-- `rotate`: with `numpy.linalg.inv` meeting its contract (`inv R = R⁻¹`, i.e. `R · R⁻¹ = 1`), the wrapped
function receives `R⁻¹ x`: rotating it by `R` gives the individual back. -/
theorem rotate_arg {β : Type} {n : Nat} (f : List ℝ → β) (R Rinv : Matrix (Fin n) (Fin n) ℝ)
    (inv : List (List ℝ) → List (List ℝ)) (hcontract : inv (rows R) = rows Rinv) (hinv : R * Rinv = 1)
    (v : Fin n → ℝ) :
    rotate f inv (rows R) (List.ofFn v) = some (f (List.ofFn (Rinv.mulVec v))) ∧
    R.mulVec (Rinv.mulVec v) = v := by
  constructor
  · simp only [rotate, rotateArg, hcontract, matVec_rows, Option.map_some]
  · rw [Matrix.mulVec_mulVec, hinv, Matrix.one_mulVec]

example : (fun _ => rows (1 : Matrix (Fin 2) (Fin 2) ℝ)) (rows (1 : Matrix (Fin 2) (Fin 2) ℝ))
      = rows (1 : Matrix (Fin 2) (Fin 2) ℝ) ∧
    (1 : Matrix (Fin 2) (Fin 2) ℝ) * 1 = 1 := ⟨rfl, by simp⟩

/-- `noise`: every objective with a noise function gets exactly the next draw added, the others pass
unchanged, and exactly one draw per noisy objective is consumed. -/
theorem noise_adds (spec : NoiseSpec) (result tape out rest : List ℝ)
    (h : noise spec result tape = some (out, rest)) :
    let l := result.zip (spec.flags result.length)
    ∃ used, tape = used ++ rest ∧ used.length = l.countP (·.2) ∧ out.length = l.length ∧
      ∀ i r b, l[i]? = some (r, b) →
        (b = false → out[i]? = some r) ∧
        (b = true → ∃ d, used[(l.take i).countP (·.2)]? = some d ∧ out[i]? = some (r + d)) :=
  noiseGo_spec _ _ _ _ h

example : noise (.rep true) [(1 : ℝ), 2] [10, 20, 30] = some ([1 + 10, 2 + 20], [30]) := by
  simp [noise, NoiseSpec.flags, noiseGo, List.replicate]

/-- `bound`: the three bounding modes return the operator's result unchanged (they are stubs). -/
theorem bound_id {γ : Type} (k : BoundKind) (inds : γ) : bound k inds = inds := rfl

/-! ## 7. Moving peaks -/

/-- `MovingPeaks.__call__` returns the maximum of its peak functions (and the basis function):
the value is one of the separately evaluated values and no value exceeds it; it is defined
whenever there is at least one peak or a basis function. -/
theorem mp_eval_max (peaks : List (Peak ℝ)) (basis : Option ℝ) (x : List ℝ) :
    (possibleValues peaks basis x ≠ [] → ∃ v, call peaks basis x = some v) ∧
    ∀ v, call peaks basis x = some v →
      v ∈ possibleValues peaks basis x ∧ ∀ w ∈ possibleValues peaks basis x, w ≤ v := by
  unfold call
  cases hp : possibleValues peaks basis x with
  | nil => simp [pyMax]
  | cons a t =>
    refine ⟨fun _ => ⟨_, rfl⟩, ?_⟩
    intro v hv
    simp only [pyMax, Option.some.injEq] at hv
    rw [← hv]
    have := pyMax_fold t a
    simpa only [real_lt] using this

example : possibleValues [⟨.cone, [0], 50, 1, [0]⟩] none [(3 : ℝ)] ≠ [] := by simp [possibleValues]

/-- `changePeaks`, any number of times, on any tape: with limits configured and the initial count
inside them, the number of peaks stays inside `[minpeaks, maxpeaks]`; without limits it never
changes. -/
theorem mp_count_inv (cfg : Config ℝ) (k : Nat) (peaks : List (Peak ℝ)) (t : Tape ℝ)
    (p' : List (Peak ℝ)) (t' : Tape ℝ) (h : changeTimes cfg k peaks t = some (p', t')) :
    (cfg.limits = none → p'.length = peaks.length) ∧
    (∀ mn mx, cfg.limits = some (mn, mx) → mn ≤ (peaks.length : Int) → (peaks.length : Int) ≤ mx →
      mn ≤ (p'.length : Int) ∧ (p'.length : Int) ≤ mx) := by
  induction k generalizing peaks t with
  | zero =>
    simp only [changeTimes, Option.some.injEq, Prod.mk.injEq] at h
    rw [← h.1]; exact ⟨fun _ => rfl, fun _ _ _ h1 h2 => ⟨h1, h2⟩⟩
  | succ j ih =>
    simp only [changeTimes] at h
    split at h
    · simp at h
    · next p1 t1 h1 =>
      have hc := changePeaks_count _ _ _ _ _ h1
      obtain ⟨i1, i2⟩ := ih _ _ h
      constructor
      · intro hl; rw [hl] at hc; rw [i1 hl]; exact hc
      · intro mn mx hl a b
        rw [hl] at hc
        obtain ⟨c1, c2⟩ := hc a b
        exact i2 mn mx hl c1 c2

/-- a configuration with limits [1, 3] and one change that adds a peak: the hypothesis of `mp_count_inv`
(`changeTimes … = some …`) is met by the tape `u = 0.75` (add), `u' = 0.5`, the new peak's choice / height /
width, then one height and one width draw per peak -/
noncomputable def cfgEx : Config ℝ :=
  { dim := 0, limits := some (1, 3), numberSeverity := 1, pool := [.cone], minCoord := 0, maxCoord := 100,
    minHeight := 30, maxHeight := 70, minWidth := 1, maxWidth := 12, lambda := 0, moveSeverity := 1,
    heightSeverity := 7, widthSeverity := 1, roundInt := fun _ => 1 }

example : (changeTimes cfgEx 1 [⟨.cone, [], 50, 5, []⟩]
    [.random (3/4), .random (1/2), .choice 0, .uniform 40, .uniform 2, .gauss 0, .gauss 0, .gauss 0, .gauss 0]).isSome
    = true := by
  simp only [changeTimes, changePeaks, changeNumber, cfgEx, popRandom, half]
  real_bridge
  norm_num [imin, addPeaks, popMany, popUniform, popRandom, changeAll, changePeak, popGauss, reflect, shiftScale]

/-! ## 8. Further characterisations: global minima, published forms, ZDT domain facts, DTLZ7 -/

/-- 0 is the global minimum value of `rastrigin_skew` -/
theorem rastriginSkew_nonneg (x : List ℝ) : 0 ≤ rastriginSkew x := by
  simp only [rastriginSkew]
  real_bridge
  have := sum_map_ge x (fun v => (if ((0:ℕ):ℝ) < v then ((10:ℕ):ℝ) * v else v) ^ 2 -
      ((10:ℕ):ℝ) * Real.cos (((2:ℕ):ℝ) * Real.pi * (if ((0:ℕ):ℝ) < v then ((10:ℕ):ℝ) * v else v))) (-10) (by
    intro p _
    have := Real.cos_le_one (((2:ℕ):ℝ) * Real.pi * (if ((0:ℕ):ℝ) < p then ((10:ℕ):ℝ) * p else p))
    have := sq_nonneg (if ((0:ℕ):ℝ) < p then ((10:ℕ):ℝ) * p else p)
    push_cast at *; linarith)
  push_cast at *
  linarith

/-- 0 is the global minimum value of `rastrigin_scaled` (for every dimension the code accepts) -/
theorem rastriginScaled_nonneg (x : List ℝ) (h : x.length ≠ 1) :
    ∃ v, rastriginScaled x = some v ∧ 0 ≤ v := by
  simp only [rastriginScaled, h, if_false]
  refine ⟨_, rfl, ?_⟩
  real_bridge
  have e : ((10 * x.length : ℕ) : ℝ) = -(-10 * ((enumFrom 0 x).length : ℝ)) := by
    rw [enumFrom_length]; push_cast; ring
  rw [e]
  have key : ∀ (l : List (ℕ × ℝ)) (F : ℕ × ℝ → ℝ), (∀ p ∈ l, (-10 : ℝ) ≤ F p) →
      0 ≤ -(-10 * (l.length : ℝ)) + (l.map F).sum := by
    intro l F hF; have := sum_map_ge l F (-10) hF; linarith
  apply key
  intro p _
  exact sq_sub_ten_cos _ _

/-- the published Ackley function -/
noncomputable def ackleySpec (x : List ℝ) : ℝ :=
  20 - 20 * Real.exp (-0.2 * Real.sqrt (1 / (x.length : ℝ) * (x.map (· ^ 2)).sum)) + Real.exp 1
    - Real.exp (1 / (x.length : ℝ) * (x.map fun v => Real.cos (2 * Real.pi * v)).sum)

theorem ackley_eq (x0 : ℝ) (t : List ℝ) : ackley (x0 :: t) = some (ackleySpec (x0 :: t)) := by
  simp only [ackley, ackleySpec, List.isEmpty_cons, Bool.false_eq_true, if_false]
  real_bridge; norm_num

/-- 0 is the global minimum value of `ackley`: 20(1 − e^{−0.2√(mean x²)}) ≥ 0 and e − e^{mean cos} ≥ 0. -/
theorem ackley_nonneg (x0 : ℝ) (t : List ℝ) : ∃ v, ackley (x0 :: t) = some v ∧ 0 ≤ v := by
  refine ⟨_, ackley_eq x0 t, ?_⟩
  unfold ackleySpec
  set x := x0 :: t with hx
  have hN : (0 : ℝ) < (x.length : ℝ) := by rw [hx]; simp; positivity
  have h1 : Real.exp (-0.2 * Real.sqrt (1 / (x.length : ℝ) * (x.map (· ^ 2)).sum)) ≤ 1 := by
    rw [Real.exp_le_one_iff]
    have := Real.sqrt_nonneg (1 / (x.length : ℝ) * (x.map (· ^ 2)).sum)
    nlinarith
  have h2 : Real.exp (1 / (x.length : ℝ) * (x.map fun v => Real.cos (2 * Real.pi * v)).sum) ≤ Real.exp 1 := by
    apply Real.exp_le_exp.2
    have hs := sum_map_le' x (fun v => Real.cos (2 * Real.pi * v)) 1 (fun p _ => Real.cos_le_one _)
    rw [div_mul_eq_mul_div, one_mul, div_le_one hN]
    linarith
  linarith

/-! ### published forms of the two-objective problems -/

theorem kursawe_eq (x : List ℝ) :
    kursawe x = [((adjacent x).map fun p => -10 * Real.exp (-0.2 * Real.sqrt (p.1 ^ 2 + p.2 ^ 2))).sum,
                 (x.map fun v => |v| ^ (0.8 : ℝ) + 5 * Real.sin (v ^ 3)).sum] := by
  simp only [kursawe]; real_bridge
  congr 2
  · congr 1; funext p; norm_num; ring_nf
  · congr 2; funext v; norm_num; ring_nf

theorem fonseca_eq (x : List ℝ) :
    fonseca x = [1 - Real.exp (-((x.take 3).map fun v => (v - 1 / Real.sqrt 3) ^ 2).sum),
                 1 - Real.exp (-((x.take 3).map fun v => (v + 1 / Real.sqrt 3) ^ 2).sum)] := by
  simp only [fonseca]; real_bridge; norm_num

theorem poloni_eq (x1 x2 : ℝ) (t : List ℝ) :
    poloni (x1 :: x2 :: t) =
      (let A1 := 0.5 * Real.sin 1 - 2 * Real.cos 1 + Real.sin 2 - 1.5 * Real.cos 2
       let A2 := 1.5 * Real.sin 1 - Real.cos 1 + 2 * Real.sin 2 - 0.5 * Real.cos 2
       let B1 := 0.5 * Real.sin x1 - 2 * Real.cos x1 + Real.sin x2 - 1.5 * Real.cos x2
       let B2 := 1.5 * Real.sin x1 - Real.cos x1 + 2 * Real.sin x2 - 0.5 * Real.cos x2
       some [1 + (A1 - B1) ^ 2 + (A2 - B2) ^ 2, (x1 + 3) ^ 2 + (x2 + 1) ^ 2]) := by
  simp only [poloni, poloniA1, poloniA2]; real_bridge; norm_num

theorem dent_eq (lam x1 x2 : ℝ) (t : List ℝ) :
    dent lam (x1 :: x2 :: t) =
      (let d := lam * Real.exp (-(x1 - x2) ^ 2)
       some [0.5 * (Real.sqrt (1 + (x1 + x2) ^ 2) + Real.sqrt (1 + (x1 - x2) ^ 2) + x1 - x2) + d,
             0.5 * (Real.sqrt (1 + (x1 + x2) ^ 2) + Real.sqrt (1 + (x1 - x2) ^ 2) - x1 + x2) + d]) := by
  simp only [dent]; real_bridge; norm_num

/-! ### ZDT on its domain -/

/-- ZDT1–3: g ≥ 1 when the distance variables are non-negative (domain [0,1]) -/
theorem zdt_g_ge_one (x0 x1 : ℝ) (t : List ℝ) (h : ∀ v ∈ x1 :: t, 0 ≤ v) : 1 ≤ zdtGSpec (x0 :: x1 :: t) := by
  simp only [zdtGSpec, List.tail_cons, List.length_cons]
  have hs := sum_nonneg_of_mem (x1 :: t) h
  have e : ((t.length + 1 + 1 : ℕ) : ℝ) - 1 = (t.length : ℝ) + 1 := by push_cast; ring
  rw [e]
  have : (0:ℝ) < (t.length : ℝ) + 1 := by positivity
  have : 0 ≤ 9 / ((t.length : ℝ) + 1) * (x1 :: t).sum := by positivity
  linarith

example : ∀ v ∈ [(0.5 : ℝ), 1, 0], 0 ≤ v := by norm_num

/-- ZDT4: g ≥ 1 for every input -/
theorem zdt4_g_ge_one (x0 : ℝ) (t : List ℝ) : 1 ≤ zdt4GSpec (x0 :: t) := by
  simp only [zdt4GSpec, List.tail_cons, List.length_cons]
  have := sum_map_ge t (fun v => v ^ 2 - 10 * Real.cos (4 * Real.pi * v)) (-10) (fun p _ => by
    have := Real.cos_le_one (4 * Real.pi * p); have := sq_nonneg p; linarith)
  push_cast; linarith

/-- ZDT6: g ≥ 1 when the distance variables are non-negative -/
theorem zdt6_g_ge_one (x0 x1 : ℝ) (t : List ℝ) (h : ∀ v ∈ x1 :: t, 0 ≤ v) : 1 ≤ zdt6GSpec (x0 :: x1 :: t) := by
  simp only [zdt6GSpec, List.tail_cons, List.length_cons]
  have hs := sum_nonneg_of_mem (x1 :: t) h
  have e : ((t.length + 1 + 1 : ℕ) : ℝ) - 1 = (t.length : ℝ) + 1 := by push_cast; ring
  rw [e]
  have : (0:ℝ) < (t.length : ℝ) + 1 := by positivity
  have : 0 ≤ (x1 :: t).sum / ((t.length : ℝ) + 1) := by positivity
  have := Real.rpow_nonneg this (0.25 : ℝ)
  linarith

/-- the ZDT1 Pareto front: with all distance variables zero, g = 1 and f₂ = 1 − √f₁ -/
theorem zdt1_front (x0 : ℝ) (n : Nat) :
    zdtGSpec (x0 :: List.replicate (n + 1) 0) = 1 ∧
    zdt1 (x0 :: List.replicate (n + 1) 0) = some [x0, 1 - Real.sqrt x0] := by
  have hg : zdtGSpec (x0 :: List.replicate (n + 1) 0) = 1 := by
    simp [zdtGSpec]
  refine ⟨hg, ?_⟩
  rw [List.replicate_succ, zdt1_f2, ← List.replicate_succ, hg]; simp

/-- conversely on the domain, g = 1 forces f₂ = 1 − √f₁ -/
theorem zdt1_front_of_g (x0 x1 : ℝ) (t : List ℝ) (hg : zdtGSpec (x0 :: x1 :: t) = 1) :
    zdt1 (x0 :: x1 :: t) = some [x0, 1 - Real.sqrt x0] := by
  rw [zdt1_f2, hg]; simp

example : zdtGSpec [(0.3 : ℝ), 0, 0] = 1 := by simp [zdtGSpec]

/-! ### DTLZ7 -/

/-- DTLZ7: the first M−1 objectives are the position variables, the last is (1+g)·h with
g = 1 + 9/|x_m|·Σx_m and h = M − Σ fᵢ/(1+g)·(1 + sin(3πfᵢ)); needs 1 ≤ M ≤ n. -/
theorem dtlz7_structure (x : List ℝ) (M : Nat) (hM : 1 ≤ M) (hn : M ≤ x.length) :
    let g := 1 + 9 / ((x.drop (M - 1)).length : ℝ) * (x.drop (M - 1)).sum
    let h := (M : ℝ) - ((x.take (M - 1)).map fun f => f / (1 + g) * (1 + Real.sin (3 * Real.pi * f))).sum
    dtlz7 x M = some (x.take (M - 1) ++ [(1 + g) * h]) ∧ (x.take (M - 1) ++ [(1 + g) * h]).length = M := by
  intro g h
  constructor
  · simp only [dtlz7, hM, hn, and_self, if_true, g, h]; real_bridge; norm_num
  · simp; omega

example : (1 : Nat) ≤ 3 ∧ 3 ≤ [(0.1 : ℝ), 0.2, 0.3, 0.4].length := by simp

/-! ## 8b. `rand`, stacked decorators -/


/-- `rand`: one objective, the next draw of `random.random()`, independent of the individual. -/
theorem rand_draw (x : List ℝ) (r : ℝ) (rest : List ℝ) : Bench.rand x (r :: rest) = some (r, rest) := rfl

/-- Stacked decorators `@translate(t) @rotate(R) @scale(c)`: the innermost function receives
`R⁻¹(x − t) / c`; scaling, rotating and translating it forward gives the individual back. -/
theorem stack_arg {n : Nat} (R Rinv : Matrix (Fin n) (Fin n) ℝ) (hinv : R * Rinv = 1)
    (t c v : Fin n → ℝ) (hc : ∀ i, c i ≠ 0) :
    stackArg (List.ofFn t) (rows Rinv) (List.ofFn c) (List.ofFn v)
      = some (List.ofFn fun i => Rinv.mulVec (fun j => v j - t j) i / c i) ∧
    (fun i => R.mulVec (fun k => (Rinv.mulVec (fun j => v j - t j) k / c k) * c k) i + t i) = v := by
  constructor
  · have ht : translateArg (List.ofFn t) (List.ofFn v) = List.ofFn fun j => v j - t j := by
      simp only [translateArg, List.map_zip_eq_zipWith]
      exact zipWith_ofFn (fun a b => a - b) v t
    have hcs : ∀ d ∈ List.ofFn c, d ≠ 0 := by
      intro d hd; simp only [List.mem_ofFn] at hd; obtain ⟨i, rfl⟩ := hd; exact hc i
    simp only [stackArg, ht, matVec_rows]
    have := (scale_arg (fun l => l) (List.ofFn c) (List.ofFn (Rinv.mulVec fun j => v j - t j)) hcs (by simp)).1
    simp only [scale, Option.map_eq_some_iff] at this
    obtain ⟨a, ha, rfl⟩ := this
    rw [ha, zipWith_ofFn]
  · funext i
    have : (fun k => (Rinv.mulVec (fun j => v j - t j) k / c k) * c k) = Rinv.mulVec (fun j => v j - t j) := by
      funext k; field_simp [hc k]
    rw [this, Matrix.mulVec_mulVec, hinv, Matrix.one_mulVec]; ring

example : (1 : Matrix (Fin 2) (Fin 2) ℝ) * 1 = 1 ∧ ∀ i : Fin 2, (fun _ => (2 : ℝ)) i ≠ 0 := by simp

/-! ## 9. Moving peaks: totality on well-typed tapes, counted evaluations (any scalar type) -/

section MPTotal
variable {α : Type} [RealLike α]

/-- **`changePeaks` is total on well-typed tapes.**  If every peak has `dim` coordinates (the class
invariant) and the tape answers the request sequence `changeReqs` — right kind of draw at every
position, `randrange`/`choice` indices in range, at least `(changeReqs …).length` draws — the call
succeeds, consumes exactly that many draws, leaves `newLen` peaks and keeps the invariant.  With limits
`[mn, mx]` and the count inside them the sequence is at most `2 + (mx-mn)(2·dim+3) + mx(dim+2)` long. -/
theorem changePeaks_total (cfg : Config α) (peaks : List (Peak α)) (t : Tape α)
    (hd : DimOK cfg.dim peaks) (h : Serves (changeReqs cfg peaks.length t) t) :
    (∃ p' t', changePeaks cfg peaks t = some (p', t') ∧ p'.length = newLen cfg peaks.length t ∧
      DimOK cfg.dim p' ∧ t' = t.drop (changeReqs cfg peaks.length t).length) ∧
    (∀ mn mx, cfg.limits = some (mn, mx) → mn ≤ (peaks.length : Int) → (peaks.length : Int) ≤ mx →
      (changeReqs cfg peaks.length t).length ≤ 2 + (mx - mn).toNat * (2 * cfg.dim + 3) + mx.toNat * (cfg.dim + 2)) ∧
    (cfg.limits = none → (changeReqs cfg peaks.length t).length = peaks.length * (cfg.dim + 2)) := by
  refine ⟨?_, fun mn mx hl h1 h2 => changeReqs_length_le cfg _ t mn mx hl h1 h2,
    fun hl => changeReqs_length_nolimits cfg _ t hl⟩
  obtain ⟨p', t', e1, e2, e3, e4, _⟩ := changePeaks_total' cfg [] peaks t hd (by simpa using h)
  exact ⟨p', t', e1, e2, e3, e4⟩

/-- the hypotheses are met: no limits, one 1-D peak, the tape `random, gauss, gauss` -/
example : DimOK 1 [(⟨.cone, [5], 50, 1, [0]⟩ : Peak ℝ)] ∧
    ∀ cfg : Config ℝ, cfg.dim = 1 → cfg.limits = none →
      Serves (changeReqs cfg 1 [Draw.random 0, .gauss 0, .gauss 0]) [Draw.random (0 : ℝ), .gauss 0, .gauss 0] := by
  constructor
  · intro p hp; simp at hp; subst hp; simp
  · intro cfg h1 h2
    simp [changeReqs, numberReqs, newLen, plan, h2, allReqs, peakReqs, h1, Serves, kindOK]

/-- **Count invariant, unconditionally on well-typed tapes**: if the tape answers `k` successive calls
(`ServesTimes`), all `k` changes succeed and the number of peaks stays inside the configured limits
(resp. unchanged without limits). -/
theorem mp_count_inv_total (cfg : Config α) (k : Nat) (peaks : List (Peak α)) (t : Tape α)
    (hd : DimOK cfg.dim peaks) (h : ServesTimes cfg k peaks.length t) :
    ∃ p' t', changeTimes cfg k peaks t = some (p', t') ∧
      (cfg.limits = none → p'.length = peaks.length) ∧
      (∀ mn mx, cfg.limits = some (mn, mx) → mn ≤ (peaks.length : Int) → (peaks.length : Int) ≤ mx →
        mn ≤ (p'.length : Int) ∧ (p'.length : Int) ≤ mx) := by
  obtain ⟨p', t', e, _⟩ := changeTimes_total cfg k peaks t hd h
  refine ⟨p', t', e, ?_⟩
  -- the count part is `mp_count_inv`, proved for every scalar type
  clear hd h
  induction k generalizing peaks t with
  | zero =>
    simp only [changeTimes, Option.some.injEq, Prod.mk.injEq] at e
    rw [← e.1]; exact ⟨fun _ => rfl, fun _ _ _ h1 h2 => ⟨h1, h2⟩⟩
  | succ j ih =>
    simp only [changeTimes] at e
    split at e
    · simp at e
    · next p1 t1 h1 =>
      have hc := changePeaks_count _ _ _ _ _ h1
      obtain ⟨i1, i2⟩ := ih _ _ e
      constructor
      · intro hl; rw [hl] at hc; rw [i1 hl]; exact hc
      · intro mn mx hl a b
        rw [hl] at hc
        obtain ⟨c1, c2⟩ := hc a b
        exact i2 mn mx hl c1 c2

example : ∀ cfg : Config ℝ, cfg.limits = none → ServesTimes cfg 2 0 [] := by
  intro cfg h
  simp [ServesTimes, changeReqs, numberReqs, newLen, plan, h, allReqs, Serves]

/-- a realistic instance of the hypotheses of `mp_count_inv_total`: limits [1, 3], two 1-D peaks, one change that
adds a peak (u = 3/4 ≥ ½, rounded request 1), served by a 16-draw tape -/
noncomputable def cfgEx2 : Config ℝ :=
  { dim := 1, limits := some (1, 3), numberSeverity := 1, pool := [.cone, .function1], minCoord := 0, maxCoord := 100,
    minHeight := 30, maxHeight := 70, minWidth := 1, maxWidth := 12, lambda := 0, moveSeverity := 1,
    heightSeverity := 7, widthSeverity := 1, roundInt := fun _ => 1 }

example :
    DimOK cfgEx2.dim [(⟨.cone, [10], 50, 5, [0]⟩ : Peak ℝ), ⟨.function1, [60], 40, 2, [1/4]⟩] ∧
    ServesTimes cfgEx2 1 2
      [.random (3/4), .random (1/2), .choice 1, .uniform 33, .uniform 45, .uniform 3, .random (1/8),
       .random (1/2), .gauss 0, .gauss 1, .random (1/4), .gauss (-1), .gauss 0, .random (3/4), .gauss 2, .gauss 0] := by
  constructor
  · intro p hp; simp at hp; rcases hp with rfl | rfl <;> simp [cfgEx2]
  · have h : ¬ ((3 / 4 : ℝ) < 1 / 2) := by norm_num
    simp only [ServesTimes, changeReqs, numberReqs, newLen, plan, cfgEx2, half, RealLike.real_ofRatio, RealLike.real_lt]
    norm_num [imin, addReqs, addBlock, allReqs, peakReqs, Serves, kindOK, List.replicate]

/-- `MovingPeaks.__init__` builds one peak per peak function, each with `dim` coordinates and a `dim`-long
last-change vector — the invariant `DimOK` that `changePeaks_total` and `mp_count_inv_total` start from. -/
theorem mp_init_dim (dim : Nat) (fns : List PFunc) (uh uw : α) (t : Tape α) (peaks : List (Peak α)) (t' : Tape α)
    (h : initPeaks dim fns uh uw t = some (peaks, t')) :
    peaks.length = fns.length ∧ DimOK dim peaks ∧ peaks.map (·.fn) = fns := by
  unfold initPeaks at h
  simp only at h
  split at h
  · simp at h
  · next poss t1 h1 =>
    split at h
    · simp at h
    · next hs t2 h2 =>
      split at h
      · simp at h
      · next ws t3 h3 =>
        split at h
        · simp at h
        · next lasts t4 h4 =>
          simp only [Option.some.injEq, Prod.mk.injEq] at h
          obtain ⟨p1, p2⟩ := popGroups_spec _ _ _ _ _ _ h1
          obtain ⟨l1, l2⟩ := popGroups_spec _ _ _ _ _ _ h4
          have hh := initScalars_length _ _ _ _ _ h2
          have hw := initScalars_length _ _ _ _ _ h3
          rw [← h.1]
          refine ⟨by simp [List.length_zip, p1, l1, hh, hw], ?_, ?_⟩
          · intro p hp
            simp only [List.mem_map] at hp
            obtain ⟨q, hq, rfl⟩ := hp
            have a := List.of_mem_zip hq
            have b := List.of_mem_zip a.2
            have c := List.of_mem_zip b.2
            have d := List.of_mem_zip c.2
            exact ⟨p2 _ b.1, by simp [l2 _ d.2]⟩
          · simp only [List.map_map]
            have : ((fun p : Peak α => p.fn) ∘ fun q : PFunc × List α × α × α × List α =>
                (⟨q.1, q.2.1, q.2.2.1, q.2.2.2.1, q.2.2.2.2.map fun r => r - half⟩ : Peak α)) = Prod.fst := rfl
            rw [this, List.map_fst_zip]
            simp [List.length_zip, p1, l1, hh, hw]

/-- **Counted evaluation**: the fitness is the `max` of the current peaks' values, `nevals` grows by
exactly one, and `changePeaks` runs (on the current peaks, with the current tape) exactly when
`period > 0 ∧ nevals % period = 0` for the incremented counter; otherwise peaks and tape are untouched. -/
theorem mp_call_step (cfg : Config α) (period : Int) (basis : Option (List α → α)) (st : State α)
    (x : List α) (t : Tape α) (v : α) (ch : Bool) (st' : State α) (t' : Tape α)
    (h : evalCounted cfg period basis st x t = some (v, ch, st', t')) :
    call st.peaks (basis.map fun b => b x) x = some v ∧
    st'.nevals = st.nevals + 1 ∧
    (ch = true ↔ (0 < period ∧ ((st.nevals + 1 : Nat) : Int) % period = 0)) ∧
    (ch = true → changePeaks cfg st.peaks t = some (st'.peaks, t')) ∧
    (ch = false → st'.peaks = st.peaks ∧ t' = t) := by
  unfold evalCounted at h
  split at h
  · simp at h
  · next v0 hv =>
    by_cases hemp : st.peaks.isEmpty = true
    · simp [hemp] at h
    · simp only [hemp, Bool.false_eq_true, if_false] at h
      by_cases htr : triggers period (st.nevals + 1) = true
      · simp only [htr, if_true] at h
        split at h
        · simp at h
        · next p1 t1 hc =>
          simp only [Option.some.injEq, Prod.mk.injEq] at h
          obtain ⟨rfl, rfl, rfl, rfl⟩ := h
          refine ⟨hv, rfl, ?_, fun _ => hc, fun hf => by simp at hf⟩
          simpa [triggers] using htr
      · simp only [htr, Bool.false_eq_true, if_false] at h
        simp only [Option.some.injEq, Prod.mk.injEq] at h
        obtain ⟨rfl, rfl, rfl, rfl⟩ := h
        refine ⟨hv, rfl, ?_, fun hf => by simp at hf, fun _ => ⟨rfl, rfl⟩⟩
        simp only [triggers, decide_eq_true_eq] at htr
        constructor
        · intro hf; simp at hf
        · intro hc; exact absurd hc htr

/-- **Over any history of evaluations**: after `n` counted evaluations `nevals` has grown by `n`, and the
`j`-th evaluation (0-based) triggered a change exactly when `period > 0 ∧ (nevals₀ + j + 1) % period = 0`. -/
theorem mp_call_count (cfg : Config α) (period : Int) (basis : Option (List α → α)) (xs : List (List α))
    (st : State α) (t : Tape α) (outs : List (α × Bool)) (st' : State α) (t' : Tape α)
    (h : evalMany cfg period basis xs st t = some (outs, st', t')) :
    st'.nevals = st.nevals + xs.length ∧ outs.length = xs.length ∧
    ∀ j (hj : j < outs.length),
      ((outs[j]).2 = true ↔ (0 < period ∧ ((st.nevals + j + 1 : Nat) : Int) % period = 0)) := by
  induction xs generalizing st t outs with
  | nil =>
    simp only [evalMany, Option.some.injEq, Prod.mk.injEq] at h
    obtain ⟨rfl, rfl, rfl⟩ := h
    simp
  | cons x rest ih =>
    simp only [evalMany] at h
    split at h
    · simp at h
    · next v ch st1 t1 h1 =>
      split at h
      · simp at h
      · next o2 st2 t2 h2 =>
        simp only [Option.some.injEq, Prod.mk.injEq] at h
        obtain ⟨rfl, rfl, rfl⟩ := h
        obtain ⟨_, a2, a3, _, _⟩ := mp_call_step _ _ _ _ _ _ _ _ _ _ h1
        obtain ⟨b1, b2, b3⟩ := ih _ _ _ h2
        refine ⟨by rw [b1, a2]; simp; omega, by simp [b2], ?_⟩
        intro j hj
        cases j with
        | zero => simpa using a3
        | succ i =>
          have := b3 i (by simpa using hj)
          simp only [List.getElem_cons_succ]
          rw [this, a2]
          have : st.nevals + 1 + i + 1 = st.nevals + (i + 1) + 1 := by omega
          rw [this]

end MPTotal

end C20
