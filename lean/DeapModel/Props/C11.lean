/-
C11 — GP trees stay well-formed, well-typed and within limits under all operators.
Property theorems only; model `DeapModel/Core/GpTree.lean`, helper lemmas `DeapModel/Lemmas/C11*.lean`.

Reading guide.  `flatten t` is the prefix-order node list of a tree (what `PrimitiveTree` stores).
`WellFormed sub σ l` says: `l` is the prefix form of a tree that is well typed for a slot of type `σ`
(every argument has a type accepted — `issubclass` = `sub` — by its parent; with the trivial `sub`
this is just "complete prefix expression").  All operator theorems quantify over every tape.
-/
import DeapModel.Lemmas.C11Ops
import DeapModel.Lemmas.C11Add
import DeapModel.Lemmas.C11TotalOps
import DeapModel.Lemmas.C11Ex
import DeapModel.Lemmas.C11Hist
import DeapModel.Lemmas.C11Semantic
import DeapModel.Lemmas.C11Pset
import DeapModel.Lemmas.C11Tie

namespace C11
open GpTree

/-- `l` is the prefix form of a tree that is well typed for a slot of type `σ` -/
def WellFormed (sub : Nat → Nat → Bool) (σ : Nat) (l : List Prim) : Prop :=
  ∃ t, wt sub σ t = true ∧ flatten t = l

/-- the executable typed stack machine decides `WellFormed` -/
theorem wellFormed_iff_typed {sub σ l} : WellFormed sub σ l ↔ typed sub [σ] l = true :=
  typed_iff_tree.symm


/-! ## Complete prefix expressions -/

/-- A node list is `flatten t` for a unique well-formed tree `t` iff the running arity count
(`closes`: starts at 1, must stay positive, must end at 0) accepts it. -/
theorem complete_iff (l : List Prim) :
    complete l = true ↔ ∃ t, (wf t = true ∧ flatten t = l) ∧ ∀ t', wf t' = true ∧ flatten t' = l → t' = t := by
  rw [complete_iff_tree]
  constructor
  · rintro ⟨t, hw, rfl⟩
    refine ⟨t, ⟨hw, rfl⟩, ?_⟩
    rintro t' ⟨hw', e⟩
    exact (flatten_inj t' t [] [] hw' hw (by simpa using e)).1
  · rintro ⟨t, h, _⟩; exact ⟨t, h⟩

/-- … and the count is literally the prefix sum `1 + Σ (arity − 1)`: positive before every node,
zero at the end. -/
theorem complete_iff_count (l : List Prim) :
    complete l = true ↔
      (∀ k, k < l.length → 0 < 1 + aritySum (l.take k)) ∧ 1 + aritySum l = 0 := by
  simpa [complete] using closes_iff_sums l 1

/-- typed version: accepted by the typed stack machine ⇔ prefix form of a unique well-typed tree -/
theorem typed_iff (sub : Nat → Nat → Bool) (σ : Nat) (l : List Prim) :
    typed sub [σ] l = true ↔ ∃ t, (wt sub σ t = true ∧ flatten t = l) ∧ ∀ t', wt sub σ t' = true ∧ flatten t' = l → t' = t := by
  rw [typed_iff_tree]
  constructor
  · rintro ⟨t, hw, rfl⟩
    refine ⟨t, ⟨hw, rfl⟩, ?_⟩
    rintro t' ⟨hw', e⟩
    exact (flatten_inj t' t [] [] (wf_of_wt hw') (wf_of_wt hw) (by simpa using e)).1
  · rintro ⟨t, h, _⟩; exact ⟨t, h⟩

/-! ## `searchSubtree` and `height` -/


/-- (non-negative index) `searchSubtree` on the prefix form of `t` at index `i` returns exactly the span
`[i, i + size s)` of the subtree `s` rooted at the `i`-th node, and that slice is `flatten s`. -/
theorem searchSubtree_span_nat (t s : Tree) (i : Nat) (hw : wf t = true) (hs : subAt t i = some s) :
    searchSubtree (flatten t) i = some (i, i + s.size) ∧
    getSlice (flatten t) i (i + s.size) = flatten s := by
  obtain ⟨pre, post, e, hl⟩ := subAt_decomp t i s hs
  rw [e, ← hl]
  refine ⟨searchSubtree_at pre post s (subAt_wf t i s hw hs), ?_⟩
  have := getSlice_at pre post (flatten s)
  rwa [flatten_length] at this

/-- **The method at any Python index.**  For an index `i` that Python's list indexing maps to the node at position
`j` (`j = i` for `0 ≤ i < len`, `j = i + len` for `-len ≤ i < 0` — `searchSubtree_index` shows these are exactly the
indices of nodes), `PrimitiveTree.searchSubtree(i)` returns exactly the span `[j, j + size s)` of the subtree `s`
rooted at that node, and that slice is `flatten s`. -/
theorem searchSubtree_span (t s : Tree) (i : Int) (j : Nat) (hw : wf t = true)
    (hj : (j : Int) = pyIndex t.size i) (hs : subAt t j = some s) :
    searchSubtreePy (flatten t) i = some ((j : Int), (j : Int) + (s.size : Int)) ∧
    getSlice (flatten t) j (j + s.size) = flatten s := by
  obtain ⟨h1, h2⟩ := searchSubtree_span_nat t s j hw hs
  refine ⟨?_, h2⟩
  rw [searchSubtreePy_of_nat (flatten t) i j (by rw [flatten_length]; exact hj), h1]
  simp

/-- the last node through the index `-1`: a leaf, span `[len-1, len)` -/
example : searchSubtreePy [pAdd, pOne, pOne] (-1) = some (2, 3) ∧ searchSubtreePy [pAdd, pOne, pOne] (-3) = some (0, 3) :=
  ⟨by decide, by decide⟩

/-- every index `-len ≤ i < len` is the index of a node, which is the root of a subtree (so `searchSubtree_span`
applies at every index Python accepts for the list) -/
theorem searchSubtree_index (t : Tree) (i : Int) (hlo : -(t.size : Int) ≤ i) (hhi : i < (t.size : Int)) :
    ∃ (j : Nat) (s : Tree), (j : Int) = pyIndex t.size i ∧ subAt t j = some s := by
  obtain ⟨j, hj, hlt⟩ := pyIndex_range t.size i hlo hhi
  obtain ⟨s, hs⟩ := subAt_exists t j hlt
  exact ⟨j, s, hj, hs⟩

/-- every index of the list is the root of a subtree (so `searchSubtree_span` applies everywhere) -/
theorem searchSubtree_total (t : Tree) (i : Nat) (hi : i < (flatten t).length) : ∃ s, subAt t i = some s :=
  subAt_exists t i (by rwa [flatten_length] at hi)

example : ∃ t s, wf t = true ∧ subAt t 1 = some s ∧ s.size = 2 :=
  ⟨.node ⟨"f", 0, [0, 0], .prim, ""⟩ [.node ⟨"g", 0, [0], .prim, ""⟩ [.node ⟨"x", 0, [], .term, "x"⟩ []],
      .node ⟨"y", 0, [], .term, "y"⟩ []], _, by decide, rfl, by decide⟩

/-- the depth-stack algorithm of `PrimitiveTree.height` computes the height of the tree … -/
theorem height_eq (t : Tree) (hw : wf t = true) : heightL (flatten t) = some t.height :=
  heightL_flatten hw

example : wf (.node ⟨"g", 0, [0], .prim, ""⟩ [.node ⟨"x", 0, [], .term, "x"⟩ []]) = true := by decide

/-- … and `Tree.height` is the depth of the deepest node: no leaf is deeper, one leaf is that deep
(every node lies on a path to a leaf). -/
theorem height_deepest (t : Tree) :
    (∀ x ∈ leafDepths 0 t, x ≤ t.height) ∧ ∃ x ∈ leafDepths 0 t, x = t.height := by
  refine ⟨fun x hx => by simpa using leafDepths_le t 0 x hx, ?_⟩
  obtain ⟨x, hx, e⟩ := exists_deepest t 0
  exact ⟨x, hx, by simpa using e⟩

/-! ## Splicing -/

/-- Replacing the span of the subtree rooted at `i` by `flatten u`, where `u` is well typed for the
return type of the node it replaces, passes the `__setitem__` guard and yields the prefix form of a
tree that is again well typed for the original slot. -/
theorem splice_welltyped {sub : Nat → Nat → Bool}
    (refl : ∀ a, sub a a = true) (trans : ∀ a b c, sub a b = true → sub b c = true → sub a c = true)
    (σ : Nat) (t s u : Tree) (i : Nat)
    (ht : wt sub σ t = true) (hs : subAt t i = some s) (hu : wt sub s.root.ret u = true) :
    ∃ t', setSlice (flatten t) i (i + s.size) (flatten u) = some (flatten t') ∧ wt sub σ t' = true ∧
      t'.size + s.size = t.size + u.size := by
  have hty : typed sub [σ] (flatten t) = true := typed_iff_tree.2 ⟨t, ht, rfl⟩
  obtain ⟨pre, post, e, hl⟩ := subAt_decomp t i s hs
  have hp : (flatten t)[i]? = some s.root := by
    rw [e, List.append_assoc, List.getElem?_append_right (by omega),
      List.getElem?_append_left (by rw [flatten_length]; have := size_pos s; omega)]
    simp [hl, flatten_root]
  obtain ⟨e', hsr, _, _, _, _, hset⟩ := splice trans refl hty hp
  have hspan := (searchSubtree_span_nat t s i (wf_of_wt ht) hs).1
  rw [hspan] at hsr; simp at hsr; subst hsr
  obtain ⟨h1, h2⟩ := hset (flatten u) (typed_iff_tree.2 ⟨u, hu, rfl⟩)
  obtain ⟨t', hw', hf'⟩ := typed_iff_tree.1 h2
  refine ⟨t', by rw [h1, hf'], hw', ?_⟩
  have hlen := congrArg List.length hf'
  have hlt := congrArg List.length e
  simp [flatten_length] at hlen hlt
  omega

example : wt subTrue 0 (.node ⟨"x", 0, [], .term, "x"⟩ []) = true := by decide

/-- untyped version: splicing the prefix form of any well-formed tree gives a complete expression -/
theorem splice_complete (t s u : Tree) (i : Nat)
    (ht : wf t = true) (hs : subAt t i = some s) (hu : wf u = true) :
    ∃ t', setSlice (flatten t) i (i + s.size) (flatten u) = some (flatten t') ∧ wf t' = true := by
  obtain ⟨t', h1, h2, _⟩ := splice_welltyped (sub := subTrue) (fun _ => rfl) (fun _ _ _ _ _ => rfl) 0 t s u i
    (by rwa [wt_true_eq_wf]) hs (by rwa [wt_true_eq_wf])
  exact ⟨t', h1, by rwa [wt_true_eq_wf] at h2⟩

/-! ## Generators -/

/-- `genFull`: whenever it returns, the result is the prefix form of a tree that is well typed for
the requested type, all of whose leaves are at one depth `h` with `min ≤ h ≤ max`, and `h` is its
height. -/
theorem gen_full (ps : Pset) (ok : PsetOK ps) (mn mx τ : Nat) (tp tp' : Tape) (out : List Prim)
    (hg : genFull ps mn mx τ tp = .ok (out, tp')) :
    ∃ t, flatten t = out ∧ wt ps.sub τ t = true ∧
      ∃ h, mn ≤ h ∧ h ≤ mx ∧ (∀ x ∈ leafDepths 0 t, x = h) ∧ t.height = h := by
  unfold genFull generate at hg
  split at hg
  · simp at hg
  split at hg
  · simp at hg
  · rename_i a b x tp1
    split at hg
    · rename_i hc
      obtain ⟨rfl, rfl, h1, h2⟩ := hc
      obtain ⟨ts, hf, hok⟩ := genLoop_inv ok (fun d t => ∀ y ∈ leafDepths d t, y = x.toNat)
        (by intro d tp tp' term hc y hy
            simp [condition] at hc
            simp [leafDepths] at hy; omega)
        (by intro d tp tp' p c cs _ hcs y hy
            simp only [leafDepths] at hy
            have : ∀ (l : List Tree), (∀ z ∈ l, ∀ y ∈ leafDepths (d + 1) z, y = x.toNat) →
                ∀ y ∈ leafDepthsF (d + 1) l, y = x.toNat := by
              intro l
              induction l with
              | nil => simp [leafDepthsF]
              | cons z zs ih =>
                intro hl y hy
                simp only [leafDepthsF, List.mem_append] at hy
                rcases hy with hy | hy
                · exact hl z (by simp) y hy
                · exact ih (fun w hw => hl w (by simp [hw])) y hy
            exact this (c :: cs) hcs y hy)
        _ _ _ _ _ hg
      cases ts with
      | nil => simp [forestOK] at hok
      | cons t ts =>
        cases ts with
        | cons _ _ => simp [forestOK] at hok
        | nil =>
          simp only [forestOK] at hok
          refine ⟨t, by simpa [flattenF] using hf, hok.1, x.toNat, by omega, by omega, hok.2.1, ?_⟩
          obtain ⟨y, hy, e⟩ := exists_deepest t 0
          have := hok.2.1 y hy
          omega
    · simp at hg
  · simp at hg

example : genFull exPs 1 1 1 [.randint 1 1 1, .choice 3 0, .choice 3 2, .randint 0 9 4, .choice 3 1] =
    .ok ([pAdd, { pEph with text := "4" }, pTrue], []) := by rfl

/-- `genGrow`: whenever it returns, the result is the prefix form of a tree that is well typed for
the requested type, no leaf is shallower than `min`, and the height lies in `[min, max]`. -/
theorem gen_grow (ps : Pset) (ok : PsetOK ps) (mn mx τ : Nat) (tp tp' : Tape) (out : List Prim)
    (hg : genGrow ps mn mx τ tp = .ok (out, tp')) :
    ∃ t, flatten t = out ∧ wt ps.sub τ t = true ∧
      (∀ x ∈ leafDepths 0 t, mn ≤ x) ∧ mn ≤ t.height ∧ t.height ≤ mx := by
  unfold genGrow generate at hg
  split at hg
  · simp at hg
  split at hg
  · simp at hg
  · rename_i a b x tp1
    split at hg
    · rename_i hc
      obtain ⟨rfl, rfl, h1, h2⟩ := hc
      obtain ⟨ts, hf, hok⟩ := genLoop_inv ok
        (fun d t => d ≤ x.toNat → ∀ y ∈ leafDepths d t, mn ≤ y ∧ y ≤ x.toNat)
        (by intro d tp tp' term hc hd y hy
            simp [leafDepths] at hy; subst hy
            refine ⟨?_, hd⟩
            simp only [condition] at hc
            split at hc
            · rename_i he; simp at he; omega
            · split at hc
              · assumption
              · simp at hc)
        (by intro d tp tp' p c cs hc hcs hd y hy
            have hne : d ≠ x.toNat := by
              intro he; simp [condition, he] at hc
            simp only [leafDepths] at hy
            have : ∀ (l : List Tree), (∀ z ∈ l, d + 1 ≤ x.toNat → ∀ y ∈ leafDepths (d + 1) z, mn ≤ y ∧ y ≤ x.toNat) →
                ∀ y ∈ leafDepthsF (d + 1) l, mn ≤ y ∧ y ≤ x.toNat := by
              intro l
              induction l with
              | nil => simp [leafDepthsF]
              | cons z zs ih =>
                intro hl y hy
                simp only [leafDepthsF, List.mem_append] at hy
                rcases hy with hy | hy
                · exact hl z (by simp) (by omega) y hy
                · exact ih (fun w hw => hl w (by simp [hw])) y hy
            exact this (c :: cs) hcs y hy)
        _ _ _ _ _ hg
      cases ts with
      | nil => simp [forestOK] at hok
      | cons t ts =>
        cases ts with
        | cons _ _ => simp [forestOK] at hok
        | nil =>
          simp only [forestOK] at hok
          have hP := hok.2.1 (by omega)
          obtain ⟨y, hy, e⟩ := exists_deepest t 0
          have := hP y hy
          exact ⟨t, by simpa [flattenF] using hf, hok.1, fun z hz => (hP z hz).1, by omega, by omega⟩
    · simp at hg
  · simp at hg

example : genGrow exPs 0 0 1 [.randint 0 0 0, .choice 3 1] = .ok ([pTrue], []) := by rfl

/-- `genHalfAndHalf` returns what `genGrow` or `genFull` returns, so its trees satisfy the grow
guarantees (which the full guarantees imply). -/
theorem gen_half (ps : Pset) (ok : PsetOK ps) (mn mx τ : Nat) (tp tp' : Tape) (out : List Prim)
    (hg : genHalfAndHalf ps mn mx τ tp = .ok (out, tp')) :
    ∃ t, flatten t = out ∧ wt ps.sub τ t = true ∧
      (∀ x ∈ leafDepths 0 t, mn ≤ x) ∧ mn ≤ t.height ∧ t.height ≤ mx := by
  unfold genHalfAndHalf at hg
  split at hg
  · simp at hg
  · rename_i m tp1 _
    cases m with
    | grow => exact gen_grow ps ok mn mx τ tp1 tp' out hg
    | full =>
      obtain ⟨t, hf, hw, h, h1, h2, h3, h4⟩ := gen_full ps ok mn mx τ tp1 tp' out hg
      exact ⟨t, hf, hw, fun x hx => by rw [h3 x hx]; exact h1, by omega, by omega⟩

example : genHalfAndHalf exPs 1 1 2 [.choice 2 1, .randint 1 1 1, .choice 2 1, .choice 1 0, .choice 1 0] =
    .ok ([pAnd, pTrue, pTrue], []) := by rfl

/-- `genRamped` (the deprecated name of `genHalfAndHalf`) gives the same guarantees -/
theorem gen_ramped (ps : Pset) (ok : PsetOK ps) (mn mx τ : Nat) (tp tp' : Tape) (out : List Prim)
    (hg : genRamped ps mn mx τ tp = .ok (out, tp')) :
    ∃ t, flatten t = out ∧ wt ps.sub τ t = true ∧
      (∀ x ∈ leafDepths 0 t, mn ≤ x) ∧ mn ≤ t.height ∧ t.height ≤ mx :=
  gen_half ps ok mn mx τ tp tp' out hg

example : genRamped exPs 1 1 2 [.choice 2 1, .randint 1 1 1, .choice 2 1, .choice 1 0, .choice 1 0] =
    .ok ([pAnd, pTrue, pTrue], []) := by rfl

/-! ## Crossovers -/

section Ops
variable {sub : Nat → Nat → Bool}
  (refl : ∀ a, sub a a = true) (trans : ∀ a b c, sub a b = true → sub b c = true → sub a c = true)
include refl trans

/-- `cxOnePoint` maps two well-formed well-typed trees to two such trees (each for its own root
slot) and conserves the total node count — for every primitive set, loosely or strongly typed,
whatever the root returns (it always matches return types). -/
theorem cx_closed {r1 r2 : Nat} {ind1 ind2 o1 o2 : List Prim} {tp tp' : Tape}
    (h1 : WellFormed sub r1 ind1) (h2 : WellFormed sub r2 ind2)
    (h : cxOnePoint ind1 ind2 tp = .ok (o1, o2, tp')) :
    WellFormed sub r1 o1 ∧ WellFormed sub r2 o2 ∧ o1.length + o2.length = ind1.length + ind2.length := by
  rw [wellFormed_iff_typed] at h1 h2 ⊢
  rw [wellFormed_iff_typed]
  unfold cxOnePoint at h
  split at h
  · simp at h; obtain ⟨rfl, rfl, _⟩ := h; exact ⟨h1, h2, rfl⟩
  · simp only at h
    split at h
    · split at h
      · simp at h
      · rename_i τ tp1 _
        refine swapAt_spec trans refl h1 h2 ?_ h
        intro i1 hi1 i2 hi2
        obtain ⟨_, p1, hp1, hf1⟩ := mem_idxFrom1 hi1
        obtain ⟨_, p2, hp2, hf2⟩ := mem_idxFrom1 hi2
        simp at hf1 hf2
        exact ⟨p1, p2, hp1, hp2, by rw [hf1, hf2]; exact refl _, by rw [hf1, hf2]; exact refl _⟩
    · simp at h; obtain ⟨rfl, rfl, _⟩ := h; exact ⟨h1, h2, rfl⟩

omit refl trans in
example : WellFormed exSub 1 [pAdd, pOne, pOne] ∧ WellFormed exSub 1 [pAdd, pTrue, pAdd, pOne, pOne] ∧
    cxOnePoint [pAdd, pOne, pOne] [pAdd, pTrue, pAdd, pOne, pOne] [.choice 1 0, .choice 2 0, .choice 3 0] =
      .ok ([pAdd, pAdd, pOne, pOne, pOne], [pAdd, pTrue, pOne], []) :=
  ⟨(wellFormed_iff_typed.2 ex_ty3), (wellFormed_iff_typed.2 ex_ty5), by rfl⟩

/-- `cxOnePointLeafBiased`: same guarantees, for every `termpb` (it always matches return types). -/
theorem cxlb_closed {r1 r2 : Nat} {ind1 ind2 o1 o2 : List Prim} {termpb : Float} {tp tp' : Tape}
    (h1 : WellFormed sub r1 ind1) (h2 : WellFormed sub r2 ind2)
    (h : cxOnePointLeafBiased ind1 ind2 termpb tp = .ok (o1, o2, tp')) :
    WellFormed sub r1 o1 ∧ WellFormed sub r2 o2 ∧ o1.length + o2.length = ind1.length + ind2.length := by
  rw [wellFormed_iff_typed] at h1 h2 ⊢
  rw [wellFormed_iff_typed]
  unfold cxOnePointLeafBiased at h
  split at h
  · simp at h; obtain ⟨rfl, rfl, _⟩ := h; exact ⟨h1, h2, rfl⟩
  · split at h
    · simp at h
    · split at h
      · simp at h
      · simp only at h
        split at h
        · split at h
          · simp at h
          · rename_i τ tp1 _
            refine swapAt_spec trans refl h1 h2 ?_ h
            intro i1 hi1 i2 hi2
            obtain ⟨_, p1, hp1, hf1⟩ := mem_idxFrom1 hi1
            obtain ⟨_, p2, hp2, hf2⟩ := mem_idxFrom1 hi2
            simp at hf1 hf2
            exact ⟨p1, p2, hp1, hp2, by rw [hf1.2, hf2.2]; exact refl _, by rw [hf1.2, hf2.2]; exact refl _⟩
        · simp at h; obtain ⟨rfl, rfl, _⟩ := h; exact ⟨h1, h2, rfl⟩

omit refl trans in
example : ∃ o, cxOnePointLeafBiased [pAdd, pOne, pOne] [pOne] 0.5 [] = .ok o := ⟨_, rfl⟩

omit refl trans in
/-- the swap path: whenever both `random()` draws fall below `termpb` (terminal crossover points), the
leaves `ind1[1]` and `ind2[4]` of the common type are exchanged -/
example (x1 x2 termpb : Float) (h1 : decide (x1 < termpb) = true) (h2 : decide (x2 < termpb) = true) :
    cxOnePointLeafBiased [pAdd, pOne, pEph] [pAdd, pTrue, pAdd, pOne, pEph] termpb
      [.rnd x1, .rnd x2, .choice 1 0, .choice 2 0, .choice 2 1] =
    .ok ([pAdd, pEph, pEph], [pAdd, pTrue, pAdd, pOne, pOne], []) := by
  simp only [cxOnePointLeafBiased, popRnd, h1, h2]
  rfl

/-! ## Mutations -/

/-- `mutUniform` with ANY replacement generator that returns well-formed trees of the requested
type (`gen_full`, `gen_grow`, `gen_half` show the three DEAP generators qualify). -/
theorem mutUniform_closed {r : Nat} {ind out : List Prim} {tp tp' : Tape}
    {expr : Nat → Tape → R (List Prim × Tape)}
    (hexpr : ∀ τ tp o tp', expr τ tp = .ok (o, tp') → WellFormed sub τ o)
    (h1 : WellFormed sub r ind) (h : mutUniform ind expr tp = .ok (out, tp')) :
    WellFormed sub r out := by
  rw [wellFormed_iff_typed] at h1 ⊢
  unfold mutUniform at h
  split at h
  · simp at h
  · rename_i index tp1 _
    split at h
    · rename_i b e node hs hn
      obtain ⟨e', hs', _, _, _, _, hset⟩ := splice trans refl h1 hn
      rw [hs'] at hs; simp at hs; obtain ⟨rfl, rfl⟩ := hs
      split at h
      · simp at h
      · rename_i new tp2 hex
        have hnew := (wellFormed_iff_typed.1 (hexpr _ _ _ _ hex))
        obtain ⟨hr, hty⟩ := hset new hnew
        rw [hr] at h; simp at h; obtain ⟨rfl, _⟩ := h
        simpa [List.append_assoc] using hty
    · simp at h

omit refl trans in
example : (∀ τ tp o tp', genFull exPs 0 0 τ tp = .ok (o, tp') → WellFormed exSub τ o) ∧
    mutUniform [pAdd, pOne, pOne] (genFull exPs 0 0) [.randrange 0 3 2, .randint 0 0 0, .choice 3 1] =
      .ok ([pAdd, pOne, pTrue], []) :=
  ⟨fun τ tp o tp' h => by
      obtain ⟨t, h1, h2, _⟩ := gen_full exPs exPs_ok 0 0 τ tp tp' o h; exact ⟨t, h2, h1⟩, by rfl⟩

/-- `mutNodeReplacement`: well-formedness and typing are kept, and the tree keeps its shape
(same node count). -/
theorem nodeRepl_closed {ps : Pset} (ok : PsetOK ps) (hsub : ps.sub = sub)
    {r : Nat} {ind out : List Prim} {tp tp' : Tape}
    (h1 : WellFormed sub r ind) (h : mutNodeReplacement ind ps tp = .ok (out, tp')) :
    WellFormed sub r out ∧ out.length = ind.length := by
  subst hsub
  rw [wellFormed_iff_typed] at h1 ⊢
  unfold mutNodeReplacement at h
  split at h
  · simp at h; obtain ⟨rfl, _⟩ := h; exact ⟨h1, rfl⟩
  · split at h
    · simp at h
    · rename_i index tp1 _
      split at h
      · simp at h
      · rename_i node hn
        split at h
        · rename_i har
          split at h
          · simp at h
          · rename_i term tp2 hch
            split at h
            · simp at h
            · rename_i term' tp3 hin
              cases hset : setItem ind index term' with
              | none => simp [hset] at h
              | some r' =>
                simp [hset] at h; obtain ⟨rfl, _⟩ := h
                obtain ⟨rfl, _⟩ := setItem_eq hset
                obtain ⟨hs, hargs⟩ := ok.terms_ok _ term (popChoice_mem hch)
                obtain ⟨e1, e2, _, _⟩ := instantiate_spec hin
                refine ⟨typed_set ind _ index node term' h1 hn ?_ ?_, by simp⟩
                · rw [e2, hargs]; exact (List.eq_nil_of_length_eq_zero har).symm
                · intro σ hσ; rw [e1]; exact ok.trans _ _ _ hs hσ
        · simp only at h
          split at h
          · simp at h
          · rename_i p tp2 hch
            cases hset : setItem ind index p with
            | none => simp [hset] at h
            | some r' =>
              simp [hset] at h; obtain ⟨rfl, _⟩ := h
              obtain ⟨rfl, _⟩ := setItem_eq hset
              have hm := popChoice_mem hch
              simp at hm
              obtain ⟨hs, _⟩ := ok.prims_ok _ p hm.1
              refine ⟨typed_set ind _ index node p h1 hn hm.2 ?_, by simp⟩
              intro σ hσ; exact ok.trans _ _ _ hs hσ

omit refl trans in
example : mutNodeReplacement [pAdd, pOne, pOne] exPs [.randrange 1 3 1, .choice 3 1] = .ok ([pAdd, pTrue, pOne], []) := by rfl

omit refl trans in
/-- `mutEphemeral` (both modes): only ephemeral values change; typing and shape are kept. -/
theorem ephemeral_closed {r : Nat} {ind out : List Prim} {one : Bool} {tp tp' : Tape}
    (h1 : WellFormed sub r ind) (h : mutEphemeral ind one tp = .ok (out, tp')) :
    WellFormed sub r out ∧ out.length = ind.length := by
  rw [wellFormed_iff_typed] at h1 ⊢
  unfold mutEphemeral at h
  simp only at h
  split at h
  · split at h
    · split at h
      · simp at h
      · exact reinstAll_spec _ _ _ _ _ h1 h
    · exact reinstAll_spec _ _ _ _ _ h1 h
  · simp at h; obtain ⟨rfl, _⟩ := h; exact ⟨h1, rfl⟩

omit refl trans in
example : mutEphemeral [pAdd, pEph, pOne] true [.choice 1 0, .randint 0 9 3] =
    .ok ([pAdd, { pEph with text := "3" }, pOne], []) := by rfl

/-- `mutInsert`: closed, and never shrinks the tree. -/
theorem insert_closed {ps : Pset} (ok : PsetOK ps) (hsub : ps.sub = sub)
    {r : Nat} {ind out : List Prim} {tp tp' : Tape}
    (h1 : WellFormed sub r ind) (h : mutInsert ind ps tp = .ok (out, tp')) :
    WellFormed sub r out ∧ ind.length ≤ out.length := by
  subst hsub
  rw [wellFormed_iff_typed] at h1 ⊢
  unfold mutInsert at h
  split at h
  · simp at h
  · rename_i index tp1 _
    split at h
    · rename_i node b e hn hs
      obtain ⟨e', hs', hlt, hle, hsl, hsll, hset⟩ := splice ok.trans ok.refl h1 hn
      rw [hs'] at hs; simp at hs; obtain ⟨rfl, rfl⟩ := hs
      simp only at h
      split at h
      · simp at h; obtain ⟨rfl, _⟩ := h; exact ⟨h1, Nat.le_refl _⟩
      · split at h
        · simp at h
        · rename_i newNode tp2 hch
          split at h
          · simp at h
          · rename_i position tp3 hpos
            split at h
            · simp at h
            · rename_i newSub tp4 hins
              have hm := popChoice_mem hch
              simp at hm
              obtain ⟨hsr, _⟩ := ok.prims_ok _ newNode hm.1
              obtain ⟨k, a, hk, ha, hfa⟩ := mem_idxGo (popChoice_mem hpos)
              simp at hfa hk; subst hfa; subst hk
              have hplt : position < newNode.args.length := by
                rcases Nat.lt_or_ge position newNode.args.length with h' | h'
                · exact h'
                · simp [List.getElem?_eq_none h'] at ha
              obtain ⟨ht, hl⟩ := insertArgs_spec ok hsl newNode.args 0 tp3 newSub tp4 hins
                (by intro k hk _; simp at hk; subst hk; exact ha)
              have hv : typed ps.sub [node.ret] (newNode :: newSub) = true := by
                simp only [typed, hsr, Bool.true_and]
                have := ht [] []
                simpa [typed] using this
              obtain ⟨hr, hty⟩ := hset _ hv
              rw [hr] at h; simp at h; obtain ⟨rfl, _⟩ := h
              refine ⟨by simpa [List.append_assoc] using hty, ?_⟩
              have := hl (by omega) (by omega)
              simp; omega
    · simp at h

omit refl trans in
example : mutInsert [pAdd, pOne, pOne] exPs [.randrange 0 3 1, .choice 2 0, .choice 2 1, .choice 3 1] =
    .ok ([pAdd, pAdd, pTrue, pOne, pOne], []) := by rfl

omit refl trans in
/-- `mutShrink`: closed, and never grows the tree. -/
theorem shrink_closed
    (refl : ∀ a, sub a a = true) (trans : ∀ a b c, sub a b = true → sub b c = true → sub a c = true)
    {r : Nat} {ind out : List Prim} {tp tp' : Tape}
    (h1 : WellFormed sub r ind) (h : mutShrink ind tp = .ok (out, tp')) :
    WellFormed sub r out ∧ out.length ≤ ind.length := by
  rw [wellFormed_iff_typed] at h1 ⊢
  unfold mutShrink at h
  split at h
  · simp at h; obtain ⟨rfl, _⟩ := h; exact ⟨h1, Nat.le_refl _⟩
  · split at h
    · simp at h
    · split at h
      · simp at h; obtain ⟨rfl, _⟩ := h; exact ⟨h1, Nat.le_refl _⟩
      · simp only at h
        split at h
        · split at h
          · simp at h
          · rename_i index tp1 hch
            split at h
            · simp at h
            · rename_i prim hp
              split at h
              · simp at h
              · rename_i argIdx tp2 hch2
                obtain ⟨k, a, hk, ha, hfa⟩ := mem_idxGo (popChoice_mem hch2)
                simp at hfa hk; subst hfa; subst hk
                obtain ⟨pre, s, post, σ, rest, rfl, hlen, hroot, hw, hr, hx⟩ := span_info h1 hp
                cases s with
                | node q cs =>
                  simp [Tree.root] at hroot; subst hroot
                  have hw' := hw
                  simp only [wt] at hw'
                  simp only [Bool.and_eq_true] at hw'
                  obtain ⟨c, hc, hwc⟩ := wtF_get _ _ _ _ hw'.2 ha
                  have hwf := wfF_of_wtF hw'.2
                  obtain ⟨rb, hn1, hn2⟩ := nthArgSpan_spec argIdx (pre ++ [q]) cs post c hwf hc
                  have el : pre ++ flatten (.node q cs) ++ post = pre ++ [q] ++ flattenF cs ++ post := by
                    simp [flatten]
                  have hsp := searchSubtree_at pre post (.node q cs) (wf_of_wt hw)
                  rw [el] at h hsp ⊢
                  rw [show (pre ++ [q]).length = index + 1 by simp [hlen]] at hn1
                  rw [hn1, ← hlen, hsp] at h
                  simp only at h
                  rw [hn2] at h
                  have hp' : (pre ++ [q] ++ flattenF cs ++ post)[pre.length]? = some q := by
                    rw [← el, hlen]; exact hp
                  rw [← el] at hp'
                  obtain ⟨e', hs', _, _, _, _, hset⟩ := splice trans refl h1 hp'
                  rw [el] at hs' hset
                  rw [hsp] at hs'; simp at hs'; subst hs'
                  obtain ⟨hres, hty⟩ := hset (flatten c) (typed_iff_tree.2 ⟨c, hwc, rfl⟩)
                  rw [hres] at h
                  simp only [Except.ok.injEq, Prod.mk.injEq] at h
                  obtain ⟨rfl, _⟩ := h
                  refine ⟨hty, ?_⟩
                  have := size_le_sizeF cs argIdx c hc
                  simp [flatten_length, Tree.size, flattenF_length]
                  omega
        · simp at h; obtain ⟨rfl, _⟩ := h; exact ⟨h1, Nat.le_refl _⟩

omit refl trans in
example : mutShrink [pAdd, pAdd, pOne, pTrue, pOne] [.choice 1 0, .choice 2 1] = .ok ([pAdd, pTrue, pOne], []) := by rfl

end Ops

/-! ## `staticLimit` -/

/-- An operator wrapped by `staticLimit` never returns a tree exceeding the limit when its inputs
respected it (for any `key` — `len`, `height` —, any wrapped operator and however many of the trees are passed
positionally: every child is measured, also those whose parent came by keyword). -/
theorem staticLimit_sound (key : List Prim → Option Nat) (maxv : Nat) (npos : Nat)
    (op : List (List Prim) → Tape → R (List (List Prim) × Tape))
    (args outs : List (List Prim)) (tp tp' : Tape)
    (hin : ∀ a ∈ args, ∃ k, key a = some k ∧ k ≤ maxv)
    (h : staticLimit key maxv npos op args tp = .ok (outs, tp')) :
    ∀ o ∈ outs, ∃ k, key o = some k ∧ k ≤ maxv := by
  unfold staticLimit at h
  split at h
  · simp at h
  · rename_i new tp1 _
    intro o ho
    rcases (staticLimitLoop_spec new tp1 outs tp' h).2 o ho with h' | ⟨_, h'⟩
    · exact hin o (List.mem_of_mem_take (List.mem_of_mem_take h'))
    · exact h'

example : (∀ a ∈ [[pAdd, pOne, pOne]], ∃ k, (fun l : List Prim => some l.length) a = some k ∧ k ≤ 3) ∧
    staticLimit (fun l => some l.length) 3 1
      (fun args tp => match args with
        | [x] => (match mutInsert x exPs tp with | .ok (r, tp) => .ok ([r], tp) | .error e => .error e)
        | _ => .error .raised)
      [[pAdd, pOne, pOne]] [.randrange 0 3 1, .choice 2 0, .choice 2 1, .choice 3 1, .choice 1 0] =
      .ok ([[pAdd, pOne, pOne]], []) :=
  ⟨by simp, by rfl⟩

/-- … and every returned tree is either one the operator returned or a copy of an argument, so the
wrapper preserves whatever the operator preserves (well-formedness, typing). -/
theorem staticLimit_closed (Q : List Prim → Prop) (key : List Prim → Option Nat) (maxv : Nat) (npos : Nat)
    (op : List (List Prim) → Tape → R (List (List Prim) × Tape))
    (args outs : List (List Prim)) (tp tp' : Tape)
    (hin : ∀ a ∈ args, Q a)
    (hop : ∀ new tp1, op args tp = .ok (new, tp1) → ∀ n ∈ new, Q n)
    (h : staticLimit key maxv npos op args tp = .ok (outs, tp')) :
    (∀ o ∈ outs, Q o) ∧ ∀ new tp1, op args tp = .ok (new, tp1) → outs.length = new.length := by
  unfold staticLimit at h
  split at h
  · simp at h
  · rename_i new tp1 hop1
    obtain ⟨hl, hm⟩ := staticLimitLoop_spec new tp1 outs tp' h
    refine ⟨?_, ?_⟩
    · intro o ho
      rcases hm o ho with h' | ⟨h', _⟩
      · exact hin o (List.mem_of_mem_take (List.mem_of_mem_take h'))
      · exact hop new tp1 hop1 o h'
    · intro new' tp1' e; rw [hop1] at e; simp at e; rw [← e.1]; exact hl

/-- `staticLimit_closed` instantiated: `mutInsert` under a size limit keeps trees well formed and well typed -/
example (tp tp' : Tape) (outs : List (List Prim))
    (h : staticLimit (fun l => some l.length) 3 1
      (fun args tp => match args with
        | [x] => (match mutInsert x exPs tp with | .ok (r, tp) => .ok ([r], tp) | .error e => .error e)
        | _ => .error .raised) [[pAdd, pOne, pOne]] tp = .ok (outs, tp')) :
    ∀ o ∈ outs, WellFormed exSub 1 o :=
  (staticLimit_closed (WellFormed exSub 1) _ 3 1 _ _ outs tp tp'
    (by intro a ha; simp at ha; subst ha; exact wellFormed_iff_typed.2 ex_ty3)
    (by intro new tp1 hop n hn
        simp only at hop
        split at hop
        · rename_i r tp2 hins
          simp at hop; obtain ⟨rfl, _⟩ := hop
          simp at hn; subst hn
          exact (insert_closed exSub_refl exSub_trans exPs_ok rfl (wellFormed_iff_typed.2 ex_ty3) hins).1
        · simp at hop)
    h).1

/-! ## Totality

A run of the model ends in `.ok result` or in a `Fault`: `raised` (the Python code raises:
IndexError of `random.choice([])`, of an index past the end, ValueError of the `__setitem__` guard /
of an empty `randrange`), `fuel` (a modelled loop hit its iteration bound), `tapeEnd` (the tape is
exhausted) or `mismatch` (the next draw does not answer the call the code makes — an ill-typed tape).
`Benign n tape r` says: `r` is a result, or the tape is ill-typed, or the tape is shorter than `n`;
in particular the code never raises and the loop bound is never hit.  `GpTree.total_of_benign` turns it
into "every well-typed tape of length ≥ n yields a result". -/

/-- `generate` (hence `genFull`, `genGrow`) terminates and raises no IndexError: for a primitive set
in which every requestable type has a terminal and a primitive (`PsetFull`, arities ≤ `A`), for every
`min ≤ max`, it returns on every well-typed tape of length ≥ `3·(1 + A + … + A^max) + 1`
(one `randint`, then at most `random()`, `choice`, and an ephemeral draw per node). -/
theorem gen_total (ps : Pset) (Rq : Nat → Prop) (A : Nat) (full : PsetFull ps Rq A) (mode : GenMode)
    (mn mx τ : Nat) (hmm : mn ≤ mx) (hτ : Rq τ) (tp : Tape) :
    Benign (3 * nodes A mx + 1) tp (generate mode ps mn mx τ tp) := by
  unfold generate
  rw [if_neg (by omega)]
  cases tp with
  | nil => simp [Benign]
  | cons d tp' =>
    cases d with
    | randint a b x =>
      simp only
      split
      · rename_i hc
        obtain ⟨rfl, rfl, h1, h2⟩ := hc
        have hb := genLoop_benign full mode mn x.toNat (tp'.length + 1) [(0, τ)] tp' (by omega)
          (by intro e he; simp at he; subst he; exact ⟨by simp, hτ⟩)
        have hle : nodes A x.toNat ≤ nodes A mx := nodes_mono A (by omega)
        simp only [cost, Nat.sub_zero, Nat.add_zero] at hb
        cases hr : genLoop mode ps mn x.toNat (tp'.length + 1) [(0, τ)] tp' with
        | ok v => simp [Benign]
        | error e =>
          rw [hr] at hb
          cases e <;> simp [Benign] at hb ⊢ <;> omega
      · simp [Benign]
    | _ => simp [Benign]

/-- the bound for `exPs` (A = 2), `max = 1`: 3·(1 + 2) + 1 = 10 draws always suffice -/
example : 3 * nodes 2 1 + 1 = 10 := by decide

/-- a concrete instance: a well-typed tape of 10 draws makes `genFull exPs 1 1` return (the run uses 5) -/
example : ∃ x, genFull exPs 1 1 1 [.randint 1 1 1, .choice 3 0, .choice 3 2, .randint 0 9 4, .choice 3 1,
    .choice 1 0, .choice 1 0, .choice 1 0, .choice 1 0, .choice 1 0] = .ok x :=
  total_of_benign (gen_total exPs _ 2 exPs_full .full 1 1 1 (by omega) (Or.inl rfl) _) (by decide)
    (by rw [show genFull exPs 1 1 1 [.randint 1 1 1, .choice 3 0, .choice 3 2, .randint 0 9 4, .choice 3 1,
          .choice 1 0, .choice 1 0, .choice 1 0, .choice 1 0, .choice 1 0] =
          .ok ([pAdd, { pEph with text := "4" }, pTrue], [.choice 1 0, .choice 1 0, .choice 1 0, .choice 1 0, .choice 1 0]) from rfl]
        simp)

/-- `genHalfAndHalf`: one more draw (the `choice` between grow and full) -/
theorem gen_half_total (ps : Pset) (Rq : Nat → Prop) (A : Nat) (full : PsetFull ps Rq A)
    (mn mx τ : Nat) (hmm : mn ≤ mx) (hτ : Rq τ) (tp : Tape) :
    Benign (3 * nodes A mx + 2) tp (genHalfAndHalf ps mn mx τ tp) := by
  unfold genHalfAndHalf
  cases hch : popChoice [GenMode.grow, GenMode.full] tp with
  | error e => exact (popChoice_err (by simp) hch).benign (by omega)
  | ok v =>
    obtain ⟨m, tp1⟩ := v
    have hl := (popChoice_ok hch).2
    simp only
    have hb := gen_total ps Rq A full m mn mx τ hmm hτ tp1
    cases hr : generate m ps mn mx τ tp1 with
    | ok v => simp [Benign]
    | error e =>
      rw [hr] at hb
      cases e <;> simp [Benign] at hb ⊢ <;> omega

section TotalOps
variable {sub : Nat → Nat → Bool}
  (refl : ∀ a, sub a a = true) (trans : ∀ a b c, sub a b = true → sub b c = true → sub a c = true)
include refl trans

/-- `cxOnePoint` on two well-formed trees never raises: it returns on every well-typed tape of
length ≥ 3 (`choice` of the type, `choice` of each index). -/
theorem cx_total {r1 r2 : Nat} {ind1 ind2 : List Prim} (tp : Tape)
    (h1 : WellFormed sub r1 ind1) (h2 : WellFormed sub r2 ind2) :
    Benign 3 tp (cxOnePoint ind1 ind2 tp) := by
  rw [wellFormed_iff_typed] at h1 h2
  unfold cxOnePoint
  split
  · simp [Benign]
  · simp only
    split
    · rename_i hpos
      cases hp : popPick (commonTypes (fun _ => true) (fun _ => true) ind1 ind2) tp with
      | error e =>
        exact (popPick_err (by intro h; rw [h] at hpos; simp at hpos) hp).benign (by omega)
      | ok v =>
        obtain ⟨τ, tp1⟩ := v
        have hl := popPick_ok hp
        obtain ⟨hn1, hn2⟩ := cands_ne_nil (popPick_ok' hp)
        simp only [Bool.true_and] at hn1 hn2
        simp only
        have hb := swapAt_benign (tp := tp1) trans refl h1 h2 (c1 := idxFrom1 (fun p => p.ret == τ) ind1)
          (c2 := idxFrom1 (fun p => p.ret == τ) ind2)
          (by intro i1 hi1 i2 hi2
              obtain ⟨_, p1, hp1, hf1⟩ := mem_idxFrom1 hi1
              obtain ⟨_, p2, hp2, hf2⟩ := mem_idxFrom1 hi2
              simp at hf1 hf2
              exact ⟨p1, p2, hp1, hp2, by rw [hf1, hf2]; exact refl _, by rw [hf1, hf2]; exact refl _⟩)
          hn1 hn2
        cases hr : swapAt ind1 ind2 (idxFrom1 (fun p => p.ret == τ) ind1) (idxFrom1 (fun p => p.ret == τ) ind2) tp1 with
        | ok v => simp [Benign]
        | error e =>
          rw [hr] at hb
          cases e <;> simp [Benign] at hb ⊢ <;> omega
    · simp [Benign]

/-- `cxOnePointLeafBiased`: never raises; tapes of length ≥ 5 suffice (two `random()`, three `choice`). -/
theorem cxlb_total {r1 r2 : Nat} {ind1 ind2 : List Prim} (termpb : Float) (tp : Tape)
    (h1 : WellFormed sub r1 ind1) (h2 : WellFormed sub r2 ind2) :
    Benign 5 tp (cxOnePointLeafBiased ind1 ind2 termpb tp) := by
  rw [wellFormed_iff_typed] at h1 h2
  unfold cxOnePointLeafBiased
  split
  · simp [Benign]
  · cases hr1 : popRnd tp with
    | error e => exact (popRnd_err hr1).benign (by omega)
    | ok v =>
      obtain ⟨x1, tp1⟩ := v
      have hl1 := popRnd_ok hr1
      simp only
      cases hr2 : popRnd tp1 with
      | error e => exact (popRnd_err hr2).benign_after (k := 1) (by omega) (by omega)
      | ok v =>
        obtain ⟨x2, tp2⟩ := v
        have hl2 := popRnd_ok hr2
        simp only
        split
        · rename_i hpos
          cases hp : popPick (commonTypes (arityOp (decide (x1 < termpb))) (arityOp (decide (x2 < termpb))) ind1 ind2) tp2 with
          | error e =>
            exact (popPick_err (by intro h; rw [h] at hpos; simp at hpos) hp).benign_after (k := 2) (by omega) (by omega)
          | ok v =>
            obtain ⟨τ, tp3⟩ := v
            have hl3 := popPick_ok hp
            obtain ⟨hn1, hn2⟩ := cands_ne_nil (popPick_ok' hp)
            simp only
            have hb := swapAt_benign (tp := tp3) trans refl h1 h2
              (c1 := idxFrom1 (fun p => arityOp (decide (x1 < termpb)) p && p.ret == τ) ind1)
              (c2 := idxFrom1 (fun p => arityOp (decide (x2 < termpb)) p && p.ret == τ) ind2)
              (by intro i1 hi1 i2 hi2
                  obtain ⟨_, p1, hp1, hf1⟩ := mem_idxFrom1 hi1
                  obtain ⟨_, p2, hp2, hf2⟩ := mem_idxFrom1 hi2
                  simp at hf1 hf2
                  exact ⟨p1, p2, hp1, hp2, by rw [hf1.2, hf2.2]; exact refl _, by rw [hf1.2, hf2.2]; exact refl _⟩)
              hn1 hn2
            cases hr : swapAt ind1 ind2 (idxFrom1 (fun p => arityOp (decide (x1 < termpb)) p && p.ret == τ) ind1)
                (idxFrom1 (fun p => arityOp (decide (x2 < termpb)) p && p.ret == τ) ind2) tp3 with
            | ok v => simp [Benign]
            | error e =>
              rw [hr] at hb
              cases e <;> simp [Benign] at hb ⊢ <;> omega
        · simp [Benign]

/-- `mutUniform` with a replacement generator that is total with bound `B` and returns well-formed
trees of the requested type: never raises; tapes of length ≥ `B + 1` suffice. -/
theorem mutUniform_total {r : Nat} {ind : List Prim} (tp : Tape) {B : Nat}
    {expr : Nat → Tape → R (List Prim × Tape)}
    (hexpr : ∀ τ tp o tp', expr τ tp = .ok (o, tp') → WellFormed sub τ o)
    (htot : ∀ p ∈ ind, ∀ tp, Benign B tp (expr p.ret tp))
    (h1 : WellFormed sub r ind) : Benign (B + 1) tp (mutUniform ind expr tp) := by
  rw [wellFormed_iff_typed] at h1
  have hpos := typed_length_pos h1
  unfold mutUniform
  cases hrg : popRange 0 ind.length tp with
  | error e => exact (popRange_err hpos hrg).benign (by omega)
  | ok v =>
    obtain ⟨index, tp1⟩ := v
    obtain ⟨_, hlt, hl1⟩ := popRange_ok hrg
    simp only
    have hn : ind[index]? = some ind[index] := List.getElem?_eq_getElem hlt
    obtain ⟨e', hs', _, _, _, _, hset⟩ := splice trans refl h1 hn
    rw [hs', hn]
    simp only
    have hb := htot ind[index] (List.getElem_mem hlt) tp1
    cases hex : expr ind[index].ret tp1 with
    | error e =>
      rw [hex] at hb
      simp only
      cases e <;> simp [Benign] at hb ⊢ <;> omega
    | ok v =>
      obtain ⟨new, tp2⟩ := v
      simp only
      rw [(hset new (wellFormed_iff_typed.1 (hexpr _ _ _ _ hex))).1]
      simp [Benign]

omit refl trans in
/-- … in particular with DEAP's own generators as replacement generator (`expr = genFull/genGrow(min, max)`),
when the return type of every node of the tree can be requested. -/
theorem mutUniform_gen_total {ps : Pset} (ok : PsetOK ps) {Rq : Nat → Prop} {A : Nat} (full : PsetFull ps Rq A)
    (mode : GenMode) (mn mx : Nat) (hmm : mn ≤ mx) {r : Nat} {ind : List Prim} (tp : Tape)
    (hind : ∀ p ∈ ind, Rq p.ret) (h1 : WellFormed ps.sub r ind) :
    Benign (3 * nodes A mx + 2) tp (mutUniform ind (generate mode ps mn mx) tp) := by
  refine mutUniform_total ok.refl ok.trans tp ?_ (fun p hp tp => gen_total ps Rq A full mode mn mx p.ret hmm (hind p hp) tp) h1
  intro τ tp o tp' h
  cases mode with
  | full => obtain ⟨t, h1, h2, _⟩ := gen_full ps ok mn mx τ tp tp' o h; exact ⟨t, h2, h1⟩
  | grow => obtain ⟨t, h1, h2, _⟩ := gen_grow ps ok mn mx τ tp tp' o h; exact ⟨t, h2, h1⟩

omit refl trans in
/-- `mutNodeReplacement`: never raises when the tree's nodes come from the primitive set (a terminal
node's type has terminals; a primitive node has a same-signature primitive in its type's pool —
itself); tapes of length ≥ 3 suffice. -/
theorem nodeRepl_total {ps : Pset} (ok : PsetOK ps) {ind : List Prim} (tp : Tape)
    (hfrom : ∀ p ∈ ind, (p.arity = 0 → ps.terms p.ret ≠ []) ∧
      (p.arity ≠ 0 → ∃ q ∈ ps.prims p.ret, q.args = p.args)) :
    Benign 3 tp (mutNodeReplacement ind ps tp) := by
  unfold mutNodeReplacement
  split
  · simp [Benign]
  · rename_i hlen
    cases hrg : popRange 1 ind.length tp with
    | error e => exact (popRange_err (by omega) hrg).benign (by omega)
    | ok v =>
      obtain ⟨index, tp1⟩ := v
      obtain ⟨_, hlt, hl1⟩ := popRange_ok hrg
      simp only
      rw [List.getElem?_eq_getElem hlt]
      simp only
      obtain ⟨hterm, hprim⟩ := hfrom ind[index] (List.getElem_mem hlt)
      split
      · rename_i har
        cases hch : popChoice (ps.terms ind[index].ret) tp1 with
        | error e => exact (popChoice_err (hterm har) hch).benign_after (k := 1) (by omega) (by omega)
        | ok v =>
          obtain ⟨term, tp2⟩ := v
          obtain ⟨hmem, hl2⟩ := popChoice_ok hch
          simp only
          cases hin : instantiate term tp2 with
          | error e => exact (instantiate_err hin).benign_after (k := 2) (by omega) (by omega)
          | ok v =>
            obtain ⟨term', tp3⟩ := v
            obtain ⟨⟨_, e2, _, _⟩, _, _⟩ := instantiate_ok hin
            simp only
            have : setItem ind index term' = some (ind.set index term') := by
              unfold setItem
              rw [List.getElem?_eq_getElem hlt]
              simp [Prim.arity, e2, (ok.terms_ok _ term hmem).2] at har ⊢
              exact har.symm ▸ rfl
            rw [this]; simp [Benign]
      · rename_i har
        obtain ⟨q, hq, hqa⟩ := hprim har
        cases hch : popChoice ((ps.prims ind[index].ret).filter (fun p => p.args == ind[index].args)) tp1 with
        | error e =>
          exact (popChoice_err (List.ne_nil_of_mem (List.mem_filter.2 ⟨hq, by simp [hqa]⟩)) hch).benign_after
            (k := 1) (by omega) (by omega)
        | ok v =>
          obtain ⟨p, tp2⟩ := v
          have hm := popChoice_mem hch
          simp at hm
          simp only
          have : setItem ind index p = some (ind.set index p) := by
            unfold setItem
            rw [List.getElem?_eq_getElem hlt]
            simp [Prim.arity, hm.2]
          rw [this]; simp [Benign]

omit refl trans in
/-- `mutEphemeral` never raises; tapes of length ≥ `len(individual) + 1` suffice (one `choice`
in mode "one", one generator draw per ephemeral). -/
theorem ephemeral_total {ind : List Prim} (one : Bool) (tp : Tape) :
    Benign (ind.length + 2) tp (mutEphemeral ind one tp) := by
  unfold mutEphemeral
  simp only
  have hidx : ∀ i ∈ idxGo (fun p => decide (p.kind = Kind.eph)) ind 0, i < ind.length := by
    intro i hi; have := idxGo_lt hi; omega
  have hcount : (idxGo (fun p => decide (p.kind = Kind.eph)) ind 0).length ≤ ind.length := by
    have : ∀ (l : List Prim) (i : Nat), (idxGo (fun p => decide (p.kind = Kind.eph)) l i).length ≤ l.length := by
      intro l
      induction l with
      | nil => intro i; simp [idxGo]
      | cons a l ih =>
        intro i; simp only [idxGo]
        split
        · simp; exact ih (i + 1)
        · have := ih (i + 1); simp; omega
    exact this ind 0
  split
  · rename_i hpos
    split
    · cases hch : popChoice (idxGo (fun p => decide (p.kind = Kind.eph)) ind 0) tp with
      | error e => exact (popChoice_err (by intro h; rw [h] at hpos; simp at hpos) hch).benign (by omega)
      | ok v =>
        obtain ⟨i, tp1⟩ := v
        obtain ⟨hmem, hl⟩ := popChoice_ok hch
        simp only
        have hb := reinstAll_benign [i] ind tp1 (by intro j hj; simp at hj; subst hj; exact hidx _ hmem)
        cases hr : reinstAll ind [i] tp1 with
        | ok v => simp [Benign]
        | error e =>
          rw [hr] at hb
          cases e <;> simp [Benign] at hb ⊢ <;> omega
    · exact (reinstAll_benign _ ind tp hidx).mono (by omega)
  · simp [Benign]

/-- `mutInsert`: never raises when every argument type of the set's primitives has a terminal and
arities are ≤ `A`; tapes of length ≥ `2·A + 4` suffice. -/
theorem insert_total {ps : Pset} (ok : PsetOK ps) (hsub : ps.sub = sub) {A : Nat}
    (hterms : ∀ τ p, p ∈ ps.prims τ → p.args.length ≤ A ∧ ∀ a ∈ p.args, ps.terms a ≠ [])
    {r : Nat} {ind : List Prim} (tp : Tape) (h1 : WellFormed sub r ind) :
    Benign (2 * A + 4) tp (mutInsert ind ps tp) := by
  subst hsub
  rw [wellFormed_iff_typed] at h1
  have hpos := typed_length_pos h1
  unfold mutInsert
  cases hrg : popRange 0 ind.length tp with
  | error e => exact (popRange_err hpos hrg).benign (by omega)
  | ok v =>
    obtain ⟨index, tp1⟩ := v
    obtain ⟨_, hlt, hl1⟩ := popRange_ok hrg
    simp only
    have hn : ind[index]? = some ind[index] := List.getElem?_eq_getElem hlt
    obtain ⟨e', hs', _, _, hsl, _, hset⟩ := splice ok.trans ok.refl h1 hn
    rw [hs', hn]
    simp only
    split
    · simp [Benign]
    · rename_i hne
      cases hch : popChoice ((ps.prims ind[index].ret).filter (fun p => p.args.contains ind[index].ret)) tp1 with
      | error e =>
        exact (popChoice_err (by intro h; rw [h] at hne; simp at hne) hch).benign_after (k := 1) (by omega) (by omega)
      | ok v =>
        obtain ⟨newNode, tp2⟩ := v
        obtain ⟨hm, hl2⟩ := popChoice_ok hch
        simp at hm
        obtain ⟨hA, hts⟩ := hterms _ newNode hm.1
        obtain ⟨hsr, _⟩ := ok.prims_ok _ newNode hm.1
        simp only
        cases hps : popChoice (idxGo (fun a => a == ind[index].ret) newNode.args 0) tp2 with
        | error e =>
          exact (popChoice_err (idxGo_ne_nil ⟨ind[index].ret, hm.2, by simp⟩) hps).benign_after (k := 2)
            (by omega) (by omega)
        | ok v =>
          obtain ⟨position, tp3⟩ := v
          obtain ⟨hpm, hl3⟩ := popChoice_ok hps
          simp only
          have hb := insertArgs_benign (ps := ps) (subl := getSlice ind index e') (position := position)
            newNode.args 0 tp3 hts
          cases hins : insertArgs ps (getSlice ind index e') position 0 newNode.args tp3 with
          | error e =>
            rw [hins] at hb
            simp only
            cases e <;> simp [Benign] at hb ⊢ <;> omega
          | ok v =>
            obtain ⟨newSub, tp4⟩ := v
            simp only
            obtain ⟨k, a, hk, ha, hfa⟩ := mem_idxGo hpm
            simp at hfa hk; subst hfa; subst hk
            obtain ⟨ht, _⟩ := insertArgs_spec ok hsl newNode.args 0 tp3 newSub tp4 hins
              (by intro k hk _; simp at hk; subst hk; exact ha)
            have hv : typed ps.sub [ind[index].ret] (newNode :: newSub) = true := by
              simp only [typed, hsr, Bool.true_and]
              have := ht [] []
              simpa [typed] using this
            rw [(hset _ hv).1]
            simp [Benign]

omit refl trans in
/-- `mutShrink` on a well-formed tree never raises; tapes of length ≥ 2 suffice. -/
theorem shrink_total
    (refl : ∀ a, sub a a = true) (trans : ∀ a b c, sub a b = true → sub b c = true → sub a c = true)
    {r : Nat} {ind : List Prim} (tp : Tape) (h1 : WellFormed sub r ind) :
    Benign 2 tp (mutShrink ind tp) := by
  obtain ⟨t, hw, rfl⟩ := h1
  have h1 : typed sub [r] (flatten t) = true := typed_iff_tree.2 ⟨t, hw, rfl⟩
  unfold mutShrink
  split
  · simp [Benign]
  · rw [heightL_flatten (wf_of_wt hw)]
    simp only
    split
    · simp [Benign]
    · split
      · rename_i hne
        cases hch : popChoice (idxFrom1 (fun p => p.kind = .prim && p.args.contains p.ret) (flatten t)) tp with
        | error e =>
          exact (popChoice_err (by intro h; rw [h] at hne; simp at hne) hch).benign (by omega)
        | ok v =>
          obtain ⟨index, tp1⟩ := v
          obtain ⟨hmem, hl1⟩ := popChoice_ok hch
          obtain ⟨_, prim, hp, hf⟩ := mem_idxFrom1 hmem
          simp at hf
          simp only
          rw [hp]
          simp only
          cases hc2 : popChoice (idxGo (fun a => a == prim.ret) prim.args 0) tp1 with
          | error e =>
            exact (popChoice_err (idxGo_ne_nil ⟨prim.ret, hf.2, by simp⟩) hc2).benign_after (k := 1) (by omega) (by omega)
          | ok v =>
            obtain ⟨argIdx, tp2⟩ := v
            obtain ⟨k, a, hk, ha, hfa⟩ := mem_idxGo (popChoice_mem hc2)
            simp at hfa hk; subst hfa; subst hk
            simp only
            obtain ⟨rb, re, b, e, out, hn, hs, hset⟩ := shrink_step refl trans h1 hp ha
            rw [hn, hs]
            simp only
            rw [hset]
            simp [Benign]
      · simp [Benign]

end TotalOps

/-! instances of the hypotheses of the totality theorems on the fixture set `exPs` -/

example (tp : Tape) : Benign (3 * nodes 2 1 + 2) tp (genHalfAndHalf exPs 1 1 2 tp) :=
  gen_half_total exPs _ 2 exPs_full 1 1 2 (by omega) (Or.inr rfl) tp

example (tp : Tape) : Benign 5 tp (cxOnePointLeafBiased [pAdd, pOne, pOne] [pAdd, pTrue, pAdd, pOne, pOne] 0.5 tp) :=
  cxlb_total exSub_refl exSub_trans 0.5 tp (wellFormed_iff_typed.2 ex_ty3) (wellFormed_iff_typed.2 ex_ty5)

example (tp : Tape) : Benign (3 * nodes 2 2 + 2) tp (mutUniform [pAdd, pOne, pOne] (generate .grow exPs 0 2) tp) :=
  mutUniform_gen_total exPs_ok exPs_full .grow 0 2 (by omega) tp
    (by intro p hp; simp at hp; rcases hp with rfl | rfl <;> decide) (wellFormed_iff_typed.2 ex_ty3)

example (tp : Tape) : Benign 3 tp (mutNodeReplacement [pAdd, pOne, pOne] exPs tp) :=
  nodeRepl_total exPs_ok tp (by
    intro p hp; simp at hp
    rcases hp with rfl | rfl
    · exact ⟨by decide, fun _ => ⟨pAdd, by simp [exPs, pAdd], rfl⟩⟩
    · exact ⟨fun _ => by simp [exPs, pOne], by decide⟩)

example (tp : Tape) : Benign 5 tp (mutEphemeral [pAdd, pEph, pOne] false tp) := ephemeral_total false tp

example (tp : Tape) : Benign (2 * 2 + 4) tp (mutInsert [pAdd, pOne, pOne] exPs tp) :=
  insert_total exSub_refl exSub_trans exPs_ok rfl (A := 2)
    (by intro τ p hp
        simp only [exPs] at hp
        split at hp
        · simp at hp; rcases hp with rfl | rfl | rfl <;> simp [pAdd, pLt, pAnd, exPs]
        · split at hp
          · simp at hp; rcases hp with rfl | rfl <;> simp [pLt, pAnd, exPs]
          · simp at hp)
    tp (wellFormed_iff_typed.2 ex_ty3)

example (tp : Tape) : Benign 2 tp (mutShrink [pAdd, pAdd, pOne, pTrue, pOne] tp) :=
  shrink_total exSub_refl exSub_trans tp (r := 1) (wellFormed_iff_typed.2 (by decide))

example : Benign 3 [.choice 1 0, .choice 2 0, .choice 3 0]
    (cxOnePoint [pAdd, pOne, pOne] [pAdd, pTrue, pAdd, pOne, pOne] [.choice 1 0, .choice 2 0, .choice 3 0]) :=
  cx_total exSub_refl exSub_trans _ (wellFormed_iff_typed.2 ex_ty3) (wellFormed_iff_typed.2 ex_ty5)

/-! ## `staticLimit`: totality -/

/-- **The wrapper returns whenever the wrapped operator does.**  If the operator returned `new` (leaving the tape
`tp1`), every returned tree can be measured by `key` (`len` always, `height` on a complete expression) and — when
there is a child at all — at least one tree was passed positionally (the pool of kept parents is not empty), then the
wrapper never raises: it returns on every well-typed rest tape holding one `choice` per child; and whenever it returns
it returns exactly as many trees as the operator and has drawn at most one `choice` per child. -/
theorem staticLimit_total (key : List Prim → Option Nat) (maxv npos : Nat)
    (op : List (List Prim) → Tape → R (List (List Prim) × Tape))
    (args new : List (List Prim)) (tp tp1 : Tape)
    (hop : op args tp = .ok (new, tp1))
    (hkey : ∀ n ∈ new, ∃ k, key n = some k)
    (hpool : new ≠ [] → 0 < npos ∧ args ≠ []) :
    Benign new.length tp1 (staticLimit key maxv npos op args tp) ∧
    ∀ outs tp', staticLimit key maxv npos op args tp = .ok (outs, tp') →
      outs.length = new.length ∧ tp'.length ≤ tp1.length ∧ tp1.length ≤ tp'.length + new.length := by
  unfold staticLimit
  rw [hop]
  simp only
  have hkeep : new ≠ [] → (args.take npos).take new.length ≠ [] := by
    intro hn
    obtain ⟨h1, h2⟩ := hpool hn
    cases args with
    | nil => exact absurd rfl h2
    | cons a as =>
      cases new with
      | nil => exact absurd rfl hn
      | cons n ns =>
        cases npos with
        | zero => omega
        | succ k => simp
  obtain ⟨hb, hl⟩ := staticLimitLoop_benign (key := key) (maxv := maxv) new tp1 hkeep hkey
  refine ⟨hb, ?_⟩
  intro outs tp' h
  exact ⟨(staticLimitLoop_spec new tp1 outs tp' h).1, hl outs tp' h⟩

/-- … and a fault of the operator is the wrapper's fault (it adds none of its own before the operator ran) -/
theorem staticLimit_fault (key : List Prim → Option Nat) (maxv npos : Nat)
    (op : List (List Prim) → Tape → R (List (List Prim) × Tape)) (args : List (List Prim)) (tp : Tape) (e : Fault)
    (hop : op args tp = .error e) : staticLimit key maxv npos op args tp = .error e := by
  unfold staticLimit; rw [hop]

/-- instance: `mutInsert` under a size limit 3 on a 3-node tree; the child has 5 nodes, one `choice` is drawn -/
example : ∃ new tp1,
    (fun (args : List (List Prim)) tp => match args with
        | [x] => lift1 (mutInsert x exPs tp)
        | _ => .error .raised) [[pAdd, pOne, pOne]]
      [.randrange 0 3 1, .choice 2 0, .choice 2 1, .choice 3 1, .choice 1 0] = .ok (new, tp1) ∧
    (∀ n ∈ new, ∃ k, (fun l : List Prim => some l.length) n = some k) ∧ (new ≠ [] → 0 < 1 ∧ [[pAdd, pOne, pOne]] ≠ []) :=
  ⟨[[pAdd, pAdd, pTrue, pOne, pOne]], [.choice 1 0], by rfl, by simp, by simp⟩

/-! ## Histories

`runHistory ps steps pop tape`: a finite sequence of the modelled operators (each bare or wrapped by `staticLimit`)
applied to the tree objects of a population, results written back to the objects they came from, one tape threaded
through.  Positions are object identities: two positions are two distinct objects. -/

/-- **One operator, one step.**  Every modelled operator (both crossovers, the five mutations, `mutUniform` with any of
the three DEAP generators as replacement generator) maps well-formed well-typed trees for the slot `σ` to as many such
trees. -/
theorem op_closed {ps : Pset} (ok : PsetOK ps) (σ : Nat) (op : Op) (args outs : List (List Prim)) (tp tp' : Tape)
    (hargs : ∀ a ∈ args, WellFormed ps.sub σ a)
    (h : applyOp ps op args tp = .ok (outs, tp')) :
    outs.length = args.length ∧ ∀ o ∈ outs, WellFormed ps.sub σ o := by
  unfold applyOp at h
  split at h
  · rename_i i j x y
    obtain ⟨o1, o2, hr, rfl⟩ := lift2_ok h
    obtain ⟨h1, h2, _⟩ := cx_closed ok.refl ok.trans (hargs x (by simp)) (hargs y (by simp)) hr
    exact ⟨rfl, by intro o ho; simp at ho; rcases ho with rfl | rfl <;> assumption⟩
  · rename_i i j pb x y
    obtain ⟨o1, o2, hr, rfl⟩ := lift2_ok h
    obtain ⟨h1, h2, _⟩ := cxlb_closed ok.refl ok.trans (hargs x (by simp)) (hargs y (by simp)) hr
    exact ⟨rfl, by intro o ho; simp at ho; rcases ho with rfl | rfl <;> assumption⟩
  · rename_i i m mn mx x
    obtain ⟨o, hr, rfl⟩ := lift1_ok h
    have := mutUniform_closed ok.refl ok.trans (expr := fun τ tp => runGen m ps mn mx τ tp)
      (by intro τ tp o tp' hg
          unfold runGen at hg
          split at hg
          · obtain ⟨t, h1, h2, _⟩ := gen_full ps ok mn mx τ tp tp' o hg; exact ⟨t, h2, h1⟩
          · obtain ⟨t, h1, h2, _⟩ := gen_grow ps ok mn mx τ tp tp' o hg; exact ⟨t, h2, h1⟩
          · obtain ⟨t, h1, h2, _⟩ := gen_half ps ok mn mx τ tp tp' o hg; exact ⟨t, h2, h1⟩)
      (hargs x (by simp)) hr
    exact ⟨rfl, by intro o' ho; simp at ho; subst ho; exact this⟩
  · rename_i i x
    obtain ⟨o, hr, rfl⟩ := lift1_ok h
    have := (nodeRepl_closed ok.refl ok.trans ok rfl (hargs x (by simp)) hr).1
    exact ⟨rfl, by intro o' ho; simp at ho; subst ho; exact this⟩
  · rename_i i one x
    obtain ⟨o, hr, rfl⟩ := lift1_ok h
    have := (ephemeral_closed (hargs x (by simp)) hr).1
    exact ⟨rfl, by intro o' ho; simp at ho; subst ho; exact this⟩
  · rename_i i x
    obtain ⟨o, hr, rfl⟩ := lift1_ok h
    have := (insert_closed ok.refl ok.trans ok rfl (hargs x (by simp)) hr).1
    exact ⟨rfl, by intro o' ho; simp at ho; subst ho; exact this⟩
  · rename_i i x
    obtain ⟨o, hr, rfl⟩ := lift1_ok h
    have := (shrink_closed ok.refl ok.trans (hargs x (by simp)) hr).1
    exact ⟨rfl, by intro o' ho; simp at ho; subst ho; exact this⟩
  · simp at h

example : (∀ a ∈ [[pAdd, pOne, pOne], [pAdd, pTrue, pAdd, pOne, pOne]], WellFormed exPs.sub 1 a) ∧
    applyOp exPs (.cx 0 1) [[pAdd, pOne, pOne], [pAdd, pTrue, pAdd, pOne, pOne]] [.choice 1 0, .choice 2 0, .choice 3 0] =
      .ok ([[pAdd, pAdd, pOne, pOne, pOne], [pAdd, pTrue, pOne]], []) :=
  ⟨by intro a ha; simp at ha; rcases ha with rfl | rfl
      · exact wellFormed_iff_typed.2 ex_ty3
      · exact wellFormed_iff_typed.2 ex_ty5, by rfl⟩

/-- `staticLimit_total` instantiated for the modelled operators and DEAP's two usual keys: around any modelled
operator applied to well-formed well-typed trees, with at least one tree passed positionally, the wrapper with
`key = height` (and likewise `len`, which is always defined) never raises: `height` is defined on everything the
operator returns (`op_closed`, `height_eq`). -/
theorem staticLimit_height_total {ps : Pset} (ok : PsetOK ps) (σ : Nat) (op : Op) (maxv npos : Nat)
    (args new : List (List Prim)) (tp tp1 : Tape)
    (hargs : ∀ a ∈ args, WellFormed ps.sub σ a) (hne : args ≠ []) (hnp : 0 < npos)
    (hop : applyOp ps op args tp = .ok (new, tp1)) :
    Benign new.length tp1 (staticLimit heightL maxv npos (applyOp ps op) args tp) ∧
    Benign new.length tp1 (staticLimit (fun l => some l.length) maxv npos (applyOp ps op) args tp) := by
  have hwf := (op_closed ok σ op args new tp tp1 hargs hop).2
  refine ⟨(staticLimit_total heightL maxv npos _ args new tp tp1 hop ?_ (fun _ => ⟨hnp, hne⟩)).1,
    (staticLimit_total _ maxv npos _ args new tp tp1 hop (fun n _ => ⟨n.length, rfl⟩) (fun _ => ⟨hnp, hne⟩)).1⟩
  intro n hn
  obtain ⟨t, hw, rfl⟩ := hwf n hn
  exact ⟨t.height, height_eq t (wf_of_wt hw)⟩

example : (∀ a ∈ [[pAdd, pOne, pOne]], WellFormed exPs.sub 1 a) ∧ [[pAdd, pOne, pOne]] ≠ [] ∧
    applyOp exPs (.muti 0) [[pAdd, pOne, pOne]] [.randrange 0 3 1, .choice 2 0, .choice 2 1, .choice 3 1, .choice 1 0] =
      .ok ([[pAdd, pAdd, pTrue, pOne, pOne]], [.choice 1 0]) :=
  ⟨by intro a ha; simp at ha; subst ha; exact wellFormed_iff_typed.2 ex_ty3, by simp, by rfl⟩

/-- **Closure along every history.**  Any finite sequence of the modelled operators — each bare or wrapped by
`staticLimit` with any key, limit and number of positional trees — applied to a population of well-formed well-typed
trees (distinct objects, one root slot `σ` as in a population) yields a population of as many well-formed well-typed
trees, whatever the tape: induction over the operator list. -/
theorem ops_closed_history {ps : Pset} (ok : PsetOK ps) (σ : Nat) (steps : List Step)
    (pop pop' : List (List Prim)) (tp tp' : Tape)
    (hpop : ∀ t ∈ pop, WellFormed ps.sub σ t)
    (h : runHistory ps steps pop tp = .ok (pop', tp')) :
    pop'.length = pop.length ∧ ∀ t ∈ pop', WellFormed ps.sub σ t := by
  refine runHistory_inv (WellFormed ps.sub σ) steps pop pop' tp tp' hpop ?_ h
  intro s _ pop tp pop' tp' hpop hs
  refine stepState_inv (WellFormed ps.sub σ) hpop ?_ hs
  intro args outs tp1 hmem hr
  have hargs : ∀ a ∈ args, WellFormed ps.sub σ a := fun a ha => hpop a (hmem a ha)
  split at hr
  · exact (op_closed ok σ s.op args outs tp tp1 hargs hr).2
  · rename_i L _
    exact (staticLimit_closed (WellFormed ps.sub σ) L.key L.maxv L.npos (applyOp ps s.op) args outs tp tp1 hargs
      (fun new tp2 hop => (op_closed ok σ s.op args new tp tp2 hargs hop).2) hr).1

/-- a two-step history on the fixture set: a crossover, then `mutShrink` of the first child under a size limit -/
example : (∀ t ∈ [[pAdd, pOne, pOne], [pAdd, pTrue, pAdd, pOne, pOne]], WellFormed exPs.sub 1 t) ∧
    runHistory exPs [⟨.cx 0 1, none⟩, ⟨.muts 0, some ⟨fun l => some l.length, 5, 1⟩⟩]
      [[pAdd, pOne, pOne], [pAdd, pTrue, pAdd, pOne, pOne]]
      [.choice 1 0, .choice 2 0, .choice 3 0, .choice 1 0, .choice 2 1] =
      .ok ([[pAdd, pOne, pOne], [pAdd, pTrue, pOne]], []) :=
  ⟨by intro a ha; simp at ha; rcases ha with rfl | rfl
      · exact wellFormed_iff_typed.2 ex_ty3
      · exact wellFormed_iff_typed.2 ex_ty5, by rfl⟩

/-- **The static limit is an invariant of the whole history.**  If every operator of the history is wrapped by
`staticLimit(key, maxv)` (any operators, any positions, any number of positional trees) and every tree of the
initial population respects the limit, every tree of every later population does — for ANY primitive set and ANY
trees (no well-formedness needed: the wrapper measures what it returns). -/
theorem ops_limit_history (ps : Pset) (key : List Prim → Option Nat) (maxv : Nat) (steps : List Step)
    (pop pop' : List (List Prim)) (tp tp' : Tape)
    (hall : ∀ s ∈ steps, ∃ np, s.lim = some ⟨key, maxv, np⟩)
    (hpop : ∀ t ∈ pop, ∃ k, key t = some k ∧ k ≤ maxv)
    (h : runHistory ps steps pop tp = .ok (pop', tp')) :
    pop'.length = pop.length ∧ ∀ t ∈ pop', ∃ k, key t = some k ∧ k ≤ maxv := by
  refine runHistory_inv (fun t => ∃ k, key t = some k ∧ k ≤ maxv) steps pop pop' tp tp' hpop ?_ h
  intro s hs pop tp pop' tp' hpop hst
  obtain ⟨np, hl⟩ := hall s hs
  refine stepState_inv (fun t => ∃ k, key t = some k ∧ k ≤ maxv) hpop ?_ hst
  intro args outs tp1 hmem hr
  rw [hl] at hr
  exact staticLimit_sound key maxv np (applyOp ps s.op) args outs tp tp1 (fun a ha => hpop a (hmem a ha)) hr

/-- the hypotheses on the two-step history above with both steps limited to 5 nodes -/
example : (∀ s ∈ [(⟨.cx 0 1, some ⟨fun l => some l.length, 5, 2⟩⟩ : Step), ⟨.muts 0, some ⟨fun l => some l.length, 5, 1⟩⟩],
      ∃ np, s.lim = some ⟨fun l => some l.length, 5, np⟩) ∧
    (∀ t ∈ [[pAdd, pOne, pOne], [pAdd, pTrue, pAdd, pOne, pOne]], ∃ k, (fun l : List Prim => some l.length) t = some k ∧ k ≤ 5) :=
  ⟨by intro s hs; simp at hs; rcases hs with rfl | rfl
      · exact ⟨2, rfl⟩
      · exact ⟨1, rfl⟩,
   by intro t ht; simp at ht; rcases ht with rfl | rfl <;> simp⟩

/-! ## Geometric semantic operators (`mutSemantic`, `cxSemantic`)

Both operators work IN PLACE (`new_ind = individual; new_ind.insert(0, …)`): the returned trees are the parent
objects, like every DEAP variation operator (`algorithms.varAnd` clones before it calls them).  The node OBJECTS of
the parents, of the random trees (twice, `extend(tr)` is called two times per child) and — for `cxSemantic` — of the
first child are shared between the returned lists; nodes are never mutated in place by any operator (`mutEphemeral`
replaces the list element), and `PrimitiveTree.__deepcopy__` shares them as well, so no clause of C02 / C11 is touched
(observation).  At list level sharing is invisible: the model returns values. -/

/-- **`mutSemantic` is closed.**  Over a GSGP signature (`SemOK`: `add`, `mul`, `sub` binary and `lf` unary over the
type `ρ`, which also accepts the `object`-typed constant `ms`), a parent and random trees that are well-formed trees for
a `ρ` slot give a well-formed tree for a `ρ` slot — whatever `ms` is and for every tape. -/
theorem semantic_mut_closed {sub : Nat → Nat → Bool} {mapping : String → Option Prim} {reprF : Float → String} {ρ : Nat}
    {ind out : List Prim} {gen : Tape → R (List Prim × Tape)} {ms : Option Float} {tp tp' : Tape}
    (hok : ∀ pc, semPieces mapping = some pc → SemOK sub pc ρ)
    (hind : WellFormed sub ρ ind)
    (hgen : ∀ tp o tp', gen tp = .ok (o, tp') → WellFormed sub ρ o)
    (h : mutSemantic mapping reprF ind gen ms tp = .ok (out, tp')) :
    WellFormed sub ρ out := by
  obtain ⟨pc, tr1, tp1, tr2, tp2, v, hpc, h1, h2, _, rfl⟩ := mutSemantic_ok h
  obtain ⟨ti, hti, rfl⟩ := hind
  obtain ⟨t1, ht1, rfl⟩ := hgen _ _ _ h1
  obtain ⟨t2, ht2, rfl⟩ := hgen _ _ _ h2
  exact ⟨_, semMutTree_wt (hok pc hpc) _ hti ht1 ht2, (semMutList_flatten _ _ _ _ _).symm⟩

theorem gs_ok : ∀ pc, semPieces gsMapping = some pc → SemOK subTrue pc 0 := by
  intro pc h
  have : pc = ⟨gsLf, gsMul, gsAdd, gsSub⟩ := by
    simp [semPieces, gsMapping] at h; exact h.symm
  subst this
  constructor <;> rfl

example : (∀ pc, semPieces gsMapping = some pc → SemOK subTrue pc 0) ∧ WellFormed subTrue 0 [gsX] ∧
    (∀ tp o tp', gsGen tp = .ok (o, tp') → WellFormed subTrue 0 o) ∧
    (mutSemantic gsMapping (fun _ => "0.5") [gsX] gsGen (some 0.5) []).toOption.map (fun r => r.1.map (·.name)) =
      some ["add", "ARG0", "mul", "0.5", "sub", "lf", "ARG0", "lf", "ARG0"] := by
  refine ⟨gs_ok, ⟨.node gsX [], by decide, rfl⟩, ?_, by decide⟩
  intro tp o tp' h
  simp [gsGen] at h
  obtain ⟨rfl, _⟩ := h
  exact ⟨.node gsX [], by decide, rfl⟩

/-- arities only: with `lf` unary and `add`, `mul`, `sub` binary (whatever the types), complete prefix expressions
give a complete prefix expression -/
theorem semantic_mut_complete {mapping : String → Option Prim} {reprF : Float → String}
    {ind out : List Prim} {gen : Tape → R (List Prim × Tape)} {ms : Option Float} {tp tp' : Tape}
    (hok : ∀ pc, semPieces mapping = some pc → SemArity pc)
    (hind : complete ind = true)
    (hgen : ∀ tp o tp', gen tp = .ok (o, tp') → complete o = true)
    (h : mutSemantic mapping reprF ind gen ms tp = .ok (out, tp')) :
    complete out = true := by
  obtain ⟨pc, tr1, tp1, tr2, tp2, v, hpc, h1, h2, _, rfl⟩ := mutSemantic_ok h
  obtain ⟨ti, hti, rfl⟩ := complete_iff_tree.1 hind
  obtain ⟨t1, ht1, rfl⟩ := complete_iff_tree.1 (hgen _ _ _ h1)
  obtain ⟨t2, ht2, rfl⟩ := complete_iff_tree.1 (hgen _ _ _ h2)
  exact complete_iff_tree.2 ⟨_, semMutTree_wf (hok pc hpc) _ hti ht1 ht2, (semMutList_flatten _ _ _ _ _).symm⟩

example : (∀ pc, semPieces gsMapping = some pc → SemArity pc) ∧ complete [gsX] = true := by
  refine ⟨?_, by decide⟩
  intro pc h
  have : pc = ⟨gsLf, gsMul, gsAdd, gsSub⟩ := by
    simp [semPieces, gsMapping] at h; exact h.symm
  subst this
  constructor <;> rfl

/-- **Size of a semantic mutant.**  The two random trees are the results of two consecutive calls of the generator;
the child has exactly `len(parent) + len(tr1) + len(tr2) + 6` nodes (root `add`, `mul`, the constant, `sub`, two `lf`),
the parent's nodes sit unchanged behind the new root, and the mutation step is the given `ms` or, when none is given,
`0 + (2 - 0) · x` for the next `random()` draw `x` — the tape is otherwise consumed by the generator only. -/
theorem semantic_mut_size {mapping : String → Option Prim} {reprF : Float → String}
    {ind out : List Prim} {gen : Tape → R (List Prim × Tape)} {ms : Option Float} {tp tp' : Tape}
    (h : mutSemantic mapping reprF ind gen ms tp = .ok (out, tp')) :
    ∃ tr1 tp1 tr2 tp2, gen tp = .ok (tr1, tp1) ∧ gen tp1 = .ok (tr2, tp2) ∧
      out.length = ind.length + tr1.length + tr2.length + 6 ∧
      (out.drop 1).take ind.length = ind ∧
      ((∃ v, ms = some v ∧ tp' = tp2) ∨ (ms = none ∧ ∃ x, tp2 = .rnd x :: tp')) := by
  obtain ⟨pc, tr1, tp1, tr2, tp2, v, hpc, h1, h2, hms, rfl⟩ := mutSemantic_ok h
  refine ⟨tr1, tp1, tr2, tp2, h1, h2, semMutList_length _ _ _ _ _, semMutList_parent _ _ _ _ _, ?_⟩
  rcases hms with ⟨hv, ht⟩ | ⟨hn, hu⟩
  · exact Or.inl ⟨v, hv, ht⟩
  · refine Or.inr ⟨hn, ?_⟩
    unfold popUniform popRnd at hu
    split at hu
    · cases hu
    · rename_i x tp3 hx
      split at hx
      · cases hx
      · rename_i y tpy
        injection hx with hx; injection hx with _ e2
        injection hu with hu; injection hu with _ e4
        exact ⟨y, by rw [← e4, ← e2]⟩
      · cases hx

example : ∃ out tp', mutSemantic gsMapping (fun _ => "m") [gsX] gsGen none [.rnd 0.25] = .ok (out, tp') ∧
    out.length = 9 := ⟨_, _, rfl, rfl⟩

/-- **`cxSemantic` is closed** (both children), under the same hypotheses.  The second child is assembled after
the first parent object was changed in place, so its last argument is the first CHILD (see `semantic_cx_size`). -/
theorem semantic_cx_closed {sub : Nat → Nat → Bool} {mapping : String → Option Prim} {reprF : Float → String} {ρ : Nat}
    {ind1 ind2 o1 o2 : List Prim} {gen : Tape → R (List Prim × Tape)} {tp tp' : Tape}
    (hok : ∀ pc, semPieces mapping = some pc → SemOK sub pc ρ)
    (h1 : WellFormed sub ρ ind1) (h2 : WellFormed sub ρ ind2)
    (hgen : ∀ tp o tp', gen tp = .ok (o, tp') → WellFormed sub ρ o)
    (h : cxSemantic mapping reprF ind1 ind2 gen tp = .ok (o1, o2, tp')) :
    WellFormed sub ρ o1 ∧ WellFormed sub ρ o2 := by
  obtain ⟨pc, tr, hpc, hg, e1, e2⟩ := cxSemantic_ok h
  obtain ⟨ta, hta, rfl⟩ := h1
  obtain ⟨tb, htb, rfl⟩ := h2
  obtain ⟨t, ht, rfl⟩ := hgen _ _ _ hg
  have ok := hok pc hpc
  have w1 : wt sub ρ (semCxTree pc (constNode (reprF 1.0)) ta tb t) = true := semCxTree_wt ok _ hta htb ht
  rw [semCxList_flatten] at e1
  subst e1
  rw [semCxList_flatten] at e2
  subst e2
  exact ⟨⟨_, w1, rfl⟩, ⟨_, semCxTree_wt ok _ htb w1 ht, rfl⟩⟩

example : (cxSemantic gsMapping (fun _ => "1.0") [gsX] [gsX] gsGen []).toOption.map
    (fun r => (r.1.map (·.name), r.2.1.length)) =
      some (["add", "mul", "ARG0", "lf", "ARG0", "mul", "sub", "1.0", "lf", "ARG0", "ARG0"], 21) := by decide

/-- arities only, both children -/
theorem semantic_cx_complete {mapping : String → Option Prim} {reprF : Float → String}
    {ind1 ind2 o1 o2 : List Prim} {gen : Tape → R (List Prim × Tape)} {tp tp' : Tape}
    (hok : ∀ pc, semPieces mapping = some pc → SemArity pc)
    (h1 : complete ind1 = true) (h2 : complete ind2 = true)
    (hgen : ∀ tp o tp', gen tp = .ok (o, tp') → complete o = true)
    (h : cxSemantic mapping reprF ind1 ind2 gen tp = .ok (o1, o2, tp')) :
    complete o1 = true ∧ complete o2 = true := by
  obtain ⟨pc, tr, hpc, hg, e1, e2⟩ := cxSemantic_ok h
  obtain ⟨ta, hta, rfl⟩ := complete_iff_tree.1 h1
  obtain ⟨tb, htb, rfl⟩ := complete_iff_tree.1 h2
  obtain ⟨t, ht, rfl⟩ := complete_iff_tree.1 (hgen _ _ _ hg)
  have ok := hok pc hpc
  have w1 : wf (semCxTree pc (constNode (reprF 1.0)) ta tb t) = true := semCxTree_wf ok _ hta htb ht
  rw [semCxList_flatten] at e1
  subst e1
  rw [semCxList_flatten] at e2
  subst e2
  exact ⟨complete_iff_tree.2 ⟨_, w1, rfl⟩, complete_iff_tree.2 ⟨_, semCxTree_wf ok _ htb w1 ht, rfl⟩⟩

example : complete [gsX] = true ∧ ∀ tp o tp', gsGen tp = .ok (o, tp') → complete o = true := by
  refine ⟨by decide, ?_⟩
  intro tp o tp' h
  simp [gsGen] at h
  obtain ⟨rfl, _⟩ := h
  decide

/-- **Sizes of the semantic offspring.**  One random tree `tr` is generated (the only draws taken from the tape).
Child 1 has `len(ind1) + len(ind2) + 2·len(tr) + 7` nodes.  Child 2 contains CHILD 1 (not parent 1: `new_ind1` is
`ind1`, extended in place before `new_ind2.extend(ind1)` runs), so it has `len(ind2) + len(child1) + 2·len(tr) + 7 =
len(ind1) + 2·len(ind2) + 4·len(tr) + 14` nodes; each child starts with `add`, `mul` followed by its own parent. -/
theorem semantic_cx_size {mapping : String → Option Prim} {reprF : Float → String}
    {ind1 ind2 o1 o2 : List Prim} {gen : Tape → R (List Prim × Tape)} {tp tp' : Tape}
    (h : cxSemantic mapping reprF ind1 ind2 gen tp = .ok (o1, o2, tp')) :
    ∃ tr, gen tp = .ok (tr, tp') ∧
      o1.length = ind1.length + ind2.length + 2 * tr.length + 7 ∧
      o2.length = ind1.length + 2 * ind2.length + 4 * tr.length + 14 ∧
      (o1.drop 2).take ind1.length = ind1 ∧ (o2.drop 2).take ind2.length = ind2 ∧
      o2.drop (o2.length - o1.length) = o1 := by
  obtain ⟨pc, tr, hpc, hg, e1, e2⟩ := cxSemantic_ok h
  have l1 : o1.length = ind1.length + ind2.length + 2 * tr.length + 7 := by rw [e1, semCxList_length]
  have l2 : o2.length = ind2.length + o1.length + 2 * tr.length + 7 := by rw [e2, semCxList_length]
  refine ⟨tr, hg, l1, by omega, by rw [e1, semCxList_parent], by rw [e2, semCxList_parent], ?_⟩
  have : o2.length - o1.length = ind2.length + 2 * tr.length + 7 := by omega
  rw [this, e2]
  simp only [semCxList]
  rw [List.drop_append_of_le_length (by simp; omega)]
  simp
  omega

example : ∃ o1 o2 tp', cxSemantic gsMapping (fun _ => "1.0") [gsX] [gsX, gsX] gsGen [] = .ok (o1, o2, tp') :=
  ⟨_, _, _, rfl⟩

/-- **The assertion on the primitive set.**  When one of the names `lf`, `mul`, `add`, `sub` is not a key of
`pset.mapping`, neither operator returns anything (the code raises before it generates a tree or draws a number). -/
theorem semantic_missing_primitive {mapping : String → Option Prim} (reprF : Float → String)
    (ind ind2 : List Prim) (gen : Tape → R (List Prim × Tape)) (ms : Option Float) (tp : Tape)
    (hmiss : mapping "lf" = none ∨ mapping "mul" = none ∨ mapping "add" = none ∨ mapping "sub" = none) :
    mutSemantic mapping reprF ind gen ms tp = .error .raised ∧
    cxSemantic mapping reprF ind ind2 gen tp = .error .raised := by
  have hp : semPieces mapping = none := by
    unfold semPieces
    cases h1 : mapping "lf" <;> cases h2 : mapping "mul" <;> cases h3 : mapping "add" <;>
      cases h4 : mapping "sub" <;> simp_all
  simp [mutSemantic, cxSemantic, hp]

example : (fun k => if k = "add" then some gsAdd else none : String → Option Prim) "lf" = none := by decide

/-! ## The pools -/

/-- `PrimitiveSetTyped._add` (as modelled by `addPrim`): after any sequence of additions, the pool
`primitives[τ]` only holds `Primitive`s whose return type is a subclass of `τ`, and `terminals[τ]`
only terminals / ephemerals whose return type is a subclass of `τ` — the pool part of `PsetOK`. -/
theorem add_pools_ok (sub : Nat → Nat → Bool)
    (trans : ∀ a b c, sub a b = true → sub b c = true → sub a c = true) (nodes : List Prim) (τ : Nat) (x : Prim) :
    (x ∈ dictGet (nodes.foldl (addPrim sub) ⟨[], []⟩).prims τ → sub x.ret τ = true ∧ x.kind = .prim) ∧
    (x ∈ dictGet (nodes.foldl (addPrim sub) ⟨[], []⟩).terms τ → sub x.ret τ = true ∧ x.kind ≠ .prim) := by
  obtain ⟨h1, h2⟩ := foldl_addPrim_inv trans nodes ⟨[], []⟩ (by intro e he; simp at he) (by intro e he; simp at he)
  constructor
  · intro hx
    obtain ⟨e, he, rfl, hxe⟩ := dictGet_mem hx
    exact h1 e he x hxe
  · intro hx
    obtain ⟨e, he, rfl, hxe⟩ := dictGet_mem hx
    exact h2 e he x hxe

example : (dictGet ([pTrue, pAdd, pLt].foldl (addPrim exSub) ⟨[], []⟩).terms 1) = [pTrue] := by decide

/-- the primitive set a sequence of `_add` calls builds: the two dictionaries read through `dictGet`
(a missing key is the empty list of the `defaultdict`) -/
def psetOfAdds (sub : Nat → Nat → Bool) (nodes : List Prim) (ret termsCount primsCount : Nat) : Pset :=
  let ds := nodes.foldl (addPrim sub) ⟨[], []⟩
  ⟨sub, dictGet ds.prims, dictGet ds.terms, ret, termsCount, primsCount⟩

/-- **Bridge `_add` → `PsetOK`.**  Whatever the order of the registrations, the primitive set built by
`PrimitiveSetTyped._add` satisfies the hypothesis `PsetOK` of the generator / operator theorems, provided
`issubclass` is a preorder and every registered `Primitive` has at least one argument and every registered
terminal / ephemeral none.  The last two conditions are exactly what is ASSUMED about the registrations:
`_add` itself accepts a zero-argument `Primitive` (it is modelled: it lands in `primitives[τ]` like any other
primitive and `generate` may then place it as a leaf above the requested depth), which the property's
quantifier ("primitives of arity 1..3") excludes. -/
theorem psetOK_of_adds (sub : Nat → Nat → Bool) (refl : ∀ a, sub a a = true)
    (trans : ∀ a b c, sub a b = true → sub b c = true → sub a c = true) (nodes : List Prim) (ret tc pc : Nat)
    (harity : ∀ p ∈ nodes, (p.kind = .prim → p.args ≠ []) ∧ (p.kind ≠ .prim → p.args = [])) :
    PsetOK (psetOfAdds sub nodes ret tc pc) := by
  obtain ⟨h1, h2⟩ := foldl_addPrim_invQ (Q1 := fun p => p.args ≠ []) (Q2 := fun p => p.args = []) trans nodes ⟨[], []⟩
    harity (by intro e he; simp at he) (by intro e he; simp at he)
  refine ⟨refl, trans, ?_, ?_⟩
  · intro τ p hp
    obtain ⟨e, he, rfl, hxe⟩ := dictGet_mem hp
    exact h1 e he p hxe
  · intro τ p hp
    obtain ⟨e, he, rfl, hxe⟩ := dictGet_mem hp
    exact h2 e he p hxe

example : ∀ p ∈ [pTrue, pAdd, pLt, pOne], (p.kind = .prim → p.args ≠ []) ∧ (p.kind ≠ .prim → p.args = []) := by decide

/-! ## The primitive set as a state machine of declarations

`PrimitiveSetTyped(name, in_types, ret)` / `PrimitiveSet(name, arity)` followed by any history of `addPrimitive`,
`addTerminal`, `addEphemeralConstant`, `addADF`, `renameArguments` (`Core/GpPset.lean`: `runDecls` from `PState.init`).
`declPrims` / `declTerms` are the nodes the history handed to `_add` ("the declared symbols"). -/

/-- **Every lookup returns exactly the declared symbols whose return type is a subclass of the key.**  After any
history of declarations and renamings that succeeds (no assertion fails) and in which nobody READ the pools of a type
the set did not know yet, for every type `τ` the set knows (a key of the dictionary: the return or an argument type of
some declared symbol), `pset.primitives[τ]` holds a node iff it is a declared `Primitive` (or ADF) with
`issubclass(ret, τ)`, and `pset.terminals[τ]` iff it is a declared terminal / argument / ephemeral class with
`issubclass(ret, τ)` — whatever the order in which supertypes, subtypes and symbols were first seen. -/
theorem pset_lookup_exact (sub : Nat → Nat → Bool) (refl : ∀ a, sub a a = true)
    (trans : ∀ a b c, sub a b = true → sub b c = true → sub a c = true)
    (inTypes : List Nat) (pre : String) (ret : Nat) (ds : List Decl) (st : PState) (hn : NoTouch ds)
    (hs : runDecls sub (PState.init sub inTypes pre) ds = some st) (τ : Nat) (x : Prim) :
    (dictHas st.dicts.prims τ = true →
      (x ∈ (st.toPset sub ret).prims τ ↔ (x ∈ st.declPrims ∧ sub x.ret τ = true))) ∧
    (dictHas st.dicts.terms τ = true →
      (x ∈ (st.toPset sub ret).terms τ ↔ (x ∈ st.declTerms ∧ sub x.ret τ = true))) := by
  have hex := runDecls_exact refl trans ds _ st hn (init_exact refl trans inTypes pre) hs
  exact ⟨fun hk => dictGet_exact x hex.1 hk, fun hk => dictGet_exact x hex.2 hk⟩

/-- two declaration histories of the same symbols: the subclass terminal before / after the supertype is known -/
def exDeclsA : List Decl :=
  [.term (some "b1") 10 .other "10" "10" 2, .prim "g" 11 [1] 2, .prim "f" 12 [1, 1] 1, .term none 13 (.int 1) "1" "1" 1,
   .eph "E" 14 2]
def exDeclsB : List Decl := exDeclsA.reverse

theorem exDecls_plain : Plain exDeclsA ∧ Plain exDeclsB := by
  constructor <;> (intro d hd; simp [exDeclsA, exDeclsB] at hd; rcases hd with rfl | rfl | rfl | rfl | rfl <;> rfl)

example : NoTouch exDeclsA := plain_noTouch exDecls_plain.1

example : (runDecls exSub (PState.init exSub [1] "ARG") exDeclsA).map
      (fun st => ((dictGet st.dicts.terms 1).map (·.name), (dictGet st.dicts.prims 2).map (·.name))) =
      some (["ARG0", "b1", "1", "E"], ["g"]) := by decide

example : (runDecls exSub (PState.init exSub [1] "ARG") exDeclsA).map
      (fun st => (st.termsCount, st.primsCount, st.context.map (·.1))) = some (4, 2, ["b1", "g", "f", "1"]) := by decide

example : (runDecls exSub (PState.init exSub [1] "ARG") exDeclsA).map (fun st => st.mapping.map (·.1)) =
    some ["ARG0", "b1", "g", "f", "1", "E"] := by decide

/-- **Which symbols are declared, and the counters.**  For a history of declarations proper (`Plain`: no renaming,
no read access) that succeeds: the declared primitives are the `Primitive` nodes of the declarations in order
(`addPrimitive`, `addADF`), the declared terminals are the argument terminals of the constructor followed by the
terminal / ephemeral nodes of the declarations (an ephemeral class declared again under the same name with the same
function and type is the same node again); `prims_count` / `terms_count` are their numbers (arguments included), the
argument names are untouched, and `terminalRatio` is `terms / (terms + prims)`. -/
theorem pset_declared (sub : Nat → Nat → Bool) (inTypes : List Nat) (pre : String) (ds : List Decl) (st : PState)
    (hp : Plain ds) (hs : runDecls sub (PState.init sub inTypes pre) ds = some st) :
    st.declPrims = (ds.filterMap Decl.node).filter (fun x => decide (x.kind = .prim)) ∧
    (∃ args, args.length = inTypes.length ∧ (∀ a ∈ args, a.kind = .term) ∧
      st.declTerms = args ++ (ds.filterMap Decl.node).filter (fun x => !decide (x.kind = .prim))) ∧
    st.primsCount = ((ds.filterMap Decl.node).filter (fun x => decide (x.kind = .prim))).length ∧
    st.termsCount = inTypes.length + ((ds.filterMap Decl.node).filter (fun x => !decide (x.kind = .prim))).length ∧
    st.terminalRatio = (if st.termsCount + st.primsCount = 0 then none
      else some (Float.ofNat st.termsCount / Float.ofNat (st.termsCount + st.primsCount))) := by
  obtain ⟨m0, a0, b0, c0, d0, e0⟩ := initArgs_decl sub pre inTypes 0 PState.empty (by intro e he; simp [PState.empty] at he)
  have a0' : (PState.init sub inTypes pre).declPrims = [] := a0
  have b0' : (PState.init sub inTypes pre).declTerms.length = 0 + inTypes.length := b0
  have c0' : (PState.init sub inTypes pre).primsCount = 0 := c0
  have d0' : (PState.init sub inTypes pre).termsCount = 0 + inTypes.length := d0
  obtain ⟨_, a, b, c, d, _⟩ := runDecls_plain ds (PState.init sub inTypes pre) st hp m0 hs
  refine ⟨?_, ⟨(PState.init sub inTypes pre).declTerms, ?_, ?_, b⟩, ?_, ?_, rfl⟩
  · rw [a, a0']; simp
  · rw [b0']; simp
  · intro x hx
    rcases e0 x hx with h | h
    · simp [PState.empty] at h
    · exact h
  · rw [c, c0']; simp
  · rw [d, d0']; simp

example : Plain exDeclsA ∧ Plain exDeclsB := exDecls_plain

/-- **Lookups do not depend on the order of the declarations.**  Two histories that declare the same symbols in
different orders (permutations of one another, both accepted): every type known to both sets has the same members in
`primitives[τ]` and in `terminals[τ]`, and the two sets have the same counters, hence the same `terminalRatio`.
(The ORDER of the members inside a pool does follow the history — it decides which element a given `random.choice`
draw picks, not what can be picked; and a symbol declared twice can occur once or twice in a pool depending on whether
the key existed at the time — multiplicity is not claimed.) -/
theorem pset_lookup_order_independent (sub : Nat → Nat → Bool) (refl : ∀ a, sub a a = true)
    (trans : ∀ a b c, sub a b = true → sub b c = true → sub a c = true)
    (inTypes : List Nat) (pre : String) (ret : Nat) (ds1 ds2 : List Decl) (st1 st2 : PState)
    (hperm : ds1.Perm ds2) (hp : Plain ds1)
    (h1 : runDecls sub (PState.init sub inTypes pre) ds1 = some st1)
    (h2 : runDecls sub (PState.init sub inTypes pre) ds2 = some st2) :
    (∀ τ x, dictHas st1.dicts.prims τ = true → dictHas st2.dicts.prims τ = true →
      (x ∈ (st1.toPset sub ret).prims τ ↔ x ∈ (st2.toPset sub ret).prims τ)) ∧
    (∀ τ x, dictHas st1.dicts.terms τ = true → dictHas st2.dicts.terms τ = true →
      (x ∈ (st1.toPset sub ret).terms τ ↔ x ∈ (st2.toPset sub ret).terms τ)) ∧
    st1.termsCount = st2.termsCount ∧ st1.primsCount = st2.primsCount ∧ st1.terminalRatio = st2.terminalRatio := by
  have hp2 : Plain ds2 := fun d hd => hp d (hperm.mem_iff.2 hd)
  obtain ⟨m0, _⟩ := initArgs_decl sub pre inTypes 0 PState.empty (by intro e he; simp [PState.empty] at he)
  obtain ⟨_, a1, b1, c1, d1, _⟩ := runDecls_plain ds1 _ st1 hp m0 h1
  obtain ⟨_, a2, b2, c2, d2, _⟩ := runDecls_plain ds2 _ st2 hp2 m0 h2
  have pn := hperm.filterMap Decl.node
  have pP := pn.filter (fun x => decide (x.kind = .prim))
  have pT := pn.filter (fun x => !decide (x.kind = .prim))
  have eP : ∀ x, x ∈ st1.declPrims ↔ x ∈ st2.declPrims := by
    intro x; rw [a1, a2, List.mem_append, List.mem_append, pP.mem_iff]
  have eT : ∀ x, x ∈ st1.declTerms ↔ x ∈ st2.declTerms := by
    intro x; rw [b1, b2, List.mem_append, List.mem_append, pT.mem_iff]
  have hc : st1.termsCount = st2.termsCount := by rw [d1, d2, pT.length_eq]
  have hq : st1.primsCount = st2.primsCount := by rw [c1, c2, pP.length_eq]
  refine ⟨?_, ?_, hc, hq, by simp [PState.terminalRatio, hc, hq]⟩
  · intro τ x k1 k2
    rw [(pset_lookup_exact sub refl trans inTypes pre ret ds1 st1 (plain_noTouch hp) h1 τ x).1 k1,
      (pset_lookup_exact sub refl trans inTypes pre ret ds2 st2 (plain_noTouch hp2) h2 τ x).1 k2, eP]
  · intro τ x k1 k2
    rw [(pset_lookup_exact sub refl trans inTypes pre ret ds1 st1 (plain_noTouch hp) h1 τ x).2 k1,
      (pset_lookup_exact sub refl trans inTypes pre ret ds2 st2 (plain_noTouch hp2) h2 τ x).2 k2, eT]

example : exDeclsA.Perm exDeclsB ∧
    (runDecls exSub (PState.init exSub [1] "ARG") exDeclsB).map
      (fun st => ((dictGet st.dicts.terms 1).map (·.name), (dictGet st.dicts.prims 2).map (·.name))) =
      some (["ARG0", "E", "1", "b1"], ["g"]) :=
  ⟨(List.reverse_perm _).symm, by decide⟩

/-- **Why the hypothesis `NoTouch` is there (observation on the unchanged code).**  The pools are `defaultdict`s:
READING `pset.terminals[T]` for a type the set has not seen yet stores an empty list under `T`; when `T` is
declared later, `_add` finds the key present and does not collect the already declared subclass symbols.  The same
three steps in another order give another pool. -/
theorem pset_read_before_declare :
    (runDecls exSub (PState.init exSub [] "ARG")
        [.term (some "b1") 10 .other "10" "10" 2, .touchT 1, .prim "f" 12 [1] 1]).map
      (fun st => (dictGet st.dicts.terms 1).map (·.name)) = some [] ∧
    (runDecls exSub (PState.init exSub [] "ARG")
        [.term (some "b1") 10 .other "10" "10" 2, .prim "f" 12 [1] 1, .touchT 1]).map
      (fun st => (dictGet st.dicts.terms 1).map (·.name)) = some ["b1"] := by decide

/-- **`PrimitiveSet`, the untyped wrapper.**  Every symbol declared through `PrimitiveSet.addPrimitive / addTerminal /
addEphemeralConstant` (and the arguments of `PrimitiveSet(name, arity)`) returns `object` and takes `object`s, a
primitive has at least one argument, and `pset.primitives[object]` / `pset.terminals[object]` hold all of them. -/
theorem pset_untyped (sub : Nat → Nat → Bool) (refl : ∀ a, sub a a = true)
    (trans : ∀ a b c, sub a b = true → sub b c = true → sub a c = true)
    (arity : Nat) (pre : String) (ds : List Decl) (st : PState)
    (hu : ∀ d ∈ ds, (∃ n o a, d = .uprim n o a) ∨ (∃ n o v s r, d = .uterm n o v s r) ∨ (∃ n f, d = .ueph n f))
    (hs : runDecls sub (PState.initU sub arity pre) ds = some st) (x : Prim) :
    (x ∈ st.declPrims → x.ret = objT ∧ (∀ a ∈ x.args, a = objT) ∧ x.args ≠ [] ∧
      x ∈ (st.toPset sub objT).prims objT) := by
  have hpl : Plain ds := by
    intro d hd
    rcases hu d hd with ⟨n, o, a, rfl⟩ | ⟨n, o, v, s, r, rfl⟩ | ⟨n, f, rfl⟩
    · rfl
    · cases n <;> rfl
    · rfl
  obtain ⟨hP, _⟩ := pset_declared sub (List.replicate arity objT) pre ds st hpl hs
  intro hx
  have hx' := hx
  rw [hP, List.mem_filter, List.mem_filterMap] at hx'
  obtain ⟨⟨d, hd, hn⟩, hk⟩ := hx'
  have hform : x.ret = objT ∧ (∀ a ∈ x.args, a = objT) ∧ x.args ≠ [] := by
    rcases hu d hd with ⟨n, o, a, rfl⟩ | ⟨n, o, v, s, r, rfl⟩ | ⟨n, f, rfl⟩
    · simp only [Decl.node, Option.some.injEq] at hn
      subst hn
      refine ⟨rfl, fun a ha => by simpa using (List.mem_replicate.1 ha).2, ?_⟩
      -- `arity > 0` is asserted by the wrapper: a zero arity makes the history fail
      intro h0
      have ha0 : a = 0 := by simpa using h0
      subst ha0
      exact absurd hs (uprim_zero_fails sub _ ds n o hd)
    · cases n <;> (simp only [Decl.node, Option.some.injEq] at hn; subst hn; simp at hk)
    · simp only [Decl.node, Option.some.injEq] at hn; subst hn; simp at hk
  refine ⟨hform.1, hform.2.1, hform.2.2, ?_⟩
  have hex := runDecls_exact refl trans ds _ st (plain_noTouch hpl) (init_exact refl trans _ pre) hs
  have hkey : dictHas st.dicts.prims objT = true := by
    have := hex.1.2 x hx
    rwa [hform.1] at this
  exact (dictGet_exact x hex.1 hkey).2 ⟨hx, by rw [hform.1]; exact refl _⟩

example : (runDecls subTrue (PState.initU subTrue 1 "ARG") [.uprim "neg" 1 0]) = none ∧
    (runDecls subTrue (PState.initU subTrue 1 "ARG") [.uprim "neg" 1 1, .uterm none 2 (.int 1) "1" "1", .ueph "E" 3]).map
      (fun st => ((dictGet st.dicts.prims 0).map (·.name), (dictGet st.dicts.terms 0).map (·.name), st.context.map (·.1))) =
      some (["neg"], ["ARG0", "1", "E"], ["neg", "1"]) := by decide

end C11
