/-
C11 — GP trees stay well-formed, well-typed and within limits under all operators.
Property theorems only; model `DeapModel/Core/GpTree.lean`, helper lemmas `DeapModel/Lemmas/C11*.lean`.

Reading guide.  `flatten t` is the prefix-order node list of a tree (what `PrimitiveTree` stores).
`WellFormed sub σ l` says: `l` is the prefix form of a tree that is well typed for a slot of type `σ`
(every argument has a type accepted — `issubclass` = `sub` — by its parent; with the trivial `sub`
this is just "complete prefix expression").  All operator theorems quantify over every tape.
-/
import DeapModel.Lemmas.C11Ops
import DeapModel.Lemmas.C11Add

namespace C11
open GpTree

/-- `l` is the prefix form of a tree that is well typed for a slot of type `σ` -/
def WellFormed (sub : Nat → Nat → Bool) (σ : Nat) (l : List Prim) : Prop :=
  ∃ t, wt sub σ t = true ∧ flatten t = l

/-- the executable typed stack machine decides `WellFormed` -/
theorem wellFormed_iff_typed {sub σ l} : WellFormed sub σ l ↔ typed sub [σ] l = true :=
  typed_iff_tree.symm

/-! ### a concrete strongly typed set used by the `example`s: types 0 = `object`, 1 ⊇ 2 -/
def exSub : Nat → Nat → Bool := fun a b => a == b || b == 0 || (a == 2 && b == 1)
def pAdd : Prim := ⟨"add", 1, [1, 1], .prim, ""⟩
def pLt : Prim := ⟨"lt", 2, [1, 1], .prim, ""⟩
def pAnd : Prim := ⟨"and", 2, [2, 2], .prim, ""⟩
def pOne : Prim := ⟨"1", 1, [], .term, "1"⟩
def pTrue : Prim := ⟨"True", 2, [], .term, "True"⟩
def pEph : Prim := ⟨"E", 1, [], .eph, "7"⟩
def exPs : Pset :=
  ⟨exSub, fun τ => if τ = 1 then [pAdd, pLt, pAnd] else if τ = 2 then [pLt, pAnd] else [],
    fun τ => if τ = 1 then [pOne, pTrue, pEph] else if τ = 2 then [pTrue] else [], 1, 3, 3⟩

theorem exSub_refl : ∀ a, exSub a a = true := by intro a; simp [exSub]
theorem exSub_trans : ∀ a b c, exSub a b = true → exSub b c = true → exSub a c = true := by
  intro a b c; simp [exSub]; omega
theorem exPs_ok : PsetOK exPs where
  refl := exSub_refl
  trans := exSub_trans
  prims_ok := by
    intro τ p hp
    simp only [exPs] at hp ⊢
    split at hp
    · subst τ; simp at hp; rcases hp with rfl | rfl | rfl <;> decide
    · split at hp
      · subst τ; simp at hp; rcases hp with rfl | rfl <;> decide
      · simp at hp
  terms_ok := by
    intro τ p hp
    simp only [exPs] at hp ⊢
    split at hp
    · subst τ; simp at hp; rcases hp with rfl | rfl | rfl <;> decide
    · split at hp
      · subst τ; simp at hp; subst hp; decide
      · simp at hp

theorem ex_wf3 : WellFormed exSub 1 [pAdd, pOne, pOne] := wellFormed_iff_typed.2 (by decide)
theorem ex_wf5 : WellFormed exSub 1 [pAdd, pTrue, pAdd, pOne, pOne] := wellFormed_iff_typed.2 (by decide)

/-! ## Complete prefix expressions -/

/-- A node list is `flatten t` for a unique well-formed tree `t` iff the running arity count
(`closes`: starts at 1, must stay positive, must end at 0) accepts it. -/
theorem complete_iff (l : List Prim) :
    complete l = true ↔ ∃ t, (wf t = true ∧ flatten t = l) ∧ ∀ t', wf t' = true ∧ flatten t' = l → t' = t := by
  rw [complete_iff_tree]
  constructor
  · rintro ⟨t, hw, rfl⟩
    refine ⟨t, ⟨hw, rfl⟩, ?_⟩
    rintro t' ⟨hw', e⟩
    exact (flatten_inj t' t [] [] hw' hw (by simpa using e)).1
  · rintro ⟨t, h, _⟩; exact ⟨t, h⟩

/-- … and the count is literally the prefix sum `1 + Σ (arity − 1)`: positive before every node,
zero at the end. -/
theorem complete_iff_count (l : List Prim) :
    complete l = true ↔
      (∀ k, k < l.length → 0 < 1 + aritySum (l.take k)) ∧ 1 + aritySum l = 0 := by
  simpa [complete] using closes_iff_sums l 1

/-- typed version: accepted by the typed stack machine ⇔ prefix form of a unique well-typed tree -/
theorem typed_iff (sub : Nat → Nat → Bool) (σ : Nat) (l : List Prim) :
    typed sub [σ] l = true ↔ ∃ t, (wt sub σ t = true ∧ flatten t = l) ∧ ∀ t', wt sub σ t' = true ∧ flatten t' = l → t' = t := by
  rw [typed_iff_tree]
  constructor
  · rintro ⟨t, hw, rfl⟩
    refine ⟨t, ⟨hw, rfl⟩, ?_⟩
    rintro t' ⟨hw', e⟩
    exact (flatten_inj t' t [] [] (wf_of_wt hw') (wf_of_wt hw) (by simpa using e)).1
  · rintro ⟨t, h, _⟩; exact ⟨t, h⟩

/-! ## `searchSubtree` and `height` -/

mutual
theorem subAt_decomp : ∀ (t : Tree) (i : Nat) (s : Tree), subAt t i = some s →
    ∃ pre post, flatten t = pre ++ flatten s ++ post ∧ pre.length = i
  | .node p as, i, s, h => by
    simp only [subAt] at h
    split at h
    · rename_i h0
      simp at h; subst h; subst h0; exact ⟨[], [], by simp, rfl⟩
    · rename_i h0
      obtain ⟨pre, post, e, hl⟩ := subAtF_decomp as (i - 1) s h
      exact ⟨p :: pre, post, by simp [flatten, e], by simp [hl]; omega⟩
theorem subAtF_decomp : ∀ (ts : List Tree) (i : Nat) (s : Tree), subAtF ts i = some s →
    ∃ pre post, flattenF ts = pre ++ flatten s ++ post ∧ pre.length = i
  | [], _, _, h => by simp [subAtF] at h
  | t :: ts, i, s, h => by
    simp only [subAtF] at h
    split at h
    · obtain ⟨pre, post, e, hl⟩ := subAt_decomp t i s h
      exact ⟨pre, post ++ flattenF ts, by simp [flattenF, e], hl⟩
    · rename_i hge
      obtain ⟨pre, post, e, hl⟩ := subAtF_decomp ts (i - t.size) s h
      exact ⟨flatten t ++ pre, post, by simp [flattenF, e], by simp [flatten_length, hl]; omega⟩
end

mutual
theorem subAt_wf : ∀ (t : Tree) (i : Nat) (s : Tree), wf t = true → subAt t i = some s → wf s = true
  | .node p as, i, s, hw, h => by
    simp only [subAt] at h
    split at h
    · simp at h; subst h; exact hw
    · simp [wf] at hw; exact subAtF_wf as (i - 1) s hw.2 h
theorem subAtF_wf : ∀ (ts : List Tree) (i : Nat) (s : Tree), wfF ts = true → subAtF ts i = some s → wf s = true
  | [], _, _, _, h => by simp [subAtF] at h
  | t :: ts, i, s, hw, h => by
    simp [wfF] at hw
    simp only [subAtF] at h
    split at h
    · exact subAt_wf t i s hw.1 h
    · exact subAtF_wf ts (i - t.size) s hw.2 h
end

mutual
theorem subAt_exists : ∀ (t : Tree) (i : Nat), i < t.size → ∃ s, subAt t i = some s
  | .node p as, i, h => by
    simp only [subAt]
    split
    · exact ⟨_, rfl⟩
    · exact subAtF_exists as (i - 1) (by simp [Tree.size] at h; omega)
theorem subAtF_exists : ∀ (ts : List Tree) (i : Nat), i < sizeF ts → ∃ s, subAtF ts i = some s
  | [], _, h => by simp [sizeF] at h
  | t :: ts, i, h => by
    simp only [subAtF]
    split
    · rename_i hlt; exact subAt_exists t i hlt
    · exact subAtF_exists ts (i - t.size) (by simp [sizeF] at h; omega)
end

/-- `searchSubtree` on the prefix form of `t` at index `i` returns exactly the span
`[i, i + size s)` of the subtree `s` rooted at the `i`-th node, and that slice is `flatten s`. -/
theorem searchSubtree_span (t s : Tree) (i : Nat) (hw : wf t = true) (hs : subAt t i = some s) :
    searchSubtree (flatten t) i = some (i, i + s.size) ∧
    getSlice (flatten t) i (i + s.size) = flatten s := by
  obtain ⟨pre, post, e, hl⟩ := subAt_decomp t i s hs
  rw [e, ← hl]
  refine ⟨searchSubtree_at pre post s (subAt_wf t i s hw hs), ?_⟩
  have := getSlice_at pre post (flatten s)
  rwa [flatten_length] at this

/-- every index of the list is the root of a subtree (so `searchSubtree_span` applies everywhere) -/
theorem searchSubtree_total (t : Tree) (i : Nat) (hi : i < (flatten t).length) : ∃ s, subAt t i = some s :=
  subAt_exists t i (by rwa [flatten_length] at hi)

example : ∃ t s, wf t = true ∧ subAt t 1 = some s ∧ s.size = 2 :=
  ⟨.node ⟨"f", 0, [0, 0], .prim, ""⟩ [.node ⟨"g", 0, [0], .prim, ""⟩ [.node ⟨"x", 0, [], .term, "x"⟩ []],
      .node ⟨"y", 0, [], .term, "y"⟩ []], _, by decide, rfl, by decide⟩

/-- the depth-stack algorithm of `PrimitiveTree.height` computes the height of the tree … -/
theorem height_eq (t : Tree) (hw : wf t = true) : heightL (flatten t) = some t.height :=
  heightL_flatten hw

example : wf (.node ⟨"g", 0, [0], .prim, ""⟩ [.node ⟨"x", 0, [], .term, "x"⟩ []]) = true := by decide

/-- … and `Tree.height` is the depth of the deepest node: no leaf is deeper, one leaf is that deep
(every node lies on a path to a leaf). -/
theorem height_deepest (t : Tree) :
    (∀ x ∈ leafDepths 0 t, x ≤ t.height) ∧ ∃ x ∈ leafDepths 0 t, x = t.height := by
  refine ⟨fun x hx => by simpa using leafDepths_le t 0 x hx, ?_⟩
  obtain ⟨x, hx, e⟩ := exists_deepest t 0
  exact ⟨x, hx, by simpa using e⟩

/-! ## Splicing -/

/-- Replacing the span of the subtree rooted at `i` by `flatten u`, where `u` is well typed for the
return type of the node it replaces, passes the `__setitem__` guard and yields the prefix form of a
tree that is again well typed for the original slot. -/
theorem splice_welltyped {sub : Nat → Nat → Bool}
    (refl : ∀ a, sub a a = true) (trans : ∀ a b c, sub a b = true → sub b c = true → sub a c = true)
    (σ : Nat) (t s u : Tree) (i : Nat)
    (ht : wt sub σ t = true) (hs : subAt t i = some s) (hu : wt sub s.root.ret u = true) :
    ∃ t', setSlice (flatten t) i (i + s.size) (flatten u) = some (flatten t') ∧ wt sub σ t' = true ∧
      t'.size + s.size = t.size + u.size := by
  have hty : typed sub [σ] (flatten t) = true := typed_iff_tree.2 ⟨t, ht, rfl⟩
  obtain ⟨pre, post, e, hl⟩ := subAt_decomp t i s hs
  have hp : (flatten t)[i]? = some s.root := by
    rw [e, List.append_assoc, List.getElem?_append_right (by omega),
      List.getElem?_append_left (by rw [flatten_length]; have := size_pos s; omega)]
    simp [hl, flatten_root]
  obtain ⟨e', hsr, _, _, _, _, hset⟩ := splice trans refl hty hp
  have hspan := (searchSubtree_span t s i (wf_of_wt ht) hs).1
  rw [hspan] at hsr; simp at hsr; subst hsr
  obtain ⟨h1, h2⟩ := hset (flatten u) (typed_iff_tree.2 ⟨u, hu, rfl⟩)
  obtain ⟨t', hw', hf'⟩ := typed_iff_tree.1 h2
  refine ⟨t', by rw [h1, hf'], hw', ?_⟩
  have hlen := congrArg List.length hf'
  have hlt := congrArg List.length e
  simp [flatten_length] at hlen hlt
  omega

example : wt subTrue 0 (.node ⟨"x", 0, [], .term, "x"⟩ []) = true := by decide

/-- untyped version: splicing the prefix form of any well-formed tree gives a complete expression -/
theorem splice_complete (t s u : Tree) (i : Nat)
    (ht : wf t = true) (hs : subAt t i = some s) (hu : wf u = true) :
    ∃ t', setSlice (flatten t) i (i + s.size) (flatten u) = some (flatten t') ∧ wf t' = true := by
  obtain ⟨t', h1, h2, _⟩ := splice_welltyped (sub := subTrue) (fun _ => rfl) (fun _ _ _ _ _ => rfl) 0 t s u i
    (by rwa [wt_true_eq_wf]) hs (by rwa [wt_true_eq_wf])
  exact ⟨t', h1, by rwa [wt_true_eq_wf] at h2⟩

/-! ## Generators -/

/-- `genFull`: whenever it returns, the result is the prefix form of a tree that is well typed for
the requested type, all of whose leaves are at one depth `h` with `min ≤ h ≤ max`, and `h` is its
height. -/
theorem gen_full (ps : Pset) (ok : PsetOK ps) (mn mx τ : Nat) (tp tp' : Tape) (out : List Prim)
    (hg : genFull ps mn mx τ tp = some (out, tp')) :
    ∃ t, flatten t = out ∧ wt ps.sub τ t = true ∧
      ∃ h, mn ≤ h ∧ h ≤ mx ∧ (∀ x ∈ leafDepths 0 t, x = h) ∧ t.height = h := by
  unfold genFull generate at hg
  split at hg
  · rename_i a b x tp1
    split at hg
    · rename_i hc
      obtain ⟨rfl, rfl, h1, h2⟩ := hc
      obtain ⟨ts, hf, hok⟩ := genLoop_inv ok (fun d t => ∀ y ∈ leafDepths d t, y = x.toNat)
        (by intro d tp tp' term hc y hy
            simp [condition] at hc
            simp [leafDepths] at hy; omega)
        (by intro d tp tp' p c cs _ hcs y hy
            simp only [leafDepths] at hy
            have : ∀ (l : List Tree), (∀ z ∈ l, ∀ y ∈ leafDepths (d + 1) z, y = x.toNat) →
                ∀ y ∈ leafDepthsF (d + 1) l, y = x.toNat := by
              intro l
              induction l with
              | nil => simp [leafDepthsF]
              | cons z zs ih =>
                intro hl y hy
                simp only [leafDepthsF, List.mem_append] at hy
                rcases hy with hy | hy
                · exact hl z (by simp) y hy
                · exact ih (fun w hw => hl w (by simp [hw])) y hy
            exact this (c :: cs) hcs y hy)
        _ _ _ _ _ hg
      cases ts with
      | nil => simp [forestOK] at hok
      | cons t ts =>
        cases ts with
        | cons _ _ => simp [forestOK] at hok
        | nil =>
          simp only [forestOK] at hok
          refine ⟨t, by simpa [flattenF] using hf, hok.1, x.toNat, by omega, by omega, hok.2.1, ?_⟩
          obtain ⟨y, hy, e⟩ := exists_deepest t 0
          have := hok.2.1 y hy
          omega
    · simp at hg
  · simp at hg

example : genFull exPs 1 1 1 [.randint 1 1 1, .choice 3 0, .choice 3 2, .randint 0 9 4, .choice 3 1] =
    some ([pAdd, { pEph with text := "4" }, pTrue], []) := by rfl

/-- `genGrow`: whenever it returns, the result is the prefix form of a tree that is well typed for
the requested type, no leaf is shallower than `min`, and the height lies in `[min, max]`. -/
theorem gen_grow (ps : Pset) (ok : PsetOK ps) (mn mx τ : Nat) (tp tp' : Tape) (out : List Prim)
    (hg : genGrow ps mn mx τ tp = some (out, tp')) :
    ∃ t, flatten t = out ∧ wt ps.sub τ t = true ∧
      (∀ x ∈ leafDepths 0 t, mn ≤ x) ∧ mn ≤ t.height ∧ t.height ≤ mx := by
  unfold genGrow generate at hg
  split at hg
  · rename_i a b x tp1
    split at hg
    · rename_i hc
      obtain ⟨rfl, rfl, h1, h2⟩ := hc
      obtain ⟨ts, hf, hok⟩ := genLoop_inv ok
        (fun d t => d ≤ x.toNat → ∀ y ∈ leafDepths d t, mn ≤ y ∧ y ≤ x.toNat)
        (by intro d tp tp' term hc hd y hy
            simp [leafDepths] at hy; subst hy
            refine ⟨?_, hd⟩
            simp only [condition] at hc
            split at hc
            · rename_i he; simp at he; omega
            · split at hc
              · assumption
              · simp at hc)
        (by intro d tp tp' p c cs hc hcs hd y hy
            have hne : d ≠ x.toNat := by
              intro he; simp [condition, he] at hc
            simp only [leafDepths] at hy
            have : ∀ (l : List Tree), (∀ z ∈ l, d + 1 ≤ x.toNat → ∀ y ∈ leafDepths (d + 1) z, mn ≤ y ∧ y ≤ x.toNat) →
                ∀ y ∈ leafDepthsF (d + 1) l, mn ≤ y ∧ y ≤ x.toNat := by
              intro l
              induction l with
              | nil => simp [leafDepthsF]
              | cons z zs ih =>
                intro hl y hy
                simp only [leafDepthsF, List.mem_append] at hy
                rcases hy with hy | hy
                · exact hl z (by simp) (by omega) y hy
                · exact ih (fun w hw => hl w (by simp [hw])) y hy
            exact this (c :: cs) hcs y hy)
        _ _ _ _ _ hg
      cases ts with
      | nil => simp [forestOK] at hok
      | cons t ts =>
        cases ts with
        | cons _ _ => simp [forestOK] at hok
        | nil =>
          simp only [forestOK] at hok
          have hP := hok.2.1 (by omega)
          obtain ⟨y, hy, e⟩ := exists_deepest t 0
          have := hP y hy
          exact ⟨t, by simpa [flattenF] using hf, hok.1, fun z hz => (hP z hz).1, by omega, by omega⟩
    · simp at hg
  · simp at hg

example : genGrow exPs 0 0 1 [.randint 0 0 0, .choice 3 1] = some ([pTrue], []) := by rfl

/-- `genHalfAndHalf` returns what `genGrow` or `genFull` returns, so its trees satisfy the grow
guarantees (which the full guarantees imply). -/
theorem gen_half (ps : Pset) (ok : PsetOK ps) (mn mx τ : Nat) (tp tp' : Tape) (out : List Prim)
    (hg : genHalfAndHalf ps mn mx τ tp = some (out, tp')) :
    ∃ t, flatten t = out ∧ wt ps.sub τ t = true ∧
      (∀ x ∈ leafDepths 0 t, mn ≤ x) ∧ mn ≤ t.height ∧ t.height ≤ mx := by
  unfold genHalfAndHalf at hg
  split at hg
  · simp at hg
  · rename_i m tp1 _
    cases m with
    | grow => exact gen_grow ps ok mn mx τ tp1 tp' out hg
    | full =>
      obtain ⟨t, hf, hw, h, h1, h2, h3, h4⟩ := gen_full ps ok mn mx τ tp1 tp' out hg
      exact ⟨t, hf, hw, fun x hx => by rw [h3 x hx]; exact h1, by omega, by omega⟩

example : genHalfAndHalf exPs 1 1 2 [.choice 2 1, .randint 1 1 1, .choice 2 1, .choice 1 0, .choice 1 0] =
    some ([pAnd, pTrue, pTrue], []) := by rfl

/-! ## Crossovers -/

section Ops
variable {sub : Nat → Nat → Bool}
  (refl : ∀ a, sub a a = true) (trans : ∀ a b c, sub a b = true → sub b c = true → sub a c = true)
include refl trans

/-- `cxOnePoint` maps two well-formed well-typed trees to two such trees (each for its own root
slot) and conserves the total node count — for every primitive set, loosely or strongly typed,
whatever the root returns (it always matches return types). -/
theorem cx_closed {r1 r2 : Nat} {ind1 ind2 o1 o2 : List Prim} {tp tp' : Tape}
    (h1 : WellFormed sub r1 ind1) (h2 : WellFormed sub r2 ind2)
    (h : cxOnePoint ind1 ind2 tp = some (o1, o2, tp')) :
    WellFormed sub r1 o1 ∧ WellFormed sub r2 o2 ∧ o1.length + o2.length = ind1.length + ind2.length := by
  rw [wellFormed_iff_typed] at h1 h2 ⊢
  rw [wellFormed_iff_typed]
  unfold cxOnePoint at h
  split at h
  · simp at h; obtain ⟨rfl, rfl, _⟩ := h; exact ⟨h1, h2, rfl⟩
  · simp only at h
    split at h
    · split at h
      · simp at h
      · rename_i τ tp1 _
        refine swapAt_spec trans refl h1 h2 ?_ h
        intro i1 hi1 i2 hi2
        obtain ⟨_, p1, hp1, hf1⟩ := mem_idxFrom1 hi1
        obtain ⟨_, p2, hp2, hf2⟩ := mem_idxFrom1 hi2
        simp at hf1 hf2
        exact ⟨p1, p2, hp1, hp2, by rw [hf1, hf2]; exact refl _, by rw [hf1, hf2]; exact refl _⟩
    · simp at h; obtain ⟨rfl, rfl, _⟩ := h; exact ⟨h1, h2, rfl⟩

omit refl trans in
example : WellFormed exSub 1 [pAdd, pOne, pOne] ∧ WellFormed exSub 1 [pAdd, pTrue, pAdd, pOne, pOne] ∧
    cxOnePoint [pAdd, pOne, pOne] [pAdd, pTrue, pAdd, pOne, pOne] [.pick 1 1, .choice 2 0, .choice 3 0] =
      some ([pAdd, pAdd, pOne, pOne, pOne], [pAdd, pTrue, pOne], []) :=
  ⟨ex_wf3, ex_wf5, by rfl⟩

/-- `cxOnePointLeafBiased`: same guarantees, for every `termpb` (it always matches return types). -/
theorem cxlb_closed {r1 r2 : Nat} {ind1 ind2 o1 o2 : List Prim} {termpb : Float} {tp tp' : Tape}
    (h1 : WellFormed sub r1 ind1) (h2 : WellFormed sub r2 ind2)
    (h : cxOnePointLeafBiased ind1 ind2 termpb tp = some (o1, o2, tp')) :
    WellFormed sub r1 o1 ∧ WellFormed sub r2 o2 ∧ o1.length + o2.length = ind1.length + ind2.length := by
  rw [wellFormed_iff_typed] at h1 h2 ⊢
  rw [wellFormed_iff_typed]
  unfold cxOnePointLeafBiased at h
  split at h
  · simp at h; obtain ⟨rfl, rfl, _⟩ := h; exact ⟨h1, h2, rfl⟩
  · split at h
    · simp at h
    · split at h
      · simp at h
      · simp only at h
        split at h
        · split at h
          · simp at h
          · rename_i τ tp1 _
            refine swapAt_spec trans refl h1 h2 ?_ h
            intro i1 hi1 i2 hi2
            obtain ⟨_, p1, hp1, hf1⟩ := mem_idxFrom1 hi1
            obtain ⟨_, p2, hp2, hf2⟩ := mem_idxFrom1 hi2
            simp at hf1 hf2
            exact ⟨p1, p2, hp1, hp2, by rw [hf1.2, hf2.2]; exact refl _, by rw [hf1.2, hf2.2]; exact refl _⟩
        · simp at h; obtain ⟨rfl, rfl, _⟩ := h; exact ⟨h1, h2, rfl⟩

omit refl trans in
example : ∃ o, cxOnePointLeafBiased [pAdd, pOne, pOne] [pOne] 0.5 [] = some o := ⟨_, rfl⟩

/-! ## Mutations -/

/-- `mutUniform` with ANY replacement generator that returns well-formed trees of the requested
type (`gen_full`, `gen_grow`, `gen_half` show the three DEAP generators qualify). -/
theorem mutUniform_closed {r : Nat} {ind out : List Prim} {tp tp' : Tape}
    {expr : Nat → Tape → Option (List Prim × Tape)}
    (hexpr : ∀ τ tp o tp', expr τ tp = some (o, tp') → WellFormed sub τ o)
    (h1 : WellFormed sub r ind) (h : mutUniform ind expr tp = some (out, tp')) :
    WellFormed sub r out := by
  rw [wellFormed_iff_typed] at h1 ⊢
  unfold mutUniform at h
  split at h
  · simp at h
  · rename_i index tp1 _
    split at h
    · rename_i b e node hs hn
      obtain ⟨e', hs', _, _, _, _, hset⟩ := splice trans refl h1 hn
      rw [hs'] at hs; simp at hs; obtain ⟨rfl, rfl⟩ := hs
      split at h
      · simp at h
      · rename_i new tp2 hex
        have hnew := (wellFormed_iff_typed.1 (hexpr _ _ _ _ hex))
        obtain ⟨hr, hty⟩ := hset new hnew
        rw [hr] at h; simp at h; obtain ⟨rfl, _⟩ := h
        simpa [List.append_assoc] using hty
    · simp at h

omit refl trans in
example : (∀ τ tp o tp', genFull exPs 0 0 τ tp = some (o, tp') → WellFormed exSub τ o) ∧
    mutUniform [pAdd, pOne, pOne] (genFull exPs 0 0) [.randrange 0 3 2, .randint 0 0 0, .choice 3 1] =
      some ([pAdd, pOne, pTrue], []) :=
  ⟨fun τ tp o tp' h => by
      obtain ⟨t, h1, h2, _⟩ := gen_full exPs exPs_ok 0 0 τ tp tp' o h; exact ⟨t, h2, h1⟩, by rfl⟩

/-- `mutNodeReplacement`: well-formedness and typing are kept, and the tree keeps its shape
(same node count). -/
theorem nodeRepl_closed {ps : Pset} (ok : PsetOK ps) (hsub : ps.sub = sub)
    {r : Nat} {ind out : List Prim} {tp tp' : Tape}
    (h1 : WellFormed sub r ind) (h : mutNodeReplacement ind ps tp = some (out, tp')) :
    WellFormed sub r out ∧ out.length = ind.length := by
  subst hsub
  rw [wellFormed_iff_typed] at h1 ⊢
  unfold mutNodeReplacement at h
  split at h
  · simp at h; obtain ⟨rfl, _⟩ := h; exact ⟨h1, rfl⟩
  · split at h
    · simp at h
    · rename_i index tp1 _
      split at h
      · simp at h
      · rename_i node hn
        split at h
        · rename_i har
          split at h
          · simp at h
          · rename_i term tp2 hch
            split at h
            · simp at h
            · rename_i term' tp3 hin
              cases hset : setItem ind index term' with
              | none => simp [hset] at h
              | some r' =>
                simp [hset] at h; obtain ⟨rfl, _⟩ := h
                obtain ⟨rfl, _⟩ := setItem_eq hset
                obtain ⟨hs, hargs⟩ := ok.terms_ok _ term (popChoice_mem hch)
                obtain ⟨e1, e2, _, _⟩ := instantiate_spec hin
                refine ⟨typed_set ind _ index node term' h1 hn ?_ ?_, by simp⟩
                · rw [e2, hargs]; exact (List.eq_nil_of_length_eq_zero har).symm
                · intro σ hσ; rw [e1]; exact ok.trans _ _ _ hs hσ
        · simp only at h
          split at h
          · simp at h
          · rename_i p tp2 hch
            cases hset : setItem ind index p with
            | none => simp [hset] at h
            | some r' =>
              simp [hset] at h; obtain ⟨rfl, _⟩ := h
              obtain ⟨rfl, _⟩ := setItem_eq hset
              have hm := popChoice_mem hch
              simp at hm
              obtain ⟨hs, _⟩ := ok.prims_ok _ p hm.1
              refine ⟨typed_set ind _ index node p h1 hn hm.2 ?_, by simp⟩
              intro σ hσ; exact ok.trans _ _ _ hs hσ

omit refl trans in
example : mutNodeReplacement [pAdd, pOne, pOne] exPs [.randrange 1 3 1, .choice 3 1] = some ([pAdd, pTrue, pOne], []) := by rfl

omit refl trans in
/-- `mutEphemeral` (both modes): only ephemeral values change; typing and shape are kept. -/
theorem ephemeral_closed {r : Nat} {ind out : List Prim} {one : Bool} {tp tp' : Tape}
    (h1 : WellFormed sub r ind) (h : mutEphemeral ind one tp = some (out, tp')) :
    WellFormed sub r out ∧ out.length = ind.length := by
  rw [wellFormed_iff_typed] at h1 ⊢
  unfold mutEphemeral at h
  simp only at h
  split at h
  · split at h
    · split at h
      · simp at h
      · exact reinstAll_spec _ _ _ _ _ h1 h
    · exact reinstAll_spec _ _ _ _ _ h1 h
  · simp at h; obtain ⟨rfl, _⟩ := h; exact ⟨h1, rfl⟩

omit refl trans in
example : mutEphemeral [pAdd, pEph, pOne] true [.choice 1 0, .randint 0 9 3] =
    some ([pAdd, { pEph with text := "3" }, pOne], []) := by rfl

/-- `mutInsert`: closed, and never shrinks the tree. -/
theorem insert_closed {ps : Pset} (ok : PsetOK ps) (hsub : ps.sub = sub)
    {r : Nat} {ind out : List Prim} {tp tp' : Tape}
    (h1 : WellFormed sub r ind) (h : mutInsert ind ps tp = some (out, tp')) :
    WellFormed sub r out ∧ ind.length ≤ out.length := by
  subst hsub
  rw [wellFormed_iff_typed] at h1 ⊢
  unfold mutInsert at h
  split at h
  · simp at h
  · rename_i index tp1 _
    split at h
    · rename_i node b e hn hs
      obtain ⟨e', hs', hlt, hle, hsl, hsll, hset⟩ := splice ok.trans ok.refl h1 hn
      rw [hs'] at hs; simp at hs; obtain ⟨rfl, rfl⟩ := hs
      simp only at h
      split at h
      · simp at h; obtain ⟨rfl, _⟩ := h; exact ⟨h1, Nat.le_refl _⟩
      · split at h
        · simp at h
        · rename_i newNode tp2 hch
          split at h
          · simp at h
          · rename_i position tp3 hpos
            split at h
            · simp at h
            · rename_i newSub tp4 hins
              have hm := popChoice_mem hch
              simp at hm
              obtain ⟨hsr, _⟩ := ok.prims_ok _ newNode hm.1
              obtain ⟨k, a, hk, ha, hfa⟩ := mem_idxGo (popChoice_mem hpos)
              simp at hfa hk; subst hfa; subst hk
              have hplt : position < newNode.args.length := by
                rcases Nat.lt_or_ge position newNode.args.length with h' | h'
                · exact h'
                · simp [List.getElem?_eq_none h'] at ha
              obtain ⟨ht, hl⟩ := insertArgs_spec ok hsl newNode.args 0 tp3 newSub tp4 hins
                (by intro k hk _; simp at hk; subst hk; exact ha)
              have hv : typed ps.sub [node.ret] (newNode :: newSub) = true := by
                simp only [typed, hsr, Bool.true_and]
                have := ht [] []
                simpa [typed] using this
              obtain ⟨hr, hty⟩ := hset _ hv
              rw [hr] at h; simp at h; obtain ⟨rfl, _⟩ := h
              refine ⟨by simpa [List.append_assoc] using hty, ?_⟩
              have := hl (by omega) (by omega)
              simp; omega
    · simp at h

omit refl trans in
example : mutInsert [pAdd, pOne, pOne] exPs [.randrange 0 3 1, .choice 2 0, .choice 2 1, .choice 3 1] =
    some ([pAdd, pAdd, pTrue, pOne, pOne], []) := by rfl

omit refl trans in
/-- `mutShrink`: closed, and never grows the tree. -/
theorem shrink_closed
    (refl : ∀ a, sub a a = true) (trans : ∀ a b c, sub a b = true → sub b c = true → sub a c = true)
    {r : Nat} {ind out : List Prim} {tp tp' : Tape}
    (h1 : WellFormed sub r ind) (h : mutShrink ind tp = some (out, tp')) :
    WellFormed sub r out ∧ out.length ≤ ind.length := by
  rw [wellFormed_iff_typed] at h1 ⊢
  unfold mutShrink at h
  split at h
  · simp at h; obtain ⟨rfl, _⟩ := h; exact ⟨h1, Nat.le_refl _⟩
  · split at h
    · simp at h
    · split at h
      · simp at h; obtain ⟨rfl, _⟩ := h; exact ⟨h1, Nat.le_refl _⟩
      · simp only at h
        split at h
        · split at h
          · simp at h
          · rename_i index tp1 hch
            split at h
            · simp at h
            · rename_i prim hp
              split at h
              · simp at h
              · rename_i argIdx tp2 hch2
                obtain ⟨k, a, hk, ha, hfa⟩ := mem_idxGo (popChoice_mem hch2)
                simp at hfa hk; subst hfa; subst hk
                obtain ⟨pre, s, post, σ, rest, rfl, hlen, hroot, hw, hr, hx⟩ := span_info h1 hp
                cases s with
                | node q cs =>
                  simp [Tree.root] at hroot; subst hroot
                  have hw' := hw
                  simp only [wt] at hw'
                  simp only [Bool.and_eq_true] at hw'
                  obtain ⟨c, hc, hwc⟩ := wtF_get _ _ _ _ hw'.2 ha
                  have hwf := wfF_of_wtF hw'.2
                  obtain ⟨rb, hn1, hn2⟩ := nthArgSpan_spec argIdx (pre ++ [q]) cs post c hwf hc
                  have el : pre ++ flatten (.node q cs) ++ post = pre ++ [q] ++ flattenF cs ++ post := by
                    simp [flatten]
                  have hsp := searchSubtree_at pre post (.node q cs) (wf_of_wt hw)
                  rw [el] at h hsp ⊢
                  rw [show (pre ++ [q]).length = index + 1 by simp [hlen]] at hn1
                  rw [hn1, ← hlen, hsp] at h
                  simp only at h
                  rw [hn2] at h
                  have hp' : (pre ++ [q] ++ flattenF cs ++ post)[pre.length]? = some q := by
                    rw [← el, hlen]; exact hp
                  rw [← el] at hp'
                  obtain ⟨e', hs', _, _, _, _, hset⟩ := splice trans refl h1 hp'
                  rw [el] at hs' hset
                  rw [hsp] at hs'; simp at hs'; subst hs'
                  obtain ⟨hres, hty⟩ := hset (flatten c) (typed_iff_tree.2 ⟨c, hwc, rfl⟩)
                  rw [hres] at h
                  simp only [Option.map_some, Option.some.injEq, Prod.mk.injEq] at h
                  obtain ⟨rfl, _⟩ := h
                  refine ⟨hty, ?_⟩
                  have := size_le_sizeF cs argIdx c hc
                  simp [flatten_length, Tree.size, flattenF_length]
                  omega
        · simp at h; obtain ⟨rfl, _⟩ := h; exact ⟨h1, Nat.le_refl _⟩

omit refl trans in
example : mutShrink [pAdd, pAdd, pOne, pTrue, pOne] [.choice 1 0, .choice 2 1] = some ([pAdd, pTrue, pOne], []) := by rfl

end Ops

/-! ## `staticLimit` -/

/-- An operator wrapped by `staticLimit` never returns a tree exceeding the limit when its inputs
respected it (for any `key` — `len`, `height` — and any wrapped operator). -/
theorem staticLimit_sound (key : List Prim → Option Nat) (maxv : Nat)
    (op : List (List Prim) → Tape → Option (List (List Prim) × Tape))
    (args outs : List (List Prim)) (tp tp' : Tape)
    (hin : ∀ a ∈ args, ∃ k, key a = some k ∧ k ≤ maxv)
    (h : staticLimit key maxv op args tp = some (outs, tp')) :
    ∀ o ∈ outs, ∃ k, key o = some k ∧ k ≤ maxv := by
  unfold staticLimit at h
  split at h
  · simp at h
  · rename_i new tp1 _
    intro o ho
    rcases (staticLimitLoop_spec new tp1 outs tp' h).2 o ho with h' | ⟨_, h'⟩
    · exact hin o h'
    · exact h'

example : (∀ a ∈ [[pAdd, pOne, pOne]], ∃ k, (fun l : List Prim => some l.length) a = some k ∧ k ≤ 3) ∧
    staticLimit (fun l => some l.length) 3
      (fun args tp => match args with | [x] => (mutInsert x exPs tp).map (fun (r, tp) => ([r], tp)) | _ => none)
      [[pAdd, pOne, pOne]] [.randrange 0 3 1, .choice 2 0, .choice 2 1, .choice 3 1, .choice 1 0] =
      some ([[pAdd, pOne, pOne]], []) :=
  ⟨by simp, by rfl⟩

/-- … and every returned tree is either one the operator returned or a copy of an argument, so the
wrapper preserves whatever the operator preserves (well-formedness, typing). -/
theorem staticLimit_closed (Q : List Prim → Prop) (key : List Prim → Option Nat) (maxv : Nat)
    (op : List (List Prim) → Tape → Option (List (List Prim) × Tape))
    (args outs : List (List Prim)) (tp tp' : Tape)
    (hin : ∀ a ∈ args, Q a)
    (hop : ∀ new tp1, op args tp = some (new, tp1) → ∀ n ∈ new, Q n)
    (h : staticLimit key maxv op args tp = some (outs, tp')) :
    (∀ o ∈ outs, Q o) ∧ ∀ new tp1, op args tp = some (new, tp1) → outs.length = new.length := by
  unfold staticLimit at h
  split at h
  · simp at h
  · rename_i new tp1 hop1
    obtain ⟨hl, hm⟩ := staticLimitLoop_spec new tp1 outs tp' h
    refine ⟨?_, ?_⟩
    · intro o ho
      rcases hm o ho with h' | ⟨h', _⟩
      · exact hin o h'
      · exact hop new tp1 hop1 o h'
    · intro new' tp1' e; rw [hop1] at e; simp at e; rw [← e.1]; exact hl

/-! ## The pools -/

/-- `PrimitiveSetTyped._add` (as modelled by `addPrim`): after any sequence of additions, the pool
`primitives[τ]` only holds `Primitive`s whose return type is a subclass of `τ`, and `terminals[τ]`
only terminals / ephemerals whose return type is a subclass of `τ` — the pool part of `PsetOK`. -/
theorem add_pools_ok (sub : Nat → Nat → Bool)
    (trans : ∀ a b c, sub a b = true → sub b c = true → sub a c = true) (nodes : List Prim) (τ : Nat) (x : Prim) :
    (x ∈ dictGet (nodes.foldl (addPrim sub) ⟨[], []⟩).prims τ → sub x.ret τ = true ∧ x.kind = .prim) ∧
    (x ∈ dictGet (nodes.foldl (addPrim sub) ⟨[], []⟩).terms τ → sub x.ret τ = true ∧ x.kind ≠ .prim) := by
  obtain ⟨h1, h2⟩ := foldl_addPrim_inv trans nodes ⟨[], []⟩ (by intro e he; simp at he) (by intro e he; simp at he)
  constructor
  · intro hx
    obtain ⟨e, he, rfl, hxe⟩ := dictGet_mem hx
    exact h1 e he x hxe
  · intro hx
    obtain ⟨e, he, rfl, hxe⟩ := dictGet_mem hx
    exact h2 e he x hxe

example : (dictGet ([pTrue, pAdd, pLt].foldl (addPrim exSub) ⟨[], []⟩).terms 1) = [pTrue] := by decide

end C11
