/-
C13 — CMA-ES `Strategy` (deap/cma.py:33-208): each update equals the published (μ/μ_w, λ)-CMA-ES
equations and the stored state stays consistent.  Property theorems only; the model is
`DeapModel/Core/Cma.lean`, helper lemmas are in `DeapModel/Lemmas/C13*.lean`.

Level: **partial**.  Proved here, over ℝ, for every dimension / population / parameter values:
the algebra of `update`, `computeParams`, `generate`.  Parameters of the model, *not* proved:
`eigh` (LAPACK; enters through `EighContract`), `argsort` (any permutation), the normal sampler
(the tape `arz`), IEEE rounding (the harness compares the `Float` run of the same definitions
with numpy within a tolerance).
-/
import DeapModel.Lemmas.C13Spec
import DeapModel.Lemmas.C13Eig
import DeapModel.Lemmas.C13Weights
import DeapModel.Lemmas.C13Sort
import DeapModel.Lemmas.C13Psd
import DeapModel.Lemmas.C13Init
import DeapModel.Lemmas.C13Spectral
import Mathlib.Tactic.FinCases
import Mathlib.Tactic.NormNum

set_option linter.unusedSectionVars false
set_option linter.unusedSimpArgs false
set_option linter.unusedVariables false

namespace C13
open Cma C13L

/-! ### Example data used to show that the hypotheses of the theorems are satisfiable -/

/-- a 2-dimensional strategy state with C = diag(1, 4), μ = 2, weights (3/4, 1/4) -/
noncomputable def exState : State ℝ :=
  { dim := 2, centroid := [1, -1], sigma := 2, pc := [0, 0], ps := [0, 0], chiN := 1,
    C := [[1, 0], [0, 4]], diagD := [1, 2], B := [[1, 0], [0, 1]], BD := [[1, 0], [0, 2]], cond := 2,
    lambda_ := 4, updateCount := 0,
    par := { mu := 2, weights := [3 / 4, 1 / 4], mueff := 8 / 5, cc := 1 / 2, cs := 1 / 2,
             ccov1 := 1 / 10, ccovmu := 1 / 10, damps := 1 } }

/-- a population of four evaluated individuals with pairwise distinct fitnesses -/
noncomputable def exPop : List (Int × List ℝ) := [(3, [1, 0]), (7, [0, 1]), (5, [2, 2]), (1, [0, 0])]

/-! ### 1. The code form of `update` is the published form -/

/-- **The guard.**  Every division `update` performs is by a non-zero number exactly under these conditions;
outside them numpy produces `inf`/`nan` (e.g. user-supplied `cs = 0` or `cs = 2` makes the `h_σ` denominator
`√(1 - (1-cs)^(2(g+1)))` zero) while division in ℝ is totalised (`x / 0 = 0`), so the theorems about the
published equations are stated under this guard only. -/
structure WellPosed (s : State ℝ) : Prop where
  sigma_pos : 0 < s.sigma
  chiN_pos : 0 < s.chiN
  cs_pos : 0 < s.par.cs
  cs_lt : s.par.cs < 2
  damps_ne : s.par.damps ≠ 0
  diagD_pos : ∀ k : Fin s.dim, 0 < vget s.diagD k.val

/-- under the guard no denominator of cma.py:141-165 vanishes -/
theorem no_zero_division (s : State ℝ) (h : WellPosed s) :
    s.sigma ≠ 0 ∧ s.sigma ^ 2 ≠ 0 ∧ (∀ k : Fin s.dim, vget s.diagD k.val ≠ 0) ∧
    0 < √(1 - (1 - s.par.cs) ^ (2 * (s.updateCount + 1))) ∧ s.chiN ≠ 0 ∧ s.par.damps ≠ 0 := by
  refine ⟨h.sigma_pos.ne', pow_ne_zero 2 h.sigma_pos.ne', fun k => (h.diagD_pos k).ne', ?_, h.chiN_pos.ne',
    h.damps_ne⟩
  apply Real.sqrt_pos.mpr
  have h0 : 0 ≤ (1 - s.par.cs) ^ 2 := sq_nonneg _
  have h1 : (1 - s.par.cs) ^ 2 < 1 := by nlinarith [h.cs_pos, h.cs_lt]
  have : ((1 - s.par.cs) ^ 2) ^ (s.updateCount + 1) < 1 := pow_lt_one₀ h0 h1 (Nat.succ_ne_zero _)
  rw [← pow_mul] at this
  linarith

/-- **update_eq_spec.**  For a well-posed state whose recombination weights sum to one, the values computed by
cma.py:135-165 (`updateCore`: centroid, p_σ, h_σ, p_c, C, σ) are exactly those of the published
(μ/μ_w, λ)-CMA-ES equations (`updateSpec`, spelled out by `spec_*` below). -/
theorem update_eq_spec (s : State ℝ) (xs : List (List ℝ)) (hwp : WellPosed s)
    (hw : ∑ i : Fin s.par.mu, vget s.par.weights i.val = 1) :
    updateCore s xs = updateSpec s xs :=
  updateCore_eq_spec s xs hwp.sigma_pos.ne' hwp.chiN_pos hw

example : WellPosed exState ∧ ∑ i : Fin exState.par.mu, vget exState.par.weights i.val = 1 := by
  refine ⟨⟨by norm_num [exState], by norm_num [exState], by norm_num [exState], by norm_num [exState],
    by norm_num [exState], ?_⟩, ?_⟩
  · show ∀ k : Fin 2, 0 < vget [(1 : ℝ), 2] k.val
    intro k; fin_cases k <;> norm_num [vget]
  · show ∑ i : Fin 2, vget [(3 / 4 : ℝ), 1 / 4] i.val = 1
    norm_num [Fin.sum_univ_two, vget]

/-- `update` stores exactly what `updateCore` computes on the `mu` best individuals, increments
`update_count`, and leaves the parameters alone (cma.py:133-174). -/
theorem update_fields {α K : Type} [RealLike α] [LT K] [DecidableLT K]
    (eigh : List (List α) → List α × List (List α)) (argsort : List α → List Nat)
    (s : State α) (pop : List (K × List α)) :
    let s' := update eigh argsort s pop
    let c := updateCore s (selectBest s.par.mu pop)
    s'.centroid = c.centroid ∧ s'.ps = c.ps ∧ s'.pc = c.pc ∧ s'.C = c.C ∧ s'.sigma = c.sigma ∧
    s'.updateCount = s.updateCount + 1 ∧ s'.par = s.par ∧ s'.dim = s.dim ∧ s'.chiN = s.chiN ∧
    s'.lambda_ = s.lambda_ :=
  ⟨rfl, rfl, rfl, rfl, rfl, rfl, rfl, rfl, rfl, rfl⟩

/-- **update = published equations**, at the level of the strategy object. -/
theorem update_eq_published {K : Type} [LT K] [DecidableLT K]
    (eigh : List (List ℝ) → List ℝ × List (List ℝ)) (argsort : List ℝ → List Nat)
    (s : State ℝ) (pop : List (K × List ℝ)) (hwp : WellPosed s)
    (hw : ∑ i : Fin s.par.mu, vget s.par.weights i.val = 1) :
    let s' := update eigh argsort s pop
    let r := updateSpec s (selectBest s.par.mu pop)
    s'.centroid = r.centroid ∧ s'.ps = r.ps ∧ s'.pc = r.pc ∧ s'.C = r.C ∧ s'.sigma = r.sigma := by
  intro s' r
  have h := update_eq_spec s (selectBest s.par.mu pop) hwp hw
  exact ⟨congrArg Core.centroid h, congrArg Core.ps h, congrArg Core.pc h, congrArg Core.C h,
    congrArg Core.sigma h⟩

/-! #### What the published form says, in ordinary notation (`n = dim`, `g = update_count`) -/

/-- `y_w = Σ w_i (x_{i:λ} - m)/σ` -/
theorem spec_yw (s : State ℝ) (xs : List (List ℝ)) (j : Fin s.dim) :
    vget (specYw s xs) j.val
      = ∑ i : Fin s.par.mu, vget s.par.weights i.val * ((mget xs i.val j.val - vget s.centroid j.val) / s.sigma) := by
  simp only [specYw, specY]; real_bridge

/-- `m' = Σ w_i x_{i:λ}` -/
theorem spec_centroid (s : State ℝ) (xs : List (List ℝ)) (j : Fin s.dim) :
    vget (updateSpec s xs).centroid j.val = ∑ i : Fin s.par.mu, vget s.par.weights i.val * mget xs i.val j.val := by
  simp only [updateSpec, specMean]; real_bridge

/-- `p_σ' = (1 - c_σ) p_σ + √(c_σ (2 - c_σ) μ_eff) · (B D⁻¹ Bᵀ) y_w` -/
theorem spec_ps (s : State ℝ) (xs : List (List ℝ)) (a : Fin s.dim) :
    vget (updateSpec s xs).ps a.val
      = (1 - s.par.cs) * vget s.ps a.val
        + √(s.par.cs * (2 - s.par.cs) * s.par.mueff)
          * ∑ b : Fin s.dim, (∑ k : Fin s.dim, mget s.B a.val k.val * (1 / vget s.diagD k.val) * mget s.B b.val k.val)
              * vget (specYw s xs) b.val := by
  simp only [updateSpec, specPs, specInvSqrtC]; real_bridge

/-- `h_σ = 1` iff `‖p_σ'‖ / √(1 - (1 - c_σ)^(2(g+1))) < (1.4 + 2/(n+1)) · chiN` (natural-number power) -/
theorem spec_hsig (s : State ℝ) (xs : List (List ℝ)) :
    (updateSpec s xs).hsig
      = if √(∑ i : Fin s.dim, vget (updateSpec s xs).ps i.val * vget (updateSpec s xs).ps i.val)
            / √(1 - (1 - s.par.cs) ^ (2 * (s.updateCount + 1)))
          < (14 / 10 + 2 / ((s.dim : ℝ) + 1)) * s.chiN then 1 else 0 := by
  simp only [updateSpec, specHsig]; real_bridge
  simp only [Real.rpow_natCast]
  exact if_congr Iff.rfl rfl rfl

/-- `p_c' = (1 - c_c) p_c + h_σ √(c_c (2 - c_c) μ_eff) · y_w` -/
theorem spec_pc (s : State ℝ) (xs : List (List ℝ)) (a : Fin s.dim) :
    vget (updateSpec s xs).pc a.val
      = (1 - s.par.cc) * vget s.pc a.val
        + (updateSpec s xs).hsig * √(s.par.cc * (2 - s.par.cc) * s.par.mueff) * vget (specYw s xs) a.val := by
  simp only [updateSpec, specPc]; real_bridge

/-- `C' = (1 - c_1 - c_μ) C + c_1 (p_c' p_c'ᵀ + (1 - h_σ) c_c (2 - c_c) C) + c_μ Σ w_i y_i y_iᵀ` -/
theorem spec_C (s : State ℝ) (xs : List (List ℝ)) (a b : Fin s.dim) :
    mget (updateSpec s xs).C a.val b.val
      = (1 - s.par.ccov1 - s.par.ccovmu) * mget s.C a.val b.val
        + s.par.ccov1 * (vget (updateSpec s xs).pc a.val * vget (updateSpec s xs).pc b.val
            + (1 - (updateSpec s xs).hsig) * s.par.cc * (2 - s.par.cc) * mget s.C a.val b.val)
        + s.par.ccovmu * ∑ i : Fin s.par.mu, vget s.par.weights i.val
            * ((mget xs i.val a.val - vget s.centroid a.val) / s.sigma
               * ((mget xs i.val b.val - vget s.centroid b.val) / s.sigma)) := by
  simp only [updateSpec, specC, specY]; real_bridge

/-- `σ' = σ · exp((c_σ / d_σ) (‖p_σ'‖ / chiN - 1))` -/
theorem spec_sigma (s : State ℝ) (xs : List (List ℝ)) :
    (updateSpec s xs).sigma
      = s.sigma * Real.exp (s.par.cs / s.par.damps
          * (√(∑ i : Fin s.dim, vget (updateSpec s xs).ps i.val * vget (updateSpec s xs).ps i.val) / s.chiN - 1)) := by
  simp only [updateSpec, specSigma]; real_bridge

/-- `chiN = √n (1 - 1/(4n) + 1/(21 n²))` as set by `__init__` is positive for `n ≥ 1`. -/
theorem chiN_pos (n : Nat) (hn : 1 ≤ n) : 0 < (chiNOf n : ℝ) := by
  simp only [chiNOf]; real_bridge
  have h1 : (1 : ℝ) ≤ (n : ℝ) := by exact_mod_cast hn
  have h0 : (0 : ℝ) < (n : ℝ) := by linarith
  apply mul_pos (Real.sqrt_pos.mpr h0)
  have h4 : 1 / (4 * (n : ℝ)) ≤ 1 / 4 := by
    apply div_le_div_of_nonneg_left <;> linarith
  have h21 : 0 < 1 / (21 * (n : ℝ) ^ 2) := by positivity
  linarith

example : (1 : Nat) ≤ 5 := by decide

/-! ### 2. Recombination: the new centroid is the weighted mean of the μ best -/

/-- **centroid_mean.**  Component `j` of the new centroid is `Σ_{i<μ} w_i · x_{i:λ, j}` where
`x_{i:λ}` is the `i`-th individual of the population sorted best-first. -/
theorem centroid_mean {K : Type} [LT K] [DecidableLT K]
    (eigh : List (List ℝ) → List ℝ × List (List ℝ)) (argsort : List ℝ → List Nat)
    (s : State ℝ) (pop : List (K × List ℝ)) (j : Fin s.dim) :
    vget (update eigh argsort s pop).centroid j.val
      = ∑ i : Fin s.par.mu, vget s.par.weights i.val * mget (selectBest s.par.mu pop) i.val j.val := by
  simp only [update, updateCore, newCentroid]; real_bridge

/-- the selected individuals are the first `μ` genomes of a best-first sorted permutation of the population -/
theorem selectBest_eq {α K : Type} [LT K] [DecidableLT K] (mu : Nat) (pop : List (K × List α)) :
    selectBest mu pop = ((sortDesc pop).map Prod.snd).take mu := rfl

/-- `sort(reverse=True)` permutes the population … -/
theorem sort_perm {K V : Type} [LinearOrder K] (pop : List (K × V)) : (sortDesc pop).Perm pop :=
  sortDesc_perm pop

/-- … into non-increasing fitness order … -/
theorem sort_desc {K V : Type} [LinearOrder K] (pop : List (K × V)) :
    (sortDesc pop).Pairwise (fun a b => b.1 ≤ a.1) :=
  sortDesc_sorted pop

/-- … so each of the first `μ` is at least as fit as each of the others. -/
theorem sort_best {K V : Type} [LinearOrder K] (pop : List (K × V)) (mu : Nat) :
    ∀ x ∈ (sortDesc pop).take mu, ∀ y ∈ (sortDesc pop).drop mu, y.1 ≤ x.1 :=
  sortDesc_best pop mu

/-- with `μ ≤ len(population)` exactly `μ` individuals are recombined -/
theorem selectBest_length {α K : Type} [LinearOrder K] (mu : Nat) (pop : List (K × List α))
    (h : mu ≤ pop.length) : (selectBest mu pop).length = mu := by
  simp only [selectBest, List.length_take, List.length_map, (sortDesc_perm pop).length_eq]
  omega

example : (2 : Nat) ≤ exPop.length := by simp [exPop]

/-! ### 3. Order independence -/

/-- **order_independent.**  If the fitnesses are pairwise distinct, passing the evaluated individuals
in any other order gives the identical strategy state (the sorted list is unique). -/
theorem order_independent {α K : Type} [RealLike α] [LinearOrder K]
    (eigh : List (List α) → List α × List (List α)) (argsort : List α → List Nat)
    (s : State α) {p q : List (K × List α)} (h : p.Perm q) (hd : (p.map Prod.fst).Nodup) :
    update eigh argsort s p = update eigh argsort s q := by
  simp only [update, selectBest, sortDesc_eq_of_perm h hd]

example : exPop.Perm exPop.reverse ∧ (exPop.map Prod.fst).Nodup := by
  refine ⟨(List.reverse_perm _).symm, ?_⟩
  simp [exPop]

/-! #### … instantiated at the key the model and the driver really sort by

`FitKey ℝ` = a fitness' weighted values under `lexLt` (`Fitness.__lt__`); `fitKeyLinearOrder` shows that this
very `<` (instances `Cma.fitKeyLT` / `Cma.fitKeyDecLT`, named explicitly below) is a linear order. -/

/-- **order_independent_fitness.**  `order_independent` for populations keyed by real fitness objects:
pairwise distinct weighted-value tuples ⇒ the order of the evaluated individuals is irrelevant. -/
theorem order_independent_fitness
    (eigh : List (List ℝ) → List ℝ × List (List ℝ)) (argsort : List ℝ → List Nat)
    (s : State ℝ) {p q : List (FitKey ℝ × List ℝ)} (h : p.Perm q)
    (hd : (p.map (fun kv => kv.1.wvalues)).Nodup) :
    @update ℝ _ (FitKey ℝ) Cma.fitKeyLT Cma.fitKeyDecLT eigh argsort s p
      = @update ℝ _ (FitKey ℝ) Cma.fitKeyLT Cma.fitKeyDecLT eigh argsort s q := by
  have hd' : (p.map Prod.fst).Nodup := by
    have : p.map (fun kv => kv.1.wvalues) = (p.map Prod.fst).map FitKey.wvalues := by simp
    rw [this] at hd
    exact hd.of_map _
  exact order_independent (K := FitKey ℝ) eigh argsort s h hd'

example : [((⟨[3, 1]⟩ : FitKey ℝ), [(1 : ℝ), 0]), (⟨[3, 2]⟩, [0, 1]), (⟨[-1]⟩, [2, 2])].Perm
      [((⟨[-1]⟩ : FitKey ℝ), [(2 : ℝ), 2]), (⟨[3, 1]⟩, [1, 0]), (⟨[3, 2]⟩, [0, 1])] ∧
    ([((⟨[3, 1]⟩ : FitKey ℝ), [(1 : ℝ), 0]), (⟨[3, 2]⟩, [0, 1]), (⟨[-1]⟩, [2, 2])].map
      (fun kv => kv.1.wvalues)).Nodup := by
  refine ⟨?_, by norm_num⟩
  exact List.perm_append_comm (l₁ := [_, _]) (l₂ := [_])

/-- **sort_best_fitness.**  After the model's sort none of the discarded individuals is strictly better
(`Fitness.__lt__`) than a selected one, and the result is a permutation of the population. -/
theorem sort_best_fitness (pop : List (FitKey ℝ × List ℝ)) (mu : Nat) :
    (@sortDesc (FitKey ℝ) (List ℝ) Cma.fitKeyLT Cma.fitKeyDecLT pop).Perm pop ∧
    ∀ x ∈ (@sortDesc (FitKey ℝ) (List ℝ) Cma.fitKeyLT Cma.fitKeyDecLT pop).take mu,
      ∀ y ∈ (@sortDesc (FitKey ℝ) (List ℝ) Cma.fitKeyLT Cma.fitKeyDecLT pop).drop mu,
        lexLt x.1.wvalues y.1.wvalues = false := by
  refine ⟨sortDesc_perm (K := FitKey ℝ) pop, ?_⟩
  intro x hx y hy
  have h := sortDesc_best (K := FitKey ℝ) pop mu x hx y hy
  have : ¬ (x.1 < y.1) := not_lt.mpr h
  exact Bool.eq_false_iff.mpr this

/-! ### 4. Consistency of the stored state after an update -/

/-- **C_symm.**  A symmetric covariance matrix stays symmetric (cma.py:158-162), whatever the
population, paths and learning rates. -/
theorem C_symm (s : State ℝ) (hsig : ℝ) (pc : List ℝ) (artmp : List (List ℝ))
    (hC : ∀ a b : Fin s.dim, mget s.C a.val b.val = mget s.C b.val a.val) (a b : Fin s.dim) :
    mget (newC s hsig pc artmp) a.val b.val = mget (newC s hsig pc artmp) b.val a.val := by
  simp only [newC]; real_bridge
  rw [hC a b, mul_comm (vget pc a.val)]
  congr 2
  congr 1
  refine Finset.sum_congr rfl (fun i _ => ?_)
  ring

/-- `C_symm` for the state `update` stores -/
theorem update_C_symm {K : Type} [LT K] [DecidableLT K]
    (eigh : List (List ℝ) → List ℝ × List (List ℝ)) (argsort : List ℝ → List Nat)
    (s : State ℝ) (pop : List (K × List ℝ))
    (hC : ∀ a b : Fin s.dim, mget s.C a.val b.val = mget s.C b.val a.val) (a b : Fin s.dim) :
    mget (update eigh argsort s pop).C a.val b.val = mget (update eigh argsort s pop).C b.val a.val :=
  C_symm s _ _ _ hC a b

example : ∀ a b : Fin exState.dim, mget exState.C a.val b.val = mget exState.C b.val a.val := by
  show ∀ a b : Fin 2, mget [[(1 : ℝ), 0], [0, 4]] a.val b.val = mget [[(1 : ℝ), 0], [0, 4]] b.val a.val
  intro a b; fin_cases a <;> fin_cases b <;> simp [mget, vget]

/-- **sigma_pos.**  The step size stays positive: it is multiplied by an exponential (cma.py:164-165). -/
theorem sigma_pos {K : Type} [LT K] [DecidableLT K]
    (eigh : List (List ℝ) → List ℝ × List (List ℝ)) (argsort : List ℝ → List Nat)
    (s : State ℝ) (pop : List (K × List ℝ)) (h : 0 < s.sigma) :
    0 < (update eigh argsort s pop).sigma := by
  simp only [update, updateCore, newSigma]; real_bridge
  exact mul_pos h (Real.exp_pos _)

example : 0 < exState.sigma := by norm_num [exState]

/-- **eig_reproduces.**  If `eigh` honours its contract on the new covariance matrix (orthonormal
eigenvector columns, `C' = V diag(w) Vᵀ`), its eigenvalues are non-negative and `argsort` returns a
permutation, then the stored decomposition reproduces the stored matrix:
`BD·BDᵀ = C'`, `B·diag(diagD²)·Bᵀ = C'`, `BD = B·diag(diagD)`, and `B` is orthogonal. -/
theorem eig_reproduces {K : Type} [LT K] [DecidableLT K]
    (eigh : List (List ℝ) → List ℝ × List (List ℝ)) (argsort : List ℝ → List Nat)
    (s : State ℝ) (pop : List (K × List ℝ))
    (hc : let C' := (update eigh argsort s pop).C
          EighContract s.dim C' (eigh C').1 (eigh C').2)
    (hw : ∀ k : Fin s.dim, 0 ≤ vget (eigh (update eigh argsort s pop).C).1 k.val)
    (hp : (argsort (eigh (update eigh argsort s pop).C).1).Perm (List.range s.dim)) :
    let s' := update eigh argsort s pop
    (∀ a b : Fin s.dim, ∑ k : Fin s.dim, mget s'.BD a.val k.val * mget s'.BD b.val k.val = mget s'.C a.val b.val) ∧
    (∀ a b : Fin s.dim, ∑ k : Fin s.dim, mget s'.B a.val k.val * (vget s'.diagD k.val * vget s'.diagD k.val)
        * mget s'.B b.val k.val = mget s'.C a.val b.val) ∧
    (∀ a k : Fin s.dim, mget s'.BD a.val k.val = mget s'.B a.val k.val * vget s'.diagD k.val) ∧
    (∀ a b : Fin s.dim, ∑ k : Fin s.dim, mget s'.B a.val k.val * mget s'.B b.val k.val = if a = b then 1 else 0) ∧
    (∀ k l : Fin s.dim, ∑ a : Fin s.dim, mget s'.B a.val k.val * mget s'.B a.val l.val = if k = l then 1 else 0) := by
  intro s'
  exact ⟨eigSorted_BD_BDT hc hp hw, eigSorted_B_D2_BT hc hp hw, fun a k => eigSorted_BD a k,
    eigSorted_B_rows hc hp, eigSorted_B_cols hc hp⟩

/-- the same for the decomposition `__init__` stores (cma.py:100-106) -/
theorem init_eig_reproduces
    (eigh : List (List ℝ) → List ℝ × List (List ℝ)) (argsort : List ℝ → List Nat)
    (centroid : List ℝ) (sigma : ℝ) (o : Over ℝ)
    (hc : let s0 := init eigh argsort centroid sigma o
          EighContract s0.dim s0.C (eigh s0.C).1 (eigh s0.C).2)
    (hw : let s0 := init eigh argsort centroid sigma o
          ∀ k : Fin s0.dim, 0 ≤ vget (eigh s0.C).1 k.val)
    (hp : let s0 := init eigh argsort centroid sigma o
          (argsort (eigh s0.C).1).Perm (List.range s0.dim)) :
    let s0 := init eigh argsort centroid sigma o
    (∀ a b : Fin s0.dim, ∑ k : Fin s0.dim, mget s0.BD a.val k.val * mget s0.BD b.val k.val = mget s0.C a.val b.val) ∧
    (∀ a b : Fin s0.dim, ∑ k : Fin s0.dim, mget s0.B a.val k.val * (vget s0.diagD k.val * vget s0.diagD k.val)
        * mget s0.B b.val k.val = mget s0.C a.val b.val) := by
  intro s0
  exact ⟨eigSorted_BD_BDT hc hp hw, eigSorted_B_D2_BT hc hp hw⟩

/-- the hypotheses of `eig_reproduces` are satisfiable: `C = diag(1, 4)` with the eigenpairs listed in
decreasing order (so that the `argsort` permutation is not the identity) -/
example : EighContract 2 [[1, 0], [0, 4]] [4, 1] [[0, 1], [1, 0]] ∧ (∀ k : Fin 2, 0 ≤ vget [(4 : ℝ), 1] k.val)
    ∧ [1, 0].Perm (List.range 2) := by
  refine ⟨⟨?_, ?_⟩, ?_, by decide⟩
  · intro k l; fin_cases k <;> fin_cases l <;> simp [Fin.sum_univ_two, mget, vget]
  · intro a b; fin_cases a <;> fin_cases b <;> simp [Fin.sum_univ_two, mget, vget]
  · intro k; fin_cases k <;> simp [vget]

/-! ### 5. Recombination weights and the documented defaults -/

/-- **weights_pos_noninc_sum1.**  For each of the three schemes and every `μ ≥ 1` the weights that
`computeParams` stores have length `μ`, are positive, non-increasing in the rank, and sum to one. -/
theorem weights_pos_noninc_sum1 (dim lambda_ : Nat) (o : Over ℝ)
    (hmu : 1 ≤ (computeParams dim lambda_ o).mu) :
    let p := computeParams dim lambda_ o
    p.weights.length = p.mu ∧ (∀ i : Fin p.mu, 0 < vget p.weights i.val) ∧
    (∀ i j : Fin p.mu, i ≤ j → vget p.weights j.val ≤ vget p.weights i.val) ∧
    ∑ i : Fin p.mu, vget p.weights i.val = 1 :=
  weights_facts o.scheme hmu

example : 1 ≤ (computeParams 5 8 ({ } : Over ℝ)).mu := by
  show 1 ≤ 8 / 2
  decide

/-- the documented default `mu = int(lambda_ / 2)` never exceeds `lambda_`, and is at least 1 for `λ ≥ 2` -/
theorem mu_default (dim lambda_ : Nat) (o : Over ℝ) (h : o.mu = none) :
    (computeParams dim lambda_ o).mu = lambda_ / 2 ∧ (computeParams dim lambda_ o).mu ≤ lambda_ ∧
    (2 ≤ lambda_ → 1 ≤ (computeParams dim lambda_ o).mu) := by
  have hm : (computeParams dim lambda_ o).mu = lambda_ / 2 := by simp [computeParams, h]
  rw [hm]
  omega

example : ({ } : Over ℝ).mu = none := rfl

/-- a user-supplied `mu` is taken as is -/
theorem mu_user (dim lambda_ m : Nat) (o : Over ℝ) (h : o.mu = some m) :
    (computeParams dim lambda_ o).mu = m := by
  simp only [computeParams, h, Option.getD_some]

/-- the weights in closed form: `w_i = r_i / Σ r` with `r_i = ln(μ + 1/2) - ln i` (superlinear),
`μ + 1/2 - i` (linear), `1` (equal), `i = 1..μ` -/
theorem weights_closed_form (dim lambda_ : Nat) (o : Over ℝ) (i : Fin (computeParams dim lambda_ o).mu) :
    let p := computeParams dim lambda_ o
    vget p.weights i.val = rawW o.scheme p.mu i.val / ∑ k : Fin p.mu, rawW o.scheme p.mu k.val := by
  intro p
  have : p.weights = tab p.mu (fun i => rawW o.scheme p.mu i / ∑ k : Fin p.mu, rawW o.scheme p.mu k.val) :=
    weights_eq o.scheme p.mu
  rw [this, vget_tab_fin]

/-- **documented defaults** (the table in the `Strategy` docstring), `N = dim`:
`μ_eff = 1/Σw²`, `cc = 4/(N+4)`, `cs = (μ_eff+2)/(N+μ_eff+3)`, `ccov1 = 2/((N+1.3)²+μ_eff)`,
`ccovmu = min(1-ccov1, 2(μ_eff-2+1/μ_eff)/((N+2)²+μ_eff))`,
`damps = 1 + 2 max(0, √((μ_eff-1)/(N+1)) - 1) + cs`. -/
theorem params_defaults (dim lambda_ : Nat) (sch : Scheme) (mu : Option Nat) :
    let p := computeParams dim lambda_ ({ scheme := sch, mu := mu } : Over ℝ)
    p.mueff = 1 / (p.weights.map (fun x => x ^ 2)).sum ∧
    p.cc = 4 / ((dim : ℝ) + 4) ∧
    p.cs = (p.mueff + 2) / ((dim : ℝ) + p.mueff + 3) ∧
    p.ccov1 = 2 / (((dim : ℝ) + 13 / 10) ^ 2 + p.mueff) ∧
    p.ccovmu = min (1 - p.ccov1) (2 * (p.mueff - 2 + 1 / p.mueff) / (((dim : ℝ) + 2) ^ 2 + p.mueff)) ∧
    p.damps = 1 + 2 * max 0 (√((p.mueff - 1) / ((dim : ℝ) + 1)) - 1) + p.cs := by
  intro p
  refine ⟨?_, ?_, ?_, ?_, ?_, ?_⟩
  · simp only [p, computeParams, mueffOf]; real_bridge
  · simp only [p, computeParams, Option.getD_none]; real_bridge
  · simp only [p, computeParams, Option.getD_none]; real_bridge
  · simp only [p, computeParams, Option.getD_none]; real_bridge
  · simp only [p, computeParams, Option.getD_none, RealLike.pmin]; real_bridge
    rw [min_def]
    split_ifs with h1 h2 h2
    · exact absurd h1 (not_lt.mpr h2)
    · rfl
    · rfl
    · exact absurd (not_lt.mp h1) h2
  · simp only [p, computeParams, Option.getD_none, RealLike.pmax]; real_bridge
    rw [max_def]
    split_ifs with h1 h2 h2
    · rfl
    · exact absurd h1.le h2
    · have : (0 : ℝ) = _ := le_antisymm h2 (not_lt.mp h1)
      rw [← this]
    · rfl

/-- user-supplied learning rates are stored as given (`ccovmu` after the `min` of cma.py:205) -/
theorem params_user (dim lambda_ : Nat) (o : Over ℝ) (cs damps ccum ccov1 ccovmu : ℝ)
    (h1 : o.cs = some cs) (h2 : o.damps = some damps) (h3 : o.ccum = some ccum) (h4 : o.ccov1 = some ccov1)
    (h5 : o.ccovmu = some ccovmu) :
    let p := computeParams dim lambda_ o
    p.cs = cs ∧ p.damps = damps ∧ p.cc = ccum ∧ p.ccov1 = ccov1 ∧ p.ccovmu = min (1 - ccov1) ccovmu := by
  intro p
  refine ⟨?_, ?_, ?_, ?_, ?_⟩
  · simp only [p, computeParams, h1, Option.getD_some]
  · simp only [p, computeParams, h2, Option.getD_some]
  · simp only [p, computeParams, h3, Option.getD_some]
  · simp only [p, computeParams, h4, Option.getD_some]
  · simp only [p, computeParams, h4, h5, Option.getD_some, RealLike.pmin]; real_bridge
    rw [min_def]
    split_ifs with h1 h2 h2
    · exact absurd h1 (not_lt.mpr h2)
    · rfl
    · rfl
    · exact absurd (not_lt.mp h1) h2

example : ({ cs := some (1 / 2), damps := some 2, ccum := some (1 / 3), ccov1 := some (1 / 10),
             ccovmu := some 2 } : Over ℝ).ccovmu = some 2 := rfl

/-! ### 6. Sampling -/

/-- `generate` succeeds exactly when the tape still holds `lambda_ · dim` draws -/
theorem generate_some_iff {α I : Type} [RealLike α] (s : State α) (tape : List α) (indInit : List α → I) :
    (generate s tape indInit).isSome ↔ s.lambda_ * s.dim ≤ tape.length := by
  simp only [generate, drawArz]
  split_ifs with h <;> simp [h]

/-- **generate_shape.**  `generate` returns exactly `lambda_` individuals and consumes exactly `lambda_ · dim`
draws; individual `i` is the given initialiser applied to the sample point of the `i`-th block of `dim` draws,
a vector of the problem dimension. -/
theorem generate_shape {α I : Type} [RealLike α] (s : State α) (tape : List α) (indInit : List α → I)
    (inds : List I) (rest : List α) (h : generate s tape indInit = some (inds, rest)) :
    inds.length = s.lambda_ ∧ rest = tape.drop (s.lambda_ * s.dim) ∧
    ∀ i (hi : i < inds.length),
      let z := (tape.drop (i * s.dim)).take s.dim
      z.length = s.dim ∧ (samplePoint s z).length = s.dim ∧ inds[i] = indInit (samplePoint s z) := by
  simp only [generate, drawArz] at h
  split_ifs at h with hlen
  simp only [Option.some.injEq, Prod.mk.injEq] at h
  obtain ⟨h1, h2⟩ := h
  subst h1 h2
  refine ⟨by simp, rfl, ?_⟩
  intro i hi z
  have hi' : i < s.lambda_ := by simpa using hi
  refine ⟨?_, by simp only [samplePoint, length_tab], by simp [z]⟩
  simp only [z, List.length_take, List.length_drop]
  have : (i + 1) * s.dim ≤ s.lambda_ * s.dim := Nat.mul_le_mul_right _ hi'
  have h3 : (i + 1) * s.dim = i * s.dim + s.dim := by ring
  omega

example : (generate exState [1, 2, 3, 4, 5, 6, 7, 8, 9] (fun x => x)).isSome := by
  rw [generate_some_iff]; simp [exState]

/-- **relambda.**  After the documented way of changing the population size,
`strategy.lambda_ = lam; strategy.computeParams(strategy.params)`, the strategy's `lambda_` is the new value,
the parameters are those derived from the new `lambda_` (default `mu = lam / 2`, weights, μ_eff, rates — all
theorems of section 5 apply to them), the search distribution is untouched, and `generate` returns exactly
`lam` individuals. -/
theorem relambda_spec {α I : Type} [RealLike α] (s : State α) (lam : Nat) (o : Over α) :
    let s' := relambda s lam o
    s'.lambda_ = lam ∧ s'.par = computeParams s.dim lam o ∧ (o.mu = none → s'.par.mu = lam / 2) ∧
    s'.dim = s.dim ∧ s'.centroid = s.centroid ∧ s'.sigma = s.sigma ∧ s'.C = s.C ∧ s'.B = s.B ∧
    s'.diagD = s.diagD ∧ s'.BD = s.BD ∧ s'.pc = s.pc ∧ s'.ps = s.ps ∧ s'.updateCount = s.updateCount ∧
    ∀ (tape : List α) (indInit : List α → I) inds rest,
      generate s' tape indInit = some (inds, rest) → inds.length = lam := by
  intro s'
  refine ⟨rfl, rfl, ?_, rfl, rfl, rfl, rfl, rfl, rfl, rfl, rfl, rfl, rfl, ?_⟩
  · intro h; simp [s', relambda, computeParams, h]
  · intro tape indInit inds rest h
    exact (generate_shape s' tape indInit inds rest h).1

/-- **sample_affine.**  Each sampled point is the affine image `m + σ · BD z` of its standard-normal draw. -/
theorem sample_affine (s : State ℝ) (z : List ℝ) (j : Fin s.dim) :
    vget (samplePoint s z) j.val
      = vget s.centroid j.val + s.sigma * ∑ k : Fin s.dim, mget s.BD j.val k.val * vget z k.val := by
  simp only [samplePoint]; real_bridge
  congr 2
  refine Finset.sum_congr rfl (fun k _ => mul_comm _ _)

/-- **sample_cov.**  The linear part `A = σ·BD` of that map satisfies `A Aᵀ = σ² C` whenever the stored
decomposition reproduces `C` (`eig_reproduces`); hence for `z ~ N(0, I)` (numpy's sampler, trusted) the
points are distributed around the centroid with covariance `σ² C`. -/
theorem sample_cov (s : State ℝ)
    (h : ∀ a b : Fin s.dim, ∑ k : Fin s.dim, mget s.BD a.val k.val * mget s.BD b.val k.val = mget s.C a.val b.val)
    (a b : Fin s.dim) :
    ∑ k : Fin s.dim, (s.sigma * mget s.BD a.val k.val) * (s.sigma * mget s.BD b.val k.val)
      = s.sigma ^ 2 * mget s.C a.val b.val := by
  rw [← h a b, Finset.mul_sum]
  refine Finset.sum_congr rfl (fun k _ => by ring)

example : ∀ a b : Fin exState.dim,
    ∑ k : Fin exState.dim, mget exState.BD a.val k.val * mget exState.BD b.val k.val = mget exState.C a.val b.val := by
  show ∀ a b : Fin 2, ∑ k : Fin 2, mget [[(1 : ℝ), 0], [0, 2]] a.val k.val * mget [[(1 : ℝ), 0], [0, 2]] b.val k.val
      = mget [[(1 : ℝ), 0], [0, 4]] a.val b.val
  intro a b; fin_cases a <;> fin_cases b <;> norm_num [Fin.sum_univ_two, mget, vget]

/-! ### 7. The consistency clauses along whole histories

`eig_reproduces` needs non-negative eigenvalues.  They follow from the `eigh` contract once the
covariance matrix is positive semi-definite, and the update preserves that for learning rates with
`0 ≤ c₁`, `0 ≤ c_μ`, `c₁ + c_μ ≤ 1` (this is what the `min` of cma.py:205 is for), `0 ≤ c_c ≤ 2` and
non-negative weights — in particular for the documented defaults. -/

/-- the conditions on the learning rates under which `C` stays positive semi-definite and the step-size
path is well defined (`0 < cs < 2`, `damps > 0`: no division by zero in `h_σ` and in the σ update) -/
structure RatesOk (p : Params ℝ) : Prop where
  c1 : 0 ≤ p.ccov1
  cmu : 0 ≤ p.ccovmu
  sum : p.ccov1 + p.ccovmu ≤ 1
  cc0 : 0 ≤ p.cc
  cc2 : p.cc ≤ 2
  w : ∀ i : Fin p.mu, 0 ≤ vget p.weights i.val
  cs0 : 0 < p.cs
  cs2 : p.cs < 2
  damps : 0 < p.damps

/-- what the next `update` relies on -/
structure Pre (s : State ℝ) : Prop where
  sigma_pos : 0 < s.sigma
  symm : ∀ a b : Fin s.dim, mget s.C a.val b.val = mget s.C b.val a.val
  psd : PSD s.dim s.C
  rates : RatesOk s.par

/-- the consistency clauses of the property on a stored state -/
structure Consistent (s : State ℝ) : Prop where
  sigma_pos : 0 < s.sigma
  symm : ∀ a b : Fin s.dim, mget s.C a.val b.val = mget s.C b.val a.val
  bdbd : ∀ a b : Fin s.dim, ∑ k : Fin s.dim, mget s.BD a.val k.val * mget s.BD b.val k.val = mget s.C a.val b.val
  bd2b : ∀ a b : Fin s.dim, ∑ k : Fin s.dim, mget s.B a.val k.val * (vget s.diagD k.val * vget s.diagD k.val)
      * mget s.B b.val k.val = mget s.C a.val b.val
  bd : ∀ a k : Fin s.dim, mget s.BD a.val k.val = mget s.B a.val k.val * vget s.diagD k.val
  rows : ∀ a b : Fin s.dim, ∑ k : Fin s.dim, mget s.B a.val k.val * mget s.B b.val k.val = if a = b then 1 else 0
  cols : ∀ k l : Fin s.dim, ∑ a : Fin s.dim, mget s.B a.val k.val * mget s.B a.val l.val = if k = l then 1 else 0

/-- the contract of the two numerical parameters for matrices of size `n`: on every symmetric matrix
`eigh` returns `n` eigenvalues and an orthonormal eigenvector matrix reconstructing it; `argsort`
returns a permutation of the positions -/
structure NumericsOk (n : Nat) (eigh : List (List ℝ) → List ℝ × List (List ℝ)) (argsort : List ℝ → List Nat) : Prop where
  eighOk : ∀ C : List (List ℝ), (∀ a b : Fin n, mget C a.val b.val = mget C b.val a.val) →
    EighContract n C (eigh C).1 (eigh C).2
  argsortOk : ∀ C : List (List ℝ), (argsort (eigh C).1).Perm (List.range n)

/-- **C_psd.**  The covariance update keeps `C` positive semi-definite. -/
theorem update_psd {K : Type} [LT K] [DecidableLT K]
    (eigh : List (List ℝ) → List ℝ × List (List ℝ)) (argsort : List ℝ → List Nat)
    (s : State ℝ) (pop : List (K × List ℝ)) (hpsd : PSD s.dim s.C) (hr : RatesOk s.par) :
    PSD s.dim (update eigh argsort s pop).C :=
  newC_psd s _ _ _ hpsd (k1_nonneg hr.c1 hr.sum hr.cc0 hr.cc2 (hsigOf_cases s _)) hr.c1 hr.cmu hr.w

/-- **update_consistent.**  One update of a state satisfying `Pre`, with numerics honouring their
contract, gives a state satisfying all consistency clauses, and `Pre` again. -/
theorem update_consistent {K : Type} [LT K] [DecidableLT K]
    (eigh : List (List ℝ) → List ℝ × List (List ℝ)) (argsort : List ℝ → List Nat)
    (s : State ℝ) (pop : List (K × List ℝ)) (hs : Pre s) (hn : NumericsOk s.dim eigh argsort) :
    Pre (update eigh argsort s pop) ∧ Consistent (update eigh argsort s pop) := by
  have hsym := update_C_symm eigh argsort s pop hs.symm
  have hpsd := update_psd eigh argsort s pop hs.psd hs.rates
  have hσ := sigma_pos eigh argsort s pop hs.sigma_pos
  have hc := hn.eighOk _ hsym
  have hw := eigvals_nonneg hc hpsd
  obtain ⟨h1, h2, h3, h4, h5⟩ := eig_reproduces eigh argsort s pop hc hw (hn.argsortOk _)
  exact ⟨⟨hσ, hsym, hpsd, hs.rates⟩, ⟨hσ, hsym, h1, h2, h3, h4, h5⟩⟩

/-- **history_consistent.**  After every update of every history (any populations, any number of
generations) started from a state satisfying `Pre`, the strategy state is consistent: σ > 0, C symmetric,
`BD·BDᵀ = C = B·diag(diagD²)·Bᵀ`, `B` orthogonal. -/
theorem history_consistent {K : Type} [LT K] [DecidableLT K]
    (eigh : List (List ℝ) → List ℝ × List (List ℝ)) (argsort : List ℝ → List Nat)
    (s : State ℝ) (hs : Pre s) (hn : NumericsOk s.dim eigh argsort)
    (pop : List (K × List ℝ)) (pops : List (List (K × List ℝ))) :
    Consistent ((pop :: pops).foldl (update eigh argsort) s) := by
  induction pops generalizing s pop with
  | nil => exact (update_consistent eigh argsort s pop hs hn).2
  | cons q qs ih =>
    have h := (update_consistent eigh argsort s pop hs hn).1
    simp only [List.foldl_cons]
    exact ih (update eigh argsort s pop) h hn q

/-- `__init__` establishes `Pre`: positive `sigma`, admissible rates, and a covariance matrix that is either
the default identity or a user-supplied symmetric positive semi-definite `cmatrix`. -/
theorem init_pre (eigh : List (List ℝ) → List ℝ × List (List ℝ)) (argsort : List ℝ → List Nat)
    (centroid : List ℝ) (sigma : ℝ) (o : Over ℝ) (hσ : 0 < sigma)
    (hcm : ∀ M, o.cmatrix = some M →
      (∀ a b : Fin centroid.length, mget M a.val b.val = mget M b.val a.val) ∧ PSD centroid.length M)
    (hr : RatesOk (init eigh argsort centroid sigma o).par) :
    Pre (init eigh argsort centroid sigma o) := by
  refine ⟨hσ, ?_, ?_, hr⟩
  · show ∀ a b : Fin centroid.length, mget (o.cmatrix.getD (identity centroid.length)) a.val b.val
        = mget (o.cmatrix.getD (identity centroid.length)) b.val a.val
    intro a b
    cases hM : o.cmatrix with
    | none => rw [Option.getD_none, identity_mget, identity_mget]; simp only [eq_comm]
    | some M => rw [Option.getD_some]; exact (hcm M hM).1 a b
  · show PSD centroid.length (o.cmatrix.getD (identity centroid.length))
    cases hM : o.cmatrix with
    | none => rw [Option.getD_none]; exact identity_psd _
    | some M => rw [Option.getD_some]; exact (hcm M hM).2

/-- a user-supplied SPD `cmatrix` satisfying the hypothesis of `init_pre`: `diag(1, 4)` -/
example : ∀ M, ({ cmatrix := some [[1, 0], [0, 4]] } : Over ℝ).cmatrix = some M →
    (∀ a b : Fin 2, mget M a.val b.val = mget M b.val a.val) ∧ PSD 2 M := by
  intro M hM
  simp only [Option.some.injEq] at hM
  subst hM
  refine ⟨?_, ?_⟩
  · intro a b; fin_cases a <;> fin_cases b <;> simp [mget, vget]
  · intro v
    simp only [Fin.sum_univ_two, mget, vget]
    norm_num
    nlinarith [mul_self_nonneg (v 0), mul_self_nonneg (v 1)]

/-- the hypotheses of `history_consistent` are satisfiable: the example state, and numerics that return
the (diagonal, already sorted) decomposition … of diagonal matrices; shown for the example matrix -/
example : Pre exState := by
  refine ⟨by norm_num [exState], ?_, ?_, ?_⟩
  · show ∀ a b : Fin 2, mget [[(1 : ℝ), 0], [0, 4]] a.val b.val = mget [[(1 : ℝ), 0], [0, 4]] b.val a.val
    intro a b; fin_cases a <;> fin_cases b <;> simp [mget, vget]
  · show ∀ v : Fin 2 → ℝ, 0 ≤ ∑ a : Fin 2, ∑ b : Fin 2, v a * mget [[(1 : ℝ), 0], [0, 4]] a.val b.val * v b
    intro v
    simp only [Fin.sum_univ_two, mget, vget]
    norm_num
    nlinarith [mul_self_nonneg (v 0), mul_self_nonneg (v 1)]
  · refine ⟨by norm_num [exState], by norm_num [exState], by norm_num [exState], by norm_num [exState],
      by norm_num [exState], ?_, by norm_num [exState], by norm_num [exState], by norm_num [exState]⟩
    show ∀ i : Fin 2, 0 ≤ vget [(3 / 4 : ℝ), 1 / 4] i.val
    intro i; fin_cases i <;> norm_num [vget]


/-- `NumericsOk` is satisfiable (dimension 1: a 1×1 matrix is its own eigenvalue, `V = (1)`) -/
example : NumericsOk 1 (fun C => ([mget C 0 0], [[1]])) (fun _ => [0]) := by
  refine ⟨?_, fun _ => by decide⟩
  intro C _
  refine ⟨?_, ?_⟩
  · intro k l; fin_cases k; fin_cases l; simp [mget, vget]
  · intro a b; fin_cases a; fin_cases b; simp [mget, vget]

/-- **numericsOk_satisfiable.**  For every dimension there are numerics honouring the contract (Mathlib's
spectral theorem for real symmetric matrices; `argsort` = the identity permutation), so the hypothesis of
`history_consistent` is satisfiable for every `n`. -/
theorem numericsOk_satisfiable (n : Nat) : NumericsOk n (eighSpectral n) (fun _ => List.range n) :=
  ⟨fun C hC => eighSpectral_contract n C hC, fun _ => List.Perm.refl _⟩

/-- **default_rates_ok.**  The documented default learning rates (any scheme, any `μ ≥ 1`, `N ≥ 1`) satisfy
the conditions `RatesOk` (in particular `0 < cs < 2` and `damps > 0`). -/
theorem default_rates_ok (dim lambda_ : Nat) (sch : Scheme) (mu : Option Nat) (hdim : 1 ≤ dim)
    (hmu : 1 ≤ (computeParams dim lambda_ ({ scheme := sch, mu := mu } : Over ℝ)).mu) :
    RatesOk (computeParams dim lambda_ ({ scheme := sch, mu := mu } : Over ℝ)) := by
  obtain ⟨hme, hcc, hcs, hc1, hcmu, hd⟩ := params_defaults dim lambda_ sch mu
  obtain ⟨hlen, hpos, hmono, hsum⟩ := weights_pos_noninc_sum1 dim lambda_ ({ scheme := sch, mu := mu } : Over ℝ) hmu
  set p := computeParams dim lambda_ ({ scheme := sch, mu := mu } : Over ℝ) with hp
  have hN : (1 : ℝ) ≤ (dim : ℝ) := by exact_mod_cast hdim
  -- mueff > 0
  have hW : p.weights = tab p.mu (vget p.weights) := (tab_vget p.weights hlen).symm
  have hsq : 0 < (p.weights.map (fun x => x ^ 2)).sum := by
    rw [hW, sq_sum_tab]
    have : Nonempty (Fin p.mu) := ⟨⟨0, hmu⟩⟩
    exact Finset.sum_pos (fun i _ => pow_pos (hpos i) 2) Finset.univ_nonempty
  have hme0 : 0 < p.mueff := by rw [hme]; exact one_div_pos.mpr hsq
  have hden1 : 2 ≤ ((dim : ℝ) + 13 / 10) ^ 2 + p.mueff := by nlinarith
  have hc1pos : 0 ≤ p.ccov1 := by rw [hc1]; positivity
  have hc1le : p.ccov1 ≤ 1 := by
    rw [hc1, div_le_one (by linarith)]; exact hden1
  have hnum : 0 ≤ p.mueff - 2 + 1 / p.mueff := by
    have : p.mueff - 2 + 1 / p.mueff = (p.mueff - 1) ^ 2 / p.mueff := by field_simp; ring
    rw [this]; positivity
  have hraw : 0 ≤ 2 * (p.mueff - 2 + 1 / p.mueff) / (((dim : ℝ) + 2) ^ 2 + p.mueff) := by positivity
  have hcs0 : 0 < p.cs := by rw [hcs]; positivity
  have hcs1 : p.cs < 2 := by
    rw [hcs, div_lt_iff₀ (by linarith)]; linarith
  refine ⟨hc1pos, ?_, ?_, ?_, ?_, fun i => (hpos i).le, hcs0, hcs1, ?_⟩
  · rw [hcmu]; exact le_min (by linarith) hraw
  · have : p.ccovmu ≤ 1 - p.ccov1 := by rw [hcmu]; exact min_le_left _ _
    linarith
  · rw [hcc]; positivity
  · rw [hcc, div_le_iff₀ (by linarith)]; linarith
  · rw [hd]
    have : 0 ≤ max 0 (√((p.mueff - 1) / ((dim : ℝ) + 1)) - 1) := le_max_left _ _
    linarith

example : 1 ≤ (computeParams 5 8 ({ scheme := .linear, mu := none } : Over ℝ)).mu := by
  show 1 ≤ 8 / 2
  decide

/-- **lambda_default.**  The default population size is `⌊4 + 3 ln N⌋` (cma.py:110) and at least 4. -/
theorem lambda_default (dim : Nat) (h : 1 ≤ dim) :
    defaultLambda ℝ dim = ⌊4 + 3 * Real.log dim⌋₊ ∧ 4 ≤ defaultLambda ℝ dim :=
  defaultLambda_eq dim h

example : (1 : Nat) ≤ 2 := by decide

/-! ### 9. Several strategies, the caller's parameter objects, and re-parameterisation

`Core/Cma.lean` (`World`, `Step`): a program holding several strategies and the objects it passed to their
constructors.  The theorems say that a strategy's trajectory is a function of ITS OWN history only and that no
step of the library changes a caller object.  They are immediate for a value-semantics model; their content is the
reading they fix for the correspondence stream `alias` of harness/props/c13.py, which runs the implementation with
shared / reused / caller-modified parameter objects and compares every strategy with its own separate replay. -/

/-- **update_frame.**  `strats[k].update(pop)` changes position `k` only: every other strategy, the number of
strategies and all parameter objects of the caller are what they were; position `k` holds `update` of its own
previous state. -/
theorem update_frame {α K : Type} [RealLike α] [LT K] [DecidableLT K]
    (eigh : List (List α) → List α × List (List α)) (argsort : List α → List Nat)
    (w : World α) (k : Nat) (pop : List (K × List α)) :
    let w' := Step.apply eigh argsort w (Step.update k pop)
    w'.args = w.args ∧ w'.strats.length = w.strats.length ∧
    (∀ j, j ≠ k → w'.strats[j]? = w.strats[j]?) ∧
    w'.strats[k]? = (w.strats[k]?).map (fun s => update eigh argsort s pop) := by
  intro w'
  refine ⟨rfl, ?_, ?_, ?_⟩
  · simp [w', Step.apply]
  · intro j hj
    simp only [w', Step.apply]
    exact List.getElem?_modify_ne _ _ (Ne.symm hj)
  · simp only [w', Step.apply]
    rw [List.getElem?_modify_eq]; rfl

/-- no step of the library changes a parameter object of the caller: only the caller's own `setArg` does -/
theorem args_frame {α K : Type} [RealLike α] [LT K] [DecidableLT K]
    (eigh : List (List α) → List α × List (List α)) (argsort : List α → List Nat)
    (w : World α) (steps : List (Step α K))
    (h : ∀ st ∈ steps, ∀ i a, st ≠ Step.setArg i a) :
    (runSteps eigh argsort w steps).args = w.args := by
  induction steps generalizing w with
  | nil => rfl
  | cons st rest ih =>
    simp only [runSteps, List.foldl_cons]
    have hrest : ∀ st ∈ rest, ∀ i a, st ≠ Step.setArg i a := fun s hs => h s (List.mem_cons_of_mem _ hs)
    have := ih (Step.apply eigh argsort w st) hrest
    simp only [runSteps] at this
    rw [this]
    cases st with
    | update k pop => rfl
    | relambda k lam o => rfl
    | setArg i a => exact absurd rfl (h _ List.mem_cons_self i a)
    | spawn i =>
      simp only [Step.apply]
      cases w.args[i]? <;> rfl

/-- no step removes a strategy -/
theorem step_length_le {α K : Type} [RealLike α] [LT K] [DecidableLT K]
    (eigh : List (List α) → List α × List (List α)) (argsort : List α → List Nat)
    (w : World α) (st : Step α K) : w.strats.length ≤ (Step.apply eigh argsort w st).strats.length := by
  cases st with
  | update k pop => simp [Step.apply]
  | relambda k lam o => simp [Step.apply]
  | setArg i a => simp [Step.apply]
  | spawn i =>
    simp only [Step.apply]
    cases w.args[i]? <;> simp

/-- one step, seen from strategy `j`: its own `onState` if the step addresses `j`, nothing otherwise -/
theorem step_local {α K : Type} [RealLike α] [LT K] [DecidableLT K]
    (eigh : List (List α) → List α × List (List α)) (argsort : List α → List Nat)
    (w : World α) (st : Step α K) (j : Nat) (hj : j < w.strats.length) :
    (Step.apply eigh argsort w st).strats[j]?
      = (w.strats[j]?).map (fun s => if st.touches j then st.onState eigh argsort s else s) := by
  have hsome : w.strats[j]? = some w.strats[j] := List.getElem?_eq_getElem hj
  cases st with
  | update k pop =>
    simp only [Step.apply, Step.touches, Step.onState, List.getElem?_modify, hsome]
    by_cases hk : k = j <;> simp [hk]
  | relambda k lam o =>
    simp only [Step.apply, Step.touches, Step.onState, List.getElem?_modify, hsome]
    by_cases hk : k = j <;> simp [hk]
  | setArg i a => simp [Step.apply, Step.touches, hsome]
  | spawn i =>
    simp only [Step.apply, Step.touches]
    cases w.args[i]? with
    | none => simp [hsome]
    | some a => simp [List.getElem?_append_left hj, hsome]

example : (1 : Nat) < ({ args := [], strats := [exState, exState] } : World ℝ).strats.length := by simp

/-- **strategies_independent.**  Whatever the program does — updates of the strategies in any interleaving,
re-parameterisations, the caller overwriting the objects he passed to the constructors, further strategies built
from those objects — the state of strategy `j` at the end is the result of applying, to ITS OWN initial state, the
steps addressed to `j`, in their order.  Steps addressed to other strategies, caller writes and restarts drop out. -/
theorem strategies_independent {α K : Type} [RealLike α] [LT K] [DecidableLT K]
    (eigh : List (List α) → List α × List (List α)) (argsort : List α → List Nat)
    (w : World α) (steps : List (Step α K)) (j : Nat) (hj : j < w.strats.length) :
    (runSteps eigh argsort w steps).strats[j]?
      = (w.strats[j]?).map (fun s =>
          (steps.filter (fun st => st.touches j)).foldl (fun s st => st.onState eigh argsort s) s) := by
  induction steps generalizing w with
  | nil => simp [runSteps]
  | cons st rest ih =>
    have hj' : j < (Step.apply eigh argsort w st).strats.length :=
      lt_of_lt_of_le hj (step_length_le eigh argsort w st)
    have h := ih (Step.apply eigh argsort w st) hj'
    simp only [runSteps, List.foldl_cons] at h ⊢
    rw [h, step_local eigh argsort w st j hj, List.getElem?_eq_getElem hj]
    by_cases ht : st.touches j = true
    · simp [List.filter_cons, ht]
    · simp [List.filter_cons, ht]

example : (0 : Nat) < ({ args := [], strats := [exState] } : World ℝ).strats.length := by simp

/-- **restart_fresh.**  A strategy built from parameter object `i` after the program has run (restart) starts
from exactly the state a strategy built from it at the beginning would have had, unless the CALLER overwrote an
object himself: `init` reads values, and nothing the library did in between changed them. -/
theorem restart_fresh {α K : Type} [RealLike α] [LT K] [DecidableLT K]
    (eigh : List (List α) → List α × List (List α)) (argsort : List α → List Nat)
    (w : World α) (steps : List (Step α K)) (i : Nat) (a : Args α)
    (h : ∀ st ∈ steps, ∀ i a, st ≠ Step.setArg i a) (ha : w.args[i]? = some a) :
    let w1 := runSteps eigh argsort w steps
    (Step.apply eigh argsort w1 (Step.spawn i : Step α K)).strats
      = w1.strats ++ [init eigh argsort a.centroid a.sigma a.o] := by
  intro w1
  have hargs : w1.args = w.args := args_frame eigh argsort w steps h
  simp only [Step.apply, hargs, ha]

example : ∀ st ∈ ([Step.update 0 exPop, Step.spawn 0] : List (Step ℝ Int)), ∀ i a, st ≠ Step.setArg i a := by
  intro st hst i a
  simp only [List.mem_cons, List.mem_nil_iff, or_false] at hst
  rcases hst with rfl | rfl <;> exact fun h => by cases h

/-- **computeParams_refresh.**  After `strategy.lambda_ = lam; strategy.computeParams(params)` the next update is
computed with the refreshed parameters only: it is the update of the state whose `mu`, weights, `mueff` and
learning rates are `computeParams dim lam params`, whatever parameters (and `lambda_`) the strategy had before —
no value derived from the old `lambda_` survives.  Under the guard the new covariance matrix is the published
expression with the refreshed `c_1`, `c_μ`, `c_c` and weights. -/
theorem computeParams_refresh {K : Type} [LT K] [DecidableLT K]
    (eigh : List (List ℝ) → List ℝ × List (List ℝ)) (argsort : List ℝ → List Nat)
    (s : State ℝ) (lam : Nat) (o : Over ℝ) (pop : List (K × List ℝ)) :
    let p := computeParams s.dim lam o
    let s1 := relambda s lam o
    let s' := update eigh argsort s1 pop
    s'.par = p ∧ s'.lambda_ = lam ∧
    (∀ (p0 : Params ℝ) (l0 : Nat),
      update eigh argsort (relambda { s with par := p0, lambda_ := l0 } lam o) pop = s') ∧
    (WellPosed s1 → ∑ i : Fin p.mu, vget p.weights i.val = 1 →
      ∀ a b : Fin s.dim,
        let xs := selectBest p.mu pop
        let r := updateSpec s1 xs
        mget s'.C a.val b.val
          = (1 - p.ccov1 - p.ccovmu) * mget s.C a.val b.val
            + p.ccov1 * (vget r.pc a.val * vget r.pc b.val + (1 - r.hsig) * p.cc * (2 - p.cc) * mget s.C a.val b.val)
            + p.ccovmu * ∑ i : Fin p.mu, vget p.weights i.val
                * ((mget xs i.val a.val - vget s.centroid a.val) / s.sigma
                   * ((mget xs i.val b.val - vget s.centroid b.val) / s.sigma))) := by
  intro p s1 s'
  refine ⟨rfl, rfl, fun _ _ => rfl, ?_⟩
  intro hwp hw a b xs r
  have h := (update_eq_published eigh argsort s1 pop hwp hw).2.2.2.1
  have hC : s'.C = r.C := h
  rw [hC]
  exact spec_C s1 xs a b

/-- the parameters of the example below: `mu = 2`, user-supplied `cs = 1/2`, `damps = 1` -/
noncomputable def exOver : Over ℝ := { mu := some 2, scheme := .equal, cs := some (1 / 2), damps := some 1 }

example : WellPosed (relambda exState 6 exOver) ∧
    ∑ i : Fin (computeParams exState.dim 6 exOver).mu, vget (computeParams exState.dim 6 exOver).weights i.val = 1 := by
  refine ⟨⟨by norm_num [relambda, exState], by norm_num [relambda, exState], ?_, ?_, ?_, ?_⟩, ?_⟩
  · show 0 < (computeParams exState.dim 6 exOver).cs
    norm_num [computeParams, exOver]
  · show (computeParams exState.dim 6 exOver).cs < 2
    norm_num [computeParams, exOver]
  · show (computeParams exState.dim 6 exOver).damps ≠ 0
    norm_num [computeParams, exOver]
  · show ∀ k : Fin 2, 0 < vget [(1 : ℝ), 2] k.val
    intro k; fin_cases k <;> norm_num [vget]
  · exact (weights_pos_noninc_sum1 exState.dim 6 exOver (by show 1 ≤ 2; decide)).2.2.2

end C13
