/-
C04 — Non-dominated sorting returns the exact Pareto ranking.
Property theorems only.  Models and spec: `DeapModel/Core/NDSort.lean`; lemmas: `DeapModel/Lemmas/C04*.lean`.

Reading guide
* spec: `peel domI pop` = the fronts obtained by repeatedly removing the non-dominated individuals,
  `depth domI pop x` = index of the front of `x`, `leading fronts k` = the leading fronts needed to
  reach `k` individuals.  An individual `⟨id, w⟩` carries its object identity, so a `List.Perm`
  between lists of individuals speaks about the very input objects and their multiplicity.
* model A `sortStd` (= `sortNondominated`): proved equal to the spec in full (A-theorems).
* certificate: `ranking_unique`, `checkRanking_sound` — what the driver's checker establishes for
  every complete output of the real procedures.
* model B `sortLog` (= `sortLogNondominated`): partition / grouping / truncation (`_partial`, for
  any scalar), termination (`sortLog_terminates`) and — over an ordered field, with at least two
  objectives — full correctness: `sortLog_eq_peel`, `sortLog_first_front_only`, and
  `sortLog_eq_sortStd`, which proves the formerly open `sortLog_eq_sortStd_Statement`.  The
  specifications of the helpers (`sweepA_correct`, `sweepB_correct`, `sortNDHelperB_correct`,
  `sortNDHelperA_correct`) are stated with `geOn n g f` / `domOn n g f` (g at least as good as /
  dominating f on objectives `0..n-1`) and `Raised R front f D`
  (`R f = max (front f) (1 + max {R g | D g})`).
-/
import DeapModel.Lemmas.C04Std
import DeapModel.Lemmas.C04Log
import DeapModel.Lemmas.C04Cert
import DeapModel.Lemmas.C04Term
import DeapModel.Lemmas.C04LogFinal
import Mathlib.Algebra.Order.Field.Rat

set_option linter.unusedSectionVars false
set_option linter.unusedSimpArgs false
set_option linter.unusedVariables false

namespace C04
open NDSort C04L

variable {α : Type} [LinearOrder α]

/-- population used to show that hypotheses are satisfiable: a duplicate pair, a dominated point,
a chain of length three (depths 0,0,0,1,2) -/
abbrev exPop : List (Ind Int) := [⟨0, [1, 2]⟩, ⟨1, [2, 1]⟩, ⟨2, [0, 0]⟩, ⟨3, [1, 2]⟩, ⟨4, [1, 1]⟩]

/-! ### Dominance and the specification -/

/-- Dominance between individuals (the loop of `Fitness.dominates`) means: nowhere worse on the
weighted values, somewhere strictly better. -/
theorem domI_iff (y x : Ind α) :
    domI y x = true ↔ (∀ p ∈ y.w.zip x.w, p.2 ≤ p.1) ∧ (∃ p ∈ y.w.zip x.w, p.2 < p.1) :=
  domW_iff y.w x.w

/-- On a population whose fitnesses all have `m` objectives dominance is a strict partial order. -/
theorem dominance_strict_partial_order (m : Nat) (pop : List (Ind α)) (hlen : ∀ x ∈ pop, x.w.length = m) :
    (∀ x ∈ pop, domI x x = false) ∧
    (∀ x ∈ pop, ∀ y ∈ pop, ∀ z ∈ pop, domI x y = true → domI y z = true → domI x z = true) :=
  ⟨(spo_domI m pop hlen).irrefl, (spo_domI m pop hlen).trans⟩

example : ∀ x ∈ exPop, x.w.length = 2 := by decide

/-- A finite strict partial order has a maximal element: every non-empty population has a
non-dominated individual.  (This is what makes the peeling terminate.) -/
theorem exists_nondominated (m : Nat) (pop : List (Ind α)) (hlen : ∀ x ∈ pop, x.w.length = m)
    (hne : pop ≠ []) : ∃ x ∈ pop, ∀ y ∈ pop, domI y x = false :=
  exists_maximal domI pop hne (spo_domI m pop hlen)

example : (∀ x ∈ exPop, x.w.length = 2) ∧ exPop ≠ [] := by decide

/-- The first front is the non-dominated set. -/
theorem mem_nondom_iff (pop : List (Ind α)) (x : Ind α) :
    x ∈ nondom domI pop ↔ x ∈ pop ∧ ∀ y ∈ pop, domI y x = false := mem_nondom

/-- `peel` really is "remove the non-dominated individuals, repeat" — no round of its bounded
recursion is wasted, because each round removes at least one individual. -/
theorem peel_unfold (m : Nat) (pop : List (Ind α)) (hlen : ∀ x ∈ pop, x.w.length = m) (hne : pop ≠ []) :
    peel domI pop = nondom domI pop :: peel domI (dominatedPart domI pop) ∧
    (dominatedPart domI pop).length < pop.length :=
  ⟨peel_eq hne (spo_domI m pop hlen), length_dominatedPart_lt hne (spo_domI m pop hlen)⟩

example : (∀ x ∈ exPop, x.w.length = 2) ∧ exPop ≠ [] := by decide

/-- The fronts of the spec partition the population: every individual lies in exactly one front
(as often as it is listed), and no front is empty. -/
theorem peel_partition (m : Nat) (pop : List (Ind α)) (hlen : ∀ x ∈ pop, x.w.length = m) :
    (peel domI pop).flatten.Perm pop ∧ ∀ f ∈ peel domI pop, f ≠ [] :=
  ⟨peel_flatten_perm pop (spo_domI m pop hlen), peel_fronts_ne_nil pop (spo_domI m pop hlen)⟩

example : ∀ x ∈ exPop, x.w.length = 2 := by decide

/-- Front `i` of the spec contains exactly the individuals of dominance depth `i`. -/
theorem peel_front_iff_depth (m : Nat) (pop : List (Ind α)) (hlen : ∀ x ∈ pop, x.w.length = m)
    (i : Nat) (f : List (Ind α)) (hf : (peel domI pop)[i]? = some f) (x : Ind α) :
    x ∈ f ↔ x ∈ pop ∧ depth domI pop x = i :=
  mem_peel_iff pop (spo_domI m pop hlen) i f hf x

example : (∀ x ∈ exPop, x.w.length = 2) ∧
    (peel domI exPop)[1]? = some [⟨4, [1, 1]⟩] := by decide

/-- Individuals with equal fitness have the same depth. -/
theorem equal_fitness_same_depth (m : Nat) (pop : List (Ind α)) (hlen : ∀ x ∈ pop, x.w.length = m)
    (x y : Ind α) (hx : x ∈ pop) (hy : y ∈ pop) (hw : x.w = y.w) :
    depth domI pop x = depth domI pop y :=
  depth_congr pop (spo_domI m pop hlen) x hx y hy (fun z => by simp [domI, hw])

example : (∀ x ∈ exPop, x.w.length = 2) ∧ (⟨0, [1, 2]⟩ : Ind Int) ∈ exPop ∧ (⟨3, [1, 2]⟩ : Ind Int) ∈ exPop := by
  decide

/-- What "the leading fronts needed to reach `k`" means: `leading fronts k` is a prefix of the
fronts, it holds at least `min k (total)` individuals, and without its last front it holds fewer
than `k`; for `k = 0` it is empty and for `k ≥ total` it is everything. -/
theorem leading_spec {β : Type} (fronts : List (List β)) (k : Nat) :
    leading fronts k <+: fronts ∧
    min k fronts.flatten.length ≤ (leading fronts k).flatten.length ∧
    (leading fronts k ≠ [] → (leading fronts k).dropLast.flatten.length < k) ∧
    leading fronts 0 = [] ∧
    ((∀ f ∈ fronts, f ≠ []) → fronts.flatten.length ≤ k → leading fronts k = fronts) :=
  ⟨leading_prefix fronts k, leading_enough fronts k, leading_minimal fronts k, leading_zero fronts,
   leading_all fronts k⟩

/-! ### A1: the quadratic procedure returns exactly the Pareto ranking -/

/-- **A1.**  For every non-empty population (all fitnesses with `m` objectives) and every `k`,
`sortNondominated(pop, k)` terminates and returns, front by front, the leading fronts of the
ranking by peeling needed to reach `k` (each front up to the order of its members; the members are
the input objects with their multiplicity). -/
theorem sortStd_eq_peel (pop : List (Ind α)) (hne : pop ≠ []) (m : Nat) (hlen : ∀ x ∈ pop, x.w.length = m)
    (k : Nat) :
    ∃ fronts, sortStd pop k false = some fronts ∧
      List.Forall₂ List.Perm fronts (leading (peel domI pop) k) := by
  by_cases hk : k = 0
  · subst hk; exact ⟨[], by simp [sortStd], by rw [leading_zero]; exact List.Forall₂.nil⟩
  · exact sortStd_full pop hne m hlen k hk

example : exPop ≠ [] ∧ (∀ x ∈ exPop, x.w.length = 2) ∧
    sortStd exPop 4 false = some [[⟨0, [1, 2]⟩, ⟨3, [1, 2]⟩, ⟨1, [2, 1]⟩], [⟨4, [1, 1]⟩]] := by decide

/-- Front `i` of the result contains exactly the individuals of dominance depth `i`. -/
theorem sortStd_front_iff_depth (pop : List (Ind α)) (hne : pop ≠ []) (m : Nat)
    (hlen : ∀ x ∈ pop, x.w.length = m) (k : Nat) (fronts : List (List (Ind α)))
    (h : sortStd pop k false = some fronts) (i : Nat) (f : List (Ind α)) (hf : fronts[i]? = some f)
    (x : Ind α) : x ∈ f ↔ x ∈ pop ∧ depth domI pop x = i := by
  obtain ⟨fr, h1, h2⟩ := sortStd_eq_peel pop hne m hlen k
  rw [h] at h1; cases h1
  obtain ⟨b, hb, hperm⟩ := forall₂_getElem? h2 i f hf
  have hb' := prefix_getElem? (leading_prefix _ _) i b hb
  rw [hperm.mem_iff]
  exact mem_peel_iff pop (spo_domI m pop hlen) i b hb' x

example : exPop ≠ [] ∧ (∀ x ∈ exPop, x.w.length = 2) ∧
    (∃ fr, sortStd exPop 4 false = some fr ∧ fr[1]? = some [⟨4, [1, 1]⟩]) := by decide

/-- Asked for at least as many individuals as there are, the fronts contain every input individual
exactly once and are the complete ranking. -/
theorem sortStd_every_individual_once (pop : List (Ind α)) (hne : pop ≠ []) (m : Nat)
    (hlen : ∀ x ∈ pop, x.w.length = m) (k : Nat) (hk : pop.length ≤ k) (fronts : List (List (Ind α)))
    (h : sortStd pop k false = some fronts) :
    fronts.flatten.Perm pop ∧ List.Forall₂ List.Perm fronts (peel domI pop) := by
  obtain ⟨fr, h1, h2⟩ := sortStd_eq_peel pop hne m hlen k
  rw [h] at h1; cases h1
  have hS := spo_domI m pop hlen
  have hall : leading (peel domI pop) k = peel domI pop :=
    leading_all _ k (peel_fronts_ne_nil pop hS) (by rw [(peel_flatten_perm pop hS).length_eq]; exact hk)
  rw [hall] at h2
  exact ⟨(forall₂_perm_flatten h2).trans (peel_flatten_perm pop hS), h2⟩

example : exPop ≠ [] ∧ (∀ x ∈ exPop, x.w.length = 2) ∧ exPop.length ≤ 5 ∧
    (sortStd exPop 5 false).isSome = true := by decide

/-- For every `k` the returned individuals are input individuals, none more often than listed in
the input (a sub-permutation), at least `min k n` of them, and fewer than `k` without the last front. -/
theorem sortStd_subperm (pop : List (Ind α)) (hne : pop ≠ []) (m : Nat)
    (hlen : ∀ x ∈ pop, x.w.length = m) (k : Nat) (fronts : List (List (Ind α)))
    (h : sortStd pop k false = some fronts) :
    fronts.flatten.Subperm pop ∧ min k pop.length ≤ fronts.flatten.length ∧
    (fronts ≠ [] → fronts.dropLast.flatten.length < k) := by
  obtain ⟨fr, h1, h2⟩ := sortStd_eq_peel pop hne m hlen k
  rw [h] at h1; cases h1
  have hS := spo_domI m pop hlen
  have hfl := forall₂_perm_flatten h2
  refine ⟨?_, ?_, ?_⟩
  · have hsub := prefix_flatten_sublist (leading_prefix (peel domI pop) k)
    exact hfl.subperm.trans (hsub.subperm.trans (peel_flatten_perm pop hS).subperm)
  · have := leading_enough (peel domI pop) k
    rw [(peel_flatten_perm pop hS).length_eq] at this
    rw [hfl.length_eq]; exact this
  · intro hne'
    have hlen2 := h2.length_eq
    have hne2 : leading (peel domI pop) k ≠ [] := by
      intro e; rw [e] at hlen2; exact hne' (List.eq_nil_of_length_eq_zero (by simpa using hlen2))
    have hmin := leading_minimal (peel domI pop) k hne2
    have hdl : List.Forall₂ List.Perm fronts.dropLast (leading (peel domI pop) k).dropLast := by
      rw [List.dropLast_eq_take, List.dropLast_eq_take, hlen2]
      exact List.forall₂_take _ h2
    rw [(forall₂_perm_flatten hdl).length_eq]; exact hmin

example : exPop ≠ [] ∧ (∀ x ∈ exPop, x.w.length = 2) ∧ (sortStd exPop 2 false).isSome = true := by decide

/-- Individuals with equal fitness are always in the same returned front. -/
theorem sortStd_equal_fitness_same_front (pop : List (Ind α)) (hne : pop ≠ []) (m : Nat)
    (hlen : ∀ x ∈ pop, x.w.length = m) (k : Nat) (fronts : List (List (Ind α)))
    (h : sortStd pop k false = some fronts) (f : List (Ind α)) (hf : f ∈ fronts)
    (x y : Ind α) (hx : x ∈ pop) (hy : y ∈ pop) (hw : x.w = y.w) : x ∈ f ↔ y ∈ f := by
  obtain ⟨i, hi⟩ := List.mem_iff_getElem?.1 hf
  rw [sortStd_front_iff_depth pop hne m hlen k fronts h i f hi x,
    sortStd_front_iff_depth pop hne m hlen k fronts h i f hi y,
    equal_fitness_same_depth m pop hlen x y hx hy hw]
  simp [hx, hy]

example : exPop ≠ [] ∧ (∀ x ∈ exPop, x.w.length = 2) ∧ (⟨0, [1, 2]⟩ : Ind Int) ∈ exPop ∧
    (⟨3, [1, 2]⟩ : Ind Int) ∈ exPop := by decide

/-- `k = 0`: no fronts, whatever the flag. -/
theorem sortStd_zero (pop : List (Ind α)) (ffo : Bool) : sortStd pop 0 ffo = some [] := by
  simp [sortStd]

/-- `first_front_only=True` (and `k > 0`): exactly one front, the non-dominated set. -/
theorem sortStd_first_front_only (pop : List (Ind α)) (m : Nat) (hlen : ∀ x ∈ pop, x.w.length = m)
    (k : Nat) (hk : k ≠ 0) :
    ∃ front, sortStd pop k true = some [front] ∧ front.Perm (nondom domI pop) :=
  sortStd_first pop m hlen k hk

example : (∀ x ∈ exPop, x.w.length = 2) ∧ (4 : Nat) ≠ 0 ∧
    sortStd exPop 4 true = some [[⟨0, [1, 2]⟩, ⟨3, [1, 2]⟩, ⟨1, [2, 1]⟩]] := by decide

/-! ### B4: the certificate -/

/-- **B4.**  On a strict partial order, a rank function satisfies the two local conditions
(every dominator has a strictly smaller rank; every element of positive rank has a dominator
exactly one rank below) if and only if it is the dominance depth. -/
theorem ranking_unique {β : Type} [DecidableEq β] (dom : β → β → Bool) (S : List β)
    (hirr : ∀ x ∈ S, dom x x = false)
    (htr : ∀ x ∈ S, ∀ y ∈ S, ∀ z ∈ S, dom x y = true → dom y z = true → dom x z = true)
    (r : β → Nat) :
    ((∀ x ∈ S, ∀ y ∈ S, dom y x = true → r y < r x) ∧
     (∀ x ∈ S, 0 < r x → ∃ y ∈ S, dom y x = true ∧ r y + 1 = r x)) ↔
    ∀ x ∈ S, r x = depth dom S x := by
  have hS : SPO dom S := ⟨hirr, htr⟩
  constructor
  · rintro ⟨h1, h2⟩
    exact cert_unique r (depth dom S) h1 h2 (depth_lt_of_dom S hS) (depth_pred S hS)
  · intro h
    refine ⟨fun x hx y hy hd => ?_, fun x hx hp => ?_⟩
    · rw [h x hx, h y hy]; exact depth_lt_of_dom S hS x hx y hy hd
    · rw [h x hx] at hp
      obtain ⟨y, hy, hd, he⟩ := depth_pred S hS x hx hp
      exact ⟨y, hy, hd, by rw [h x hx, h y hy]; exact he⟩

example : (∀ x ∈ exPop, domI x x = false) ∧
    (∀ x ∈ exPop, ∀ y ∈ exPop, ∀ z ∈ exPop, domI x y = true → domI y z = true → domI x z = true) := by
  decide

/-- The executable checker decides exactly the left-hand side of `ranking_unique`. -/
theorem checkCert_correct {β : Type} [DecidableEq β] (dom : β → β → Bool) (S : List β) (r : β → Nat) :
    checkCert dom S r = true ↔
      (∀ x ∈ S, ∀ y ∈ S, dom y x = true → r y < r x) ∧
      (∀ x ∈ S, 0 < r x → ∃ y ∈ S, dom y x = true ∧ r y + 1 = r x) :=
  checkCert_iff dom S r

/-- Soundness of `checkRanking`, which the driver runs on every complete output of the real
`sortNondominated` and `sortLogNondominated`: if it accepts a list of fronts for a population of
distinct individuals, these fronts are, front by front, the Pareto ranking by peeling — hence
(`sortStd_every_individual_once`) what the quadratic procedure returns. -/
theorem checkRanking_sound (m : Nat) (pop : List (Ind α)) (hlen : ∀ x ∈ pop, x.w.length = m)
    (hnd : pop.Nodup) (fronts : List (List (Ind α))) (h : checkRanking domI pop fronts = true) :
    List.Forall₂ List.Perm fronts (peel domI pop) :=
  checkRanking_sound_aux domI pop hnd (spo_domI m pop hlen) fronts h

example : (∀ x ∈ exPop, x.w.length = 2) ∧ exPop.Nodup ∧
    checkRanking domI exPop [[⟨1, [2, 1]⟩, ⟨3, [1, 2]⟩, ⟨0, [1, 2]⟩], [⟨4, [1, 1]⟩], [⟨2, [0, 0]⟩]] = true ∧
    checkRanking domI exPop [[⟨1, [2, 1]⟩, ⟨3, [1, 2]⟩, ⟨0, [1, 2]⟩], [⟨4, [1, 1]⟩, ⟨2, [0, 0]⟩]] = false := by
  decide

/-! ### Model B (`sortLogNondominated`): what is proved in general -/

section ModelB
variable [Add α] [Neg α] [Inhabited α]

/-- The log-time procedure's own dominance test is the dominance of C01 with swapped arguments. -/
theorem isDominated_eq_domW (w1 w2 : List α) : isDominated w1 w2 = domW w2 w1 := by
  have gen : ∀ (a b : List α) (ne : Bool), isDominatedLoop a b ne = Fitness.dominatesLoop b a ne := by
    intro a
    induction a with
    | nil => intro b ne; cases b <;> simp [isDominatedLoop, Fitness.dominatesLoop]
    | cons x xs ih =>
      intro b ne
      cases b with
      | nil => simp [isDominatedLoop, Fitness.dominatesLoop]
      | cons y ys =>
        simp only [isDominatedLoop, Fitness.dominatesLoop]
        by_cases h1 : y < x
        · simp [h1, not_lt_of_gt h1]
        · by_cases h2 : x < y
          · simp [h1, h2, ih]
          · simp [h1, h2, ih]
  exact gen w1 w2 false

/-- **B2 (partial: structural facts for any scalar type).**  Whenever model B finishes (its result is
`some`), asked for at least `n` individuals it returns every input individual exactly once, and for
every `k` each returned front is closed under "equal weighted values".  This needs nothing about the
ranks computed by the divide-and-conquer helpers; that they are the dominance depths (and that the
model always finishes) is proved for ordered fields in `sortLog_eq_peel` / `sortLog_terminates`
below. -/
theorem sortLog_partition_partial (pop : List (Ind α)) (k : Nat) (fronts : List (List (Ind α)))
    (h : sortLog pop k = some fronts) :
    (pop.length ≤ k → k ≠ 0 → fronts.flatten.Perm pop) ∧
    (∀ F ∈ fronts, ∀ x ∈ pop, ∀ y ∈ pop, x.w = y.w → (x ∈ F ↔ y ∈ F)) ∧
    fronts.flatten.Subperm pop := by
  by_cases hk : k = 0
  · subst hk
    simp only [sortLog, ↓reduceIte, Option.some.injEq] at h; subst h
    simp
  · simp only [sortLog, hk, ↓reduceIte, Option.map_eq_some_iff] at h
    obtain ⟨⟨fs, front, uf⟩, hr, rfl⟩ := h
    obtain ⟨p1, p2⟩ := logRanks_partition pop fs front uf hr
    rw [show logTruncate (logFronts fs front uf) k = leading (logFronts fs front uf) k from
      logTruncate_eq_leading _ k hk]
    have hsub := prefix_flatten_sublist (leading_prefix (logFronts fs front uf) k)
    refine ⟨?_, ?_, hsub.subperm.trans p1.subperm⟩
    · intro hn _
      -- enough individuals requested: nothing is cut
      have henough := leading_enough (logFronts fs front uf) k
      rw [p1.length_eq, Nat.min_eq_right hn] at henough
      have hle := hsub.length_le
      rw [p1.length_eq] at hle
      have : (leading (logFronts fs front uf) k).flatten = (logFronts fs front uf).flatten :=
        hsub.eq_of_length (by have := p1.length_eq; omega)
      rw [this]; exact p1
    · intro F hF
      exact p2 F ((leading_prefix _ _).subset hF)

example : sortLog ([⟨0, [1, 2]⟩, ⟨1, [0, 0]⟩] : List (Ind Int)) 2 = some [[⟨0, [1, 2]⟩], [⟨1, [0, 0]⟩]] := by
  simp [sortLog, logRanks, dset, dget, dkeys, dvalues, helperA, logFronts, logTruncate, logTruncate.go,
    List.modify, List.mergeSort, Py.tupleLt, isDominated, isDominatedLoop, bump]

/-- **B3 (partial: any scalar type).**  The truncation of model B returns the leading fronts (of whatever fronts its
ranks define) needed to reach `k`, none for `k = 0`; with `first_front_only` the first front. -/
theorem sortLog_truncation_partial (pop : List (Ind α)) (k : Nat) :
    sortLog pop 0 = some [] ∧ sortLogFirst pop 0 = some [] ∧
    (k ≠ 0 → sortLog pop k =
      (logRanks pop).map fun r => leading (logFronts r.1 r.2.1 r.2.2) k) ∧
    (k ≠ 0 → sortLogFirst pop k = (logRanks pop).map fun r => (logFronts r.1 r.2.1 r.2.2).headD []) := by
  refine ⟨by simp [sortLog], by simp [sortLogFirst], fun hk => ?_, fun hk => ?_⟩
  · simp only [sortLog, hk, ↓reduceIte]
    cases logRanks pop with
    | none => rfl
    | some r => obtain ⟨a, b, c⟩ := r; exact congrArg some (logTruncate_eq_leading _ k hk)
  · simp only [sortLogFirst, hk, ↓reduceIte]

/-- The agreement statement: the divide-and-conquer procedure produces the same ranking as the
quadratic one (front by front, up to order inside the fronts).  Proved below for every ordered
field as `sortLog_eq_sortStd`. -/
def sortLog_eq_sortStd_Statement : Prop :=
  ∀ (pop : List (Ind α)) (m : Nat), 2 ≤ m → pop ≠ [] → (∀ x ∈ pop, x.w.length = m) →
    ∀ k, ∃ fa fb, sortStd pop k false = some fa ∧ sortLog pop k = some fb ∧
      List.Forall₂ List.Perm fb fa

end ModelB

section Termination
variable {𝕜 : Type} [Field 𝕜] [LinearOrder 𝕜] [IsStrictOrderedRing 𝕜] [Inhabited 𝕜]

/-- **B1.**  Over an ordered field, model B finishes on every non-empty population whose fitnesses
have `m ≥ 2` objectives: neither `sortNDHelperA` nor `sortNDHelperB` ever receives back from
`splitA` / `splitB` the lists it passed in (the balance argument: the median lies between two
elements, so an empty side can only be chosen when the objective is constant, which the callers
exclude), and the objective index never falls below 1.  In Python this is "no infinite recursion". -/
theorem sortLog_terminates (pop : List (Ind 𝕜)) (m : Nat) (hm : 2 ≤ m) (hne : pop ≠ [])
    (hlen : ∀ x ∈ pop, x.w.length = m) (k : Nat) :
    (sortLog pop k).isSome = true ∧ (sortLogFirst pop k).isSome = true :=
  sortLog_isSome pop m hm hne hlen k

example : (2 : Nat) ≤ 2 ∧ ([⟨0, [1, 2]⟩, ⟨1, [2, 1]⟩, ⟨2, [0, 0]⟩] : List (Ind ℚ)) ≠ [] ∧
    ∀ x ∈ ([⟨0, [1, 2]⟩, ⟨1, [2, 1]⟩, ⟨2, [0, 0]⟩] : List (Ind ℚ)), x.w.length = 2 := by decide

end Termination

section Correctness
variable {𝕜 : Type} [Field 𝕜] [LinearOrder 𝕜] [IsStrictOrderedRing 𝕜] [Inhabited 𝕜]

/-- **`sweepA`.**  On a list strictly decreasing in the lexicographic order of the first two
objectives, every fitness ends with `max(old rank, 1 + max final rank of its dominators in the
list)` (dominance on objectives 0 and 1); entries of other fitnesses are untouched. -/
theorem sweepA_correct (S : List (List 𝕜)) (front : FrontDict 𝕜) (hs : S.Pairwise lex2) :
    (∀ f, f ∉ S → dget (sweepA S front) 0 f = dget front 0 f) ∧
    ∀ f ∈ S, Raised (fun f => dget (sweepA S front) 0 f) (fun f => dget front 0 f) f
      (fun g => g ∈ S ∧ domOn 2 g f) :=
  sweepA_spec S front hs

example : ([[3, 1], [2, 5], [2, 4]] : List (List ℚ)).Pairwise lex2 := by
  simp [lex2, nth]; decide

/-- **`sweepB`.**  `best` and `worst` weakly descending on the first two objectives, disjoint,
`worst` without repetition: every fitness `w` of `worst` ends with
`max(old rank, 1 + max old rank of the fitnesses of best at least as good as w on objectives 0, 1)`. -/
theorem sweepB_correct (best worst : List (List 𝕜)) (front : FrontDict 𝕜)
    (hbest : best.Pairwise ge2w) (hworst : worst.Pairwise ge2w) (hnd : worst.Nodup)
    (hlenb : ∀ b ∈ best, 2 ≤ b.length) (hlenw : ∀ w ∈ worst, 2 ≤ w.length)
    (hdisj : ∀ b ∈ best, b ∉ worst) :
    (∀ f, f ∉ worst → dget (sweepB best worst front) 0 f = dget front 0 f) ∧
    ∀ w ∈ worst, ∀ n, dget (sweepB best worst front) 0 w ≤ n ↔
      dget front 0 w ≤ n ∧ ∀ b ∈ best, geOn 2 b w → dget front 0 b + 1 ≤ n :=
  sweepB_spec best worst front hbest hworst hnd hlenb hlenw hdisj

example : ([[3, 1], [2, 5]] : List (List ℚ)).Pairwise ge2w ∧ ([[2, 4]] : List (List ℚ)).Pairwise ge2w ∧
    ([[2, 4]] : List (List ℚ)).Nodup ∧ (∀ b ∈ ([[3, 1], [2, 5]] : List (List ℚ)), b ∉ ([[2, 4]] : List (List ℚ))) := by
  refine ⟨by simp [ge2w, nth]; decide, by simp, by simp, by decide⟩

/-- **`sortNDHelperB`.**  For fitnesses of one length `m`, both lists strictly descending
lexicographically and disjoint, `1 ≤ obj < m`: whenever the helper finishes, every `w` of `worst`
ends with `max(old rank, 1 + max old rank of the fitnesses of best at least as good as w on the
objectives 0..obj)`, nothing else changes (`BSpec`). -/
theorem sortNDHelperB_correct (m : Nat) (best worst : List (List 𝕜)) (obj : Nat) (front front' : FrontDict 𝕜)
    (hlb : ∀ b ∈ best, b.length = m) (hlw : ∀ w ∈ worst, w.length = m) (hobj : obj < m) (ho : 1 ≤ obj)
    (hb : best.Pairwise lexDesc) (hw : worst.Pairwise lexDesc) (hdisj : ∀ b ∈ best, b ∉ worst)
    (h : helperB best worst obj front = some front') :
    (∀ f, f ∉ worst → dget front' 0 f = dget front 0 f) ∧
    ∀ w ∈ worst, ∀ n, dget front' 0 w ≤ n ↔
      dget front 0 w ≤ n ∧ ∀ b ∈ best, geOn (obj + 1) b w → dget front 0 b + 1 ≤ n :=
  helperB_spec m best worst obj front hlb hlw hobj ho hb hw hdisj front' h

/-- **`sortNDHelperA`.**  For a strictly descending list of fitnesses of length `m` that agree on
all objectives above `obj` (`1 ≤ obj < m`): whenever the helper finishes, every fitness ends with
`max(old rank, 1 + max final rank of its dominators in the list)` w.r.t. objectives `0..obj`,
nothing else changes (`ASpec`). -/
theorem sortNDHelperA_correct (m : Nat) (fits : List (List 𝕜)) (obj : Nat) (front front' : FrontDict 𝕜)
    (hl : ∀ f ∈ fits, f.length = m) (hobj : obj < m) (ho : 1 ≤ obj) (hs : fits.Pairwise lexDesc)
    (hagree : ∀ a ∈ fits, ∀ b ∈ fits, ∀ i, obj < i → i < m → nth a i = nth b i)
    (h : helperA fits obj front = some front') :
    (∀ f, f ∉ fits → dget front' 0 f = dget front 0 f) ∧
    ∀ f ∈ fits, Raised (fun f => dget front' 0 f) (fun f => dget front 0 f) f
      (fun g => g ∈ fits ∧ domOn (obj + 1) g f) :=
  helperA_spec m fits obj front hl hobj ho hs hagree front' h

example : (∀ f ∈ ([[3, 1, 0], [2, 5, 0]] : List (List ℚ)), f.length = 3) ∧
    ([[3, 1, 0], [2, 5, 0]] : List (List ℚ)).Pairwise lexDesc ∧
    (∀ a ∈ ([[3, 1, 0], [2, 5, 0]] : List (List ℚ)), ∀ b ∈ ([[3, 1, 0], [2, 5, 0]] : List (List ℚ)),
      ∀ i, 1 < i → i < 3 → nth a i = nth b i) := by
  refine ⟨by decide, by simp [lexDesc, Py.tupleLt]; decide, ?_⟩
  intro a ha b hb i h1 h3
  have : i = 2 := by omega
  subst this
  simp at ha hb
  rcases ha with rfl | rfl <;> rcases hb with rfl | rfl <;> simp [nth]

/-- **Model B is correct.**  For every non-empty population whose fitnesses have `m ≥ 2` objectives
and every `k`, `sortLogNondominated(pop, k)` terminates and returns, front by front (each front up
to the order of its members, the members being the input objects with their multiplicity), the
leading fronts of the ranking by peeling needed to reach `k`. -/
theorem sortLog_eq_peel (pop : List (Ind 𝕜)) (m : Nat) (hm : 2 ≤ m) (hne : pop ≠ [])
    (hlen : ∀ x ∈ pop, x.w.length = m) (k : Nat) :
    ∃ fronts, sortLog pop k = some fronts ∧ List.Forall₂ List.Perm fronts (leading (peel domI pop) k) :=
  C04L.sortLog_eq_peel pop m hm hne hlen k

example : (2 : Nat) ≤ 2 ∧ ([⟨0, [1, 2]⟩, ⟨1, [2, 1]⟩, ⟨2, [0, 0]⟩] : List (Ind ℚ)) ≠ [] ∧
    ∀ x ∈ ([⟨0, [1, 2]⟩, ⟨1, [2, 1]⟩, ⟨2, [0, 0]⟩] : List (Ind ℚ)), x.w.length = 2 := by decide

/-- Front `i` returned by `sortLogNondominated` contains exactly the individuals of depth `i`. -/
theorem sortLog_front_iff_depth (pop : List (Ind 𝕜)) (m : Nat) (hm : 2 ≤ m) (hne : pop ≠ [])
    (hlen : ∀ x ∈ pop, x.w.length = m) (k : Nat) (fronts : List (List (Ind 𝕜)))
    (h : sortLog pop k = some fronts) (i : Nat) (f : List (Ind 𝕜)) (hf : fronts[i]? = some f)
    (x : Ind 𝕜) : x ∈ f ↔ x ∈ pop ∧ depth domI pop x = i := by
  obtain ⟨fr, h1, h2⟩ := sortLog_eq_peel pop m hm hne hlen k
  rw [h] at h1; cases h1
  obtain ⟨b, hb, hperm⟩ := forall₂_getElem? h2 i f hf
  have hb' := prefix_getElem? (leading_prefix _ _) i b hb
  rw [hperm.mem_iff]
  exact mem_peel_iff pop (spo_domI m pop hlen) i b hb' x

example : (2 : Nat) ≤ 2 ∧ ([⟨0, [1, 2]⟩, ⟨1, [0, 0]⟩] : List (Ind ℚ)) ≠ [] ∧
    sortLog ([⟨0, [1, 2]⟩, ⟨1, [0, 0]⟩] : List (Ind ℚ)) 2 = some [[⟨0, [1, 2]⟩], [⟨1, [0, 0]⟩]] := by
  refine ⟨by decide, by simp, ?_⟩
  simp [sortLog, logRanks, dset, dget, dkeys, dvalues, helperA, logFronts, logTruncate, logTruncate.go,
    List.modify, List.mergeSort, Py.tupleLt, isDominated, isDominatedLoop, bump]

/-- `first_front_only=True` (and `k > 0`): the log-time procedure returns the non-dominated set. -/
theorem sortLog_first_front_only (pop : List (Ind 𝕜)) (m : Nat) (hm : 2 ≤ m) (hne : pop ≠ [])
    (hlen : ∀ x ∈ pop, x.w.length = m) (k : Nat) (hk : k ≠ 0) :
    ∃ front, sortLogFirst pop k = some front ∧ front.Perm (nondom domI pop) :=
  sortLogFirst_eq_nondom pop m hm hne hlen k hk

example : (2 : Nat) ≤ 2 ∧ (3 : Nat) ≠ 0 ∧ ([⟨0, [1, 2]⟩, ⟨1, [2, 1]⟩] : List (Ind ℚ)) ≠ [] := by decide

/-- **The two procedures always produce the same ranking** (`sortLog_eq_sortStd_Statement`, now a
theorem over every ordered field). -/
theorem sortLog_eq_sortStd : sortLog_eq_sortStd_Statement (α := 𝕜) := by
  intro pop m hm hne hlen k
  obtain ⟨fa, ha1, ha2⟩ := sortStd_eq_peel pop hne m hlen k
  obtain ⟨fb, hb1, hb2⟩ := sortLog_eq_peel pop m hm hne hlen k
  exact ⟨fa, fb, ha1, hb1, forall₂_perm_trans hb2 (forall₂_perm_symm ha2)⟩

/-- The 2-objective case, where `sortNDHelperA` reaches `sweepA` directly. -/
theorem sortLog_eq_sortStd_2obj (pop : List (Ind 𝕜)) (hne : pop ≠ []) (hlen : ∀ x ∈ pop, x.w.length = 2)
    (k : Nat) : ∃ fa fb, sortStd pop k false = some fa ∧ sortLog pop k = some fb ∧
      List.Forall₂ List.Perm fb fa :=
  sortLog_eq_sortStd pop 2 (le_refl 2) hne hlen k

example : ([⟨0, [1, 2]⟩, ⟨1, [2, 1]⟩, ⟨2, [0, 0]⟩] : List (Ind ℚ)) ≠ [] ∧
    ∀ x ∈ ([⟨0, [1, 2]⟩, ⟨1, [2, 1]⟩, ⟨2, [0, 0]⟩] : List (Ind ℚ)), x.w.length = 2 := by decide

end Correctness

end C04
