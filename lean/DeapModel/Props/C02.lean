/-
C02 — Variation never touches parents and never leaves a stale fitness.
Property theorems only; the model is `DeapModel/Core/Variation.lean` (`varAnd`, `varOr` of
`deap/algorithms.py`), helper lemmas are in `DeapModel/Lemmas/C02.lean`.

Every theorem is for ALL populations (any length, repeated oids allowed), ALL decision tapes, ALL
operator states and ALL operator pairs meeting `OpContract` (an operator returns the individuals it
was given and writes no other object).  "The input list itself is unchanged" holds by construction:
`pop` is an immutable argument of the model, never part of the state that is written.

Reading of the clauses in the model:
* "never modify any individual of the population"    → `*_parents_unchanged` (every oid allocated
  before the call — in particular every input — has the same genome and fitness afterwards);
* "exactly the requested number of offspring"        → `*_count`;
* "each an object independent of every input"        → `*_fresh`, `*_not_input`, `*_distinct`
  (every returned oid was allocated during the call, so it is no input and no other pre-existing
  object, and the returned oids are pairwise distinct);
* "went through crossover or mutation ⇒ invalid"     → `*_touched_invalid`;
* "valid fitness ⇒ genotype and fitness of an input" → `*_valid_is_parent_copy`.
-/
import DeapModel.Lemmas.C02

namespace C02
open Variation

variable {σ : Type} {ops : Ops σ}

/-! ## Concrete instances used by the `example`s -/

/-- One-point-like crossover exchanging the tails, and a mutation negating every gene. -/
def demoOps : Ops Unit where
  mate := fun t h a b =>
    ⟨t, (h.set a { h a with genome := (h a).genome.take 1 ++ (h b).genome.drop 1 }).set b
          { h b with genome := (h b).genome.take 1 ++ (h a).genome.drop 1 }, a, b⟩
  mutate := fun t h a => ⟨t, h.set a { h a with genome := (h a).genome.map (fun x => -x) }, a⟩

theorem demoOps_contract : OpContract demoOps where
  mate_fst := fun _ _ _ _ => rfl
  mate_snd := fun _ _ _ _ => rfl
  mate_frame := fun _ h a b o ha hb => by simp [demoOps, Heap.set, ha, hb]
  mutate_ret := fun _ _ _ => rfl
  mutate_frame := fun _ h a o ha => by simp [demoOps, Heap.set, ha]

/-- Three individuals: evaluated, unevaluated, evaluated (a mixed population). -/
def demoHeap : Heap := fun o =>
  match o with
  | 0 => ⟨[1, 2, 3], some [10]⟩
  | 1 => ⟨[4, 5, 6], none⟩
  | 2 => ⟨[7, 8, 9], some [30]⟩
  | _ => ⟨[], none⟩

def demoSt : St := { heap := demoHeap, next := 3 }

/-- `varAnd` on `[0, 1, 2]`: the pair (0,1) is mated, nobody is mutated, individual 2 is reproduced.
`varOr` with λ = 3: crossover of positions 0,2; mutation of position 1; reproduction of position 2. -/
def demoAnd : Option (Res Unit) := varAnd demoOps () demoSt [0, 1, 2] [true] [false, false, false]
def demoOr : Option (Res Unit) :=
  varOr demoOps () demoSt [0, 1, 2] 3 [Choice.cx 0 2, Choice.mutn 1, Choice.rep 2]

example : (∀ p ∈ [0, 1, 2], p < demoSt.next) := by decide
example : demoAnd.map (·.off) = some [3, 4, 5] := by decide
example : demoAnd.map (fun r => [3, 4, 5].map r.st.heap) =
    some [⟨[1, 5, 6], none⟩, ⟨[4, 2, 3], none⟩, ⟨[7, 8, 9], some [30]⟩] := by decide
example : demoAnd.map (fun r => [0, 1, 2].map r.st.heap) = some ([0, 1, 2].map demoHeap) := by decide
example : demoOr.map (·.off) = some [3, 5, 6] := by decide
example : demoOr.map (fun r => [3, 5, 6].map r.st.heap) =
    some [⟨[1, 8, 9], none⟩, ⟨[-4, -5, -6], none⟩, ⟨[7, 8, 9], some [30]⟩] := by decide
example : demoOr.map (fun r => [0, 1, 2].map r.st.heap) = some ([0, 1, 2].map demoHeap) := by decide
/-- the same object repeated in the population: still three distinct fresh offspring -/
example : (varAnd demoOps () demoSt [0, 0, 0] [false] [false, true, false]).map (·.off) = some [3, 4, 5] := by
  decide

/-! ## varAnd -/

/-- Shape of the result: the offspring are the clones made on line 68, in order — the oids
`s.next, s.next+1, …` (one per population position, repeated parents get separate clones). -/
theorem varAnd_offspring_oids (hc : OpContract ops) {t : σ} {s : St} {pop : List Nat}
    {mateD mutD : List Bool} {r : Res σ} (h : varAnd ops t s pop mateD mutD = some r) :
    r.off = List.range' s.next pop.length ∧ r.st.next = s.next + pop.length := by
  simp only [varAnd] at h
  split at h
  · simp at h
  next m hm =>
    have hnd : (cloneAll s pop).2.Nodup := by rw [cloneAll_off]; exact List.nodup_range' 1
    obtain ⟨hoff, hnext, _, _⟩ := mateLoop_spec hc _ _ _ _ m hnd hm
    obtain ⟨hoff2, hnext2, _, _⟩ := mutLoop_spec hc _ _ _ _ r (hoff ▸ hnd) h
    rw [hoff2, hoff, hnext2, hnext, cloneAll_off, cloneAll_next]
    exact ⟨rfl, rfl⟩

example : OpContract demoOps ∧ demoAnd.isSome = true := ⟨demoOps_contract, by decide⟩

/-- `varAnd` returns exactly as many offspring as it was given individuals. -/
theorem varAnd_count (hc : OpContract ops) {t : σ} {s : St} {pop : List Nat}
    {mateD mutD : List Bool} {r : Res σ} (h : varAnd ops t s pop mateD mutD = some r) :
    r.off.length = pop.length := by
  rw [(varAnd_offspring_oids hc h).1]; simp

/-- No object that existed before the call — in particular no input individual — is modified:
its genome and its fitness are what they were. -/
theorem varAnd_parents_unchanged (hc : OpContract ops) {t : σ} {s : St} {pop : List Nat}
    {mateD mutD : List Bool} {r : Res σ} (h : varAnd ops t s pop mateD mutD = some r) :
    ∀ o, o < s.next → r.st.heap o = s.heap o := by
  intro o ho
  simp only [varAnd] at h
  split at h
  · simp at h
  next m hm =>
    have hnd : (cloneAll s pop).2.Nodup := by rw [cloneAll_off]; exact List.nodup_range' 1
    have hnot : o ∉ (cloneAll s pop).2 := by
      rw [cloneAll_off, List.mem_range'_1]; omega
    obtain ⟨hoff, _, hfr, _⟩ := mateLoop_spec hc _ _ _ _ m hnd hm
    obtain ⟨_, _, hfr2, _⟩ := mutLoop_spec hc _ _ _ _ r (hoff ▸ hnd) h
    rw [hfr2 o (hoff ▸ hnot), hfr o hnot, cloneAll_frame _ _ _ ho]

/-- … stated for the inputs: every individual of the given population is unchanged. -/
theorem varAnd_inputs_unchanged (hc : OpContract ops) {t : σ} {s : St} {pop : List Nat}
    {mateD mutD : List Bool} {r : Res σ} (hpop : ∀ p ∈ pop, p < s.next)
    (h : varAnd ops t s pop mateD mutD = some r) : ∀ p ∈ pop, r.st.heap p = s.heap p :=
  fun p hp => varAnd_parents_unchanged hc h p (hpop p hp)

/-- Every returned oid was allocated during this call. -/
theorem varAnd_fresh (hc : OpContract ops) {t : σ} {s : St} {pop : List Nat}
    {mateD mutD : List Bool} {r : Res σ} (h : varAnd ops t s pop mateD mutD = some r) :
    ∀ o ∈ r.off, s.next ≤ o ∧ o < r.st.next := by
  obtain ⟨hoff, hnext⟩ := varAnd_offspring_oids hc h
  intro o ho
  rw [hoff, List.mem_range'_1] at ho
  omega

/-- No offspring is an input individual (this is what F1 broke for `varOr`). -/
theorem varAnd_not_input (hc : OpContract ops) {t : σ} {s : St} {pop : List Nat}
    {mateD mutD : List Bool} {r : Res σ} (hpop : ∀ p ∈ pop, p < s.next)
    (h : varAnd ops t s pop mateD mutD = some r) : ∀ o ∈ r.off, o ∉ pop := by
  intro o ho hin
  have := (varAnd_fresh hc h o ho).1
  have := hpop o hin
  omega

/-- The offspring are pairwise distinct objects. -/
theorem varAnd_distinct (hc : OpContract ops) {t : σ} {s : St} {pop : List Nat}
    {mateD mutD : List Bool} {r : Res σ} (h : varAnd ops t s pop mateD mutD = some r) :
    r.off.Nodup := by
  rw [(varAnd_offspring_oids hc h).1]; exact List.nodup_range' 1

/-- Core per-offspring fact: offspring `k` either went through `mate`/`mutate` and has no fitness,
or went through neither and is an exact copy (genome and fitness) of input `k`. -/
theorem varAnd_offspring_spec (hc : OpContract ops) {t : σ} {s : St} {pop : List Nat}
    {mateD mutD : List Bool} {r : Res σ} (hpop : ∀ p ∈ pop, p < s.next)
    (h : varAnd ops t s pop mateD mutD = some r) (k : Nat) (hk : k < pop.length) :
    r.off[k]? = some (s.next + k) ∧
    ((wasMated mateD pop.length k = true ∨ mutD[k]? = some true) →
        (r.st.heap (s.next + k)).fit = none) ∧
    ((wasMated mateD pop.length k = false ∧ mutD[k]? = some false) →
        r.st.heap (s.next + k) = s.heap pop[k]) ∧
    (mutD[k]? = some true ∨ mutD[k]? = some false) := by
  have hoffs := (varAnd_offspring_oids hc h).1
  simp only [varAnd] at h
  split at h
  · simp at h
  next m hm =>
    have hnd : (cloneAll s pop).2.Nodup := by rw [cloneAll_off]; exact List.nodup_range' 1
    obtain ⟨hoff, _, _, hidx⟩ := mateLoop_spec hc _ _ _ _ m hnd hm
    obtain ⟨_, _, _, hidx2⟩ := mutLoop_spec hc _ _ _ _ r (hoff ▸ hnd) h
    have hlen : (cloneAll s pop).2.length = pop.length := by rw [cloneAll_off]; simp
    have hk1 : k < (cloneAll s pop).2.length := by omega
    have hk2 : k < m.off.length := by rw [hoff]; exact hk1
    have hel : (cloneAll s pop).2[k] = s.next + k := by simp [cloneAll_off]
    have hel2 : m.off[k] = s.next + k := by simp [hoff, hel]
    have h1 := hidx k hk1
    have h2 := hidx2 k hk2
    rw [hel, hlen] at h1
    rw [hel2] at h2
    have hmut : mutD[k]? = some true ∨ mutD[k]? = some false := by
      -- the mutation loop finished, so it had a decision for index k
      have hlen' : m.off.length ≤ mutD.length := by
        rcases Nat.lt_or_ge mutD.length m.off.length with hlt | hge
        · rw [mutLoop_none_of_short ops _ _ _ _ hlt] at h
          simp at h
        · exact hge
      have hk3 : k < mutD.length := by omega
      rw [List.getElem?_eq_getElem hk3]
      cases mutD[k] <;> simp
    refine ⟨?_, ?_, ?_, hmut⟩
    · rw [hoffs]; simp [hk]
    · rintro (hmated | hmutd)
      · rcases hmut with hm1 | hm0
        · exact h2.1 hm1
        · rw [h2.2 hm0]; exact h1.1 hmated
      · exact h2.1 hmutd
    · rintro ⟨hnm, hnu⟩
      rw [h2.2 hnu, h1.2 hnm]
      exact cloneAll_copy s pop hpop k hk

/-- Every offspring that went through a crossover or a mutation comes back with an invalid fitness. -/
theorem varAnd_touched_invalid (hc : OpContract ops) {t : σ} {s : St} {pop : List Nat}
    {mateD mutD : List Bool} {r : Res σ} (hpop : ∀ p ∈ pop, p < s.next)
    (h : varAnd ops t s pop mateD mutD = some r) (k o : Nat) (ho : r.off[k]? = some o)
    (htouched : wasMated mateD pop.length k = true ∨ mutD[k]? = some true) :
    (r.st.heap o).fit = none := by
  have hk : k < pop.length := by
    have := (List.getElem?_eq_some_iff.1 ho).1
    rw [varAnd_count hc h] at this; exact this
  obtain ⟨h1, h2, _, _⟩ := varAnd_offspring_spec hc hpop h k hk
  rw [h1] at ho
  cases ho
  exact h2 htouched

example : wasMated [true] 3 0 = true ∧ wasMated [true] 3 1 = true ∧ wasMated [true] 3 2 = false := by decide

/-- An offspring that went through neither operator is an exact copy of the input at the same
position: same genome, same fitness. -/
theorem varAnd_untouched_is_clone (hc : OpContract ops) {t : σ} {s : St} {pop : List Nat}
    {mateD mutD : List Bool} {r : Res σ} (hpop : ∀ p ∈ pop, p < s.next)
    (h : varAnd ops t s pop mateD mutD = some r) (k o p : Nat) (ho : r.off[k]? = some o)
    (hp : pop[k]? = some p)
    (hun : wasMated mateD pop.length k = false ∧ mutD[k]? = some false) :
    r.st.heap o = s.heap p := by
  obtain ⟨hk, hpk⟩ := List.getElem?_eq_some_iff.1 hp
  obtain ⟨h1, _, h3, _⟩ := varAnd_offspring_spec hc hpop h k hk
  rw [h1] at ho
  cases ho
  rw [h3 hun, hpk]

/-- Every offspring that comes back with a valid fitness has exactly the genotype and the fitness
of an input individual (the one at its own position), as they were before and are after the call. -/
theorem varAnd_valid_is_parent_copy (hc : OpContract ops) {t : σ} {s : St} {pop : List Nat}
    {mateD mutD : List Bool} {r : Res σ} (hpop : ∀ p ∈ pop, p < s.next)
    (h : varAnd ops t s pop mateD mutD = some r) (k o : Nat) (f : List Int)
    (ho : r.off[k]? = some o) (hf : (r.st.heap o).fit = some f) :
    ∃ p, pop[k]? = some p ∧ r.st.heap o = s.heap p ∧ r.st.heap o = r.st.heap p := by
  have hk : k < pop.length := by
    have := (List.getElem?_eq_some_iff.1 ho).1
    rw [varAnd_count hc h] at this; exact this
  obtain ⟨h1, h2, h3, h4⟩ := varAnd_offspring_spec hc hpop h k hk
  rw [h1] at ho
  cases ho
  have hcopy : r.st.heap (s.next + k) = s.heap pop[k] := by
    apply h3
    constructor
    · cases hw : wasMated mateD pop.length k with
      | false => rfl
      | true => rw [h2 (Or.inl hw)] at hf; simp at hf
    · rcases h4 with h4 | h4
      · rw [h2 (Or.inr h4)] at hf; simp at hf
      · exact h4
  refine ⟨pop[k], List.getElem?_eq_getElem hk, hcopy, ?_⟩
  rw [hcopy, varAnd_parents_unchanged hc h _ (hpop _ (List.getElem_mem hk))]

/-- With one decision per visited pair and one per index, `varAnd` always returns. -/
theorem varAnd_isSome (t : σ) (s : St) (pop : List Nat) (mateD mutD : List Bool)
    (hm : mateD.length = pop.length / 2) (hu : mutD.length = pop.length) (hc : OpContract ops) :
    (varAnd ops t s pop mateD mutD).isSome = true := by
  simp only [varAnd]
  have h1 := mateLoop_isSome ops (cloneAll s pop).2 mateD t (cloneAll s pop).1
    (by rw [cloneAll_off]; simp; omega)
  split
  · next hn => simp [hn] at h1
  next m hm' =>
    have hnd : (cloneAll s pop).2.Nodup := by rw [cloneAll_off]; exact List.nodup_range' 1
    obtain ⟨hoff, _, _, _⟩ := mateLoop_spec hc _ _ _ _ m hnd hm'
    exact mutLoop_isSome ops _ _ _ _ (by rw [hoff, cloneAll_off]; simp; omega)

/-- The decisions decoded from the recorded `random()` results have exactly these lengths. -/
theorem decodeAnd_lengths (cxpb mutpb : Float) (n : Nat) (draws : List Float) (m u : List Bool)
    (h : decodeAnd cxpb mutpb n draws = some (m, u)) : m.length = n / 2 ∧ u.length = n := by
  simp only [decodeAnd] at h
  split at h
  next hl =>
    simp only [Option.some.injEq, Prod.mk.injEq] at h
    obtain ⟨h1, h2⟩ := h
    subst h1; subst h2
    simp; omega
  · simp at h

/-! ## varOr -/

/-- `varOr` returns exactly `lambda_` offspring. -/
theorem varOr_count (hc : OpContract ops) {t : σ} {s : St} {pop : List Nat} {lam : Nat}
    {choices : List Choice} {r : Res σ} (hpop : ∀ p ∈ pop, p < s.next)
    (h : varOr ops t s pop lam choices = some r) : r.off.length = lam := by
  simp only [varOr] at h
  split at h
  next hl => rw [(varOrLoop_spec hc pop _ _ _ _ h hpop).1, hl]
  · simp at h

example : OpContract demoOps ∧ (∀ p ∈ [0, 1, 2], p < demoSt.next) ∧ demoOr.isSome = true :=
  ⟨demoOps_contract, by decide, by decide⟩

/-- No object that existed before the call — in particular no input individual — is modified. -/
theorem varOr_parents_unchanged (hc : OpContract ops) {t : σ} {s : St} {pop : List Nat} {lam : Nat}
    {choices : List Choice} {r : Res σ} (hpop : ∀ p ∈ pop, p < s.next)
    (h : varOr ops t s pop lam choices = some r) : ∀ o, o < s.next → r.st.heap o = s.heap o := by
  simp only [varOr] at h
  split at h
  · exact (varOrLoop_spec hc pop _ _ _ _ h hpop).2.2.1
  · simp at h

theorem varOr_inputs_unchanged (hc : OpContract ops) {t : σ} {s : St} {pop : List Nat} {lam : Nat}
    {choices : List Choice} {r : Res σ} (hpop : ∀ p ∈ pop, p < s.next)
    (h : varOr ops t s pop lam choices = some r) : ∀ p ∈ pop, r.st.heap p = s.heap p :=
  fun p hp => varOr_parents_unchanged hc hpop h p (hpop p hp)

/-- Every returned oid was allocated during this call (also in the reproduction branch — F1). -/
theorem varOr_fresh (hc : OpContract ops) {t : σ} {s : St} {pop : List Nat} {lam : Nat}
    {choices : List Choice} {r : Res σ} (hpop : ∀ p ∈ pop, p < s.next)
    (h : varOr ops t s pop lam choices = some r) : ∀ o ∈ r.off, s.next ≤ o ∧ o < r.st.next := by
  simp only [varOr] at h
  split at h
  · exact (varOrLoop_spec hc pop _ _ _ _ h hpop).2.2.2.1
  · simp at h

/-- No offspring is an input individual. -/
theorem varOr_not_input (hc : OpContract ops) {t : σ} {s : St} {pop : List Nat} {lam : Nat}
    {choices : List Choice} {r : Res σ} (hpop : ∀ p ∈ pop, p < s.next)
    (h : varOr ops t s pop lam choices = some r) : ∀ o ∈ r.off, o ∉ pop := by
  intro o ho hin
  have := (varOr_fresh hc hpop h o ho).1
  have := hpop o hin
  omega

/-- The offspring are pairwise distinct objects (allocated in increasing order). -/
theorem varOr_distinct (hc : OpContract ops) {t : σ} {s : St} {pop : List Nat} {lam : Nat}
    {choices : List Choice} {r : Res σ} (hpop : ∀ p ∈ pop, p < s.next)
    (h : varOr ops t s pop lam choices = some r) : r.off.Nodup := by
  simp only [varOr] at h
  split at h
  · have := (varOrLoop_spec hc pop _ _ _ _ h hpop).2.2.2.2.1
    exact this.imp (fun hlt => Nat.ne_of_lt hlt)
  · simp at h

/-- An offspring produced by the crossover or the mutation branch has an invalid fitness. -/
theorem varOr_touched_invalid (hc : OpContract ops) {t : σ} {s : St} {pop : List Nat} {lam : Nat}
    {choices : List Choice} {r : Res σ} (hpop : ∀ p ∈ pop, p < s.next)
    (h : varOr ops t s pop lam choices = some r) (k o : Nat) (ho : r.off[k]? = some o)
    (htouched : (∃ i j, choices[k]? = some (Choice.cx i j)) ∨ (∃ i, choices[k]? = some (Choice.mutn i))) :
    (r.st.heap o).fit = none := by
  simp only [varOr] at h
  split at h
  · have hsp := (varOrLoop_spec hc pop _ _ _ _ h hpop).2.2.2.2.2
    rcases htouched with ⟨i, j, hc'⟩ | ⟨i, hc'⟩
    · exact hsp k _ o hc' ho
    · exact hsp k _ o hc' ho
  · simp at h

/-- An offspring produced by the reproduction branch is an exact copy of the chosen input. -/
theorem varOr_reproduced_is_clone (hc : OpContract ops) {t : σ} {s : St} {pop : List Nat} {lam : Nat}
    {choices : List Choice} {r : Res σ} (hpop : ∀ p ∈ pop, p < s.next)
    (h : varOr ops t s pop lam choices = some r) (k o i : Nat) (ho : r.off[k]? = some o)
    (hrep : choices[k]? = some (Choice.rep i)) :
    ∃ p, pop[i]? = some p ∧ r.st.heap o = s.heap p := by
  simp only [varOr] at h
  split at h
  · exact (varOrLoop_spec hc pop _ _ _ _ h hpop).2.2.2.2.2 k _ o hrep ho
  · simp at h

/-- Every offspring that comes back with a valid fitness has exactly the genotype and the fitness
of an input individual, as they were before and are after the call. -/
theorem varOr_valid_is_parent_copy (hc : OpContract ops) {t : σ} {s : St} {pop : List Nat} {lam : Nat}
    {choices : List Choice} {r : Res σ} (hpop : ∀ p ∈ pop, p < s.next)
    (h : varOr ops t s pop lam choices = some r) (k o : Nat) (f : List Int)
    (ho : r.off[k]? = some o) (hf : (r.st.heap o).fit = some f) :
    ∃ p ∈ pop, r.st.heap o = s.heap p ∧ r.st.heap o = r.st.heap p := by
  have hpu := varOr_parents_unchanged hc hpop h
  have hcount := varOr_count hc hpop h
  have hlen : choices.length = lam := by
    simp only [varOr] at h
    split at h
    · assumption
    · simp at h
  have hk : k < choices.length := by
    have := (List.getElem?_eq_some_iff.1 ho).1
    omega
  have hck : choices[k]? = some choices[k] := List.getElem?_eq_getElem hk
  cases hc' : choices[k] with
  | cx i j =>
    rw [hc'] at hck
    rw [varOr_touched_invalid hc hpop h k o ho (Or.inl ⟨i, j, hck⟩)] at hf; simp at hf
  | mutn i =>
    rw [hc'] at hck
    rw [varOr_touched_invalid hc hpop h k o ho (Or.inr ⟨i, hck⟩)] at hf; simp at hf
  | rep i =>
    rw [hc'] at hck
    obtain ⟨p, hp, hh⟩ := varOr_reproduced_is_clone hc hpop h k o i ho hck
    have hmem : p ∈ pop := List.mem_of_getElem? hp
    exact ⟨p, hmem, hh, by rw [hh, hpu p (hpop p hmem)]⟩

/-- With exactly `lambda_` choices whose positions lie inside the population, `varOr` returns. -/
theorem varOr_isSome (t : σ) (s : St) (pop : List Nat) (lam : Nat) (choices : List Choice)
    (hlen : choices.length = lam) (hin : ∀ c ∈ choices, c.inRange pop.length) :
    (varOr ops t s pop lam choices).isSome = true := by
  simp only [varOr, hlen, if_true]
  exact varOrLoop_isSome ops pop choices t s hin

example : [Choice.cx 0 2, Choice.mutn 1, Choice.rep 2].length = 3 ∧
    ∀ c ∈ [Choice.cx 0 2, Choice.mutn 1, Choice.rep 2], c.inRange 3 := by
  refine ⟨rfl, ?_⟩
  intro c hc
  simp only [List.mem_cons, List.not_mem_nil, or_false] at hc
  rcases hc with rfl | rfl | rfl <;> simp [Choice.inRange]

/-- The choices decoded from a recorded tape are exactly `lambda_` many, every crossover choice
names two different positions (what `random.sample` guarantees). -/
theorem decodeOr_length (cxpb mutpb : Float) : ∀ (lam : Nat) (draws : List Draw) (cs : List Choice),
    decodeOr cxpb mutpb lam draws = some cs →
      cs.length = lam ∧ ∀ i j, Choice.cx i j ∈ cs → i ≠ j
  | 0, [], cs, h => by simp [decodeOr] at h; subst h; simp
  | 0, _ :: _, cs, h => by simp [decodeOr] at h
  | n + 1, [], cs, h => by simp [decodeOr] at h
  | n + 1, Draw.sample _ _ :: _, cs, h => by simp [decodeOr] at h
  | n + 1, Draw.choice _ :: _, cs, h => by simp [decodeOr] at h
  | n + 1, Draw.rnd x :: rest, cs, h => by
    simp only [decodeOr] at h
    split at h
    next i j rest' hb hr =>
      split at h
      · simp at h
      next hij =>
        simp only [Option.map_eq_some_iff] at h
        obtain ⟨cs', hcs', rfl⟩ := h
        obtain ⟨hl, hd⟩ := decodeOr_length cxpb mutpb n _ cs' hcs'
        refine ⟨by simp [hl], ?_⟩
        intro i' j' hm
        simp only [List.mem_cons, Choice.cx.injEq] at hm
        rcases hm with ⟨rfl, rfl⟩ | hm
        · exact hij
        · exact hd _ _ hm
    next i rest' hb hr =>
      simp only [Option.map_eq_some_iff] at h
      obtain ⟨cs', hcs', rfl⟩ := h
      obtain ⟨hl, hd⟩ := decodeOr_length cxpb mutpb n _ cs' hcs'
      refine ⟨by simp [hl], ?_⟩
      intro i' j' hm
      simp only [List.mem_cons, reduceCtorEq, false_or] at hm
      exact hd _ _ hm
    next i rest' hb hr =>
      simp only [Option.map_eq_some_iff] at h
      obtain ⟨cs', hcs', rfl⟩ := h
      obtain ⟨hl, hd⟩ := decodeOr_length cxpb mutpb n _ cs' hcs'
      refine ⟨by simp [hl], ?_⟩
      intro i' j' hm
      simp only [List.mem_cons, reduceCtorEq, false_or] at hm
      exact hd _ _ hm
    · simp at h

end C02
