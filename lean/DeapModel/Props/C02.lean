/-
C02 — Variation never touches parents and never leaves a stale fitness.
Property theorems only; the model is `DeapModel/Core/Variation.lean` (`varAnd`, `varOr` of
`deap/algorithms.py`), helper lemmas are in `DeapModel/Lemmas/C02.lean`.

Every theorem is for ALL populations (any length, repeated oids allowed), ALL decision tapes, ALL
operator states and ALL operator pairs meeting `OpContract` (an operator returns its arguments or objects
it allocated itself — in-place operators as well as copy-and-return ones — and writes no other object).  "The input list itself is unchanged" holds by construction:
`pop` is an immutable argument of the model, never part of the state that is written.

Reading of the clauses in the model:
* "never modify any individual of the population"    → `*_parents_unchanged` (every oid allocated
  before the call — in particular every input — has the same genome and fitness afterwards);
* "exactly the requested number of offspring"        → `*_count`;
* "each an object independent of every input"        → `*_fresh`, `*_not_input`, `*_distinct`
  (every returned oid was allocated during the call — by `toolbox.clone` or by an operator that returns a
  new object —, so it is no input and no other pre-existing object, and the returned oids are pairwise
  distinct);
* "went through crossover or mutation ⇒ invalid"     → `*_touched_invalid`: about the object that ENDS UP
  in the offspring list, i.e. the one the operator RETURNED (not the one passed to it);
* "valid fitness ⇒ genotype and fitness of an input" → `*_valid_is_parent_copy`.

"Every registered mate/mutate operator pair": the second half of the file removes the `OpContract` hypothesis for
the library's own operators.  `lifted_inplace_meets_contract` shows once that EVERY in-place genome operator, lifted
to a heap transformer, meets the contract; `staticLimit_meets_contract` that the `gp.staticLimit` decorator (which is
not in place) preserves it; `library_ops_meet_contract` instantiates them for every operator model of C09
(`Core/CrossMut.lean`), C10 (`Core/RealOps.lean`) and C11 (`Core/GpTree.lean`); `varAnd_library_ops` /
`varOr_library_ops` are the composed statements: all clauses, for every population, every decision tape, every
library crossover and mutation (plain or decorated) and every operator tape, with no hypothesis on the operators.
-/
import DeapModel.Lemmas.C02Ops

namespace C02
open Variation

variable {σ : Type} {ops : Ops σ}

/-! ## Concrete instances used by the `example`s -/

/-- In-place operators (what `deap.tools` provides): one-point-like crossover exchanging the tails, and a
mutation negating every gene; both return their arguments. -/
def demoOps : Ops Unit where
  mate := fun t h n a b =>
    ⟨t, (h.set a { h a with genome := (h a).genome.take 1 ++ (h b).genome.drop 1 }).set b
          { h b with genome := (h b).genome.take 1 ++ (h a).genome.drop 1 }, n, a, b⟩
  mutate := fun t h n a => ⟨t, h.set a { h a with genome := (h a).genome.map (fun x => -x) }, n, a⟩

theorem demoOps_contract : OpContract demoOps where
  mate_next := fun _ _ _ _ _ => Nat.le_refl _
  mate_fst := fun _ _ _ _ _ => Or.inl rfl
  mate_snd := fun _ _ _ _ _ => Or.inr (Or.inl rfl)
  mate_distinct := fun _ _ _ _ _ hab => hab
  mate_frame := fun _ h _ a b o ha hb _ => by simp [demoOps, Heap.set, ha, hb]
  mutate_next := fun _ _ _ _ => Nat.le_refl _
  mutate_ret := fun _ _ _ _ => Or.inl rfl
  mutate_frame := fun _ h _ a o ha _ => by simp [demoOps, Heap.set, ha]

/-- Pure (copy-and-return) operators: the arguments are left as they are, the children are NEW objects that
still carry the parents' fitness — what `gp.staticLimit` hands back when the limit rejects a child, or a
user operator working on copies. -/
def pureOps : Ops Unit where
  mate := fun t h n a b =>
    ⟨t, (h.set n { h a with genome := (h a).genome.take 1 ++ (h b).genome.drop 1 }).set (n + 1)
          { h b with genome := (h b).genome.take 1 ++ (h a).genome.drop 1 }, n + 2, n, n + 1⟩
  mutate := fun t h n a => ⟨t, h.set n { h a with genome := (h a).genome.map (fun x => -x) }, n + 1, n⟩

theorem pureOps_contract : OpContract pureOps where
  mate_next := fun _ _ _ _ _ => by simp [pureOps]
  mate_fst := fun _ _ n _ _ => Or.inr (Or.inr ⟨Nat.le_refl _, by simp [pureOps]⟩)
  mate_snd := fun _ _ n _ _ => Or.inr (Or.inr ⟨by simp [pureOps], by simp [pureOps]⟩)
  mate_distinct := fun _ _ n _ _ _ => by simp [pureOps]
  mate_frame := fun _ h n a b o _ _ hn => by
    have h1 : o ≠ n := by omega
    have h2 : o ≠ n + 1 := by omega
    simp [pureOps, Heap.set, h1, h2]
  mutate_next := fun _ _ _ _ => by simp [pureOps]
  mutate_ret := fun _ _ n _ => Or.inr ⟨Nat.le_refl _, by simp [pureOps]⟩
  mutate_frame := fun _ h n a o _ hn => by
    have h1 : o ≠ n := by omega
    simp [pureOps, Heap.set, h1]

/-- Three individuals: evaluated, unevaluated, evaluated (a mixed population). -/
def demoHeap : Heap := fun o =>
  match o with
  | 0 => ⟨[1, 2, 3], some [10]⟩
  | 1 => ⟨[4, 5, 6], none⟩
  | 2 => ⟨[7, 8, 9], some [30]⟩
  | _ => ⟨[], none⟩

def demoSt : St := { heap := demoHeap, next := 3 }

/-- `varAnd` on `[0, 1, 2]`: the pair (0,1) is mated, nobody is mutated, individual 2 is reproduced.
`varOr` with λ = 3: crossover of positions 0,2; mutation of position 1; reproduction of position 2. -/
def demoAnd : Option (Res Unit) := varAnd demoOps () demoSt [0, 1, 2] [true] [false, false, false]
def demoOr : Option (Res Unit) :=
  varOr demoOps () demoSt [0, 1, 2] 3 [Choice.cx 0 2, Choice.mutn 1, Choice.rep 2]

example : (∀ p ∈ [0, 1, 2], p < demoSt.next) := by decide
example : demoAnd.map (·.off) = some [3, 4, 5] := by decide
example : demoAnd.map (fun r => [3, 4, 5].map r.st.heap) =
    some [⟨[1, 5, 6], none⟩, ⟨[4, 2, 3], none⟩, ⟨[7, 8, 9], some [30]⟩] := by decide
example : demoAnd.map (fun r => [0, 1, 2].map r.st.heap) = some ([0, 1, 2].map demoHeap) := by decide
example : demoOr.map (·.off) = some [3, 5, 6] := by decide
example : demoOr.map (fun r => [3, 5, 6].map r.st.heap) =
    some [⟨[1, 8, 9], none⟩, ⟨[-4, -5, -6], none⟩, ⟨[7, 8, 9], some [30]⟩] := by decide
example : demoOr.map (fun r => [0, 1, 2].map r.st.heap) = some ([0, 1, 2].map demoHeap) := by decide
/-- the same object repeated in the population: still three distinct fresh offspring -/
example : (varAnd demoOps () demoSt [0, 0, 0] [false] [false, true, false]).map (·.off) = some [3, 4, 5] := by
  decide
/-- pure operators: the offspring are the objects the operators RETURNED (6, 7 from mate, then 8 from
mutating 7), and it is their fitness that is deleted although they were copies of evaluated parents -/
example : (varAnd pureOps () demoSt [0, 2, 2] [true] [false, true, false]).map
    (fun r => (r.off, r.off.map r.st.heap)) =
    some ([6, 8, 5], [⟨[1, 8, 9], none⟩, ⟨[-7, -2, -3], none⟩, ⟨[7, 8, 9], some [30]⟩]) := by decide
example : (varOr pureOps () demoSt [0, 1, 2] 2 [Choice.cx 0 2, Choice.mutn 2]).map
    (fun r => (r.off, r.off.map r.st.heap)) =
    some ([5, 8], [⟨[1, 8, 9], none⟩, ⟨[-7, -8, -9], none⟩]) := by decide

/-! ## varAnd -/

/-- `varAnd` returns exactly as many offspring as it was given individuals. -/
theorem varAnd_count (hc : OpContract ops) {t : σ} {s : St} {pop : List Nat}
    {mateD mutD : List Bool} {r : Res σ} (h : varAnd ops t s pop mateD mutD = some r) :
    r.off.length = pop.length := (varAnd_master hc h).1

example : OpContract demoOps ∧ demoAnd.isSome = true := ⟨demoOps_contract, by decide⟩
example : OpContract pureOps ∧ (varAnd pureOps () demoSt [0, 2, 2] [true] [false, true, false]).isSome = true :=
  ⟨pureOps_contract, by decide⟩

/-- The fresh-oid counter only grows. -/
theorem varAnd_next_le (hc : OpContract ops) {t : σ} {s : St} {pop : List Nat}
    {mateD mutD : List Bool} {r : Res σ} (h : varAnd ops t s pop mateD mutD = some r) :
    s.next ≤ r.st.next := (varAnd_master hc h).2.1

/-- No object that existed before the call — in particular no input individual — is modified:
its genome and its fitness are what they were. -/
theorem varAnd_parents_unchanged (hc : OpContract ops) {t : σ} {s : St} {pop : List Nat}
    {mateD mutD : List Bool} {r : Res σ} (h : varAnd ops t s pop mateD mutD = some r) :
    ∀ o, o < s.next → r.st.heap o = s.heap o := (varAnd_master hc h).2.2.1

/-- … stated for the inputs: every individual of the given population is unchanged. -/
theorem varAnd_inputs_unchanged (hc : OpContract ops) {t : σ} {s : St} {pop : List Nat}
    {mateD mutD : List Bool} {r : Res σ} (hpop : ∀ p ∈ pop, p < s.next)
    (h : varAnd ops t s pop mateD mutD = some r) : ∀ p ∈ pop, r.st.heap p = s.heap p :=
  fun p hp => varAnd_parents_unchanged hc h p (hpop p hp)

/-- Every returned oid was allocated during this call (by `toolbox.clone` or by an operator). -/
theorem varAnd_fresh (hc : OpContract ops) {t : σ} {s : St} {pop : List Nat}
    {mateD mutD : List Bool} {r : Res σ} (h : varAnd ops t s pop mateD mutD = some r) :
    ∀ o ∈ r.off, s.next ≤ o ∧ o < r.st.next := (varAnd_master hc h).2.2.2.1

/-- No offspring is an input individual (this is what F1 broke for `varOr`). -/
theorem varAnd_not_input (hc : OpContract ops) {t : σ} {s : St} {pop : List Nat}
    {mateD mutD : List Bool} {r : Res σ} (hpop : ∀ p ∈ pop, p < s.next)
    (h : varAnd ops t s pop mateD mutD = some r) : ∀ o ∈ r.off, o ∉ pop := by
  intro o ho hin
  have := (varAnd_fresh hc h o ho).1
  have := hpop o hin
  omega

/-- The offspring are pairwise distinct objects (uses that `mate` returns two different individuals). -/
theorem varAnd_distinct (hc : OpContract ops) {t : σ} {s : St} {pop : List Nat}
    {mateD mutD : List Bool} {r : Res σ} (h : varAnd ops t s pop mateD mutD = some r) :
    r.off.Nodup := (varAnd_master hc h).2.2.2.2.1

/-- Core per-offspring fact about the object `o` that ENDS UP at position `k` of the returned list: if
position `k` went through `mate`/`mutate`, `o` — the object the operator returned, whether or not it is the
one that was passed in — has no fitness; if it went through neither, `o` is an exact copy (genome and
fitness) of input `k`. -/
theorem varAnd_offspring_spec (hc : OpContract ops) {t : σ} {s : St} {pop : List Nat}
    {mateD mutD : List Bool} {r : Res σ} (hpop : ∀ p ∈ pop, p < s.next)
    (h : varAnd ops t s pop mateD mutD = some r) (k : Nat) (hk : k < pop.length) :
    ∃ o, r.off[k]? = some o ∧
    ((wasMated mateD pop.length k = true ∨ mutD[k]? = some true) → (r.st.heap o).fit = none) ∧
    ((wasMated mateD pop.length k = false ∧ mutD[k]? = some false) → r.st.heap o = s.heap pop[k]) ∧
    (mutD[k]? = some true ∨ mutD[k]? = some false) := by
  obtain ⟨hlen, _, _, _, _, hidx⟩ := varAnd_master hc h
  have hk' : k < r.off.length := by omega
  obtain ⟨h1, h2, h3⟩ := hidx k hk hk'
  exact ⟨r.off[k], List.getElem?_eq_getElem hk', h1, h2 hpop, h3⟩

/-- Every offspring that went through a crossover or a mutation comes back with an invalid fitness. -/
theorem varAnd_touched_invalid (hc : OpContract ops) {t : σ} {s : St} {pop : List Nat}
    {mateD mutD : List Bool} {r : Res σ} (hpop : ∀ p ∈ pop, p < s.next)
    (h : varAnd ops t s pop mateD mutD = some r) (k o : Nat) (ho : r.off[k]? = some o)
    (htouched : wasMated mateD pop.length k = true ∨ mutD[k]? = some true) :
    (r.st.heap o).fit = none := by
  have hk : k < pop.length := by
    have := (List.getElem?_eq_some_iff.1 ho).1
    rw [varAnd_count hc h] at this; exact this
  obtain ⟨o', h1, h2, _, _⟩ := varAnd_offspring_spec hc hpop h k hk
  rw [h1] at ho
  cases ho
  exact h2 htouched

example : wasMated [true] 3 0 = true ∧ wasMated [true] 3 1 = true ∧ wasMated [true] 3 2 = false := by decide

/-- An offspring that went through neither operator is an exact copy of the input at the same
position: same genome, same fitness. -/
theorem varAnd_untouched_is_clone (hc : OpContract ops) {t : σ} {s : St} {pop : List Nat}
    {mateD mutD : List Bool} {r : Res σ} (hpop : ∀ p ∈ pop, p < s.next)
    (h : varAnd ops t s pop mateD mutD = some r) (k o p : Nat) (ho : r.off[k]? = some o)
    (hp : pop[k]? = some p)
    (hun : wasMated mateD pop.length k = false ∧ mutD[k]? = some false) :
    r.st.heap o = s.heap p := by
  obtain ⟨hk, hpk⟩ := List.getElem?_eq_some_iff.1 hp
  obtain ⟨o', h1, _, h3, _⟩ := varAnd_offspring_spec hc hpop h k hk
  rw [h1] at ho
  cases ho
  rw [h3 hun, hpk]

/-- Every offspring that comes back with a valid fitness has exactly the genotype and the fitness
of an input individual (the one at its own position), as they were before and are after the call. -/
theorem varAnd_valid_is_parent_copy (hc : OpContract ops) {t : σ} {s : St} {pop : List Nat}
    {mateD mutD : List Bool} {r : Res σ} (hpop : ∀ p ∈ pop, p < s.next)
    (h : varAnd ops t s pop mateD mutD = some r) (k o : Nat) (f : List Int)
    (ho : r.off[k]? = some o) (hf : (r.st.heap o).fit = some f) :
    ∃ p, pop[k]? = some p ∧ r.st.heap o = s.heap p ∧ r.st.heap o = r.st.heap p := by
  have hk : k < pop.length := by
    have := (List.getElem?_eq_some_iff.1 ho).1
    rw [varAnd_count hc h] at this; exact this
  obtain ⟨o', h1, h2, h3, h4⟩ := varAnd_offspring_spec hc hpop h k hk
  rw [h1] at ho
  cases ho
  have hcopy := h3 (by
    constructor
    · cases hw : wasMated mateD pop.length k with
      | false => rfl
      | true => rw [h2 (Or.inl hw)] at hf; simp at hf
    · rcases h4 with h4 | h4
      · rw [h2 (Or.inr h4)] at hf; simp at hf
      · exact h4)
  refine ⟨pop[k], List.getElem?_eq_getElem hk, hcopy, ?_⟩
  rw [hcopy, varAnd_parents_unchanged hc h _ (hpop _ (List.getElem_mem hk))]

/-- With one decision per visited pair and one per index, `varAnd` always returns. -/
theorem varAnd_isSome (t : σ) (s : St) (pop : List Nat) (mateD mutD : List Bool)
    (hm : mateD.length = pop.length / 2) (hu : mutD.length = pop.length) (hc : OpContract ops) :
    (varAnd ops t s pop mateD mutD).isSome = true := by
  simp only [varAnd]
  have h1 := mateLoop_isSome ops (cloneAll s pop).2 mateD t (cloneAll s pop).1
    (by rw [cloneAll_off]; simp; omega)
  split
  · next hn => simp [hn] at h1
  next m hm' =>
    have hnd : (cloneAll s pop).2.Nodup := by rw [cloneAll_off]; exact List.nodup_range' 1
    have hll : ∀ x ∈ (cloneAll s pop).2, x < (cloneAll s pop).1.next := by
      intro x hx; rw [cloneAll_off, List.mem_range'_1] at hx; rw [cloneAll_next]; omega
    obtain ⟨o1, _⟩ := mateLoop_spec hc _ _ _ _ m hnd hll hm'
    exact mutLoop_isSome ops _ _ _ _ (by rw [o1.len, cloneAll_off]; simp; omega)

/-- The decisions decoded from the recorded `random()` results have exactly these lengths. -/
theorem decodeAnd_lengths (cxpb mutpb : Float) (n : Nat) (draws : List Float) (m u : List Bool)
    (h : decodeAnd cxpb mutpb n draws = some (m, u)) : m.length = n / 2 ∧ u.length = n := by
  simp only [decodeAnd] at h
  split at h
  next hl =>
    simp only [Option.some.injEq, Prod.mk.injEq] at h
    obtain ⟨h1, h2⟩ := h
    subst h1; subst h2
    simp; omega
  · simp at h

/-! ## varOr -/

/-- `varOr` returns exactly `lambda_` offspring. -/
theorem varOr_count (hc : OpContract ops) {t : σ} {s : St} {pop : List Nat} {lam : Nat}
    {choices : List Choice} {r : Res σ} (hpop : ∀ p ∈ pop, p < s.next)
    (h : varOr ops t s pop lam choices = some r) : r.off.length = lam := by
  simp only [varOr] at h
  split at h
  next hl => rw [(varOrLoop_spec hc pop _ _ _ _ h hpop).1, hl]
  · simp at h

example : OpContract demoOps ∧ (∀ p ∈ [0, 1, 2], p < demoSt.next) ∧ demoOr.isSome = true :=
  ⟨demoOps_contract, by decide, by decide⟩

/-- No object that existed before the call — in particular no input individual — is modified. -/
theorem varOr_parents_unchanged (hc : OpContract ops) {t : σ} {s : St} {pop : List Nat} {lam : Nat}
    {choices : List Choice} {r : Res σ} (hpop : ∀ p ∈ pop, p < s.next)
    (h : varOr ops t s pop lam choices = some r) : ∀ o, o < s.next → r.st.heap o = s.heap o := by
  simp only [varOr] at h
  split at h
  · exact (varOrLoop_spec hc pop _ _ _ _ h hpop).2.2.1
  · simp at h

theorem varOr_inputs_unchanged (hc : OpContract ops) {t : σ} {s : St} {pop : List Nat} {lam : Nat}
    {choices : List Choice} {r : Res σ} (hpop : ∀ p ∈ pop, p < s.next)
    (h : varOr ops t s pop lam choices = some r) : ∀ p ∈ pop, r.st.heap p = s.heap p :=
  fun p hp => varOr_parents_unchanged hc hpop h p (hpop p hp)

/-- Every returned oid was allocated during this call (also in the reproduction branch — F1). -/
theorem varOr_fresh (hc : OpContract ops) {t : σ} {s : St} {pop : List Nat} {lam : Nat}
    {choices : List Choice} {r : Res σ} (hpop : ∀ p ∈ pop, p < s.next)
    (h : varOr ops t s pop lam choices = some r) : ∀ o ∈ r.off, s.next ≤ o ∧ o < r.st.next := by
  simp only [varOr] at h
  split at h
  · exact (varOrLoop_spec hc pop _ _ _ _ h hpop).2.2.2.1
  · simp at h

/-- No offspring is an input individual. -/
theorem varOr_not_input (hc : OpContract ops) {t : σ} {s : St} {pop : List Nat} {lam : Nat}
    {choices : List Choice} {r : Res σ} (hpop : ∀ p ∈ pop, p < s.next)
    (h : varOr ops t s pop lam choices = some r) : ∀ o ∈ r.off, o ∉ pop := by
  intro o ho hin
  have := (varOr_fresh hc hpop h o ho).1
  have := hpop o hin
  omega

/-- The offspring are pairwise distinct objects (allocated in increasing order). -/
theorem varOr_distinct (hc : OpContract ops) {t : σ} {s : St} {pop : List Nat} {lam : Nat}
    {choices : List Choice} {r : Res σ} (hpop : ∀ p ∈ pop, p < s.next)
    (h : varOr ops t s pop lam choices = some r) : r.off.Nodup := by
  simp only [varOr] at h
  split at h
  · have := (varOrLoop_spec hc pop _ _ _ _ h hpop).2.2.2.2.1
    exact this.imp (fun hlt => Nat.ne_of_lt hlt)
  · simp at h

/-- An offspring produced by the crossover or the mutation branch has an invalid fitness. -/
theorem varOr_touched_invalid (hc : OpContract ops) {t : σ} {s : St} {pop : List Nat} {lam : Nat}
    {choices : List Choice} {r : Res σ} (hpop : ∀ p ∈ pop, p < s.next)
    (h : varOr ops t s pop lam choices = some r) (k o : Nat) (ho : r.off[k]? = some o)
    (htouched : (∃ i j, choices[k]? = some (Choice.cx i j)) ∨ (∃ i, choices[k]? = some (Choice.mutn i))) :
    (r.st.heap o).fit = none := by
  simp only [varOr] at h
  split at h
  · have hsp := (varOrLoop_spec hc pop _ _ _ _ h hpop).2.2.2.2.2
    rcases htouched with ⟨i, j, hc'⟩ | ⟨i, hc'⟩
    · exact hsp k _ o hc' ho
    · exact hsp k _ o hc' ho
  · simp at h

/-- An offspring produced by the reproduction branch is an exact copy of the chosen input. -/
theorem varOr_reproduced_is_clone (hc : OpContract ops) {t : σ} {s : St} {pop : List Nat} {lam : Nat}
    {choices : List Choice} {r : Res σ} (hpop : ∀ p ∈ pop, p < s.next)
    (h : varOr ops t s pop lam choices = some r) (k o i : Nat) (ho : r.off[k]? = some o)
    (hrep : choices[k]? = some (Choice.rep i)) :
    ∃ p, pop[i]? = some p ∧ r.st.heap o = s.heap p := by
  simp only [varOr] at h
  split at h
  · exact (varOrLoop_spec hc pop _ _ _ _ h hpop).2.2.2.2.2 k _ o hrep ho
  · simp at h

/-- Every offspring that comes back with a valid fitness has exactly the genotype and the fitness
of an input individual, as they were before and are after the call. -/
theorem varOr_valid_is_parent_copy (hc : OpContract ops) {t : σ} {s : St} {pop : List Nat} {lam : Nat}
    {choices : List Choice} {r : Res σ} (hpop : ∀ p ∈ pop, p < s.next)
    (h : varOr ops t s pop lam choices = some r) (k o : Nat) (f : List Int)
    (ho : r.off[k]? = some o) (hf : (r.st.heap o).fit = some f) :
    ∃ p ∈ pop, r.st.heap o = s.heap p ∧ r.st.heap o = r.st.heap p := by
  have hpu := varOr_parents_unchanged hc hpop h
  have hcount := varOr_count hc hpop h
  have hlen : choices.length = lam := by
    simp only [varOr] at h
    split at h
    · assumption
    · simp at h
  have hk : k < choices.length := by
    have := (List.getElem?_eq_some_iff.1 ho).1
    omega
  have hck : choices[k]? = some choices[k] := List.getElem?_eq_getElem hk
  cases hc' : choices[k] with
  | cx i j =>
    rw [hc'] at hck
    rw [varOr_touched_invalid hc hpop h k o ho (Or.inl ⟨i, j, hck⟩)] at hf; simp at hf
  | mutn i =>
    rw [hc'] at hck
    rw [varOr_touched_invalid hc hpop h k o ho (Or.inr ⟨i, hck⟩)] at hf; simp at hf
  | rep i =>
    rw [hc'] at hck
    obtain ⟨p, hp, hh⟩ := varOr_reproduced_is_clone hc hpop h k o i ho hck
    have hmem : p ∈ pop := List.mem_of_getElem? hp
    exact ⟨p, hmem, hh, by rw [hh, hpu p (hpop p hmem)]⟩

/-- With exactly `lambda_` choices whose positions lie inside the population, `varOr` returns. -/
theorem varOr_isSome (t : σ) (s : St) (pop : List Nat) (lam : Nat) (choices : List Choice)
    (hlen : choices.length = lam) (hin : ∀ c ∈ choices, c.inRange pop.length) :
    (varOr ops t s pop lam choices).isSome = true := by
  simp only [varOr, hlen, if_true]
  exact varOrLoop_isSome ops pop choices t s hin

example : [Choice.cx 0 2, Choice.mutn 1, Choice.rep 2].length = 3 ∧
    ∀ c ∈ [Choice.cx 0 2, Choice.mutn 1, Choice.rep 2], c.inRange 3 := by
  refine ⟨rfl, ?_⟩
  intro c hc
  simp only [List.mem_cons, List.not_mem_nil, or_false] at hc
  rcases hc with rfl | rfl | rfl <;> simp [Choice.inRange]

/-- The choices decoded from a recorded tape are exactly `lambda_` many, every crossover choice
names two different positions (what `random.sample` guarantees). -/
theorem decodeOr_length (cxpb mutpb : Float) : ∀ (lam : Nat) (draws : List Draw) (cs : List Choice),
    decodeOr cxpb mutpb lam draws = some cs →
      cs.length = lam ∧ ∀ i j, Choice.cx i j ∈ cs → i ≠ j
  | 0, [], cs, h => by simp [decodeOr] at h; subst h; simp
  | 0, _ :: _, cs, h => by simp [decodeOr] at h
  | n + 1, [], cs, h => by simp [decodeOr] at h
  | n + 1, Draw.sample _ _ :: _, cs, h => by simp [decodeOr] at h
  | n + 1, Draw.choice _ :: _, cs, h => by simp [decodeOr] at h
  | n + 1, Draw.rnd x :: rest, cs, h => by
    simp only [decodeOr] at h
    split at h
    next i j rest' hb hr =>
      split at h
      · simp at h
      next hij =>
        simp only [Option.map_eq_some_iff] at h
        obtain ⟨cs', hcs', rfl⟩ := h
        obtain ⟨hl, hd⟩ := decodeOr_length cxpb mutpb n _ cs' hcs'
        refine ⟨by simp [hl], ?_⟩
        intro i' j' hm
        simp only [List.mem_cons, Choice.cx.injEq] at hm
        rcases hm with ⟨rfl, rfl⟩ | hm
        · exact hij
        · exact hd _ _ hm
    next i rest' hb hr =>
      simp only [Option.map_eq_some_iff] at h
      obtain ⟨cs', hcs', rfl⟩ := h
      obtain ⟨hl, hd⟩ := decodeOr_length cxpb mutpb n _ cs' hcs'
      refine ⟨by simp [hl], ?_⟩
      intro i' j' hm
      simp only [List.mem_cons, reduceCtorEq, false_or] at hm
      exact hd _ _ hm
    next i rest' hb hr =>
      simp only [Option.map_eq_some_iff] at h
      obtain ⟨cs', hcs', rfl⟩ := h
      obtain ⟨hl, hd⟩ := decodeOr_length cxpb mutpb n _ cs' hcs'
      refine ⟨by simp [hl], ?_⟩
      intro i' j' hm
      simp only [List.mem_cons, reduceCtorEq, false_or] at hm
      exact hd _ _ hm
    · simp at h

/-! ## The library's own operators: no contract hypothesis left -/

/-- Every lifting of an in-place genome operator pair — a function from the contents of the argument sequences
(and a tape) to their contents after the call, written back into the very argument objects — meets `OpContract`. -/
theorem lifted_inplace_meets_contract {τ : Type} (f : GOp2 τ) (g : GOp1 τ) : OpContract (liftOps f g) :=
  Variation.lifted_inplace_meets_contract f g

/-- … and such an operator allocates nothing, returns its arguments, and changes no fitness at all. -/
theorem lifted_inplace_is_inplace {τ : Type} (f : GOp2 τ) (g : GOp1 τ) (t : τ) (h : Heap) (n a b o : Nat) :
    ((liftOps f g).mate t h n a b).next = n ∧ ((liftOps f g).mate t h n a b).fst = a ∧
    ((liftOps f g).mate t h n a b).snd = b ∧ (((liftOps f g).mate t h n a b).heap o).fit = (h o).fit ∧
    ((liftOps f g).mutate t h n a).next = n ∧ ((liftOps f g).mutate t h n a).ret = a ∧
    (((liftOps f g).mutate t h n a).heap o).fit = (h o).fit :=
  ⟨rfl, rfl, rfl, liftMate_fit f t h n a b o, rfl, rfl, liftMutate_fit g t h n a o⟩

/-- `gp.staticLimit` around ANY operator pair that meets the contract meets it again, although it hands back new
copies of kept parent copies (for every measurement and limit, every way `random.choice` answers, and whether the
crossover, the mutation or both are decorated). -/
theorem staticLimit_meets_contract (hc : OpContract ops) (Lm Lu : Limit σ) :
    OpContract (⟨limitMate Lm ops.mate, ops.mutate⟩ : Ops σ) ∧
    OpContract (⟨ops.mate, limitMutate Lu ops.mutate⟩ : Ops σ) ∧
    OpContract (⟨limitMate Lm ops.mate, limitMutate Lu ops.mutate⟩ : Ops σ) :=
  ⟨OpContract.of_halves (limitMate_contract Lm hc.mateHalf) hc.mutHalf,
   OpContract.of_halves hc.mateHalf (limitMutate_contract Lu hc.mutHalf),
   OpContract.of_halves (limitMate_contract Lm hc.mateHalf) (limitMutate_contract Lu hc.mutHalf)⟩

example : OpContract demoOps := demoOps_contract

/-- What the decorator hands back in place of an over-limit child is a deep copy — genome AND fitness — of one
of the copies it kept (so it may carry a valid fitness: `varAnd`/`varOr` must delete the fitness of the RETURNED
object, which is what `*_touched_invalid` states). -/
theorem staticLimit_replacement_is_kept_copy (L : Limit σ) (keep : List Nat) (t : σ) (h : Heap) (nx x : Nat)
    (hne : keep ≠ []) (hnew : (limitFix L keep t h nx x).ret ≠ x) :
    ∃ k ∈ keep, (limitFix L keep t h nx x).heap (limitFix L keep t h nx x).ret = h k :=
  limitFix_copy L keep t h nx x hne hnew

/-- a limit on the length that `[1, 2, 3]` exceeds; `random.choice` always answers the first kept copy -/
def demoLimit : Limit Unit := ⟨fun g => decide (2 < g.length), fun t _ => (t, 0)⟩

example : [3] ≠ [] ∧ (limitFix demoLimit [3] () demoHeap 4 0).ret ≠ 0 := by decide

/-- Every library crossover and mutation (all operator models of C09, C10 and C11 listed in `LibMate` / `LibMut`),
plain or decorated with `gp.staticLimit`, under every coding of floats / trees as heap genomes: `OpContract` holds. -/
theorem library_ops_meet_contract (v : Views) (p : Lib) : OpContract (p.ops v) := Lib.ops_contract v p

/-- All clauses of the property for `varAnd` with the library's own operators — no hypothesis on the operators:
for every population, every decision tape, every library crossover and mutation (plain or decorated), every view
and every operator tape,
(1) no object that existed before the call (in particular no input individual) is modified,
(2) exactly `len(population)` offspring are returned,
(3) every offspring is an object allocated during the call, not an input, and the offspring are pairwise distinct,
(4) every offspring whose position went through the crossover or the mutation has an invalid fitness,
(5) every offspring with a valid fitness has exactly the genotype and fitness of the input at its position. -/
theorem varAnd_library_ops (v : Views) (p : Lib) {t : LTape} {s : St} {pop : List Nat} {mateD mutD : List Bool}
    {r : Res LTape} (hpop : ∀ q ∈ pop, q < s.next) (h : varAnd (p.ops v) t s pop mateD mutD = some r) :
    (∀ o, o < s.next → r.st.heap o = s.heap o) ∧
    r.off.length = pop.length ∧
    (∀ o ∈ r.off, s.next ≤ o ∧ o < r.st.next ∧ o ∉ pop) ∧ r.off.Nodup ∧
    (∀ (k o : Nat), r.off[k]? = some o → (wasMated mateD pop.length k = true ∨ mutD[k]? = some true) →
      (r.st.heap o).fit = none) ∧
    (∀ (k o : Nat) (f : List Int), r.off[k]? = some o → (r.st.heap o).fit = some f →
      ∃ q, pop[k]? = some q ∧ r.st.heap o = s.heap q ∧ r.st.heap o = r.st.heap q) := by
  have hc := library_ops_meet_contract v p
  exact ⟨varAnd_parents_unchanged hc h, varAnd_count hc h,
    fun o ho => ⟨(varAnd_fresh hc h o ho).1, (varAnd_fresh hc h o ho).2, varAnd_not_input hc hpop h o ho⟩,
    varAnd_distinct hc h,
    fun k o ho ht => varAnd_touched_invalid hc hpop h k o ho ht,
    fun k o f ho hf => varAnd_valid_is_parent_copy hc hpop h k o f ho hf⟩

/-- … and the call always returns: with one decision per visited pair and one per index there is a result. -/
theorem varAnd_library_ops_total (v : Views) (p : Lib) (t : LTape) (s : St) (pop : List Nat) (mateD mutD : List Bool)
    (hm : mateD.length = pop.length / 2) (hu : mutD.length = pop.length) :
    (varAnd (p.ops v) t s pop mateD mutD).isSome = true :=
  varAnd_isSome t s pop mateD mutD hm hu (library_ops_meet_contract v p)

/-- a view of trees that stores nothing (the examples use integer operators) -/
def demoViews : Views := { tree := ⟨fun _ => [], fun _ => []⟩ }

/-- one-point crossover and inversion, the crossover decorated with a length limit -/
def demoLib : Lib := { mate := .cxOnePoint, mutate := .mutInversion }
def demoLibLimit : Lib := { mate := .cxMessyOnePoint, mutate := .mutInversion, mateLimit := some (.len, 3) }

/-- `cxOnePoint` draws the cut point 1, `mutInversion` the indices 0 and 2 -/
def demoTape : LTape := { draws := [.int 1, .int 0, .int 2] }

example : (∀ q ∈ [0, 1, 2], q < demoSt.next) ∧
    (varAnd (demoLib.ops demoViews) demoTape demoSt [0, 1, 2] [true] [false, true, false]).isSome = true :=
  ⟨by decide, varAnd_library_ops_total demoViews demoLib demoTape demoSt [0, 1, 2] [true] [false, true, false] rfl rfl⟩

example : [true].length = [0, 1, 2].length / 2 ∧ [false, true, false].length = [0, 1, 2].length := by decide

/-- the composed model computes: pair (0, 1) crossed at 1, offspring 1 then inverted over [0, 2), input 2 copied -/
example : (varAnd (demoLib.ops demoViews) demoTape demoSt [0, 1, 2] [true] [false, true, false]).map
    (fun r => (r.off, r.off.map r.st.heap, r.tape.ok, r.tape.draws.length)) =
    some ([3, 4, 5], [⟨[1, 5, 6], none⟩, ⟨[2, 4, 3], none⟩, ⟨[7, 8, 9], some [30]⟩], true, 0) := by decide

/-- All clauses of the property for `varOr` with the library's own operators (same quantification):
(1) no pre-existing object is modified, (2) exactly `lambda_` offspring, (3) all allocated during the call, no
input, pairwise distinct, (4) crossover / mutation branch ⇒ invalid fitness, (5) valid fitness ⇒ genotype and
fitness of an input individual. -/
theorem varOr_library_ops (v : Views) (p : Lib) {t : LTape} {s : St} {pop : List Nat} {lam : Nat}
    {choices : List Choice} {r : Res LTape} (hpop : ∀ q ∈ pop, q < s.next)
    (h : varOr (p.ops v) t s pop lam choices = some r) :
    (∀ o, o < s.next → r.st.heap o = s.heap o) ∧
    r.off.length = lam ∧
    (∀ o ∈ r.off, s.next ≤ o ∧ o < r.st.next ∧ o ∉ pop) ∧ r.off.Nodup ∧
    (∀ (k o : Nat), r.off[k]? = some o →
      ((∃ i j, choices[k]? = some (Choice.cx i j)) ∨ (∃ i, choices[k]? = some (Choice.mutn i))) →
      (r.st.heap o).fit = none) ∧
    (∀ (k o : Nat) (f : List Int), r.off[k]? = some o → (r.st.heap o).fit = some f →
      ∃ q ∈ pop, r.st.heap o = s.heap q ∧ r.st.heap o = r.st.heap q) := by
  have hc := library_ops_meet_contract v p
  exact ⟨varOr_parents_unchanged hc hpop h, varOr_count hc hpop h,
    fun o ho => ⟨(varOr_fresh hc hpop h o ho).1, (varOr_fresh hc hpop h o ho).2, varOr_not_input hc hpop h o ho⟩,
    varOr_distinct hc hpop h,
    fun k o ho ht => varOr_touched_invalid hc hpop h k o ho ht,
    fun k o f ho hf => varOr_valid_is_parent_copy hc hpop h k o f ho hf⟩

theorem varOr_library_ops_total (v : Views) (p : Lib) (t : LTape) (s : St) (pop : List Nat) (lam : Nat)
    (choices : List Choice) (hlen : choices.length = lam) (hin : ∀ c ∈ choices, c.inRange pop.length) :
    (varOr (p.ops v) t s pop lam choices).isSome = true :=
  varOr_isSome t s pop lam choices hlen hin

/-- messy crossover of the copies of inputs 0 and 2 at (0, 0) swaps them whole; the limit `len <= 3` accepts both;
then a mutation and a reproduction -/
example : (∀ q ∈ [0, 1, 2], q < demoSt.next) ∧
    (varOr (demoLibLimit.ops demoViews) { draws := [.int 0, .int 0, .int 1, .int 1] } demoSt [0, 1, 2] 3
      [Choice.cx 0 2, Choice.mutn 1, Choice.rep 2]).isSome = true :=
  ⟨by decide, varOr_library_ops_total demoViews demoLibLimit _ demoSt [0, 1, 2] 3 _ rfl (by
    intro c hc
    simp only [List.mem_cons, List.not_mem_nil, or_false] at hc
    rcases hc with rfl | rfl | rfl <;> simp [Choice.inRange])⟩

/-- the decorator at work: the messy crossover at (3, 0) makes the first child `[1,2,3,7,8,9]`, over the limit 3, and
`random.choice` (draw `1`) replaces it by a NEW copy (oid 7) of the kept copy of the second clone — an object that
still carries the valid fitness `[30]` until `varOr` deletes the fitness of what was returned -/
example : (varOr (demoLibLimit.ops demoViews) { draws := [.int 3, .int 0, .int 1] } demoSt [0, 1, 2] 1
      [Choice.cx 0 2]).map (fun r => (r.off, r.off.map r.st.heap, r.st.next, r.tape.ok)) =
    some ([7], [⟨[7, 8, 9], none⟩], 8, true) := by decide

/-! ## Undecorated library operators: the offspring are the clones themselves -/

/-- With an undecorated library pair (all of `deap.tools` / `deap.gp` work in place) `varAnd` returns exactly the
clones it made of the inputs, in order — offspring `k` IS the clone of input `k`, whatever happened to its
genome — and allocates nothing else. -/
theorem varAnd_library_inplace_offspring (v : Views) (p : Lib) (hm : p.mateLimit = none) (hu : p.mutLimit = none)
    {t : LTape} {s : St} {pop : List Nat} {mateD mutD : List Bool} {r : Res LTape}
    (h : varAnd (p.ops v) t s pop mateD mutD = some r) :
    r.off = List.range' s.next pop.length ∧ r.st.next = s.next + pop.length :=
  varAnd_inplace (Lib.inplace v p hm hu) h

example : demoLib.mateLimit = none ∧ demoLib.mutLimit = none ∧
    (varAnd (demoLib.ops demoViews) demoTape demoSt [0, 1, 2] [true] [false, true, false]).isSome = true :=
  ⟨rfl, rfl, varAnd_library_ops_total demoViews demoLib demoTape demoSt [0, 1, 2] [true] [false, true, false] rfl rfl⟩

/-- … and offspring `k` of `varOr` is the first clone made in iteration `k`; only clones are allocated (two in a
crossover iteration — the second one is dropped —, one otherwise). -/
theorem varOr_library_inplace_offspring (v : Views) (p : Lib) (hm : p.mateLimit = none) (hu : p.mutLimit = none)
    {t : LTape} {s : St} {pop : List Nat} {lam : Nat} {choices : List Choice} {r : Res LTape}
    (h : varOr (p.ops v) t s pop lam choices = some r) :
    r.off = firstClones s.next choices ∧ r.st.next = s.next + totalClones choices :=
  varOr_inplace (Lib.inplace v p hm hu) h

example : firstClones 3 [Choice.cx 0 2, Choice.mutn 1, Choice.rep 2] = [3, 5, 6] ∧
    totalClones [Choice.cx 0 2, Choice.mutn 1, Choice.rep 2] = 4 := by decide

example : demoLib.mateLimit = none ∧ demoLib.mutLimit = none ∧
    (varOr (demoLib.ops demoViews) demoTape demoSt [0, 1, 2] 3
      [Choice.cx 0 2, Choice.mutn 1, Choice.rep 2]).isSome = true :=
  ⟨rfl, rfl, varOr_library_ops_total demoViews demoLib _ demoSt [0, 1, 2] 3 _ rfl (by
    intro c hc
    simp only [List.mem_cons, List.not_mem_nil, or_false] at hc
    rcases hc with rfl | rfl | rfl <;> simp [Choice.inRange])⟩

end C02
