/-
C02 — Variation never touches parents and never leaves a stale fitness.
Property theorems only; the model is `DeapModel/Core/Variation.lean` (`varAnd`, `varOr` of
`deap/algorithms.py`), helper lemmas are in `DeapModel/Lemmas/C02.lean`.

Every theorem is for ALL populations (any length, repeated oids allowed), ALL decision tapes, ALL
operator states and ALL operator pairs meeting `OpContract` (an operator returns its arguments or objects
it allocated itself — in-place operators as well as copy-and-return ones — and writes no other object).  "The input list itself is unchanged" holds by construction:
`pop` is an immutable argument of the model, never part of the state that is written.

Reading of the clauses in the model:
* "never modify any individual of the population"    → `*_parents_unchanged` (every oid allocated
  before the call — in particular every input — has the same genome and fitness afterwards);
* "exactly the requested number of offspring"        → `*_count`;
* "each an object independent of every input"        → `*_fresh`, `*_not_input`, `*_distinct`
  (every returned oid was allocated during the call — by `toolbox.clone` or by an operator that returns a
  new object —, so it is no input and no other pre-existing object, and the returned oids are pairwise
  distinct);
* "went through crossover or mutation ⇒ invalid"     → `*_touched_invalid`: about the object that ENDS UP
  in the offspring list, i.e. the one the operator RETURNED (not the one passed to it);
* "valid fitness ⇒ genotype and fitness of an input" → `*_valid_is_parent_copy`.

"Every registered mate/mutate operator pair": the second half of the file removes the `OpContract` hypothesis for
the library's own operators.  `lifted_inplace_meets_contract` shows once that EVERY in-place genome operator, lifted
to a heap transformer, meets the contract; `staticLimit_meets_contract` that the `gp.staticLimit` decorator (which is
not in place) preserves it; `library_ops_meet_contract` instantiates them for every operator model of C09
(`Core/CrossMut.lean`), C10 (`Core/RealOps.lean`) and C11 (`Core/GpTree.lean`); `varAnd_library_ops` /
`varOr_library_ops` are the composed statements: all clauses, for every population, every decision tape, every
library crossover and mutation (plain or decorated) and every operator tape, with no hypothesis on the operators.

Last section: operators decorated with `tools.History().decorator` (model `Core/History.lean`).  `history_decorator_meets_contract`
(the decorator preserves `OpContract`), `varAnd_history_ops` / `varOr_history_ops` (all clauses with History-decorated library
operators), what `History.update` builds (`history_entries_fresh`, `history_index_monotone`, `genealogy_tree_parents`,
`history_parents_below`) and `getGenealogy` (`getGenealogy_submap`, `getGenealogy_terminates`, `getGenealogy_closed`,
`getGenealogy_cyclic_never_returns`).
-/
import DeapModel.Lemmas.C02Ops
import DeapModel.Lemmas.C02History
import DeapModel.Lemmas.C02Gen   -- translator tie: lemmas of GenEq/C02.lean.tmpl (elaborated per run by the check)

namespace C02
open Variation

variable {σ : Type} {ops : Ops σ}

/-! ## Concrete instances used by the `example`s -/

/-- In-place operators (what `deap.tools` provides): one-point-like crossover exchanging the tails, and a
mutation negating every gene; both return their arguments. -/
def demoOps : Ops Unit where
  mate := fun t h n a b =>
    ⟨t, (h.set a { h a with genome := (h a).genome.take 1 ++ (h b).genome.drop 1 }).set b
          { h b with genome := (h b).genome.take 1 ++ (h a).genome.drop 1 }, n, a, b⟩
  mutate := fun t h n a => ⟨t, h.set a { h a with genome := (h a).genome.map (fun x => -x) }, n, a⟩

theorem demoOps_contract : OpContract demoOps where
  mate_next := fun _ _ _ _ _ => Nat.le_refl _
  mate_fst := fun _ _ _ _ _ => Or.inl rfl
  mate_snd := fun _ _ _ _ _ => Or.inr (Or.inl rfl)
  mate_distinct := fun _ _ _ _ _ hab => hab
  mate_frame := fun _ h _ a b o ha hb _ => by simp [demoOps, Heap.set, ha, hb]
  mutate_next := fun _ _ _ _ => Nat.le_refl _
  mutate_ret := fun _ _ _ _ => Or.inl rfl
  mutate_frame := fun _ h _ a o ha _ => by simp [demoOps, Heap.set, ha]

/-- Pure (copy-and-return) operators: the arguments are left as they are, the children are NEW objects that
still carry the parents' fitness — what `gp.staticLimit` hands back when the limit rejects a child, or a
user operator working on copies. -/
def pureOps : Ops Unit where
  mate := fun t h n a b =>
    ⟨t, (h.set n { h a with genome := (h a).genome.take 1 ++ (h b).genome.drop 1 }).set (n + 1)
          { h b with genome := (h b).genome.take 1 ++ (h a).genome.drop 1 }, n + 2, n, n + 1⟩
  mutate := fun t h n a => ⟨t, h.set n { h a with genome := (h a).genome.map (fun x => -x) }, n + 1, n⟩

theorem pureOps_contract : OpContract pureOps where
  mate_next := fun _ _ _ _ _ => by simp [pureOps]
  mate_fst := fun _ _ n _ _ => Or.inr (Or.inr ⟨Nat.le_refl _, by simp [pureOps]⟩)
  mate_snd := fun _ _ n _ _ => Or.inr (Or.inr ⟨by simp [pureOps], by simp [pureOps]⟩)
  mate_distinct := fun _ _ n _ _ _ => by simp [pureOps]
  mate_frame := fun _ h n a b o _ _ hn => by
    have h1 : o ≠ n := by omega
    have h2 : o ≠ n + 1 := by omega
    simp [pureOps, Heap.set, h1, h2]
  mutate_next := fun _ _ _ _ => by simp [pureOps]
  mutate_ret := fun _ _ n _ => Or.inr ⟨Nat.le_refl _, by simp [pureOps]⟩
  mutate_frame := fun _ h n a o _ hn => by
    have h1 : o ≠ n := by omega
    simp [pureOps, Heap.set, h1]

/-- Three individuals: evaluated, unevaluated, evaluated (a mixed population). -/
def demoHeap : Heap := fun o =>
  match o with
  | 0 => ⟨[1, 2, 3], some [10], none⟩
  | 1 => ⟨[4, 5, 6], none, none⟩
  | 2 => ⟨[7, 8, 9], some [30], none⟩
  | _ => ⟨[], none, none⟩

def demoSt : St := { heap := demoHeap, next := 3 }

/-- `varAnd` on `[0, 1, 2]`: the pair (0,1) is mated, nobody is mutated, individual 2 is reproduced.
`varOr` with λ = 3: crossover of positions 0,2; mutation of position 1; reproduction of position 2. -/
def demoAnd : Option (Res Unit) := varAnd demoOps () demoSt [0, 1, 2] [true] [false, false, false]
def demoOr : Option (Res Unit) :=
  varOr demoOps () demoSt [0, 1, 2] 3 [Choice.cx 0 2, Choice.mutn 1, Choice.rep 2]

example : (∀ p ∈ [0, 1, 2], p < demoSt.next) := by decide
example : demoAnd.map (·.off) = some [3, 4, 5] := by decide
example : demoAnd.map (fun r => [3, 4, 5].map r.st.heap) =
    some [⟨[1, 5, 6], none, none⟩, ⟨[4, 2, 3], none, none⟩, ⟨[7, 8, 9], some [30], none⟩] := by decide
example : demoAnd.map (fun r => [0, 1, 2].map r.st.heap) = some ([0, 1, 2].map demoHeap) := by decide
example : demoOr.map (·.off) = some [3, 5, 6] := by decide
example : demoOr.map (fun r => [3, 5, 6].map r.st.heap) =
    some [⟨[1, 8, 9], none, none⟩, ⟨[-4, -5, -6], none, none⟩, ⟨[7, 8, 9], some [30], none⟩] := by decide
example : demoOr.map (fun r => [0, 1, 2].map r.st.heap) = some ([0, 1, 2].map demoHeap) := by decide
/-- the same object repeated in the population: still three distinct fresh offspring -/
example : (varAnd demoOps () demoSt [0, 0, 0] [false] [false, true, false]).map (·.off) = some [3, 4, 5] := by
  decide
/-- pure operators: the offspring are the objects the operators RETURNED (6, 7 from mate, then 8 from
mutating 7), and it is their fitness that is deleted although they were copies of evaluated parents -/
example : (varAnd pureOps () demoSt [0, 2, 2] [true] [false, true, false]).map
    (fun r => (r.off, r.off.map r.st.heap)) =
    some ([6, 8, 5], [⟨[1, 8, 9], none, none⟩, ⟨[-7, -2, -3], none, none⟩, ⟨[7, 8, 9], some [30], none⟩]) := by decide
example : (varOr pureOps () demoSt [0, 1, 2] 2 [Choice.cx 0 2, Choice.mutn 2]).map
    (fun r => (r.off, r.off.map r.st.heap)) =
    some ([5, 8], [⟨[1, 8, 9], none, none⟩, ⟨[-7, -8, -9], none, none⟩]) := by decide

/-! ## varAnd -/

/-- `varAnd` returns exactly as many offspring as it was given individuals. -/
theorem varAnd_count (hc : OpContract ops) {t : σ} {s : St} {pop : List Nat}
    {mateD mutD : List Bool} {r : Res σ} (h : varAnd ops t s pop mateD mutD = some r) :
    r.off.length = pop.length := (varAnd_master hc h).1

example : OpContract demoOps ∧ demoAnd.isSome = true := ⟨demoOps_contract, by decide⟩
example : OpContract pureOps ∧ (varAnd pureOps () demoSt [0, 2, 2] [true] [false, true, false]).isSome = true :=
  ⟨pureOps_contract, by decide⟩

/-- The fresh-oid counter only grows. -/
theorem varAnd_next_le (hc : OpContract ops) {t : σ} {s : St} {pop : List Nat}
    {mateD mutD : List Bool} {r : Res σ} (h : varAnd ops t s pop mateD mutD = some r) :
    s.next ≤ r.st.next := (varAnd_master hc h).2.1

/-- No object that existed before the call — in particular no input individual — is modified:
its genome and its fitness are what they were. -/
theorem varAnd_parents_unchanged (hc : OpContract ops) {t : σ} {s : St} {pop : List Nat}
    {mateD mutD : List Bool} {r : Res σ} (h : varAnd ops t s pop mateD mutD = some r) :
    ∀ o, o < s.next → r.st.heap o = s.heap o := (varAnd_master hc h).2.2.1

/-- … stated for the inputs: every individual of the given population is unchanged. -/
theorem varAnd_inputs_unchanged (hc : OpContract ops) {t : σ} {s : St} {pop : List Nat}
    {mateD mutD : List Bool} {r : Res σ} (hpop : ∀ p ∈ pop, p < s.next)
    (h : varAnd ops t s pop mateD mutD = some r) : ∀ p ∈ pop, r.st.heap p = s.heap p :=
  fun p hp => varAnd_parents_unchanged hc h p (hpop p hp)

/-- Every returned oid was allocated during this call (by `toolbox.clone` or by an operator). -/
theorem varAnd_fresh (hc : OpContract ops) {t : σ} {s : St} {pop : List Nat}
    {mateD mutD : List Bool} {r : Res σ} (h : varAnd ops t s pop mateD mutD = some r) :
    ∀ o ∈ r.off, s.next ≤ o ∧ o < r.st.next := (varAnd_master hc h).2.2.2.1

/-- No offspring is an input individual (this is what F1 broke for `varOr`). -/
theorem varAnd_not_input (hc : OpContract ops) {t : σ} {s : St} {pop : List Nat}
    {mateD mutD : List Bool} {r : Res σ} (hpop : ∀ p ∈ pop, p < s.next)
    (h : varAnd ops t s pop mateD mutD = some r) : ∀ o ∈ r.off, o ∉ pop := by
  intro o ho hin
  have := (varAnd_fresh hc h o ho).1
  have := hpop o hin
  omega

/-- The offspring are pairwise distinct objects (uses that `mate` returns two different individuals). -/
theorem varAnd_distinct (hc : OpContract ops) {t : σ} {s : St} {pop : List Nat}
    {mateD mutD : List Bool} {r : Res σ} (h : varAnd ops t s pop mateD mutD = some r) :
    r.off.Nodup := (varAnd_master hc h).2.2.2.2.1

/-- Core per-offspring fact about the object `o` that ENDS UP at position `k` of the returned list: if
position `k` went through `mate`/`mutate`, `o` — the object the operator returned, whether or not it is the
one that was passed in — has no fitness; if it went through neither, `o` is an exact copy (genome and
fitness) of input `k`. -/
theorem varAnd_offspring_spec (hc : OpContract ops) {t : σ} {s : St} {pop : List Nat}
    {mateD mutD : List Bool} {r : Res σ} (hpop : ∀ p ∈ pop, p < s.next)
    (h : varAnd ops t s pop mateD mutD = some r) (k : Nat) (hk : k < pop.length) :
    ∃ o, r.off[k]? = some o ∧
    ((wasMated mateD pop.length k = true ∨ mutD[k]? = some true) → (r.st.heap o).fit = none) ∧
    ((wasMated mateD pop.length k = false ∧ mutD[k]? = some false) → r.st.heap o = s.heap pop[k]) ∧
    (mutD[k]? = some true ∨ mutD[k]? = some false) := by
  obtain ⟨hlen, _, _, _, _, hidx⟩ := varAnd_master hc h
  have hk' : k < r.off.length := by omega
  obtain ⟨h1, h2, h3⟩ := hidx k hk hk'
  exact ⟨r.off[k], List.getElem?_eq_getElem hk', h1, h2 hpop, h3⟩

/-- Every offspring that went through a crossover or a mutation comes back with an invalid fitness. -/
theorem varAnd_touched_invalid (hc : OpContract ops) {t : σ} {s : St} {pop : List Nat}
    {mateD mutD : List Bool} {r : Res σ} (hpop : ∀ p ∈ pop, p < s.next)
    (h : varAnd ops t s pop mateD mutD = some r) (k o : Nat) (ho : r.off[k]? = some o)
    (htouched : wasMated mateD pop.length k = true ∨ mutD[k]? = some true) :
    (r.st.heap o).fit = none := by
  have hk : k < pop.length := by
    have := (List.getElem?_eq_some_iff.1 ho).1
    rw [varAnd_count hc h] at this; exact this
  obtain ⟨o', h1, h2, _, _⟩ := varAnd_offspring_spec hc hpop h k hk
  rw [h1] at ho
  cases ho
  exact h2 htouched

example : wasMated [true] 3 0 = true ∧ wasMated [true] 3 1 = true ∧ wasMated [true] 3 2 = false := by decide

/-- An offspring that went through neither operator is an exact copy of the input at the same
position: same genome, same fitness. -/
theorem varAnd_untouched_is_clone (hc : OpContract ops) {t : σ} {s : St} {pop : List Nat}
    {mateD mutD : List Bool} {r : Res σ} (hpop : ∀ p ∈ pop, p < s.next)
    (h : varAnd ops t s pop mateD mutD = some r) (k o p : Nat) (ho : r.off[k]? = some o)
    (hp : pop[k]? = some p)
    (hun : wasMated mateD pop.length k = false ∧ mutD[k]? = some false) :
    r.st.heap o = s.heap p := by
  obtain ⟨hk, hpk⟩ := List.getElem?_eq_some_iff.1 hp
  obtain ⟨o', h1, _, h3, _⟩ := varAnd_offspring_spec hc hpop h k hk
  rw [h1] at ho
  cases ho
  rw [h3 hun, hpk]

/-- Every offspring that comes back with a valid fitness has exactly the genotype and the fitness
of an input individual (the one at its own position), as they were before and are after the call. -/
theorem varAnd_valid_is_parent_copy (hc : OpContract ops) {t : σ} {s : St} {pop : List Nat}
    {mateD mutD : List Bool} {r : Res σ} (hpop : ∀ p ∈ pop, p < s.next)
    (h : varAnd ops t s pop mateD mutD = some r) (k o : Nat) (f : List Int)
    (ho : r.off[k]? = some o) (hf : (r.st.heap o).fit = some f) :
    ∃ p, pop[k]? = some p ∧ r.st.heap o = s.heap p ∧ r.st.heap o = r.st.heap p := by
  have hk : k < pop.length := by
    have := (List.getElem?_eq_some_iff.1 ho).1
    rw [varAnd_count hc h] at this; exact this
  obtain ⟨o', h1, h2, h3, h4⟩ := varAnd_offspring_spec hc hpop h k hk
  rw [h1] at ho
  cases ho
  have hcopy := h3 (by
    constructor
    · cases hw : wasMated mateD pop.length k with
      | false => rfl
      | true => rw [h2 (Or.inl hw)] at hf; simp at hf
    · rcases h4 with h4 | h4
      · rw [h2 (Or.inr h4)] at hf; simp at hf
      · exact h4)
  refine ⟨pop[k], List.getElem?_eq_getElem hk, hcopy, ?_⟩
  rw [hcopy, varAnd_parents_unchanged hc h _ (hpop _ (List.getElem_mem hk))]

/-- With one decision per visited pair and one per index, `varAnd` always returns. -/
theorem varAnd_isSome (t : σ) (s : St) (pop : List Nat) (mateD mutD : List Bool)
    (hm : mateD.length = pop.length / 2) (hu : mutD.length = pop.length) (hc : OpContract ops) :
    (varAnd ops t s pop mateD mutD).isSome = true := by
  simp only [varAnd]
  have h1 := mateLoop_isSome ops (cloneAll s pop).2 mateD t (cloneAll s pop).1
    (by rw [cloneAll_off]; simp; omega)
  split
  · next hn => simp [hn] at h1
  next m hm' =>
    have hnd : (cloneAll s pop).2.Nodup := by rw [cloneAll_off]; exact List.nodup_range' 1
    have hll : ∀ x ∈ (cloneAll s pop).2, x < (cloneAll s pop).1.next := by
      intro x hx; rw [cloneAll_off, List.mem_range'_1] at hx; rw [cloneAll_next]; omega
    obtain ⟨o1, _⟩ := mateLoop_spec hc _ _ _ _ m hnd hll hm'
    exact mutLoop_isSome ops _ _ _ _ (by rw [o1.len, cloneAll_off]; simp; omega)

/-- The decisions decoded from the recorded `random()` results have exactly these lengths. -/
theorem decodeAnd_lengths (cxpb mutpb : Float) (n : Nat) (draws : List Float) (m u : List Bool)
    (h : decodeAnd cxpb mutpb n draws = some (m, u)) : m.length = n / 2 ∧ u.length = n := by
  simp only [decodeAnd] at h
  split at h
  next hl =>
    simp only [Option.some.injEq, Prod.mk.injEq] at h
    obtain ⟨h1, h2⟩ := h
    subst h1; subst h2
    simp; omega
  · simp at h

/-! ## varOr -/

/-- `varOr` returns exactly `lambda_` offspring. -/
theorem varOr_count (hc : OpContract ops) {t : σ} {s : St} {pop : List Nat} {lam : Nat}
    {choices : List Choice} {r : Res σ} (hpop : ∀ p ∈ pop, p < s.next)
    (h : varOr ops t s pop lam choices = some r) : r.off.length = lam := by
  simp only [varOr] at h
  split at h
  next hl => rw [(varOrLoop_spec hc pop _ _ _ _ h hpop).1, hl]
  · simp at h

example : OpContract demoOps ∧ (∀ p ∈ [0, 1, 2], p < demoSt.next) ∧ demoOr.isSome = true :=
  ⟨demoOps_contract, by decide, by decide⟩

/-- No object that existed before the call — in particular no input individual — is modified. -/
theorem varOr_parents_unchanged (hc : OpContract ops) {t : σ} {s : St} {pop : List Nat} {lam : Nat}
    {choices : List Choice} {r : Res σ} (hpop : ∀ p ∈ pop, p < s.next)
    (h : varOr ops t s pop lam choices = some r) : ∀ o, o < s.next → r.st.heap o = s.heap o := by
  simp only [varOr] at h
  split at h
  · exact (varOrLoop_spec hc pop _ _ _ _ h hpop).2.2.1
  · simp at h

theorem varOr_inputs_unchanged (hc : OpContract ops) {t : σ} {s : St} {pop : List Nat} {lam : Nat}
    {choices : List Choice} {r : Res σ} (hpop : ∀ p ∈ pop, p < s.next)
    (h : varOr ops t s pop lam choices = some r) : ∀ p ∈ pop, r.st.heap p = s.heap p :=
  fun p hp => varOr_parents_unchanged hc hpop h p (hpop p hp)

/-- Every returned oid was allocated during this call (also in the reproduction branch — F1). -/
theorem varOr_fresh (hc : OpContract ops) {t : σ} {s : St} {pop : List Nat} {lam : Nat}
    {choices : List Choice} {r : Res σ} (hpop : ∀ p ∈ pop, p < s.next)
    (h : varOr ops t s pop lam choices = some r) : ∀ o ∈ r.off, s.next ≤ o ∧ o < r.st.next := by
  simp only [varOr] at h
  split at h
  · exact (varOrLoop_spec hc pop _ _ _ _ h hpop).2.2.2.1
  · simp at h

/-- No offspring is an input individual. -/
theorem varOr_not_input (hc : OpContract ops) {t : σ} {s : St} {pop : List Nat} {lam : Nat}
    {choices : List Choice} {r : Res σ} (hpop : ∀ p ∈ pop, p < s.next)
    (h : varOr ops t s pop lam choices = some r) : ∀ o ∈ r.off, o ∉ pop := by
  intro o ho hin
  have := (varOr_fresh hc hpop h o ho).1
  have := hpop o hin
  omega

/-- The offspring are pairwise distinct objects (allocated in increasing order). -/
theorem varOr_distinct (hc : OpContract ops) {t : σ} {s : St} {pop : List Nat} {lam : Nat}
    {choices : List Choice} {r : Res σ} (hpop : ∀ p ∈ pop, p < s.next)
    (h : varOr ops t s pop lam choices = some r) : r.off.Nodup := by
  simp only [varOr] at h
  split at h
  · have := (varOrLoop_spec hc pop _ _ _ _ h hpop).2.2.2.2.1
    exact this.imp (fun hlt => Nat.ne_of_lt hlt)
  · simp at h

/-- An offspring produced by the crossover or the mutation branch has an invalid fitness. -/
theorem varOr_touched_invalid (hc : OpContract ops) {t : σ} {s : St} {pop : List Nat} {lam : Nat}
    {choices : List Choice} {r : Res σ} (hpop : ∀ p ∈ pop, p < s.next)
    (h : varOr ops t s pop lam choices = some r) (k o : Nat) (ho : r.off[k]? = some o)
    (htouched : (∃ i j, choices[k]? = some (Choice.cx i j)) ∨ (∃ i, choices[k]? = some (Choice.mutn i))) :
    (r.st.heap o).fit = none := by
  simp only [varOr] at h
  split at h
  · have hsp := (varOrLoop_spec hc pop _ _ _ _ h hpop).2.2.2.2.2
    rcases htouched with ⟨i, j, hc'⟩ | ⟨i, hc'⟩
    · exact hsp k _ o hc' ho
    · exact hsp k _ o hc' ho
  · simp at h

/-- An offspring produced by the reproduction branch is an exact copy of the chosen input. -/
theorem varOr_reproduced_is_clone (hc : OpContract ops) {t : σ} {s : St} {pop : List Nat} {lam : Nat}
    {choices : List Choice} {r : Res σ} (hpop : ∀ p ∈ pop, p < s.next)
    (h : varOr ops t s pop lam choices = some r) (k o i : Nat) (ho : r.off[k]? = some o)
    (hrep : choices[k]? = some (Choice.rep i)) :
    ∃ p, pop[i]? = some p ∧ r.st.heap o = s.heap p := by
  simp only [varOr] at h
  split at h
  · exact (varOrLoop_spec hc pop _ _ _ _ h hpop).2.2.2.2.2 k _ o hrep ho
  · simp at h

/-- Every offspring that comes back with a valid fitness has exactly the genotype and the fitness
of an input individual, as they were before and are after the call. -/
theorem varOr_valid_is_parent_copy (hc : OpContract ops) {t : σ} {s : St} {pop : List Nat} {lam : Nat}
    {choices : List Choice} {r : Res σ} (hpop : ∀ p ∈ pop, p < s.next)
    (h : varOr ops t s pop lam choices = some r) (k o : Nat) (f : List Int)
    (ho : r.off[k]? = some o) (hf : (r.st.heap o).fit = some f) :
    ∃ p ∈ pop, r.st.heap o = s.heap p ∧ r.st.heap o = r.st.heap p := by
  have hpu := varOr_parents_unchanged hc hpop h
  have hcount := varOr_count hc hpop h
  have hlen : choices.length = lam := by
    simp only [varOr] at h
    split at h
    · assumption
    · simp at h
  have hk : k < choices.length := by
    have := (List.getElem?_eq_some_iff.1 ho).1
    omega
  have hck : choices[k]? = some choices[k] := List.getElem?_eq_getElem hk
  cases hc' : choices[k] with
  | cx i j =>
    rw [hc'] at hck
    rw [varOr_touched_invalid hc hpop h k o ho (Or.inl ⟨i, j, hck⟩)] at hf; simp at hf
  | mutn i =>
    rw [hc'] at hck
    rw [varOr_touched_invalid hc hpop h k o ho (Or.inr ⟨i, hck⟩)] at hf; simp at hf
  | rep i =>
    rw [hc'] at hck
    obtain ⟨p, hp, hh⟩ := varOr_reproduced_is_clone hc hpop h k o i ho hck
    have hmem : p ∈ pop := List.mem_of_getElem? hp
    exact ⟨p, hmem, hh, by rw [hh, hpu p (hpop p hmem)]⟩

/-- With exactly `lambda_` choices whose positions lie inside the population, `varOr` returns. -/
theorem varOr_isSome (t : σ) (s : St) (pop : List Nat) (lam : Nat) (choices : List Choice)
    (hlen : choices.length = lam) (hin : ∀ c ∈ choices, c.inRange pop.length) :
    (varOr ops t s pop lam choices).isSome = true := by
  simp only [varOr, hlen, if_true]
  exact varOrLoop_isSome ops pop choices t s hin

example : [Choice.cx 0 2, Choice.mutn 1, Choice.rep 2].length = 3 ∧
    ∀ c ∈ [Choice.cx 0 2, Choice.mutn 1, Choice.rep 2], c.inRange 3 := by
  refine ⟨rfl, ?_⟩
  intro c hc
  simp only [List.mem_cons, List.not_mem_nil, or_false] at hc
  rcases hc with rfl | rfl | rfl <;> simp [Choice.inRange]

/-- The choices decoded from a recorded tape are exactly `lambda_` many, every crossover choice
names two different positions (what `random.sample` guarantees). -/
theorem decodeOr_length (cxpb mutpb : Float) : ∀ (lam : Nat) (draws : List Draw) (cs : List Choice),
    decodeOr cxpb mutpb lam draws = some cs →
      cs.length = lam ∧ ∀ i j, Choice.cx i j ∈ cs → i ≠ j
  | 0, [], cs, h => by simp [decodeOr] at h; subst h; simp
  | 0, _ :: _, cs, h => by simp [decodeOr] at h
  | n + 1, [], cs, h => by simp [decodeOr] at h
  | n + 1, Draw.sample _ _ :: _, cs, h => by simp [decodeOr] at h
  | n + 1, Draw.choice _ :: _, cs, h => by simp [decodeOr] at h
  | n + 1, Draw.rnd x :: rest, cs, h => by
    simp only [decodeOr] at h
    split at h
    next i j rest' hb hr =>
      split at h
      · simp at h
      next hij =>
        simp only [Option.map_eq_some_iff] at h
        obtain ⟨cs', hcs', rfl⟩ := h
        obtain ⟨hl, hd⟩ := decodeOr_length cxpb mutpb n _ cs' hcs'
        refine ⟨by simp [hl], ?_⟩
        intro i' j' hm
        simp only [List.mem_cons, Choice.cx.injEq] at hm
        rcases hm with ⟨rfl, rfl⟩ | hm
        · exact hij
        · exact hd _ _ hm
    next i rest' hb hr =>
      simp only [Option.map_eq_some_iff] at h
      obtain ⟨cs', hcs', rfl⟩ := h
      obtain ⟨hl, hd⟩ := decodeOr_length cxpb mutpb n _ cs' hcs'
      refine ⟨by simp [hl], ?_⟩
      intro i' j' hm
      simp only [List.mem_cons, reduceCtorEq, false_or] at hm
      exact hd _ _ hm
    next i rest' hb hr =>
      simp only [Option.map_eq_some_iff] at h
      obtain ⟨cs', hcs', rfl⟩ := h
      obtain ⟨hl, hd⟩ := decodeOr_length cxpb mutpb n _ cs' hcs'
      refine ⟨by simp [hl], ?_⟩
      intro i' j' hm
      simp only [List.mem_cons, reduceCtorEq, false_or] at hm
      exact hd _ _ hm
    · simp at h

/-! ## The library's own operators: no contract hypothesis left -/

/-- Every lifting of an in-place genome operator pair — a function from the contents of the argument sequences
(and a tape) to their contents after the call, written back into the very argument objects — meets `OpContract`. -/
theorem lifted_inplace_meets_contract {τ : Type} (f : GOp2 τ) (g : GOp1 τ) : OpContract (liftOps f g) :=
  Variation.lifted_inplace_meets_contract f g

/-- … and such an operator allocates nothing, returns its arguments, and changes no fitness at all. -/
theorem lifted_inplace_is_inplace {τ : Type} (f : GOp2 τ) (g : GOp1 τ) (t : τ) (h : Heap) (n a b o : Nat) :
    ((liftOps f g).mate t h n a b).next = n ∧ ((liftOps f g).mate t h n a b).fst = a ∧
    ((liftOps f g).mate t h n a b).snd = b ∧ (((liftOps f g).mate t h n a b).heap o).fit = (h o).fit ∧
    ((liftOps f g).mutate t h n a).next = n ∧ ((liftOps f g).mutate t h n a).ret = a ∧
    (((liftOps f g).mutate t h n a).heap o).fit = (h o).fit :=
  ⟨rfl, rfl, rfl, liftMate_fit f t h n a b o, rfl, rfl, liftMutate_fit g t h n a o⟩

/-- `gp.staticLimit` around ANY operator pair that meets the contract meets it again, although it hands back new
copies of kept parent copies (for every measurement and limit, every way `random.choice` answers, and whether the
crossover, the mutation or both are decorated). -/
theorem staticLimit_meets_contract (hc : OpContract ops) (Lm Lu : Limit σ) :
    OpContract (⟨limitMate Lm ops.mate, ops.mutate⟩ : Ops σ) ∧
    OpContract (⟨ops.mate, limitMutate Lu ops.mutate⟩ : Ops σ) ∧
    OpContract (⟨limitMate Lm ops.mate, limitMutate Lu ops.mutate⟩ : Ops σ) :=
  ⟨OpContract.of_halves (limitMate_contract Lm hc.mateHalf) hc.mutHalf,
   OpContract.of_halves hc.mateHalf (limitMutate_contract Lu hc.mutHalf),
   OpContract.of_halves (limitMate_contract Lm hc.mateHalf) (limitMutate_contract Lu hc.mutHalf)⟩

example : OpContract demoOps := demoOps_contract

/-- What the decorator hands back in place of an over-limit child is a deep copy — genome AND fitness — of one
of the copies it kept (so it may carry a valid fitness: `varAnd`/`varOr` must delete the fitness of the RETURNED
object, which is what `*_touched_invalid` states). -/
theorem staticLimit_replacement_is_kept_copy (L : Limit σ) (keep : List Nat) (t : σ) (h : Heap) (nx x : Nat)
    (hne : keep ≠ []) (hnew : (limitFix L keep t h nx x).ret ≠ x) :
    ∃ k ∈ keep, (limitFix L keep t h nx x).heap (limitFix L keep t h nx x).ret = h k :=
  limitFix_copy L keep t h nx x hne hnew

/-- a limit on the length that `[1, 2, 3]` exceeds; `random.choice` always answers the first kept copy -/
def demoLimit : Limit Unit := ⟨fun g => decide (2 < g.length), fun t _ => (t, 0)⟩

example : [3] ≠ [] ∧ (limitFix demoLimit [3] () demoHeap 4 0).ret ≠ 0 := by decide

/-- Every library crossover and mutation (all operator models of C09, C10 and C11 listed in `LibMate` / `LibMut`),
plain or decorated with `gp.staticLimit`, under every coding of floats / trees as heap genomes: `OpContract` holds. -/
theorem library_ops_meet_contract (v : Views) (p : Lib) : OpContract (p.ops v) := Lib.ops_contract v p

/-- All clauses of the property for `varAnd` with the library's own operators — no hypothesis on the operators:
for every population, every decision tape, every library crossover and mutation (plain or decorated), every view
and every operator tape,
(1) no object that existed before the call (in particular no input individual) is modified,
(2) exactly `len(population)` offspring are returned,
(3) every offspring is an object allocated during the call, not an input, and the offspring are pairwise distinct,
(4) every offspring whose position went through the crossover or the mutation has an invalid fitness,
(5) every offspring with a valid fitness has exactly the genotype and fitness of the input at its position. -/
theorem varAnd_library_ops (v : Views) (p : Lib) {t : LTape} {s : St} {pop : List Nat} {mateD mutD : List Bool}
    {r : Res LTape} (hpop : ∀ q ∈ pop, q < s.next) (h : varAnd (p.ops v) t s pop mateD mutD = some r) :
    (∀ o, o < s.next → r.st.heap o = s.heap o) ∧
    r.off.length = pop.length ∧
    (∀ o ∈ r.off, s.next ≤ o ∧ o < r.st.next ∧ o ∉ pop) ∧ r.off.Nodup ∧
    (∀ (k o : Nat), r.off[k]? = some o → (wasMated mateD pop.length k = true ∨ mutD[k]? = some true) →
      (r.st.heap o).fit = none) ∧
    (∀ (k o : Nat) (f : List Int), r.off[k]? = some o → (r.st.heap o).fit = some f →
      ∃ q, pop[k]? = some q ∧ r.st.heap o = s.heap q ∧ r.st.heap o = r.st.heap q) := by
  have hc := library_ops_meet_contract v p
  exact ⟨varAnd_parents_unchanged hc h, varAnd_count hc h,
    fun o ho => ⟨(varAnd_fresh hc h o ho).1, (varAnd_fresh hc h o ho).2, varAnd_not_input hc hpop h o ho⟩,
    varAnd_distinct hc h,
    fun k o ho ht => varAnd_touched_invalid hc hpop h k o ho ht,
    fun k o f ho hf => varAnd_valid_is_parent_copy hc hpop h k o f ho hf⟩

/-- … and the call always returns: with one decision per visited pair and one per index there is a result. -/
theorem varAnd_library_ops_total (v : Views) (p : Lib) (t : LTape) (s : St) (pop : List Nat) (mateD mutD : List Bool)
    (hm : mateD.length = pop.length / 2) (hu : mutD.length = pop.length) :
    (varAnd (p.ops v) t s pop mateD mutD).isSome = true :=
  varAnd_isSome t s pop mateD mutD hm hu (library_ops_meet_contract v p)

/-- a view of trees that stores nothing (the examples use integer operators) -/
def demoViews : Views := { tree := ⟨fun _ => [], fun _ => []⟩ }

/-- one-point crossover and inversion, the crossover decorated with a length limit -/
def demoLib : Lib := { mate := .cxOnePoint, mutate := .mutInversion }
def demoLibLimit : Lib := { mate := .cxMessyOnePoint, mutate := .mutInversion, mateLimit := some (.len, 3) }

/-- `cxOnePoint` draws the cut point 1, `mutInversion` the indices 0 and 2 -/
def demoTape : LTape := { draws := [.int 1, .int 0, .int 2] }

example : (∀ q ∈ [0, 1, 2], q < demoSt.next) ∧
    (varAnd (demoLib.ops demoViews) demoTape demoSt [0, 1, 2] [true] [false, true, false]).isSome = true :=
  ⟨by decide, varAnd_library_ops_total demoViews demoLib demoTape demoSt [0, 1, 2] [true] [false, true, false] rfl rfl⟩

example : [true].length = [0, 1, 2].length / 2 ∧ [false, true, false].length = [0, 1, 2].length := by decide

/-- the composed model computes: pair (0, 1) crossed at 1, offspring 1 then inverted over [0, 2), input 2 copied -/
example : (varAnd (demoLib.ops demoViews) demoTape demoSt [0, 1, 2] [true] [false, true, false]).map
    (fun r => (r.off, r.off.map r.st.heap, r.tape.ok, r.tape.draws.length)) =
    some ([3, 4, 5], [⟨[1, 5, 6], none, none⟩, ⟨[2, 4, 3], none, none⟩, ⟨[7, 8, 9], some [30], none⟩], true, 0) := by decide

/-- All clauses of the property for `varOr` with the library's own operators (same quantification):
(1) no pre-existing object is modified, (2) exactly `lambda_` offspring, (3) all allocated during the call, no
input, pairwise distinct, (4) crossover / mutation branch ⇒ invalid fitness, (5) valid fitness ⇒ genotype and
fitness of an input individual. -/
theorem varOr_library_ops (v : Views) (p : Lib) {t : LTape} {s : St} {pop : List Nat} {lam : Nat}
    {choices : List Choice} {r : Res LTape} (hpop : ∀ q ∈ pop, q < s.next)
    (h : varOr (p.ops v) t s pop lam choices = some r) :
    (∀ o, o < s.next → r.st.heap o = s.heap o) ∧
    r.off.length = lam ∧
    (∀ o ∈ r.off, s.next ≤ o ∧ o < r.st.next ∧ o ∉ pop) ∧ r.off.Nodup ∧
    (∀ (k o : Nat), r.off[k]? = some o →
      ((∃ i j, choices[k]? = some (Choice.cx i j)) ∨ (∃ i, choices[k]? = some (Choice.mutn i))) →
      (r.st.heap o).fit = none) ∧
    (∀ (k o : Nat) (f : List Int), r.off[k]? = some o → (r.st.heap o).fit = some f →
      ∃ q ∈ pop, r.st.heap o = s.heap q ∧ r.st.heap o = r.st.heap q) := by
  have hc := library_ops_meet_contract v p
  exact ⟨varOr_parents_unchanged hc hpop h, varOr_count hc hpop h,
    fun o ho => ⟨(varOr_fresh hc hpop h o ho).1, (varOr_fresh hc hpop h o ho).2, varOr_not_input hc hpop h o ho⟩,
    varOr_distinct hc hpop h,
    fun k o ho ht => varOr_touched_invalid hc hpop h k o ho ht,
    fun k o f ho hf => varOr_valid_is_parent_copy hc hpop h k o f ho hf⟩

theorem varOr_library_ops_total (v : Views) (p : Lib) (t : LTape) (s : St) (pop : List Nat) (lam : Nat)
    (choices : List Choice) (hlen : choices.length = lam) (hin : ∀ c ∈ choices, c.inRange pop.length) :
    (varOr (p.ops v) t s pop lam choices).isSome = true :=
  varOr_isSome t s pop lam choices hlen hin

/-- messy crossover of the copies of inputs 0 and 2 at (0, 0) swaps them whole; the limit `len <= 3` accepts both;
then a mutation and a reproduction -/
example : (∀ q ∈ [0, 1, 2], q < demoSt.next) ∧
    (varOr (demoLibLimit.ops demoViews) { draws := [.int 0, .int 0, .int 1, .int 1] } demoSt [0, 1, 2] 3
      [Choice.cx 0 2, Choice.mutn 1, Choice.rep 2]).isSome = true :=
  ⟨by decide, varOr_library_ops_total demoViews demoLibLimit _ demoSt [0, 1, 2] 3 _ rfl (by
    intro c hc
    simp only [List.mem_cons, List.not_mem_nil, or_false] at hc
    rcases hc with rfl | rfl | rfl <;> simp [Choice.inRange])⟩

/-- the decorator at work: the messy crossover at (3, 0) makes the first child `[1,2,3,7,8,9]`, over the limit 3, and
`random.choice` (draw `1`) replaces it by a NEW copy (oid 7) of the kept copy of the second clone — an object that
still carries the valid fitness `[30]` until `varOr` deletes the fitness of what was returned -/
example : (varOr (demoLibLimit.ops demoViews) { draws := [.int 3, .int 0, .int 1] } demoSt [0, 1, 2] 1
      [Choice.cx 0 2]).map (fun r => (r.off, r.off.map r.st.heap, r.st.next, r.tape.ok)) =
    some ([7], [⟨[7, 8, 9], none, none⟩], 8, true) := by decide

/-! ## Undecorated library operators: the offspring are the clones themselves -/

/-- With an undecorated library pair (all of `deap.tools` / `deap.gp` work in place) `varAnd` returns exactly the
clones it made of the inputs, in order — offspring `k` IS the clone of input `k`, whatever happened to its
genome — and allocates nothing else. -/
theorem varAnd_library_inplace_offspring (v : Views) (p : Lib) (hm : p.mateLimit = none) (hu : p.mutLimit = none)
    {t : LTape} {s : St} {pop : List Nat} {mateD mutD : List Bool} {r : Res LTape}
    (h : varAnd (p.ops v) t s pop mateD mutD = some r) :
    r.off = List.range' s.next pop.length ∧ r.st.next = s.next + pop.length :=
  varAnd_inplace (Lib.inplace v p hm hu) h

example : demoLib.mateLimit = none ∧ demoLib.mutLimit = none ∧
    (varAnd (demoLib.ops demoViews) demoTape demoSt [0, 1, 2] [true] [false, true, false]).isSome = true :=
  ⟨rfl, rfl, varAnd_library_ops_total demoViews demoLib demoTape demoSt [0, 1, 2] [true] [false, true, false] rfl rfl⟩

/-- … and offspring `k` of `varOr` is the first clone made in iteration `k`; only clones are allocated (two in a
crossover iteration — the second one is dropped —, one otherwise). -/
theorem varOr_library_inplace_offspring (v : Views) (p : Lib) (hm : p.mateLimit = none) (hu : p.mutLimit = none)
    {t : LTape} {s : St} {pop : List Nat} {lam : Nat} {choices : List Choice} {r : Res LTape}
    (h : varOr (p.ops v) t s pop lam choices = some r) :
    r.off = firstClones s.next choices ∧ r.st.next = s.next + totalClones choices :=
  varOr_inplace (Lib.inplace v p hm hu) h

example : firstClones 3 [Choice.cx 0 2, Choice.mutn 1, Choice.rep 2] = [3, 5, 6] ∧
    totalClones [Choice.cx 0 2, Choice.mutn 1, Choice.rep 2] = 4 := by decide

example : demoLib.mateLimit = none ∧ demoLib.mutLimit = none ∧
    (varOr (demoLib.ops demoViews) demoTape demoSt [0, 1, 2] 3
      [Choice.cx 0 2, Choice.mutn 1, Choice.rep 2]).isSome = true :=
  ⟨rfl, rfl, varOr_library_ops_total demoViews demoLib _ demoSt [0, 1, 2] 3 _ rfl (by
    intro c hc
    simp only [List.mem_cons, List.not_mem_nil, or_false] at hc
    rcases hc with rfl | rfl | rfl <;> simp [Choice.inRange])⟩

/-! ## Operators decorated with `tools.History().decorator` -/

section HistoryOps
open History

/-- `toolbox.decorate("mate", history.decorator)` and / or `toolbox.decorate("mutate", history.decorator)` around ANY operator pair
meeting the contract meets it again: the decorator returns what the operator returned, stamps `history_index` on exactly those
objects and allocates the deep copies it stores — it writes no other object. -/
theorem history_decorator_meets_contract (hc : OpContract ops) (dm du : Bool) : OpContract (histOps dm du ops) :=
  histOps_contract hc dm du

example : OpContract demoOps := demoOps_contract

/-- All clauses of the property for `varAnd` with History-decorated library operators (crossover, mutation or both decorated,
each optionally decorated with `gp.staticLimit` underneath), for every history the decorator starts from — no operator hypothesis:
(1) no pre-existing object is modified — in particular no parent receives a `history_index` —, (2) `len(population)` offspring,
(3) all allocated during the call, no input, pairwise distinct, (4) crossover / mutation ⇒ invalid fitness, (5) valid fitness ⇒
the offspring equals the input at its position in every field (genotype, fitness, `history_index`). -/
theorem varAnd_history_ops (v : Views) (p : Lib) (dm du : Bool) {t : LTape × Hist} {s : St} {pop : List Nat}
    {mateD mutD : List Bool} {r : Res (LTape × Hist)} (hpop : ∀ q ∈ pop, q < s.next)
    (h : varAnd (histOps dm du (p.ops v)) t s pop mateD mutD = some r) :
    (∀ o, o < s.next → r.st.heap o = s.heap o) ∧
    r.off.length = pop.length ∧
    (∀ o ∈ r.off, s.next ≤ o ∧ o < r.st.next ∧ o ∉ pop) ∧ r.off.Nodup ∧
    (∀ (k o : Nat), r.off[k]? = some o → (wasMated mateD pop.length k = true ∨ mutD[k]? = some true) →
      (r.st.heap o).fit = none) ∧
    (∀ (k o : Nat) (f : List Int), r.off[k]? = some o → (r.st.heap o).fit = some f →
      ∃ q, pop[k]? = some q ∧ r.st.heap o = s.heap q ∧ r.st.heap o = r.st.heap q) := by
  have hc := history_decorator_meets_contract (library_ops_meet_contract v p) dm du
  exact ⟨varAnd_parents_unchanged hc h, varAnd_count hc h,
    fun o ho => ⟨(varAnd_fresh hc h o ho).1, (varAnd_fresh hc h o ho).2, varAnd_not_input hc hpop h o ho⟩,
    varAnd_distinct hc h,
    fun k o ho ht => varAnd_touched_invalid hc hpop h k o ho ht,
    fun k o f ho hf => varAnd_valid_is_parent_copy hc hpop h k o f ho hf⟩

/-- … and the call always returns. -/
theorem varAnd_history_ops_total (v : Views) (p : Lib) (dm du : Bool) (t : LTape × Hist) (s : St) (pop : List Nat)
    (mateD mutD : List Bool) (hm : mateD.length = pop.length / 2) (hu : mutD.length = pop.length) :
    (varAnd (histOps dm du (p.ops v)) t s pop mateD mutD).isSome = true :=
  varAnd_isSome t s pop mateD mutD hm hu (history_decorator_meets_contract (library_ops_meet_contract v p) dm du)

/-- one-point crossover of the clones of 0 and 1, inversion of the clone of 1, both decorated: the clones (3, 4, then 4 again) are
stamped 1, 2, 3; the history holds the copies 6, 7, 8; `genealogy_tree = {1: (), 2: (), 3: (2,)}` -/
example : (∀ q ∈ [0, 1, 2], q < demoSt.next) ∧
    (varAnd (histOps true true (demoLib.ops demoViews)) (demoTape, {}) demoSt [0, 1, 2] [true] [false, true, false]).map
      (fun r => (r.off, r.off.map (fun o => (r.st.heap o).hidx), r.tape.2.index)) =
    some ([3, 4, 5], [some 1, some 3, none], 3) ∧
    (varAnd (histOps true true (demoLib.ops demoViews)) (demoTape, {}) demoSt [0, 1, 2] [true] [false, true, false]).map
      (fun r => (r.tape.2.tree, r.tape.2.hist)) = some ([(1, []), (2, []), (3, [2])], [(1, 6), (2, 7), (3, 8)]) :=
  ⟨by decide, by decide, by decide⟩

example : [true].length = [0, 1, 2].length / 2 ∧ [false, true, false].length = [0, 1, 2].length := by decide

/-- All clauses of the property for `varOr` with History-decorated library operators (same quantification). -/
theorem varOr_history_ops (v : Views) (p : Lib) (dm du : Bool) {t : LTape × Hist} {s : St} {pop : List Nat} {lam : Nat}
    {choices : List Choice} {r : Res (LTape × Hist)} (hpop : ∀ q ∈ pop, q < s.next)
    (h : varOr (histOps dm du (p.ops v)) t s pop lam choices = some r) :
    (∀ o, o < s.next → r.st.heap o = s.heap o) ∧
    r.off.length = lam ∧
    (∀ o ∈ r.off, s.next ≤ o ∧ o < r.st.next ∧ o ∉ pop) ∧ r.off.Nodup ∧
    (∀ (k o : Nat), r.off[k]? = some o →
      ((∃ i j, choices[k]? = some (Choice.cx i j)) ∨ (∃ i, choices[k]? = some (Choice.mutn i))) →
      (r.st.heap o).fit = none) ∧
    (∀ (k o : Nat) (f : List Int), r.off[k]? = some o → (r.st.heap o).fit = some f →
      ∃ q ∈ pop, r.st.heap o = s.heap q ∧ r.st.heap o = r.st.heap q) := by
  have hc := history_decorator_meets_contract (library_ops_meet_contract v p) dm du
  exact ⟨varOr_parents_unchanged hc hpop h, varOr_count hc hpop h,
    fun o ho => ⟨(varOr_fresh hc hpop h o ho).1, (varOr_fresh hc hpop h o ho).2, varOr_not_input hc hpop h o ho⟩,
    varOr_distinct hc hpop h,
    fun k o ho ht => varOr_touched_invalid hc hpop h k o ho ht,
    fun k o f ho hf => varOr_valid_is_parent_copy hc hpop h k o f ho hf⟩

example : (∀ q ∈ [0, 1, 2], q < demoSt.next) ∧
    (varOr (histOps true false (demoLib.ops demoViews)) (demoTape, {}) demoSt [0, 1, 2] 2
      [Choice.cx 0 2, Choice.rep 1]).map (fun r => (r.off, r.tape.2.index, r.tape.2.tree)) =
    some ([3, 7], 2, [(1, []), (2, [])]) := ⟨by decide, by decide⟩

/-! ### what `History.update` builds -/

/-- The objects `update` stores in `genealogy_history` are NEW objects: under the `i`-th new index lies the oid `n + i`, allocated
by this call (so it is no live individual — they are all `< n` —, no earlier entry, and the new entries are pairwise different
objects); it is a copy of the `i`-th individual as stamped; and no object that existed before other than the individuals themselves
— in particular no earlier history entry — is written.  (`n` = the next free oid; the keys of a history are `1..index`: `WF`.) -/
theorem history_entries_fresh (H : Hist) (h : Heap) (n : Nat) (inds : List Nat) (hwf : WF H) (hlt : ∀ o ∈ inds, o < n) :
    (update H h n inds).hist.hist =
      H.hist ++ List.zip (List.range' (H.index + 1) inds.length) (List.range' n inds.length) ∧
    (update H h n inds).next = n + inds.length ∧
    (∀ (i o : Nat), inds[i]? = some o → n + i ∉ inds ∧
      (update H h n inds).heap (n + i) = { h o with hidx := some (H.index + i + 1) }) ∧
    (∀ o, o < n → o ∉ inds → (update H h n inds).heap o = h o) ∧
    (∀ o, o < n → ((update H h n inds).heap o).genome = (h o).genome ∧ ((update H h n inds).heap o).fit = (h o).fit) :=
  ⟨(updateLoop_dicts _ H h n inds hwf).2.2, updateLoop_next _ H h n inds,
   fun i o hi => ⟨fun hm => by have := hlt _ hm; omega, updateLoop_copy _ H h n inds hlt i o hi⟩,
   fun o ho hni => updateLoop_frame _ H h n inds o hni ho,
   fun o ho => updateLoop_genome_fit _ H h n inds o ho⟩

/-- a population of two, the second carrying an index already -/
def histHeap : Heap := fun o =>
  match o with
  | 0 => ⟨[1, 2, 3], some [10], none⟩
  | 1 => ⟨[4, 5, 6], none, some 7⟩
  | _ => ⟨[], none, none⟩

example : WF {} ∧ (∀ o ∈ [0, 1], o < 2) := ⟨WF_init, by decide⟩
example : ((update {} histHeap 2 [0, 1]).hist.tree, (update {} histHeap 2 [0, 1]).hist.hist,
      [0, 1, 2, 3].map (fun o => ((update {} histHeap 2 [0, 1]).heap o).hidx)) =
    ([(1, []), (2, [])], [(1, 2), (2, 3)], [some 1, some 2, some 1, some 2]) := by decide

/-- Indices are handed out `index+1, index+2, …` in call order: the counter advances by the number of individuals, both dicts
get exactly these keys appended in this order (so their keys stay `1..index`), and — the individuals being different objects — the
`i`-th one carries `history_index = index + i + 1` afterwards. -/
theorem history_index_monotone (H : Hist) (h : Heap) (n : Nat) (inds : List Nat) (hwf : WF H) :
    WF (update H h n inds).hist ∧
    (update H h n inds).hist.index = H.index + inds.length ∧
    dkeys (update H h n inds).hist.tree = dkeys H.tree ++ List.range' (H.index + 1) inds.length ∧
    ((∀ o ∈ inds, o < n) → inds.Nodup → ∀ (i o : Nat), inds[i]? = some o →
      ((update H h n inds).heap o).hidx = some (H.index + i + 1)) := by
  refine ⟨(updateLoop_dicts _ H h n inds hwf).1, updateLoop_index _ H h n inds, ?_, fun hlt hnd i o hi => ?_⟩
  · show dkeys (updateLoop _ H h n inds).hist.tree = _
    rw [(updateLoop_dicts _ H h n inds hwf).2.1]
    simp [dkeys, List.map_append, List.map_map, Function.comp_def]
  · show ((updateLoop _ H h n inds).heap o).hidx = _
    rw [updateLoop_live _ H h n inds hlt hnd i o hi]

example : WF {} ∧ (∀ o ∈ [0, 1], o < 2) ∧ [0, 1].Nodup := ⟨WF_init, by decide, by decide⟩

/-- `genealogy_tree[i]` of every index handed out by this call is the tuple of the `history_index` values the individuals carried
BEFORE the call (the empty tuple as soon as one of them carried none), and the entries of all earlier indices are unchanged. -/
theorem genealogy_tree_parents (H : Hist) (h : Heap) (n : Nat) (inds : List Nat) (hwf : WF H) :
    (∀ i, i < inds.length → dget (update H h n inds).hist.tree (H.index + 1 + i) = some (parentIndices h inds)) ∧
    (∀ k, k ≤ H.index → dget (update H h n inds).hist.tree k = dget H.tree k) ∧
    ((∀ o ∈ inds, ((h o).hidx).isSome = true) → parentIndices h inds = inds.filterMap (fun o => (h o).hidx)) := by
  have ht : (update H h n inds).hist.tree = _ := (updateLoop_dicts _ H h n inds hwf).2.1
  refine ⟨fun i hi => ?_, fun k hk => ?_, fun hall => ?_⟩
  · rw [ht, dget_append_right _ _ _ (by rw [hwf.1]; simp [List.mem_range']; omega)]
    generalize parentIndices h inds = ps
    generalize H.index + 1 = b
    clear ht hwf
    induction inds generalizing b i with
    | nil => simp at hi
    | cons x rest ih =>
      cases i with
      | zero => simp [List.range'_succ, dget]
      | succ j =>
        have : b + (j + 1) = b + 1 + j := by omega
        simp only [List.length_cons, List.range'_succ, List.map_cons, dget, this]
        rw [if_neg (by omega)]
        exact ih j (by simpa using hi) (b + 1)
  · by_cases hk0 : k ∈ dkeys H.tree
    · rw [ht, dget_append_left _ _ _ hk0]
    · have h1 : dget H.tree k = none := by
        cases hd : dget H.tree k with
        | none => rfl
        | some x => exact absurd ((dget_isSome_iff _ _).mp (by rw [hd]; rfl)) hk0
      rw [ht, dget_append_right _ _ _ hk0, h1]
      cases hd : dget ((List.range' (H.index + 1) inds.length).map (fun k => (k, parentIndices h inds))) k with
      | none => rfl
      | some x =>
        have := (dget_isSome_iff _ _).mp (by rw [hd]; rfl)
        simp [dkeys, List.mem_range'] at this
        omega
  · unfold parentIndices
    clear ht hwf
    induction inds with
    | nil => rfl
    | cons x rest ih =>
      have hx := hall x (by simp)
      have hr := ih (fun o ho => hall o (List.mem_cons_of_mem _ ho))
      cases hxx : (h x).hidx with
      | none => rw [hxx] at hx; cases hx
      | some a =>
        cases hm : List.mapM (fun o => (h o).hidx) rest with
        | none =>
          exfalso
          clear hr ih
          induction rest with
          | nil => simp at hm
          | cons y ys ih2 =>
            have hy := hall y (by simp)
            cases hyy : (h y).hidx with
            | none => rw [hyy] at hy; cases hy
            | some b =>
              cases hm2 : List.mapM (fun o => (h o).hidx) ys with
              | none => exact ih2 (fun o ho => hall o (by simp at ho ⊢; rcases ho with e | e; exact Or.inl e; exact Or.inr (Or.inr e))) hm2
              | some l => simp [List.mapM_cons, hyy, hm2] at hm
        | some l =>
          rw [hm] at hr
          simp [List.mapM_cons, hxx, hm] at hr ⊢
          exact hr

example : WF {} ∧ parentIndices histHeap [0, 1] = [] ∧ parentIndices histHeap [1, 1] = [7, 7] := ⟨WF_init, by decide, by decide⟩

/-- As long as every index an individual carries was handed out by THIS history (it is `≤ genealogy_index`), every parent index
in `genealogy_tree` is smaller than its child's: the tree has no cycle. -/
theorem history_parents_below (H : Hist) (h : Heap) (n : Nat) (inds : List Nat) (hwf : WF H) (hb : Below H.tree)
    (hown : ∀ o ∈ inds, ∀ k, (h o).hidx = some k → k ≤ H.index) : Below (update H h n inds).hist.tree := by
  intro k ps hk p hp
  obtain ⟨g1, g2, g3⟩ := genealogy_tree_parents H h n inds hwf
  clear g3
  by_cases hle : k ≤ H.index
  · rw [g2 k hle] at hk; exact hb k ps hk p hp
  · have hkeys := (history_index_monotone H h n inds hwf).2.2.1
    have hmem : k ∈ dkeys (update H h n inds).hist.tree := (dget_isSome_iff _ _).mp (by rw [hk]; rfl)
    rw [hkeys, hwf.1] at hmem
    simp only [List.mem_append, List.mem_range'] at hmem
    have hi : ∃ i, i < inds.length ∧ k = H.index + 1 + i := by
      rcases hmem with ⟨i, hi, e⟩ | ⟨i, hi, e⟩
      · omega
      · exact ⟨i, hi, by omega⟩
    obtain ⟨i, hi, e⟩ := hi
    rw [e, g1 i hi] at hk
    cases hk
    obtain ⟨o, ho, e2⟩ := parentIndices_mem h inds p hp
    have := hown o ho p e2
    omega

example : WF {} ∧ Below ({} : Hist).tree ∧ (∀ o ∈ [0], ∀ k, (histHeap o).hidx = some k → k ≤ ({} : Hist).index) :=
  ⟨WF_init, fun k ps hk => by simp [dget] at hk, by decide⟩

/-! ### `getGenealogy` -/

/-- Whatever `getGenealogy` returns (any start index, any depth bound) is a sub-map of `genealogy_tree`. -/
theorem getGenealogy_submap (H : Hist) (fuel root : Nat) (maxd : Option Nat) (g : Dict (List Nat))
    (h : getGenealogy H fuel root maxd = some g) : ∀ k ps, dget g k = some ps → dget H.tree k = some ps := by
  unfold getGenealogy at h
  cases hg : genealogy H.tree maxd fuel root 0 {} with
  | none => rw [hg] at h; cases h
  | some s =>
    rw [hg] at h; cases h
    exact genealogy_sub H.tree maxd fuel root 0 {} s (fun k ps hk => by simp [dget] at hk) hg

/-- a grandchild, its two parents, their common parent -/
def demoHist : Hist := { index := 4, tree := [(1, []), (2, [1]), (3, [1]), (4, [2, 3])], hist := [(1, 10), (2, 11), (3, 12), (4, 13)] }

example : getGenealogy demoHist 10 4 none = some [(4, [2, 3]), (2, [1]), (1, []), (3, [1])] ∧
    getGenealogy demoHist 10 4 (some 2) = some [(4, [2, 3]), (2, [1]), (3, [1])] ∧
    getGenealogy demoHist 10 4 (some 0) = some [] ∧ getGenealogy demoHist 10 9 none = some [] := by decide

/-- Termination: on a tree whose parent indices are smaller than their children's (`history_parents_below`), `getGenealogy`
returns for every start index `root` and every depth bound as soon as the interpreter's stack admits `root + 1` frames. -/
theorem getGenealogy_terminates (H : Hist) (hb : Below H.tree) (fuel root : Nat) (maxd : Option Nat) (hf : root < fuel) :
    (getGenealogy H fuel root maxd).isSome = true := by
  unfold getGenealogy
  have := genealogy_isSome H.tree maxd hb fuel root 0 {} hf
  cases hg : genealogy H.tree maxd fuel root 0 {} with
  | none => rw [hg] at this; cases this
  | some s => rfl

example : Below demoHist.tree := by
  intro k ps hk p hp
  simp only [demoHist, dget] at hk
  repeat' split at hk
  all_goals (first | cases hk | skip)
  all_goals (simp at hp <;> omega)

/-- Without a depth bound the result is closed under parents: it contains the start index (when the tree knows it) and, with
every index, all its parents the tree knows — on ANY tree, whenever the call returns at all. -/
theorem getGenealogy_closed (H : Hist) (fuel root : Nat) (g : Dict (List Nat)) (h : getGenealogy H fuel root none = some g) :
    ((dget H.tree root).isSome = true → (dget g root).isSome = true) ∧
    (∀ k ps, dget g k = some ps → ∀ p ∈ ps, (dget H.tree p).isSome = true → (dget g p).isSome = true) := by
  have hsub := getGenealogy_submap H fuel root none g h
  unfold getGenealogy at h
  cases hg : genealogy H.tree none fuel root 0 {} with
  | none => rw [hg] at h; cases h
  | some s =>
    rw [hg] at h; cases h
    have hinit : Inv H.tree (fun _ => False) {} :=
      ⟨fun v hv => by simp at hv, fun k hk => by simp [inG, dget] at hk⟩
    obtain ⟨i1, _, c1⟩ := genealogy_inv H.tree fuel root 0 (fun _ => False) {} s hinit hg
    exact ⟨c1, fun k ps hk p hp ht => i1.2 k (by unfold inG; rw [hk]; rfl) (fun f => f) ps (hsub k ps hk) p hp ht⟩

example : (getGenealogy demoHist 10 4 none).isSome = true := by decide

/-- With a depth bound the result need NOT be closed under the parents within the bound (the docstring says "approximate"):
index 3 is a parent of the root 4, yet `max_depth = 2` leaves it out when it was first reached, too deep, through 2. -/
example : getGenealogy { index := 4, tree := [(1, []), (2, [3]), (3, [1]), (4, [2, 3])], hist := [] } 10 4 (some 2) =
    some [(4, [2, 3]), (2, [3])] := by decide

/-- Finding (termination): when an individual is its own ancestor — `cyclicTree` is what two `update`s of ONE individual build
when it came in carrying the index 2 of another `History` object (a second run, a restored checkpoint: the docstring only warns
against MODIFYING the indices) — `getGenealogy` without a depth bound returns for no stack size: Python raises `RecursionError`. -/
theorem getGenealogy_cyclic_never_returns (fuel : Nat) :
    getGenealogy { index := 2, tree := cyclicTree, hist := [] } fuel 2 none = none := by
  unfold getGenealogy
  rw [(genealogy_cyclic none rfl fuel 0 {} (by simp) (by simp)).2]
  rfl

/-- the two updates that build `cyclicTree`: one individual (oid 1 of `histHeap`, carrying the foreign index 7 there; here 2) -/
example : (update (update {} (fun _ => ⟨[], none, some 2⟩) 1 [0]).hist (update {} (fun _ => ⟨[], none, some 2⟩) 1 [0]).heap 2 [0]).hist.tree
    = cyclicTree := by decide

end HistoryOps

end C02
