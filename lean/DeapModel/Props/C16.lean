/-
C16 — Created types clone and pickle faithfully and independently.
Property theorems only; model `DeapModel/Core/Heap.lean`, vocabulary `Lemmas/C16Defs.lean`.
-/
import DeapModel.Core.Heap
import DeapModel.Lemmas.C16Defs
import DeapModel.Lemmas.C16Pickle
import DeapModel.Lemmas.C16Copy
import DeapModel.Lemmas.C16Examples
import DeapModel.Lemmas.C16Namespace
import DeapModel.Lemmas.C16Gp
import DeapModel.Lemmas.C16Init
import DeapModel.Core.HeapDerive
import DeapModel.Lemmas.C16Derive

namespace C16
open Heap

/-! ### Concrete data used by the `example`s below (non-vacuity of the hypotheses) -/


/-- Instantiation succeeds for every class of a well-founded class table. -/
theorem create_succeeds (ct : ClassTable) (hct : CTOk ct) (st : State) (c : ClsId) (items : List Val)
    (hc : c < ct.length) : ∃ st' x, create ct st c items = some (st', x) := by
  obtain ⟨ci, sb, attrs, _, h, _⟩ :=
    newInst_spec ct hct (ct.length + 1) st c items hc (Nat.lt_succ_of_lt hc)
  exact ⟨_, _, h⟩

/-- Instance of the hypotheses of `create_succeeds` (`CTOk`, `c < ct.length`) … -/
example : ∃ st' x, create Ex.ct ⟨Ex.heap, 3, []⟩ 2 [.atom 5] = some (st', x) :=
  create_succeeds Ex.ct Ex.ct_ok ⟨Ex.heap, 3, []⟩ 2 [.atom 5] (by decide)

/-- … and the evaluation: a swarm at oid 3, its `best` at 4, the fitness of that at 5. -/
example : (create Ex.ct ⟨Ex.heap, 3, []⟩ 2 [.atom 5]).map (fun r => (r.1.next, r.2)) = some (6, 3) := by
  decide

/-- Two instances never share an instantiated attribute: every attribute named in `dict_inst`
exists on each instance, is a reference to an object allocated by that very call, and nothing
reachable from an attribute of the first instance is reachable from one of the second.  Class
attributes (`dict_cls`) are the same value for both (shared by construction).

The guard `ci.kind = .cfitness → p.1 ≠ cvName` of the first clause: `init_type` calls
`base.__init__` after the `dict_inst` attributes are set (creator.py:125-126), and
`ConstrainedFitness.__init__` sets `constraint_violation = None`; a `dict_inst` attribute of that
very name on a `ConstrainedFitness` class is therefore `None` on every instance, not a fresh object
(every other `dict_inst` attribute is). -/
theorem fresh_attrs (ct : ClassTable) (objs : Oid → Option Obj) (next : Nat) (memo : List (Oid × Oid))
    (hcl : Closed objs next) (c : ClsId) (ci : ClassInfo) (hci : ct[c]? = some ci)
    (items₁ items₂ : List Val) (st1 st2 : State) (x1 x2 : Oid)
    (h1 : create ct ⟨objs, next, memo⟩ c items₁ = some (st1, x1))
    (h2 : create ct st1 c items₂ = some (st2, x2)) :
    ∃ o1 o2, st2.objs x1 = some o1 ∧ st2.objs x2 = some o2 ∧ o1.items = items₁ ∧ o2.items = items₂ ∧
      (∀ p ∈ ci.dictInst, (ci.kind = .cfitness → p.1 ≠ cvName) →
          ∃ y1 y2, lookup p.1 o1.attrs = some (.ref y1) ∧
          lookup p.1 o2.attrs = some (.ref y2) ∧ next ≤ y1 ∧ y1 < st1.next ∧ st1.next ≤ y2) ∧
      (∀ k1 v1 k2 v2, lookup k1 o1.attrs = some v1 → lookup k2 o2.attrs = some v2 →
          ∀ y, Reach st2.objs v1 y → ¬ Reach st2.objs v2 y) ∧
      (∀ k, lookup k o1.attrs = none → lookup k o2.attrs = none →
          getattr ct st2.objs x1 k = getattr ct st2.objs x2 k) := by
  obtain ⟨ci1, sb, attrs1, hci1, hx1e, rfl, E1, A1⟩ :=
    create_of_eq ct objs next memo c items₁ st1 x1 hcl.bound h1
  subst x1
  rw [hci] at hci1
  cases hci1
  -- the two new objects
  obtain ⟨o1, ho1⟩ : ∃ o1 : Obj, o1 =
    ⟨c, items₁, dictUpdate attrs1 (baseInitAttrs ci.kind), ci.kind != .node⟩ := ⟨_, rfl⟩
  rw [← ho1] at h2
  have hb1 : ∀ y, sb.next ≤ y → define sb.objs next o1 y = none :=
    Bounded.reserve_define (st := ⟨objs, next, memo⟩) E1
  obtain ⟨ci2, sc, attrs2, hci2, hx2e, rfl, E2, A2⟩ :=
    create_of_eq ct _ sb.next sb.memo c items₂ st2 x2 hb1 h2
  subst x2
  rw [hci] at hci2
  cases hci2
  obtain ⟨o2, ho2⟩ : ∃ o2 : Obj, o2 =
    ⟨c, items₂, dictUpdate attrs2 (baseInitAttrs ci.kind), ci.kind != .node⟩ := ⟨_, rfl⟩
  rw [← ho2]
  have hlt1 : next + 1 ≤ sb.next := E1.le
  have hlt2 : sb.next + 1 ≤ sc.next := E2.le
  -- the final heap on the slots of the first call
  have F1 : ∀ x, x < sb.next → define sc.objs sb.next o2 x = define sb.objs next o1 x := by
    intro x hx
    rw [define_ne _ _ _ (Nat.ne_of_lt hx)]
    exact E2.old x (Nat.lt_succ_of_lt hx)
  have hx1 : define sc.objs sb.next o2 next = some o1 := by
    rw [F1 next (by omega), define_same]
  have hx2 : define sc.objs sb.next o2 sb.next = some o2 := define_same _ _ _
  -- reachability stays inside the slots of the call that allocated the attribute
  have R1 : ∀ (v : Val) (y : Nat), Reach (define sc.objs sb.next o2) v y →
      (∀ x : Nat, v = Val.ref x → next + 1 ≤ x ∧ x < sb.next) → next + 1 ≤ y ∧ y < sb.next := by
    intro v y hr
    refine reach_closed (fun y : Nat => next + 1 ≤ y ∧ y < sb.next) ?_ hr
    intro x o hx ho y hy
    rw [F1 x hx.2, define_ne _ _ _ (Nat.ne_of_gt hx.1)] at ho
    have := E1.closed x o hx.1 ho _ hy
    exact ⟨this.1, this.2.1⟩
  have R2 : ∀ (v : Val) (y : Nat), Reach (define sc.objs sb.next o2) v y →
      (∀ x, v = Val.ref x → sb.next + 1 ≤ x) → sb.next + 1 ≤ y := by
    intro v y hr
    refine reach_closed (fun y => sb.next + 1 ≤ y) ?_ hr
    intro x o hx ho y hy
    rw [define_ne _ _ _ (Nat.ne_of_gt hx)] at ho
    exact (E2.closed x o hx ho _ hy).1
  -- an attribute of a new object: what `base.__init__` set (an atom) or an instantiated one
  have L : ∀ (attrs : List (Name × Val)) (k : Name) (v : Val),
      lookup k (dictUpdate attrs (baseInitAttrs ci.kind)) = some v →
      (∃ a, v = .atom a) ∨ lookup k attrs = some v := by
    intro attrs k v h
    rw [lookup_dictUpdate] at h
    cases hb : lookup k (baseInitAttrs ci.kind) with
    | none => rw [hb] at h; exact Or.inr h
    | some w =>
      rw [hb] at h
      cases h
      exact Or.inl ⟨_, (lookup_baseInitAttrs hb).2.2⟩
  have ha1 : o1.attrs = dictUpdate attrs1 (baseInitAttrs ci.kind) := by rw [ho1]
  have ha2 : o2.attrs = dictUpdate attrs2 (baseInitAttrs ci.kind) := by rw [ho2]
  refine ⟨o1, o2, hx1, hx2, by rw [ho1], by rw [ho2], ?_, ?_, ?_⟩
  · intro p hp hguard
    obtain ⟨y1, hl1, h11, h12⟩ := A1.lookup_of_mem hp
    obtain ⟨y2, hl2, h21, _⟩ := A2.lookup_of_mem hp
    have hnb : lookup p.1 (baseInitAttrs ci.kind) = none := by
      cases hb : lookup p.1 (baseInitAttrs ci.kind) with
      | none => rfl
      | some w =>
        obtain ⟨hk, hn, _⟩ := lookup_baseInitAttrs hb
        exact absurd hn (hguard hk)
    refine ⟨y1, y2, ?_, ?_, by omega, h12, Nat.le_of_succ_le h21⟩
    · rw [ha1, lookup_dictUpdate, hnb]; exact hl1
    · rw [ha2, lookup_dictUpdate, hnb]; exact hl2
  · intro k1 v1 k2 v2 hl1 hl2 y hr1 hr2
    rw [ha1] at hl1
    rw [ha2] at hl2
    rcases L _ _ _ hl1 with ⟨a, rfl⟩ | hl1
    · cases hr1
    rcases L _ _ _ hl2 with ⟨a, rfl⟩ | hl2
    · cases hr2
    obtain ⟨y1, rfl, h11, h12⟩ := A1.lookup_ref hl1
    obtain ⟨y2, rfl, h21, _⟩ := A2.lookup_ref hl2
    have a1 := R1 _ _ hr1 (fun x hx => by cases hx; exact ⟨h11, h12⟩)
    have a2 := R2 _ _ hr2 (fun x hx => by cases hx; exact h21)
    omega
  · intro k hk1 hk2
    show getattr ct (define sc.objs sb.next o2) next k = getattr ct (define sc.objs sb.next o2) sb.next k
    have hc1 : o1.cls = c := by rw [ho1]
    have hc2 : o2.cls = c := by rw [ho2]
    simp only [getattr, hx1, hx2, hk1, hk2, hc1, hc2]

/-- Instance of the hypotheses of `fresh_attrs`: a closed heap, a class of the table, and two
consecutive successful instantiations. -/
example : ∃ ci st1 x1 st2 x2, Closed Ex.heap 3 ∧ Ex.ct[2]? = some ci ∧
    create Ex.ct ⟨Ex.heap, 3, []⟩ 2 [.atom 1] = some (st1, x1) ∧
    create Ex.ct st1 2 [.atom 2] = some (st2, x2) := by
  obtain ⟨st1, x1, h1⟩ := create_succeeds Ex.ct Ex.ct_ok ⟨Ex.heap, 3, []⟩ 2 [.atom 1] (by decide)
  obtain ⟨st2, x2, h2⟩ := create_succeeds Ex.ct Ex.ct_ok st1 2 [.atom 2] (by decide)
  exact ⟨_, st1, x1, st2, x2, Ex.heap_closed, rfl, h1, h2⟩

/-- The second instance is allocated after everything the first one allocated. -/
example : ((create Ex.ct ⟨Ex.heap, 3, []⟩ 2 [.atom 1]).bind
    (fun r => (create Ex.ct r.1 2 [.atom 2]).map (fun r' => (r.2, r.1.next, r'.2, r'.1.next))))
    = some (3, 6, 6, 9) := by
  decide

/-- Clone equal: under the side conditions of the hooks the clone exists, denotes the same pure
value as the original at every depth, and the original still denotes what it did.

`hnd` (`dict_inst` is a dict: unique names) is needed for the last conjunct only (the clone again
satisfies the side conditions at the same depth, so it can be cloned again); everything else is
`Heap.Copy.clone_facts`, which does not use it.  Without `hnd` the last conjunct is false:
`ct = [⟨.fitness, [], []⟩, ⟨.tree, [(5, 0), (5, 0)], []⟩]`, `objs 0 = ⟨1, [], [(5, atom 7)], true⟩`,
`next = 1`, `n = 1`, `v = ref 0` satisfy `CTOk` and `Within ct CopyOK objs 1 v`; `init_type`
instantiates the name `5` twice, `dictSet` overrides only the first entry, the clone is
`⟨1, [], [(5, atom 7), (5, ref 3)], true⟩` with a child of depth 1, and
`cloneChain ct 1 2 objs 1 (ref 0) = none`. -/
theorem clone_equal (ct : ClassTable) (hct : CTOk ct) (hnd : DictNodup ct)
    (objs : Oid → Option Obj) (next : Nat)
    (hcl : Closed objs next) (n : Nat) (v : Val) (hv : Within ct CopyOK objs n v) :
    ∃ objs' next' v', clone ct n objs next v = some (objs', next', v') ∧
      (∀ m, abs objs' m v' = abs objs m v) ∧ (∀ m, abs objs' m v = abs objs m v) ∧
      Closed objs' next' ∧ next ≤ next' ∧ (∀ y, y < next → objs' y = objs y) ∧
      Within ct CopyOK objs' n v' := by
  obtain ⟨objs', next', v', h, h1, h2, h3, h4, h5, h6, _⟩ := Heap.Copy.clone_facts hct hcl n v hv
  exact ⟨objs', next', v', h, h1, h2, h3, h4, h5, h6 hnd⟩

/-- `create` composes with `clone`: a freshly created instance (atom items) of a class whose
instantiated fitness classes have no `dict_inst` attributes (`CreateOK`) satisfies the side
conditions of the copy hooks — in particular a new `ConstrainedFitness` has its
`constraint_violation`, set to `None` by `base.__init__` — so its clone exists, denotes the same
pure value, leaves the original as it is, and can be cloned again. -/
theorem create_then_clone (ct : ClassTable) (hct : CTOk ct) (hnd : DictNodup ct)
    (objs : Oid → Option Obj) (next : Nat) (memo : List (Oid × Oid)) (hcl : Closed objs next)
    (c : ClsId) (hc : c < ct.length) (hok : CreateOK ct c)
    (items : List Val) (hitems : ∀ v ∈ items, v.isAtom = true) :
    ∃ st x, create ct ⟨objs, next, memo⟩ c items = some (st, x) ∧ Closed st.objs st.next ∧
      Within ct CopyOK st.objs (ct.length + 1) (.ref x) ∧
      ∃ objs' next' v', clone ct (ct.length + 1) st.objs st.next (.ref x) = some (objs', next', v') ∧
        (∀ m, abs objs' m v' = abs st.objs m (.ref x)) ∧
        (∀ m, abs objs' m (.ref x) = abs st.objs m (.ref x)) ∧
        Closed objs' next' ∧ Within ct CopyOK objs' (ct.length + 1) v' := by
  obtain ⟨st, x, h⟩ := create_succeeds ct hct ⟨objs, next, memo⟩ c items hc
  have hb : Bounded ⟨objs, next, memo⟩ := hcl.bound
  obtain ⟨_, hE⟩ := newInst_ext_of_eq ct hb hitems h
  have hcl' : Closed st.objs st.next := hE.closed_heap hcl
  have hw : Within ct CopyOK st.objs (ct.length + 1) (.ref x) :=
    Heap.Copy.newInst_within (ct.length + 1) _ _ c items x hb hok hitems h
  obtain ⟨objs', next', v', hcl1, h1, h2, h3, _, _, h6⟩ :=
    clone_equal ct hct hnd st.objs st.next hcl' (ct.length + 1) (.ref x) hw
  exact ⟨st, x, h, hcl', hw, objs', next', v', hcl1, h1, h2, h3, h6⟩

/-- Instance of the hypotheses of `create_then_clone`: an individual whose `dict_inst` names a
`ConstrainedFitness` class, created in the heap of a fresh interpreter … -/
example : ∃ st x, create Ex2.ct ⟨fun _ => none, 0, []⟩ 1 [.atom 1, .atom 2] = some (st, x) ∧
    ∃ objs' next' v', clone Ex2.ct 3 st.objs st.next (.ref x) = some (objs', next', v') ∧
      ∀ m, abs objs' m v' = abs st.objs m (.ref x) := by
  obtain ⟨st, x, h, _, _, objs', next', v', h1, h2, _⟩ :=
    create_then_clone Ex2.ct Ex2.ct_ok Ex2.ct_nodup (fun _ => none) 0 [] Ex.empty_closed 1
      (by decide) (Ex2.ct_createOK 1) [.atom 1, .atom 2]
      (by intro v hv; simp at hv; rcases hv with rfl | rfl <;> rfl)
  exact ⟨st, x, h, objs', next', v', h1, h2⟩

/-- … and the evaluation: the individual at oid 0, its fitness at 1; the clone at 2, the clone of
the fitness at 3 … -/
example : ((create Ex2.ct ⟨fun _ => none, 0, []⟩ 1 [.atom 1, .atom 2]).bind (fun r =>
    (clone Ex2.ct 3 r.1.objs r.1.next (.ref r.2)).map (fun r' =>
      (r.2, r.1.next, r'.2.1, r'.2.2)))) = some (0, 2, 4, .ref 2) := by
  decide

/-- … the new fitness carries `constraint_violation = None` from `base.__init__`, and so does its
clone (the clone of the individual refers to it). -/
example : ((create Ex2.ct ⟨fun _ => none, 0, []⟩ 1 [.atom 1, .atom 2]).bind (fun r =>
    (clone Ex2.ct 3 r.1.objs r.1.next (.ref r.2)).map (fun r' =>
      (r.1.objs 1, r'.1 2, r'.1 3))))
    = some (some ⟨0, [], [(cvName, .atom noneAtom)], true⟩,
        some ⟨1, [.atom 1, .atom 2], [(1, .ref 3)], true⟩,
        some ⟨0, [], [(cvName, .atom noneAtom)], true⟩) := by
  decide

/-- Clone disjoint: every object reachable from the clone is fresh, except immutable objects of
the old heap (GP node objects shared by `PrimitiveTree.__deepcopy__`). -/
theorem clone_disjoint (ct : ClassTable) (hct : CTOk ct) (objs : Oid → Option Obj) (next : Nat)
    (hcl : Closed objs next) (n : Nat) (v : Val) (hv : Within ct CopyOK objs n v)
    (objs' : Oid → Option Obj) (next' : Nat) (v' : Val)
    (h : clone ct n objs next v = some (objs', next', v')) :
    ∀ y, Reach objs' v' y → next ≤ y ∨ ImmutableIn objs y := by
  exact (Heap.Copy.clone_disjoint' hct hcl n v hv objs' next' v' h).2

/-- Consequently no *mutable* object is reachable from both. -/
theorem clone_shares_no_mutable (ct : ClassTable) (hct : CTOk ct) (objs : Oid → Option Obj) (next : Nat)
    (hcl : Closed objs next) (n : Nat) (v : Val) (hv : Within ct CopyOK objs n v)
    (objs' : Oid → Option Obj) (next' : Nat) (v' : Val)
    (h : clone ct n objs next v = some (objs', next', v')) :
    ∀ y o, Reach objs' v y → Reach objs' v' y → objs' y = some o → o.mutable = false := by
  exact Heap.Copy.clone_shares_no_mutable' hct hcl n v hv objs' next' v' h

/-- A heap write through either object (replacing any mutable object reachable from it by anything)
leaves the pure value of the other unchanged. -/
theorem write_independent (ct : ClassTable) (hct : CTOk ct) (objs : Oid → Option Obj) (next : Nat)
    (hcl : Closed objs next) (n : Nat) (v : Val) (hv : Within ct CopyOK objs n v)
    (objs' : Oid → Option Obj) (next' : Nat) (v' : Val)
    (h : clone ct n objs next v = some (objs', next', v')) :
    (∀ y o w, Reach objs' v' y → objs' y = some o → o.mutable = true →
        ∀ m, abs (write objs' y w) m v = abs objs' m v) ∧
    (∀ y o w, Reach objs' v y → objs' y = some o → o.mutable = true →
        ∀ m, abs (write objs' y w) m v' = abs objs' m v') := by
  exact Heap.Copy.write_independent' hct hcl n v hv objs' next' v' h

/-- Clone-of-clone chains of any length: every element denotes the original's pure value, and no
two distinct elements of `original :: clones` share a mutable object.  (`hnd`: see `clone_equal`;
without it the second clone of the example there fails.) -/
theorem clone_chain (ct : ClassTable) (hct : CTOk ct) (hnd : DictNodup ct)
    (objs : Oid → Option Obj) (next : Nat)
    (hcl : Closed objs next) (n : Nat) (v : Val) (hv : Within ct CopyOK objs n v) (k : Nat) :
    ∃ objs' next' vs, cloneChain ct n k objs next v = some (objs', next', vs) ∧ vs.length = k ∧
      (∀ w ∈ v :: vs, ∀ m, abs objs' m w = abs objs m v) ∧
      (∀ (i j : Nat), i < j → ∀ wi wj, (v :: vs)[i]? = some wi → (v :: vs)[j]? = some wj →
        ∀ y o, Reach objs' wi y → Reach objs' wj y → objs' y = some o → o.mutable = false) := by
  obtain ⟨objs', next', vs, h, hlen, _, _, hold, habs, _, hpair⟩ :=
    Heap.Copy.cloneChain_facts hct hnd n k objs next v hcl hv
  refine ⟨objs', next', vs, h, hlen, fun w hw m => ?_, hpair⟩
  rcases List.mem_cons.1 hw with hw | hw
  · subst hw
    exact Heap.Copy.abs_ext objs objs' hcl.refs (Heap.Copy.keeps_of_agree hcl hold) m w (Heap.Copy.Within_def hv)
  · exact habs w hw m

/-- Pickle round trip equal: into any closed target heap (the same interpreter's, or the empty
heap of a fresh interpreter) the unpickled object exists and denotes the same pure value. -/
theorem pickle_equal (ct : ClassTable) (hct : CTOk ct) (objs : Oid → Option Obj)
    (n : Nat) (v : Val) (hv : Within ct PickleOK objs n v)
    (objs0 : Oid → Option Obj) (next0 : Nat) (hcl : Closed objs0 next0) :
    ∃ objs' next' v', pickleRoundTrip ct n objs v objs0 next0 = some (objs', next', v') ∧
      (∀ m, abs objs' m v' = abs objs m v) ∧ (∀ y, y < next0 → objs' y = objs0 y) ∧
      Closed objs' next' := by
  obtain ⟨t, ht, hok⟩ := serialise_ok ct objs n v hv
  obtain ⟨st', v', hr⟩ := (rebuild_succeeds_aux ct hct).1 t hok ⟨objs0, next0, []⟩
  have hb : Bounded ⟨objs0, next0, []⟩ := hcl.bound
  obtain ⟨hE, _⟩ := rebuild_ext ct hct hb hr
  refine ⟨st'.objs, st'.next, v', ?_, ?_, hE.old, hE.closed_heap hcl⟩
  · simp only [pickleRoundTrip, ht, hr]
  · intro m
    rw [serialise_abs objs n v t ht m]
    exact (rebuild_abs_aux ct hct).1 t _ _ _ hb hok hr st'.objs (fun _ _ _ => rfl) m

/-- Instance of the hypotheses of `pickle_equal` (`CTOk`, `Within ct PickleOK`, a closed target
heap): unpickling into a fresh interpreter … -/
example : ∃ objs' next' v',
    pickleRoundTrip Ex.ct 3 Ex.heap (.ref 0) (fun _ => none) 0 = some (objs', next', v') ∧
    (∀ m, abs objs' m v' = abs Ex.heap m (.ref 0)) ∧ (∀ y, y < 0 → objs' y = none) ∧
    Closed objs' next' :=
  pickle_equal Ex.ct Ex.ct_ok Ex.heap 3 (.ref 0) Ex.heap_pickleOK (fun _ => none) 0 Ex.empty_closed

/-- … and into the interpreter that holds the original. -/
example : ∃ objs' next' v',
    pickleRoundTrip Ex.ct 3 Ex.heap (.ref 0) Ex.heap 3 = some (objs', next', v') ∧
    (∀ m, abs objs' m v' = abs Ex.heap m (.ref 0)) ∧ (∀ y, y < 3 → objs' y = Ex.heap y) ∧
    Closed objs' next' :=
  pickle_equal Ex.ct Ex.ct_ok Ex.heap 3 (.ref 0) Ex.heap_pickleOK Ex.heap 3 Ex.heap_closed

/-- Pickle round trip disjoint: everything reachable from the unpickled object was allocated by the
unpickling — nothing at all is shared with the target heap (not even immutable node objects). -/
theorem pickle_disjoint (ct : ClassTable) (hct : CTOk ct) (objs : Oid → Option Obj)
    (n : Nat) (v : Val) (objs0 : Oid → Option Obj) (next0 : Nat) (hcl : Closed objs0 next0)
    (objs' : Oid → Option Obj) (next' : Nat) (v' : Val)
    (h : pickleRoundTrip ct n objs v objs0 next0 = some (objs', next', v')) :
    ∀ y, Reach objs' v' y → next0 ≤ y := by
  obtain ⟨t, st, _, hr, rfl, rfl⟩ := pickleRoundTrip_inv h
  obtain ⟨hE, hv⟩ := rebuild_ext ct hct (st := ⟨objs0, next0, []⟩) hcl.bound hr
  intro y hy
  exact hE.reach_fresh (fun x hx => by subst hx; exact hv.1) hy

/-- Instance of the hypothesis `h` of `pickle_disjoint`: the round trip of the swarm at oid 0 into
its own interpreter yields the copy at oid 3; five objects are allocated (the swarm, the individual
and fitness made by `init_type`, and the unpickled individual and fitness that replace them). -/
example : (pickleRoundTrip Ex.ct 3 Ex.heap (.ref 0) Ex.heap 3).map (fun r => (r.2.1, r.2.2))
    = some (8, .ref 3) := by
  decide

example : ∃ objs' next' v',
    pickleRoundTrip Ex.ct 3 Ex.heap (.ref 0) Ex.heap 3 = some (objs', next', v') ∧
    ∀ y, Reach objs' v' y → 3 ≤ y := by
  obtain ⟨objs', next', v', h, _⟩ :=
    pickle_equal Ex.ct Ex.ct_ok Ex.heap 3 (.ref 0) Ex.heap_pickleOK Ex.heap 3 Ex.heap_closed
  exact ⟨objs', next', v', h,
    pickle_disjoint Ex.ct Ex.ct_ok Ex.heap 3 (.ref 0) Ex.heap 3 Ex.heap_closed objs' next' v' h⟩

/-! ### Pickling of the created classes (`MetaCreator.__reduce__` / `meta_create`) -/

/-- The unpickled class is equivalent to the pickled description — whatever the loading module has
bound to `name`, in particular a *different* class of the same name. -/
theorem meta_create_equivalent (m : Module) (name : Name) (ci : ClassInfo) :
    (metaCreate m name ci).1.classes[(metaCreate m name ci).2]? = some ci := by
  simp [metaCreate]

/-- `meta_create` makes a *new* class object and leaves the existing ones (hence their instances)
untouched. -/
theorem meta_create_keeps_old (m : Module) (name : Name) (ci : ClassInfo) :
    (metaCreate m name ci).2 = m.classes.length ∧
    ∀ c, c < m.classes.length → (metaCreate m name ci).1.classes[c]? = m.classes[c]? := by
  refine ⟨rfl, fun c hc => ?_⟩
  show (m.classes ++ [ci])[c]? = m.classes[c]?
  exact List.getElem?_append_left hc

/-- … so an instance of an existing class sees the same class attributes as before. -/
theorem meta_create_old_instances (m : Module) (name : Name) (ci : ClassInfo)
    (objs : Oid → Option Obj) (x : Oid) (o : Obj) (ho : objs x = some o)
    (hc : o.cls < m.classes.length) (k : Name) :
    getattr (metaCreate m name ci).1.classes objs x k = getattr m.classes objs x k := by
  simp only [getattr, ho, (meta_create_keeps_old m name ci).2 o.cls hc]

/-- `globals()[name] = class_`: the name is bound to the new class, every other name keeps its
binding. -/
theorem meta_create_rebinds (m : Module) (name : Name) (ci : ClassInfo) :
    lookup name (metaCreate m name ci).1.bound = some (metaCreate m name ci).2 ∧
    ∀ k, k ≠ name → lookup k (metaCreate m name ci).1.bound = lookup k m.bound := by
  refine ⟨by simp [metaCreate, lookup], fun k hk => ?_⟩
  show lookup k ((name, m.classes.length) :: m.bound.filter (fun p => p.1 != name)) = lookup k m.bound
  rw [lookup_cons, if_neg (fun e => hk e.symm), lookup_filter_ne k name hk]

/-- Class round trip: a class of the module `m`, pickled (`MetaCreator.__reduce__`) and unpickled
(`meta_create`) in ANY module `m'`, is a new class with the same description as the original; the
classes of `m'` are untouched and the name is bound to the new class. -/
theorem class_roundtrip (m m' : Module) (c : ClsId) (name : Name) (ci : ClassInfo)
    (hci : m.classes[c]? = some ci) :
    ∃ nm d, classReduce m c name = some (nm, d) ∧ nm = name ∧
      (metaCreate m' nm d).1.classes[(metaCreate m' nm d).2]? = some ci ∧
      (metaCreate m' nm d).2 = m'.classes.length ∧
      (∀ c', c' < m'.classes.length → (metaCreate m' nm d).1.classes[c']? = m'.classes[c']?) ∧
      lookup name (metaCreate m' nm d).1.bound = some (metaCreate m' nm d).2 ∧
      (∀ k, k ≠ name → lookup k (metaCreate m' nm d).1.bound = lookup k m'.bound) := by
  refine ⟨name, ci, by simp [classReduce, hci], rfl, meta_create_equivalent m' name ci,
    (meta_create_keeps_old m' name ci).1, (meta_create_keeps_old m' name ci).2,
    (meta_create_rebinds m' name ci).1, (meta_create_rebinds m' name ci).2⟩

/-- Instance of the hypothesis of `class_roundtrip`, with a target module that already binds the
name to a class with another `dict_cls` … -/
example : ∃ nm d, classReduce Ex.modSrc 1 5 = some (nm, d) ∧
    (metaCreate Ex.modDst nm d).1.classes[(metaCreate Ex.modDst nm d).2]?
      = some ⟨.plain, [(1, 0)], [(9, .atom 3)]⟩ := by
  obtain ⟨nm, d, h, _, h1, _⟩ := class_roundtrip Ex.modSrc Ex.modDst 1 5 _ rfl
  exact ⟨nm, d, h, h1⟩

/-- … and the evaluation: the unpickled class is class 1 of the target module and carries the
pickled `dict_cls` (`9 ↦ 3`); class 0, to which the name 5 was bound, still has its own
(`9 ↦ 4`); the name 5 is now bound to class 1. -/
example : (classReduce Ex.modSrc 1 5).map (fun r =>
      let m := metaCreate Ex.modDst r.1 r.2
      (m.2, m.1.classes[m.2]?, m.1.classes[0]?, lookup 5 m.1.bound))
    = some (1, some ⟨.plain, [(1, 0)], [(9, .atom 3)]⟩, some ⟨.plain, [], [(9, .atom 4)]⟩, some 1) := by
  decide

/-! ### Class identity across pickling: whatever happens to the namespace between dump and load -/

/-- Whatever is created (re-created under a bound name: `creator.create` only warns) or deleted
between a dump and a load, the class objects that existed stay what they were — so their instances
keep their class — and the table stays well-founded. -/
theorem namespace_history_keeps_classes (m0 : Module) (hct : CTOk m0.classes) (ops : List NsOp) :
    CTOk (nsRun m0 ops).classes ∧ m0.classes.length ≤ (nsRun m0 ops).classes.length ∧
    ∀ c, c < m0.classes.length → (nsRun m0 ops).classes[c]? = m0.classes[c]? :=
  ⟨nsRun_ctok ops m0 hct, (nsRun_keeps ops m0).1, (nsRun_keeps ops m0).2⟩

/-- Instance of the hypothesis: a history that re-creates the name 5 with other class-level values,
deletes it, and creates it once more. -/
example : CTOk (nsRun Ex.modSrc [.create 5 ⟨.plain, [(1, 0)], [(9, .atom 77)]⟩, .delete 5,
    .create 5 ⟨.plain, [], []⟩]).classes :=
  (namespace_history_keeps_classes Ex.modSrc Ex.ct_ok _).1

example : (let m := nsRun Ex.modSrc [.create 5 ⟨.plain, [(1, 0)], [(9, .atom 77)]⟩, .delete 5,
      .create 5 ⟨.plain, [], []⟩]
    (m.classes.length, m.classes[1]?, lookup 5 m.bound, m.names))
    = (5, some ⟨.plain, [(1, 0)], [(9, .atom 3)]⟩, some 4, [4, 5, 6, 5, 5]) := by
  decide

/-- **Class identity across pickling.**  `m` is the `deap.creator` module of the dumping interpreter
(`nb` = number of classes that pickle by reference), `v` a picklable object graph in it.  The load
happens in a module reached from ANY module `m0` that has the same by-reference classes (the dumping
module itself: same interpreter; a module with those classes only: fresh interpreter) by ANY sequence
`ops` of `creator.create` / `del creator.<name>` — in particular re-creations of the dumped object's
class names with the same base and attribute names and other weights, typecode or class-level
constants.  Then the load succeeds, and

* the loaded heap is exactly the heap obtained by unpickling under the dumper's own class table
  (`pickleRoundTrip`, which `pickle_equal` shows equal to the original at every depth) with every
  class id replaced by the id of a class made by this very load;
* that class carries the PICKLED record: the same kind (base), the same class-level attributes
  (`dictCls`: weights, typecode, constants), the same per-instance attribute names, their classes
  being again re-created classes of the dump;
* a by-value class is never one of the classes the namespace held (`off ≤ tr c`): what the name is
  bound to at load time is not consulted;
* the classes of the loading module, hence of `m0`, are untouched. -/
theorem pickle_class_independent_of_namespace
    (m : Module) (nb : Nat) (hct : CTOk m.classes)
    (objs : Oid → Option Obj) (n : Nat) (v : Val) (hv : Within m.classes PickleOK objs n v)
    (m0 : Module) (hnb : nb ≤ m0.classes.length)
    (hpre : ∀ c, c < nb → m0.classes[c]? = m.classes[c]?) (ops : List NsOp)
    (objs0 : Oid → Option Obj) (next0 : Nat) (hcl : Closed objs0 next0) :
    ∃ P m'' objs' next' v' objsS,
      dumpP m nb objs n v = some P ∧
      loadP (nsRun m0 ops) P objs0 next0 = some (m'', objs', next', v') ∧
      pickleRoundTrip m.classes n objs v objs0 next0 = some (objsS, next', v') ∧
      (∀ k, abs objsS k v' = abs objs k v) ∧
      (∀ x, objs' x = if x < next0 then objs0 x
          else (objsS x).map (retag (trLoad nb (nsRun m0 ops).classes.length))) ∧
      (∀ c ci, m.classes[c]? = some ci →
        m''.classes[trLoad nb (nsRun m0 ops).classes.length c]?
          = some (retagInfo (trLoad nb (nsRun m0 ops).classes.length) ci)) ∧
      (∀ c, nb ≤ c → (nsRun m0 ops).classes.length ≤ trLoad nb (nsRun m0 ops).classes.length c) ∧
      (∀ c, c < (nsRun m0 ops).classes.length → m''.classes[c]? = (nsRun m0 ops).classes[c]?) ∧
      (∀ c, c < m0.classes.length → m''.classes[c]? = m0.classes[c]?) := by
  obtain ⟨hk1, hk2⟩ := nsRun_keeps ops m0
  generalize hm' : nsRun m0 ops = m' at hk1 hk2 ⊢
  have hnb' : nb ≤ m'.classes.length := Nat.le_trans hnb hk1
  have hpre' : ∀ c, c < nb → m'.classes[c]? = m.classes[c]? := fun c hc =>
    (hk2 c (Nat.lt_of_lt_of_le hc hnb)).trans (hpre c hc)
  obtain ⟨objsS, nextS, vS, hrt, habs, hold, _⟩ :=
    pickle_equal m.classes hct objs n v hv objs0 next0 hcl
  obtain ⟨t, stS, hser, hreb, rfl, rfl⟩ := pickleRoundTrip_inv hrt
  have hT := tableMap_load m.classes m'.classes nb hct hnb' hpre'
  have hlen : m.classes.length
      ≤ (m'.classes ++ (m.classes.drop nb).map (retagInfo (trLoad nb m'.classes.length))).length := by
    simp only [List.length_append, List.length_map, List.length_drop]
    omega
  have hR0 : HRel (trLoad nb m'.classes.length) next0 ⟨objs0, next0, []⟩ ⟨objs0, next0, []⟩ := by
    refine ⟨rfl, Nat.le_refl _, fun x => ?_⟩
    by_cases hx : x < next0
    · simp [hx]
    · simp only [hx, if_false]
      rw [hcl.bound x (Nat.le_of_not_lt hx)]
      rfl
  obtain ⟨B', hB', hR'⟩ := (rebuild_sim hT next0 hlen).1 t _ _ _ _ hR0 hreb
  let P : Pickle := { nb := nb, classes := m.classes, names := m.names, root := t }
  have hcls : (loadClasses m' P).classes
      = m'.classes ++ (m.classes.drop nb).map (retagInfo (trLoad nb m'.classes.length)) :=
    loadClasses_classes m' P
  refine ⟨P, loadClasses m' P, B'.objs, stS.next, vS, stS.objs, ?_, ?_, hrt, habs, ?_, ?_, ?_, ?_, ?_⟩
  · simp only [dumpP, hser, P]
  · have : rebuild (loadClasses m' P).classes ⟨objs0, next0, []⟩
        (mapClsPT (trLoad P.nb m'.classes.length) P.root) = some (B', vS) := by
      rw [hcls]; exact hB'
    simp only [loadP, this, hR'.next]
  · intro x
    rw [hR'.objs x]
    by_cases hx : x < next0
    · simp only [hx, if_true]
      exact hold x hx
    · simp only [hx, if_false]
  · intro c ci hci
    rw [hcls]
    exact hT c ci hci
  · intro c hc
    have : ¬ c < nb := Nat.not_lt.2 hc
    simp only [trLoad, this, if_false]
    exact Nat.le_add_right _ _
  · intro c hc
    rw [hcls]
    exact List.getElem?_append_left hc
  · intro c hc
    rw [hcls, List.getElem?_append_left (Nat.lt_of_lt_of_le hc hk1)]
    exact hk2 c hc

/-- Instance of the hypotheses of `pickle_class_independent_of_namespace`: the swarm of `Ex.heap`,
dumped in `Ex.modSrc` (no by-reference classes) and loaded in the same module after the name 5 — the
individual's class, `dict_cls` `9 ↦ 3` — was re-created with the same attribute names and `9 ↦ 77`. -/
example : ∃ P m'' objs' next' v' objsS,
    dumpP Ex.modSrc 0 Ex.heap 3 (.ref 0) = some P ∧
    loadP (nsRun Ex.modSrc [.create 5 ⟨.plain, [(1, 0)], [(9, .atom 77)]⟩]) P Ex.heap 3
      = some (m'', objs', next', v') ∧
    pickleRoundTrip Ex.ct 3 Ex.heap (.ref 0) Ex.heap 3 = some (objsS, next', v') ∧
    (∀ c ci, Ex.ct[c]? = some ci → m''.classes[trLoad 0 4 c]? = some (retagInfo (trLoad 0 4) ci)) := by
  obtain ⟨P, m'', objs', next', v', objsS, h1, h2, h3, _, _, h6, _⟩ :=
    pickle_class_independent_of_namespace Ex.modSrc 0 Ex.ct_ok Ex.heap 3 (.ref 0) Ex.heap_pickleOK
      Ex.modSrc (Nat.zero_le _) (fun c hc => absurd hc (Nat.not_lt_zero c))
      [.create 5 ⟨.plain, [(1, 0)], [(9, .atom 77)]⟩] Ex.heap 3 Ex.heap_closed
  exact ⟨P, m'', objs', next', v', objsS, h1, h2, h3, h6⟩

/-- … and the evaluation: the loaded swarm (oid 3) is an instance of class 6 = 4 + 2, its individual
(oid 6) of class 5 = 4 + 1, which carries the PICKLED `9 ↦ 3`, not the `9 ↦ 77` of the class that the
name 5 was bound to at load time (class 3); afterwards the name 5 is bound to the re-created class. -/
example : ((dumpP Ex.modSrc 0 Ex.heap 3 (.ref 0)).bind (fun P =>
      (loadP (nsRun Ex.modSrc [.create 5 ⟨.plain, [(1, 0)], [(9, .atom 77)]⟩]) P Ex.heap 3).map
        (fun r => (r.2.2.2, (r.2.1 3).map (·.cls), (r.2.1 6).map (·.cls)))))
    = some (.ref 3, some 6, some 5) := by
  decide

example : ((dumpP Ex.modSrc 0 Ex.heap 3 (.ref 0)).bind (fun P =>
      (loadP (nsRun Ex.modSrc [.create 5 ⟨.plain, [(1, 0)], [(9, .atom 77)]⟩]) P Ex.heap 3).map
        (fun r => (r.1.classes[5]?, r.1.classes[3]?, lookup 5 r.1.bound))))
    = some (some ⟨.plain, [(1, 4)], [(9, .atom 3)]⟩, some ⟨.plain, [(1, 0)], [(9, .atom 77)]⟩,
        some 5) := by
  decide

/-- The loaded ROOT object, spelled out: it is an instance of a class made by the load, whose
record is the pickled one — whatever the namespace went through. -/
theorem loaded_object_class_record
    (m : Module) (nb : Nat) (hct : CTOk m.classes)
    (objs : Oid → Option Obj) (n : Nat) (x : Oid) (o : Obj) (ci : ClassInfo)
    (hv : Within m.classes PickleOK objs n (.ref x)) (ho : objs x = some o)
    (hci : m.classes[o.cls]? = some ci)
    (m0 : Module) (hnb : nb ≤ m0.classes.length)
    (hpre : ∀ c, c < nb → m0.classes[c]? = m.classes[c]?) (ops : List NsOp)
    (objs0 : Oid → Option Obj) (next0 : Nat) (hcl : Closed objs0 next0) :
    ∃ P m'' objs' next' x' o',
      dumpP m nb objs n (.ref x) = some P ∧
      loadP (nsRun m0 ops) P objs0 next0 = some (m'', objs', next', .ref x') ∧
      next0 ≤ x' ∧ objs' x' = some o' ∧ o'.items.length = o.items.length ∧
      o'.cls = trLoad nb (nsRun m0 ops).classes.length o.cls ∧
      (nb ≤ o.cls → (nsRun m0 ops).classes.length ≤ o'.cls) ∧
      ∃ ci', m''.classes[o'.cls]? = some ci' ∧ ci'.kind = ci.kind ∧ ci'.dictCls = ci.dictCls ∧
        ci'.dictInst.map (·.1) = ci.dictInst.map (·.1) := by
  obtain ⟨P, m'', objs', next', v', objsS, h1, h2, h3, h4, h5, h6, h7, _, _⟩ :=
    pickle_class_independent_of_namespace m nb hct objs n (.ref x) hv m0 hnb hpre ops objs0 next0 hcl
  -- the reference copy: a reference to a fresh object of the original's class
  have hn : ∃ k, n = k + 1 := by
    cases n with
    | zero => exact hv.elim
    | succ k => exact ⟨k, rfl⟩
  have ha := h4 1
  rw [abs.eq_3, ho] at ha
  cases v' with
  | atom a => simp [abs] at ha
  | ref x' =>
    rw [abs.eq_3] at ha
    cases hS : objsS x' with
    | none => rw [hS] at ha; simp at ha
    | some oS =>
      rw [hS] at ha
      simp only [PV.node.injEq] at ha
      obtain ⟨hcls, _, hitems, _⟩ := ha
      have hfresh : next0 ≤ x' :=
        pickle_disjoint m.classes hct objs n (.ref x) objs0 next0 hcl objsS next' (.ref x') h3 x'
          (Reach.here x')
      have hx' : objs' x' = some (retag (trLoad nb (nsRun m0 ops).classes.length) oS) := by
        rw [h5 x', if_neg (Nat.not_lt.2 hfresh), hS]
        rfl
      refine ⟨P, m'', objs', next', x', _, h1, h2, hfresh, hx', ?_, ?_, ?_, ?_⟩
      · have := congrArg List.length hitems
        simpa [retag] using this
      · show trLoad nb _ oS.cls = _
        rw [hcls]
      · intro hge
        show _ ≤ trLoad nb _ oS.cls
        rw [hcls]
        exact h7 _ hge
      · refine ⟨retagInfo (trLoad nb (nsRun m0 ops).classes.length) ci, ?_, rfl, rfl, ?_⟩
        · show m''.classes[trLoad nb _ oS.cls]? = _
          rw [hcls]
          exact h6 _ _ hci
        · simp [retagInfo, List.map_map, Function.comp_def]

/-- Instance of the hypotheses of `loaded_object_class_record` (the swarm of `Ex.heap` at oid 0, of
class 2), with a history that deletes the name of its class and creates it anew. -/
example : ∃ P m'' objs' next' x' o',
    dumpP Ex.modSrc 0 Ex.heap 3 (.ref 0) = some P ∧
    loadP (nsRun Ex.modSrc [.delete 6, .create 6 ⟨.plain, [], [(9, .atom 1)]⟩]) P Ex.heap 3
      = some (m'', objs', next', .ref x') ∧ 3 ≤ x' ∧ objs' x' = some o' := by
  obtain ⟨o, ho⟩ : ∃ o, Ex.heap 0 = some o := ⟨_, rfl⟩
  obtain ⟨ci, hci⟩ : ∃ ci, Ex.modSrc.classes[o.cls]? = some ci := by
    cases ho; exact ⟨_, rfl⟩
  obtain ⟨P, m'', objs', next', x', o', h1, h2, h3, h4, _⟩ :=
    loaded_object_class_record Ex.modSrc 0 Ex.ct_ok Ex.heap 3 0 o ci Ex.heap_pickleOK ho hci
      Ex.modSrc (Nat.zero_le _) (fun c hc => absurd hc (Nat.not_lt_zero c))
      [.delete 6, .create 6 ⟨.plain, [], [(9, .atom 1)]⟩] Ex.heap 3 Ex.heap_closed
  exact ⟨P, m'', objs', next', x', o', h1, h2, h3, h4⟩

/-- The identity-free form: every class of the dump — the loaded objects' classes and, through
`dict_inst`, the classes of their per-instance attributes — is described after the load by the same
words (`__name__`, base kind, class-level attributes, per-instance attribute names and THEIR classes'
descriptions) as in the dumping module, for every namespace history. -/
theorem pickle_class_description
    (m : Module) (nb : Nat) (hct : CTOk m.classes) (hwf : m.names.length = m.classes.length)
    (m0 : Module) (hwf0 : m0.names.length = m0.classes.length) (hnb : nb ≤ m0.classes.length)
    (hpre : ∀ c, c < nb → m0.classes[c]? = m.classes[c]?)
    (hpren : ∀ c, c < nb → m0.names[c]? = m.names[c]?) (ops : List NsOp) (t : PT) :
    ∀ (k : Nat) (c : ClsId), c < m.classes.length →
      describe (loadClasses (nsRun m0 ops) ⟨nb, m.classes, m.names, t⟩).classes
          (loadClasses (nsRun m0 ops) ⟨nb, m.classes, m.names, t⟩).names k
          (trLoad nb (nsRun m0 ops).classes.length c)
        = describe m.classes m.names k c := by
  obtain ⟨hk1, hk2⟩ := nsRun_keeps ops m0
  obtain ⟨hn1, hn2⟩ := nsRun_names ops m0
  have hwf' : (nsRun m0 ops).WF := nsRun_wf ops m0 hwf0
  generalize nsRun m0 ops = m' at hk1 hk2 hn1 hn2 hwf' ⊢
  have hnb' : nb ≤ m'.classes.length := Nat.le_trans hnb hk1
  have hpre' : ∀ c, c < nb → m'.classes[c]? = m.classes[c]? := fun c hc =>
    (hk2 c (Nat.lt_of_lt_of_le hc hnb)).trans (hpre c hc)
  have hpren' : ∀ c, c < nb → m'.names[c]? = m.names[c]? := fun c hc =>
    (hn2 c (by rw [hwf0]; exact Nat.lt_of_lt_of_le hc hnb)).trans (hpren c hc)
  have hT := tableMap_load m.classes m'.classes nb hct hnb' hpre'
  have hN := names_load m' ⟨nb, m.classes, m.names, t⟩ hwf' hwf hnb' hpren'
  rw [loadClasses_classes]
  exact describe_map hct hT hN

/-- Instance of the hypotheses of `pickle_class_description`: dumped in `Ex.modSrc`, loaded there after
all three names were re-created with other values. -/
example : ∀ k c, c < 3 →
    describe (loadClasses (nsRun Ex.modSrc [.create 4 ⟨.fitness, [], [(7, .atom 1)]⟩,
        .create 5 ⟨.plain, [(1, 3)], [(9, .atom 77)]⟩, .create 6 ⟨.ctor, [(2, 4)], []⟩])
        ⟨0, Ex.modSrc.classes, Ex.modSrc.names, .atom 0⟩).classes
      (loadClasses (nsRun Ex.modSrc [.create 4 ⟨.fitness, [], [(7, .atom 1)]⟩,
        .create 5 ⟨.plain, [(1, 3)], [(9, .atom 77)]⟩, .create 6 ⟨.ctor, [(2, 4)], []⟩])
        ⟨0, Ex.modSrc.classes, Ex.modSrc.names, .atom 0⟩).names k
      (trLoad 0 (nsRun Ex.modSrc [.create 4 ⟨.fitness, [], [(7, .atom 1)]⟩,
        .create 5 ⟨.plain, [(1, 3)], [(9, .atom 77)]⟩, .create 6 ⟨.ctor, [(2, 4)], []⟩]).classes.length c)
    = describe Ex.modSrc.classes Ex.modSrc.names k c :=
  pickle_class_description Ex.modSrc 0 Ex.ct_ok rfl Ex.modSrc rfl (Nat.zero_le _)
    (fun c hc => absurd hc (Nat.not_lt_zero c)) (fun c hc => absurd hc (Nat.not_lt_zero c)) _ (.atom 0)

/-- The evaluation: the swarm class
(class 2, named 6) is described by the same words in the module it was dumped in and in a module in
which all three names were re-created with other values before the load. -/
example : describe Ex.modSrc.classes Ex.modSrc.names 3 2
    = some (.mk 6 .ctor [(2, .mk 5 .plain [(1, .mk 4 .fitness [] [(7, .atom (-1))])] [(9, .atom 3)])] []) := by
  rfl

example : (let m' := nsRun Ex.modSrc [.create 4 ⟨.fitness, [], [(7, .atom 1)]⟩,
      .create 5 ⟨.plain, [(1, 3)], [(9, .atom 77)]⟩, .create 6 ⟨.ctor, [(2, 4)], []⟩]
    let m'' := loadClasses m' ⟨0, Ex.modSrc.classes, Ex.modSrc.names, .atom 0⟩
    (describe m'.classes m'.names 3 5, describe m''.classes m''.names 3 (trLoad 0 6 2)))
    = (some (.mk 6 .ctor [(2, .mk 5 .plain [(1, .mk 4 .fitness [] [(7, .atom 1)])] [(9, .atom 77)])] []),
       some (.mk 6 .ctor [(2, .mk 5 .plain [(1, .mk 4 .fitness [] [(7, .atom (-1))])] [(9, .atom 3)])] [])) := by
  rfl

/-! ### GP node objects: every slot survives pickling, for every history of renamings -/

/-- **Node round trip.**  For every primitive set, every history of `renameArguments` calls before
the dump and every tree over the node objects of the set: each node comes back from
`__getstate__` / `__setstate__` with every slot — `name`, `value`, `ret`, `conv_fct` of a terminal,
`name`, `arity`, `args`, `ret`, `seq` of a primitive — as it was, set or unset. -/
theorem node_pickle_roundtrip (ps0 ps : Gp.PSet) (hist : List (List (Int × Int)))
    (_hh : Gp.renameHistory ps0 hist = some ps) (tree : List Nat) (nodes : List Gp.Node)
    (ht : Gp.treeNodes ps tree = some nodes) :
    Gp.treeRoundTrip ps tree = some nodes ∧ ∀ n ∈ nodes, Gp.loadNode (Gp.dumpNode n) = n := by
  refine ⟨?_, fun n _ => Gp.loadNode_dumpNode n⟩
  simp only [Gp.treeRoundTrip, ht, Gp.map_loadNode_dumpNode]

/-- Instance of the hypotheses of `node_pickle_roundtrip`: `ARG0` renamed to 200, then `ARG1` to the
old name of the first argument; the tree `add(ARG0, ARG1)`.  After the history the first argument's
terminal has `name = 100` and `value = 200`: `name` is NOT a function of `value`. -/
example : Gp.renameHistory Gp.exPset [[(100, 200)], [(101, 100)]]
    = some { nodes := [.term (some 100) (some 200) (some 7) (some 8),
                       .term (some 101) (some 100) (some 7) (some 8),
                       .prim (some 5) (some 2) (some 9) (some 7) (some 10)],
             arguments := [200, 100], mapping := [(5, 2), (200, 0), (100, 1)] } := by
  decide

example : ∃ ps nodes, Gp.renameHistory Gp.exPset [[(100, 200)], [(101, 100)]] = some ps ∧
    Gp.treeNodes ps [2, 0, 1] = some nodes ∧ Gp.treeRoundTrip ps [2, 0, 1] = some nodes := by
  refine ⟨_, _, rfl, rfl, ?_⟩
  exact (node_pickle_roundtrip Gp.exPset _ [[(100, 200)], [(101, 100)]] rfl [2, 0, 1] _ rfl).1

/-- `renameArguments` writes `value` and the key in `mapping`, never a `name` slot: along every
history every node object keeps its `name` (while the example above shows `value` changing) — a
loader that recomputes `name` from `value` cannot be right after a renaming. -/
theorem rename_keeps_node_names (ps0 ps : Gp.PSet) (hist : List (List (Int × Int)))
    (h : Gp.renameHistory ps0 hist = some ps) :
    ps.nodes.map Gp.Node.name = ps0.nodes.map Gp.Node.name :=
  Gp.renameHistory_names hist ps0 ps h

example : ∃ ps, Gp.renameHistory Gp.exPset [[(100, 101), (101, 100)]] = some ps ∧
    ps.nodes.map Gp.Node.name = [some 100, some 101, some 5] ∧
    ps.nodes.map Gp.Node.value = [some 101, some 100, none] := by
  refine ⟨_, rfl, ?_, ?_⟩ <;> decide

/-- An alias calls the registered function with the frozen positional arguments followed by the
call's own, and the frozen keyword arguments overridden/extended by the call's. -/
theorem partial_call {F A R : Type} (apply : F → List A → List (Name × A) → R)
    (tb : List (Name × Partial F A)) (alias : Name) (f : F) (args : List A) (kw : List (Name × A))
    (callArgs : List A) (callKw : List (Name × A)) :
    call apply (register tb alias f args kw) alias callArgs callKw
      = some (apply f (args ++ callArgs) (kwMerge kw callKw)) := by
  simp [call, register, lookup, callPartial]

/-- Decoration keeps the frozen arguments: after `decorate alias d₁ … dₙ` the alias calls
`dₙ (… (d₁ f))` with the same frozen arguments followed by the call's own. -/
theorem decorate_keeps_frozen {F A R : Type} (apply : F → List A → List (Name × A) → R)
    (tb : List (Name × Partial F A)) (alias : Name) (f : F) (args : List A) (kw : List (Name × A))
    (ds : List (F → F)) (callArgs : List A) (callKw : List (Name × A)) :
    (decorate (register tb alias f args kw) alias ds).bind
        (fun tb' => call apply tb' alias callArgs callKw)
      = some (apply (ds.foldl (fun g d => d g) f) (args ++ callArgs) (kwMerge kw callKw)) := by
  simp [decorate, call, register, lookup, callPartial]

/-! ### Examples: the hypotheses of the clone theorems are satisfiable -/
section Examples

/-- The common hypotheses of `clone_equal`, `clone_disjoint`, `clone_shares_no_mutable`,
`write_independent` and `clone_chain` hold together for a concrete class table, heap and value. -/
example : CTOk Ex.ct ∧ DictNodup Ex.ct ∧ Closed Ex.heap 3 ∧ Within Ex.ct CopyOK Ex.heap 3 (.ref 0) :=
  ⟨Ex.ct_ok, Ex.ct_nodup, Ex.heap_closed, Ex.heap_copyOK⟩

/-- `clone_equal` and `clone_chain` applied to that instance. -/
example : ∃ objs' next' v', clone Ex.ct 3 Ex.heap 3 (.ref 0) = some (objs', next', v') ∧
    ∀ m, abs objs' m v' = abs Ex.heap m (.ref 0) := by
  obtain ⟨o, n, v, h, h1, _⟩ := clone_equal Ex.ct Ex.ct_ok Ex.ct_nodup Ex.heap 3 Ex.heap_closed 3 (.ref 0)
    Ex.heap_copyOK
  exact ⟨o, n, v, h, h1⟩

example : ∃ objs' next' vs, cloneChain Ex.ct 3 5 Ex.heap 3 (.ref 0) = some (objs', next', vs) ∧
    vs.length = 5 := by
  obtain ⟨o, n, vs, h, h1, _⟩ := clone_chain Ex.ct Ex.ct_ok Ex.ct_nodup Ex.heap 3 Ex.heap_closed 3 (.ref 0)
    Ex.heap_copyOK 5
  exact ⟨o, n, vs, h, h1⟩

/-- The hypothesis `h` of `clone_disjoint` / `clone_shares_no_mutable` / `write_independent`: the
clone of the swarm exists (copy at oid 3; `init_type` allocates 4 and 5, the deep copies of the
individual and its fitness 6 and 7). -/
example : (clone Ex.ct 3 Ex.heap 3 (.ref 0)).map (fun r => (r.2.1, r.2.2)) = some (8, .ref 3) := by
  decide

/-- `clone_chain` with `k = 2`. -/
example : (cloneChain Ex.ct 3 2 Ex.heap 3 (.ref 0)).map (fun r => (r.2.1, r.2.2))
    = some (13, [.ref 3, .ref 8]) := by
  decide

end Examples

/-! ## `tools.initRepeat`, `tools.initIterate`, `tools.initCycle` (model `Core/Init.lean`) -/

section InitFns
open Init

/-- `initRepeat(container, func, n)`: `func` is called exactly `n` times, one call after the other (the generator expression is the
call sequence `func, func, …, func`), and the container receives the `n` results in call order: the `i`-th element is what `func`
returned on the state its first `i` calls left behind. -/
theorem initRepeat_calls {σ α γ : Type} (container : List α → γ) (func : Func σ α) (n : Nat) (s : σ) :
    initRepeat container func n s =
      ((runCalls (List.replicate n func) s).1, container (runCalls (List.replicate n func) s).2) ∧
    (repeatCalls func n s).2.length = n ∧
    (∀ i, i < n → (repeatCalls func n s).2[i]? = some (func (repeatCalls func i s).1).2) := by
  refine ⟨by simp [initRepeat, repeatCalls_eq], by simp [repeatCalls_eq, runCalls_length], fun i hi => ?_⟩
  rw [repeatCalls_eq, runCalls_get, repeatCalls_eq]
  simp [hi, List.take_replicate, Nat.min_eq_left (Nat.le_of_lt hi)]

/-- a counter: every call returns the number of calls made before it -/
def counter : Func Nat Nat := fun k => (k + 1, k)

example : initRepeat (fun l => l) counter 4 10 = (14, [10, 11, 12, 13]) := by decide

/-- `initCycle(container, seq_func, n)`: `n` passes over the function sequence, every pass calling the functions in their order —
the calls are `seq_func` repeated `n` times —, `n * len(seq_func)` results in call order. -/
theorem initCycle_calls {σ α γ : Type} (container : List α → γ) (fs : List (Func σ α)) (n : Nat) (s : σ) :
    initCycle container fs n s =
      ((runCalls (List.replicate n fs).flatten s).1, container (runCalls (List.replicate n fs).flatten s).2) ∧
    (cycleCalls fs n s).2.length = n * fs.length ∧
    (∀ i : Nat, (cycleCalls fs n s).2[i]? =
      ((List.replicate n fs).flatten[i]?).map
        (fun (f : Func σ α) => (f (runCalls ((List.replicate n fs).flatten.take i) s).1).2)) := by
  refine ⟨by simp [initCycle, cycleCalls_eq], by simp [cycleCalls_eq, runCalls_length], fun i => ?_⟩
  rw [cycleCalls_eq, runCalls_get]

/-- two functions sharing one counter: the second returns the count times ten -/
example : initCycle (fun l => l) [counter, fun k => (k + 1, 10 * k)] 3 0 = (6, [0, 10, 2, 30, 4, 50]) := by decide

/-- `initIterate(container, generator)`: the generator is called once and the container receives exactly what it returned. -/
theorem initIterate_spec {σ α γ : Type} (container : List α → γ) (generator : Func σ (List α)) (s : σ) :
    initIterate container generator s = ((generator s).1, container (generator s).2) := rfl

example : initIterate List.length (fun k => (k + 1, [k, k, k])) 5 = (6, 3) := by decide

/-- The C16 clause for individuals built by the initialisers: two consecutive `initRepeat(creator.C, func, n)` yield two objects
whose items are the results of the `n` + `n` calls in call order (the second individual continues where the first one's calls
stopped) and whose per-instance attributes are freshly constructed — everything `fresh_attrs` says about two `create`s. -/
theorem initRepeat_fresh_attrs {τ : Type} (ct : ClassTable) (objs : Oid → Option Obj) (next : Nat) (memo : List (Oid × Oid))
    (hcl : Closed objs next) (c : ClsId) (ci : ClassInfo) (hci : ct[c]? = some ci)
    (func : Func τ Val) (n : Nat) (t t1 t2 : τ) (st1 st2 : State) (x1 x2 : Oid)
    (h1 : initRepeatCls ct c func n t ⟨objs, next, memo⟩ = some (t1, st1, x1))
    (h2 : initRepeatCls ct c func n t1 st1 = some (t2, st2, x2)) :
    t1 = (runCalls (List.replicate n func) t).1 ∧ t2 = (runCalls (List.replicate (n + n) func) t).1 ∧
    ∃ o1 o2, st2.objs x1 = some o1 ∧ st2.objs x2 = some o2 ∧
      o1.items ++ o2.items = (runCalls (List.replicate (n + n) func) t).2 ∧ o1.items.length = n ∧
      (∀ p ∈ ci.dictInst, (ci.kind = .cfitness → p.1 ≠ cvName) →
          ∃ y1 y2, lookup p.1 o1.attrs = some (.ref y1) ∧
          lookup p.1 o2.attrs = some (.ref y2) ∧ next ≤ y1 ∧ y1 < st1.next ∧ st1.next ≤ y2) ∧
      (∀ k1 v1 k2 v2, lookup k1 o1.attrs = some v1 → lookup k2 o2.attrs = some v2 →
          ∀ y, Reach st2.objs v1 y → ¬ Reach st2.objs v2 y) := by
  simp only [initRepeatCls] at h1 h2
  cases hc1 : create ct ⟨objs, next, memo⟩ c (repeatCalls func n t).2 with
  | none => rw [hc1] at h1; cases h1
  | some p1 =>
    rw [hc1] at h1
    simp only [Option.map_some, Option.some.injEq, Prod.mk.injEq] at h1
    obtain ⟨e1, e2, e3⟩ := h1
    cases hc2 : create ct st1 c (repeatCalls func n t1).2 with
    | none => rw [hc2] at h2; cases h2
    | some p2 =>
      rw [hc2] at h2
      simp only [Option.map_some, Option.some.injEq, Prod.mk.injEq] at h2
      obtain ⟨f1, f2, f3⟩ := h2
      have hc1' : create ct ⟨objs, next, memo⟩ c (repeatCalls func n t).2 = some (st1, x1) := by
        rw [hc1, ← e2, ← e3]
      have hc2' : create ct st1 c (repeatCalls func n t1).2 = some (st2, x2) := by
        rw [hc2, ← f2, ← f3]
      obtain ⟨o1, o2, g1, g2, g3, g4, g5, g6, _⟩ :=
        fresh_attrs ct objs next memo hcl c ci hci _ _ st1 st2 x1 x2 hc1' hc2'
      have ht1 : t1 = (runCalls (List.replicate n func) t).1 := by rw [← e1, repeatCalls_eq]
      have hsplit : runCalls (List.replicate (n + n) func) t =
          ((runCalls (List.replicate n func) (runCalls (List.replicate n func) t).1).1,
           (runCalls (List.replicate n func) t).2 ++ (runCalls (List.replicate n func) (runCalls (List.replicate n func) t).1).2) := by
        rw [← List.replicate_append_replicate, runCalls_append]
      refine ⟨ht1, ?_, o1, o2, g1, g2, ?_, ?_, g5, g6⟩
      · rw [← f1, repeatCalls_eq, ht1, hsplit]
      · rw [g3, g4, hsplit, repeatCalls_eq, repeatCalls_eq, ht1]
      · rw [g3, repeatCalls_eq, runCalls_length, List.length_replicate]

/-- Instance of the hypotheses: the closed example heap, the individual class of the example table, a counting function producing
the atoms 7, 8, 9, … -/
example : ∃ ci t1 st1 x1 t2 st2 x2, Closed Ex.heap 3 ∧ Ex.ct[2]? = some ci ∧
    initRepeatCls Ex.ct 2 (fun k => (k + 1, Val.atom (Int.ofNat k))) 2 7 ⟨Ex.heap, 3, []⟩ = some (t1, st1, x1) ∧
    initRepeatCls Ex.ct 2 (fun k => (k + 1, Val.atom (Int.ofNat k))) 2 t1 st1 = some (t2, st2, x2) := by
  obtain ⟨st1, x1, h1⟩ := create_succeeds Ex.ct Ex.ct_ok ⟨Ex.heap, 3, []⟩ 2
    (repeatCalls (fun k => (k + 1, Val.atom (Int.ofNat k))) 2 7).2 (by decide)
  obtain ⟨st2, x2, h2⟩ := create_succeeds Ex.ct Ex.ct_ok st1 2
    (repeatCalls (fun k => (k + 1, Val.atom (Int.ofNat k))) 2 9).2 (by decide)
  refine ⟨_, 9, st1, x1, 11, st2, x2, Ex.heap_closed, rfl, ?_, ?_⟩
  · simp only [initRepeatCls]; rw [h1]; rfl
  · simp only [initRepeatCls]; rw [h2]; rfl

example : ((initRepeatCls Ex.ct 2 (fun k => (k + 1, Val.atom (Int.ofNat k))) 2 7 ⟨Ex.heap, 3, []⟩).bind
    (fun r => (r.2.1.objs r.2.2).map (fun o => (r.1, r.2.2, o.items)))) = some (9, 3, [.atom 7, .atom 8]) := by
  decide

end InitFns

/-! ### Creator classes derived from creator classes (`Core/HeapDerive.lean`) -/

/-- **Fresh attributes along the creator-MRO.**  Two consecutive instantiations of a creator class `d` that is
derived (through any number of levels) from creator classes: for every per-instance attribute declared by ANY
class on the creator-MRO of `d` (`mroDecl`: the class's own declarations, its created parent's, … — each
`init_type` runs its own closure dict and then `base.__init__`), each instance holds under that name a reference
to an object allocated by ITS OWN constructor call (never an older object, never the other instance's, never
something on the class); nothing reachable from an attribute of the first instance is reachable from an
attribute of the second; and what neither instance holds itself is looked up on the classes of the MRO, the same
for both.  (Guard as in `fresh_attrs`: the root `__init__` of a `ConstrainedFitness` sets
`constraint_violation = None` over a declaration of that very name.) -/
theorem derived_create_fresh_attrs (ct : ClassTable) (dt : DTable) (objs : Oid → Option Obj) (next : Nat)
    (memo : List (Oid × Oid)) (hcl : Closed objs next) (d : Nat) (dc : DClass) (hdc : dt[d]? = some dc)
    (items₁ items₂ : List Val) (st1 st2 : State) (x1 x2 : Oid)
    (h1 : createD ct dt ⟨objs, next, memo⟩ d items₁ = some (st1, x1))
    (h2 : createD ct dt st1 d items₂ = some (st2, x2)) :
    ∃ o1 o2, st2.objs x1 = some o1 ∧ st2.objs x2 = some o2 ∧ o1.items = items₁ ∧ o2.items = items₂ ∧
      (∀ p ∈ mroDecl dt d, (dc.kind = .cfitness → p.1 ≠ cvName) →
          ∃ y1 y2, lookup p.1 o1.attrs = some (.ref y1) ∧
          lookup p.1 o2.attrs = some (.ref y2) ∧ next ≤ y1 ∧ y1 < st1.next ∧ st1.next ≤ y2 ∧
          (st2.objs y1).isSome = true ∧ (st2.objs y2).isSome = true) ∧
      (∀ k1 v1 k2 v2, lookup k1 o1.attrs = some v1 → lookup k2 o2.attrs = some v2 →
          ∀ y, Reach st2.objs v1 y → ¬ Reach st2.objs v2 y) ∧
      (∀ k, lookup k o1.attrs = none → lookup k o2.attrs = none →
          getattrD ct dt st2.objs x1 k = getattrD ct dt st2.objs x2 k) := by
  obtain ⟨dc1, sb, sets1, hdc1, hx1e, rfl, E1, S1⟩ :=
    createD_of_eq ct dt objs next memo d items₁ st1 x1 hcl.bound h1
  subst x1
  rw [hdc] at hdc1
  cases hdc1
  have A1 := S1.setAll
  obtain ⟨o1, ho1⟩ : ∃ o1 : Obj, o1 =
    ⟨clsOfD ct d, items₁, dictUpdate (setAll sets1 []) (baseInitAttrs dc.kind), dc.kind != .node⟩ := ⟨_, rfl⟩
  rw [← ho1] at h2
  have hb1 : ∀ y, sb.next ≤ y → define sb.objs next o1 y = none :=
    Bounded.reserve_define (st := ⟨objs, next, memo⟩) E1
  obtain ⟨dc2, sc, sets2, hdc2, hx2e, rfl, E2, S2⟩ :=
    createD_of_eq ct dt _ sb.next sb.memo d items₂ st2 x2 hb1 h2
  subst x2
  rw [hdc] at hdc2
  cases hdc2
  have A2 := S2.setAll
  obtain ⟨o2, ho2⟩ : ∃ o2 : Obj, o2 =
    ⟨clsOfD ct d, items₂, dictUpdate (setAll sets2 []) (baseInitAttrs dc.kind), dc.kind != .node⟩ := ⟨_, rfl⟩
  rw [← ho2]
  have hlt1 : next + 1 ≤ sb.next := E1.le
  have hlt2 : sb.next + 1 ≤ sc.next := E2.le
  have F1 : ∀ x, x < sb.next → define sc.objs sb.next o2 x = define sb.objs next o1 x := by
    intro x hx
    rw [define_ne _ _ _ (Nat.ne_of_lt hx)]
    exact E2.old x (Nat.lt_succ_of_lt hx)
  have hx1 : define sc.objs sb.next o2 next = some o1 := by
    rw [F1 next (by omega), define_same]
  have hx2 : define sc.objs sb.next o2 sb.next = some o2 := define_same _ _ _
  have R1 : ∀ (v : Val) (y : Nat), Reach (define sc.objs sb.next o2) v y →
      (∀ x : Nat, v = Val.ref x → next + 1 ≤ x ∧ x < sb.next) → next + 1 ≤ y ∧ y < sb.next := by
    intro v y hr
    refine reach_closed (fun y : Nat => next + 1 ≤ y ∧ y < sb.next) ?_ hr
    intro x o hx ho y hy
    rw [F1 x hx.2, define_ne _ _ _ (Nat.ne_of_gt hx.1)] at ho
    have := E1.closed x o hx.1 ho _ hy
    exact ⟨this.1, this.2.1⟩
  have R2 : ∀ (v : Val) (y : Nat), Reach (define sc.objs sb.next o2) v y →
      (∀ x, v = Val.ref x → sb.next + 1 ≤ x) → sb.next + 1 ≤ y := by
    intro v y hr
    refine reach_closed (fun y => sb.next + 1 ≤ y) ?_ hr
    intro x o hx ho y hy
    rw [define_ne _ _ _ (Nat.ne_of_gt hx)] at ho
    exact (E2.closed x o hx ho _ hy).1
  have L : ∀ (attrs : List (Name × Val)) (k : Name) (v : Val),
      lookup k (dictUpdate attrs (baseInitAttrs dc.kind)) = some v →
      (∃ a, v = .atom a) ∨ lookup k attrs = some v := by
    intro attrs k v h
    rw [lookup_dictUpdate] at h
    cases hb : lookup k (baseInitAttrs dc.kind) with
    | none => rw [hb] at h; exact Or.inr h
    | some w =>
      rw [hb] at h
      cases h
      exact Or.inl ⟨_, (lookup_baseInitAttrs hb).2.2⟩
  have ha1 : o1.attrs = dictUpdate (setAll sets1 []) (baseInitAttrs dc.kind) := by rw [ho1]
  have ha2 : o2.attrs = dictUpdate (setAll sets2 []) (baseInitAttrs dc.kind) := by rw [ho2]
  -- a declared name: the value set last under it, a reference into the slots of the call
  have D : ∀ (sets : List (Name × Val)) (lo hi : Nat) (ob : Oid → Option Obj),
      AttrsIn ob lo hi (mroDecl dt d) sets → ∀ p ∈ mroDecl dt d,
      ∃ y, lookup p.1 (setAll sets []) = some (.ref y) ∧ lo ≤ y ∧ y < hi ∧ (ob y).isSome = true := by
    intro sets lo hi ob hS p hp
    have hmem : p.1 ∈ sets.map (·.1) := by
      rw [hS.1]
      exact List.mem_map.2 ⟨p, hp, rfl⟩
    obtain ⟨v, hv⟩ := lastVal_isSome_of_mem_keys hmem
    obtain ⟨y, hy, h1, h2, h3⟩ := hS.2 _ (lastVal_mem hv)
    refine ⟨y, ?_, h1, h2, h3⟩
    rw [lookup_setAll, hv]
    exact congrArg some hy
  refine ⟨o1, o2, hx1, hx2, by rw [ho1], by rw [ho2], ?_, ?_, ?_⟩
  · intro p hp hguard
    obtain ⟨y1, hl1, h11, h12, h13⟩ := D _ _ _ _ S1 p hp
    obtain ⟨y2, hl2, h21, h22, h23⟩ := D _ _ _ _ S2 p hp
    have hnb : lookup p.1 (baseInitAttrs dc.kind) = none := by
      cases hb : lookup p.1 (baseInitAttrs dc.kind) with
      | none => rfl
      | some w =>
        obtain ⟨hk, hn, _⟩ := lookup_baseInitAttrs hb
        exact absurd hn (hguard hk)
    refine ⟨y1, y2, ?_, ?_, by omega, h12, Nat.le_of_succ_le h21, ?_, ?_⟩
    · rw [ha1, lookup_dictUpdate, hnb]; exact hl1
    · rw [ha2, lookup_dictUpdate, hnb]; exact hl2
    · show (define sc.objs sb.next o2 y1).isSome = true
      rw [F1 y1 h12]
      exact define_isSome _ _ _ h13
    · show (define sc.objs sb.next o2 y2).isSome = true
      exact define_isSome _ _ _ h23
  · intro k1 v1 k2 v2 hl1 hl2 y hr1 hr2
    rw [ha1] at hl1
    rw [ha2] at hl2
    rcases L _ _ _ hl1 with ⟨a, rfl⟩ | hl1
    · cases hr1
    rcases L _ _ _ hl2 with ⟨a, rfl⟩ | hl2
    · cases hr2
    obtain ⟨y1, rfl, h11, h12⟩ := A1.lookup_ref hl1
    obtain ⟨y2, rfl, h21, _⟩ := A2.lookup_ref hl2
    have a1 := R1 _ _ hr1 (fun x hx => by cases hx; exact ⟨h11, h12⟩)
    have a2 := R2 _ _ hr2 (fun x hx => by cases hx; exact h21)
    omega
  · intro k hk1 hk2
    show getattrD ct dt (define sc.objs sb.next o2) next k = getattrD ct dt (define sc.objs sb.next o2) sb.next k
    have hc1 : o1.cls = clsOfD ct d := by rw [ho1]
    have hc2 : o2.cls = clsOfD ct d := by rw [ho2]
    simp only [getattrD, hx1, hx2, hk1, hk2, hc1, hc2]

/-- The chain of the seeded counter-example: `Fit` (class 0 of `ct`), `Ind = create(list, fitness=Fit, strategy=list)`,
`Sub = create(Ind, bound=9)` (declares nothing), `Sub2 = create(Sub, fitness=Fit, memo=list)` (redeclares one name,
adds one). -/
def exCt : ClassTable := [⟨.fitness, [], []⟩, ⟨.plain, [], []⟩]
def exDt : DTable :=
  [⟨none, .plain, [(1, 0), (2, 1)], []⟩, ⟨some 0, .plain, [], [(9, .atom 9)]⟩, ⟨some 1, .plain, [(1, 0), (3, 1)], []⟩]

/-- Instance of the hypotheses of `derived_create_fresh_attrs` (class `Sub`, which declares nothing itself). -/
example : ∃ dc st1 x1 st2 x2, Closed (fun _ => none) 0 ∧ exDt[1]? = some dc ∧
    createD exCt exDt ⟨fun _ => none, 0, []⟩ 1 [.atom 1] = some (st1, x1) ∧
    createD exCt exDt st1 1 [.atom 2] = some (st2, x2) :=
  ⟨_, _, _, _, _, ⟨fun _ _ => rfl, fun _ _ h => by cases h⟩, rfl, rfl, rfl⟩

/-- The parent's declarations reach the instance of the child that declares nothing … -/
example : mroDecl exDt 1 = [(1, 0), (2, 1)] := by decide
/-- … an instance of `Sub` holds its own `fitness` (oid 1) and `strategy` (oid 2), the next one oids 4 and 5 … -/
example : ((createD exCt exDt ⟨fun _ => none, 0, []⟩ 1 [.atom 1]).bind (fun r =>
    (createD exCt exDt r.1 1 [.atom 2]).map (fun r2 =>
      ((r2.1.objs 0).map (·.attrs), (r2.1.objs 3).map (·.attrs))))) =
    some (some [(1, .ref 1), (2, .ref 2)], some [(1, .ref 4), (2, .ref 5)]) := by decide
/-- … and for a redeclared name (`Sub2.fitness`) the value set LAST — the root-most class's — stays, in the
position of the first `setattr`; the object set first (oid 1) is garbage. -/
example : ((createD exCt exDt ⟨fun _ => none, 0, []⟩ 2 []).bind (fun r => (r.1.objs 0).map (·.attrs))) =
    some [(1, .ref 3), (3, .ref 2), (2, .ref 4)] := by decide
example : effClass exDt 2 1 = some 0 ∧ effDictInst (mroDecl exDt 2) = [(1, 0), (3, 1), (2, 1)] := by decide

/-- **Which declaration an instance keeps.**  If the name is declared on the creator-MRO of `d`, a new instance of
`d` holds under it a new object of the class given by the declaration executed LAST in the `__init__` chain
(`effClass`): the class's own loop runs first and `base.__init__` afterwards, so for a name declared on several
levels it is the declaration of the class NEAREST THE ROOT that the instance keeps — the model follows the code. -/
theorem derived_attr_class (ct : ClassTable) (dt : DTable) (objs : Oid → Option Obj) (next : Nat)
    (memo : List (Oid × Oid)) (hcl : Closed objs next) (d : Nat) (dc : DClass) (hdc : dt[d]? = some dc)
    (items : List Val) (st1 : State) (x1 : Oid)
    (h1 : createD ct dt ⟨objs, next, memo⟩ d items = some (st1, x1))
    (name : Name) (c : ClsId) (hc : effClass dt d name = some c)
    (hguard : dc.kind = .cfitness → name ≠ cvName) :
    ∃ o1 y oy, st1.objs x1 = some o1 ∧ lookup name o1.attrs = some (.ref y) ∧ next < y ∧
      st1.objs y = some oy ∧ oy.cls = c := by
  unfold createD at h1
  rw [hdc] at h1
  simp only at h1
  split at h1
  · cases h1
  · rename_i sb sets hrun
    cases h1
    have hba : Bounded ⟨objs, next + 1, memo⟩ := fun y hy => hcl.bound y (Nat.le_of_succ_le hy)
    obtain ⟨_, hA⟩ := instAttrs_of_eq_any ct _ _ _ _ hba hrun
    rw [instAttrs_eq] at hrun
    have F := instLoop_cls ct ct.length _ _ _ _ hba hrun
    obtain ⟨y, oy, hv, hoy, hcls⟩ := lastVal_lastDecl F hc
    obtain ⟨y', hy', hlo, _, _⟩ := hA.2 _ (lastVal_mem hv)
    cases hy'
    have hnb : lookup name (baseInitAttrs dc.kind) = none := by
      cases hb : lookup name (baseInitAttrs dc.kind) with
      | none => rfl
      | some w =>
        obtain ⟨hk, hn, _⟩ := lookup_baseInitAttrs hb
        exact absurd hn (hguard hk)
    refine ⟨_, y, oy, define_same _ _ _, ?_, hlo, ?_, hcls⟩
    · show lookup name (dictUpdate (setAll sets []) (baseInitAttrs dc.kind)) = some (.ref y)
      rw [lookup_dictUpdate, hnb]
      show lookup name (setAll sets []) = some (.ref y)
      rw [lookup_setAll, hv]
    · show define sb.objs next _ y = some oy
      rw [define_ne _ _ _ (Nat.ne_of_gt hlo)]
      exact hoy

/-- Instance of the hypotheses: `Sub2` redeclares `fitness` (name 1): the effective class is the root's. -/
example : ∃ dc st1 x1, Closed (fun _ => none) 0 ∧ exDt[2]? = some dc ∧
    createD exCt exDt ⟨fun _ => none, 0, []⟩ 2 [] = some (st1, x1) ∧ effClass exDt 2 1 = some 0 ∧
    (dc.kind = .cfitness → (1 : Name) ≠ cvName) :=
  ⟨_, _, _, ⟨fun _ _ => rfl, fun _ _ h => by cases h⟩, rfl, rfl, by decide, fun _ => by decide⟩

end C16
