/-
C16 — Created types clone and pickle faithfully and independently.
Property theorems only; model `DeapModel/Core/Heap.lean`, vocabulary `Lemmas/C16Defs.lean`.
-/
import DeapModel.Core.Heap
import DeapModel.Lemmas.C16Defs
import DeapModel.Lemmas.C16Pickle
import DeapModel.Lemmas.C16Copy
import DeapModel.Lemmas.C16Examples

namespace C16
open Heap

/-! ### Concrete data used by the `example`s below (non-vacuity of the hypotheses) -/


/-- Instantiation succeeds for every class of a well-founded class table. -/
theorem create_succeeds (ct : ClassTable) (hct : CTOk ct) (st : State) (c : ClsId) (items : List Val)
    (hc : c < ct.length) : ∃ st' x, create ct st c items = some (st', x) := by
  obtain ⟨ci, sb, attrs, _, h, _⟩ :=
    newInst_spec ct hct (ct.length + 1) st c items hc (Nat.lt_succ_of_lt hc)
  exact ⟨_, _, h⟩

/-- Instance of the hypotheses of `create_succeeds` (`CTOk`, `c < ct.length`) … -/
example : ∃ st' x, create Ex.ct ⟨Ex.heap, 3, []⟩ 2 [.atom 5] = some (st', x) :=
  create_succeeds Ex.ct Ex.ct_ok ⟨Ex.heap, 3, []⟩ 2 [.atom 5] (by decide)

/-- … and the evaluation: a swarm at oid 3, its `best` at 4, the fitness of that at 5. -/
example : (create Ex.ct ⟨Ex.heap, 3, []⟩ 2 [.atom 5]).map (fun r => (r.1.next, r.2)) = some (6, 3) := by
  decide

/-- Two instances never share an instantiated attribute: every attribute named in `dict_inst`
exists on each instance, is a reference to an object allocated by that very call, and nothing
reachable from an attribute of the first instance is reachable from one of the second.  Class
attributes (`dict_cls`) are the same value for both (shared by construction).

The guard `ci.kind = .cfitness → p.1 ≠ cvName` of the first clause: `init_type` calls
`base.__init__` after the `dict_inst` attributes are set (creator.py:125-126), and
`ConstrainedFitness.__init__` sets `constraint_violation = None`; a `dict_inst` attribute of that
very name on a `ConstrainedFitness` class is therefore `None` on every instance, not a fresh object
(every other `dict_inst` attribute is). -/
theorem fresh_attrs (ct : ClassTable) (objs : Oid → Option Obj) (next : Nat) (memo : List (Oid × Oid))
    (hcl : Closed objs next) (c : ClsId) (ci : ClassInfo) (hci : ct[c]? = some ci)
    (items₁ items₂ : List Val) (st1 st2 : State) (x1 x2 : Oid)
    (h1 : create ct ⟨objs, next, memo⟩ c items₁ = some (st1, x1))
    (h2 : create ct st1 c items₂ = some (st2, x2)) :
    ∃ o1 o2, st2.objs x1 = some o1 ∧ st2.objs x2 = some o2 ∧ o1.items = items₁ ∧ o2.items = items₂ ∧
      (∀ p ∈ ci.dictInst, (ci.kind = .cfitness → p.1 ≠ cvName) →
          ∃ y1 y2, lookup p.1 o1.attrs = some (.ref y1) ∧
          lookup p.1 o2.attrs = some (.ref y2) ∧ next ≤ y1 ∧ y1 < st1.next ∧ st1.next ≤ y2) ∧
      (∀ k1 v1 k2 v2, lookup k1 o1.attrs = some v1 → lookup k2 o2.attrs = some v2 →
          ∀ y, Reach st2.objs v1 y → ¬ Reach st2.objs v2 y) ∧
      (∀ k, lookup k o1.attrs = none → lookup k o2.attrs = none →
          getattr ct st2.objs x1 k = getattr ct st2.objs x2 k) := by
  obtain ⟨ci1, sb, attrs1, hci1, hx1e, rfl, E1, A1⟩ :=
    create_of_eq ct objs next memo c items₁ st1 x1 hcl.bound h1
  subst x1
  rw [hci] at hci1
  cases hci1
  -- the two new objects
  obtain ⟨o1, ho1⟩ : ∃ o1 : Obj, o1 =
    ⟨c, items₁, dictUpdate attrs1 (baseInitAttrs ci.kind), ci.kind != .node⟩ := ⟨_, rfl⟩
  rw [← ho1] at h2
  have hb1 : ∀ y, sb.next ≤ y → define sb.objs next o1 y = none :=
    Bounded.reserve_define (st := ⟨objs, next, memo⟩) E1
  obtain ⟨ci2, sc, attrs2, hci2, hx2e, rfl, E2, A2⟩ :=
    create_of_eq ct _ sb.next sb.memo c items₂ st2 x2 hb1 h2
  subst x2
  rw [hci] at hci2
  cases hci2
  obtain ⟨o2, ho2⟩ : ∃ o2 : Obj, o2 =
    ⟨c, items₂, dictUpdate attrs2 (baseInitAttrs ci.kind), ci.kind != .node⟩ := ⟨_, rfl⟩
  rw [← ho2]
  have hlt1 : next + 1 ≤ sb.next := E1.le
  have hlt2 : sb.next + 1 ≤ sc.next := E2.le
  -- the final heap on the slots of the first call
  have F1 : ∀ x, x < sb.next → define sc.objs sb.next o2 x = define sb.objs next o1 x := by
    intro x hx
    rw [define_ne _ _ _ (Nat.ne_of_lt hx)]
    exact E2.old x (Nat.lt_succ_of_lt hx)
  have hx1 : define sc.objs sb.next o2 next = some o1 := by
    rw [F1 next (by omega), define_same]
  have hx2 : define sc.objs sb.next o2 sb.next = some o2 := define_same _ _ _
  -- reachability stays inside the slots of the call that allocated the attribute
  have R1 : ∀ (v : Val) (y : Nat), Reach (define sc.objs sb.next o2) v y →
      (∀ x : Nat, v = Val.ref x → next + 1 ≤ x ∧ x < sb.next) → next + 1 ≤ y ∧ y < sb.next := by
    intro v y hr
    refine reach_closed (fun y : Nat => next + 1 ≤ y ∧ y < sb.next) ?_ hr
    intro x o hx ho y hy
    rw [F1 x hx.2, define_ne _ _ _ (Nat.ne_of_gt hx.1)] at ho
    have := E1.closed x o hx.1 ho _ hy
    exact ⟨this.1, this.2.1⟩
  have R2 : ∀ (v : Val) (y : Nat), Reach (define sc.objs sb.next o2) v y →
      (∀ x, v = Val.ref x → sb.next + 1 ≤ x) → sb.next + 1 ≤ y := by
    intro v y hr
    refine reach_closed (fun y => sb.next + 1 ≤ y) ?_ hr
    intro x o hx ho y hy
    rw [define_ne _ _ _ (Nat.ne_of_gt hx)] at ho
    exact (E2.closed x o hx ho _ hy).1
  -- an attribute of a new object: what `base.__init__` set (an atom) or an instantiated one
  have L : ∀ (attrs : List (Name × Val)) (k : Name) (v : Val),
      lookup k (dictUpdate attrs (baseInitAttrs ci.kind)) = some v →
      (∃ a, v = .atom a) ∨ lookup k attrs = some v := by
    intro attrs k v h
    rw [lookup_dictUpdate] at h
    cases hb : lookup k (baseInitAttrs ci.kind) with
    | none => rw [hb] at h; exact Or.inr h
    | some w =>
      rw [hb] at h
      cases h
      exact Or.inl ⟨_, (lookup_baseInitAttrs hb).2.2⟩
  have ha1 : o1.attrs = dictUpdate attrs1 (baseInitAttrs ci.kind) := by rw [ho1]
  have ha2 : o2.attrs = dictUpdate attrs2 (baseInitAttrs ci.kind) := by rw [ho2]
  refine ⟨o1, o2, hx1, hx2, by rw [ho1], by rw [ho2], ?_, ?_, ?_⟩
  · intro p hp hguard
    obtain ⟨y1, hl1, h11, h12⟩ := A1.lookup_of_mem hp
    obtain ⟨y2, hl2, h21, _⟩ := A2.lookup_of_mem hp
    have hnb : lookup p.1 (baseInitAttrs ci.kind) = none := by
      cases hb : lookup p.1 (baseInitAttrs ci.kind) with
      | none => rfl
      | some w =>
        obtain ⟨hk, hn, _⟩ := lookup_baseInitAttrs hb
        exact absurd hn (hguard hk)
    refine ⟨y1, y2, ?_, ?_, by omega, h12, Nat.le_of_succ_le h21⟩
    · rw [ha1, lookup_dictUpdate, hnb]; exact hl1
    · rw [ha2, lookup_dictUpdate, hnb]; exact hl2
  · intro k1 v1 k2 v2 hl1 hl2 y hr1 hr2
    rw [ha1] at hl1
    rw [ha2] at hl2
    rcases L _ _ _ hl1 with ⟨a, rfl⟩ | hl1
    · cases hr1
    rcases L _ _ _ hl2 with ⟨a, rfl⟩ | hl2
    · cases hr2
    obtain ⟨y1, rfl, h11, h12⟩ := A1.lookup_ref hl1
    obtain ⟨y2, rfl, h21, _⟩ := A2.lookup_ref hl2
    have a1 := R1 _ _ hr1 (fun x hx => by cases hx; exact ⟨h11, h12⟩)
    have a2 := R2 _ _ hr2 (fun x hx => by cases hx; exact h21)
    omega
  · intro k hk1 hk2
    show getattr ct (define sc.objs sb.next o2) next k = getattr ct (define sc.objs sb.next o2) sb.next k
    have hc1 : o1.cls = c := by rw [ho1]
    have hc2 : o2.cls = c := by rw [ho2]
    simp only [getattr, hx1, hx2, hk1, hk2, hc1, hc2]

/-- Instance of the hypotheses of `fresh_attrs`: a closed heap, a class of the table, and two
consecutive successful instantiations. -/
example : ∃ ci st1 x1 st2 x2, Closed Ex.heap 3 ∧ Ex.ct[2]? = some ci ∧
    create Ex.ct ⟨Ex.heap, 3, []⟩ 2 [.atom 1] = some (st1, x1) ∧
    create Ex.ct st1 2 [.atom 2] = some (st2, x2) := by
  obtain ⟨st1, x1, h1⟩ := create_succeeds Ex.ct Ex.ct_ok ⟨Ex.heap, 3, []⟩ 2 [.atom 1] (by decide)
  obtain ⟨st2, x2, h2⟩ := create_succeeds Ex.ct Ex.ct_ok st1 2 [.atom 2] (by decide)
  exact ⟨_, st1, x1, st2, x2, Ex.heap_closed, rfl, h1, h2⟩

/-- The second instance is allocated after everything the first one allocated. -/
example : ((create Ex.ct ⟨Ex.heap, 3, []⟩ 2 [.atom 1]).bind
    (fun r => (create Ex.ct r.1 2 [.atom 2]).map (fun r' => (r.2, r.1.next, r'.2, r'.1.next))))
    = some (3, 6, 6, 9) := by
  decide

/-- Clone equal: under the side conditions of the hooks the clone exists, denotes the same pure
value as the original at every depth, and the original still denotes what it did.

`hnd` (`dict_inst` is a dict: unique names) is needed for the last conjunct only (the clone again
satisfies the side conditions at the same depth, so it can be cloned again); everything else is
`Heap.Copy.clone_facts`, which does not use it.  Without `hnd` the last conjunct is false:
`ct = [⟨.fitness, [], []⟩, ⟨.tree, [(5, 0), (5, 0)], []⟩]`, `objs 0 = ⟨1, [], [(5, atom 7)], true⟩`,
`next = 1`, `n = 1`, `v = ref 0` satisfy `CTOk` and `Within ct CopyOK objs 1 v`; `init_type`
instantiates the name `5` twice, `dictSet` overrides only the first entry, the clone is
`⟨1, [], [(5, atom 7), (5, ref 3)], true⟩` with a child of depth 1, and
`cloneChain ct 1 2 objs 1 (ref 0) = none`. -/
theorem clone_equal (ct : ClassTable) (hct : CTOk ct) (hnd : DictNodup ct)
    (objs : Oid → Option Obj) (next : Nat)
    (hcl : Closed objs next) (n : Nat) (v : Val) (hv : Within ct CopyOK objs n v) :
    ∃ objs' next' v', clone ct n objs next v = some (objs', next', v') ∧
      (∀ m, abs objs' m v' = abs objs m v) ∧ (∀ m, abs objs' m v = abs objs m v) ∧
      Closed objs' next' ∧ next ≤ next' ∧ (∀ y, y < next → objs' y = objs y) ∧
      Within ct CopyOK objs' n v' := by
  obtain ⟨objs', next', v', h, h1, h2, h3, h4, h5, h6, _⟩ := Heap.Copy.clone_facts hct hcl n v hv
  exact ⟨objs', next', v', h, h1, h2, h3, h4, h5, h6 hnd⟩

/-- `create` composes with `clone`: a freshly created instance (atom items) of a class whose
instantiated fitness classes have no `dict_inst` attributes (`CreateOK`) satisfies the side
conditions of the copy hooks — in particular a new `ConstrainedFitness` has its
`constraint_violation`, set to `None` by `base.__init__` — so its clone exists, denotes the same
pure value, leaves the original as it is, and can be cloned again. -/
theorem create_then_clone (ct : ClassTable) (hct : CTOk ct) (hnd : DictNodup ct)
    (objs : Oid → Option Obj) (next : Nat) (memo : List (Oid × Oid)) (hcl : Closed objs next)
    (c : ClsId) (hc : c < ct.length) (hok : CreateOK ct c)
    (items : List Val) (hitems : ∀ v ∈ items, v.isAtom = true) :
    ∃ st x, create ct ⟨objs, next, memo⟩ c items = some (st, x) ∧ Closed st.objs st.next ∧
      Within ct CopyOK st.objs (ct.length + 1) (.ref x) ∧
      ∃ objs' next' v', clone ct (ct.length + 1) st.objs st.next (.ref x) = some (objs', next', v') ∧
        (∀ m, abs objs' m v' = abs st.objs m (.ref x)) ∧
        (∀ m, abs objs' m (.ref x) = abs st.objs m (.ref x)) ∧
        Closed objs' next' ∧ Within ct CopyOK objs' (ct.length + 1) v' := by
  obtain ⟨st, x, h⟩ := create_succeeds ct hct ⟨objs, next, memo⟩ c items hc
  have hb : Bounded ⟨objs, next, memo⟩ := hcl.bound
  obtain ⟨_, hE⟩ := newInst_ext_of_eq ct hb hitems h
  have hcl' : Closed st.objs st.next := hE.closed_heap hcl
  have hw : Within ct CopyOK st.objs (ct.length + 1) (.ref x) :=
    Heap.Copy.newInst_within (ct.length + 1) _ _ c items x hb hok hitems h
  obtain ⟨objs', next', v', hcl1, h1, h2, h3, _, _, h6⟩ :=
    clone_equal ct hct hnd st.objs st.next hcl' (ct.length + 1) (.ref x) hw
  exact ⟨st, x, h, hcl', hw, objs', next', v', hcl1, h1, h2, h3, h6⟩

/-- Instance of the hypotheses of `create_then_clone`: an individual whose `dict_inst` names a
`ConstrainedFitness` class, created in the heap of a fresh interpreter … -/
example : ∃ st x, create Ex2.ct ⟨fun _ => none, 0, []⟩ 1 [.atom 1, .atom 2] = some (st, x) ∧
    ∃ objs' next' v', clone Ex2.ct 3 st.objs st.next (.ref x) = some (objs', next', v') ∧
      ∀ m, abs objs' m v' = abs st.objs m (.ref x) := by
  obtain ⟨st, x, h, _, _, objs', next', v', h1, h2, _⟩ :=
    create_then_clone Ex2.ct Ex2.ct_ok Ex2.ct_nodup (fun _ => none) 0 [] Ex.empty_closed 1
      (by decide) (Ex2.ct_createOK 1) [.atom 1, .atom 2]
      (by intro v hv; simp at hv; rcases hv with rfl | rfl <;> rfl)
  exact ⟨st, x, h, objs', next', v', h1, h2⟩

/-- … and the evaluation: the individual at oid 0, its fitness at 1; the clone at 2, the clone of
the fitness at 3 … -/
example : ((create Ex2.ct ⟨fun _ => none, 0, []⟩ 1 [.atom 1, .atom 2]).bind (fun r =>
    (clone Ex2.ct 3 r.1.objs r.1.next (.ref r.2)).map (fun r' =>
      (r.2, r.1.next, r'.2.1, r'.2.2)))) = some (0, 2, 4, .ref 2) := by
  decide

/-- … the new fitness carries `constraint_violation = None` from `base.__init__`, and so does its
clone (the clone of the individual refers to it). -/
example : ((create Ex2.ct ⟨fun _ => none, 0, []⟩ 1 [.atom 1, .atom 2]).bind (fun r =>
    (clone Ex2.ct 3 r.1.objs r.1.next (.ref r.2)).map (fun r' =>
      (r.1.objs 1, r'.1 2, r'.1 3))))
    = some (some ⟨0, [], [(cvName, .atom noneAtom)], true⟩,
        some ⟨1, [.atom 1, .atom 2], [(1, .ref 3)], true⟩,
        some ⟨0, [], [(cvName, .atom noneAtom)], true⟩) := by
  decide

/-- Clone disjoint: every object reachable from the clone is fresh, except immutable objects of
the old heap (GP node objects shared by `PrimitiveTree.__deepcopy__`). -/
theorem clone_disjoint (ct : ClassTable) (hct : CTOk ct) (objs : Oid → Option Obj) (next : Nat)
    (hcl : Closed objs next) (n : Nat) (v : Val) (hv : Within ct CopyOK objs n v)
    (objs' : Oid → Option Obj) (next' : Nat) (v' : Val)
    (h : clone ct n objs next v = some (objs', next', v')) :
    ∀ y, Reach objs' v' y → next ≤ y ∨ ImmutableIn objs y := by
  exact (Heap.Copy.clone_disjoint' hct hcl n v hv objs' next' v' h).2

/-- Consequently no *mutable* object is reachable from both. -/
theorem clone_shares_no_mutable (ct : ClassTable) (hct : CTOk ct) (objs : Oid → Option Obj) (next : Nat)
    (hcl : Closed objs next) (n : Nat) (v : Val) (hv : Within ct CopyOK objs n v)
    (objs' : Oid → Option Obj) (next' : Nat) (v' : Val)
    (h : clone ct n objs next v = some (objs', next', v')) :
    ∀ y o, Reach objs' v y → Reach objs' v' y → objs' y = some o → o.mutable = false := by
  exact Heap.Copy.clone_shares_no_mutable' hct hcl n v hv objs' next' v' h

/-- A heap write through either object (replacing any mutable object reachable from it by anything)
leaves the pure value of the other unchanged. -/
theorem write_independent (ct : ClassTable) (hct : CTOk ct) (objs : Oid → Option Obj) (next : Nat)
    (hcl : Closed objs next) (n : Nat) (v : Val) (hv : Within ct CopyOK objs n v)
    (objs' : Oid → Option Obj) (next' : Nat) (v' : Val)
    (h : clone ct n objs next v = some (objs', next', v')) :
    (∀ y o w, Reach objs' v' y → objs' y = some o → o.mutable = true →
        ∀ m, abs (write objs' y w) m v = abs objs' m v) ∧
    (∀ y o w, Reach objs' v y → objs' y = some o → o.mutable = true →
        ∀ m, abs (write objs' y w) m v' = abs objs' m v') := by
  exact Heap.Copy.write_independent' hct hcl n v hv objs' next' v' h

/-- Clone-of-clone chains of any length: every element denotes the original's pure value, and no
two distinct elements of `original :: clones` share a mutable object.  (`hnd`: see `clone_equal`;
without it the second clone of the example there fails.) -/
theorem clone_chain (ct : ClassTable) (hct : CTOk ct) (hnd : DictNodup ct)
    (objs : Oid → Option Obj) (next : Nat)
    (hcl : Closed objs next) (n : Nat) (v : Val) (hv : Within ct CopyOK objs n v) (k : Nat) :
    ∃ objs' next' vs, cloneChain ct n k objs next v = some (objs', next', vs) ∧ vs.length = k ∧
      (∀ w ∈ v :: vs, ∀ m, abs objs' m w = abs objs m v) ∧
      (∀ (i j : Nat), i < j → ∀ wi wj, (v :: vs)[i]? = some wi → (v :: vs)[j]? = some wj →
        ∀ y o, Reach objs' wi y → Reach objs' wj y → objs' y = some o → o.mutable = false) := by
  obtain ⟨objs', next', vs, h, hlen, _, _, hold, habs, _, hpair⟩ :=
    Heap.Copy.cloneChain_facts hct hnd n k objs next v hcl hv
  refine ⟨objs', next', vs, h, hlen, fun w hw m => ?_, hpair⟩
  rcases List.mem_cons.1 hw with hw | hw
  · subst hw
    exact Heap.Copy.abs_ext objs objs' hcl.refs (Heap.Copy.keeps_of_agree hcl hold) m w (Heap.Copy.Within_def hv)
  · exact habs w hw m

/-- Pickle round trip equal: into any closed target heap (the same interpreter's, or the empty
heap of a fresh interpreter) the unpickled object exists and denotes the same pure value. -/
theorem pickle_equal (ct : ClassTable) (hct : CTOk ct) (objs : Oid → Option Obj)
    (n : Nat) (v : Val) (hv : Within ct PickleOK objs n v)
    (objs0 : Oid → Option Obj) (next0 : Nat) (hcl : Closed objs0 next0) :
    ∃ objs' next' v', pickleRoundTrip ct n objs v objs0 next0 = some (objs', next', v') ∧
      (∀ m, abs objs' m v' = abs objs m v) ∧ (∀ y, y < next0 → objs' y = objs0 y) ∧
      Closed objs' next' := by
  obtain ⟨t, ht, hok⟩ := serialise_ok ct objs n v hv
  obtain ⟨st', v', hr⟩ := (rebuild_succeeds_aux ct hct).1 t hok ⟨objs0, next0, []⟩
  have hb : Bounded ⟨objs0, next0, []⟩ := hcl.bound
  obtain ⟨hE, _⟩ := rebuild_ext ct hct hb hr
  refine ⟨st'.objs, st'.next, v', ?_, ?_, hE.old, hE.closed_heap hcl⟩
  · simp only [pickleRoundTrip, ht, hr]
  · intro m
    rw [serialise_abs objs n v t ht m]
    exact (rebuild_abs_aux ct hct).1 t _ _ _ hb hok hr st'.objs (fun _ _ _ => rfl) m

/-- Instance of the hypotheses of `pickle_equal` (`CTOk`, `Within ct PickleOK`, a closed target
heap): unpickling into a fresh interpreter … -/
example : ∃ objs' next' v',
    pickleRoundTrip Ex.ct 3 Ex.heap (.ref 0) (fun _ => none) 0 = some (objs', next', v') ∧
    (∀ m, abs objs' m v' = abs Ex.heap m (.ref 0)) ∧ (∀ y, y < 0 → objs' y = none) ∧
    Closed objs' next' :=
  pickle_equal Ex.ct Ex.ct_ok Ex.heap 3 (.ref 0) Ex.heap_pickleOK (fun _ => none) 0 Ex.empty_closed

/-- … and into the interpreter that holds the original. -/
example : ∃ objs' next' v',
    pickleRoundTrip Ex.ct 3 Ex.heap (.ref 0) Ex.heap 3 = some (objs', next', v') ∧
    (∀ m, abs objs' m v' = abs Ex.heap m (.ref 0)) ∧ (∀ y, y < 3 → objs' y = Ex.heap y) ∧
    Closed objs' next' :=
  pickle_equal Ex.ct Ex.ct_ok Ex.heap 3 (.ref 0) Ex.heap_pickleOK Ex.heap 3 Ex.heap_closed

/-- Pickle round trip disjoint: everything reachable from the unpickled object was allocated by the
unpickling — nothing at all is shared with the target heap (not even immutable node objects). -/
theorem pickle_disjoint (ct : ClassTable) (hct : CTOk ct) (objs : Oid → Option Obj)
    (n : Nat) (v : Val) (objs0 : Oid → Option Obj) (next0 : Nat) (hcl : Closed objs0 next0)
    (objs' : Oid → Option Obj) (next' : Nat) (v' : Val)
    (h : pickleRoundTrip ct n objs v objs0 next0 = some (objs', next', v')) :
    ∀ y, Reach objs' v' y → next0 ≤ y := by
  obtain ⟨t, st, _, hr, rfl, rfl⟩ := pickleRoundTrip_inv h
  obtain ⟨hE, hv⟩ := rebuild_ext ct hct (st := ⟨objs0, next0, []⟩) hcl.bound hr
  intro y hy
  exact hE.reach_fresh (fun x hx => by subst hx; exact hv.1) hy

/-- Instance of the hypothesis `h` of `pickle_disjoint`: the round trip of the swarm at oid 0 into
its own interpreter yields the copy at oid 3; five objects are allocated (the swarm, the individual
and fitness made by `init_type`, and the unpickled individual and fitness that replace them). -/
example : (pickleRoundTrip Ex.ct 3 Ex.heap (.ref 0) Ex.heap 3).map (fun r => (r.2.1, r.2.2))
    = some (8, .ref 3) := by
  decide

example : ∃ objs' next' v',
    pickleRoundTrip Ex.ct 3 Ex.heap (.ref 0) Ex.heap 3 = some (objs', next', v') ∧
    ∀ y, Reach objs' v' y → 3 ≤ y := by
  obtain ⟨objs', next', v', h, _⟩ :=
    pickle_equal Ex.ct Ex.ct_ok Ex.heap 3 (.ref 0) Ex.heap_pickleOK Ex.heap 3 Ex.heap_closed
  exact ⟨objs', next', v', h,
    pickle_disjoint Ex.ct Ex.ct_ok Ex.heap 3 (.ref 0) Ex.heap 3 Ex.heap_closed objs' next' v' h⟩

/-! ### Pickling of the created classes (`MetaCreator.__reduce__` / `meta_create`) -/

/-- The unpickled class is equivalent to the pickled description — whatever the loading module has
bound to `name`, in particular a *different* class of the same name. -/
theorem meta_create_equivalent (m : Module) (name : Name) (ci : ClassInfo) :
    (metaCreate m name ci).1.classes[(metaCreate m name ci).2]? = some ci := by
  simp [metaCreate]

/-- `meta_create` makes a *new* class object and leaves the existing ones (hence their instances)
untouched. -/
theorem meta_create_keeps_old (m : Module) (name : Name) (ci : ClassInfo) :
    (metaCreate m name ci).2 = m.classes.length ∧
    ∀ c, c < m.classes.length → (metaCreate m name ci).1.classes[c]? = m.classes[c]? := by
  refine ⟨rfl, fun c hc => ?_⟩
  show (m.classes ++ [ci])[c]? = m.classes[c]?
  exact List.getElem?_append_left hc

/-- … so an instance of an existing class sees the same class attributes as before. -/
theorem meta_create_old_instances (m : Module) (name : Name) (ci : ClassInfo)
    (objs : Oid → Option Obj) (x : Oid) (o : Obj) (ho : objs x = some o)
    (hc : o.cls < m.classes.length) (k : Name) :
    getattr (metaCreate m name ci).1.classes objs x k = getattr m.classes objs x k := by
  simp only [getattr, ho, (meta_create_keeps_old m name ci).2 o.cls hc]

/-- `globals()[name] = class_`: the name is bound to the new class, every other name keeps its
binding. -/
theorem meta_create_rebinds (m : Module) (name : Name) (ci : ClassInfo) :
    lookup name (metaCreate m name ci).1.bound = some (metaCreate m name ci).2 ∧
    ∀ k, k ≠ name → lookup k (metaCreate m name ci).1.bound = lookup k m.bound := by
  refine ⟨by simp [metaCreate, lookup], fun k hk => ?_⟩
  show lookup k ((name, m.classes.length) :: m.bound.filter (fun p => p.1 != name)) = lookup k m.bound
  rw [lookup_cons, if_neg (fun e => hk e.symm), lookup_filter_ne k name hk]

/-- Class round trip: a class of the module `m`, pickled (`MetaCreator.__reduce__`) and unpickled
(`meta_create`) in ANY module `m'`, is a new class with the same description as the original; the
classes of `m'` are untouched and the name is bound to the new class. -/
theorem class_roundtrip (m m' : Module) (c : ClsId) (name : Name) (ci : ClassInfo)
    (hci : m.classes[c]? = some ci) :
    ∃ nm d, classReduce m c name = some (nm, d) ∧ nm = name ∧
      (metaCreate m' nm d).1.classes[(metaCreate m' nm d).2]? = some ci ∧
      (metaCreate m' nm d).2 = m'.classes.length ∧
      (∀ c', c' < m'.classes.length → (metaCreate m' nm d).1.classes[c']? = m'.classes[c']?) ∧
      lookup name (metaCreate m' nm d).1.bound = some (metaCreate m' nm d).2 ∧
      (∀ k, k ≠ name → lookup k (metaCreate m' nm d).1.bound = lookup k m'.bound) := by
  refine ⟨name, ci, by simp [classReduce, hci], rfl, meta_create_equivalent m' name ci,
    (meta_create_keeps_old m' name ci).1, (meta_create_keeps_old m' name ci).2,
    (meta_create_rebinds m' name ci).1, (meta_create_rebinds m' name ci).2⟩

/-- Instance of the hypothesis of `class_roundtrip`, with a target module that already binds the
name to a class with another `dict_cls` … -/
example : ∃ nm d, classReduce Ex.modSrc 1 5 = some (nm, d) ∧
    (metaCreate Ex.modDst nm d).1.classes[(metaCreate Ex.modDst nm d).2]?
      = some ⟨.plain, [(1, 0)], [(9, .atom 3)]⟩ := by
  obtain ⟨nm, d, h, _, h1, _⟩ := class_roundtrip Ex.modSrc Ex.modDst 1 5 _ rfl
  exact ⟨nm, d, h, h1⟩

/-- … and the evaluation: the unpickled class is class 1 of the target module and carries the
pickled `dict_cls` (`9 ↦ 3`); class 0, to which the name 5 was bound, still has its own
(`9 ↦ 4`); the name 5 is now bound to class 1. -/
example : (classReduce Ex.modSrc 1 5).map (fun r =>
      let m := metaCreate Ex.modDst r.1 r.2
      (m.2, m.1.classes[m.2]?, m.1.classes[0]?, lookup 5 m.1.bound))
    = some (1, some ⟨.plain, [(1, 0)], [(9, .atom 3)]⟩, some ⟨.plain, [], [(9, .atom 4)]⟩, some 1) := by
  decide

/-- An alias calls the registered function with the frozen positional arguments followed by the
call's own, and the frozen keyword arguments overridden/extended by the call's. -/
theorem partial_call {F A R : Type} (apply : F → List A → List (Name × A) → R)
    (tb : List (Name × Partial F A)) (alias : Name) (f : F) (args : List A) (kw : List (Name × A))
    (callArgs : List A) (callKw : List (Name × A)) :
    call apply (register tb alias f args kw) alias callArgs callKw
      = some (apply f (args ++ callArgs) (kwMerge kw callKw)) := by
  simp [call, register, lookup, callPartial]

/-- Decoration keeps the frozen arguments: after `decorate alias d₁ … dₙ` the alias calls
`dₙ (… (d₁ f))` with the same frozen arguments followed by the call's own. -/
theorem decorate_keeps_frozen {F A R : Type} (apply : F → List A → List (Name × A) → R)
    (tb : List (Name × Partial F A)) (alias : Name) (f : F) (args : List A) (kw : List (Name × A))
    (ds : List (F → F)) (callArgs : List A) (callKw : List (Name × A)) :
    (decorate (register tb alias f args kw) alias ds).bind
        (fun tb' => call apply tb' alias callArgs callKw)
      = some (apply (ds.foldl (fun g d => d g) f) (args ++ callArgs) (kwMerge kw callKw)) := by
  simp [decorate, call, register, lookup, callPartial]

/-! ### Examples: the hypotheses of the clone theorems are satisfiable -/
section Examples

/-- The common hypotheses of `clone_equal`, `clone_disjoint`, `clone_shares_no_mutable`,
`write_independent` and `clone_chain` hold together for a concrete class table, heap and value. -/
example : CTOk Ex.ct ∧ DictNodup Ex.ct ∧ Closed Ex.heap 3 ∧ Within Ex.ct CopyOK Ex.heap 3 (.ref 0) :=
  ⟨Ex.ct_ok, Ex.ct_nodup, Ex.heap_closed, Ex.heap_copyOK⟩

/-- `clone_equal` and `clone_chain` applied to that instance. -/
example : ∃ objs' next' v', clone Ex.ct 3 Ex.heap 3 (.ref 0) = some (objs', next', v') ∧
    ∀ m, abs objs' m v' = abs Ex.heap m (.ref 0) := by
  obtain ⟨o, n, v, h, h1, _⟩ := clone_equal Ex.ct Ex.ct_ok Ex.ct_nodup Ex.heap 3 Ex.heap_closed 3 (.ref 0)
    Ex.heap_copyOK
  exact ⟨o, n, v, h, h1⟩

example : ∃ objs' next' vs, cloneChain Ex.ct 3 5 Ex.heap 3 (.ref 0) = some (objs', next', vs) ∧
    vs.length = 5 := by
  obtain ⟨o, n, vs, h, h1, _⟩ := clone_chain Ex.ct Ex.ct_ok Ex.ct_nodup Ex.heap 3 Ex.heap_closed 3 (.ref 0)
    Ex.heap_copyOK 5
  exact ⟨o, n, vs, h, h1⟩

/-- The hypothesis `h` of `clone_disjoint` / `clone_shares_no_mutable` / `write_independent`: the
clone of the swarm exists (copy at oid 3; `init_type` allocates 4 and 5, the deep copies of the
individual and its fitness 6 and 7). -/
example : (clone Ex.ct 3 Ex.heap 3 (.ref 0)).map (fun r => (r.2.1, r.2.2)) = some (8, .ref 3) := by
  decide

/-- `clone_chain` with `k = 2`. -/
example : (cloneChain Ex.ct 3 2 Ex.heap 3 (.ref 0)).map (fun r => (r.2.1, r.2.2))
    = some (13, [.ref 3, .ref 8]) := by
  decide

end Examples

end C16
