/-
C10 — Real-coded operators stay finite, in bounds and centred on the parents.
Property theorems only, over `ℝ`; the model is `DeapModel/Core/RealOps.lean`, helper lemmas are in
`DeapModel/Lemmas/C10Lists.lean` (loops, any scalar) and `DeapModel/Lemmas/C10Real.lean` (analysis).

Reading.  A run of an operator is `op … rs (gs) = .ok (…)` where `rs` / `gs` are the results of its
`random.random()` / `random.gauss` calls in call order; the theorems hold for every such run, i.e. for
every seed.  `*_runs` show that a tape that is long enough always gives a run (no vacuity).
"Well-defined" = every `/` and `**` of the source is applied inside its real domain (divisor ≠ 0,
base of a real power ≥ 0, base > 0 under a negative exponent): over `ℝ` this is what "finite real
genes, never NaN or complex" means.

Two further semantics of the same model definitions carry the float side (sections "the rounded semantics" and
"the sum clause under the standard model" below): `XFA A` — finite rational | +inf | -inf | nan under ANY lawful
rounded arithmetic `A` (`Core/RoundedOps.lean`) — for the clamp and the NaN analysis of the two bounded
operators, and `FlNum M` — reals with `fl(a op b) = (a op b)(1 + d)` (`Lemmas/C10Fl.lean`) — for the sum clause.
The ES mutations (`gauss_*_rounded`, `lognormal_*_rounded`, with the exact boundary of "positive strategies stay
positive" and witnesses beyond it), the blend range clause (`blend_range_rounded`, `esblend_range_rounded`, explicit
allowance) and unbounded SBX (`sbx_rounded*`) have rounded theorems as well.
The level stays *partial*: that CPython's doubles and libm's `pow` / `exp` satisfy the laws of these semantics is
trusted (and probed by the harness).
-/
import DeapModel.Core.RealOps
import DeapModel.RealInst
import DeapModel.Lemmas.C10Lists
import DeapModel.Lemmas.C10Real
import DeapModel.Core.RoundedOps
import DeapModel.Lemmas.C10Rounded
import DeapModel.Lemmas.C10Fl
import DeapModel.Lemmas.C10FlRange
import DeapModel.Lemmas.C10Es
import DeapModel.Lemmas.C10Gen
import Mathlib.Analysis.SpecialFunctions.Pow.Real
import Mathlib.Tactic.Linarith
import Mathlib.Tactic.NormNum

set_option linter.unusedSimpArgs false
set_option linter.unusedVariables false

namespace C10
open RealOps

/-- every value is one `random.random()` can return: `0 ≤ r < 1` -/
def UnitDraws (rs : List ℝ) : Prop := ∀ r ∈ rs, 0 ≤ r ∧ r < 1

/-- every gene lies inside the bound pair in force at its locus -/
def InBox (xs : List ℝ) (low up : Bound ℝ) : Prop :=
  ∀ (i : Nat) x l u, xs[i]? = some x → low.get? i = some l → up.get? i = some u → l ≤ x ∧ x ≤ u

/-- the bound pairs are ordered (`low ≤ up`; the property's domain has `low < up`) -/
def BoundsOrdered (low up : Bound ℝ) : Prop :=
  ∀ (i : Nat) l u, low.get? i = some l → up.get? i = some u → l ≤ u

/-- the bound pairs are strictly ordered: `low < up` at every locus (the property's domain) -/
def BoundsStrict (low up : Bound ℝ) : Prop :=
  ∀ (i : Nat) l u, low.get? i = some l → up.get? i = some u → l < u

/-! ## every operator runs on a long-enough tape -/

theorem blend_runs (ind1 ind2 : Ind ℝ) (alpha : ℝ) (rs : List ℝ)
    (h : min ind1.genes.length ind2.genes.length ≤ rs.length) :
    ∃ out, cxBlend ind1 ind2 alpha rs = .ok out := by
  obtain ⟨⟨c1, c2, rest⟩, ho⟩ := pairLoop_total (blendPair alpha) ind1.genes ind2.genes rs h
  exact ⟨_, by simp only [cxBlend, ho]; rfl⟩

example : ∃ out, cxBlend ⟨1, [0, 1], 0, []⟩ ⟨2, [2, 4, 8], 0, []⟩ (1 / 2 : ℝ) [1 / 2, 0] = .ok out :=
  blend_runs _ _ _ _ (by simp)

theorem sbx_runs (ind1 ind2 : Ind ℝ) (eta : ℝ) (rs : List ℝ)
    (h : min ind1.genes.length ind2.genes.length ≤ rs.length) :
    ∃ out, cxSimulatedBinary ind1 ind2 eta rs = .ok out := by
  obtain ⟨⟨c1, c2, rest⟩, ho⟩ := pairLoop_total (sbxPair eta) ind1.genes ind2.genes rs h
  exact ⟨_, by simp only [cxSimulatedBinary, ho]; rfl⟩

example : ∃ out, cxSimulatedBinary ⟨1, [0, 1], 0, []⟩ ⟨2, [2, 4], 0, []⟩ (20 : ℝ) [1 / 2, 3 / 4] = .ok out :=
  sbx_runs _ _ _ _ (by simp)

theorem esblend_runs (ind1 ind2 : Ind ℝ) (alpha : ℝ) (rs : List ℝ)
    (h : 2 * min (min ind1.genes.length ind1.strategy.length) (min ind2.genes.length ind2.strategy.length)
          ≤ rs.length) :
    ∃ out, cxESBlend ind1 ind2 alpha rs = .ok out := by
  obtain ⟨⟨c1, t1, c2, t2, rest⟩, ho⟩ :=
    cxESBlendLoop_total alpha ind1.genes ind1.strategy ind2.genes ind2.strategy rs h
  exact ⟨_, by simp only [cxESBlend, ho]; rfl⟩

example : ∃ out, cxESBlend ⟨1, [0], 3, [1]⟩ ⟨2, [2], 4, [3]⟩ (1 / 2 : ℝ) [1 / 2, 0] = .ok out :=
  esblend_runs _ _ _ _ (by simp)

/-- bounded SBX returns whenever the bound *sequences* are as long as the shorter parent (what the
code demands, else `IndexError`) and three draws per locus are available -/
theorem sbxb_runs (ind1 ind2 : Ind ℝ) (eta : ℝ) (low up : Bound ℝ) (rs : List ℝ)
    (hlow : ∀ l, low = .seq l → min ind1.genes.length ind2.genes.length ≤ l.length)
    (hup : ∀ l, up = .seq l → min ind1.genes.length ind2.genes.length ≤ l.length)
    (h : 3 * min ind1.genes.length ind2.genes.length ≤ rs.length) :
    ∃ out, cxSimulatedBinaryBounded ind1 ind2 eta low up rs = .ok out := by
  have e1 : ∃ lo, low.expand (min ind1.genes.length ind2.genes.length) = some lo := by
    cases low with
    | scalar v => exact ⟨_, rfl⟩
    | seq l => exact ⟨l, by simp [Bound.expand, Nat.not_lt.2 (hlow l rfl)]⟩
  have e2 : ∃ hi, up.expand (min ind1.genes.length ind2.genes.length) = some hi := by
    cases up with
    | scalar v => exact ⟨_, rfl⟩
    | seq l => exact ⟨l, by simp [Bound.expand, Nat.not_lt.2 (hup l rfl)]⟩
  obtain ⟨lo, hlo⟩ := e1
  obtain ⟨hi, hhi⟩ := e2
  obtain ⟨⟨c1, c2, rest⟩, ho⟩ := cxSBXBLoop_total eta ind1.genes ind2.genes lo hi rs h
  exact ⟨_, by simp only [cxSimulatedBinaryBounded, hlo, hhi, ho]; rfl⟩

example : ∃ out, cxSimulatedBinaryBounded ⟨1, [0, 1 / 2], 0, []⟩ ⟨2, [1, 1 / 2], 0, []⟩ (20 : ℝ)
    (.scalar 0) (.seq [1, 1]) [1 / 4, 1 / 2, 3 / 4, 1 / 4, 0, 0] = .ok out :=
  sbxb_runs _ _ _ _ _ _ (by simp) (by simp) (by simp)

theorem poly_runs (ind : Ind ℝ) (eta : ℝ) (low up : Bound ℝ) (indpb : ℝ) (rs : List ℝ)
    (hlow : ∀ l, low = .seq l → ind.genes.length ≤ l.length)
    (hup : ∀ l, up = .seq l → ind.genes.length ≤ l.length)
    (h : 2 * ind.genes.length ≤ rs.length) :
    ∃ out, mutPolynomialBounded ind eta low up indpb rs = .ok out := by
  have e1 : ∃ lo, low.expand ind.genes.length = some lo := by
    cases low with
    | scalar v => exact ⟨_, rfl⟩
    | seq l => exact ⟨l, by simp [Bound.expand, Nat.not_lt.2 (hlow l rfl)]⟩
  have e2 : ∃ hi, up.expand ind.genes.length = some hi := by
    cases up with
    | scalar v => exact ⟨_, rfl⟩
    | seq l => exact ⟨l, by simp [Bound.expand, Nat.not_lt.2 (hup l rfl)]⟩
  obtain ⟨lo, hlo⟩ := e1
  obtain ⟨hi, hhi⟩ := e2
  obtain ⟨⟨ys, rest⟩, ho⟩ := polyLoop_total eta indpb ind.genes lo hi rs h
  exact ⟨_, by simp only [mutPolynomialBounded, hlo, hhi, ho]; rfl⟩

example : ∃ out, mutPolynomialBounded ⟨1, [0, 1 / 2], 0, []⟩ (20 : ℝ) (.scalar 0) (.scalar 1) 1
    [1 / 4, 1 / 2, 3 / 4, 1 / 4] = .ok out :=
  poly_runs _ _ _ _ _ _ (by simp) (by simp) (by simp)

theorem gauss_runs (ind : Ind ℝ) (mu sigma : Bound ℝ) (indpb : ℝ) (rs gs : List ℝ)
    (hmu : ∀ l, mu = .seq l → ind.genes.length ≤ l.length)
    (hsigma : ∀ l, sigma = .seq l → ind.genes.length ≤ l.length)
    (hr : ind.genes.length ≤ rs.length) (hg : ind.genes.length ≤ gs.length) :
    ∃ out, mutGaussian ind mu sigma indpb rs gs = .ok out := by
  have e1 : ∃ m, mu.expand ind.genes.length = some m := by
    cases mu with
    | scalar v => exact ⟨_, rfl⟩
    | seq l => exact ⟨l, by simp [Bound.expand, Nat.not_lt.2 (hmu l rfl)]⟩
  have e2 : ∃ s, sigma.expand ind.genes.length = some s := by
    cases sigma with
    | scalar v => exact ⟨_, rfl⟩
    | seq l => exact ⟨l, by simp [Bound.expand, Nat.not_lt.2 (hsigma l rfl)]⟩
  obtain ⟨m, hm⟩ := e1
  obtain ⟨s, hs⟩ := e2
  obtain ⟨⟨ys, rr, gr⟩, ho⟩ := gaussLoop_total indpb ind.genes m s rs gs hr hg
  exact ⟨_, by simp only [mutGaussian, hm, hs, ho]; rfl⟩

example : ∃ out, mutGaussian ⟨1, [0, 1 / 2], 0, []⟩ (.scalar 0) (.seq [1, 2]) (1 / 2 : ℝ)
    [1 / 4, 3 / 4] [-3, 5] = .ok out :=
  gauss_runs _ _ _ _ _ _ (by simp) (by simp) (by simp) (by simp)

/-- log-normal mutation returns for a non-empty individual whose strategy is at least as long -/
theorem lognormal_runs (ind : Ind ℝ) (c indpb : ℝ) (rs gs : List ℝ)
    (hne : 0 < ind.genes.length) (hs : ind.genes.length ≤ ind.strategy.length)
    (hr : ind.genes.length ≤ rs.length) (hg : 2 * ind.genes.length + 1 ≤ gs.length) :
    ∃ out, mutESLogNormal ind c indpb rs gs = .ok out := by
  obtain ⟨n, gs', hp, rfl⟩ := pop_of_pos (rs := gs) (by omega)
  obtain ⟨⟨ys, ts, rr, gr⟩, ho⟩ := lognLoop_total indpb (lognT0 c ind.genes.length * n)
    (lognT c ind.genes.length) ind.genes ind.strategy rs gs' hs hr (by simp at hg; omega)
  exact ⟨_, by simp only [mutESLogNormal, Nat.ne_of_gt hne, if_false, pop, ho]; rfl⟩

example : ∃ out, mutESLogNormal ⟨1, [0, 1 / 2], 3, [1, 2]⟩ (1 : ℝ) (1 / 2) [1 / 4, 3 / 4] [-1, 1, 2, 0, 0]
    = .ok out :=
  lognormal_runs _ _ _ _ _ (by simp) (by simp) (by simp) (by simp)

/-! ## blend and SBX are centred on the parents -/

/-- `cxBlend`: at every locus the two children sum to what the two parents sum to. -/
theorem blend_sum (ind1 ind2 : Ind ℝ) (alpha : ℝ) (rs : List ℝ) (o1 o2 : Ind ℝ) (rest : List ℝ)
    (hrun : cxBlend ind1 ind2 alpha rs = .ok (o1, o2, rest)) :
    ∀ (i : Nat) x1 x2 y1 y2, ind1.genes[i]? = some x1 → ind2.genes[i]? = some x2 →
      o1.genes[i]? = some y1 → o2.genes[i]? = some y2 → y1 + y2 = x1 + x2 := by
  obtain ⟨c1, c2, hl, rfl, rfl⟩ := cxBlend_ok hrun
  obtain ⟨_, _, h3, _, _⟩ := pairLoop_spec _ _ _ _ _ _ _ hl
  intro i x1 x2 y1 y2 ha hb hc hd
  obtain ⟨r, _, rfl, rfl⟩ := h3 i x1 x2 y1 y2 ha hb hc hd
  exact blendPair_sum alpha x1 x2 r

/-- `cxBlend`: for `alpha ≥ 0` and draws in `[0,1)` both children lie in the parental interval
widened by `alpha` times its width on each side. -/
theorem blend_range (ind1 ind2 : Ind ℝ) (alpha : ℝ) (rs : List ℝ) (o1 o2 : Ind ℝ) (rest : List ℝ)
    (ha : 0 ≤ alpha) (hr : UnitDraws rs)
    (hrun : cxBlend ind1 ind2 alpha rs = .ok (o1, o2, rest)) :
    ∀ (i : Nat) x1 x2 y1 y2, ind1.genes[i]? = some x1 → ind2.genes[i]? = some x2 →
      o1.genes[i]? = some y1 → o2.genes[i]? = some y2 →
      (min x1 x2 - alpha * |x1 - x2| ≤ y1 ∧ y1 ≤ max x1 x2 + alpha * |x1 - x2|) ∧
      (min x1 x2 - alpha * |x1 - x2| ≤ y2 ∧ y2 ≤ max x1 x2 + alpha * |x1 - x2|) := by
  obtain ⟨c1, c2, hl, rfl, rfl⟩ := cxBlend_ok hrun
  obtain ⟨_, _, h3, _, _⟩ := pairLoop_spec _ _ _ _ _ _ _ hl
  intro i x1 x2 y1 y2 hx1 hx2 hc hd
  obtain ⟨r, hmem, rfl, rfl⟩ := h3 i x1 x2 y1 y2 hx1 hx2 hc hd
  exact blendPair_range ha (hr r hmem).1 (hr r hmem).2

example : (0 : ℝ) ≤ 1 / 2 ∧ UnitDraws [1 / 2, 0] ∧
    ∃ out, cxBlend ⟨1, [0, 1], 0, []⟩ ⟨2, [2, 4, 8], 0, []⟩ (1 / 2 : ℝ) [1 / 2, 0] = .ok out := by
  refine ⟨by norm_num, ?_, blend_runs _ _ _ _ (by simp)⟩
  intro r hr
  simp at hr
  rcases hr with rfl | rfl <;> norm_num

/-- `cxESBlend`: the sum is kept at every locus, for the genes and for the strategies. -/
theorem esblend_sum (ind1 ind2 : Ind ℝ) (alpha : ℝ) (rs : List ℝ) (o1 o2 : Ind ℝ) (rest : List ℝ)
    (hrun : cxESBlend ind1 ind2 alpha rs = .ok (o1, o2, rest)) :
    ∀ (i : Nat) x1 s1 x2 s2 y1 u1 y2 u2, ind1.genes[i]? = some x1 → ind1.strategy[i]? = some s1 →
      ind2.genes[i]? = some x2 → ind2.strategy[i]? = some s2 →
      o1.genes[i]? = some y1 → o1.strategy[i]? = some u1 → o2.genes[i]? = some y2 → o2.strategy[i]? = some u2 →
      y1 + y2 = x1 + x2 ∧ u1 + u2 = s1 + s2 := by
  obtain ⟨c1, t1, c2, t2, hl, rfl, rfl⟩ := cxESBlend_ok hrun
  obtain ⟨_, h2⟩ := cxESBlendLoop_spec _ _ _ _ _ _ _ _ _ _ _ hl
  intro i x1 s1 x2 s2 y1 u1 y2 u2 a1 a2 a3 a4 a5 a6 a7 a8
  obtain ⟨r, _, q, _, rfl, rfl, rfl, rfl⟩ := h2 i x1 s1 x2 s2 y1 u1 y2 u2 a1 a2 a3 a4 a5 a6 a7 a8
  exact ⟨blendPair_sum alpha x1 x2 r, blendPair_sum alpha s1 s2 q⟩

/-- `cxESBlend`: genes and strategies of the children stay in the widened parental intervals. -/
theorem esblend_range (ind1 ind2 : Ind ℝ) (alpha : ℝ) (rs : List ℝ) (o1 o2 : Ind ℝ) (rest : List ℝ)
    (ha : 0 ≤ alpha) (hr : UnitDraws rs)
    (hrun : cxESBlend ind1 ind2 alpha rs = .ok (o1, o2, rest)) :
    ∀ (i : Nat) x1 s1 x2 s2 y1 u1 y2 u2, ind1.genes[i]? = some x1 → ind1.strategy[i]? = some s1 →
      ind2.genes[i]? = some x2 → ind2.strategy[i]? = some s2 →
      o1.genes[i]? = some y1 → o1.strategy[i]? = some u1 → o2.genes[i]? = some y2 → o2.strategy[i]? = some u2 →
      ((min x1 x2 - alpha * |x1 - x2| ≤ y1 ∧ y1 ≤ max x1 x2 + alpha * |x1 - x2|) ∧
       (min x1 x2 - alpha * |x1 - x2| ≤ y2 ∧ y2 ≤ max x1 x2 + alpha * |x1 - x2|)) ∧
      ((min s1 s2 - alpha * |s1 - s2| ≤ u1 ∧ u1 ≤ max s1 s2 + alpha * |s1 - s2|) ∧
       (min s1 s2 - alpha * |s1 - s2| ≤ u2 ∧ u2 ≤ max s1 s2 + alpha * |s1 - s2|)) := by
  obtain ⟨c1, t1, c2, t2, hl, rfl, rfl⟩ := cxESBlend_ok hrun
  obtain ⟨_, h2⟩ := cxESBlendLoop_spec _ _ _ _ _ _ _ _ _ _ _ hl
  intro i x1 s1 x2 s2 y1 u1 y2 u2 a1 a2 a3 a4 a5 a6 a7 a8
  obtain ⟨r, hrm, q, hqm, rfl, rfl, rfl, rfl⟩ := h2 i x1 s1 x2 s2 y1 u1 y2 u2 a1 a2 a3 a4 a5 a6 a7 a8
  exact ⟨blendPair_range ha (hr r hrm).1 (hr r hrm).2, blendPair_range ha (hr q hqm).1 (hr q hqm).2⟩

example : (0 : ℝ) ≤ 2 ∧ UnitDraws [1 / 2, 0] ∧
    ∃ out, cxESBlend ⟨1, [0], 3, [1]⟩ ⟨2, [2], 4, [3]⟩ (2 : ℝ) [1 / 2, 0] = .ok out := by
  refine ⟨by norm_num, ?_, esblend_runs _ _ _ _ (by simp)⟩
  intro r hr
  simp at hr
  rcases hr with rfl | rfl <;> norm_num

/-- `cxSimulatedBinary`: the sum is kept at every locus (for every crowding degree and every draw). -/
theorem sbx_sum (ind1 ind2 : Ind ℝ) (eta : ℝ) (rs : List ℝ) (o1 o2 : Ind ℝ) (rest : List ℝ)
    (hrun : cxSimulatedBinary ind1 ind2 eta rs = .ok (o1, o2, rest)) :
    ∀ (i : Nat) x1 x2 y1 y2, ind1.genes[i]? = some x1 → ind2.genes[i]? = some x2 →
      o1.genes[i]? = some y1 → o2.genes[i]? = some y2 → y1 + y2 = x1 + x2 := by
  obtain ⟨c1, c2, hl, rfl, rfl⟩ := cxSimulatedBinary_ok hrun
  obtain ⟨_, _, h3, _, _⟩ := pairLoop_spec _ _ _ _ _ _ _ hl
  intro i x1 x2 y1 y2 ha hb hc hd
  obtain ⟨r, _, rfl, rfl⟩ := h3 i x1 x2 y1 y2 ha hb hc hd
  exact sbxPair_sum eta x1 x2 r

/-- `cxSimulatedBinary` :279-283 is well defined for `eta ≥ 0` and a draw in `[0,1)`: the divisors
`eta + 1` and `2(1 - rand)` are non-zero and the base of `beta **= 1/(eta+1)` is non-negative. -/
theorem sbx_welldefined (eta rand : ℝ) (he : 0 ≤ eta) (h0 : 0 ≤ rand) (h1 : rand < 1) :
    eta + 1 ≠ 0 ∧ 2 * (1 - rand) ≠ 0 ∧ 0 ≤ (if rand ≤ 1 / 2 then 2 * rand else 1 / (2 * (1 - rand))) :=
  sbxBeta_welldefined he h0 h1

example : (0 : ℝ) ≤ 1000 ∧ (0 : ℝ) ≤ 3 / 4 ∧ (3 / 4 : ℝ) < 1 := by norm_num

/-! ## bounded SBX -/

/-- One locus of `cxSimulatedBinaryBounded` (:327-350), parents inside `[xl, xu]`, guard
`abs(x1 - x2) > 1e-14` passed, `eta ≥ 0`, `rand ∈ [0,1)`.  With `lo = min`, `hi = max`:
the divisor `hi - lo` is positive; both `beta ≥ 1` (bases of `beta ** -(eta+1)`, non-zero);
both `alpha ∈ [1,2)` (divisors of `1.0/alpha`); `eta + 1 ≠ 0`; the power bases `rand*alpha` are
`≥ 0`; the divisors `2 - rand*alpha` and the power bases `1/(2 - rand*alpha)` are `> 0`; and both
children are inside `[xl, xu]` *before* the clamp (`beta_q ≤ beta`), so the clamp changes nothing. -/
theorem sbxb_welldefined (eta x1 x2 xl xu rand : ℝ) (he : 0 ≤ eta)
    (h1 : xl ≤ x1 ∧ x1 ≤ xu) (h2 : xl ≤ x2 ∧ x2 ≤ xu) (hguard : (eps : ℝ) < |x1 - x2|)
    (hr0 : 0 ≤ rand) (hr1 : rand < 1) :
    let lo := RealLike.pmin x1 x2
    let hi := RealLike.pmax x1 x2
    let b1 := sbxbBeta (lo - xl) (hi - lo)
    let b2 := sbxbBeta (xu - hi) (hi - lo)
    let a1 := sbxbAlpha eta b1
    let a2 := sbxbAlpha eta b2
    0 < hi - lo ∧ eta + 1 ≠ 0 ∧ 1 ≤ b1 ∧ 1 ≤ b2 ∧ (1 ≤ a1 ∧ a1 < 2) ∧ (1 ≤ a2 ∧ a2 < 2) ∧
    (0 ≤ rand * a1 ∧ 0 < 2 - rand * a1 ∧ 0 < 1 / (2 - rand * a1)) ∧
    (0 ≤ rand * a2 ∧ 0 < 2 - rand * a2 ∧ 0 < 1 / (2 - rand * a2)) ∧
    (xl ≤ sbxbRaw1 eta lo hi xl rand ∧ sbxbRaw1 eta lo hi xl rand ≤ xu) ∧
    (xl ≤ sbxbRaw2 eta lo hi xu rand ∧ sbxbRaw2 eta lo hi xu rand ≤ xu) ∧
    sbxbChildren eta lo hi xl xu rand = (sbxbRaw1 eta lo hi xl rand, sbxbRaw2 eta lo hi xu rand) := by
  intro lo hi b1 b2 a1 a2
  have hw : 0 < hi - lo := sbxb_guard hguard
  obtain ⟨hl, hu⟩ := pmin_pmax_mem h1 h2
  have hb1 : 1 ≤ b1 := sbxbBeta_ge_one (sub_nonneg.2 hl) hw
  have hb2 : 1 ≤ b2 := sbxbBeta_ge_one (sub_nonneg.2 hu) hw
  have ha1 := sbxbAlpha_mem he hb1
  have ha2 := sbxbAlpha_mem he hb2
  have r1 := sbxbRaw1_mem (xu := xu) he hl (by linarith) hu hr0 hr1
  have r2 := sbxbRaw2_mem (xl := xl) he hl (by linarith) hu hr0 hr1
  refine ⟨hw, by linarith, hb1, hb2, ha1, ha2, sbxbBetaQ_bases ha1 hr0 hr1, sbxbBetaQ_bases ha2 hr0 hr1,
    r1, r2, ?_⟩
  simp only [sbxbChildren]
  exact Prod.ext (clamp_id r1.1 r1.2) (clamp_id r2.1 r2.2)

example : (0 : ℝ) ≤ 20 ∧ ((0 : ℝ) ≤ 0 ∧ (0 : ℝ) ≤ 1) ∧ ((0 : ℝ) ≤ 1 ∧ (1 : ℝ) ≤ 1) ∧
    (eps : ℝ) < |(0 : ℝ) - 1| ∧ (0 : ℝ) ≤ 3 / 4 ∧ (3 / 4 : ℝ) < 1 := by
  refine ⟨by norm_num, by norm_num, by norm_num, ?_, by norm_num, by norm_num⟩
  rw [eps_real]; norm_num

/-- `cxSimulatedBinaryBounded`: parents inside the bounds give children inside the bounds, at every
locus, for every crowding degree and every draw (also draws outside `[0,1)`: this is the clamp). -/
theorem sbxb_bounds (ind1 ind2 : Ind ℝ) (eta : ℝ) (low up : Bound ℝ) (rs : List ℝ) (o1 o2 : Ind ℝ)
    (rest : List ℝ) (hord : BoundsOrdered low up) (h1 : InBox ind1.genes low up) (h2 : InBox ind2.genes low up)
    (hrun : cxSimulatedBinaryBounded ind1 ind2 eta low up rs = .ok (o1, o2, rest)) :
    InBox o1.genes low up ∧ InBox o2.genes low up := by
  obtain ⟨lo, hi, c1, c2, hlo, hhi, hl, rfl, rfl⟩ := cxSBXB_ok hrun
  obtain ⟨l1, l2, h3, h4, h5⟩ := cxSBXBLoop_spec _ _ _ _ _ _ _ _ _ hl
  have hloL := expand_length hlo
  have hhiL := expand_length hhi
  have key : ∀ (i : Nat) y1 y2 l u, c1[i]? = some y1 → c2[i]? = some y2 → low.get? i = some l →
      up.get? i = some u → (l ≤ y1 ∧ y1 ≤ u) ∧ (l ≤ y2 ∧ y2 ≤ u) := by
    intro i y1 y2 l u hc1 hc2 hlg hug
    have i1 : i < ind1.genes.length := by
      have := (List.getElem?_eq_some_iff.1 hc1).1; omega
    have i2 : i < ind2.genes.length := by
      have := (List.getElem?_eq_some_iff.1 hc2).1; omega
    have hsz : i < min ind1.genes.length ind2.genes.length := by omega
    have e1 : lo[i]? = some l := by rw [expand_get hlo hsz]; exact hlg
    have e2 : hi[i]? = some u := by rw [expand_get hhi hsz]; exact hug
    obtain ⟨x1, hx1⟩ : ∃ x, ind1.genes[i]? = some x := ⟨_, List.getElem?_eq_getElem i1⟩
    obtain ⟨x2, hx2⟩ : ∃ x, ind2.genes[i]? = some x := ⟨_, List.getElem?_eq_getElem i2⟩
    obtain ⟨rs', rest', _, hg⟩ := h3 i x1 x2 l u y1 y2 hx1 hx2 e1 e2 hc1 hc2
    exact sbxbGene_bounds (hord i l u hlg hug) (h1 i x1 l u hx1 hlg hug) (h2 i x2 l u hx2 hlg hug) hg
  constructor
  · intro i y l u hy hlg hug
    by_cases hb : i < ind2.genes.length
    · obtain ⟨y2, hy2⟩ : ∃ y, c2[i]? = some y := ⟨_, List.getElem?_eq_getElem (by omega)⟩
      exact (key i y y2 l u hy hy2 hlg hug).1
    · have := h4 i (Or.inl (by omega))
      exact h1 i y l u (by rw [← this]; exact hy) hlg hug
  · intro i y l u hy hlg hug
    by_cases ha : i < ind1.genes.length
    · obtain ⟨y1, hy1⟩ : ∃ y, c1[i]? = some y := ⟨_, List.getElem?_eq_getElem (by omega)⟩
      exact (key i y1 y l u hy1 hy hlg hug).2
    · have := h5 i (Or.inl (by omega))
      exact h2 i y l u (by rw [← this]; exact hy) hlg hug

example : BoundsOrdered (.scalar (0 : ℝ)) (.seq [1, 1]) ∧ InBox [0, 1 / 2] (.scalar (0 : ℝ)) (.seq [1, 1]) ∧
    InBox [1, 1 / 2] (.scalar (0 : ℝ)) (.seq [1, 1]) ∧
    ∃ out, cxSimulatedBinaryBounded ⟨1, [0, 1 / 2], 0, []⟩ ⟨2, [1, 1 / 2], 0, []⟩ (20 : ℝ)
      (.scalar 0) (.seq [1, 1]) [1 / 4, 1 / 2, 3 / 4, 1 / 4, 0, 0] = .ok out := by
  refine ⟨?_, ?_, ?_, sbxb_runs _ _ _ _ _ _ (by simp) (by simp) (by simp)⟩
  · intro i l u hl hu
    simp only [Bound.get?] at hl hu
    obtain rfl := Option.some.inj hl
    rcases i with _ | _ | i <;> simp at hu <;> subst hu <;> norm_num
  · intro i x l u hx hl hu
    simp only [Bound.get?] at hl hu
    obtain rfl := Option.some.inj hl
    rcases i with _ | _ | i <;> simp at hx hu <;> (obtain rfl := hx; obtain rfl := hu; norm_num)
  · intro i x l u hx hl hu
    simp only [Bound.get?] at hl hu
    obtain rfl := Option.some.inj hl
    rcases i with _ | _ | i <;> simp at hx hu <;> (obtain rfl := hx; obtain rfl := hu; norm_num)

/-- `cxSimulatedBinaryBounded`, list level, ties `sbxb_welldefined` to every run: with parents inside the
bounds, `eta ≥ 0` and draws in `[0,1)`, each locus of the children is either the parents' locus or — the
guard `abs(x1 - x2) > 1e-14` having passed — the *unclamped* children `sbxbRaw1`, `sbxbRaw2` of one draw of
the tape, in either order.  Over the reals the clamp never fires. -/
theorem sbxb_unclamped (ind1 ind2 : Ind ℝ) (eta : ℝ) (low up : Bound ℝ) (rs : List ℝ) (o1 o2 : Ind ℝ)
    (rest : List ℝ) (he : 0 ≤ eta) (hr : UnitDraws rs)
    (h1 : InBox ind1.genes low up) (h2 : InBox ind2.genes low up)
    (hrun : cxSimulatedBinaryBounded ind1 ind2 eta low up rs = .ok (o1, o2, rest)) :
    ∀ (i : Nat) x1 x2 l u y1 y2, ind1.genes[i]? = some x1 → ind2.genes[i]? = some x2 →
      low.get? i = some l → up.get? i = some u → o1.genes[i]? = some y1 → o2.genes[i]? = some y2 →
      (y1 = x1 ∧ y2 = x2) ∨
      ((eps : ℝ) < |x1 - x2| ∧ ∃ rand ∈ rs,
        (y1 = sbxbRaw1 eta (RealLike.pmin x1 x2) (RealLike.pmax x1 x2) l rand ∧
         y2 = sbxbRaw2 eta (RealLike.pmin x1 x2) (RealLike.pmax x1 x2) u rand) ∨
        (y1 = sbxbRaw2 eta (RealLike.pmin x1 x2) (RealLike.pmax x1 x2) u rand ∧
         y2 = sbxbRaw1 eta (RealLike.pmin x1 x2) (RealLike.pmax x1 x2) l rand)) := by
  obtain ⟨lo, hi, c1, c2, hlo, hhi, hl, rfl, rfl⟩ := cxSBXB_ok hrun
  obtain ⟨l1, l2, h3, h4, h5⟩ := cxSBXBLoop_spec _ _ _ _ _ _ _ _ _ hl
  intro i x1 x2 l u y1 y2 hx1 hx2 hlg hug hy1 hy2
  have i1 := (List.getElem?_eq_some_iff.1 hx1).1
  have i2 := (List.getElem?_eq_some_iff.1 hx2).1
  have hsz : i < min ind1.genes.length ind2.genes.length := by omega
  have e1 : lo[i]? = some l := by rw [expand_get hlo hsz]; exact hlg
  have e2 : hi[i]? = some u := by rw [expand_get hhi hsz]; exact hug
  obtain ⟨rs', rest', hsub, hg⟩ := h3 i x1 x2 l u y1 y2 hx1 hx2 e1 e2 hy1 hy2
  rcases sbxbGene_cases _ _ _ _ _ _ _ _ _ hg with h | ⟨hguard, rand, hmem, hc⟩
  · exact Or.inl h
  · have hguard' : (eps : ℝ) < |x1 - x2| := by
      simpa only [RealLike.real_abs, RealLike.real_sub, RealLike.real_lt] using hguard
    have hrand := hr rand (hsub rand hmem)
    have wd := sbxb_welldefined eta x1 x2 l u rand he (h1 i x1 l u hx1 hlg hug) (h2 i x2 l u hx2 hlg hug)
      hguard' hrand.1 hrand.2
    have hch := wd.2.2.2.2.2.2.2.2.2.2
    rw [hch] at hc
    exact Or.inr ⟨hguard', rand, hsub rand hmem, hc⟩

example : (0 : ℝ) ≤ 20 ∧ UnitDraws [1 / 4, 1 / 2, 3 / 4, 1 / 4, 0, 0] ∧
    InBox [0, 1 / 2] (.scalar (0 : ℝ)) (.scalar 1) ∧ InBox [1, 1 / 2] (.scalar (0 : ℝ)) (.scalar 1) ∧
    ∃ out, cxSimulatedBinaryBounded ⟨1, [0, 1 / 2], 0, []⟩ ⟨2, [1, 1 / 2], 0, []⟩ (20 : ℝ)
      (.scalar 0) (.scalar 1) [1 / 4, 1 / 2, 3 / 4, 1 / 4, 0, 0] = .ok out := by
  refine ⟨by norm_num, ?_, ?_, ?_, sbxb_runs _ _ _ _ _ _ (by simp) (by simp) (by simp)⟩
  · intro r hr
    simp only [List.mem_cons, List.not_mem_nil, or_false] at hr
    rcases hr with rfl | rfl | rfl | rfl | rfl | rfl <;> norm_num
  · intro i x l u hx hl hu
    simp only [Bound.get?] at hl hu
    obtain rfl := Option.some.inj hl; obtain rfl := Option.some.inj hu
    rcases i with _ | _ | i <;> simp at hx <;> (obtain rfl := hx; norm_num)
  · intro i x l u hx hl hu
    simp only [Bound.get?] at hl hu
    obtain rfl := Option.some.inj hl; obtain rfl := Option.some.inj hu
    rcases i with _ | _ | i <;> simp at hx <;> (obtain rfl := hx; norm_num)

/-! ## bounded polynomial mutation -/

/-- One mutated locus of `mutPolynomialBounded` (:77-93), `x ∈ [xl, xu]`, `xl < xu`, `eta ≥ 0`,
`rand ∈ [0,1)`: the divisors `xu - xl` and `eta + 1` are non-zero; `delta_1, delta_2 ∈ [0,1]`, so the
power bases `xy = 1 - delta` are `≥ 0`; `val ∈ [0,1]` in the branch taken (base of `val ** mut_pow`);
and the mutant is inside `[xl, xu]` before the clamp, so the clamp changes nothing. -/
theorem poly_welldefined (eta x xl xu rand : ℝ) (he : 0 ≤ eta) (hx : xl ≤ x ∧ x ≤ xu) (hw : xl < xu)
    (hr0 : 0 ≤ rand) (hr1 : rand < 1) :
    xu - xl ≠ 0 ∧ eta + 1 ≠ 0 ∧
    (0 ≤ polyDelta1 x xl xu ∧ polyDelta1 x xl xu ≤ 1) ∧ (0 ≤ polyDelta2 x xl xu ∧ polyDelta2 x xl xu ≤ 1) ∧
    (rand < 1 / 2 → 0 ≤ polyValLow eta rand (polyDelta1 x xl xu) ∧ polyValLow eta rand (polyDelta1 x xl xu) ≤ 1) ∧
    (1 / 2 ≤ rand → 0 ≤ polyValHigh eta rand (polyDelta2 x xl xu) ∧ polyValHigh eta rand (polyDelta2 x xl xu) ≤ 1) ∧
    (xl ≤ polyRaw eta x xl xu rand ∧ polyRaw eta x xl xu rand ≤ xu) ∧
    polyGene eta x xl xu rand = polyRaw eta x xl xu rand := by
  have d1 := polyDelta1_mem hx.1 hx.2 hw
  have d2 := polyDelta2_mem hx.1 hx.2 hw
  have raw := polyRaw_mem he hx.1 hx.2 hw hr0 hr1
  refine ⟨by intro h; linarith, by linarith, d1, d2, ?_, ?_, raw, ?_⟩
  · intro h
    obtain ⟨v0, v1⟩ := polyValLow_mem he hr0 h d1
    exact ⟨(pow_unit_mem he d1).1.trans v0, v1⟩
  · intro h
    obtain ⟨v0, v1⟩ := polyValHigh_mem he h hr1 d2
    exact ⟨(pow_unit_mem he d2).1.trans v0, v1⟩
  · simp only [polyGene, clamp_id raw.1 raw.2]

example : (0 : ℝ) ≤ 20 ∧ ((0 : ℝ) ≤ 0 ∧ (0 : ℝ) ≤ 1) ∧ (0 : ℝ) < 1 ∧ (0 : ℝ) ≤ 3 / 4 ∧ (3 / 4 : ℝ) < 1 := by
  norm_num

/-- `mutPolynomialBounded`: an individual inside the bounds stays inside the bounds, at every locus,
for every crowding degree, probability and draw. -/
theorem poly_bounds (ind : Ind ℝ) (eta : ℝ) (low up : Bound ℝ) (indpb : ℝ) (rs : List ℝ) (o : Ind ℝ)
    (rest : List ℝ) (hord : BoundsOrdered low up) (h : InBox ind.genes low up)
    (hrun : mutPolynomialBounded ind eta low up indpb rs = .ok (o, rest)) :
    InBox o.genes low up := by
  obtain ⟨lo, hi, ys, hlo, hhi, hl, rfl⟩ := mutPoly_ok hrun
  obtain ⟨l1, h2, h3⟩ := polyLoop_spec _ _ _ _ _ _ _ _ hl
  intro i y l u hy hlg hug
  have hi' : i < ind.genes.length := by
    have := (List.getElem?_eq_some_iff.1 hy).1; simp at this; omega
  have e1 : lo[i]? = some l := by rw [expand_get hlo hi']; exact hlg
  have e2 : hi[i]? = some u := by rw [expand_get hhi hi']; exact hug
  obtain ⟨x, hx⟩ : ∃ x, ind.genes[i]? = some x := ⟨_, List.getElem?_eq_getElem hi'⟩
  rcases h2 i x l u y hx e1 e2 hy with rfl | ⟨rand, _, rfl⟩
  · exact h i y l u hx hlg hug
  · exact clamp_mem _ (hord i l u hlg hug)

example : BoundsOrdered (.scalar (0 : ℝ)) (.scalar 1) ∧ InBox [0, 1 / 2] (.scalar (0 : ℝ)) (.scalar 1) ∧
    ∃ out, mutPolynomialBounded ⟨1, [0, 1 / 2], 0, []⟩ (20 : ℝ) (.scalar 0) (.scalar 1) 1
      [1 / 4, 1 / 2, 3 / 4, 1 / 4] = .ok out := by
  refine ⟨?_, ?_, poly_runs _ _ _ _ _ _ (by simp) (by simp) (by simp)⟩
  · intro i l u hl hu
    simp only [Bound.get?] at hl hu
    obtain rfl := Option.some.inj hl; obtain rfl := Option.some.inj hu; norm_num
  · intro i x l u hx hl hu
    simp only [Bound.get?] at hl hu
    obtain rfl := Option.some.inj hl; obtain rfl := Option.some.inj hu
    rcases i with _ | _ | i <;> simp at hx <;> (obtain rfl := hx; norm_num)

/-- `mutPolynomialBounded`, list level, ties `poly_welldefined` to every run: with the individual inside
strictly ordered bounds, `eta ≥ 0` and draws in `[0,1)`, each locus is either untouched or the *unclamped*
mutant `polyRaw` of one draw of the tape.  Over the reals the clamp never fires. -/
theorem poly_unclamped (ind : Ind ℝ) (eta : ℝ) (low up : Bound ℝ) (indpb : ℝ) (rs : List ℝ) (o : Ind ℝ)
    (rest : List ℝ) (he : 0 ≤ eta) (hr : UnitDraws rs) (hord : BoundsStrict low up)
    (h : InBox ind.genes low up)
    (hrun : mutPolynomialBounded ind eta low up indpb rs = .ok (o, rest)) :
    ∀ (i : Nat) x l u y, ind.genes[i]? = some x → low.get? i = some l → up.get? i = some u →
      o.genes[i]? = some y → y = x ∨ ∃ rand ∈ rs, y = polyRaw eta x l u rand := by
  obtain ⟨lo, hi, ys, hlo, hhi, hl, rfl⟩ := mutPoly_ok hrun
  obtain ⟨l1, h2, h3⟩ := polyLoop_spec _ _ _ _ _ _ _ _ hl
  intro i x l u y hx hlg hug hy
  have hi' := (List.getElem?_eq_some_iff.1 hx).1
  have e1 : lo[i]? = some l := by rw [expand_get hlo hi']; exact hlg
  have e2 : hi[i]? = some u := by rw [expand_get hhi hi']; exact hug
  rcases h2 i x l u y hx e1 e2 hy with rfl | ⟨rand, hmem, rfl⟩
  · exact Or.inl rfl
  · have hrand := hr rand hmem
    have wd := poly_welldefined eta x l u rand he (h i x l u hx hlg hug) (hord i l u hlg hug) hrand.1 hrand.2
    exact Or.inr ⟨rand, hmem, wd.2.2.2.2.2.2.2⟩

example : (0 : ℝ) ≤ 20 ∧ UnitDraws [1 / 4, 1 / 2, 3 / 4, 1 / 4] ∧
    BoundsStrict (.scalar (0 : ℝ)) (.scalar 1) ∧ InBox [0, 1 / 2] (.scalar (0 : ℝ)) (.scalar 1) ∧
    ∃ out, mutPolynomialBounded ⟨1, [0, 1 / 2], 0, []⟩ (20 : ℝ) (.scalar 0) (.scalar 1) 1
      [1 / 4, 1 / 2, 3 / 4, 1 / 4] = .ok out := by
  refine ⟨by norm_num, ?_, ?_, ?_, poly_runs _ _ _ _ _ _ (by simp) (by simp) (by simp)⟩
  · intro r hr
    simp only [List.mem_cons, List.not_mem_nil, or_false] at hr
    rcases hr with rfl | rfl | rfl | rfl <;> norm_num
  · intro i l u hl hu
    simp only [Bound.get?] at hl hu
    obtain rfl := Option.some.inj hl; obtain rfl := Option.some.inj hu; norm_num
  · intro i x l u hx hl hu
    simp only [Bound.get?] at hl hu
    obtain rfl := Option.some.inj hl; obtain rfl := Option.some.inj hu
    rcases i with _ | _ | i <;> simp at hx <;> (obtain rfl := hx; norm_num)


/-! ## the rounded semantics: what survives rounding, overflow and `nan`

`Core/RoundedOps.lean`: the same model definitions run on `XFA A` = finite rational | `+inf` | `-inf` | `nan`
under ANY arithmetic `A` that is `Lawful` (rounding monotone, exact on representable results, `nan` only for the
IEEE invalid operations; `nan` also stands for "Python raises").  `FinIn v lo hi` = "`v` is a finite number in
`[lo, hi]`". -/

open RoundedOps in
/-- a lawful arithmetic exists (a fixed-point format with steps of `2^-60` that rounds downwards and overflows to
the infinities beyond `2^60`): the hypothesis `A.Lawful` of the theorems below is satisfiable -/
theorem lawful_exists : ∃ A : Arith, A.Lawful := ⟨toy, toy_lawful⟩

open RoundedOps in
/-- The final clamp `min(max(c, xl), xu)` as Python evaluates it, with finite `xl ≤ xu`: every `c` that is not
`nan` — finite or infinite, whatever rounding produced it — comes out as a finite number inside `[xl, xu]`. -/
theorem clamp_in_bounds (A : Arith) (c : XFA A) (xl xu : Rat) (h : xl ≤ xu) (hc : c.val ≠ .nan) :
    FinIn (clamp c ⟨.fin xl⟩ ⟨.fin xu⟩).val xl xu := by
  rw [xf_clamp]; exact clamp_in h hc

example : (0 : Rat) ≤ 1 ∧ RoundedOps.XF.pinf ≠ RoundedOps.XF.nan := ⟨by norm_num, by simp⟩

open RoundedOps in
/-- The clamp does NOT sanitise `nan`: `min(max(nan, xl), xu)` is `nan`, whatever the bounds. -/
theorem clamp_nan (A : Arith) (xl xu : XFA A) : (clamp (⟨.nan⟩ : XFA A) xl xu).val = .nan := by
  rw [xf_clamp]; exact clamp_nan' _ _

open RoundedOps in
/-- Hence, for floats, the in-bounds clause of the property is *exactly* NaN-freedom of the value before the clamp. -/
theorem clamp_in_bounds_iff (A : Arith) (c : XFA A) (xl xu : Rat) (h : xl ≤ xu) :
    FinIn (clamp c ⟨.fin xl⟩ ⟨.fin xu⟩).val xl xu ↔ c.val ≠ .nan := by
  constructor
  · intro hf hc
    obtain ⟨v, rfl⟩ : ∃ v, c = ⟨v⟩ := ⟨c.val, rfl⟩
    simp only at hc
    subst hc
    rw [clamp_nan] at hf
    exact hf.ne_nan rfl
  · exact clamp_in_bounds A c xl xu h

example : (0 : Rat) ≤ 1 := by norm_num

open RoundedOps in
/-- One locus of `cxSimulatedBinaryBounded` (:324-357) in ANY lawful arithmetic: `eta ≥ 0` with `eta + 1` finite,
finite parents inside finite bounds whose width `xu - xl` and whose sum `x1 + x2` are finite (`sbxbMag`), draws in
`[0, top]`: whatever the gate, the guard `abs(x1 - x2) > 1e-14` and the swap decide, no `inf - inf`, `0 * inf`,
`0 / 0`, `inf / inf`, zero divisor, negative base or overflowing power arises, and both genes that come out are
finite numbers inside `[xl, xu]`. -/
theorem sbxb_rounded_locus (A : Arith) (hA : A.Lawful) (eta x1 x2 xl xu : Rat) (rs rest : List (XFA A))
    (y1 y2 : XFA A) (hm : sbxbMag A.toMag eta x1 x2 xl xu = true) (hr : DrawsTop A rs)
    (hrun : sbxbGene (⟨.fin eta⟩ : XFA A) ⟨.fin x1⟩ ⟨.fin x2⟩ ⟨.fin xl⟩ ⟨.fin xu⟩ rs = some (y1, y2, rest)) :
    FinIn y1.val xl xu ∧ FinIn y2.val xl xu :=
  sbxbGene_rounded hA hm hr hrun

open RoundedOps in
example : toy.Lawful ∧ sbxbMag toy.toMag 20 0 1 0 1 = true ∧
    DrawsTop toy [⟨.fin (1 / 4)⟩, ⟨.fin (1 - 1 / 2 ^ 53)⟩, ⟨.fin 0⟩] ∧
    ∃ out, sbxbGene (⟨.fin 20⟩ : XFA toy) ⟨.fin 0⟩ ⟨.fin 1⟩ ⟨.fin 0⟩ ⟨.fin 1⟩
      [⟨.fin (1 / 4)⟩, ⟨.fin (1 - 1 / 2 ^ 53)⟩, ⟨.fin 0⟩] = some out := by
  refine ⟨toy_lawful, by norm_num [sbxbMag, toy], ?_, ?_⟩
  · intro r hr
    simp only [List.mem_cons, List.not_mem_nil, or_false] at hr
    rcases hr with rfl | rfl | rfl
    · exact ⟨_, rfl, by norm_num, by norm_num [toy]⟩
    · exact ⟨_, rfl, by norm_num, by norm_num [toy]⟩
    · exact ⟨_, rfl, by norm_num, by norm_num [toy]⟩
  · obtain ⟨a, b, c, h, _⟩ := sbxbGene_total (⟨.fin 20⟩ : XFA toy) ⟨.fin 0⟩ ⟨.fin 1⟩ ⟨.fin 0⟩ ⟨.fin 1⟩
      [⟨.fin (1 / 4)⟩, ⟨.fin (1 - 1 / 2 ^ 53)⟩, ⟨.fin 0⟩] (by simp)
    exact ⟨_, h⟩

/- the decidable hypotheses at the magnitudes of IEEE-754 binary64 (`RoundedOps.binary64`): the statement's domain
(and far beyond: eta = 1e6, bounds up to 8.9e307) satisfies them; `low = -1e308, up = 1e308` fails `width`, and
`low = 0, up = 1.7e308` with parents `8.5e307, 1.7e308` fails `sum` — the two classes of inputs on which the real code
returns `nan` genes (harness stream `xmag`). -/
set_option exponentiation.threshold 2000 in
open RoundedOps in
example : sbxbMag binary64 1000 0 1 0 1 = true ∧ sbxbMag binary64 1000000 (-10 ^ 6) (10 ^ 6) (-10 ^ 6) (10 ^ 6) = true ∧
    sbxbMag binary64 0 (-10 ^ 308) (10 ^ 308) (-10 ^ 308) (10 ^ 308) = false ∧
    sbxbMag binary64 0 (85 * 10 ^ 306) (17 * 10 ^ 307) 0 (17 * 10 ^ 307) = false ∧
    polyMag binary64 1000000 (1 / 2) 0 1 = true ∧ polyMag binary64 20 (-10 ^ 308) (-10 ^ 308) (10 ^ 308) = false := by
  refine ⟨?_, ?_, ?_, ?_, ?_, ?_⟩ <;> norm_num [sbxbMag, polyMag, binary64]


open RoundedOps in
/-- `cxSimulatedBinaryBounded` on whole individuals in ANY lawful arithmetic: if at every locus the two parents
and the bound pair are finite and satisfy `sbxbMag` (inside the bounds, width and sum finite) and the draws lie in
`[0, top]`, then at every locus both children are finite numbers inside the bounds of that locus — for floats
too, not only over the reals. -/
theorem sbxb_rounded (A : Arith) (hA : A.Lawful) (ind1 ind2 : Ind (XFA A)) (eta : Rat) (low up : Bound (XFA A))
    (rs : List (XFA A)) (o1 o2 : Ind (XFA A)) (rest : List (XFA A))
    (hmag : ∀ (i : Nat) x1 x2 l u, ind1.genes[i]? = some x1 → ind2.genes[i]? = some x2 → low.get? i = some l →
      up.get? i = some u → ∃ p q ql qu : Rat, x1 = ⟨.fin p⟩ ∧ x2 = ⟨.fin q⟩ ∧ l = ⟨.fin ql⟩ ∧ u = ⟨.fin qu⟩ ∧
        sbxbMag A.toMag eta p q ql qu = true)
    (hr : DrawsTop A rs)
    (hrun : cxSimulatedBinaryBounded ind1 ind2 ⟨.fin eta⟩ low up rs = .ok (o1, o2, rest)) :
    ∀ (i : Nat) y1 y2 l u, o1.genes[i]? = some y1 → o2.genes[i]? = some y2 → low.get? i = some l →
      up.get? i = some u → ∃ ql qu : Rat, l = ⟨.fin ql⟩ ∧ u = ⟨.fin qu⟩ ∧ FinIn y1.val ql qu ∧ FinIn y2.val ql qu := by
  obtain ⟨lo, hi, c1, c2, hlo, hhi, hl, rfl, rfl⟩ := cxSBXB_ok hrun
  obtain ⟨l1, l2, h3, h4, h5⟩ := cxSBXBLoop_spec _ _ _ _ _ _ _ _ _ hl
  intro i y1 y2 l u hc1 hc2 hlg hug
  have hc1' : c1[i]? = some y1 := hc1
  have hc2' : c2[i]? = some y2 := hc2
  have i1 : i < ind1.genes.length := by
    have := (List.getElem?_eq_some_iff.1 hc1').1; omega
  have i2 : i < ind2.genes.length := by
    have := (List.getElem?_eq_some_iff.1 hc2').1; omega
  have hsz : i < min ind1.genes.length ind2.genes.length := by omega
  have e1 : lo[i]? = some l := by rw [expand_get hlo hsz]; exact hlg
  have e2 : hi[i]? = some u := by rw [expand_get hhi hsz]; exact hug
  obtain ⟨x1, hx1⟩ : ∃ x, ind1.genes[i]? = some x := ⟨_, List.getElem?_eq_getElem i1⟩
  obtain ⟨x2, hx2⟩ : ∃ x, ind2.genes[i]? = some x := ⟨_, List.getElem?_eq_getElem i2⟩
  obtain ⟨rs', rest', hsub, hg⟩ := h3 i x1 x2 l u y1 y2 hx1 hx2 e1 e2 hc1' hc2'
  obtain ⟨p, q, ql, qu, rfl, rfl, rfl, rfl, hm⟩ := hmag i x1 x2 l u hx1 hx2 hlg hug
  exact ⟨ql, qu, rfl, rfl, sbxbGene_rounded hA hm (fun r hr' => hr r (hsub r hr')) hg⟩

open RoundedOps in
example : toy.Lawful ∧ sbxbMag toy.toMag 20 0 1 0 1 = true ∧ sbxbMag toy.toMag 20 (1 / 2) (1 / 2) 0 1 = true ∧
    DrawsTop toy [⟨.fin (1 / 4)⟩, ⟨.fin (1 - 1 / 2 ^ 53)⟩, ⟨.fin 0⟩] := by
  refine ⟨toy_lawful, by norm_num [sbxbMag, toy], by norm_num [sbxbMag, toy], ?_⟩
  intro r hr
  simp only [List.mem_cons, List.not_mem_nil, or_false] at hr
  rcases hr with rfl | rfl | rfl
  · exact ⟨_, rfl, by norm_num, by norm_num [toy]⟩
  · exact ⟨_, rfl, by norm_num, by norm_num [toy]⟩
  · exact ⟨_, rfl, by norm_num, by norm_num [toy]⟩

open RoundedOps in
/-- One mutated locus of `mutPolynomialBounded` (:77-93) in ANY lawful arithmetic: `eta ≥ 0` with `eta + 1`
finite, a finite gene inside finite bounds whose width `xu - xl` is finite and at least the guard `1e-14`
(`polyMag`), the draw in `[0, 1)`: every `/` and `**` is defined (`delta_1, delta_2 ∈ [0, 1]`, `val ∈ [0, 2]`), the
value before the clamp is not `nan`, and the gene that comes out is a finite number inside `[xl, xu]`. -/
theorem poly_rounded_locus (A : Arith) (hA : A.Lawful) (eta x xl xu rand : Rat)
    (hm : polyMag A.toMag eta x xl xu = true) (h0 : 0 ≤ rand) (h1 : rand < 1) :
    FinIn (polyGene (⟨.fin eta⟩ : XFA A) ⟨.fin x⟩ ⟨.fin xl⟩ ⟨.fin xu⟩ ⟨.fin rand⟩).val xl xu :=
  polyGene_rounded hA hm h0 h1

open RoundedOps in
example : toy.Lawful ∧ polyMag toy.toMag 20 0 0 1 = true ∧ (0 : Rat) ≤ 3 / 4 ∧ (3 / 4 : Rat) < 1 :=
  ⟨toy_lawful, by norm_num [polyMag, toy], by norm_num, by norm_num⟩

open RoundedOps in
/-- `mutPolynomialBounded` on a whole individual in ANY lawful arithmetic: if at every locus the gene and the bound
pair are finite and satisfy `polyMag` and the draws lie in `[0, 1)`, every gene that comes out is a finite number
inside the bounds of its locus, for every `indpb`. -/
theorem poly_rounded (A : Arith) (hA : A.Lawful) (ind : Ind (XFA A)) (eta : Rat) (low up : Bound (XFA A))
    (indpb : XFA A) (rs : List (XFA A)) (o : Ind (XFA A)) (rest : List (XFA A))
    (hmag : ∀ (i : Nat) x l u, ind.genes[i]? = some x → low.get? i = some l → up.get? i = some u →
      ∃ p ql qu : Rat, x = ⟨.fin p⟩ ∧ l = ⟨.fin ql⟩ ∧ u = ⟨.fin qu⟩ ∧ polyMag A.toMag eta p ql qu = true)
    (hr : DrawsUnit A rs)
    (hrun : mutPolynomialBounded ind ⟨.fin eta⟩ low up indpb rs = .ok (o, rest)) :
    ∀ (i : Nat) y l u, o.genes[i]? = some y → low.get? i = some l → up.get? i = some u →
      ∃ ql qu : Rat, l = ⟨.fin ql⟩ ∧ u = ⟨.fin qu⟩ ∧ FinIn y.val ql qu := by
  obtain ⟨lo, hi, ys, hlo, hhi, hl, rfl⟩ := mutPoly_ok hrun
  obtain ⟨l1, h2, h3⟩ := polyLoop_spec _ _ _ _ _ _ _ _ hl
  intro i y l u hy hlg hug
  have hi' : i < ind.genes.length := by
    have := (List.getElem?_eq_some_iff.1 hy).1; simp at this; omega
  have e1 : lo[i]? = some l := by rw [expand_get hlo hi']; exact hlg
  have e2 : hi[i]? = some u := by rw [expand_get hhi hi']; exact hug
  obtain ⟨x, hx⟩ : ∃ x, ind.genes[i]? = some x := ⟨_, List.getElem?_eq_getElem hi'⟩
  obtain ⟨p, ql, qu, rfl, rfl, rfl, hm⟩ := hmag i x l u hx hlg hug
  refine ⟨ql, qu, rfl, rfl, ?_⟩
  rcases h2 i _ _ _ y hx e1 e2 hy with rfl | ⟨rand, hmem, rfl⟩
  · obtain ⟨_, hbox, _⟩ := polyMag_iff.1 hm
    exact ⟨p, rfl, hbox.1, hbox.2⟩
  · obtain ⟨t, rfl, t0, t1⟩ := hr rand hmem
    exact polyGene_rounded hA hm t0 t1

open RoundedOps in
example : toy.Lawful ∧ polyMag toy.toMag 20 0 0 1 = true ∧ DrawsUnit toy [⟨.fin (1 / 4)⟩, ⟨.fin (3 / 4)⟩] := by
  refine ⟨toy_lawful, by norm_num [polyMag, toy], ?_⟩
  intro r hr
  simp only [List.mem_cons, List.not_mem_nil, or_false] at hr
  rcases hr with rfl | rfl
  · exact ⟨_, rfl, by norm_num, by norm_num⟩
  · exact ⟨_, rfl, by norm_num, by norm_num⟩

open RoundedOps in
/-- The magnitude hypothesis is needed: when the width `xu - xl` of the bounds overflows to `+inf` (binary64:
`xl = -1e308`, `xu = 1e308`), `mutPolynomialBounded` turns a gene on the lower bound into `nan` for the draw
`rand = 0` (`delta_q = 0`, `x + 0 * inf`), for every `eta ≥ 0` — and the clamp keeps the `nan`. -/
theorem poly_width_overflow_nan (A : Arith) (hA : A.Lawful) (eta xl xu : Rat) (he : 0 ≤ eta)
    (hov : A.rnd (xu - xl) = .pinf) :
    (polyGene (⟨.fin eta⟩ : XFA A) ⟨.fin xl⟩ ⟨.fin xl⟩ ⟨.fin xu⟩ ⟨.fin 0⟩).val = .nan :=
  polyGene_width_overflow hA he hov

open RoundedOps in
example : toy.Lawful ∧ (0 : Rat) ≤ 20 ∧ toy.rnd (2 ^ 60 - (-2 ^ 60)) = .pinf :=
  ⟨toy_lawful, by norm_num, by show toyRnd _ = _; norm_num [toyRnd]⟩

open RoundedOps in
/-- Likewise bounded SBX: parents on the two bounds of a pair whose width overflows, `eta = 0`, `rand = 0`:
`beta_q = 0` and `beta_q * (x2 - x1) = 0 * inf` — both children are `nan` after the clamp. -/
theorem sbxb_width_overflow_nan (A : Arith) (hA : A.Lawful) (xl xu : Rat) (hov : A.rnd (xu - xl) = .pinf) :
    (sbxbChildren (⟨.fin 0⟩ : XFA A) ⟨.fin xl⟩ ⟨.fin xu⟩ ⟨.fin xl⟩ ⟨.fin xu⟩ ⟨.fin 0⟩).1.val = .nan ∧
    (sbxbChildren (⟨.fin 0⟩ : XFA A) ⟨.fin xl⟩ ⟨.fin xu⟩ ⟨.fin xl⟩ ⟨.fin xu⟩ ⟨.fin 0⟩).2.val = .nan :=
  sbxbChildren_width_overflow hA hov

open RoundedOps in
example : toy.Lawful ∧ toy.rnd (2 ^ 60 - (-2 ^ 60)) = .pinf :=
  ⟨toy_lawful, by show toyRnd _ = _; norm_num [toyRnd]⟩


/-! ## the sum clause under the standard model of floating-point arithmetic

`FlModel` (`Lemmas/C10Fl.lean`): `fl(a op b) = (a op b)(1 + d)`, `|d| ≤ u`, a product additionally `+ e`, `|e| ≤ nu`
(underflow); binary64: `u = 2^-53`, `nu = 2^-1075`.  `FlNum M` runs the model definitions with these operations. -/

/-- `cxBlend` in floating-point arithmetic: at every locus the sum of the two children differs from the sum of the
two parents by at most `6 u (|x1| + |x2|) (1 + |gamma|) + 5 nu`, where `gamma` is the value
`(1. + 2. * alpha) * random.random() - alpha` the code computed from one draw `r` of the tape. -/
theorem blend_sum_rounded (M : FlModel) (hu : M.u ≤ 1 / 8) (ind1 ind2 : Ind (FlNum M)) (alpha : FlNum M)
    (rs : List (FlNum M)) (o1 o2 : Ind (FlNum M)) (rest : List (FlNum M))
    (hrun : cxBlend ind1 ind2 alpha rs = .ok (o1, o2, rest)) :
    ∀ (i : Nat) x1 x2 y1 y2, ind1.genes[i]? = some x1 → ind2.genes[i]? = some x2 →
      o1.genes[i]? = some y1 → o2.genes[i]? = some y2 →
      ∃ r ∈ rs, |(y1.val + y2.val) - (x1.val + x2.val)|
        ≤ 6 * M.u * (|x1.val| + |x2.val|) * (1 + |(blendGamma alpha r).val|) + 5 * M.nu := by
  obtain ⟨c1, c2, hl, rfl, rfl⟩ := cxBlend_ok hrun
  obtain ⟨_, _, h3, _, _⟩ := pairLoop_spec _ _ _ _ _ _ _ hl
  intro i x1 x2 y1 y2 ha hb hc hd
  obtain ⟨r, hr, rfl, rfl⟩ := h3 i x1 x2 y1 y2 ha hb hc hd
  exact ⟨r, hr, blendPair_sum_fl M hu alpha x1 x2 r⟩

example : infl64.u ≤ 1 / 8 ∧ ∃ out, cxBlend (⟨1, [⟨0⟩, ⟨1⟩], 0, []⟩ : Ind (FlNum infl64)) ⟨2, [⟨2⟩, ⟨4⟩], 0, []⟩
    ⟨1 / 2⟩ [⟨1 / 2⟩, ⟨0⟩] = .ok out := by
  refine ⟨infl64_u, ?_⟩
  obtain ⟨⟨c1, c2, rest⟩, ho⟩ := pairLoop_total (blendPair (⟨1 / 2⟩ : FlNum infl64)) [⟨0⟩, ⟨1⟩] [⟨2⟩, ⟨4⟩]
    [⟨1 / 2⟩, ⟨0⟩] (by simp)
  exact ⟨_, by simp only [cxBlend, ho]; rfl⟩

/-- `cxESBlend` in floating-point arithmetic: the same bound at every locus, for the genes and for the strategies. -/
theorem esblend_sum_rounded (M : FlModel) (hu : M.u ≤ 1 / 8) (ind1 ind2 : Ind (FlNum M)) (alpha : FlNum M)
    (rs : List (FlNum M)) (o1 o2 : Ind (FlNum M)) (rest : List (FlNum M))
    (hrun : cxESBlend ind1 ind2 alpha rs = .ok (o1, o2, rest)) :
    ∀ (i : Nat) x1 s1 x2 s2 y1 u1 y2 u2, ind1.genes[i]? = some x1 → ind1.strategy[i]? = some s1 →
      ind2.genes[i]? = some x2 → ind2.strategy[i]? = some s2 →
      o1.genes[i]? = some y1 → o1.strategy[i]? = some u1 → o2.genes[i]? = some y2 → o2.strategy[i]? = some u2 →
      (∃ r ∈ rs, |(y1.val + y2.val) - (x1.val + x2.val)|
        ≤ 6 * M.u * (|x1.val| + |x2.val|) * (1 + |(blendGamma alpha r).val|) + 5 * M.nu) ∧
      (∃ q ∈ rs, |(u1.val + u2.val) - (s1.val + s2.val)|
        ≤ 6 * M.u * (|s1.val| + |s2.val|) * (1 + |(blendGamma alpha q).val|) + 5 * M.nu) := by
  obtain ⟨c1, t1, c2, t2, hl, rfl, rfl⟩ := cxESBlend_ok hrun
  obtain ⟨_, h2⟩ := cxESBlendLoop_spec _ _ _ _ _ _ _ _ _ _ _ hl
  intro i x1 s1 x2 s2 y1 u1 y2 u2 a1 a2 a3 a4 a5 a6 a7 a8
  obtain ⟨r, hr, q, hq, rfl, rfl, rfl, rfl⟩ := h2 i x1 s1 x2 s2 y1 u1 y2 u2 a1 a2 a3 a4 a5 a6 a7 a8
  exact ⟨⟨r, hr, blendPair_sum_fl M hu alpha x1 x2 r⟩, ⟨q, hq, blendPair_sum_fl M hu alpha s1 s2 q⟩⟩

example : infl64.u ≤ 1 / 8 := infl64_u

/-- `cxBlend` in floating-point arithmetic, the range clause: for `alpha ≥ 0` and draws in `[0, 1)` both children lie
in the parental interval widened by `alpha` times its width PLUS the rounding allowance
`E = (7/2 u (2 + alpha + Eg) + Eg)(|x1| + |x2|) + 9/4 nu`, `Eg = 6 u (1 + 2 alpha) + 4 nu` (`RealOps.blendRangeErr`;
binary64, `alpha ≤ 2`: `E < 45 * 2^-53 * (|x1| + |x2|)`), on each side. -/
theorem blend_range_rounded (M : FlModel) (hu : M.u ≤ 1 / 8) (ind1 ind2 : Ind (FlNum M)) (alpha : FlNum M)
    (rs : List (FlNum M)) (o1 o2 : Ind (FlNum M)) (rest : List (FlNum M))
    (ha : 0 ≤ alpha.val) (hr : ∀ r ∈ rs, 0 ≤ r.val ∧ r.val < 1)
    (hrun : cxBlend ind1 ind2 alpha rs = .ok (o1, o2, rest)) :
    ∀ (i : Nat) x1 x2 y1 y2, ind1.genes[i]? = some x1 → ind2.genes[i]? = some x2 →
      o1.genes[i]? = some y1 → o2.genes[i]? = some y2 →
      let E := blendRangeErr M.u M.nu alpha.val (|x1.val| + |x2.val|)
      (min x1.val x2.val - alpha.val * |x1.val - x2.val| - E ≤ y1.val ∧
        y1.val ≤ max x1.val x2.val + alpha.val * |x1.val - x2.val| + E) ∧
      (min x1.val x2.val - alpha.val * |x1.val - x2.val| - E ≤ y2.val ∧
        y2.val ≤ max x1.val x2.val + alpha.val * |x1.val - x2.val| + E) := by
  obtain ⟨c1, c2, hl, rfl, rfl⟩ := cxBlend_ok hrun
  obtain ⟨_, _, h3, _, _⟩ := pairLoop_spec _ _ _ _ _ _ _ hl
  intro i x1 x2 y1 y2 hx1 hx2 hc hd
  obtain ⟨r, hmem, rfl, rfl⟩ := h3 i x1 x2 y1 y2 hx1 hx2 hc hd
  exact blendPair_range_fl M hu alpha x1 x2 r ha (hr r hmem).1 (hr r hmem).2.le

example : infl64.u ≤ 1 / 8 ∧ (0 : ℝ) ≤ (⟨1 / 2⟩ : FlNum infl64).val ∧
    (∀ r ∈ ([⟨1 / 2⟩, ⟨0⟩] : List (FlNum infl64)), 0 ≤ r.val ∧ r.val < 1) ∧
    ∃ out, cxBlend (⟨1, [⟨0⟩, ⟨1⟩], 0, []⟩ : Ind (FlNum infl64)) ⟨2, [⟨2⟩, ⟨4⟩], 0, []⟩ ⟨1 / 2⟩ [⟨1 / 2⟩, ⟨0⟩]
      = .ok out := by
  refine ⟨infl64_u, by norm_num, ?_, ?_⟩
  · intro r hr
    simp only [List.mem_cons, List.not_mem_nil, or_false] at hr
    rcases hr with rfl | rfl <;> norm_num
  · obtain ⟨⟨c1, c2, rest⟩, ho⟩ := pairLoop_total (blendPair (⟨1 / 2⟩ : FlNum infl64)) [⟨0⟩, ⟨1⟩] [⟨2⟩, ⟨4⟩]
      [⟨1 / 2⟩, ⟨0⟩] (by simp)
    exact ⟨_, by simp only [cxBlend, ho]; rfl⟩

/-- `cxESBlend` in floating-point arithmetic, the range clause: the same allowance at every locus, for the genes and
for the strategies. -/
theorem esblend_range_rounded (M : FlModel) (hu : M.u ≤ 1 / 8) (ind1 ind2 : Ind (FlNum M)) (alpha : FlNum M)
    (rs : List (FlNum M)) (o1 o2 : Ind (FlNum M)) (rest : List (FlNum M))
    (ha : 0 ≤ alpha.val) (hr : ∀ r ∈ rs, 0 ≤ r.val ∧ r.val < 1)
    (hrun : cxESBlend ind1 ind2 alpha rs = .ok (o1, o2, rest)) :
    ∀ (i : Nat) x1 s1 x2 s2 y1 u1 y2 u2, ind1.genes[i]? = some x1 → ind1.strategy[i]? = some s1 →
      ind2.genes[i]? = some x2 → ind2.strategy[i]? = some s2 →
      o1.genes[i]? = some y1 → o1.strategy[i]? = some u1 → o2.genes[i]? = some y2 → o2.strategy[i]? = some u2 →
      let E := blendRangeErr M.u M.nu alpha.val (|x1.val| + |x2.val|)
      let F := blendRangeErr M.u M.nu alpha.val (|s1.val| + |s2.val|)
      ((min x1.val x2.val - alpha.val * |x1.val - x2.val| - E ≤ y1.val ∧
         y1.val ≤ max x1.val x2.val + alpha.val * |x1.val - x2.val| + E) ∧
       (min x1.val x2.val - alpha.val * |x1.val - x2.val| - E ≤ y2.val ∧
         y2.val ≤ max x1.val x2.val + alpha.val * |x1.val - x2.val| + E)) ∧
      ((min s1.val s2.val - alpha.val * |s1.val - s2.val| - F ≤ u1.val ∧
         u1.val ≤ max s1.val s2.val + alpha.val * |s1.val - s2.val| + F) ∧
       (min s1.val s2.val - alpha.val * |s1.val - s2.val| - F ≤ u2.val ∧
         u2.val ≤ max s1.val s2.val + alpha.val * |s1.val - s2.val| + F)) := by
  obtain ⟨c1, t1, c2, t2, hl, rfl, rfl⟩ := cxESBlend_ok hrun
  obtain ⟨_, h2⟩ := cxESBlendLoop_spec _ _ _ _ _ _ _ _ _ _ _ hl
  intro i x1 s1 x2 s2 y1 u1 y2 u2 a1 a2 a3 a4 a5 a6 a7 a8
  obtain ⟨r, hrm, q, hqm, rfl, rfl, rfl, rfl⟩ := h2 i x1 s1 x2 s2 y1 u1 y2 u2 a1 a2 a3 a4 a5 a6 a7 a8
  exact ⟨blendPair_range_fl M hu alpha x1 x2 r ha (hr r hrm).1 (hr r hrm).2.le,
    blendPair_range_fl M hu alpha s1 s2 q ha (hr q hqm).1 (hr q hqm).2.le⟩

example : infl64.u ≤ 1 / 8 ∧ (0 : ℝ) ≤ (⟨2⟩ : FlNum infl64).val ∧
    (∀ r ∈ ([⟨1 / 2⟩, ⟨0⟩] : List (FlNum infl64)), 0 ≤ r.val ∧ r.val < 1) := by
  refine ⟨infl64_u, by norm_num, ?_⟩
  intro r hr
  simp only [List.mem_cons, List.not_mem_nil, or_false] at hr
  rcases hr with rfl | rfl <;> norm_num

/-- the allowance of `blend_range_rounded` at the constants of binary64 (`u = 2^-53`, `nu = 2^-1075`) and
`alpha ≤ 2` is below `45 u (|x1| + |x2|) + 3 nu (1 + |x1| + |x2|)` -/
theorem blendRangeErr_binary64 (alpha X : ℝ) (ha0 : 0 ≤ alpha) (ha2 : alpha ≤ 2) (hX : 0 ≤ X) :
    blendRangeErr ((2 : ℝ) ^ (-53 : ℤ)) ((2 : ℝ) ^ (-1075 : ℤ)) alpha X
      ≤ 45 * (2 : ℝ) ^ (-53 : ℤ) * X + 5 * (2 : ℝ) ^ (-1075 : ℤ) * (1 + X) := by
  have hu0 : (0 : ℝ) < (2 : ℝ) ^ (-53 : ℤ) := by positivity
  have hn0 : (0 : ℝ) < (2 : ℝ) ^ (-1075 : ℤ) := by positivity
  have hu : (2 : ℝ) ^ (-53 : ℤ) ≤ 1 / 1000 := by
    have : (2 : ℝ) ^ (-53 : ℤ) ≤ (2 : ℝ) ^ (-10 : ℤ) := zpow_le_zpow_right₀ (by norm_num) (by norm_num)
    refine le_trans this ?_
    norm_num
  have hn : (2 : ℝ) ^ (-1075 : ℤ) ≤ (2 : ℝ) ^ (-53 : ℤ) := zpow_le_zpow_right₀ (by norm_num) (by norm_num)
  generalize (2 : ℝ) ^ (-53 : ℤ) = u at *
  generalize (2 : ℝ) ^ (-1075 : ℤ) = nu at *
  unfold blendRangeErr gammaErr
  have hg : 6 * u * (1 + 2 * alpha) + 4 * nu ≤ 30 * u + 4 * nu := by nlinarith
  have hg0 : 0 ≤ 6 * u * (1 + 2 * alpha) + 4 * nu := by positivity
  have h1 : 7 / 2 * u * (2 + alpha + (6 * u * (1 + 2 * alpha) + 4 * nu)) ≤ 7 / 2 * u * (4 + 34 / 1000) := by
    apply mul_le_mul_of_nonneg_left _ (by positivity)
    nlinarith
  have h2 : 7 / 2 * u * (2 + alpha + (6 * u * (1 + 2 * alpha) + 4 * nu)) + (6 * u * (1 + 2 * alpha) + 4 * nu)
      ≤ 45 * u + 4 * nu := by nlinarith
  nlinarith [mul_le_mul_of_nonneg_right h2 hX]

example : (0 : ℝ) ≤ 2 ∧ (2 : ℝ) ≤ 2 ∧ (0 : ℝ) ≤ 3 := by norm_num

/-- `cxSimulatedBinary` in floating-point arithmetic: at every locus the sum of the two children differs from the
sum of the two parents by at most `5 u (|x1| + |x2|) (1 + |beta|) + 5 nu`, where `beta` is the spread factor the
code computed from one draw `r` of the tape. -/
theorem sbx_sum_rounded (M : FlModel) (hu : M.u ≤ 1 / 8) (ind1 ind2 : Ind (FlNum M)) (eta : FlNum M)
    (rs : List (FlNum M)) (o1 o2 : Ind (FlNum M)) (rest : List (FlNum M))
    (hrun : cxSimulatedBinary ind1 ind2 eta rs = .ok (o1, o2, rest)) :
    ∀ (i : Nat) x1 x2 y1 y2, ind1.genes[i]? = some x1 → ind2.genes[i]? = some x2 →
      o1.genes[i]? = some y1 → o2.genes[i]? = some y2 →
      ∃ r ∈ rs, |(y1.val + y2.val) - (x1.val + x2.val)|
        ≤ 5 * M.u * (|x1.val| + |x2.val|) * (1 + |(sbxBeta eta r).val|) + 5 * M.nu := by
  obtain ⟨c1, c2, hl, rfl, rfl⟩ := cxSimulatedBinary_ok hrun
  obtain ⟨_, _, h3, _, _⟩ := pairLoop_spec _ _ _ _ _ _ _ hl
  intro i x1 x2 y1 y2 ha hb hc hd
  obtain ⟨r, hr, rfl, rfl⟩ := h3 i x1 x2 y1 y2 ha hb hc hd
  exact ⟨r, hr, sbxPair_sum_fl M hu eta x1 x2 r⟩

example : infl64.u ≤ 1 / 8 := infl64_u

/-! ## Gaussian mutation -/

/-- `mutGaussian` keeps the length. -/
theorem gauss_len (ind : Ind ℝ) (mu sigma : Bound ℝ) (indpb : ℝ) (rs gs : List ℝ) (o : Ind ℝ)
    (rr gr : List ℝ) (hrun : mutGaussian ind mu sigma indpb rs gs = .ok (o, rr, gr)) :
    o.genes.length = ind.genes.length := by
  obtain ⟨m, s, ys, _, _, hl, rfl⟩ := mutGaussian_ok hrun
  exact (gaussLoop_spec _ _ _ _ _ _ _ _ _ hl).1

/-- `mutGaussian` with `indpb = 0` leaves the individual untouched: `random.random() < 0` never
holds for a draw `r ≥ 0`. -/
theorem gauss_indpb0 (ind : Ind ℝ) (mu sigma : Bound ℝ) (rs gs : List ℝ) (o : Ind ℝ) (rr gr : List ℝ)
    (hr : ∀ r ∈ rs, 0 ≤ r) (hrun : mutGaussian ind mu sigma 0 rs gs = .ok (o, rr, gr)) :
    o = ind := by
  obtain ⟨m, s, ys, _, _, hl, rfl⟩ := mutGaussian_ok hrun
  obtain ⟨h1, h2⟩ := gaussLoop_spec _ _ _ _ _ _ _ _ _ hl
  have : ys = ind.genes := by
    apply List.ext_getElem h1
    intro i hi1 hi2
    rcases h2 i _ _ (List.getElem?_eq_getElem hi2) (List.getElem?_eq_getElem hi1) with e | ⟨g, hg, hlt, _⟩
    · exact e
    · exact absurd hlt (not_lt.2 (hr g hg))
  rw [this]

example : (∀ r ∈ ([1 / 4, 0] : List ℝ), 0 ≤ r) ∧
    ∃ out, mutGaussian ⟨1, [0, 1 / 2], 0, []⟩ (.scalar 0) (.seq [1, 2]) (0 : ℝ) [1 / 4, 0] [-3, 5] = .ok out := by
  refine ⟨?_, gauss_runs _ _ _ _ _ _ (by simp) (by simp) (by simp) (by simp)⟩
  intro r hr
  simp at hr
  rcases hr with rfl | rfl <;> norm_num

/-! ## log-normal ES mutation -/

/-- `mutESLogNormal` keeps the length of the individual and of its strategy. -/
theorem lognormal_len (ind : Ind ℝ) (c indpb : ℝ) (rs gs : List ℝ) (o : Ind ℝ) (rr gr : List ℝ)
    (hrun : mutESLogNormal ind c indpb rs gs = .ok (o, rr, gr)) :
    o.genes.length = ind.genes.length ∧ o.strategy.length = ind.strategy.length := by
  obtain ⟨_, n, gs', ys, ts, _, hl, rfl⟩ := mutESLogNormal_ok hrun
  obtain ⟨h1, h2, _⟩ := lognLoop_spec _ _ _ _ _ _ _ _ _ _ _ hl
  exact ⟨h1, h2⟩

/-- `mutESLogNormal` with `indpb = 0` leaves the individual and its strategy untouched. -/
theorem lognormal_indpb0 (ind : Ind ℝ) (c : ℝ) (rs gs : List ℝ) (o : Ind ℝ) (rr gr : List ℝ)
    (hr : ∀ r ∈ rs, 0 ≤ r) (hrun : mutESLogNormal ind c 0 rs gs = .ok (o, rr, gr)) :
    o = ind := by
  obtain ⟨_, n, gs', ys, ts, _, hl, rfl⟩ := mutESLogNormal_ok hrun
  obtain ⟨h1, h2, h3, h4, h5⟩ := lognLoop_spec _ _ _ _ _ _ _ _ _ _ _ hl
  have e1 : ys = ind.genes := by
    apply List.ext_getElem h1
    intro i hi1 hi2
    by_cases hs : i < ind.strategy.length
    · rcases h4 i _ _ _ _ (List.getElem?_eq_getElem hi2) (List.getElem?_eq_getElem hs)
        (List.getElem?_eq_getElem hi1) (List.getElem?_eq_getElem (by omega)) with e | ⟨g, hg, hlt, _⟩
      · exact e.1
      · exact absurd hlt (not_lt.2 (hr g hg))
    · exact h3 i _ _ (List.getElem?_eq_getElem hi2) (List.getElem?_eq_getElem hi1) (by omega)
  have e2 : ts = ind.strategy := by
    apply List.ext_getElem h2
    intro i hi1 hi2
    by_cases hx : i < ind.genes.length
    · rcases h4 i _ _ _ _ (List.getElem?_eq_getElem hx) (List.getElem?_eq_getElem hi2)
        (List.getElem?_eq_getElem (by omega)) (List.getElem?_eq_getElem hi1) with e | ⟨g, hg, hlt, _⟩
      · exact e.2
      · exact absurd hlt (not_lt.2 (hr g hg))
    · have := h5 i (by omega)
      rw [List.getElem?_eq_getElem hi1, List.getElem?_eq_getElem hi2] at this
      exact Option.some.inj this
  rw [e1, e2]

example : (∀ r ∈ ([1 / 4, 0] : List ℝ), 0 ≤ r) ∧
    ∃ out, mutESLogNormal ⟨1, [0, 1 / 2], 3, [1, 2]⟩ (1 : ℝ) 0 [1 / 4, 0] [-1, 1, 2, 0, 0] = .ok out := by
  refine ⟨?_, lognormal_runs _ _ _ _ _ (by simp) (by simp) (by simp) (by simp)⟩
  intro r hr
  simp at hr
  rcases hr with rfl | rfl <;> norm_num

/-- `mutESLogNormal`: strictly positive strategy values stay strictly positive
(`sigma * exp(·) > 0`), whatever `c`, `indpb` and the draws. -/
theorem lognormal_pos (ind : Ind ℝ) (c indpb : ℝ) (rs gs : List ℝ) (o : Ind ℝ) (rr gr : List ℝ)
    (hpos : ∀ s ∈ ind.strategy, 0 < s) (hrun : mutESLogNormal ind c indpb rs gs = .ok (o, rr, gr)) :
    ∀ s ∈ o.strategy, 0 < s := by
  obtain ⟨_, n, gs', ys, ts, _, hl, rfl⟩ := mutESLogNormal_ok hrun
  obtain ⟨h1, h2, h3, h4, h5⟩ := lognLoop_spec _ _ _ _ _ _ _ _ _ _ _ hl
  intro u hu
  obtain ⟨i, hi, rfl⟩ := List.getElem_of_mem hu
  have hi2 : i < ind.strategy.length := by simp at hi; omega
  have hs := hpos _ (List.getElem_mem hi2)
  by_cases hx : i < ind.genes.length
  · rcases h4 i _ _ _ _ (List.getElem?_eq_getElem hx) (List.getElem?_eq_getElem hi2)
      (List.getElem?_eq_getElem (by omega)) (List.getElem?_eq_getElem hi) with e | ⟨g, _, _, z1, z2, e, _⟩
    · simp at e; rw [e.2]; exact hs
    · simp at e; rw [e]; exact lognSigma_pos hs _ _ _
  · have := h5 i (by omega)
    rw [List.getElem?_eq_getElem hi, List.getElem?_eq_getElem hi2] at this
    simp at this ⊢
    rw [this]; exact hs

example : (∀ s ∈ ([1, 2] : List ℝ), 0 < s) ∧
    ∃ out, mutESLogNormal ⟨1, [0, 1 / 2], 3, [1, 2]⟩ (1 : ℝ) (1 / 2) [1 / 4, 3 / 4] [-1, 1, 2, 0, 0] = .ok out := by
  refine ⟨?_, lognormal_runs _ _ _ _ _ (by simp) (by simp) (by simp) (by simp)⟩
  intro s hs
  simp at hs
  rcases hs with rfl | rfl <;> norm_num

/-- `mutESLogNormal` :233-234: for a non-empty individual the two divisors `sqrt(2*sqrt(size))` and
`sqrt(2*size)` are positive (an empty individual is `ZeroDivisionError`, `Outcome.zeroDivision`). -/
theorem lognormal_welldefined (size : Nat) (h : 0 < size) :
    0 < Real.sqrt (2 * Real.sqrt (size : ℝ)) ∧ 0 < Real.sqrt (2 * (size : ℝ)) :=
  logn_divisors h

example : 0 < 3 := by decide

/-! ## unbounded simulated binary crossover under the rounded semantics -/

open RoundedOps in
/-- One locus of `cxSimulatedBinary` (:279-285) in ANY lawful arithmetic: `eta ≥ 0` with `eta + 1` finite, the draw
in `[0, top]`, finite parents whose magnitudes leave room for the spread (`SbxCaps`: representable caps `C ≥ 1 + beta_max
= 1 + 1/(2 - 2 top)` and `P ≥ C * max(|x1|, |x2|)` with `2 P ≤ omega`; binary64: `C = 2^53`, genes up to `4.9e291`):
the divisor `2(1 - rand)` is not zero, the base of `beta **= 1/(eta+1)` is not negative, no power or product
overflows, no `inf - inf` arises, and both children are finite numbers. -/
theorem sbx_rounded_locus (A : Arith) (hA : A.Lawful) (eta x1 x2 rand C P : Rat) (hc : SbxCaps A eta x1 x2 C P)
    (hr0 : 0 ≤ rand) (hr1 : rand ≤ A.top) :
    FinIn (sbxBeta (⟨.fin eta⟩ : XFA A) ⟨.fin rand⟩).val 0 (C - 1) ∧
    FinIn (sbxPair (⟨.fin eta⟩ : XFA A) ⟨.fin x1⟩ ⟨.fin x2⟩ ⟨.fin rand⟩).1.val (-A.omega) A.omega ∧
    FinIn (sbxPair (⟨.fin eta⟩ : XFA A) ⟨.fin x1⟩ ⟨.fin x2⟩ ⟨.fin rand⟩).2.val (-A.omega) A.omega :=
  ⟨sbxBeta_ok hA hc hr0 hr1, sbxPair_rounded hA hc hr0 hr1⟩

open RoundedOps in
example : toy.Lawful ∧ SbxCaps toy 20 (-3) 50 (2 ^ 53) (2 ^ 59) ∧ (0 : Rat) ≤ 1 - 1 / 2 ^ 53 ∧
    (1 - 1 / 2 ^ 53 : Rat) ≤ toy.top := by
  refine ⟨toy_lawful, ?_, by norm_num, by norm_num [toy]⟩
  exact {
    eta0 := by norm_num
    eta1 := by norm_num [toy]
    rep_htop := by show toyRep _ = true; norm_num [toy, toyRep]
    rep_B := by show toyRep _ = true; norm_num [toy, toyRep]
    repC := by show toyRep (2 ^ 53) = true; norm_num [toyRep]
    repC' := by show toyRep (-2 ^ 53) = true; norm_num [toyRep]
    C2 := by norm_num
    CB := by norm_num [toy]
    repP := by show toyRep (2 ^ 59) = true; norm_num [toyRep]
    repP' := by show toyRep (-2 ^ 59) = true; norm_num [toyRep]
    P1 := by rw [abs_of_neg (by norm_num)]; norm_num
    P2 := by rw [abs_of_pos (by norm_num)]; norm_num
    Pom := by norm_num [toy] }

open RoundedOps in
/-- `cxSimulatedBinary` on whole individuals in ANY lawful arithmetic: if at every locus the two parents are finite
numbers satisfying `SbxCaps` (for caps `C`, `P` common to all loci) and the draws lie in `[0, top]`, then at every
locus both children are finite numbers — for floats too, not only over the reals. -/
theorem sbx_rounded (A : Arith) (hA : A.Lawful) (ind1 ind2 : Ind (XFA A)) (eta C P : Rat) (rs : List (XFA A))
    (o1 o2 : Ind (XFA A)) (rest : List (XFA A))
    (hmag : ∀ (i : Nat) x1 x2, ind1.genes[i]? = some x1 → ind2.genes[i]? = some x2 →
      ∃ p q : Rat, x1 = ⟨.fin p⟩ ∧ x2 = ⟨.fin q⟩ ∧ SbxCaps A eta p q C P)
    (hr : DrawsTop A rs)
    (hrun : cxSimulatedBinary ind1 ind2 ⟨.fin eta⟩ rs = .ok (o1, o2, rest)) :
    ∀ (i : Nat) x1 x2 y1 y2, ind1.genes[i]? = some x1 → ind2.genes[i]? = some x2 →
      o1.genes[i]? = some y1 → o2.genes[i]? = some y2 →
      FinIn y1.val (-A.omega) A.omega ∧ FinIn y2.val (-A.omega) A.omega := by
  obtain ⟨c1, c2, hl, rfl, rfl⟩ := cxSimulatedBinary_ok hrun
  obtain ⟨_, _, h3, _, _⟩ := pairLoop_spec _ _ _ _ _ _ _ hl
  intro i x1 x2 y1 y2 ha hb hc hd
  obtain ⟨r, hmem, rfl, rfl⟩ := h3 i x1 x2 y1 y2 ha hb hc hd
  obtain ⟨p, q, rfl, rfl, hcap⟩ := hmag i x1 x2 ha hb
  obtain ⟨t, rfl, t0, t1⟩ := hr r hmem
  exact sbxPair_rounded hA hcap t0 t1

open RoundedOps in
example : toy.Lawful ∧ DrawsTop toy [⟨.fin (1 / 4)⟩, ⟨.fin (1 - 1 / 2 ^ 53)⟩] := by
  refine ⟨toy_lawful, ?_⟩
  intro r hr
  simp only [List.mem_cons, List.not_mem_nil, or_false] at hr
  rcases hr with rfl | rfl
  · exact ⟨_, rfl, by norm_num, by norm_num [toy]⟩
  · exact ⟨_, rfl, by norm_num, by norm_num [toy]⟩

/-! ## the ES mutations under the rounded semantics -/

open RoundedOps in
/-- `mutGaussian` keeps the length — in the rounded semantics too (any arithmetic). -/
theorem gauss_len_rounded (A : Arith) (ind : Ind (XFA A)) (mu sigma : Bound (XFA A)) (indpb : XFA A)
    (rs gs : List (XFA A)) (o : Ind (XFA A)) (rr gr : List (XFA A))
    (hrun : mutGaussian ind mu sigma indpb rs gs = .ok (o, rr, gr)) :
    o.genes.length = ind.genes.length := by
  obtain ⟨m, s, ys, _, _, hl, rfl⟩ := mutGaussian_ok hrun
  exact (gaussLoop_spec _ _ _ _ _ _ _ _ _ hl).1

open RoundedOps in
/-- `mutGaussian` with `indpb = 0` (the float `0.0`, or the int `0`) leaves the individual untouched in the rounded
semantics, including the decision: `random.random() < 0.0` is evaluated as a float comparison and is false for every
draw that is a finite number `≥ 0`. -/
theorem gauss_indpb0_rounded (A : Arith) (ind : Ind (XFA A)) (mu sigma : Bound (XFA A))
    (rs gs : List (XFA A)) (o : Ind (XFA A)) (rr gr : List (XFA A)) (hr : DrawsUnit A rs)
    (hrun : mutGaussian ind mu sigma ⟨.fin 0⟩ rs gs = .ok (o, rr, gr)) :
    o = ind := by
  obtain ⟨m, s, ys, _, _, hl, rfl⟩ := mutGaussian_ok hrun
  rw [gaussLoop_id _ (not_lt_zero_of_unit hr) hl]

open RoundedOps in
example : DrawsUnit toy [⟨.fin (1 / 4)⟩, ⟨.fin 0⟩] ∧
    ∃ out, mutGaussian (⟨1, [⟨.fin 0⟩, ⟨.fin (1 / 2)⟩], 0, []⟩ : Ind (XFA toy)) (.scalar ⟨.fin 0⟩) (.scalar ⟨.fin 1⟩)
      ⟨.fin 0⟩ [⟨.fin (1 / 4)⟩, ⟨.fin 0⟩] [⟨.fin (-3)⟩, ⟨.fin 5⟩] = .ok out := by
  refine ⟨?_, ?_⟩
  · intro r hr
    simp only [List.mem_cons, List.not_mem_nil, or_false] at hr
    rcases hr with rfl | rfl
    · exact ⟨_, rfl, by norm_num, by norm_num⟩
    · exact ⟨_, rfl, by norm_num, by norm_num⟩
  · obtain ⟨⟨ys, rr, gr⟩, ho⟩ := gaussLoop_total (⟨.fin 0⟩ : XFA toy) [⟨.fin 0⟩, ⟨.fin (1 / 2)⟩]
      (List.replicate 2 ⟨.fin 0⟩) (List.replicate 2 ⟨.fin 1⟩) [⟨.fin (1 / 4)⟩, ⟨.fin 0⟩] [⟨.fin (-3)⟩, ⟨.fin 5⟩]
      (by simp) (by simp)
    exact ⟨_, by simp only [mutGaussian, Bound.expand, List.length_cons, List.length_nil]; rw [ho]⟩

open RoundedOps in
/-- `mutESLogNormal` keeps the lengths in the rounded semantics (any arithmetic). -/
theorem lognormal_len_rounded (A : Arith) (ind : Ind (XFA A)) (c indpb : XFA A) (rs gs : List (XFA A))
    (o : Ind (XFA A)) (rr gr : List (XFA A)) (hrun : mutESLogNormal ind c indpb rs gs = .ok (o, rr, gr)) :
    o.genes.length = ind.genes.length ∧ o.strategy.length = ind.strategy.length := by
  obtain ⟨_, n, gs', ys, ts, _, hl, rfl⟩ := mutESLogNormal_ok hrun
  obtain ⟨h1, h2, _⟩ := lognLoop_spec _ _ _ _ _ _ _ _ _ _ _ hl
  exact ⟨h1, h2⟩

open RoundedOps in
/-- `mutESLogNormal` with `indpb = 0` leaves the individual and its strategy untouched in the rounded semantics
(whatever `c` is, also when `t`, `t0` come out infinite or `nan`: they are not used). -/
theorem lognormal_indpb0_rounded (A : Arith) (ind : Ind (XFA A)) (c : XFA A) (rs gs : List (XFA A))
    (o : Ind (XFA A)) (rr gr : List (XFA A)) (hr : DrawsUnit A rs)
    (hrun : mutESLogNormal ind c ⟨.fin 0⟩ rs gs = .ok (o, rr, gr)) :
    o = ind := by
  obtain ⟨_, n, gs', ys, ts, _, hl, rfl⟩ := mutESLogNormal_ok hrun
  obtain ⟨e1, e2⟩ := lognLoop_id _ _ _ (not_lt_zero_of_unit hr) hl
  rw [e1, e2]

open RoundedOps in
example : DrawsUnit toy [⟨.fin (1 / 4)⟩, ⟨.fin 0⟩] := by
  intro r hr
  simp only [List.mem_cons, List.not_mem_nil, or_false] at hr
  rcases hr with rfl | rfl
  · exact ⟨_, rfl, by norm_num, by norm_num⟩
  · exact ⟨_, rfl, by norm_num, by norm_num⟩

open RoundedOps in
/-- an arithmetic with a lawful `exp` exists (the toy format with a step-function exponential) -/
theorem lawful_exp_exists : ∃ A : Arith, A.Lawful ∧ A.LawfulExp := ⟨toy, toy_lawful, toy_lawfulExp⟩

open RoundedOps in
/-- One mutated locus of `mutESLogNormal` (:240 `strategy *= math.exp(t0_n + t * random.gauss(0, 1))`) in ANY lawful
arithmetic with a lawful `exp`: if the exponent argument the code computed is the finite number `a` and the
decidable magnitude hypothesis `lognMag` holds for the strategy `s` and some `k` — `s > 0`, `a ≤ expmax` (binary64:
709), `k ≤ kmax` (1074), `-0.693 k ≤ a`, `s * 2^-k ≥ tiny` (2^-1074) — then no exception is raised and the new strategy
value is strictly positive: a finite number `≥ tiny`, or `+inf` when the product overflows. -/
theorem lognormal_pos_rounded_locus (A : Arith) (hA : A.Lawful) (hE : A.LawfulExp) (s a : Rat) (k : Nat)
    (hm : lognMag A.toMag s a k = true) (t0n t z : XFA A) (harg : (t0n + t * z).val = .fin a) :
    (lognSigma (⟨.fin s⟩ : XFA A) t0n t z).val = .pinf ∨
      ∃ q, (lognSigma (⟨.fin s⟩ : XFA A) t0n t z).val = .fin q ∧ A.tiny ≤ q ∧ 0 < q := by
  rcases lognSigma_rounded hA hE hm t0n t z harg with h | ⟨q, h, hq⟩
  · exact Or.inl h
  · exact Or.inr ⟨q, h, hq, lt_of_lt_of_le hE.tiny_pos hq⟩

open RoundedOps in
example : toy.Lawful ∧ toy.LawfulExp ∧ lognMag toy.toMag 1 (-3) 5 = true ∧
    ((⟨.fin (-1)⟩ : XFA toy) + ⟨.fin 2⟩ * ⟨.fin (-1)⟩).val = .fin (-3) := by
  refine ⟨toy_lawful, toy_lawfulExp, by norm_num [lognMag, toy, ln2lo], ?_⟩
  have e1 : toy.mul (.fin 2) (.fin (-1)) = .fin (-2) := by show toyRnd (2 * -1) = _; norm_num [toyRnd]
  have e2 : toy.add (.fin (-1)) (.fin (-2)) = .fin (-3) := by show toyRnd (-1 + -2) = _; norm_num [toyRnd]
  show toy.add (.fin (-1)) (toy.mul (.fin 2) (.fin (-1))) = _
  rw [e1, e2]

/- the hypothesis at the magnitudes of binary64: the statement's domain and the learning rates in use satisfy it
(strategy 1e-6, argument -600: `k = 866`); a subnormal strategy, an argument below `-745` or above `709` do not -/
set_option exponentiation.threshold 3000 in
open RoundedOps in
example : lognMag binary64 (1 / 10 ^ 6) (-600) 866 = true ∧ lognMag binary64 1 (-744) 1074 = true ∧
    lognMag binary64 1 (-746) 1077 = false ∧ lognMag binary64 (1 / 2 ^ 1074) (-1) 2 = false ∧
    lognMag binary64 1 710 0 = false := by
  refine ⟨?_, ?_, ?_, ?_, ?_⟩ <;> norm_num [lognMag, binary64, ln2lo]

open RoundedOps in
/-- `mutESLogNormal` on a whole individual in ANY lawful arithmetic with a lawful `exp`: if every strategy value is a
finite positive number and, for every strategy value `s` and every gauss draw `z` after the first, the exponent
argument `t0 * n + t * z` as the code computes it is a finite number `a` with `lognMag s a k` for some `k`, then every
strategy value that comes out is strictly positive (`0 < u` as the arithmetic compares). -/
theorem lognormal_pos_rounded (A : Arith) (hA : A.Lawful) (hE : A.LawfulExp) (ind : Ind (XFA A)) (c indpb : XFA A)
    (rs gs : List (XFA A)) (o : Ind (XFA A)) (rr gr : List (XFA A))
    (hpos : ∀ s ∈ ind.strategy, ∃ q : Rat, s = ⟨.fin q⟩ ∧ 0 < q)
    (hmag : ∀ n gs', gs = n :: gs' → ∀ s ∈ ind.strategy, ∀ z ∈ gs', ∃ (q a : Rat) (k : Nat), s = ⟨.fin q⟩ ∧
      (lognT0 c ind.genes.length * n + lognT c ind.genes.length * z).val = .fin a ∧
      lognMag A.toMag q a k = true)
    (hrun : mutESLogNormal ind c indpb rs gs = .ok (o, rr, gr)) :
    ∀ u ∈ o.strategy, XF.lt (.fin 0) u.val = true := by
  obtain ⟨_, n, gs', ys, ts, hp, hl, rfl⟩ := mutESLogNormal_ok hrun
  have hgs : gs = n :: gs' := by
    cases gs with
    | nil => simp [pop] at hp
    | cons a b => simp [pop] at hp; rw [hp.1, hp.2]
  intro u hu
  rcases lognLoop_strategy_mem _ _ _ _ _ _ _ _ _ _ _ hl u hu with h | ⟨s, hs, z, hz, rfl⟩
  · obtain ⟨q, rfl, hq⟩ := hpos u h
    simpa using hq
  · obtain ⟨q, a, k, rfl, harg, hm⟩ := hmag n gs' hgs s hs z hz
    exact lognSigma_rounded_pos hA hE hm _ _ z harg

open RoundedOps in
example : toy.Lawful ∧ toy.LawfulExp ∧
    (∀ s ∈ (⟨1, [⟨.fin 0⟩, ⟨.fin 5⟩], 3, [⟨.fin 1⟩, ⟨.fin (1 / 4)⟩]⟩ : Ind (XFA toy)).strategy,
      ∃ q : Rat, s = ⟨.fin q⟩ ∧ 0 < q) ∧
    (∀ n gs', ([⟨.fin 3⟩, ⟨.fin 1⟩, ⟨.fin (-2)⟩] : List (XFA toy)) = n :: gs' →
      ∀ s ∈ (⟨1, [⟨.fin 0⟩, ⟨.fin 5⟩], 3, [⟨.fin 1⟩, ⟨.fin (1 / 4)⟩]⟩ : Ind (XFA toy)).strategy, ∀ z ∈ gs',
      ∃ (q a : Rat) (k : Nat), s = ⟨.fin q⟩ ∧
      (lognT0 (⟨.fin 0⟩ : XFA toy) (⟨1, [⟨.fin 0⟩, ⟨.fin 5⟩], 3, [⟨.fin 1⟩, ⟨.fin (1 / 4)⟩]⟩ : Ind (XFA toy)).genes.length * n
        + lognT ⟨.fin 0⟩ (⟨1, [⟨.fin 0⟩, ⟨.fin 5⟩], 3, [⟨.fin 1⟩, ⟨.fin (1 / 4)⟩]⟩ : Ind (XFA toy)).genes.length * z).val
        = .fin a ∧ lognMag toy.toMag q a k = true) := by
  have r0 : toyRnd 0 = .fin 0 := by norm_num [toyRnd]
  have r2 : toyRnd 2 = .fin 2 := by norm_num [toyRnd]
  have r4 : toyRnd 4 = .fin 4 := by norm_num [toyRnd]
  have s2 : toySqrt (.fin 2) = .fin (3 / 2) := by norm_num [toySqrt, toyRnd]
  have s4 : toySqrt (.fin 4) = .fin (5 / 2) := by norm_num [toySqrt, toyRnd]
  have s3 : toySqrt (.fin 3) = .fin 2 := by norm_num [toySqrt, toyRnd]
  have t0 : (lognT0 (⟨.fin 0⟩ : XFA toy) 2).val = .fin 0 := by
    show toy.div (.fin 0) (toySqrt (toy.mul (.fin ((2 : Nat) : Rat)) (.fin ((2 : Nat) : Rat)))) = _
    have : toy.mul (.fin ((2 : Nat) : Rat)) (.fin ((2 : Nat) : Rat)) = .fin 4 := by
      show toyRnd (((2 : Nat) : Rat) * ((2 : Nat) : Rat)) = _; norm_num [toyRnd]
    rw [this, s4]
    show (if (5 / 2 : Rat) = 0 then XF.nan else toyRnd (0 / (5 / 2))) = _
    norm_num [toyRnd]
  have t1 : (lognT (⟨.fin 0⟩ : XFA toy) 2).val = .fin 0 := by
    show toy.div (.fin 0) (toySqrt (toy.mul (.fin ((2 : Nat) : Rat)) (toySqrt (.fin ((2 : Nat) : Rat))))) = _
    have e : (((2 : Nat) : Rat)) = 2 := by norm_num
    rw [e, s2]
    have : toy.mul (.fin 2) (.fin (3 / 2)) = .fin 3 := by show toyRnd (2 * (3 / 2)) = _; norm_num [toyRnd]
    rw [this, s3]
    show (if (2 : Rat) = 0 then XF.nan else toyRnd (0 / 2)) = _
    norm_num [toyRnd]
  have arg : ∀ z : Rat, (lognT0 (⟨.fin 0⟩ : XFA toy) 2 * ⟨.fin 3⟩ + lognT ⟨.fin 0⟩ 2 * ⟨.fin z⟩).val = .fin 0 := by
    intro z
    show toy.add (toy.mul (lognT0 (⟨.fin 0⟩ : XFA toy) 2).val (.fin 3)) (toy.mul (lognT (⟨.fin 0⟩ : XFA toy) 2).val (.fin z)) = _
    rw [t0, t1]
    have m1 : toy.mul (.fin 0) (.fin 3) = .fin 0 := by show toyRnd (0 * 3) = _; rw [zero_mul, r0]
    have m2 : toy.mul (.fin 0) (.fin z) = .fin 0 := by show toyRnd (0 * z) = _; rw [zero_mul, r0]
    rw [m1, m2]
    show toyRnd (0 + 0) = _
    rw [add_zero, r0]
  refine ⟨toy_lawful, toy_lawfulExp, ?_, ?_⟩
  · intro s hs
    simp only [List.mem_cons, List.not_mem_nil, or_false] at hs
    rcases hs with rfl | rfl
    · exact ⟨1, rfl, by norm_num⟩
    · exact ⟨1 / 4, rfl, by norm_num⟩
  · intro n gs' hgs s hs z hz
    simp only [List.cons.injEq] at hgs
    obtain ⟨rfl, rfl⟩ := hgs
    simp only [List.mem_cons, List.not_mem_nil, or_false] at hs hz
    have hm1 : lognMag toy.toMag 1 0 0 = true := by norm_num [lognMag, toy, ln2lo]
    have hm2 : lognMag toy.toMag (1 / 4) 0 0 = true := by norm_num [lognMag, toy, ln2lo]
    rcases hs with rfl | rfl <;> rcases hz with rfl | rfl
    · exact ⟨1, 0, 0, rfl, arg 1, hm1⟩
    · exact ⟨1, 0, 0, rfl, arg (-2), hm1⟩
    · exact ⟨1 / 4, 0, 0, rfl, arg 1, hm2⟩
    · exact ⟨1 / 4, 0, 0, rfl, arg (-2), hm2⟩

open RoundedOps in
/-- Outside the hypothesis the clause is FALSE for floats (1): whenever the product `s * exp(a)` rounds to `0` —
`exp(a)` underflowed (binary64: `a < -745.13`) or the strategy is too small (`s = 5e-324`, `a = -1`) — the positive
strategy becomes `0.0`.  The real code does exactly this (harness stream `xlogn`); recorded reading, not a defect
inside the statement's domain. -/
theorem lognormal_underflow_zero (A : Arith) (hA : A.Lawful) (s a e : Rat) (t0n t z : XFA A)
    (harg : (t0n + t * z).val = .fin a) (hexp : A.exp (.fin a) = .fin e) (hund : A.rnd (s * e) = .fin 0) :
    (lognSigma (⟨.fin s⟩ : XFA A) t0n t z).val = .fin 0 :=
  lognSigma_underflow hA t0n t z harg hexp hund

open RoundedOps in
example : toy.Lawful ∧ ((⟨.fin (-1)⟩ : XFA toy) + ⟨.fin 0⟩ * ⟨.fin 1⟩).val = .fin (-1) ∧
    toy.exp (.fin (-1)) = .fin (1 / 4) ∧ toy.rnd (1 / 2 ^ 60 * (1 / 4)) = .fin 0 := by
  have e1 : toy.mul (.fin 0) (.fin 1) = .fin 0 := by show toyRnd (0 * 1) = _; norm_num [toyRnd]
  have e2 : toy.add (.fin (-1)) (.fin 0) = .fin (-1) := by show toyRnd (-1 + 0) = _; norm_num [toyRnd]
  refine ⟨toy_lawful, ?_, ?_, ?_⟩
  · show toy.add (.fin (-1)) (toy.mul (.fin 0) (.fin 1)) = _
    rw [e1, e2]
  · show toyExp (.fin (-1)) = _
    have hc : ⌈-(-1 : Rat) / ln2lo⌉ = 2 := by
      rw [Int.ceil_eq_iff]; norm_num [ln2lo]
    simp only [toyExp, hc]
    have : Int.toNat 2 = 2 := rfl
    rw [this]
    norm_num
  · show toyRnd _ = _
    norm_num [toyRnd]

open RoundedOps in
/-- (2): when `exp(a)` overflows (binary64: `a > 709.78`), `math.exp` raises `OverflowError` (`nan` here). -/
theorem lognormal_overflow_raises (A : Arith) (s a : Rat) (t0n t z : XFA A)
    (harg : (t0n + t * z).val = .fin a) (hexp : A.exp (.fin a) = .pinf) :
    (lognSigma (⟨.fin s⟩ : XFA A) t0n t z).val = .nan :=
  lognSigma_overflow t0n t z harg hexp

open RoundedOps in
example : ((⟨.fin 42⟩ : XFA toy) + ⟨.fin 0⟩ * ⟨.fin 1⟩).val = .fin 42 ∧ toy.exp (.fin 42) = .pinf := by
  have e1 : toy.mul (.fin 0) (.fin 1) = .fin 0 := by show toyRnd (0 * 1) = _; norm_num [toyRnd]
  have e2 : toy.add (.fin 42) (.fin 0) = .fin 42 := by show toyRnd (42 + 0) = _; norm_num [toyRnd]
  refine ⟨?_, ?_⟩
  · show toy.add (.fin 42) (toy.mul (.fin 0) (.fin 1)) = _
    rw [e1, e2]
  · show toyExp (.fin 42) = _
    norm_num [toyExp]

/-! ## in place: the operators return the objects they were given, with the same lengths

Honest reading: the model builds its result as `{ ind with genes := … }`, so "same `oid` / `soid`" holds by
construction of the model — these theorems cannot express an implementation that returns a copy.  What they
add is that lengths are kept and that the fields an operator must not touch (the strategy of the non-ES
operators) are untouched.  The clause "modify and return the objects they were given" of the property is
established on the real objects by the harness (`is` tests on every explored call, harness/props/c10.py). -/

theorem blend_in_place (ind1 ind2 : Ind ℝ) (alpha : ℝ) (rs : List ℝ) (o1 o2 : Ind ℝ) (rest : List ℝ)
    (hrun : cxBlend ind1 ind2 alpha rs = .ok (o1, o2, rest)) :
    (o1.oid = ind1.oid ∧ o1.soid = ind1.soid ∧ o1.strategy = ind1.strategy ∧ o1.genes.length = ind1.genes.length) ∧
    (o2.oid = ind2.oid ∧ o2.soid = ind2.soid ∧ o2.strategy = ind2.strategy ∧ o2.genes.length = ind2.genes.length) := by
  obtain ⟨c1, c2, hl, rfl, rfl⟩ := cxBlend_ok hrun
  obtain ⟨l1, l2, _⟩ := pairLoop_spec _ _ _ _ _ _ _ hl
  exact ⟨⟨rfl, rfl, rfl, l1⟩, rfl, rfl, rfl, l2⟩

theorem sbx_in_place (ind1 ind2 : Ind ℝ) (eta : ℝ) (rs : List ℝ) (o1 o2 : Ind ℝ) (rest : List ℝ)
    (hrun : cxSimulatedBinary ind1 ind2 eta rs = .ok (o1, o2, rest)) :
    (o1.oid = ind1.oid ∧ o1.soid = ind1.soid ∧ o1.strategy = ind1.strategy ∧ o1.genes.length = ind1.genes.length) ∧
    (o2.oid = ind2.oid ∧ o2.soid = ind2.soid ∧ o2.strategy = ind2.strategy ∧ o2.genes.length = ind2.genes.length) := by
  obtain ⟨c1, c2, hl, rfl, rfl⟩ := cxSimulatedBinary_ok hrun
  obtain ⟨l1, l2, _⟩ := pairLoop_spec _ _ _ _ _ _ _ hl
  exact ⟨⟨rfl, rfl, rfl, l1⟩, rfl, rfl, rfl, l2⟩

theorem sbxb_in_place (ind1 ind2 : Ind ℝ) (eta : ℝ) (low up : Bound ℝ) (rs : List ℝ) (o1 o2 : Ind ℝ)
    (rest : List ℝ) (hrun : cxSimulatedBinaryBounded ind1 ind2 eta low up rs = .ok (o1, o2, rest)) :
    (o1.oid = ind1.oid ∧ o1.soid = ind1.soid ∧ o1.strategy = ind1.strategy ∧ o1.genes.length = ind1.genes.length) ∧
    (o2.oid = ind2.oid ∧ o2.soid = ind2.soid ∧ o2.strategy = ind2.strategy ∧ o2.genes.length = ind2.genes.length) := by
  obtain ⟨lo, hi, c1, c2, _, _, hl, rfl, rfl⟩ := cxSBXB_ok hrun
  obtain ⟨l1, l2, _⟩ := cxSBXBLoop_spec _ _ _ _ _ _ _ _ _ hl
  exact ⟨⟨rfl, rfl, rfl, l1⟩, rfl, rfl, rfl, l2⟩

theorem esblend_in_place (ind1 ind2 : Ind ℝ) (alpha : ℝ) (rs : List ℝ) (o1 o2 : Ind ℝ) (rest : List ℝ)
    (hrun : cxESBlend ind1 ind2 alpha rs = .ok (o1, o2, rest)) :
    (o1.oid = ind1.oid ∧ o1.soid = ind1.soid ∧ o1.genes.length = ind1.genes.length ∧
      o1.strategy.length = ind1.strategy.length) ∧
    (o2.oid = ind2.oid ∧ o2.soid = ind2.soid ∧ o2.genes.length = ind2.genes.length ∧
      o2.strategy.length = ind2.strategy.length) := by
  obtain ⟨c1, t1, c2, t2, hl, rfl, rfl⟩ := cxESBlend_ok hrun
  obtain ⟨⟨l1, l2, l3, l4⟩, _⟩ := cxESBlendLoop_spec _ _ _ _ _ _ _ _ _ _ _ hl
  exact ⟨⟨rfl, rfl, l1, l2⟩, rfl, rfl, l3, l4⟩

theorem poly_in_place (ind : Ind ℝ) (eta : ℝ) (low up : Bound ℝ) (indpb : ℝ) (rs : List ℝ) (o : Ind ℝ)
    (rest : List ℝ) (hrun : mutPolynomialBounded ind eta low up indpb rs = .ok (o, rest)) :
    o.oid = ind.oid ∧ o.soid = ind.soid ∧ o.strategy = ind.strategy ∧ o.genes.length = ind.genes.length := by
  obtain ⟨lo, hi, ys, _, _, hl, rfl⟩ := mutPoly_ok hrun
  exact ⟨rfl, rfl, rfl, (polyLoop_spec _ _ _ _ _ _ _ _ hl).1⟩

theorem gauss_in_place (ind : Ind ℝ) (mu sigma : Bound ℝ) (indpb : ℝ) (rs gs : List ℝ) (o : Ind ℝ)
    (rr gr : List ℝ) (hrun : mutGaussian ind mu sigma indpb rs gs = .ok (o, rr, gr)) :
    o.oid = ind.oid ∧ o.soid = ind.soid ∧ o.strategy = ind.strategy := by
  obtain ⟨m, s, ys, _, _, hl, rfl⟩ := mutGaussian_ok hrun
  exact ⟨rfl, rfl, rfl⟩

theorem lognormal_in_place (ind : Ind ℝ) (c indpb : ℝ) (rs gs : List ℝ) (o : Ind ℝ) (rr gr : List ℝ)
    (hrun : mutESLogNormal ind c indpb rs gs = .ok (o, rr, gr)) :
    o.oid = ind.oid ∧ o.soid = ind.soid := by
  obtain ⟨_, n, gs', ys, ts, _, hl, rfl⟩ := mutESLogNormal_ok hrun
  exact ⟨rfl, rfl⟩

end C10
