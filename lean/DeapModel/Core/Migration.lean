/-
Model of `deap/tools/migration.py`, `migRing` (C17: multi-deme runs).  Import-free and executable.

    nbr_demes = len(populations)
    if migarray is None: migarray = list(range(1, nbr_demes)) + [0]
    immigrants = [[] for i in range(nbr_demes)]; emigrants = [[] for i in range(nbr_demes)]
    for from_deme in range(nbr_demes):
        emigrants[from_deme].extend(selection(populations[from_deme], k))
        if replacement is None: immigrants[from_deme] = emigrants[from_deme]
        else: immigrants[from_deme].extend(replacement(populations[from_deme], k))
    for from_deme, to_deme in enumerate(migarray):
        for i, immigrant in enumerate(immigrants[to_deme]):
            indx = populations[to_deme].index(immigrant)
            populations[to_deme][indx] = emigrants[from_deme][i]

Individuals are values of any type `α`; `list.index` compares with `==`, which for the library's list individuals
is equality of the GENOME only: `key : α → κ` is what `==` looks at (two distinct objects with equal genomes have the
same key).  Selection and replacement are callables; they are evaluated on the unmodified populations in the first
loop, so the model takes them as functions `List α → Nat → List α` (a randomised selection is the function its draws
make it).  An exception of the Python code (`ValueError` of `index`, `IndexError`) is `none`.
-/
namespace Migration

/-- `pop.index(x)`: position of the first element that `==` x. -/
def indexOf? {α κ : Type} [DecidableEq κ] (key : α → κ) (x : α) : List α → Option Nat
  | [] => none
  | y :: ys => if key y = key x then some 0 else (indexOf? key x ys).map (· + 1)

/-- The inner loop for one deme: `for i, immigrant in enumerate(imm): pop[pop.index(immigrant)] = emi[i]`. -/
def replaceAll {α κ : Type} [DecidableEq κ] (key : α → κ) : List α → List α → List α → Option (List α)
  | pop, [], _ => some pop
  | _, _ :: _, [] => none
  | pop, x :: imm, e :: emi =>
    match indexOf? key x pop with
    | none => none
    | some j => replaceAll key (pop.set j e) imm emi

/-- The second loop over `enumerate(migarray)`, given as the list of pairs `(from_deme, to_deme)`.
`immigrants[to_deme]` is looked up first (`IndexError`); `emigrants[from_deme]` only inside the inner loop, i.e. not at
all when there is no immigrant (a migration array longer than the number of demes is harmless when `k = 0`). -/
def migrate {α κ : Type} [DecidableEq κ] (key : α → κ) (emigrants immigrants : List (List α)) :
    List (List α) → List (Nat × Nat) → Option (List (List α))
  | pops, [] => some pops
  | pops, (fr, to) :: rest =>
    match pops[to]?, immigrants[to]? with
    | some p, some imm =>
      match replaceAll key p imm ((emigrants[fr]?).getD []) with
      | none => none
      | some p' => migrate key emigrants immigrants (pops.set to p') rest
    | _, _ => none

/-- `list(range(1, n)) + [0]`. -/
def defaultRing (n : Nat) : List Nat := (List.range n).drop 1 ++ [0]

/-- `enumerate`. -/
def enumFrom' : Nat → List Nat → List (Nat × Nat)
  | _, [] => []
  | i, x :: xs => (i, x) :: enumFrom' (i + 1) xs

/-- `migRing` with the results of the selection / replacement calls given (what the first loop computes). -/
def migRingWith {α κ : Type} [DecidableEq κ] (key : α → κ) (pops emigrants immigrants : List (List α))
    (migarray : Option (List Nat)) : Option (List (List α)) :=
  migrate key emigrants immigrants pops (enumFrom' 0 (migarray.getD (defaultRing pops.length)))

/-- `tools.migRing(populations, k, selection, replacement, migarray)`. -/
def migRing {α κ : Type} [DecidableEq κ] (key : α → κ) (pops : List (List α)) (k : Nat)
    (selection : List α → Nat → List α) (replacement : Option (List α → Nat → List α))
    (migarray : Option (List Nat)) : Option (List (List α)) :=
  let emigrants := pops.map (fun p => selection p k)
  let immigrants := match replacement with
    | none => emigrants
    | some rep => pops.map (fun p => rep p k)
  migRingWith key pops emigrants immigrants migarray

/-- `tools.selBest` on individuals `(genome key, fitness)` … only for the examples: the first `k`. -/
def selFirst {α : Type} (p : List α) (k : Nat) : List α := p.take k

/-- … and the last `k` (in reverse), as `selWorst` on a population sorted by fitness. -/
def selLast {α : Type} (p : List α) (k : Nat) : List α := (p.reverse).take k

end Migration
