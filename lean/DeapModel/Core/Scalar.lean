/-
`RealLike α`: the scalar interface of the real-valued models (C10, C13, C14, C20).
Import-free.  The executable instance is `Float` (used by the driver for the tolerance
correspondence); the instance for `ℝ` lives in `DeapModel/RealInst.lean` (Mathlib) and is the one
the theorems are about.  Definitions written against this class follow the *operation order of
the Python source* so the `Float` instance computes what CPython computes.
-/

class RealLike (α : Type) extends Add α, Sub α, Mul α, Div α, Neg α, LT α, LE α where
  ofNat : Nat → α
  /-- `n / d` computed as the scalar quotient of the two integers -/
  ofRatio : Int → Nat → α
  sqrt : α → α
  exp : α → α
  log : α → α
  sin : α → α
  cos : α → α
  pi : α
  /-- Python `x ** y` on floats (real power; callers guarantee a non-negative base
  or an integer exponent) -/
  pow : α → α → α
  abs : α → α
  decLt : (a b : α) → Decidable (a < b)
  decLe : (a b : α) → Decidable (a ≤ b)

/- The instances derived from `RealLike` get the lowest priority so that at `α = ℝ` every
statement elaborates with Mathlib's own instances; the bridge lemmas of `RealInst.lean` rewrite
the model's operations to them. -/
attribute [instance 10] RealLike.toAdd RealLike.toSub RealLike.toMul RealLike.toDiv RealLike.toNeg
  RealLike.toLT RealLike.toLE

namespace RealLike

instance (priority := 10) {α : Type} [RealLike α] : DecidableLT α := RealLike.decLt
instance (priority := 10) {α : Type} [RealLike α] : DecidableLE α := RealLike.decLe
instance (priority := 10) {α : Type} [RealLike α] (n : Nat) : OfNat α n := ⟨RealLike.ofNat n⟩

/-- Python `min(a, b)` : `b if b < a else a`. -/
def pmin {α : Type} [RealLike α] (a b : α) : α := if b < a then b else a
/-- Python `max(a, b)` : `b if b > a else a`. -/
def pmax {α : Type} [RealLike α] (a b : α) : α := if a < b then b else a

/-- Sum in list order starting from 0, like Python's `sum`. -/
def sum {α : Type} [RealLike α] (l : List α) : α := l.foldl (· + ·) (RealLike.ofNat 0)
/-- Product in list order starting from `init`, like `reduce(mul, l, init)`. -/
def prod {α : Type} [RealLike α] (init : α) (l : List α) : α := l.foldl (· * ·) init

end RealLike

instance : RealLike Float where
  ofNat := Float.ofNat
  ofRatio n d := Float.ofInt n / Float.ofNat d
  sqrt := Float.sqrt
  exp := Float.exp
  log := Float.log
  sin := Float.sin
  cos := Float.cos
  pi := 3.141592653589793
  pow := Float.pow
  abs := Float.abs
  decLt := fun a b => inferInstanceAs (Decidable (a < b))
  decLe := fun a b => inferInstanceAs (Decidable (a ≤ b))
