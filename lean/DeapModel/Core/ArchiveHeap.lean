/-
Heap-level model of `deap/tools/support.py` `HallOfFame` (lines 492-590) and `ParetoFront` (593-642) (C08):
the archive of `Core/Archive.lean` with its members living in the object heap of `Core/Heap.lean`.

* `items` and `keys` are lists of object ids.  `insert` is `copy.deepcopy` of the submitted individual
  (`Heap.clone`: genome container, nested mutables, instance attributes, fitness, with the memo and the
  class-specific hooks of C16) followed by the list bookkeeping of the code; the key that is stored is the
  `fitness` attribute *of the copy* (`item = deepcopy(item)` rebinds `item` before `item.fitness` is read).
* Everything the archive reads from an individual is read from the heap at the moment the code reads it:
  `ind.fitness` is `getattr` + the `wvalues` of that object (`fitAt`), `bisect_right(self.keys, …)` compares
  the `wvalues` the key objects hold *now*, `self.similar(ind, hofer)` is a function of the two individuals'
  pure values (`Heap.abs`, cut at `depth`) and fitnesses.
* The callers of the archive are modelled by events: `upd` (an `update` call), `write` (an in-place
  modification of any object: genome edit, attribute edit, `fitness.values = …`, `del fitness.values`) and
  `alloc` (a new object: a new individual, a new `Fitness` assigned to `ind.fitness`, a new nested list).
* `log` records the oid range every `deepcopy` call of the archive allocated.  Nothing reads it: it is the
  vocabulary in which "allocated by the archive's own deepcopy calls" is stated (`C08.hof_members_fresh`).

A Python exception (`AttributeError` of a missing `fitness`, `RecursionError` / failed hook of `deepcopy`,
`IndexError`, `ZeroDivisionError`) is the result `none`.  Import-free (core Lean only).
-/
import DeapModel.Core.Archive
import DeapModel.Core.Heap

namespace ArchiveHeap
open Heap (Oid Name Val Obj PV ClassTable)
open Archive (Ind Scan)
open Fitness (Fit)

variable {α : Type} [LT α] [LE α] [DecidableEq α] [DecidableLT α] [DecidableLE α]

/-- What the model is parametric in. -/
structure Params (α : Type) where
  /-- the classes made by `creator.create` (how `deepcopy` treats each of them) -/
  ct : ClassTable
  /-- recursion bound of `copy.deepcopy` -/
  fuel : Nat
  /-- the attribute name `fitness` -/
  fitName : Name
  /-- the number an atom denotes (`wvalues` are atoms) -/
  val : Int → α
  /-- how deep `similar` looks into an individual -/
  depth : Nat
  /-- `self.similar`: a function of the two individuals' pure values and fitnesses -/
  sim : Ind PV α → Ind PV α → Bool

/-- State of one archive object together with the interpreter's heap. -/
structure HState where
  maxsize : Nat
  keys : List Oid
  items : List Oid
  objs : Oid → Option Obj
  next : Nat
  log : List (Nat × Nat)

/-- `HallOfFame(maxsize, similar)` created in an interpreter whose heap is `objs` (allocated up to `next`). -/
def emptyH (maxsize : Nat) (objs : Oid → Option Obj) (next : Nat) : HState :=
  ⟨maxsize, [], [], objs, next, []⟩

/-- The number a member of `wvalues` denotes. -/
def valNum (val : Int → α) : Val → α
  | .atom a => val a
  | .ref _ => val 0

/-- `f.wvalues` of the fitness object `f`, as it is in the heap now. -/
def fitAt (P : Params α) (objs : Oid → Option Obj) (f : Oid) : Fit α :=
  match objs f with
  | some o => ⟨o.items.map (valNum P.val)⟩
  | none => ⟨[]⟩

/-- `x.fitness`: the object the attribute refers to (`none` = `AttributeError`). -/
def fitRef (P : Params α) (objs : Oid → Option Obj) (x : Oid) : Option Oid :=
  match Heap.getattr P.ct objs x P.fitName with
  | some (.ref f) => some f
  | _ => none

/-- An individual as the archive sees it now: identity, pure value, `fitness.wvalues`. -/
def viewInd (P : Params α) (objs : Oid → Option Obj) (x : Oid) : Option (Ind PV α) :=
  match fitRef P objs x with
  | some f => some ⟨x, Heap.abs objs P.depth (.ref x), fitAt P objs f⟩
  | none => none

/-- `self.similar(ind, hofer)`, the member `hofer` read from the heap. -/
def similarTo (P : Params α) (objs : Oid → Option Obj) (vi : Ind PV α) (hofer : Oid) : Bool :=
  match viewInd P objs hofer with
  | some vh => P.sim vi vh
  | none => false

/-- `insert` (support.py:559-562).
```
item = deepcopy(item)
i = bisect_right(self.keys, item.fitness)
self.items.insert(len(self) - i, item)
self.keys.insert(i, item.fitness)
``` -/
def insertH (P : Params α) (hs : HState) (item : Oid) : Option HState :=
  match Heap.clone P.ct P.fuel hs.objs hs.next (.ref item) with
  | some (objs', next', .ref c) =>
    match fitRef P objs' c with
    | some f =>
      let i := Archive.bisectRight (hs.keys.map (fitAt P objs')) (fitAt P objs' f)
      some { hs with objs := objs', next := next'
                     items := Py.insertAt hs.items (hs.items.length - i) c
                     keys := Py.insertAt hs.keys i f
                     log := hs.log ++ [(hs.next, next')] }
    | none => none
  | _ => none

/-- `remove` (support.py:569-570); the arithmetic of `Archive.remove`. -/
def removeH (hs : HState) (index : Int) : Option HState :=
  let len := hs.items.length
  if len = 0 then none else
  let k := len - ((index % (len : Int)).toNat + 1)
  match Archive.pyIndex len index with
  | none => none
  | some j => some { hs with keys := Py.removeAt hs.keys k, items := Py.removeAt hs.items j }

/-- `clear` (support.py:574-575). -/
def clearH (hs : HState) : HState := { hs with items := [], keys := [] }

/-- One iteration of the loop of `HallOfFame.update` (support.py:528-545), see `Archive.step`. -/
def stepH (P : Params α) (pop0 : Oid) (hs : HState) (ind : Oid) : Option HState :=
  if hs.items.length = 0 ∧ hs.maxsize ≠ 0 then insertH P hs pop0
  else match viewInd P hs.objs ind with
    | none => none
    | some vi =>
      match hs.items.getLast? with
      | none => none
      | some worst =>
        match viewInd P hs.objs worst with
        | none => none
        | some vw =>
          if Fitness.gt vi.fit vw.fit || decide (hs.items.length < hs.maxsize) then
            if hs.items.any (similarTo P hs.objs vi) then some hs
            else if hs.items.length ≥ hs.maxsize then
              match removeH hs (-1) with
              | none => none
              | some hs' => insertH P hs' ind
            else insertH P hs ind
          else some hs

/-- The `for ind in population` loop. -/
def updateLoopH (P : Params α) (pop0 : Oid) : HState → List Oid → Option HState
  | hs, [] => some hs
  | hs, ind :: rest =>
    match stepH P pop0 hs ind with
    | none => none
    | some hs' => updateLoopH P pop0 hs' rest

/-- `HallOfFame.update(population)` (support.py:519-545). -/
def updateH (P : Params α) (hs : HState) (population : List Oid) : Option HState :=
  match population with
  | [] => some hs
  | p0 :: _ => updateLoopH P p0 hs population

/-- `for i in <indices>: self.remove(i)` (support.py:639-640). -/
def removeAllH : HState → List Nat → Option HState
  | hs, [] => some hs
  | hs, i :: is =>
    match removeH hs (i : Int) with
    | none => none
    | some hs' => removeAllH hs' is

/-- The members as the scan of `ParetoFront.update` sees them (the heap does not change during the scan). -/
def viewAll (P : Params α) (objs : Oid → Option Obj) : List Oid → Option (List (Ind PV α))
  | [] => some []
  | x :: xs =>
    match viewInd P objs x with
    | none => none
    | some v =>
      match viewAll P objs xs with
      | none => none
      | some vs => some (v :: vs)

/-- One iteration of the loop of `ParetoFront.update` (support.py:623-642): the scan is `Archive.scan` on
the members read from the heap, then the removals, then the `insert`. -/
def pfStepH (P : Params α) (hs : HState) (ind : Oid) : Option HState :=
  match viewInd P hs.objs ind with
  | none => none
  | some vi =>
    match viewAll P hs.objs hs.items with
    | none => none
    | some vs =>
      let s := Archive.scan P.sim vi vs 0 {}
      match removeAllH hs s.toRemove.reverse with
      | none => none
      | some hs' => if !s.isDominated && !s.hasTwin then insertH P hs' ind else some hs'

/-- `ParetoFront.update(population)`. -/
def pfUpdateH (P : Params α) : HState → List Oid → Option HState
  | hs, [] => some hs
  | hs, ind :: rest =>
    match pfStepH P hs ind with
    | none => none
    | some hs' => pfUpdateH P hs' rest

/-! ### The callers of the archive -/

/-- What happens to the heap and the archive over time. -/
inductive Ev where
  /-- `archive.update(population)` -/
  | upd (population : List Oid)
  /-- an in-place modification: the object `x` now has the content `o` -/
  | write (x : Oid) (o : Obj)
  /-- the interpreter allocates a new object with the content `o` -/
  | alloc (o : Obj)

/-- One event (`pf` = the archive is a `ParetoFront`). -/
def execEv (P : Params α) (pf : Bool) (hs : HState) : Ev → Option HState
  | .upd pop => if pf then pfUpdateH P hs pop else updateH P hs pop
  | .write x o => some { hs with objs := Heap.write hs.objs x o }
  | .alloc o => some { hs with objs := Heap.define hs.objs hs.next o, next := hs.next + 1 }

/-- A history of events on one archive. -/
def runH (P : Params α) (pf : Bool) : HState → List Ev → Option HState
  | hs, [] => some hs
  | hs, e :: es =>
    match execEv P pf hs e with
    | none => none
    | some hs' => runH P pf hs' es

/-- The populations of a history as the archive saw them: for every `upd` event the individuals' pure
values and fitnesses at the moment of the call (an individual without `fitness` is not listed: that
`update` raises).  This is the history of the pure model `Core/Archive.lean`. -/
def histOf (P : Params α) (pf : Bool) : HState → List Ev → List (List (Ind PV α))
  | _, [] => []
  | hs, e :: es =>
    let rest := match execEv P pf hs e with
      | none => []
      | some hs' => histOf P pf hs' es
    match e with
    | .upd pop => pop.filterMap (viewInd P hs.objs) :: rest
    | _ => rest

end ArchiveHeap
