import DeapModel.Core.Logbook
/-
The TEXT of a logbook: `Logbook.__txt__` (deap/tools/support.py:429-486), `stream`, `__str__`,
transcribed statement by statement on top of the state model `Core/Logbook.lean`.  Import-free.

* `Fmt` says how a name (a number in the model) and a scalar value (an integer code in the model) are
  rendered: `Fmt.name` is the Python string of the name, `Fmt.val` is `"{0:n}".format(v)` for a float and
  `"{0}".format(v)` otherwise.  `Val` / `Val.format` are the value kinds the harness feeds (int, None, str,
  every finite double, the infinities, NaN) with their exact Python rendering; the driver builds `Fmt.val`
  from a code book `code ↦ Val` that travels with every protocol line.
* `columns_len` is STATE of the Python object (it only grows while the number of columns stays the same,
  it is pickled with `__dict__`).  The model keeps it in a tree `CL` that runs parallel to the chapter tree
  of the logbook (`LB` itself is untouched, so every theorem about `LB` keeps holding): `CL.len` is
  `self.columns_len`, `CL.chapters` are the `columns_len` of the chapters, in the order of `LB.chapters`.
* `txtT` answers `none` where `__txt__` raises (`IndexError` / `ValueError`: only on logbooks whose chapters
  are not aligned, see `C18.txt_total`).  What the model does NOT follow after such a raise: `columns_len`
  entries widened by the row loop before the raising row are kept by the code and by `rowLoop`, but `stream`
  in `Core/Logbook.lean` sets `header_streamed` although the code raises before that line.
-/
namespace Logbook

/-! ### Python string functions used by `__txt__` -/

/-- `c * n` -/
def repChar (c : Char) (n : Nat) : String := String.ofList (List.replicate n c)

/-- `" " * n` -/
def spaces (n : Nat) : String := repChar ' ' n

/-- `"-" * n` -/
def dashes (n : Nat) : String := repChar '-' n

/-- `"{0:<w}".format(s)` for a string `s`: padded on the right to `w` code points, never cut -/
def ljust (s : String) (w : Nat) : String := s ++ spaces (w - s.length)

/-- `s.center(w)` (CPython `pad(self, left, marg - left, ' ')` with
`left = marg / 2 + (marg & width & 1)`) -/
def center (s : String) (w : Nat) : String :=
  if w ≤ s.length then s else
    let marg := w - s.length
    let left := marg / 2 + (marg % 2) * (w % 2)
    spaces left ++ s ++ spaces (marg - left)

/-- `len(s.expandtabs())` (tab size 8; `\n` and `\r` restart the column count) -/
def expandtabsLen (s : String) : Nat :=
  (s.toList.foldl (fun (acc : Nat × Nat) c =>
      if c = '\t' then (acc.1 + (8 - acc.2 % 8), acc.2 + (8 - acc.2 % 8))
      else if c = '\n' ∨ c = '\r' then (acc.1 + 1, 0)
      else (acc.1 + 1, acc.2 + 1)) (0, 0)).1

/-- `max(...)` of a non-empty sequence of lengths -/
def maxNat (l : List Nat) : Nat := l.foldl max 0

/-- `l[i]` with Python's index rule (a negative index counts from the end); `none` = `IndexError` -/
def pyIndex {α : Type} (l : List α) (i : Int) : Option α :=
  if 0 ≤ i then l[i.toNat]?
  else if 0 ≤ i + (l.length : Int) then l[(i + (l.length : Int)).toNat]?
  else none

/-- `template.format(*line)` with `template = "\t".join("{%i:<%i}" % (i, k) for i, k in enumerate(columns_len))`:
cell `i` left-justified to `columns_len[i]`, the cells joined by tabs.  (`line` and `columns_len` both have
one entry per column.) -/
def formatLine (widths : List Nat) (cells : List String) : String :=
  "\t".intercalate (List.zipWith ljust cells widths)

/-! ### values and their Python rendering -/

/-- the scalar values a record may carry in the correspondence runs -/
inductive Val where
  | int (i : Int)
  | none
  | str (s : String)
  /-- a finite double, by its exact value `± num / den` (`den > 0`; `neg` also tells `-0.0` from `0.0`) -/
  | float (neg : Bool) (num den : Nat)
  | inf (neg : Bool)
  | nan
deriving Repr

/-- the number of decimal digits of `n > 0` -/
def ndigits (n : Nat) : Nat := (Nat.repr n).length

/-- least `k ≥ start` with `d ≤ n * 10 ^ k` (`n > 0`; `fuel` bounds the search) -/
def scaleUp (n d : Nat) : Nat → Nat → Nat
  | 0, k => k
  | fuel + 1, k => if d ≤ n * 10 ^ k then k else scaleUp n d fuel (k + 1)

/-- `floor(log10 (n / d))` for `n, d > 0` -/
def exp10 (n d : Nat) : Int :=
  if d ≤ n then (ndigits (n / d) : Int) - 1 else - (scaleUp n d (ndigits d + 1) 1 : Int)

/-- `round(n / d)` to the nearest integer, ties to even (what a correctly rounded `%g` does on the exact value) -/
def roundHalfEven (n d : Nat) : Nat :=
  let q := n / d
  let r := n % d
  if 2 * r > d then q + 1 else if 2 * r = d then q + q % 2 else q

/-- drop the trailing `'0'` characters -/
def stripZeros (cs : List Char) : List Char := (cs.reverse.dropWhile (· == '0')).reverse

/-- `'%g' % x` (= `"{0:n}".format(x)` in the C locale) for `x = n / d > 0`: six significant digits, correctly
rounded (ties to even on the exact value), trailing zeros removed, exponent form `d.ddddde±XX` iff the decimal
exponent is `< -4` or `≥ 6`. -/
def fmtG (n d : Nat) : String :=
  let e0 := exp10 n d
  -- the six leading digits: round (x / 10^(e0-5))
  let m0 := if e0 ≤ 5 then roundHalfEven (n * 10 ^ (5 - e0).toNat) d else roundHalfEven n (d * 10 ^ (e0 - 5).toNat)
  let (m, e) := if m0 = 1000000 then (100000, e0 + 1) else (m0, e0)
  let ds := (Nat.repr m).toList                    -- exactly six digits, the first is not 0
  if e < -4 ∨ 6 ≤ e then
    let frac := stripZeros (ds.drop 1)
    let mant := String.ofList (ds.take 1 ++ (if frac.isEmpty then [] else '.' :: frac))
    let ae := e.natAbs
    mant ++ "e" ++ (if e < 0 then "-" else "+") ++ (if ae < 10 then "0" else "") ++ Nat.repr ae
  else if 0 ≤ e then
    let ip := ds.take (e.toNat + 1)
    let frac := stripZeros (ds.drop (e.toNat + 1))
    String.ofList (ip ++ (if frac.isEmpty then [] else '.' :: frac))
  else
    String.ofList ('0' :: '.' :: (List.replicate ((-e).toNat - 1) '0' ++ stripZeros ds))

/-- `"{0:n}".format(value) if isinstance(value, float) else "{0}".format(value)` (support.py:455-456) -/
def Val.format : Val → String
  | .int i => toString i
  | .none => "None"
  | .str s => s
  | .float neg n d =>
      (if neg then "-" else "") ++ (if n = 0 ∨ d = 0 then "0" else fmtG n d)
  | .inf neg => if neg then "-inf" else "inf"
  | .nan => "nan"

/-- how names and scalar values are rendered: `name k` is the Python string of the name `k`, `val v` the
formatted cell of the scalar value (code) `v` -/
structure Fmt where
  name : Name → String
  val : Int → String

/-- a code book: the values that are not plain integers travel as reserved integer codes -/
def Fmt.ofBooks (names : List (Name × String)) (vals : List (Int × Val)) : Fmt where
  name k := (names.lookup k).getD ("?" ++ toString k)
  val v := match vals.lookup v with
    | some x => x.format
    | none => (Val.int v).format

/-! ### `columns_len`, per logbook and chapter -/

/-- the `columns_len` attributes of a logbook (`len`) and of its chapters, in the order of `LB.chapters` -/
inductive CL where
  | mk (len : Option (List Nat)) (chapters : List (Name × CL))

namespace CL
def len : CL → Option (List Nat) | .mk l _ => l
def chapters : CL → List (Name × CL) | .mk _ c => c
/-- a fresh `Logbook()`: `columns_len = None`, no chapters -/
def empty : CL := .mk none []
end CL

/-- the `columns_len` tree of the chapter `k` (a chapter created since the last print has `None`) -/
def clChild (k : Name) (cs : List (Name × CL)) : CL := (cs.lookup k).getD CL.empty

/-! ### `__txt__` -/

/-- `sorted(names)` for the strings the names stand for -/
def sortNames (fmt : Fmt) (ns : List Name) : List Name :=
  ns.mergeSort (fun a b => !decide (fmt.name b < fmt.name a))

/-- `columns = self.header; if not columns: columns = sorted(self[0].keys()) + sorted(self.chapters.keys())`
(support.py:433-435) -/
def columnsOf (fmt : Fmt) (header : Option (List Name)) (rows : List Row) (chapterNames : List Name) : List Name :=
  match header with
  | some (c :: cs) => c :: cs
  | _ => sortNames fmt ((rows.headD []).map (·.1)) ++ sortNames fmt chapterNames

/-- `if not self.columns_len or len(self.columns_len) != len(columns): self.columns_len = [len(c) for c in columns]`
(support.py:436-437) -/
def initWidths (fmt : Fmt) (cols : List Name) (old : Option (List Nat)) : List Nat :=
  match old with
  | some (w :: ws) => if (w :: ws).length = cols.length then w :: ws else cols.map fun c => (fmt.name c).length
  | _ => cols.map fun c => (fmt.name c).length

/-- `value = line.get(name, ""); string.format(value)` (support.py:454-456) -/
def cellVal (fmt : Fmt) (row : Row) (name : Name) : String :=
  match dictGet row name with
  | some v => fmt.val v
  | none => ""

/-- `offsets[name]`: `len(chapters_txt[name]) - len(self)` when `startindex == 0`, else the default 0
(support.py:439-444) -/
def offsetOf (si n : Nat) (t : List String) : Int := if si = 0 then (t.length : Int) - (n : Int) else 0

/-- one cell (support.py:451-456): the chapter's line `chapters_txt[name][i + offsets[name]]` when `name` is
a chapter, else the formatted field -/
def cellAt (fmt : Fmt) (si n : Nat) (chTxt : List (Name × List String)) (row : Row) (i : Nat) (name : Name) :
    Option String :=
  match chTxt.lookup name with
  | some t => pyIndex t ((i : Int) + offsetOf si n t)
  | none => some (cellVal fmt row name)

/-- the inner loop `for j, name in enumerate(columns)` (support.py:450-458) over the remaining columns and
their `columns_len` entries; a raising cell leaves the entries widened so far -/
def cellLoop (f : Name → Option String) : List Name → List Nat → Option (List String) × List Nat
  | [], w => (some [], w)
  | _ :: _, [] => (none, [])
  | c :: cs, k :: ks =>
    match f c with
    | none => (none, k :: ks)
    | some s => let r := cellLoop f cs ks; (r.1.map (s :: ·), max k s.length :: r.2)

/-- the outer loop `for i, line in enumerate(self[startindex:])` (support.py:448-459) -/
def rowLoop (f : Row → Nat → Name → Option String) (cols : List Name) :
    List Row → Nat → List Nat → Option (List (List String)) × List Nat
  | [], _, w => (some [], w)
  | r :: rs, i, w =>
    match cellLoop (f r i) cols w with
    | (none, w') => (none, w')
    | (some line, w') => let q := rowLoop f cols rs (i + 1) w'; (q.1.map (line :: ·), q.2)

/-- The header cells of one column, top to bottom (support.py:467-481).  The code appends to the `nlines`
lists `header[0..]`; written per column:
* a chapter column (`name in chapters_txt`, text `t`, `offsets[name] = len(t) - len(self)` because
  `startindex == 0` here): `blanks = nlines - 2 - offsets[name]` lines of spaces, the centred name, the rule,
  then the chapter's own `offsets[name]` header lines.  `nlines = 2 + max offsets`, so `blanks ≥ 0` and the
  last index written is `nlines - 1` exactly when `offsets[name] ≥ 0`; with a negative offset (a chapter
  shorter than the logbook) `header[blanks + 1]` (or an earlier access) is out of range, and `max()` of an
  empty text is a `ValueError` — `none`;
* a scalar column: spaces on all lines but the last, which gets the name; `header[-1]` raises iff there is no
  line (`nlines ≤ 0`). -/
def headerCol (fmt : Fmt) (n : Nat) (nlines : Int) (chTxt : List (Name × List String))
    (matrix : List (List String)) (j : Nat) (name : Name) : Option (List String) :=
  match chTxt.lookup name with
  | some t =>
      let off : Int := (t.length : Int) - (n : Int)
      if t.isEmpty ∨ off < 0 then none else
        let length := maxNat (t.map expandtabsLen)
        some (List.replicate (nlines - 2 - off).toNat (spaces length) ++
          [center (fmt.name name) length, dashes length] ++ t.take off.toNat)
  | none =>
      if nlines ≤ 0 then none else
        let length := maxNat (matrix.map fun line => expandtabsLen (line.getD j ""))
        some (List.replicate (nlines.toNat - 1) (spaces length) ++ [fmt.name name])

/-- `nlines` (support.py:462-465) -/
def headerLines (n : Nat) (chTxt : List (Name × List String)) : Int :=
  if chTxt.isEmpty then 1 else 1 + (maxNat (chTxt.map (·.2.length)) : Int) - (n : Int) + 1

/-- all of them, or `none` when one is `none` (the first raise ends the loop) -/
def allSome {α : Type} : List (Option α) → Option (List α)
  | [] => some []
  | none :: _ => none
  | some x :: rest => (allSome rest).map (x :: ·)

/-- the `nlines` header lines, each with one cell per column (line `k` takes cell `k` of every column) -/
def headerBlock (nlines : Nat) (hcols : List (List String)) : List (List String) :=
  (List.range nlines).map fun k => hcols.map (·.getD k "")

/-- `__txt__` from the row loop on (support.py:446-486), the chapter texts being known: the matrix of cells,
the header block iff `header and startindex == 0 and self.log_header`, every line through the template.
Returns the text (`none` = raise) and the new `columns_len`. -/
def finishTxt (fmt : Fmt) (si : Nat) (hdr : Bool) (rows : List Row) (logHeader : Bool) (cols : List Name)
    (w0 : List Nat) (chTxt : List (Name × List String)) : Option (List String) × List Nat :=
  match rowLoop (cellAt fmt si rows.length chTxt) cols (rows.drop si) 0 w0 with
  | (none, w) => (none, w)
  | (some matrix, w) =>
    if hdr && si == 0 && logHeader then
      let nlines := headerLines rows.length chTxt
      match allSome (cols.zipIdx.map fun p => headerCol fmt rows.length nlines chTxt matrix p.2 p.1) with
      | none => (none, w)
      | some hcols => (some ((headerBlock nlines.toNat hcols ++ matrix).map (formatLine w)), w)
    else (some (matrix.map (formatLine w)), w)

mutual
/-- `Logbook.__txt__(startindex, header)` (support.py:429-486) on the logbook and its `columns_len` tree. -/
def txtT (fmt : Fmt) (si : Nat) (hdr : Bool) : LB → CL → Option (List String) × CL
  | .mk rows chs _ h lh _, cl =>
    if rows.length = 0 then (some [], cl)                                          -- :430-431
    else
      let cols := columnsOf fmt h rows (chs.map (·.1))                              -- :433-435
      let w0 := initWidths fmt cols cl.len                                         -- :436-437
      match chaptersT fmt si hdr chs cl.chapters with                               -- :439-444
      | (none, cs) => (none, .mk (some w0) cs)
      | (some chTxt, cs) =>
        let r := finishTxt fmt si hdr rows lh cols w0 chTxt
        (r.1, .mk (some r.2) cs)
/-- `for name, chapter in self.chapters.items(): chapters_txt[name] = chapter.__txt__(startindex, header)`;
a chapter that raises leaves the later chapters untouched.  The second component is the `columns_len` tree of
every chapter afterwards, in the order of the chapters. -/
def chaptersT (fmt : Fmt) (si : Nat) (hdr : Bool) :
    List (Name × LB) → List (Name × CL) → Option (List (Name × List String)) × List (Name × CL)
  | [], _ => (some [], [])
  | (k, ch) :: rest, cs =>
    match txtT fmt si hdr ch (clChild k cs) with
    | (none, c') => (none, (k, c') :: rest.map fun q => (q.1, clChild q.1 cs))
    | (some t, c') =>
      let r := chaptersT fmt si hdr rest cs
      (r.1.map ((k, t) :: ·), (k, c') :: r.2)
end

/-! ### operations at text level -/

/-- `logbook.stream` (support.py:381-400): the text `__txt__(startindex, not header_streamed)` next to the
state change of `Logbook.stream` -/
def streamT (fmt : Fmt) (s : LB × CL) : Option (List String) × (LB × CL) :=
  let r := txtT fmt s.1.buffindex (!s.1.headerStreamed) s.1 s.2
  (r.1, ((stream s.1).2, r.2))

/-- `str(logbook)` = `__txt__(0)` (support.py:488-490); it updates `columns_len` too -/
def strT (fmt : Fmt) (s : LB × CL) : Option (List String) × (LB × CL) :=
  let r := txtT fmt 0 true s.1 s.2
  (r.1, (s.1, r.2))

/-- the `columns_len` tree of the chapter reached by `path` -/
def clAt : List Name → CL → CL
  | [], c => c
  | n :: rest, c => clAt rest (clChild n c.chapters)

/-- replace the entry of `k` (appended when there is none yet) -/
def clSet (k : Name) (v : CL) : List (Name × CL) → List (Name × CL)
  | [] => [(k, v)]
  | (k', v') :: rest => if k' = k then (k, v) :: rest else (k', v') :: clSet k v rest

/-- put `v` at `path` -/
def clPut (v : CL) : List Name → CL → CL
  | [], _ => v
  | n :: rest, .mk l cs => .mk l (clSet n (clPut v rest (clChild n cs)) cs)

/-- what an operation lets the caller read as text: nothing, or the lines (`none` = the call raised) -/
inductive TextObs where
  | silent
  | lines (t : Option (List String))

/-- one operation on the logbook together with its `columns_len` tree; the logbook component is
`Logbook.step`, the text is `__txt__`'s -/
def stepT (fmt : Fmt) (s : LB × CL) (o : Op) : (LB × CL) × Obs × TextObs :=
  let r := step s.1 o
  match o with
  | .stream => let t := streamT fmt s; ((r.1, t.2.2), r.2, .lines t.1)
  | .str => let t := strT fmt s; ((r.1, t.2.2), r.2, .lines t.1)
  | .streamAt c rest =>
      match chapterAt (c :: rest) s.1 with
      | some l =>
          let t := streamT fmt (l, clAt (c :: rest) s.2)
          ((r.1, clPut t.2.2 (c :: rest) s.2), r.2, .lines t.1)
      | none => ((r.1, s.2), r.2, .silent)
  | _ => ((r.1, s.2), r.2, .silent)              -- record / select / pop / del / pickle / settings: `columns_len` untouched

/-- the state after a history -/
def runFromT (fmt : Fmt) (s : LB × CL) (ops : List Op) : LB × CL := ops.foldl (fun s o => (stepT fmt s o).1) s

def runT (fmt : Fmt) (ops : List Op) : LB × CL := runFromT fmt (LB.empty, CL.empty) ops

/-- the texts returned by the `stream` operations of a history, in order -/
def streamTextsFrom (fmt : Fmt) : LB × CL → List Op → List (Option (List String))
  | _, [] => []
  | s, .stream :: ops => (streamT fmt s).1 :: streamTextsFrom fmt (stepT fmt s .stream).1 ops
  | s, o :: ops => streamTextsFrom fmt (stepT fmt s o).1 ops

def streamTexts (fmt : Fmt) (ops : List Op) : List (Option (List String)) :=
  streamTextsFrom fmt (LB.empty, CL.empty) ops

end Logbook
