/-
C13 — executable model of `deap.cma.Strategy` (deap/cma.py:33-208): `__init__`, `computeParams`,
`generate`, `update`, transcribed statement by statement (line numbers refer to deap/cma.py).

Import-free, polymorphic in the scalar class `RealLike α` (`Float` for the driver, `ℝ` for the
theorems of `Props/C13.lean`).

Representation.  A vector is a `List α`, a matrix a list of rows.  Every numpy statement is one
`tab`/`tab2` (tabulate an index expression into a list), reads go through the total getters
`vget`/`mget` (0 outside the shape), and every numpy reduction (`dot`, `sum`, `norm`) is the
left-to-right sum `sumTo n f = f 0 + f 1 + … + f (n-1)`.

What is a parameter, not a computation:
* `eigh : matrix → eigenvalues × eigenvector-columns` (LAPACK via `numpy.linalg.eigh`) with the
  contract stated in `Props/C13.lean` (`EighContract`);
* `argsort : vector → index list` (`numpy.argsort`; any permutation sorting the eigenvalues);
* the standard-normal draws of `generate` (a flat tape of which `lambda_·dim` draws are consumed);
* the population order after `population.sort(key=fitness, reverse=True)` is computed here
  (`sortDesc`, stable), keys are any type with a decidable `<`.
-/
import DeapModel.Core.Scalar

namespace Cma

open RealLike

section Basics
variable {α : Type} [RealLike α]

/-- the vector `[f 0, …, f (n-1)]` -/
def tab (n : Nat) (f : Nat → α) : List α := (List.range n).map f

/-- the `n × m` matrix `[[f i j | j < m] | i < n]` -/
def tab2 (n m : Nat) (f : Nat → Nat → α) : List (List α) := (List.range n).map (fun i => tab m (f i))

/-- `v[i]` (0 outside the shape) -/
def vget (v : List α) (i : Nat) : α := v.getD i (RealLike.ofNat 0)

/-- `M[i][j]` (0 outside the shape) -/
def mget (M : List (List α)) (i j : Nat) : α := vget (M.getD i []) j

/-- `f 0 + f 1 + … + f (n-1)`, summed from the left starting at 0 (Python `sum` / a `dot` row). -/
def sumTo (n : Nat) (f : Nat → α) : α := RealLike.sum (tab n f)

/-- `numpy.linalg.norm(v)` of a vector of length `n`: `sqrt(Σ v_i²)`. -/
def norm (n : Nat) (v : List α) : α := RealLike.sqrt (sumTo n (fun i => vget v i * vget v i))

/-- a list has the shape of an `n`-vector -/
def isVec (n : Nat) (v : List α) : Bool := v.length == n
/-- a list of rows has the shape `n × m` -/
def isMat (n m : Nat) (M : List (List α)) : Bool := M.length == n && M.all (fun r => r.length == m)

end Basics

/-! ### Parameters (`computeParams`, cma.py:176-208) -/

/-- the `weights` parameter; any other string raises `RuntimeError` (cma.py:191-192) -/
inductive Scheme where
  | superlinear | linear | equal
  deriving Repr, DecidableEq

def Scheme.ofString? : String → Option Scheme
  | "superlinear" => some .superlinear
  | "linear" => some .linear
  | "equal" => some .equal
  | _ => none

/-- the keyword arguments `Strategy(centroid, sigma, **kargs)` understands; `none` = not given -/
structure Over (α : Type) where
  lambda_ : Option Nat := none
  mu : Option Nat := none
  cmatrix : Option (List (List α)) := none
  scheme : Scheme := .superlinear
  cs : Option α := none
  damps : Option α := none
  ccum : Option α := none
  ccov1 : Option α := none
  ccovmu : Option α := none

/-- the attributes `computeParams` sets -/
structure Params (α : Type) where
  mu : Nat
  weights : List α
  mueff : α
  cc : α
  cs : α
  ccov1 : α
  ccovmu : α
  damps : α

section Params
variable {α : Type} [RealLike α]

/-- cma.py:183-190, the un-normalised recombination weights for ranks `1..mu`
(`numpy.arange(1, mu + 1)[i] = i + 1`). -/
def rawWeights (sch : Scheme) (mu : Nat) : List α :=
  match sch with
  | .superlinear =>                                   -- :184-186  log(mu + 0.5) - log(arange(1, mu+1))
      tab mu (fun i => RealLike.log (RealLike.ofNat mu + RealLike.ofRatio 1 2) - RealLike.log (RealLike.ofNat (i + 1)))
  | .linear =>                                        -- :187-188  mu + 0.5 - arange(1, mu+1)
      tab mu (fun i => RealLike.ofNat mu + RealLike.ofRatio 1 2 - RealLike.ofNat (i + 1))
  | .equal =>                                         -- :189-190  ones(mu)
      tab mu (fun _ => RealLike.ofNat 1)

/-- cma.py:194 `self.weights /= sum(self.weights)` -/
def normalise (w : List α) : List α :=
  let s := RealLike.sum w
  w.map (fun x => x / s)

/-- cma.py:195 `1. / sum(self.weights ** 2)` -/
def mueffOf (w : List α) : α := (1 : α) / RealLike.sum (w.map (fun x => RealLike.pow x 2))

/-- cma.py:176-208.  `dim = self.dim`, `lambda_ = self.lambda_`. -/
def computeParams (dim lambda_ : Nat) (o : Over α) : Params α :=
  let n : α := RealLike.ofNat dim
  let mu := o.mu.getD (lambda_ / 2)                                            -- :182 int(lambda_ / 2)
  let weights := normalise (rawWeights o.scheme mu)                            -- :183-194
  let mueff := mueffOf weights                                                 -- :195
  let cc := o.ccum.getD ((4 : α) / (n + 4))                                    -- :197
  let cs := o.cs.getD ((mueff + 2) / (n + mueff + 3))                          -- :198-199
  let ccov1 := o.ccov1.getD ((2 : α) / (RealLike.pow (n + RealLike.ofRatio 13 10) 2 + mueff))  -- :200-201
  let ccovmu0 := o.ccovmu.getD ((2 : α) * (mueff - 2 + (1 : α) / mueff)
                                 / (RealLike.pow (n + 2) 2 + mueff))           -- :202-204
  let ccovmu := RealLike.pmin ((1 : α) - ccov1) ccovmu0                        -- :205
  let damps0 := (1 : α) + (2 : α) * RealLike.pmax (0 : α)
                  (RealLike.sqrt ((mueff - 1) / (n + 1)) - 1) + cs             -- :206-207
  let damps := o.damps.getD damps0                                             -- :208
  { mu := mu, weights := weights, mueff := mueff, cc := cc, cs := cs, ccov1 := ccov1,
    ccovmu := ccovmu, damps := damps }

end Params

/-! ### State -/

/-- the attributes of a `Strategy` object -/
structure State (α : Type) where
  dim : Nat
  centroid : List α
  sigma : α
  pc : List α
  ps : List α
  chiN : α
  C : List (List α)
  diagD : List α
  B : List (List α)
  BD : List (List α)
  cond : α
  lambda_ : Nat
  updateCount : Nat
  par : Params α

/-- what cma.py:167-174 (and :101-108) derive from the `eigh` output -/
structure Eig (α : Type) where
  diagD : List α
  B : List (List α)
  BD : List (List α)
  cond : α

section Eig
variable {α : Type} [RealLike α]

/-- `indx[-1]` -/
def lastIdx (indx : List Nat) : Nat := indx.getD (indx.length - 1) 0
/-- `indx[0]` -/
def firstIdx (indx : List Nat) : Nat := indx.getD 0 0

/-- cma.py:172-174 (= :104-106): `diagD = w[indx] ** 0.5`, `B = V[:, indx]`, `BD = B * diagD`
(numpy broadcasting multiplies column `k` of `B` by `diagD[k]`). -/
def eigSorted (n : Nat) (w : List α) (V : List (List α)) (indx : List Nat) : Eig α :=
  let diagD := tab n (fun k => RealLike.pow (vget w (indx.getD k 0)) (RealLike.ofRatio 1 2))
  let B := tab2 n n (fun a k => mget V a (indx.getD k 0))
  let BD := tab2 n n (fun a k => mget B a k * vget diagD k)
  { diagD := diagD, B := B, BD := BD, cond := RealLike.ofNat 0 }

/-- `update`, cma.py:167-174: `cond` is taken from the raw eigenvalues (before the square root). -/
def eigUpdate (n : Nat) (w : List α) (V : List (List α)) (indx : List Nat) : Eig α :=
  let e := eigSorted n w V indx
  { e with cond := vget w (lastIdx indx) / vget w (firstIdx indx) }            -- :170

/-- `__init__`, cma.py:101-108: `cond` is computed *after* `diagD` was re-ordered and square-rooted,
indexing the new `diagD` with `indx` again (as coded). -/
def eigInit (n : Nat) (w : List α) (V : List (List α)) (indx : List Nat) : Eig α :=
  let e := eigSorted n w V indx
  { e with cond := vget e.diagD (lastIdx indx) / vget e.diagD (firstIdx indx) } -- :108

/-- Is `indx` an argsort of `w` (a permutation of `0..n-1` listing `w` in non-decreasing order)?
Executable check used by the driver on numpy's answer. -/
def isArgsort (n : Nat) (w : List α) (indx : List Nat) : Bool :=
  indx.length == n
  && (List.range n).all (fun i => indx.contains i)
  && (List.range (n - 1)).all (fun k => decide (vget w (indx.getD k 0) ≤ vget w (indx.getD (k + 1) 0)))

end Eig

/-! ### `__init__` (cma.py:87-112) -/

section Init
variable {α : Type} [RealLike α]

/-- largest `k ≤ bound` with `k ≤ x` (0 if none): `int(x)` for `0 ≤ x < bound + 1`. -/
def natFloor (x : α) (bound : Nat) : Nat :=
  (List.range bound).foldl (fun acc k => if RealLike.ofNat (k + 1) ≤ x then k + 1 else acc) 0

/-- cma.py:110 `int(4 + 3 * log(self.dim))`; `3 log N ≤ 3 N`, so the search bound is enough. -/
def defaultLambda (α : Type) [RealLike α] (dim : Nat) : Nat :=
  natFloor ((4 : α) + (3 : α) * RealLike.log (RealLike.ofNat dim : α)) (4 + 3 * dim)

/-- cma.py:97-98 -/
def chiNOf (dim : Nat) : α :=
  let n : α := RealLike.ofNat dim
  RealLike.sqrt n * ((1 : α) - (1 : α) / ((4 : α) * n) + (1 : α) / ((21 : α) * RealLike.pow n 2))

def identity (n : Nat) : List (List α) :=
  tab2 n n (fun i j => if i = j then RealLike.ofNat 1 else RealLike.ofNat 0)

/-- cma.py:87-112. -/
def init (eigh : List (List α) → List α × List (List α)) (argsort : List α → List Nat)
    (centroid : List α) (sigma : α) (o : Over α) : State α :=
  let dim := centroid.length                                                   -- :93
  let C := o.cmatrix.getD (identity dim)                                       -- :100
  let wV := eigh C                                                             -- :101
  let indx := argsort wV.1                                                     -- :103
  let e := eigInit dim wV.1 wV.2 indx                                          -- :104-108
  let lambda_ := o.lambda_.getD (defaultLambda α dim)                          -- :110
  { dim := dim, centroid := centroid, sigma := sigma,
    pc := tab dim (fun _ => RealLike.ofNat 0),                                 -- :95
    ps := tab dim (fun _ => RealLike.ofNat 0),                                 -- :96
    chiN := chiNOf dim,                                                        -- :97-98
    C := C, diagD := e.diagD, B := e.B, BD := e.BD, cond := e.cond,
    lambda_ := lambda_, updateCount := 0,                                      -- :111
    par := computeParams dim lambda_ o }                                       -- :112

/-- The documented way of changing the population size during a run (docstring of `computeParams`, cma.py:177-178:
"needs to be called again if λ changes during evolution"):
`strategy.lambda_ = lam; strategy.computeParams(strategy.params)`.  `o` = the keyword arguments kept in
`self.params` (cma.py:88).  Only `lambda_` and the attributes of cma.py:182-208 change. -/
def relambda (s : State α) (lam : Nat) (o : Over α) : State α :=
  { s with lambda_ := lam, par := computeParams s.dim lam o }

end Init

/-! ### `generate` (cma.py:114-124) -/

section Generate
variable {α : Type} [RealLike α]

/-- cma.py:123: row `z` of `arz` becomes `centroid + sigma * dot(z, BD.T)`,
`dot(arz, BD.T)[i][j] = Σ_k arz[i][k] · BD[j][k]`. -/
def samplePoint (s : State α) (z : List α) : List α :=
  tab s.dim (fun j => vget s.centroid j + s.sigma * sumTo s.dim (fun k => vget z k * mget s.BD j k))

/-- cma.py:122 `numpy.random.standard_normal((self.lambda_, self.dim))`: the next `lambda_ · dim` draws of the
tape, filled row by row (C order); `none` when the tape is too short. -/
def drawArz (lam n : Nat) (tape : List α) : Option (List (List α) × List α) :=
  if lam * n ≤ tape.length then
    some ((List.range lam).map (fun i => (tape.drop (i * n)).take n), tape.drop (lam * n))
  else none

/-- cma.py:122-124.  `tape` = the standard-normal draws still to come; exactly `lambda_ · dim` of them are
consumed; `indInit` = the `ind_init` argument.  Returns the `lambda_` individuals and the rest of the tape. -/
def generate {I : Type} (s : State α) (tape : List α) (indInit : List α → I) : Option (List I × List α) :=
  match drawArz s.lambda_ s.dim tape with
  | none => none
  | some (arz, rest) => some (arz.map (fun z => indInit (samplePoint s z)), rest)     -- :123-124

end Generate

/-! ### `update` (cma.py:126-174), code form -/

/-- `population.sort(key=lambda ind: ind.fitness, reverse=True)` (cma.py:133): CPython's sort is
stable, uses only `<`, and `reverse=True` keeps the original relative order of equal keys; so an
element may stay in front of the next one unless it is `<` it. -/
def sortDesc {K V : Type} [LT K] [DecidableLT K] (pop : List (K × V)) : List (K × V) :=
  pop.mergeSort (fun a b => !decide (a.1 < b.1))

/-- `Fitness.__lt__` (deap/base.py): Python tuple `<` of the weighted values — the first position at
which the two differ decides; a proper prefix is smaller.  (C01 proves this reading of `Fitness`.) -/
def lexLt {α : Type} [RealLike α] : List α → List α → Bool
  | [], [] => false
  | [], _ :: _ => true
  | _ :: _, [] => false
  | a :: as, b :: bs => if a < b then true else if b < a then false else lexLt as bs

/-- a fitness as sort key: its weighted values under `lexLt` -/
structure FitKey (α : Type) where
  wvalues : List α

instance fitKeyLT {α : Type} [RealLike α] : LT (FitKey α) := ⟨fun a b => lexLt a.wvalues b.wvalues = true⟩
instance fitKeyDecLT {α : Type} [RealLike α] : DecidableLT (FitKey α) :=
  fun a b => inferInstanceAs (Decidable (lexLt a.wvalues b.wvalues = true))

/-- the part of the new state computed before the eigen-decomposition -/
structure Core (α : Type) where
  centroid : List α
  ps : List α
  hsig : α
  pc : List α
  C : List (List α)
  sigma : α

section Update
variable {α : Type} [RealLike α]

/-- :136 `numpy.dot(self.weights, population[0:self.mu])` -/
def newCentroid (s : State α) (xs : List (List α)) : List α :=
  tab s.dim (fun j => sumTo s.par.mu (fun i => vget s.par.weights i * mget xs i j))

/-- :138 `c_diff = self.centroid - old_centroid` -/
def cDiff (s : State α) (cen : List α) : List α :=
  tab s.dim (fun j => vget cen j - vget s.centroid j)

/-- :141-144
`(1 - cs) * ps + sqrt(cs * (2 - cs) * mueff) / sigma * dot(B, (1. / diagD) * dot(B.T, c_diff))` -/
def newPs (s : State α) (cdiff : List α) : List α :=
  let n := s.dim
  let p := s.par
  let bt := tab n (fun k => sumTo n (fun b => mget s.B b k * vget cdiff b))     -- dot(B.T, c_diff)
  let t := tab n (fun k => ((1 : α) / vget s.diagD k) * vget bt k)              -- (1. / diagD) * …
  let bz := tab n (fun a => sumTo n (fun k => mget s.B a k * vget t k))         -- dot(B, …)
  let coef := RealLike.sqrt (p.cs * ((2 : α) - p.cs) * p.mueff) / s.sigma
  tab n (fun a => ((1 : α) - p.cs) * vget s.ps a + coef * vget bz a)

/-- :146-148 `float(norm(ps) / sqrt(1. - (1. - cs) ** (2. * (update_count + 1.))) / chiN
              < (1.4 + 2. / (dim + 1.)))` -/
def hsigOf (s : State α) (ps : List α) : α :=
  let p := s.par
  if norm s.dim ps
       / RealLike.sqrt ((1 : α) - RealLike.pow ((1 : α) - p.cs)
                                   ((2 : α) * (RealLike.ofNat s.updateCount + (1 : α))))
       / s.chiN
     < (RealLike.ofRatio 14 10 + (2 : α) / (RealLike.ofNat s.dim + (1 : α)))
  then RealLike.ofNat 1 else RealLike.ofNat 0

/-- :152-154 `(1 - cc) * pc + hsig * sqrt(cc * (2 - cc) * mueff) / sigma * c_diff` -/
def newPc (s : State α) (hsig : α) (cdiff : List α) : List α :=
  let p := s.par
  let coef := hsig * RealLike.sqrt (p.cc * ((2 : α) - p.cc) * p.mueff) / s.sigma
  tab s.dim (fun a => ((1 : α) - p.cc) * vget s.pc a + coef * vget cdiff a)

/-- :157 `artmp = population[0:self.mu] - old_centroid` -/
def artmpOf (s : State α) (xs : List (List α)) : List (List α) :=
  tab2 s.par.mu s.dim (fun i j => mget xs i j - vget s.centroid j)

/-- :158-162
`(1 - ccov1 - ccovmu + (1 - hsig) * ccov1 * cc * (2 - cc)) * C + ccov1 * outer(pc, pc)
 + ccovmu * dot((weights * artmp.T), artmp) / sigma ** 2` -/
def newC (s : State α) (hsig : α) (pc : List α) (artmp : List (List α)) : List (List α) :=
  let p := s.par
  let n := s.dim
  let k1 := (1 : α) - p.ccov1 - p.ccovmu + ((1 : α) - hsig) * p.ccov1 * p.cc * ((2 : α) - p.cc)
  let wat := tab2 n p.mu (fun a i => vget p.weights i * mget artmp i a)         -- weights * artmp.T
  let s2 := RealLike.pow s.sigma 2
  tab2 n n (fun a b =>
    k1 * mget s.C a b + p.ccov1 * (vget pc a * vget pc b)
      + p.ccovmu * sumTo p.mu (fun i => mget wat a i * mget artmp i b) / s2)

/-- :164-165 `sigma *= exp((norm(ps) / chiN - 1.) * cs / damps)` -/
def newSigma (s : State α) (ps : List α) : α :=
  s.sigma * RealLike.exp ((norm s.dim ps / s.chiN - (1 : α)) * s.par.cs / s.par.damps)

/-- cma.py:135-165 on the already sorted and truncated population `xs = population[0:mu]`. -/
def updateCore (s : State α) (xs : List (List α)) : Core α :=
  let cen := newCentroid s xs                                                   -- :135-136
  let cdiff := cDiff s cen                                                      -- :138
  let ps := newPs s cdiff                                                       -- :141-144
  let hsig := hsigOf s ps                                                       -- :146-148
  let pc := newPc s hsig cdiff                                                  -- :152-154
  let artmp := artmpOf s xs                                                     -- :157
  { centroid := cen, ps := ps, hsig := hsig, pc := pc,
    C := newC s hsig pc artmp,                                                  -- :158-162
    sigma := newSigma s ps }                                                    -- :164-165

/-- cma.py:133 and the slice `[0:self.mu]` of :136/:157: sort by fitness, best first, keep the first `mu` genomes. -/
def selectBest {K : Type} [LT K] [DecidableLT K] (mu : Nat) (pop : List (K × List α)) : List (List α) :=
  ((sortDesc pop).map Prod.snd).take mu

/-- cma.py:126-174. -/
def update {K : Type} [LT K] [DecidableLT K]
    (eigh : List (List α) → List α × List (List α)) (argsort : List α → List Nat)
    (s : State α) (pop : List (K × List α)) : State α :=
  let xs := selectBest s.par.mu pop                                             -- :133, [0:mu]
  let c := updateCore s xs                                                      -- :135-165
  let wV := eigh c.C                                                            -- :167
  let indx := argsort wV.1                                                      -- :168
  let e := eigUpdate s.dim wV.1 wV.2 indx                                       -- :170-174 (cond first, then diagD, B, BD)
  { s with centroid := c.centroid, ps := c.ps, pc := c.pc, C := c.C, sigma := c.sigma,
           updateCount := s.updateCount + 1,                                    -- :150
           diagD := e.diagD, B := e.B, BD := e.BD, cond := e.cond }

/-- what `update` requires of its argument: `mu ≤ len(population)` (otherwise `numpy.dot` raises on
the shape mismatch) and every individual has `dim` genes. -/
def popOk {K : Type} (s : State α) (pop : List (K × List α)) : Bool :=
  decide (s.par.mu ≤ pop.length) && pop.all (fun kv => kv.2.length == s.dim)

end Update

/-! ### `update`, published form (Hansen, "The CMA Evolution Strategy: A Tutorial", (μ/μ_w, λ)-CMA-ES)

With `m` the old mean, `x_{i:λ}` the i-th best of the λ sampled points, `y_i = (x_{i:λ} - m)/σ`:

    m'   = Σ_{i≤μ} w_i x_{i:λ}
    y_w  = Σ_{i≤μ} w_i y_i
    p_σ' = (1 - c_σ) p_σ + sqrt(c_σ (2 - c_σ) μ_eff) · C^{-1/2} y_w,      C^{-1/2} = B D^{-1} Bᵀ
    h_σ  = 1  if  ‖p_σ'‖ / sqrt(1 - (1 - c_σ)^{2(g+1)}) < (1.4 + 2/(n+1)) · E‖N(0,I)‖,  else 0
    p_c' = (1 - c_c) p_c + h_σ sqrt(c_c (2 - c_c) μ_eff) · y_w
    C'   = (1 - c_1 - c_μ) C + c_1 (p_c' p_c'ᵀ + (1 - h_σ) c_c (2 - c_c) C) + c_μ Σ_{i≤μ} w_i y_i y_iᵀ
    σ'   = σ · exp( (c_σ / d_σ) (‖p_σ'‖ / E‖N(0,I)‖ - 1) )

`E‖N(0,I)‖` is approximated by `chiN = sqrt(n)(1 - 1/(4n) + 1/(21n²))`, `g` = number of updates
done so far.  Written independently of the code form above. -/

section Spec
variable {α : Type} [RealLike α]

/-- `y_i = (x_{i:λ} - m) / σ`, component `j` -/
def specY (s : State α) (xs : List (List α)) (i j : Nat) : α :=
  (mget xs i j - vget s.centroid j) / s.sigma

/-- `y_w = Σ w_i y_i` -/
def specYw (s : State α) (xs : List (List α)) : List α :=
  tab s.dim (fun j => sumTo s.par.mu (fun i => vget s.par.weights i * specY s xs i j))

/-- `m' = Σ w_i x_{i:λ}` -/
def specMean (s : State α) (xs : List (List α)) : List α :=
  tab s.dim (fun j => sumTo s.par.mu (fun i => vget s.par.weights i * mget xs i j))

/-- `C^{-1/2} = B D^{-1} Bᵀ`, entry `(a, b)` -/
def specInvSqrtC (s : State α) (a b : Nat) : α :=
  sumTo s.dim (fun k => mget s.B a k * ((1 : α) / vget s.diagD k) * mget s.B b k)

def specPs (s : State α) (yw : List α) : List α :=
  tab s.dim (fun a => ((1 : α) - s.par.cs) * vget s.ps a
    + RealLike.sqrt (s.par.cs * ((2 : α) - s.par.cs) * s.par.mueff)
      * sumTo s.dim (fun b => specInvSqrtC s a b * vget yw b))

def specHsig (s : State α) (ps : List α) : α :=
  if norm s.dim ps
       / RealLike.sqrt ((1 : α) - RealLike.pow ((1 : α) - s.par.cs) (RealLike.ofNat (2 * (s.updateCount + 1))))
     < (RealLike.ofRatio 14 10 + (2 : α) / (RealLike.ofNat s.dim + (1 : α))) * s.chiN
  then RealLike.ofNat 1 else RealLike.ofNat 0

def specPc (s : State α) (hsig : α) (yw : List α) : List α :=
  tab s.dim (fun a => ((1 : α) - s.par.cc) * vget s.pc a
    + hsig * RealLike.sqrt (s.par.cc * ((2 : α) - s.par.cc) * s.par.mueff) * vget yw a)

def specC (s : State α) (hsig : α) (pc : List α) (xs : List (List α)) : List (List α) :=
  let p := s.par
  tab2 s.dim s.dim (fun a b =>
    ((1 : α) - p.ccov1 - p.ccovmu) * mget s.C a b
    + p.ccov1 * (vget pc a * vget pc b + ((1 : α) - hsig) * p.cc * ((2 : α) - p.cc) * mget s.C a b)
    + p.ccovmu * sumTo p.mu (fun i => vget p.weights i * (specY s xs i a * specY s xs i b)))

def specSigma (s : State α) (ps : List α) : α :=
  s.sigma * RealLike.exp (s.par.cs / s.par.damps * (norm s.dim ps / s.chiN - (1 : α)))

def updateSpec (s : State α) (xs : List (List α)) : Core α :=
  let yw := specYw s xs
  let ps := specPs s yw
  let hsig := specHsig s ps
  let pc := specPc s hsig yw
  { centroid := specMean s xs, ps := ps, hsig := hsig, pc := pc,
    C := specC s hsig pc xs, sigma := specSigma s ps }

end Spec

/-! ### Several strategies next to the caller's own parameter objects

A program that keeps several `Strategy` objects alive (multi-start, islands, restarts) and still holds the
objects it passed to the constructors: the start point, `sigma`, the keyword arguments (`cmatrix`,
`lambda_`, `mu`, `weights`, learning rates).  The model has value semantics, so the statement "`__init__`
copies nothing it later mutates, `update` mutates nothing but the attributes of its own `self`" is the
shape of the functions below: a step addressed to strategy `k` rewrites position `k` of `strats` and
nothing else.  (On the Python side this is what cma.py:91 `numpy.array(centroid)`, the re-binding
`self.C = … * self.C + …` of :158 and `self.centroid = numpy.dot(…)` of :136 achieve; the harness stream
`alias` ties the implementation to it.) -/

/-- what a caller hands to `Strategy(centroid, sigma, **kargs)` and keeps -/
structure Args (α : Type) where
  centroid : List α
  sigma : α
  o : Over α

/-- the live strategies and the caller's parameter objects -/
structure World (α : Type) where
  args : List (Args α)
  strats : List (State α)

/-- one statement of the caller's program -/
inductive Step (α K : Type) where
  /-- `strats[k].update(pop)` -/
  | update (k : Nat) (pop : List (K × List α))
  /-- `strats[k].lambda_ = lam; strats[k].computeParams(params)` -/
  | relambda (k : Nat) (lam : Nat) (o : Over α)
  /-- the caller overwrites his own parameter object number `i` -/
  | setArg (i : Nat) (a : Args α)
  /-- `strats.append(Strategy(args[i].centroid, args[i].sigma, **args[i].kargs))` (also: a restart) -/
  | spawn (i : Nat)

section World
variable {α K : Type} [RealLike α] [LT K] [DecidableLT K]

/-- does the step address strategy `j`? -/
def Step.touches (j : Nat) : Step α K → Bool
  | .update k _ => k == j
  | .relambda k _ _ => k == j
  | .setArg _ _ => false
  | .spawn _ => false

/-- the effect of a step on the strategy it addresses -/
def Step.onState (eigh : List (List α) → List α × List (List α)) (argsort : List α → List Nat)
    (s : State α) : Step α K → State α
  | .update _ pop => Cma.update eigh argsort s pop
  | .relambda _ lam o => Cma.relambda s lam o
  | .setArg _ _ => s
  | .spawn _ => s

/-- the effect of a step on the whole program state -/
def Step.apply (eigh : List (List α) → List α × List (List α)) (argsort : List α → List Nat)
    (w : World α) : Step α K → World α
  | .update k pop => { w with strats := w.strats.modify k (fun s => Cma.update eigh argsort s pop) }
  | .relambda k lam o => { w with strats := w.strats.modify k (fun s => Cma.relambda s lam o) }
  | .setArg i a => { w with args := w.args.set i a }
  | .spawn i =>
    match w.args[i]? with
    | none => w
    | some a => { w with strats := w.strats ++ [init eigh argsort a.centroid a.sigma a.o] }

/-- a whole program -/
def runSteps (eigh : List (List α) → List α × List (List α)) (argsort : List α → List Nat)
    (w : World α) (steps : List (Step α K)) : World α :=
  steps.foldl (Step.apply eigh argsort) w

end World

end Cma
