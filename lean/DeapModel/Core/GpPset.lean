/-
`PrimitiveSetTyped` / `PrimitiveSet` as a state machine of declarations (deap/gp.py:315-509).  Import-free executable
model on top of `Core/GpTree.lean` (`addPrim` there is `_add`'s effect on the two type-indexed dictionaries).

State = what the object holds: `primitives`, `terminals` (dictionaries type → list, in insertion order), `mapping`
(name → node), `context` (name → Python object, by identity; the `__builtins__` entry is left out), `arguments`,
`terms_count`, `prims_count`.  Two ghost lists record every node ever handed to `_add` (with later renamings applied):
they are what "the declared symbols" means in the theorems and are not read by any operation.

A declaration that makes the code raise (the uniqueness assertions of `addPrimitive` / `addTerminal`, the checks of
`addEphemeralConstant`, `PrimitiveSet.addPrimitive`'s `arity > 0`, a `KeyError` in `renameArguments`) answers `none`.
-/
import DeapModel.Core.GpTree

namespace GpTree

/-- what `addTerminal` looks at in the object it is given: `terminal in (True, False)` compares with `==`, so `1`,
`0`, `1.0`, `0.0` pass as well as the two booleans -/
inductive TVal
  | int (i : Int)
  | bool (b : Bool)
  | flt (x : Float)
  | other

def TVal.boolLike : TVal → Bool
  | .int i => i == 0 || i == 1
  | .bool _ => true
  | .flt x => x == 0.0 || x == 1.0
  | .other => false

structure PState where
  dicts : Dicts
  mapping : List (String × Prim)
  context : List (String × Nat)
  arguments : List String
  termsCount : Nat
  primsCount : Nat
  /-- ghost: every `Primitive` handed to `_add`, in order -/
  declPrims : List Prim
  /-- ghost: every terminal / ephemeral class handed to `_add`, in order (renamings applied) -/
  declTerms : List Prim

/-- `d[k] = v` of a Python dict: an existing key keeps its place -/
def dictSet {β : Type} (d : List (String × β)) (k : String) (v : β) : List (String × β) :=
  if d.any (fun e => e.1 == k) then d.map (fun e => if e.1 == k then (k, v) else e) else d ++ [(k, v)]

def dictLook {β : Type} (d : List (String × β)) (k : String) : Option β :=
  (d.find? (fun e => e.1 == k)).map (·.2)

/-- `PrimitiveSetTyped._add(prim)` (gp.py:356-381) -/
def PState.add (sub : Nat → Nat → Bool) (st : PState) (p : Prim) : PState :=
  { st with
    dicts := addPrim sub st.dicts p
    mapping := dictSet st.mapping p.name p                                  -- :371
    declPrims := if p.kind = .prim then st.declPrims ++ [p] else st.declPrims
    declTerms := if p.kind = .prim then st.declTerms else st.declTerms ++ [p] }

def PState.empty : PState := ⟨⟨[], []⟩, [], [], [], 0, 0, [], []⟩

/-- the argument terminal `Terminal(arg_str, True, type_)` (gp.py:337-339) -/
def argNode (name : String) (τ : Nat) : Prim := ⟨name, τ, [], .term, name⟩

/-- the loop of `__init__` (gp.py:335-341) from index `i` on -/
def initArgs (sub : Nat → Nat → Bool) (pre : String) : List Nat → Nat → PState → PState
  | [], _, st => st
  | τ :: τs, i, st =>
    let argStr := pre ++ toString i
    let st := { st with arguments := st.arguments ++ [argStr] }
    let st := st.add sub (argNode argStr τ)
    initArgs sub pre τs (i + 1) { st with termsCount := st.termsCount + 1 }

/-- `PrimitiveSetTyped(name, in_types, ret_type, prefix)`: the state after the constructor (`ret_type` is only stored) -/
def PState.init (sub : Nat → Nat → Bool) (inTypes : List Nat) (pre : String) : PState :=
  initArgs sub pre inTypes 0 PState.empty

/-- `PrimitiveSet(name, arity, prefix)` (gp.py:487-489): `arity` arguments of type `object` -/
def PState.initU (sub : Nat → Nat → Bool) (arity : Nat) (pre : String) : PState :=
  PState.init sub (List.replicate arity objT) pre

/-- the tag under which the model remembers the generating function of an ephemeral class (`class_.func`) -/
def funcTag (f : Nat) : String := "fn" ++ toString f

inductive Decl
  /-- `addPrimitive(primitive, in_types, ret_type, name)`; `obj` = identity of `primitive`, `name` = the effective
  name (`primitive.__name__` when none is given) -/
  | prim (name : String) (obj : Nat) (args : List Nat) (ret : Nat)
  /-- `addTerminal(terminal, ret_type, name)`; `name` = the effective name (`terminal.__name__` for a callable without
  a name), `strText` / `reprText` = `str(terminal)` / `repr(terminal)` -/
  | term (name : Option String) (obj : Nat) (v : TVal) (strText reprText : String) (ret : Nat)
  /-- `addEphemeralConstant(name, ephemeral, ret_type)`; `func` = identity of `ephemeral` -/
  | eph (name : String) (func : Nat) (ret : Nat)
  /-- `addADF(adfset)`: name, `ins` and `ret` of the other set -/
  | adf (name : String) (ins : List Nat) (ret : Nat)
  /-- `renameArguments(**kargs)`; `kargs` as (old, new) pairs with distinct old names -/
  | rename (kargs : List (String × String))
  /-- `PrimitiveSet.addPrimitive(primitive, arity, name)` -/
  | uprim (name : String) (obj : Nat) (arity : Nat)
  /-- `PrimitiveSet.addTerminal(terminal, name)` -/
  | uterm (name : Option String) (obj : Nat) (v : TVal) (strText reprText : String)
  /-- `PrimitiveSet.addEphemeralConstant(name, ephemeral)` -/
  | ueph (name : String) (func : Nat)
  /-- a READ of `pset.primitives[τ]` / `pset.terminals[τ]` (what the generators and mutations do): the dictionaries
  are `defaultdict(list)`, so reading a missing key stores an empty list under it -/
  | touchP (τ : Nat)
  | touchT (τ : Nat)

/-- `name not in self.context or self.context[name] is primitive` fails (gp.py:396-400) -/
def ctxClash (ctx : List (String × Nat)) (name : String) (obj : Nat) : Bool :=
  match dictLook ctx name with
  | some o => o != obj
  | none => false

/-- gp.py:383-404 -/
def addPrimitive (sub : Nat → Nat → Bool) (st : PState) (name : String) (obj : Nat) (args : List Nat) (ret : Nat) :
    Option PState :=
  if ctxClash st.context name obj then none                                -- :396-400
  else
    let st1 := st.add sub ⟨name, ret, args, .prim, ""⟩                       -- :394, 402
    some { st1 with context := dictSet st1.context name obj                -- :403
                    primsCount := st1.primsCount + 1 }                     -- :404

/-- gp.py:406-438 -/
def addTerminal (sub : Nat → Nat → Bool) (st : PState) (name : Option String) (obj : Nat) (v : TVal)
    (strText reprText : String) (ret : Nat) : Option PState :=
  match name with
  | some n =>
    if (dictLook st.context n).isSome then none                           -- :424-427
    else
      -- :430-432, 436-437 `context[name] = terminal`, `Terminal(name, True, ret)`
      let st1 := ({ st with context := dictSet st.context n obj } : PState).add sub ⟨n, ret, [], .term, n⟩
      some { st1 with termsCount := st1.termsCount + 1 }                  -- :438
  | none =>
    -- `None not in self.context` holds; :433-435 `elif terminal in (True, False): context[str(terminal)] = terminal`
    let ctx := if v.boolLike then dictSet st.context strText obj else st.context
    -- `Terminal(terminal, False, ret)`
    let st1 := ({ st with context := ctx } : PState).add sub ⟨strText, ret, [], .term, reprText⟩
    some { st1 with termsCount := st1.termsCount + 1 }

/-- the class `addEphemeralConstant` registers (gp.py:450-459): a new one, or the one already in `mapping` under that
name provided it was made from the same function for the same type (anything else raises) -/
def ephClass (mapping : List (String × Prim)) (name : String) (func : Nat) (ret : Nat) : Option Prim :=
  match dictLook mapping name with
  | none => some ⟨name, ret, [], .eph, funcTag func⟩                       -- :451 `MetaEphemeral(name, ephemeral, ret_type)`
  | some q =>                                                              -- :453-459
    if q.kind = .eph ∧ q.text = funcTag func ∧ q.ret = ret then some q else none

/-- gp.py:440-462 -/
def addEphemeral (sub : Nat → Nat → Bool) (st : PState) (name : String) (func : Nat) (ret : Nat) : Option PState :=
  match ephClass st.mapping name func ret with
  | none => none
  | some c =>
    let st1 := st.add sub c                                                -- :461
    some { st1 with termsCount := st1.termsCount + 1 }                    -- :462

/-- gp.py:464-472 (no entry in `context`: `compileADF` binds the name later) -/
def addADF (sub : Nat → Nat → Bool) (st : PState) (name : String) (ins : List Nat) (ret : Nat) : PState :=
  let st := st.add sub ⟨name, ret, ins, .prim, ""⟩
  { st with primsCount := st.primsCount + 1 }

def dictPop {β : Type} (d : List (String × β)) (k : String) : Option (β × List (String × β)) :=
  match dictLook d k with
  | none => none
  | some v => some (v, d.filter (fun e => !(e.1 == k)))

/-- the first loop of `renameArguments` (gp.py:347-352): `(arguments so far, mapping, renamed)` -/
def renameLoop1 (kargs : List (String × String)) :
    List String → List (String × Prim) → Option (List String × List (String × Prim) × List (String × Prim))
  | [], m => some ([], m, [])
  | old :: rest, m =>
    match dictLook kargs old with
    | none =>
      match renameLoop1 kargs rest m with
      | none => none
      | some (as, m, rn) => some (old :: as, m, rn)
    | some new =>
      match dictPop m old with                                             -- `self.mapping.pop(old_name)`: KeyError
      | none => none
      | some (t, m) =>
        match renameLoop1 kargs rest m with
        | none => none
        | some (as, m, rn) => some (new :: as, m, (new, t) :: rn)

/-- `terminal.value = new_name` is an in-place change of the terminal OBJECT: every place that holds it sees it.
The model holds values: every occurrence equal to the old value is replaced (names identify the argument terminals). -/
def replaceNode (old new : Prim) (l : List Prim) : List Prim := l.map (fun x => if x = old then new else x)

def replaceInDict (old new : Prim) (d : List (Nat × List Prim)) : List (Nat × List Prim) :=
  d.map (fun e => (e.1, replaceNode old new e.2))

/-- the second loop (gp.py:353-355) -/
def renameLoop2 : List (String × Prim) → PState → PState
  | [], st => st
  | (new, t) :: rest, st =>
    let t' : Prim := { t with text := new }                                -- `terminal.value = new_name` (the name stays)
    let st := { st with
      dicts := ⟨replaceInDict t t' st.dicts.prims, replaceInDict t t' st.dicts.terms⟩
      mapping := dictSet (st.mapping.map (fun e => if e.2 = t then (e.1, t') else e)) new t'
      declPrims := replaceNode t t' st.declPrims
      declTerms := replaceNode t t' st.declTerms }
    renameLoop2 rest st

def renameArguments (st : PState) (kargs : List (String × String)) : Option PState :=
  match renameLoop1 kargs st.arguments st.mapping with
  | none => none
  | some (as, m, rn) => some (renameLoop2 rn { st with arguments := as, mapping := m })

def touch (d : List (Nat × List Prim)) (τ : Nat) : List (Nat × List Prim) :=
  if dictHas d τ then d else d ++ [(τ, [])]

/-- one declaration -/
def stepDecl (sub : Nat → Nat → Bool) (st : PState) : Decl → Option PState
  | .prim name obj args ret => addPrimitive sub st name obj args ret
  | .term name obj v s r ret => addTerminal sub st name obj v s r ret
  | .eph name func ret => addEphemeral sub st name func ret
  | .adf name ins ret => some (addADF sub st name ins ret)
  | .rename kargs => renameArguments st kargs
  | .uprim name obj arity =>
    if arity = 0 then none                                                 -- :496 `assert arity > 0`
    else addPrimitive sub st name obj (List.replicate arity objT) objT    -- :497-498
  | .uterm name obj v s r => addTerminal sub st name obj v s r objT        -- :502
  | .ueph name func => addEphemeral sub st name func objT                  -- :506
  | .touchP τ => some { st with dicts := ⟨touch st.dicts.prims τ, st.dicts.terms⟩ }
  | .touchT τ => some { st with dicts := ⟨st.dicts.prims, touch st.dicts.terms τ⟩ }

def runDecls (sub : Nat → Nat → Bool) : PState → List Decl → Option PState
  | st, [] => some st
  | st, d :: ds =>
    match stepDecl sub st d with
    | none => none
    | some st => runDecls sub st ds

/-- `pset.terminalRatio` (gp.py:475-480); `0 / float(0)` raises `ZeroDivisionError` -/
def PState.terminalRatio (st : PState) : Option Float :=
  if st.termsCount + st.primsCount = 0 then none
  else some (Float.ofNat st.termsCount / Float.ofNat (st.termsCount + st.primsCount))

/-- the view the generators and operators have of the set -/
def PState.toPset (sub : Nat → Nat → Bool) (ret : Nat) (st : PState) : Pset :=
  ⟨sub, dictGet st.dicts.prims, dictGet st.dicts.terms, ret, st.termsCount, st.primsCount⟩

/-- a declaration proper (no renaming, no read access) and the node it hands to `_add` -/
def Decl.node : Decl → Option Prim
  | .prim name _ args ret => some ⟨name, ret, args, .prim, ""⟩
  | .term (some n) _ _ _ _ ret => some ⟨n, ret, [], .term, n⟩
  | .term none _ _ s r ret => some ⟨s, ret, [], .term, r⟩
  | .eph name func ret => some ⟨name, ret, [], .eph, funcTag func⟩
  | .adf name ins ret => some ⟨name, ret, ins, .prim, ""⟩
  | .uprim name _ arity => some ⟨name, objT, List.replicate arity objT, .prim, ""⟩
  | .uterm (some n) _ _ _ _ => some ⟨n, objT, [], .term, n⟩
  | .uterm none _ _ s r => some ⟨s, objT, [], .term, r⟩
  | .ueph name func => some ⟨name, objT, [], .eph, funcTag func⟩
  | .rename _ => none
  | .touchP _ => none
  | .touchT _ => none

end GpTree
