/-
C20 — binary benchmarks and the `bin2float` decoding decorator (`deap/benchmarks/binary.py:19-142`).
Exact (`Nat`/`Int`/`Rat`).  Individuals are bit lists: the model type is `List Bool` (`true` = 1), which stands
for Python lists (or integer arrays) of the ints 0/1 — the only representation the source handles
(`int("".join(map(str, …)), 2)` rejects `True`/`1.0`).  Import-free.
-/
namespace BenchBin

/-- `sum(individual)` of a 0/1 list -/
def ones (b : List Bool) : Nat := b.count true

/-- `trap` (`binary.py:45-51`): k if u = k else k - 1 - u. -/
def trap (b : List Bool) : Int :=
  let u := ones b; let k := b.length
  if u = k then (k : Int) else (k : Int) - 1 - (u : Int)

/-- `inv_trap` (`:54-60`): k if u = 0 else u - 1. -/
def invTrap (b : List Bool) : Int :=
  let u := ones b; let k := b.length
  if u = 0 then (k : Int) else (u : Int) - 1

/-- `range(start, stop, step)` for `step ≥ 1` and non-negative bounds -/
def rangeStep (start stop step : Nat) : List Nat :=
  (List.range ((stop - start + step - 1) / step)).map fun j => start + j * step

/-- `individual[i:i+w]` -/
def slice (l : List Bool) (i w : Nat) : List Bool := (l.drop i).take w

def isum (l : List Int) : Int := l.foldl (· + ·) 0

/-- `chuang_f1` (`:63-78`): last bit selects `inv_trap` (0) or `trap` (1) on the 4-bit blocks starting
at `range(0, len-1, 4)`; `individual[-1]` needs a non-empty individual. -/
def chuangF1 (x : List Bool) : Option Int :=
  match x.getLast? with
  | none => none
  | some last =>
    let starts := rangeStep 0 (x.length - 1) 4
    some (isum (starts.map fun i => if last = false then invTrap (slice x i 4) else trap (slice x i 4)))

/-- `chuang_f2` (`:81-102`): the last two bits select the pair of functions used on each 8-bit block. -/
def chuangF2 (x : List Bool) : Option Int :=
  if x.length < 2 then none else
    let b2 := x.getD (x.length - 2) false
    let b1 := x.getD (x.length - 1) false
    let starts := rangeStep 0 (x.length - 2) 8
    let f := fun (sel : Bool) (blk : List Bool) => if sel = false then invTrap blk else trap blk
    some (isum (starts.map fun i => f b2 (slice x i 4) + f b1 (slice x (i + 4) 4)))

/-- `chuang_f3` (`:105-121`): last bit 0 → `inv_trap` on blocks at `range(0, len-1, 4)`; otherwise
`inv_trap` on blocks at `range(2, len-3, 4)` plus `trap(individual[-2:] + individual[:2])`. -/
def chuangF3 (x : List Bool) : Option Int :=
  match x.getLast? with
  | none => none
  | some last =>
    if last = false then
      some (isum ((rangeStep 0 (x.length - 1) 4).map fun i => invTrap (slice x i 4)))
    else
      some (isum ((rangeStep 2 (x.length - 3) 4).map fun i => invTrap (slice x i 4))
            + trap (x.drop (x.length - 2) ++ x.take 2))

/-- `int("".join(map(str, bits)), 2)` (most significant bit first) -/
def binVal (b : List Bool) : Nat := b.foldl (fun acc bit => 2 * acc + bit.toNat) 0

/-- `royal_road1` (`:124-134`): Σ over the `len // order` blocks of `order * (value // (2^order - 1))`
(integer quotient since fix F17); `order = 0` divides by zero. -/
def royalRoad1 (x : List Bool) (order : Nat) : Option Nat :=
  if order = 0 then none else
    let maxv := 2 ^ order - 1
    some (((List.range (x.length / order)).map fun i =>
      order * (binVal (slice x (i * order) order) / maxv)).foldl (· + ·) 0)

/-- the `while norder < order**2` loop of `royal_road2` (`:137-146`); `fuel` bounds the number of
doublings (order² suffices). -/
def royalRoad2Loop (x : List Bool) (order : Nat) : Nat → Nat → Nat → Option Nat
  | 0, _, total => some total
  | fuel + 1, norder, total =>
    if norder < order * order then
      match royalRoad1 x norder with
      | none => none
      | some v => royalRoad2Loop x order fuel (norder * 2) (total + v)
    else some total

def royalRoad2 (x : List Bool) (order : Nat) : Option Nat :=
  royalRoad2Loop x order (order * order + 1) order 0

/-- the decoding of `bin2float(min_, max_, nbits)` (`:19-42`): the list handed to the wrapped
function, `min_ + gene/(2^nbits - 1) · (max_ - min_)` per `nbits`-bit block; `nbits = 0` divides by
zero. -/
def bin2float (mn mx : Rat) (nbits : Nat) (x : List Bool) : Option (List Rat) :=
  if nbits = 0 then none else
    some ((List.range (x.length / nbits)).map fun i =>
      let gene := binVal (slice x (i * nbits) nbits)
      let div : Nat := 2 ^ nbits - 1
      let temp : Rat := (gene : Rat) / (div : Rat)
      mn + temp * (mx - mn))

end BenchBin
