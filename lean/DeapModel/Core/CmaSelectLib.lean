/-
`StrategyMultiObjective._select` (cma.py:433-472) COMPOSED with the library components it calls
(C14, exact regime):

* the ranking is the C04 model of `tools.sortLogNondominated(candidates, len(candidates))`
  (`NDSort.sortLog`, Core/NDSort.lean), not a parameter;
* the indicator is the C15 model of `tools.indicator.hypervolume(front, ref=ref)`
  (`Hypervolume.leastContributor`, Core/Hypervolume.lean), not a parameter;
* the loop over the fronts and the least-contributor loop are `MO.selectFronts`
  (Core/CmaElitist.lean), instantiated with these two.

Scalars are exact (`Rat`): the harness feeds fitnesses whose double arithmetic is exact.
A candidate is `NDSort.Ind Rat`: its identity (`id` = position in `population + parents`) and
`ind.fitness.wvalues`; both library functions read nothing else of an individual.

Core Lean only (linked into the driver).
-/
import DeapModel.Core.CmaElitist
import DeapModel.Core.NDSort
import DeapModel.Core.Hypervolume

namespace CmaElitist.MOLib
open NDSort Hypervolume

/-- A candidate of `_select`: object identity and `fitness.wvalues`. -/
abbrev Cand := NDSort.Ind Rat

/-- `numpy.array([ind.fitness.wvalues for ind in l]) * -1` (cma.py:463, indicator.py:18): the
points handed to the hypervolume code (implicit minimisation). -/
def negW (l : List Cand) : List Pt := l.map (fun c => c.w.map (fun x => x * (-1)))

/-- cma.py:463-464: `ref = numpy.max(wvalues * -1, axis=0) + 1` over ALL candidates. -/
def refPoint (cands : List Cand) : List Rat := defaultRef (negW cands)

/-- `self.indicator(mid_front, ref=ref)` with the default `indicator = tools.hypervolume`
(cma.py:395, 467; indicator.py:11-32).  `indicator.py` reads `ind.fitness.wvalues`; the C15 model
computes them as `values * weights`, so it is called with the weighted values as values and unit
weights (`nobj` = number of objectives). -/
def indicator (nobj : Nat) (ref : List Rat) (front : List Cand) : Nat :=
  leastContributor (List.replicate nobj 1) (front.map (fun c => c.w)) (some ref)

/-- `StrategyMultiObjective._select(candidates)` with `mu`, for fitnesses of `nobj` objectives.
`none` = an exception (empty candidate list handed to the sort with `mu = 0` can not happen:
`len(candidates) <= mu` returns first). -/
def select (mu nobj : Nat) (cands : List Cand) : Option (List Cand × List Cand) :=
  if cands.length ≤ mu then some (cands, [])                                   -- :434-435
  else
    match sortLog cands cands.length with                                       -- :437
    | none => none
    | some fronts => MO.selectFronts mu fronts (indicator nobj (refPoint cands)) cands   -- :439-472

/-- The candidates of one call: `population + self.parents` with ids = positions. -/
def mkCands (ws : List (List Rat)) : List Cand := (List.zipIdx ws).map (fun p => ⟨p.2, p.1⟩)

end CmaElitist.MOLib
