/-
Mutable sequence buffers with two slice disciplines (C09).  Import-free (core Lean only).

The individuals DEAP's operators work on are Python sequence OBJECTS: `list`, `array.array`,
`numpy.ndarray` (or `creator` classes derived from them).  `Core/CrossMut.lean` models an
individual as the `List` of its genes, which is right as long as a slice `x[i:j]` is a fresh
object.  That is the case for `list` and `array.array`; for `numpy.ndarray` a slice is a *view*:
a window onto the storage of `x` that sees every later write to `x`.  This file makes the
difference explicit so that it can be reasoned about:

* a `Heap` maps buffer ids to their current contents (the storage);
* a sequence *object* (`Obj`) is a buffer itself or a window `(base id, offset, length, reversed)`
  onto a buffer;
* the slice discipline `Disc` says what `x[i:j]` / `x[::-1]` create:
  `copy` (list, array.array): a fresh buffer holding the selected items *now*;
  `view` (numpy): a window onto the same storage, read only when it is used;
* slice assignment `x[i:j] = v` reads `v` AT ASSIGNMENT TIME (through the window if `v` is one).
  `copy`: the segment is replaced, the buffer may change its length.  `view`: the lengths must agree
  or `v` has length one (numpy broadcasting), otherwise `ValueError`; a numpy buffer never changes its
  length.  numpy (>= 1.13) guarantees that an assignment whose right-hand side overlaps the target
  behaves as if the right-hand side had been copied first, so the whole right-hand side is read
  before the first item is written;
* item access `x[i]` / `x[i] = v` is the same for every backing (a one-dimensional numpy array
  hands out scalars, which are values, not views): these primitives do not take the discipline;
* a statement sequence is a computation in the monad `M`: it threads the heap and stops at the
  first raised exception, *keeping* the heap as the exception left it (what the caller of the real
  operator sees after a `ValueError`).  Python's tuple assignment `t1, t2 = e1, e2` is written out in
  its evaluation order: `e1`, `e2` (left to right), then the store to `t1`, then the store to `t2`.
-/
namespace Buffer

variable {α β : Type}

/-- the slice discipline of a backing type -/
inductive Disc where
  | copy    -- list, array.array
  | view    -- numpy.ndarray
deriving DecidableEq, Repr

/-- the exceptions the modelled statements can raise; `tape` = the draws handed in are not values the
`random` functions can return (not a Python exception: the run is rejected) -/
inductive Err where
  | index   -- IndexError
  | value   -- ValueError
  | tape
deriving DecidableEq, Repr

/-- a sequence object: a buffer, or a window onto the storage of buffer `id`: the `len` items from
position `off` on, read backwards when `rev` (what `x[a:b][::-1]` denotes for a numpy array) -/
inductive Obj where
  | buf (id : Nat)
  | win (id off len : Nat) (rev : Bool)
deriving DecidableEq, Repr

/-- storage: contents of every buffer, and the next unused id -/
structure Heap (α : Type) where
  cell : Nat → List α
  next : Nat

def Heap.write (h : Heap α) (id : Nat) (v : List α) : Heap α :=
  { cell := fun o => if o = id then v else h.cell o, next := h.next }

/-- a fresh buffer holding `v`; its id is `h.next` -/
def Heap.alloc (h : Heap α) (v : List α) : Heap α :=
  { cell := fun o => if o = h.next then v else h.cell o, next := h.next + 1 }

/-- the items a window selects from the contents `l` of its base buffer -/
def window (l : List α) (off len : Nat) (rev : Bool) : List α :=
  if rev then ((l.drop off).take len).reverse else (l.drop off).take len

/-- the items an object denotes in heap `h` (read through the window, if it is one) -/
def Heap.read (h : Heap α) : Obj → List α
  | .buf id => h.cell id
  | .win id off len rev => window (h.cell id) off len rev

/-- result of running a statement sequence: normal completion with a value, or an exception; the
heap is kept in both cases -/
inductive Res (σ β : Type) where
  | ok (v : β) (s : σ)
  | raise (e : Err) (s : σ)

/-- statement sequences over a heap of `α`-buffers -/
def M (α β : Type) : Type := Heap α → Res (Heap α) β

instance : Monad (M α) where
  pure v := fun h => .ok v h
  bind m f := fun h =>
    match m h with
    | .ok v h' => f v h'
    | .raise e h' => .raise e h'

def raise (e : Err) : M α β := fun h => .raise e h

/-- `for i in l: s = body(s, i)` -/
def forFold {ι σ : Type} : List ι → σ → (σ → ι → M α σ) → M α σ
  | [], s, _ => pure s
  | i :: is, s, body => do
    let s' ← body s i
    forFold is s' body

/-- `for i in l: body(i)` -/
@[reducible] def forEach {ι : Type} (l : List ι) (body : ι → M α Unit) : M α Unit :=
  forFold l () (fun _ i => body i)

/-! ### item access (the same for every backing) -/

/-- `len(x)` -/
def len (id : Nat) : M α Nat := fun h => .ok (h.cell id).length h

/-- `x[i]` for `0 ≤ i` -/
def getItem (id i : Nat) : M α α := fun h =>
  match (h.cell id)[i]? with
  | some x => .ok x h
  | none => .raise .index h

/-- `x[i] = v` for `0 ≤ i` -/
def setItem (id i : Nat) (v : α) : M α Unit := fun h =>
  if i < (h.cell id).length then .ok () (h.write id ((h.cell id).set i v)) else .raise .index h

/-- `t[i]` on a local Python list (position / hole tables: never sliced, never a numpy array) -/
def tabGet {γ : Type} (t : List γ) (i : Nat) : M α γ := fun h =>
  match t[i]? with
  | some x => .ok x h
  | none => .raise .index h

/-- `t[i] = v` on a local Python list: the list afterwards -/
def tabSet {γ : Type} (t : List γ) (i : Nat) (v : γ) : M α (List γ) := fun h =>
  if i < t.length then .ok (t.set i v) h else .raise .index h

/-! ### slices -/

/-- `l[a:b]` (`b = none`: `l[a:]`) for non-negative bounds, as a list of items -/
def pySliceO (l : List α) (a : Nat) : Option Nat → List α
  | none => l.drop a
  | some b => (l.take b).drop a

/-- start and length of the slice `[a:b]` of a sequence of length `n` (Python clamps both bounds) -/
def clampSlice (n a : Nat) (b : Option Nat) : Nat × Nat :=
  let stop := match b with
    | none => n
    | some b => min b n
  (min a n, stop - min a n)

/-- the window `o[a:b]` denotes under the `view` discipline -/
def viewSlice (h : Heap α) (o : Obj) (a : Nat) (b : Option Nat) : Obj :=
  match o with
  | .buf id =>
    let c := clampSlice (h.cell id).length a b
    .win id c.1 c.2 false
  | .win id off n rev =>
    let c := clampSlice n a b
    if rev then .win id (off + (n - c.1 - c.2)) c.2 true else .win id (off + c.1) c.2 false

/-- the expression `o[a:b]` -/
def slice (d : Disc) (o : Obj) (a : Nat) (b : Option Nat) : M α Obj := fun h =>
  match d with
  | .copy => .ok (.buf h.next) (h.alloc (pySliceO (h.read o) a b))
  | .view => .ok (viewSlice h o a b) h

/-- the expression `o[::-1]` -/
def rev (d : Disc) (o : Obj) : M α Obj := fun h =>
  match d with
  | .copy => .ok (.buf h.next) (h.alloc (h.read o).reverse)
  | .view =>
    match o with
    | .buf id => .ok (.win id 0 (h.cell id).length true) h
    | .win id off n r => .ok (.win id off n (!r)) h

/-- the statement `x[a:b] = src` on the buffer `x = id` -/
def sliceAssign (d : Disc) (id a : Nat) (b : Option Nat) (src : Obj) : M α Unit := fun h =>
  let cur := h.cell id
  let v := h.read src
  match d with
  | .copy => .ok () (h.write id (cur.take a ++ v ++ cur.drop (max a (b.getD cur.length))))
  | .view =>
    let c := clampSlice cur.length a b
    if v.length = c.2 then .ok () (h.write id (cur.take c.1 ++ v ++ cur.drop (c.1 + c.2)))
    else
      match v with
      | [x] => .ok () (h.write id (cur.take c.1 ++ List.replicate c.2 x ++ cur.drop (c.1 + c.2)))
      | _ => .raise .value h

/-! ### running on the arguments -/

/-- the heap holding two argument objects as buffers 0 and 1 -/
def heap2 (l1 l2 : List α) : Heap α :=
  { cell := fun o => if o = 0 then l1 else if o = 1 then l2 else [], next := 2 }

/-- the heap holding one argument object as buffer 0 -/
def heap1 (l : List α) : Heap α :=
  { cell := fun o => if o = 0 then l else [], next := 1 }

/-- contents of the two argument objects after a two-parent operator returned; `none` = it raised -/
def run2 (m : M α β) (l1 l2 : List α) : Option (List α × List α) :=
  match m (heap2 l1 l2) with
  | .ok _ h => some (h.cell 0, h.cell 1)
  | .raise _ _ => none

/-- contents of the argument object after a mutation returned; `none` = it raised -/
def run1 (m : M α β) (l : List α) : Option (List α) :=
  match m (heap1 l) with
  | .ok _ h => some (h.cell 0)
  | .raise _ _ => none

end Buffer
