/-
C10 — the prelude of the C10 TRANSLATOR (`harness/py2lean_c10.py`): the Lean meaning of the imperative constructs
the translated real-coded operators use.  The definitions `Gen.<f>` regenerated from `/repo`'s source are written
against these helpers, `RealLike α` (`Core/Scalar.lean`: `pmin` / `pmax` = Python's two-argument `min` / `max`) and
the tape / outcome interface of the hand-written model (`RealOps.pop`, `RealOps.Outcome`, `RealOps.Bound` of
`Core/RealOps.lean` — only these three declarations of the model are used).  Together with the rendering rules in the
docstring of `harness/py2lean_c10.py` this file is the translator's trusted base.  Import-free (core Lean only).

A Python statement sequence is rendered in state-passing style inside the exception monad `RealOps.Outcome`:
`.ok v` = evaluation went on with `v`, `.indexError` = `IndexError` was raised, `.badTape` = the tape of recorded
`random.random()` / `random.gauss` results was exhausted (not a Python behaviour: the run is not described by the tape).
-/
import DeapModel.Core.RealOps

namespace Gen10
open RealOps

variable {α β γ ι σ : Type}

/-- sequencing: an exception leaves at once -/
def bind (x : Outcome β) (f : β → Outcome γ) : Outcome γ :=
  match x with
  | .ok b => f b
  | .indexError => .indexError
  | .zeroDivision => .zeroDivision
  | .badTape => .badTape

/-- `random.random()` / `random.gauss(..)`: the next recorded result of the tape and the rest of the tape -/
def draw (tape : List α) : Outcome (α × List α) :=
  match pop tape with
  | none => .badTape
  | some p => .ok p

/-- `l[i]` for an index `i >= 0`: `IndexError` beyond the end -/
def getItem (l : List β) (i : Nat) : Outcome β :=
  match l[i]? with
  | some v => .ok v
  | none => .indexError

/-- `l[i] = v` for an index `i >= 0` on a list: the new contents; `IndexError` beyond the end -/
def setItem (l : List β) (i : Nat) (v : β) : Outcome (List β) :=
  if i < l.length then .ok (l.set i v) else .indexError

/-- `for x in items: body` with the loop-carried state `st`; an exception of the body leaves the loop -/
def forM (items : List ι) (st : σ) (body : ι → σ → Outcome σ) : Outcome σ :=
  match items with
  | [] => .ok st
  | x :: t =>
    match body x st with
    | .ok st' => forM t st' body
    | .indexError => .indexError
    | .zeroDivision => .zeroDivision
    | .badTape => .badTape

/-- `enumerate(l, k)` with natural indices -/
def enumFrom : Nat → List β → List (Nat × β)
  | _, [] => []
  | k, a :: t => (k, a) :: enumFrom (k + 1) t

/-- `enumerate(l)` -/
def enumerate (l : List β) : List (Nat × β) := enumFrom 0 l

end Gen10
