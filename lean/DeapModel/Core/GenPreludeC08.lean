/-
Prelude of the C08 translator tie (harness/py2lean_c08.py): the Python notions the regenerated definitions
`Gen08.*` of `deap/tools/support.py` (HallOfFame / ParetoFront) are written in.  TRUSTED BASE together with the
docstring of py2lean_c08.py.  No Mathlib import (only the model's record types of Core/Archive.lean).

  exceptions          a definition whose Python body can raise returns `Option`; `none` = an exception left the call.
  integers            Python ints are `Int`; `len(..)`, `enumerate` indices, `bisect_right` results and the capacity are
                      `Nat` embedded with `Int.ofNat`.
  a % b               `pyMod`: `none` (ZeroDivisionError) for `b = 0`, else the FLOOR modulo `Int.fmod` (sign of `b`).
  l[i] / del l[i]     `getItem` / `delItem`: a negative index counts from the end, out of range = `none` (IndexError).
  l.insert(i, x)      `listInsert`: CPython's clamping (`i < 0` -> `i + len`, still `< 0` -> `0`; `i > len` -> `len`).
  enumerate(l)        `enumerate l` = pairs (position, element) from 0.
  for x in l: body    `forLoop body l s`: `s` = the values of the variables the body assigns (a tuple in order of first
  [else: ...]         assignment in the function); the body answers `Ctl.next s'` (fell through or `continue`),
                      `Ctl.brk s'` (`break`) or `none` (raised).  The result carries the flag "left by break" — the
                      `else` clause of the loop runs iff it is `false`.  The sequence is evaluated once; the renderer
                      refuses a loop whose body mutates the object it iterates over.
-/
import DeapModel.Core.Archive

namespace G8

inductive Ctl (σ : Type) where
  | next (s : σ)
  | brk (s : σ)

def forLoop {β σ : Type} (body : σ → β → Option (Ctl σ)) : List β → σ → Option (σ × Bool)
  | [], s => some (s, false)
  | x :: xs, s =>
    match body s x with
    | none => none
    | some (Ctl.next s') => forLoop body xs s'
    | some (Ctl.brk s') => some (s', true)

def pyMod (a b : Int) : Option Int := if b = 0 then none else some (Int.fmod a b)

def normIdx (len : Nat) (i : Int) : Option Nat :=
  if 0 ≤ i then (if i < Int.ofNat len then some i.toNat else none)
  else (if -(Int.ofNat len) ≤ i then some (i + Int.ofNat len).toNat else none)

def getItem {β : Type} (l : List β) (i : Int) : Option β :=
  match normIdx l.length i with
  | none => none
  | some j => l[j]?

def delItem {β : Type} (l : List β) (i : Int) : Option (List β) :=
  match normIdx l.length i with
  | none => none
  | some j => some (l.take j ++ l.drop (j + 1))

def clampIdx (len : Nat) (i : Int) : Nat :=
  if i < 0 then (if i + Int.ofNat len < 0 then 0 else (i + Int.ofNat len).toNat)
  else (if i > Int.ofNat len then len else i.toNat)

def listInsert {β : Type} (l : List β) (i : Int) (x : β) : List β :=
  l.take (clampIdx l.length i) ++ x :: l.drop (clampIdx l.length i)

def enumFrom {β : Type} : Nat → List β → List (Nat × β)
  | _, [] => []
  | i, x :: xs => (i, x) :: enumFrom (i + 1) xs

def enumerate {β : Type} (l : List β) : List (Nat × β) := enumFrom 0 l

end G8
