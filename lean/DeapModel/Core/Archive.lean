/-
Model of `deap/tools/support.py` `HallOfFame` (lines 492-590) and `ParetoFront` (593-642) (C08).

The archive is exactly the code's two parallel lists: `keys` (fitnesses, ascending, maintained
with `bisect_right`) and `items` (individuals, best first).  Individuals carry an object id, a
genome and a fitness; `insert` deep-copies, i.e. stores a new object whose id is taken from the
archive's allocation counter `next`.  The similarity operator is a parameter.  A Python exception
(`IndexError` of `self[-1]` / `del items[index]`, `ZeroDivisionError` of `index % len(self)`)
is the result `none`.

Generic in the scalar type; the driver instantiates it at `Rat`, the theorems are proved for
every linear order.  Import-free (core Lean only).
-/
import DeapModel.Core.Py
import DeapModel.Core.Fitness

namespace Archive
open Fitness

variable {G α : Type} [LT α] [LE α] [DecidableEq α] [DecidableLT α] [DecidableLE α]

/-- An individual as the archive sees it: an object (identity `oid`) with a genome and a
`fitness` attribute. -/
structure Ind (G α : Type) where
  oid : Nat
  genome : G
  fit : Fit α

/-- `a < b` on fitness objects is `Fitness.__lt__` — what `bisect_right(self.keys, item.fitness)`
evaluates. -/
scoped instance fitLT : LT (Fit α) := ⟨fun a b => Fitness.lt a b = true⟩
scoped instance fitDecLT : DecidableLT (Fit α) :=
  fun a b => inferInstanceAs (Decidable (Fitness.lt a b = true))

/-- State of a `HallOfFame` object (support.py:513-517) plus the allocation counter that hands
out the identities of the deep copies.  `ParetoFront.__init__` (611-612) passes `maxsize=None`,
which `ParetoFront.update`, `insert`, `remove`, `clear` never read; it is modelled as `0`. -/
structure HoF (G α : Type) where
  maxsize : Nat
  keys : List (Fit α)
  items : List (Ind G α)
  next : Nat

/-- `HallOfFame(maxsize, similar)`; `base` = first identity the copies will get. -/
def empty (maxsize base : Nat) : HoF G α := ⟨maxsize, [], [], base⟩

/-- `deepcopy(item)` (support.py:559): a new object with the same genome and a copy of the fitness. -/
def copyInd (fresh : Nat) (item : Ind G α) : Ind G α := ⟨fresh, item.genome, deepcopy item.fit⟩

/-- The loop of `bisect.bisect_right(a, x)` as CPython runs it (Lib/bisect.py:34-39, the same loop
in `_bisectmodule.c`): binary search with `x < a[mid]` as the only comparison.
```
while lo < hi:
    mid = (lo + hi) // 2
    if x < a[mid]: hi = mid
    else: lo = mid + 1
return lo
```
`fuel` bounds the number of iterations (`hi - lo + 1` suffices; `mid < hi ≤ len(a)`, so the
`none` branch is unreachable). -/
def bisectLoop (a : List (Fit α)) (x : Fit α) : Nat → Nat → Nat → Nat
  | 0, lo, _ => lo
  | fuel + 1, lo, hi =>
    if lo < hi then
      let mid := (lo + hi) / 2
      match a[mid]? with
      | some y => if x < y then bisectLoop a x fuel lo mid else bisectLoop a x fuel (mid + 1) hi
      | none => lo
    else lo

/-- `bisect_right(self.keys, item.fitness)` with the defaults `lo=0, hi=len(a)`.  On an ascending
list it is the position found by the linear scan `Py.bisectRight` (`C08L.bisectRight_eq`). -/
def bisectRight (a : List (Fit α)) (x : Fit α) : Nat := bisectLoop a x (a.length + 1) 0 a.length

/-- `insert` (support.py:559-562).
```
item = deepcopy(item)
i = bisect_right(self.keys, item.fitness)
self.items.insert(len(self) - i, item)
self.keys.insert(i, item.fitness)
```
`len(self)` is `len(self.items)` (577-578).  `i ≤ len(self.keys)`, and `len(self.keys) = len(self.items)`
in every reachable state (theorem `C08.mirror`), so the natural-number subtraction never truncates. -/
def insert (h : HoF G α) (item : Ind G α) : HoF G α :=
  let c := copyInd h.next item
  let i := bisectRight h.keys c.fit
  { h with items := Py.insertAt h.items (h.items.length - i) c
           keys := Py.insertAt h.keys i c.fit
           next := h.next + 1 }

/-- Resolve a Python list index for `del l[index]`: negative indices count from the end;
`none` = `IndexError`. -/
def pyIndex (len : Nat) (index : Int) : Option Nat :=
  if 0 ≤ index then (if index < len then some index.toNat else none)
  else (if -(len : Int) ≤ index then some (index + len).toNat else none)

/-- `remove` (support.py:569-570).
```
del self.keys[len(self) - (index % len(self) + 1)]
del self.items[index]
```
`index % len(self)` raises for an empty archive; for `len > 0` Python's `%` is `Int.emod`, so the
key position is in range; `del self.items[index]` raises for an out-of-range index. -/
def remove (h : HoF G α) (index : Int) : Option (HoF G α) :=
  let len := h.items.length
  if len = 0 then none else
  let k := len - ((index % (len : Int)).toNat + 1)
  match pyIndex len index with
  | none => none
  | some j => some { h with keys := Py.removeAt h.keys k, items := Py.removeAt h.items j }

/-- `clear` (support.py:574-575). -/
def clear (h : HoF G α) : HoF G α := { h with items := [], keys := [] }

/-- One iteration of the loop of `HallOfFame.update` (support.py:528-545); `pop0` is `population[0]`.
```
if len(self) == 0 and self.maxsize != 0:
    self.insert(population[0]); continue
if ind.fitness > self[-1].fitness or len(self) < self.maxsize:
    for hofer in self:
        if self.similar(ind, hofer): break
    else:
        if len(self) >= self.maxsize: self.remove(-1)
        self.insert(ind)
```
`self[-1]` on an empty archive (only possible for `maxsize = 0`) is an `IndexError`. -/
def step (sim : Ind G α → Ind G α → Bool) (pop0 : Ind G α) (h : HoF G α) (ind : Ind G α) :
    Option (HoF G α) :=
  if h.items.length = 0 ∧ h.maxsize ≠ 0 then some (insert h pop0)
  else match h.items.getLast? with
    | none => none
    | some worst =>
      if Fitness.gt ind.fit worst.fit || decide (h.items.length < h.maxsize) then
        if h.items.any (fun hofer => sim ind hofer) then some h
        else if h.items.length ≥ h.maxsize then
          match remove h (-1) with
          | none => none
          | some h' => some (insert h' ind)
        else some (insert h ind)
      else some h

/-- The `for ind in population` loop. -/
def updateLoop (sim : Ind G α → Ind G α → Bool) (pop0 : Ind G α) :
    HoF G α → List (Ind G α) → Option (HoF G α)
  | h, [] => some h
  | h, ind :: rest =>
    match step sim pop0 h ind with
    | none => none
    | some h' => updateLoop sim pop0 h' rest

/-- `HallOfFame.update(population)` (support.py:519-545). -/
def update (sim : Ind G α → Ind G α → Bool) (h : HoF G α) (population : List (Ind G α)) :
    Option (HoF G α) :=
  match population with
  | [] => some h
  | p0 :: _ => updateLoop sim p0 h population

/-- A history of `update` calls on one archive. -/
def run (sim : Ind G α → Ind G α → Bool) : HoF G α → List (List (Ind G α)) → Option (HoF G α)
  | h, [] => some h
  | h, b :: bs =>
    match update sim h b with
    | none => none
    | some h' => run sim h' bs

/-! ### ParetoFront -/

/-- `a.dominates(b)` with the default `obj=slice(None)` (base.py:206-223). -/
def dom (a b : Fit α) : Bool :=
  Fitness.dominates a b (List.range a.wvalues.length) (List.range b.wvalues.length)

/-- The local variables of one iteration of `ParetoFront.update` (support.py:624-627). -/
structure Scan where
  isDominated : Bool := false
  dominatesOne : Bool := false
  hasTwin : Bool := false
  toRemove : List Nat := []

/-- The scan `for i, hofer in enumerate(self)` (support.py:628-637); `i` is the index of the head
of the list still to be visited; returning without recursion is `break`.
```
if not dominates_one and hofer.fitness.dominates(ind.fitness):
    is_dominated = True; break
elif ind.fitness.dominates(hofer.fitness):
    dominates_one = True; to_remove.append(i)
elif ind.fitness == hofer.fitness and self.similar(ind, hofer):
    has_twin = True; break
``` -/
def scan (sim : Ind G α → Ind G α → Bool) (ind : Ind G α) : List (Ind G α) → Nat → Scan → Scan
  | [], _, s => s
  | hofer :: rest, i, s =>
    if !s.dominatesOne && dom hofer.fit ind.fit then { s with isDominated := true }
    else if dom ind.fit hofer.fit then
      scan sim ind rest (i + 1) { s with dominatesOne := true, toRemove := s.toRemove ++ [i] }
    else if Fitness.eq ind.fit hofer.fit && sim ind hofer then { s with hasTwin := true }
    else scan sim ind rest (i + 1) s

/-- `for i in <indices>: self.remove(i)` (support.py:639-640; the caller passes `reversed(to_remove)`). -/
def removeAll : HoF G α → List Nat → Option (HoF G α)
  | h, [] => some h
  | h, i :: is =>
    match remove h (i : Int) with
    | none => none
    | some h' => removeAll h' is

/-- One iteration of the loop of `ParetoFront.update` (support.py:623-642). -/
def pfStep (sim : Ind G α → Ind G α → Bool) (h : HoF G α) (ind : Ind G α) : Option (HoF G α) :=
  let s := scan sim ind h.items 0 {}
  match removeAll h s.toRemove.reverse with
  | none => none
  | some h' => some (if !s.isDominated && !s.hasTwin then insert h' ind else h')

/-- `ParetoFront.update(population)`. -/
def pfUpdate (sim : Ind G α → Ind G α → Bool) : HoF G α → List (Ind G α) → Option (HoF G α)
  | h, [] => some h
  | h, ind :: rest =>
    match pfStep sim h ind with
    | none => none
    | some h' => pfUpdate sim h' rest

/-- A history of `update` calls on one Pareto archive. -/
def pfRun (sim : Ind G α → Ind G α → Bool) : HoF G α → List (List (Ind G α)) → Option (HoF G α)
  | h, [] => some h
  | h, b :: bs =>
    match pfUpdate sim h b with
    | none => none
    | some h' => pfRun sim h' bs

end Archive
