/-
Python semantics shared by several models.  Import-free (core Lean only) so that the
protocol driver links as a compiled executable.

Everything here is *executable*; the laws are proved in `DeapModel/Lemmas/PyLemmas.lean`.
-/
namespace Py

variable {α : Type} [LT α] [LE α] [DecidableEq α] [DecidableLT α] [DecidableLE α]

/-- Python `tuple.__lt__`: the first position at which the elements are not `==` decides
(with the element `<`); if there is none, the shorter tuple is the smaller one. -/
def tupleLt : List α → List α → Bool
  | [], [] => false
  | [], _ :: _ => true
  | _ :: _, [] => false
  | a :: as, b :: bs => if a = b then tupleLt as bs else decide (a < b)

/-- Python `tuple.__le__` (element `<=` at the first differing position). -/
def tupleLe : List α → List α → Bool
  | [], _ => true
  | _ :: _, [] => false
  | a :: as, b :: bs => if a = b then tupleLe as bs else decide (a ≤ b)

/-- Python `tuple.__eq__`. -/
def tupleEq (a b : List α) : Bool := decide (a = b)

/-- `seq[i] for i in idx`, where `idx` is the index list `range(*slice.indices(len(seq)))`
computed by Python itself; out-of-range indices cannot occur there and are skipped. -/
def slice {β : Type} (idx : List Nat) (l : List β) : List β := idx.filterMap (fun i => l[i]?)

/-- `bisect.bisect_right(a, x)` on a list sorted ascending: the insertion point after any
existing entries equal to `x`; linear scan form (the result is the same as the binary
search on sorted input — proved in `Lemmas`). -/
def bisectRight (a : List α) (x : α) : Nat :=
  match a with
  | [] => 0
  | y :: ys => if x < y then 0 else bisectRight ys x + 1

/-- Insert at position `i` like `list.insert(i, x)` for `0 ≤ i` (positions past the end append). -/
def insertAt {β : Type} (l : List β) (i : Nat) (x : β) : List β := l.take i ++ x :: l.drop i

/-- `del l[i]` for an in-range index. -/
def removeAt {β : Type} (l : List β) (i : Nat) : List β := l.take i ++ l.drop (i + 1)

end Py
