/-
Object-heap model for C16 (created types clone and pickle faithfully and independently).
Import-free and executable.  Transcribed from

* `deap/creator.py:52-93`   `_numpy_array` / `_array` (`__deepcopy__`, `__reduce__`, `__reduce_ex__`)
* `deap/creator.py:99-140`  `MetaCreator` (`dict_inst` / `dict_cls`, `init_type`), `meta_create`
* `deap/base.py:52-122`     `Toolbox.register` / `decorate` (built on `functools.partial`)
* `deap/base.py:252-261`    `Fitness.__deepcopy__`; `base.py:367-370` `ConstrainedFitness.__deepcopy__`
* `deap/gp.py:60-63`        `PrimitiveTree.__deepcopy__`
* CPython `copy.deepcopy` / `copy._reconstruct` and `pickle` (`__reduce_ex__` → callable, args,
  state, list items) as the *assumed* dispatcher of those hooks.

Objects live in a heap `oid ↦ Obj`; a value is an immutable atom or a reference.  Python `id`
is the oid.  Everything immutable and leaf-like (numbers, strings, `None`, tuples of those) is an
atom; GP node objects (`gp.Primitive`, `gp.Terminal`, ephemerals) are heap objects with
`mutable = false`.
-/
namespace Heap

abbrev Oid := Nat
abbrev Name := Nat
abbrev ClsId := Nat

inductive Val where
  | atom (a : Int)
  | ref (o : Oid)
deriving DecidableEq, Repr

/-- One heap object.  `items` = the content of the base container (list items, array/ndarray
buffer, set elements, dict `k₁,v₁,k₂,v₂,…`, a fitness' `wvalues`, a tree's node objects);
`attrs` = the instance `__dict__` (for a fitness: without `wvalues`). -/
structure Obj where
  cls : ClsId
  items : List Val
  attrs : List (Name × Val)
  mutable : Bool
deriving DecidableEq, Repr

/-- How `copy.deepcopy` and `pickle` treat an instance of a class. -/
inductive Kind where
  /-- `list` / `dict` bases and every ordinary object: `copyreg.__reduce_ex__` →
  `copyreg.__newobj__(cls)`, state = `__dict__`, items appended/set afterwards.  No `__init__`. -/
  | plain
  /-- `set` base: `set.__reduce__` = `(cls, (list(self),), __dict__)` — the class is *called*, so
  `init_type` runs, then the state is applied. -/
  | ctor
  /-- `base.Fitness` subclass: `__deepcopy__` = `self.__class__()` + `wvalues` (base.py:252-261). -/
  | fitness
  /-- `base.ConstrainedFitness` subclass: as `fitness` plus the deep-copied `constraint_violation`. -/
  | cfitness
  /-- `gp.PrimitiveTree` subclass: `__deepcopy__` = `self.__class__(self)` (shares the node
  objects) + deep-copied `__dict__` (gp.py:60-63). -/
  | tree
  /-- `creator._numpy_array` subclass (creator.py:52-76). -/
  | nparr
  /-- `creator._array` subclass (creator.py:79-96). -/
  | pyarr
  /-- GP node objects: immutable, copied like `plain` when met by the generic copier. -/
  | node
deriving DecidableEq, Repr

/-- `copy_ = cls(...)`: does the copy hook call the class, so that `init_type` instantiates the
`dict_inst` attributes afresh before the copied state is written over them? -/
def Kind.initOnCopy : Kind → Bool
  | .ctor | .fitness | .cfitness | .tree => true
  | _ => false

/-- Does unpickling call the class (`__reduce__` = `(cls, (list(self),), __dict__)`)?
creator.py:75-76 and 92-96 for the two array kinds, `set.__reduce__` for sets.  Lists, dicts,
trees and fitnesses are rebuilt by `copyreg.__newobj__` / `_reconstructor` without `__init__`. -/
def Kind.initOnPickle : Kind → Bool
  | .ctor | .nparr | .pyarr => true
  | _ => false

/-- Is the copy entered into the memo *before* its state is copied?  `copy._reconstruct` and
`_array.__deepcopy__` (creator.py:88) do; `_numpy_array`, `PrimitiveTree` and `Fitness` leave it to
`copy.deepcopy`, which records the result afterwards. -/
def Kind.memoEarly : Kind → Bool
  | .plain | .node | .ctor | .pyarr => true
  | _ => false

/-- Are the items deep-copied one by one (generic containers; `_numpy_array.__deepcopy__` since the F29 fix:
`numpy.ndarray.__deepcopy__(self, memo)` deep-copies the elements of an object array, and a numeric buffer
consists of atoms), or taken over as they are (`array.__new__(cls, self)` buffer copy, `PrimitiveTree(self)`
sharing the node objects, `copy_.wvalues = self.wvalues`)? -/
def Kind.copyItems : Kind → Bool
  | .plain | .node | .ctor | .nparr => true
  | _ => false

/-- A class made by `creator.create(name, base, **kargs)`: `dict_inst` (attributes whose value is a
type: instantiated per object) and `dict_cls` (everything else: stays on the class). -/
structure ClassInfo where
  kind : Kind
  dictInst : List (Name × ClsId)
  dictCls : List (Name × Val)
deriving DecidableEq, Repr

abbrev ClassTable := List ClassInfo

def lookup {β : Type} (k : Nat) : List (Nat × β) → Option β
  | [] => none
  | (k', v) :: r => if k' = k then some v else lookup k r

/-- `d[k] = v` on an insertion-ordered dict. -/
def dictSet (k : Name) (v : Val) : List (Name × Val) → List (Name × Val)
  | [] => [(k, v)]
  | (k', v') :: r => if k' = k then (k, v) :: r else (k', v') :: dictSet k v r

/-- `base.update(new)`.  Keys of a Python dict are unique, so the order in which the entries of
`new` are applied is unobservable; they are applied last-to-first so that `lookup` (first match)
on `new` is what ends up in the result even for a list with repeated keys. -/
def dictUpdate (base new : List (Name × Val)) : List (Name × Val) :=
  new.foldr (fun p acc => dictSet p.1 p.2 acc) base

/-- Interpreter state while copying: the heap, the allocation counter (`id`s handed out so far),
and `deepcopy`'s memo (`id(original) ↦ copy`). -/
structure State where
  objs : Oid → Option Obj
  next : Nat
  memo : List (Oid × Oid)

def define (objs : Oid → Option Obj) (x : Oid) (o : Obj) : Oid → Option Obj :=
  fun y => if y = x then some o else objs y

/-- State-threading `map` (evaluation order = list order, as in Python). -/
def mapSt {σ α β : Type} (f : σ → α → Option (σ × β)) : σ → List α → Option (σ × List β)
  | s, [] => some (s, [])
  | s, a :: as =>
    match f s a with
    | none => none
    | some (s1, b) =>
      match mapSt f s1 as with
      | none => none
      | some (s2, bs) => some (s2, b :: bs)

/-! ### Instantiation (`MetaCreator.__init__` / `init_type`, creator.py:99-134) -/

/-- The name under which `ConstrainedFitness` keeps its flags (`constraint_violation`). -/
def cvName : Name := 0

/-- Python `None` as an atom (the harness interns atoms by hash; this is the hash of `None`). -/
def noneAtom : Int := 889999991811

/-- State that `base.__init__`, called by `init_type` after the `dict_inst` attributes are set
(creator.py:125-126), puts on a new instance: `ConstrainedFitness.__init__` sets
`constraint_violation = None` (base.py). -/
def baseInitAttrs : Kind → List (Name × Val)
  | .cfitness => [(cvName, .atom noneAtom)]
  | _ => []

/-- `cls(items)`: a new object whose per-instance attributes are built by *calling* the types in
`dict_inst` (creator.py:120-124: `setattr(self, obj_name, obj())`), each call being itself an
instantiation; then `base.__init__` runs (creator.py:125-126) and writes `baseInitAttrs` over them
(`dictUpdate`: a `dict_inst` attribute of a `ConstrainedFitness` class that is itself called
`constraint_violation` ends up `None`, as in Python).  Fuel = nesting depth of classes (a class can
only mention classes created before it, so `ct.length` always suffices). -/
def newInst (ct : ClassTable) : Nat → State → ClsId → List Val → Option (State × Oid)
  | 0, _, _, _ => none
  | n + 1, st, c, items =>
    match ct[c]? with
    | none => none
    | some ci =>
      let x := st.next
      let st := { st with next := x + 1 }
      match mapSt (fun s (p : Name × ClsId) =>
          match newInst ct n s p.2 [] with
          | none => none
          | some (s', y) => some (s', (p.1, Val.ref y))) st ci.dictInst with
      | none => none
      | some (st, attrs) =>
        let o : Obj := { cls := c, items := items, attrs := dictUpdate attrs (baseInitAttrs ci.kind),
                         mutable := ci.kind != .node }
        some ({ st with objs := define st.objs x o }, x)

/-- Only the `dict_inst` part of `init_type` (used when a copy or pickle hook calls the class to make
the object that is being rebuilt: whatever `base.__init__` puts on that object itself is then
overwritten by the copied state — for a `ConstrainedFitness` by the copied `constraint_violation`,
which `selectAttrs` requires to be present).  The nested instances are full `newInst`s. -/
def instAttrs (ct : ClassTable) (st : State) (dictInst : List (Name × ClsId)) :
    Option (State × List (Name × Val)) :=
  mapSt (fun s (p : Name × ClsId) =>
    match newInst ct ct.length s p.2 [] with
    | none => none
    | some (s', y) => some (s', (p.1, Val.ref y))) st dictInst

/-- `creator.<cls>(items)` as the user calls it. -/
def create (ct : ClassTable) (st : State) (c : ClsId) (items : List Val) : Option (State × Oid) :=
  newInst ct (ct.length + 1) st c items

/-- `getattr(obj, name)`: instance `__dict__` first, then the class (`dict_cls`, shared). -/
def getattr (ct : ClassTable) (objs : Oid → Option Obj) (x : Oid) (name : Name) : Option Val :=
  match objs x with
  | none => none
  | some o =>
    match lookup name o.attrs with
    | some v => some v
    | none => match ct[o.cls]? with
      | none => none
      | some ci => lookup name ci.dictCls

/-! ### Pickling of the created *classes* (`MetaCreator.__reduce__`, `meta_create`, creator.py:130-140) -/

/-- The module `deap.creator`: the classes that exist (`ClassTable`, index = identity of the class
object), the names bound in the module's globals (`globals()[name] = class_`), and every class
object's own `__name__` (`names`, parallel to `classes`; a class keeps its name when the module
attribute is deleted or rebound). -/
structure Module where
  classes : ClassTable
  bound : List (Name × ClsId)
  names : List Name := []

/-- `MetaCreator.__reduce__` (creator.py:130-131): a class pickles BY VALUE as
`(meta_create, (name, base, dct))`; in the model `(name, ClassInfo)` (base and dct determine kind,
`dict_inst` and `dict_cls`).  `name` is the class' `__name__`. -/
def classReduce (m : Module) (c : ClsId) (name : Name) : Option (Name × ClassInfo) :=
  (m.classes[c]?).map (fun ci => (name, ci))

/-- `meta_create(name, base, dct)` (creator.py:137-140): ALWAYS builds a new class from the pickled
description and rebinds the name; whatever was bound to that name before is neither consulted nor
changed (the old class object lives on, so do its instances).  `creator.create(name, base, **kargs)`
(creator.py:143-171) has the same effect on the module — `globals()[name] = meta(name, (base,), dict)`
after a RuntimeWarning when the name is already bound — so it is this function too. -/
def metaCreate (m : Module) (name : Name) (ci : ClassInfo) : Module × ClsId :=
  ({ classes := m.classes ++ [ci],
     bound := (name, m.classes.length) :: m.bound.filter (fun p => p.1 != name),
     names := m.names ++ [name] },
   m.classes.length)

/-! ### `copy.deepcopy` with the hooks of DEAP -/

/-- Which part of `__dict__` the hook copies: `Fitness` none of it (base.py:259-260 copies
`wvalues` only), `ConstrainedFitness` exactly `constraint_violation` (AttributeError ↦ `none` when
it is missing), everything else all of it. -/
def selectAttrs : Kind → List (Name × Val) → Option (List (Name × Val))
  | .fitness, _ => some []
  | .cfitness, as =>
    match lookup cvName as with
    | none => none
    | some v => some [(cvName, v)]
  | _, as => some as

/-- `copy.deepcopy(v, memo)`.  `fuel` bounds the nesting depth (Python: the recursion limit).
The oid of the copy is reserved first and the object is defined when its parts are ready, which is
observationally the same as "allocate, then fill" because nothing can see the shell except through
the memo (and a memo hit on a shell just returns its oid, as in CPython). -/
def copyVal (ct : ClassTable) : Nat → State → Val → Option (State × Val)
  | _, st, .atom a => some (st, .atom a)
  | 0, _, .ref _ => none
  | n + 1, st, .ref x =>
    match lookup x st.memo with
    | some x' => some (st, .ref x')                       -- copy.py: `y = memo.get(d)`
    | none =>
      match st.objs x with
      | none => none
      | some obj =>
        match ct[obj.cls]? with
        | none => none
        | some ci =>
          let k := ci.kind
          let x' := st.next
          let st := { st with next := x' + 1 }
          let st := if k.memoEarly then { st with memo := (x, x') :: st.memo } else st
          match (if k.initOnCopy then instAttrs ct st ci.dictInst else some (st, [])) with
          | none => none
          | some (st, base) =>
            match selectAttrs k obj.attrs with
            | none => none
            | some sel =>
              match mapSt (fun s (p : Name × Val) =>
                  match copyVal ct n s p.2 with
                  | none => none
                  | some (s', v') => some (s', (p.1, v'))) st sel with
              | none => none
              | some (st, as') =>
                match (if k.copyItems then mapSt (copyVal ct n) st obj.items
                       else some (st, obj.items)) with
                | none => none
                | some (st, is') =>
                  let o' : Obj := { cls := obj.cls, items := is', attrs := dictUpdate base as',
                                    mutable := obj.mutable }
                  some ({ objs := define st.objs x' o',
                          next := st.next,
                          memo := (x, x') :: st.memo },       -- copy.py: `memo[d] = y`
                        .ref x')

/-- `toolbox.clone(v)` = `copy.deepcopy(v)` with a new memo. -/
def clone (ct : ClassTable) (fuel : Nat) (objs : Oid → Option Obj) (next : Nat) (v : Val) :
    Option ((Oid → Option Obj) × Nat × Val) :=
  match copyVal ct fuel { objs := objs, next := next, memo := [] } v with
  | none => none
  | some (st, v') => some (st.objs, st.next, v')

/-- Clone-of-clone chain: the `i`-th element is the clone of the `(i-1)`-th. -/
def cloneChain (ct : ClassTable) (fuel : Nat) :
    Nat → (Oid → Option Obj) → Nat → Val → Option ((Oid → Option Obj) × Nat × List Val)
  | 0, objs, next, _ => some (objs, next, [])
  | k + 1, objs, next, v =>
    match clone ct fuel objs next v with
    | none => none
    | some (objs1, next1, v1) =>
      match cloneChain ct fuel k objs1 next1 v1 with
      | none => none
      | some (objs2, next2, vs) => some (objs2, next2, v1 :: vs)

/-- A heap write through a reference: the object at `x` is replaced (any change of content,
attribute set or attribute value is an instance). -/
def write (objs : Oid → Option Obj) (x : Oid) (o : Obj) : Oid → Option Obj := define objs x o

/-! ### Pickling: serialise to a pure tree, rebuild in another heap -/

/-- What a pickle stream carries for one object, following its `__reduce__`/`__reduce_ex__`:
the class, the items (list items / constructor argument `list(self)`), and the state
(`__dict__`) as parallel lists of names and values.  (The model serialises a *tree*: sharing
inside one object graph, which the pickle memo would preserve, is not represented.) -/
inductive PT where
  | atom (a : Int)
  | node (cls : ClsId) (mutable : Bool) (items : List PT) (names : List Name) (vals : List PT)

def mapOpt {α β : Type} (f : α → Option β) : List α → Option (List β)
  | [] => some []
  | a :: as =>
    match f a with
    | none => none
    | some b => match mapOpt f as with
      | none => none
      | some bs => some (b :: bs)

/-- `pickle.dumps`: walk the reachable graph.  Every kind stores all of `__dict__` (also a
`Fitness`, whose pickling is the generic one) and all items (GP node objects by value). -/
def serialise (objs : Oid → Option Obj) : Nat → Val → Option PT
  | _, .atom a => some (.atom a)
  | 0, .ref _ => none
  | n + 1, .ref x =>
    match objs x with
    | none => none
    | some o =>
      match mapOpt (serialise objs n) o.items with
      | none => none
      | some is =>
        match mapOpt (serialise objs n) (o.attrs.map (·.2)) with
        | none => none
        | some vs => some (.node o.cls o.mutable is (o.attrs.map (·.1)) vs)

mutual
/-- `pickle.loads` into the heap `st` (an empty heap for another interpreter; the heap of the
original for the same interpreter).  Kinds whose reduce tuple calls the class run `init_type`
first (fresh `dict_inst` attributes) and then apply the state over them. -/
def rebuild (ct : ClassTable) : State → PT → Option (State × Val)
  | st, .atom a => some (st, .atom a)
  | st, .node c m is names vs =>
    match ct[c]? with
    | none => none
    | some ci =>
      let x' := st.next
      let st := { st with next := x' + 1 }
      match rebuilds ct st is with
      | none => none
      | some (st, is') =>
        match (if ci.kind.initOnPickle then instAttrs ct st ci.dictInst else some (st, [])) with
        | none => none
        | some (st, base) =>
          match rebuilds ct st vs with
          | none => none
          | some (st, vs') =>
            let o' : Obj := { cls := c, items := is', attrs := dictUpdate base (names.zip vs'),
                              mutable := m }
            some ({ st with objs := define st.objs x' o' }, .ref x')
def rebuilds (ct : ClassTable) : State → List PT → Option (State × List Val)
  | st, [] => some (st, [])
  | st, t :: ts =>
    match rebuild ct st t with
    | none => none
    | some (st1, v) =>
      match rebuilds ct st1 ts with
      | none => none
      | some (st2, vs) => some (st2, v :: vs)
end

/-- `pickle.loads(pickle.dumps(v))` with the copy placed in the heap `(objs', next')`. -/
def pickleRoundTrip (ct : ClassTable) (fuel : Nat) (objs : Oid → Option Obj) (v : Val)
    (objs' : Oid → Option Obj) (next' : Nat) : Option ((Oid → Option Obj) × Nat × Val) :=
  match serialise objs fuel v with
  | none => none
  | some t =>
    match rebuild ct { objs := objs', next := next', memo := [] } t with
    | none => none
    | some (st, v') => some (st.objs, st.next, v')

/-! ### Abstraction to a pure value -/

/-- The pure value an object graph denotes, cut at depth `n` (`bot`).  Attributes are a finite map
(`absent` outside the domain), so attribute order is not part of the value; identities are not
part of it either. -/
inductive PV where
  | bot
  | absent
  | atom (a : Int)
  | node (cls : ClsId) (mutable : Bool) (items : List PV) (attrs : Name → PV)

def abs (objs : Oid → Option Obj) : Nat → Val → PV
  | _, .atom a => .atom a
  | 0, .ref _ => .bot
  | n + 1, .ref x =>
    match objs x with
    | none => .bot
    | some o =>
      .node o.cls o.mutable (o.items.map (abs objs n))
        (fun k => match lookup k o.attrs with
          | none => .absent
          | some v => abs objs n v)

/-! ### Toolbox (base.py:52-122) -/

/-- `functools.partial(function, *args, **kargs)`. -/
structure Partial (F A : Type) where
  func : F
  args : List A
  kw : List (Name × A)

/-- `{**kw, **callKw}`: later keys win, earlier keys keep their position. -/
def kwMerge {A : Type} (kw callKw : List (Name × A)) : List (Name × A) :=
  callKw.foldl (fun acc p =>
    if (lookup p.1 acc).isSome then acc.map (fun q => if q.1 = p.1 then (q.1, p.2) else q)
    else acc ++ [p]) kw

/-- `toolbox.register(alias, function, *args, **kargs)` (base.py:81-91). -/
def register {F A : Type} (tb : List (Name × Partial F A)) (alias : Name) (f : F) (args : List A)
    (kw : List (Name × A)) : List (Name × Partial F A) :=
  (alias, { func := f, args := args, kw := kw }) :: tb.filter (fun p => p.1 != alias)

/-- `toolbox.alias(*callArgs, **callKw)` = `partial.__call__`: frozen positional arguments first,
then the call's own; keyword arguments merged, the call's winning. -/
def callPartial {F A R : Type} (apply : F → List A → List (Name × A) → R) (p : Partial F A)
    (callArgs : List A) (callKw : List (Name × A)) : R :=
  apply p.func (p.args ++ callArgs) (kwMerge p.kw callKw)

def call {F A R : Type} (apply : F → List A → List (Name × A) → R) (tb : List (Name × Partial F A))
    (alias : Name) (callArgs : List A) (callKw : List (Name × A)) : Option R :=
  match lookup alias tb with
  | none => none
  | some p => some (callPartial apply p callArgs callKw)

/-- `toolbox.decorate(alias, *decorators)` (base.py:117-122): the decorators wrap the *function*,
first decorator innermost, and the result is registered again with the same frozen arguments. -/
def decorate {F A : Type} (tb : List (Name × Partial F A)) (alias : Name) (ds : List (F → F)) :
    Option (List (Name × Partial F A)) :=
  match lookup alias tb with
  | none => none
  | some p => some (register tb alias (ds.foldl (fun f d => d f) p.func) p.args p.kw)

/-! ### The `deap.creator` namespace between dump and load

An object of a created class pickles its class BY VALUE: `copyreg` writes the class through
`MetaCreator.__reduce__` = `(meta_create, (name, base, dct))` (creator.py:130-140), and `dct` holds the
classes of the per-instance attributes, which pickle the same way.  Classes that were not made by the
creator (`list`, `dict`, `gp.Primitive`, …) pickle by reference: every interpreter has them.  In the
model the first `nb` entries of every class table are those by-reference classes.  Unpickling
re-creates every other class of the dump from its pickled triple — `meta_create` never looks at what
the loading module has bound to the name — and builds the objects as instances of the re-created
classes. -/

/-- `del creator.<name>`: the class object lives on (its instances keep it), the name is gone. -/
def unbind (m : Module) (name : Name) : Module :=
  { m with bound := m.bound.filter (fun p => p.1 != name) }

/-- What a script can do to the namespace between a dump and a load. -/
inductive NsOp where
  /-- `creator.create(name, base, **kargs)`; the classes among `kargs` exist already (they are
  evaluated before the call), re-creation over a bound name only warns. -/
  | create (name : Name) (ci : ClassInfo)
  /-- `del creator.<name>` -/
  | delete (name : Name)

def nsStep (m : Module) : NsOp → Module
  | .create name ci =>
    if ci.dictInst.all (fun p => decide (p.2 < m.classes.length)) then (metaCreate m name ci).1 else m
  | .delete name => unbind m name

def nsRun (m : Module) (ops : List NsOp) : Module := ops.foldl nsStep m

/-- A pickle of an object graph: the dumping interpreter's classes by value (`classes`/`names`; the
first `nb` are by-reference classes), and the object tree. -/
structure Pickle where
  nb : Nat
  classes : ClassTable
  names : List Name
  root : PT

/-- `pickle.dumps(v)` in the module `m`. -/
def dumpP (m : Module) (nb : Nat) (objs : Oid → Option Obj) (fuel : Nat) (v : Val) : Option Pickle :=
  match serialise objs fuel v with
  | none => none
  | some t => some { nb := nb, classes := m.classes, names := m.names, root := t }

/-- Where a class of the dump ends up in a loading module with `off` classes: by-reference classes
stay, the `i`-th by-value class becomes the `i`-th class created by the load. -/
def trLoad (nb off : Nat) (c : ClsId) : ClsId := if c < nb then c else off + (c - nb)

/-- The pickled `dct` with the classes of the per-instance attributes translated. -/
def retagInfo (tr : ClsId → ClsId) (ci : ClassInfo) : ClassInfo :=
  { ci with dictInst := ci.dictInst.map (fun p => (p.1, tr p.2)) }

mutual
def mapClsPT (tr : ClsId → ClsId) : PT → PT
  | .atom a => .atom a
  | .node c m is names vs => .node (tr c) m (mapClsPTs tr is) names (mapClsPTs tr vs)
def mapClsPTs (tr : ClsId → ClsId) : List PT → List PT
  | [] => []
  | t :: ts => mapClsPT tr t :: mapClsPTs tr ts
end

mutual
/-- The classes the pickler meets as classes of objects. -/
def usedPT : PT → List ClsId
  | .atom _ => []
  | .node c _ is _ vs => c :: (usedPTs is ++ usedPTs vs)
def usedPTs : List PT → List ClsId
  | [] => []
  | t :: ts => usedPT t ++ usedPTs ts
end

/-- … closed under "is the class of a per-instance attribute" (the pickled `dct` mentions it).
Classes mention earlier classes only, so one pass from the newest class down suffices. -/
def closeUsed (ct : ClassTable) : Nat → List ClsId → List ClsId
  | 0, u => u
  | c + 1, u =>
    closeUsed ct c (if u.contains c then
        match ct[c]? with
        | some ci => u ++ ci.dictInst.map (·.2)
        | none => u
      else u)

/-- One `meta_create(name, base, dct)` executed by the load (`met`), or — for a class of the dumping
module that this pickle does not mention — just its record, which nothing refers to. -/
def recreate (tr : ClsId → ClsId) (met : Bool) (m : Module) (name : Name) (ci : ClassInfo) : Module :=
  let m1 := (metaCreate m name (retagInfo tr ci)).1
  if met then m1 else { m1 with bound := m.bound }

def recreateAll (tr : ClsId → ClsId) (used : List ClsId) (names : List Name) :
    Module → ClsId → List ClassInfo → Module
  | m, _, [] => m
  | m, c, ci :: r =>
    recreateAll tr used names (recreate tr (used.contains c) m ((names[c]?).getD 0) ci) (c + 1) r

/-- The classes part of `pickle.loads` in the module `m'`. -/
def loadClasses (m' : Module) (P : Pickle) : Module :=
  recreateAll (trLoad P.nb m'.classes.length)
    (closeUsed P.classes P.classes.length (usedPT P.root)) P.names m' P.nb (P.classes.drop P.nb)

/-- `pickle.loads` in the module `m'`, the objects going to the heap `(objs0, next0)`. -/
def loadP (m' : Module) (P : Pickle) (objs0 : Oid → Option Obj) (next0 : Nat) :
    Option (Module × (Oid → Option Obj) × Nat × Val) :=
  let m'' := loadClasses m' P
  match rebuild m''.classes { objs := objs0, next := next0, memo := [] }
      (mapClsPT (trLoad P.nb m'.classes.length) P.root) with
  | none => none
  | some (st, v') => some (m'', st.objs, st.next, v')

/-- An identity-free description of a class: its name, base kind, the classes of its per-instance
attributes (described the same way) and its class-level attributes — what
`MetaCreator.__reduce__` writes. -/
inductive CDesc where
  | mk (name : Name) (kind : Kind) (inst : List (Name × CDesc)) (cls : List (Name × Val))

/-- One entry of the pickled `dct`: the attribute name and the description of its class. -/
def descEntry (r : ClsId → Option CDesc) (p : Name × ClsId) : Option (Name × CDesc) :=
  match r p.2 with
  | none => none
  | some d => some (p.1, d)

def describe (ct : ClassTable) (names : List Name) : Nat → ClsId → Option CDesc
  | 0, _ => none
  | n + 1, c =>
    match ct[c]?, names[c]? with
    | some ci, some nm =>
      match mapOpt (descEntry (describe ct names n)) ci.dictInst with
      | none => none
      | some ds => some (.mk nm ci.kind ds ci.dictCls)
    | _, _ => none

/-! ### GP node objects: `__getstate__` / `__setstate__` over the slots, `renameArguments`

`gp.Primitive.__slots__ = ('name', 'arity', 'args', 'ret', 'seq')`, `gp.Terminal.__slots__ =
('name', 'value', 'ret', 'conv_fct')` (gp.py:196, 234).  `__getstate__` (gp.py:211-215, 253-257) is the
dict of the slots that are set; `__setstate__` (gp.py:217-219, 259-261) sets every entry on a blank
instance.  `PrimitiveSetTyped.renameArguments` (gp.py:343-354) changes the `value` of an argument
terminal and its key in `mapping` — never its `name`, so `name = str(value)` holds only until the
first renaming. -/
namespace Gp

inductive Slot where
  | name | arity | args | ret | seq | value | conv
deriving DecidableEq, Repr

/-- A node object: every slot holds an atom (interned string, type object, number) or is unset. -/
inductive Node where
  | prim (name arity args ret seq : Option Int)
  | term (name value ret conv : Option Int)
deriving DecidableEq, Repr

def entry (s : Slot) : Option Int → List (Slot × Int)
  | none => []
  | some a => [(s, a)]

/-- `dict((slot, getattr(self, slot)) for slot in type(self).__slots__ if hasattr(self, slot))` -/
def getstate : Node → List (Slot × Int)
  | .prim n a g r q => entry .name n ++ entry .arity a ++ entry .args g ++ entry .ret r ++ entry .seq q
  | .term n v r c => entry .name n ++ entry .value v ++ entry .ret r ++ entry .conv c

/-- `object.__new__(cls)` (`copyreg.__newobj__` / `_reconstructor`): the same class, no slot set. -/
def blank : Node → Node
  | .prim .. => .prim none none none none none
  | .term .. => .term none none none none

/-- `setattr(self, name, value)`; a name that is not a slot of the class has no slot to go to (it
would need a `__dict__`, which these classes do not have) and is left out. -/
def setSlot : Node → Slot × Int → Node
  | .prim n a g r q, (s, x) =>
    match s with
    | .name => .prim (some x) a g r q
    | .arity => .prim n (some x) g r q
    | .args => .prim n a (some x) r q
    | .ret => .prim n a g (some x) q
    | .seq => .prim n a g r (some x)
    | _ => .prim n a g r q
  | .term n v r c, (s, x) =>
    match s with
    | .name => .term (some x) v r c
    | .value => .term n (some x) r c
    | .ret => .term n v (some x) c
    | .conv => .term n v r (some x)
    | _ => .term n v r c

/-- `__setstate__`: `for name, value in state.items(): setattr(self, name, value)`. -/
def setstate (n : Node) (state : List (Slot × Int)) : Node := state.foldl setSlot n

/-- What the pickle stream holds for one node: its class (by reference) and its state. -/
structure NodePickle where
  isPrim : Bool
  state : List (Slot × Int)

def dumpNode (n : Node) : NodePickle :=
  { isPrim := (match n with | .prim .. => true | .term .. => false), state := getstate n }

def loadNode (p : NodePickle) : Node :=
  setstate (if p.isPrim then .prim none none none none none else .term none none none none) p.state

def Node.name : Node → Option Int
  | .prim n .. => n
  | .term n .. => n

def Node.value : Node → Option Int
  | .prim .. => none
  | .term _ v .. => v

/-- A primitive set as far as renaming goes: the node objects (index = identity; trees hold these
very objects), the argument names, and `mapping` (an insertion-ordered dict name ↦ node). -/
structure PSet where
  nodes : List Node
  arguments : List Int
  mapping : List (Int × Nat)
deriving DecidableEq, Repr

def lookupI {β : Type} (k : Int) : List (Int × β) → Option β
  | [] => none
  | (k', v) :: r => if k' = k then some v else lookupI k r

/-- `mapping.pop(key)` on the entries (`none`: KeyError). -/
def popKey (k : Int) : List (Int × Nat) → Option (Nat × List (Int × Nat))
  | [] => none
  | (k', v) :: r =>
    if k' = k then some (v, r)
    else match popKey k r with
      | none => none
      | some (x, r') => some (x, (k', v) :: r')

/-- `mapping[key] = node` (a present key keeps its position). -/
def setKey (k : Int) (v : Nat) : List (Int × Nat) → List (Int × Nat)
  | [] => [(k, v)]
  | (k', v') :: r => if k' = k then (k, v) :: r else (k', v') :: setKey k v r

/-- First loop of `renameArguments` (gp.py:347-351): every argument that is a key of `kargs` gets its
new name in `arguments`, and its terminal is popped from `mapping` and remembered. -/
def renamePass1 (kargs : List (Int × Int)) :
    List Int → List (Int × Nat) → Option (List Int × List (Int × Nat) × List (Int × Nat))
  | [], mp => some ([], mp, [])
  | old :: rest, mp =>
    match lookupI old kargs with
    | none =>
      match renamePass1 kargs rest mp with
      | none => none
      | some (args, mp', ren) => some (old :: args, mp', ren)
    | some new =>
      match popKey old mp with
      | none => none
      | some (node, mp1) =>
        match renamePass1 kargs rest mp1 with
        | none => none
        | some (args, mp', ren) => some (new :: args, mp', (new, node) :: ren)

/-- `terminal.value = new_name` (`none`: the object has no such slot). -/
def setValue (nodes : List Node) (i : Nat) (x : Int) : Option (List Node) :=
  match nodes[i]? with
  | some (.term n _ r c) => some (nodes.set i (.term n (some x) r c))
  | _ => none

/-- Second loop (gp.py:352-354): `terminal.value = new_name; mapping[new_name] = terminal`. -/
def renamePass2 : List (Int × Nat) → List Node → List (Int × Nat) → Option (List Node × List (Int × Nat))
  | [], nodes, mp => some (nodes, mp)
  | (new, i) :: ren, nodes, mp =>
    match setValue nodes i new with
    | none => none
    | some nodes' => renamePass2 ren nodes' (setKey new i mp)

def renameArguments (ps : PSet) (kargs : List (Int × Int)) : Option PSet :=
  match renamePass1 kargs ps.arguments ps.mapping with
  | none => none
  | some (args, mp, ren) =>
    match renamePass2 ren ps.nodes mp with
    | none => none
    | some (nodes, mp') => some { nodes := nodes, arguments := args, mapping := mp' }

/-- A history of `renameArguments` calls. -/
def renameHistory : PSet → List (List (Int × Int)) → Option PSet
  | ps, [] => some ps
  | ps, k :: ks =>
    match renameArguments ps k with
    | none => none
    | some ps' => renameHistory ps' ks

/-- The node objects of a tree (a tree is a list of node objects of the set). -/
def treeNodes (ps : PSet) (tree : List Nat) : Option (List Node) := mapOpt (fun i => ps.nodes[i]?) tree

/-- `pickle.loads(pickle.dumps(tree))`, node by node. -/
def treeRoundTrip (ps : PSet) (tree : List Nat) : Option (List Node) :=
  match treeNodes ps tree with
  | none => none
  | some ns => some (ns.map (fun n => loadNode (dumpNode n)))

end Gp

end Heap
