/-
Model of the discrete crossovers of `deap/tools/crossover.py` and the discrete mutations of
`deap/tools/mutation.py` (C09).  Import-free (core Lean only).

Conventions
* an individual is the `List` of its genes; "in place" is modelled separately by object ids
  (section `InPlace` at the end): every operator is first a pure function from the contents
  before the call to the contents after the call.  A slice is therefore a COPY, which is right
  for `list` and `array.array`; the representation-aware model (buffers in a heap, slices that are
  copies or numpy views) is `Core/Buffer.lean` + `Core/CrossMutBuf.lean`, proved to refine to this
  file under the `copy` discipline (`C09.copy_refines_list`);
* randomness: every operator takes the draws it consumes as explicit arguments, in call order
  (`randint` results as numbers, `random() < indpb` as `Bool`; the `…R` variants take the raw
  `random()` results and `indpb` and perform the comparison themselves);
* every operator comes with a `…Ok` guard: exactly the situation in which the Python code runs
  through without raising *and* the draws are values the `random` functions can return.  The
  driver answers `reject` outside the guard.  `mutShuffleIndexes` and `mutUniformInt` return
  `none` there themselves (they can raise after the draws were made); the slice crossovers are
  meaningful for every cut point because Python slices clamp exactly like `take`/`drop`; for the
  index-table operators (PMX, UPMX, OX) the guard is a hypothesis of every theorem.
-/
namespace CrossMut

variable {α : Type}

/-! ### Python list primitives -/

/-- `l[a:b]` for non-negative `a`, `b` (Python clamps both to `len l`; `b ≤ a` gives `[]`). -/
def pySlice (l : List α) (a b : Nat) : List α := (l.take b).drop a

/-- `l[a:b] = r` for non-negative `a`, `b` (plain slice: the segment is *replaced*, the list may
change its length; `b < a` inserts at `a`). -/
def sliceAssign (l : List α) (a b : Nat) (r : List α) : List α :=
  l.take a ++ r ++ l.drop (max a b)

/-- `l[i], l[j] = l[j], l[i]`: right-hand side first (`x = l[j]`, `y = l[i]`), then `l[i] = x`,
then `l[j] = y`.  `none` = `IndexError` (an index outside the list). -/
def pySwap? (l : List α) (i j : Nat) : Option (List α) :=
  match l[j]?, l[i]? with
  | some x, some y => some ((l.set i x).set j y)
  | _, _ => none

/-- `a[i], b[i] = b[i], a[i]` on two different lists. -/
def swapAt2 (i : Nat) (p : List α × List α) : List α × List α :=
  match p.2[i]?, p.1[i]? with
  | some y, some x => (p.1.set i y, p.2.set i x)
  | _, _ => p

/-- `random.random() < indpb` for each raw draw (the link between the `Bool` decisions the
operators below take and the numbers the generator returns). -/
def decisions {ρ : Type} [LT ρ] [DecidableLT ρ] (indpb : ρ) (rs : List ρ) : List Bool :=
  rs.map (fun r => decide (r < indpb))

/-- Draws of a loop `if random.random() < indpb: v = random.randint(..)`: `rs` are the results
of `random()` in call order, `vs` those of `randint` in call order; entry `i` of the result is
`some v` when gene `i` was selected and `randint` returned `v`.  A tape that runs out of
`randint` values yields a list that is too short (rejected by the guards). -/
def drawOpts {ρ β : Type} [LT ρ] [DecidableLT ρ] (indpb : ρ) : List ρ → List β → List (Option β)
  | [], _ => []
  | r :: rs, vs =>
    if r < indpb then
      match vs with
      | v :: vs' => some v :: drawOpts indpb rs vs'
      | [] => []
    else none :: drawOpts indpb rs vs

/-! ### cxOnePoint (crossover.py:17-34) -/

/-- `size = min(len(ind1), len(ind2))`; `cxpoint = randint(1, size - 1)`;
`ind1[cxpoint:], ind2[cxpoint:] = ind2[cxpoint:], ind1[cxpoint:]`
(both right-hand slices are taken — as copies — before the first assignment). -/
def cxOnePoint (ind1 ind2 : List α) (cxpoint : Nat) : List α × List α :=
  let r1 := ind2.drop cxpoint                    -- ind2[cxpoint:]
  let r2 := ind1.drop cxpoint                    -- ind1[cxpoint:]
  let ind1' := ind1.take cxpoint ++ r1           -- ind1[cxpoint:] = r1
  let ind2' := ind2.take cxpoint ++ r2           -- ind2[cxpoint:] = r2
  (ind1', ind2')

/-- `randint(1, size-1)` needs `1 ≤ size-1` and returns a value in that range. -/
def cxOnePointOk (ind1 ind2 : List α) (cxpoint : Nat) : Prop :=
  1 ≤ cxpoint ∧ cxpoint ≤ min ind1.length ind2.length - 1

instance (ind1 ind2 : List α) (c : Nat) : Decidable (cxOnePointOk ind1 ind2 c) := by
  unfold cxOnePointOk; infer_instance

/-! ### cxTwoPoint (crossover.py:37-59) -/

/-- `if cxpoint2 >= cxpoint1: cxpoint2 += 1  else: cxpoint1, cxpoint2 = cxpoint2, cxpoint1` -/
def normCx (cxpoint1 cxpoint2 : Nat) : Nat × Nat :=
  if cxpoint2 ≥ cxpoint1 then (cxpoint1, cxpoint2 + 1) else (cxpoint2, cxpoint1)

/-- `ind1[a:b], ind2[a:b] = ind2[a:b], ind1[a:b]` after the normalisation of the two draws
`cxpoint1 = randint(1, size)`, `cxpoint2 = randint(1, size - 1)`. -/
def cxTwoPoint (ind1 ind2 : List α) (cxpoint1 cxpoint2 : Nat) : List α × List α :=
  let c := normCx cxpoint1 cxpoint2
  let r1 := pySlice ind2 c.1 c.2
  let r2 := pySlice ind1 c.1 c.2
  (sliceAssign ind1 c.1 c.2 r1, sliceAssign ind2 c.1 c.2 r2)

def cxTwoPointOk (ind1 ind2 : List α) (cxpoint1 cxpoint2 : Nat) : Prop :=
  1 ≤ cxpoint1 ∧ cxpoint1 ≤ min ind1.length ind2.length ∧
  1 ≤ cxpoint2 ∧ cxpoint2 ≤ min ind1.length ind2.length - 1

instance (ind1 ind2 : List α) (c d : Nat) : Decidable (cxTwoPointOk ind1 ind2 c d) := by
  unfold cxTwoPointOk; infer_instance

/-- `cxTwoPoints` (crossover.py:62-69), the documented former name, still exported: it emits a
`FutureWarning` and then `return cxTwoPoint(ind1, ind2)`. -/
def cxTwoPoints (ind1 ind2 : List α) (cxpoint1 cxpoint2 : Nat) : List α × List α :=
  cxTwoPoint ind1 ind2 cxpoint1 cxpoint2

/-! ### cxUniform (crossover.py:72-90) -/

/-- `for i in range(size): if random.random() < indpb: ind1[i], ind2[i] = ind2[i], ind1[i]`;
`ds[i]` is the outcome of the `i`-th comparison. -/
def cxUniform (ind1 ind2 : List α) (ds : List Bool) : List α × List α :=
  let size := min ind1.length ind2.length
  ((List.range size).zip ds).foldl
    (fun p (id : Nat × Bool) => if id.2 then swapAt2 id.1 p else p) (ind1, ind2)

/-- exactly `size` calls of `random()`. -/
def cxUniformOk (ind1 ind2 : List α) (ds : List Bool) : Prop :=
  ds.length = min ind1.length ind2.length

instance (ind1 ind2 : List α) (ds : List Bool) : Decidable (cxUniformOk ind1 ind2 ds) := by
  unfold cxUniformOk; infer_instance

def cxUniformR {ρ : Type} [LT ρ] [DecidableLT ρ] (ind1 ind2 : List α) (indpb : ρ) (rs : List ρ) :
    List α × List α :=
  cxUniform ind1 ind2 (decisions indpb rs)

/-! ### cxMessyOnePoint (crossover.py:366-382) -/

/-- `cxpoint1 = randint(0, len(ind1))`, `cxpoint2 = randint(0, len(ind2))`;
`ind1[cxpoint1:], ind2[cxpoint2:] = ind2[cxpoint2:], ind1[cxpoint1:]`. -/
def cxMessyOnePoint (ind1 ind2 : List α) (cxpoint1 cxpoint2 : Nat) : List α × List α :=
  let r1 := ind2.drop cxpoint2
  let r2 := ind1.drop cxpoint1
  (ind1.take cxpoint1 ++ r1, ind2.take cxpoint2 ++ r2)

def cxMessyOnePointOk (ind1 ind2 : List α) (cxpoint1 cxpoint2 : Nat) : Prop :=
  cxpoint1 ≤ ind1.length ∧ cxpoint2 ≤ ind2.length

instance (ind1 ind2 : List α) (c d : Nat) : Decidable (cxMessyOnePointOk ind1 ind2 c d) := by
  unfold cxMessyOnePointOk; infer_instance

/-! ### cxESTwoPoint (crossover.py:418-444) -/

/-- An evolution-strategy individual: the genes and the `strategy` attribute (a second list). -/
structure ESInd (α σ : Type) where
  genes : List α
  strategy : List σ
deriving Repr, DecidableEq

/-- The same normalised cut points are applied to the individuals and then to their strategies.
`size` is taken from the individuals only (crossover.py:430). -/
def cxESTwoPoint {σ : Type} (ind1 ind2 : ESInd α σ) (pt1 pt2 : Nat) : ESInd α σ × ESInd α σ :=
  let c := normCx pt1 pt2
  let g1 := sliceAssign ind1.genes c.1 c.2 (pySlice ind2.genes c.1 c.2)
  let g2 := sliceAssign ind2.genes c.1 c.2 (pySlice ind1.genes c.1 c.2)
  let s1 := sliceAssign ind1.strategy c.1 c.2 (pySlice ind2.strategy c.1 c.2)
  let s2 := sliceAssign ind2.strategy c.1 c.2 (pySlice ind1.strategy c.1 c.2)
  (⟨g1, s1⟩, ⟨g2, s2⟩)

/-- `cxESTwoPoints` (crossover.py:447-452), the documented former name, still exported:
`return cxESTwoPoint(ind1, ind2)` — the strategies must travel through the alias as well. -/
def cxESTwoPoints {σ : Type} (ind1 ind2 : ESInd α σ) (pt1 pt2 : Nat) : ESInd α σ × ESInd α σ :=
  cxESTwoPoint ind1 ind2 pt1 pt2

def cxESTwoPointOk {σ : Type} (ind1 ind2 : ESInd α σ) (pt1 pt2 : Nat) : Prop :=
  cxTwoPointOk ind1.genes ind2.genes pt1 pt2

instance {σ : Type} (ind1 ind2 : ESInd α σ) (c d : Nat) : Decidable (cxESTwoPointOk ind1 ind2 c d) := by
  unfold cxESTwoPointOk; infer_instance

/-! ### cxPartialyMatched / cxUniformPartialyMatched (crossover.py:93-184)

Genes are used as indices into the position tables, so they are natural numbers. -/

/-- `p1, p2 = [0]*size, [0]*size; for i in range(size): p1[ind1[i]] = i; p2[ind2[i]] = i` -/
def pmInit (size : Nat) (ind1 ind2 : List Nat) : List Nat × List Nat :=
  (List.range size).foldl
    (fun (p : List Nat × List Nat) i => (p.1.set (ind1[i]?.getD 0) i, p.2.set (ind2[i]?.getD 0) i))
    (List.replicate size 0, List.replicate size 0)

structure PMState where
  ind1 : List Nat
  ind2 : List Nat
  p1 : List Nat
  p2 : List Nat
deriving Repr, DecidableEq

/-- Loop body of PMX/UPMX (crossover.py:130-138 = 174-182).  A tuple assignment evaluates its
right-hand side first, then assigns the targets from left to right, so in
`ind1[i], ind1[p1[temp2]] = temp2, temp1` the subscript `p1[temp2]` is read from the not yet
updated table and *after* `ind1[i]` was written. -/
def pmStep (s : PMState) (i : Nat) : PMState :=
  let temp1 := s.ind1[i]?.getD 0
  let temp2 := s.ind2[i]?.getD 0
  -- ind1[i], ind1[p1[temp2]] = temp2, temp1
  let ind1 := s.ind1.set i temp2
  let ind1 := ind1.set (s.p1[temp2]?.getD 0) temp1
  -- ind2[i], ind2[p2[temp1]] = temp1, temp2
  let ind2 := s.ind2.set i temp1
  let ind2 := ind2.set (s.p2[temp1]?.getD 0) temp2
  -- p1[temp1], p1[temp2] = p1[temp2], p1[temp1]
  let x1 := s.p1[temp2]?.getD 0
  let y1 := s.p1[temp1]?.getD 0
  let p1 := (s.p1.set temp1 x1).set temp2 y1
  -- p2[temp1], p2[temp2] = p2[temp2], p2[temp1]
  let x2 := s.p2[temp2]?.getD 0
  let y2 := s.p2[temp1]?.getD 0
  let p2 := (s.p2.set temp1 x2).set temp2 y2
  ⟨ind1, ind2, p1, p2⟩

/-- `cxpoint1 = randint(0, size)`, `cxpoint2 = randint(0, size - 1)`, normalisation,
`for i in range(cxpoint1, cxpoint2): <pmStep>`. -/
def cxPartialyMatched (ind1 ind2 : List Nat) (cxpoint1 cxpoint2 : Nat) : List Nat × List Nat :=
  let size := min ind1.length ind2.length
  let p := pmInit size ind1 ind2
  let c := normCx cxpoint1 cxpoint2
  let s := (List.range' c.1 (c.2 - c.1)).foldl pmStep ⟨ind1, ind2, p.1, p.2⟩
  (s.ind1, s.ind2)

/-- The first `size` genes of both parents index tables of length `size` (otherwise `IndexError`). -/
def pmGenesOk (ind1 ind2 : List Nat) : Prop :=
  let size := min ind1.length ind2.length
  (∀ x ∈ ind1.take size, x < size) ∧ (∀ x ∈ ind2.take size, x < size)

instance (ind1 ind2 : List Nat) : Decidable (pmGenesOk ind1 ind2) := by
  unfold pmGenesOk; infer_instance

def cxPartialyMatchedOk (ind1 ind2 : List Nat) (cxpoint1 cxpoint2 : Nat) : Prop :=
  pmGenesOk ind1 ind2 ∧ 1 ≤ min ind1.length ind2.length ∧
  cxpoint1 ≤ min ind1.length ind2.length ∧ cxpoint2 ≤ min ind1.length ind2.length - 1

instance (ind1 ind2 : List Nat) (c d : Nat) : Decidable (cxPartialyMatchedOk ind1 ind2 c d) := by
  unfold cxPartialyMatchedOk; infer_instance

/-- `for i in range(size): if random.random() < indpb: <pmStep>`. -/
def cxUniformPartialyMatched (ind1 ind2 : List Nat) (ds : List Bool) : List Nat × List Nat :=
  let size := min ind1.length ind2.length
  let p := pmInit size ind1 ind2
  let s := ((List.range size).zip ds).foldl
    (fun s (id : Nat × Bool) => if id.2 then pmStep s id.1 else s) ⟨ind1, ind2, p.1, p.2⟩
  (s.ind1, s.ind2)

def cxUniformPartialyMatchedOk (ind1 ind2 : List Nat) (ds : List Bool) : Prop :=
  pmGenesOk ind1 ind2 ∧ ds.length = min ind1.length ind2.length

instance (ind1 ind2 : List Nat) (ds : List Bool) : Decidable (cxUniformPartialyMatchedOk ind1 ind2 ds) := by
  unfold cxUniformPartialyMatchedOk; infer_instance

def cxUniformPartialyMatchedR {ρ : Type} [LT ρ] [DecidableLT ρ] (ind1 ind2 : List Nat) (indpb : ρ)
    (rs : List ρ) : List Nat × List Nat :=
  cxUniformPartialyMatched ind1 ind2 (decisions indpb rs)

/-! ### cxOrdered (crossover.py:187-237) -/

/-- `holes1, holes2 = [True]*size, [True]*size`
`for i in range(size): if i < a or i > b: holes1[ind2[i]] = False; holes2[ind1[i]] = False` -/
def oxHoles (size a b : Nat) (ind1 ind2 : List Nat) : List Bool × List Bool :=
  (List.range size).foldl
    (fun (h : List Bool × List Bool) i =>
      if i < a ∨ i > b then (h.1.set (ind2[i]?.getD 0) false, h.2.set (ind1[i]?.getD 0) false) else h)
    (List.replicate size true, List.replicate size true)

/-- State of the hole-filling loop.  `temp1, temp2 = ind1, ind2` only binds two more names to
the *same* list objects, so the reads `temp1[..]` see every earlier write `ind1[..] = ..`:
the state holds one list per individual, read and written alike. -/
structure OXState where
  ind1 : List Nat
  k1 : Nat
  ind2 : List Nat
  k2 : Nat
deriving Repr, DecidableEq

/-- One half of the loop body: `if not holes[temp[(i+b+1) % size]]: ind[k % size] = temp[(i+b+1) % size]; k += 1`
with `temp` and `ind` the same list. -/
def oxFillStep (size b : Nat) (holes : List Bool) (s : List Nat × Nat) (i : Nat) : List Nat × Nat :=
  let v := s.1[(i + b + 1) % size]?.getD 0
  if !(holes[v]?.getD true) then (s.1.set (s.2 % size) v, s.2 + 1) else s

/-- Loop body crossover.py:224-231. -/
def oxStep (size b : Nat) (holes1 holes2 : List Bool) (s : OXState) (i : Nat) : OXState :=
  let r1 := oxFillStep size b holes1 (s.ind1, s.k1) i
  let r2 := oxFillStep size b holes2 (s.ind2, s.k2) i
  ⟨r1.1, r1.2, r2.1, r2.2⟩

/-- `a, b = random.sample(range(size), 2)` (two draws, in that order), `if a > b: a, b = b, a`,
holes, `k1, k2 = b + 1, b + 1`, the filling loop, and finally
`for i in range(a, b + 1): ind1[i], ind2[i] = ind2[i], ind1[i]`. -/
def cxOrdered (ind1 ind2 : List Nat) (a0 b0 : Nat) : List Nat × List Nat :=
  let size := min ind1.length ind2.length
  let a := if a0 > b0 then b0 else a0
  let b := if a0 > b0 then a0 else b0
  let h := oxHoles size a b ind1 ind2
  let s := (List.range size).foldl (oxStep size b h.1 h.2) ⟨ind1, b + 1, ind2, b + 1⟩
  (List.range' a (b + 1 - a)).foldl (fun p i => swapAt2 i p) (s.ind1, s.ind2)

/-- `sample(range(size), 2)` returns two different indices below `size` (and needs `size ≥ 2`). -/
def cxOrderedOk (ind1 ind2 : List Nat) (a0 b0 : Nat) : Prop :=
  pmGenesOk ind1 ind2 ∧ a0 ≠ b0 ∧ a0 < min ind1.length ind2.length ∧ b0 < min ind1.length ind2.length

instance (ind1 ind2 : List Nat) (c d : Nat) : Decidable (cxOrderedOk ind1 ind2 c d) := by
  unfold cxOrderedOk; infer_instance

/-! ### mutShuffleIndexes (mutation.py:98-122) -/

/-- loop body of `mutShuffleIndexes` for index `id.1` with draws `id.2`; the state is `none` once
the call has raised -/
def shuffleStep (size : Nat) (acc : Option (List α)) (id : Nat × Option Nat) : Option (List α) :=
  match acc, id.2 with
  | none, _ => none
  | some ind, none => some ind                 -- random() >= indpb
  | some ind, some s =>
    if s + 2 ≤ size then                       -- randint(0, size - 2) answered s
      let swapIndx := if s ≥ id.1 then s + 1 else s
      pySwap? ind id.1 swapIndx
    else none

/-- `for i in range(size): if random.random() < indpb: swap_indx = randint(0, size - 2);
if swap_indx >= i: swap_indx += 1; individual[i], individual[swap_indx] = individual[swap_indx], individual[i]`.
`ds[i] = some s` = gene `i` selected and `randint` returned `s`.
`none` = the call raises (`randint(0, size - 2)` with `size < 2` is a `ValueError`, an index outside
the list an `IndexError`) or `s` is not a value `randint(0, size - 2)` can return. -/
def mutShuffleIndexes (individual : List α) (ds : List (Option Nat)) : Option (List α) :=
  let size := individual.length
  ((List.range size).zip ds).foldl (shuffleStep size) (some individual)

/-- `size` calls of `random()`; a selected gene needs `size ≥ 2` for `randint(0, size-2)`. -/
def mutShuffleIndexesOk (individual : List α) (ds : List (Option Nat)) : Prop :=
  ds.length = individual.length ∧ ∀ d ∈ ds, ∀ s, d = some s → s + 2 ≤ individual.length

instance (individual : List α) (ds : List (Option Nat)) : Decidable (mutShuffleIndexesOk individual ds) := by
  unfold mutShuffleIndexesOk
  have : ∀ d : Option Nat, Decidable (∀ s, d = some s → s + 2 ≤ individual.length) := fun d =>
    match d with
    | none => isTrue (by intro s h; cases h)
    | some s => if h : s + 2 ≤ individual.length then isTrue (by intro s' e; cases e; exact h)
                else isFalse (fun hh => h (hh s rfl))
  infer_instance

def mutShuffleIndexesR {ρ : Type} [LT ρ] [DecidableLT ρ] (individual : List α) (indpb : ρ) (rs : List ρ)
    (vs : List Nat) : Option (List α) :=
  mutShuffleIndexes individual (drawOpts indpb rs vs)

/-! ### mutFlipBit (mutation.py:125-143) -/

/-- `type(x)(not x)` for the gene types used with this operator. -/
class PyNot (α : Type) where
  pyNot : α → α

/-- `bool(not x)` -/
instance : PyNot Bool := ⟨fun x => !x⟩
/-- `int(not x)`: `0 ↦ 1`, everything else `↦ 0`. -/
instance : PyNot Int := ⟨fun x => if x = 0 then 1 else 0⟩
instance : PyNot Nat := ⟨fun x => if x = 0 then 1 else 0⟩

/-- `for i in range(len(individual)): if random.random() < indpb: individual[i] = type(individual[i])(not individual[i])` -/
def mutFlipBit [PyNot α] (individual : List α) (ds : List Bool) : List α :=
  ((List.range individual.length).zip ds).foldl
    (fun ind (id : Nat × Bool) =>
      if id.2 then
        match ind[id.1]? with
        | some x => ind.set id.1 (PyNot.pyNot x)
        | none => ind
      else ind)
    individual

def mutFlipBitOk (individual : List α) (ds : List Bool) : Prop := ds.length = individual.length

instance (individual : List α) (ds : List Bool) : Decidable (mutFlipBitOk individual ds) := by
  unfold mutFlipBitOk; infer_instance

def mutFlipBitR {ρ : Type} [LT ρ] [DecidableLT ρ] [PyNot α] (individual : List α) (indpb : ρ)
    (rs : List ρ) : List α :=
  mutFlipBit individual (decisions indpb rs)

/-! ### mutUniformInt (mutation.py:146-173) -/

/-- The `low` / `up` argument: a number or a sequence of numbers. -/
inductive Bound where
  | scalar (x : Int)
  | seq (l : List Int)
deriving Repr, DecidableEq

/-- `if not isinstance(low, Sequence): low = repeat(low, size)
elif len(low) < size: raise IndexError` — the iterable handed to `zip`; `none` = `IndexError`. -/
def Bound.toSeq (size : Nat) : Bound → Option (List Int)
  | .scalar x => some (List.replicate size x)
  | .seq l => if l.length < size then none else some l

/-- `random.randint(xl, xu)` answering `v`: possible only for `xl ≤ v ≤ xu`
(`none`: not a value `randint` can return, or `xu < xl`, where it raises). -/
def randint (xl xu v : Int) : Option Int := if xl ≤ v ∧ v ≤ xu then some v else none

/-- `for i, xl, xu in zip(range(size), low, up): if random.random() < indpb: individual[i] = random.randint(xl, xu)`.
`ds[i] = some v`: gene `i` selected and `randint` answered `v`.  `none` = the call raised or the
draws are impossible. -/
def mutUniformIntLoop : List (Nat × Int × Int) → List (Option Int) → List Int → Option (List Int)
  | [], _, ind => some ind
  | _ :: _, [], _ => none                                  -- tape exhausted
  | (_, _, _) :: rest, none :: ds, ind => mutUniformIntLoop rest ds ind
  | (i, xl, xu) :: rest, some v :: ds, ind =>
    match randint xl xu v with
    | some w => mutUniformIntLoop rest ds (ind.set i w)
    | none => none

def mutUniformInt (individual : List Int) (low up : Bound) (ds : List (Option Int)) : Option (List Int) :=
  let size := individual.length
  match low.toSeq size, up.toSeq size with
  | some lo, some hi =>
    if ds.length = size then mutUniformIntLoop ((List.range size).zip (lo.zip hi)) ds individual else none
  | _, _ => none

def mutUniformIntR {ρ : Type} [LT ρ] [DecidableLT ρ] (individual : List Int) (low up : Bound) (indpb : ρ)
    (rs : List ρ) (vs : List Int) : Option (List Int) :=
  mutUniformInt individual low up (drawOpts indpb rs vs)

/-! ### mutInversion (mutation.py:176-201) -/

/-- `if size == 0: return`; `index_one = randrange(size)`, `index_two = randrange(size)`,
`start, end = min, max`; `individual[start:end] = individual[start:end][::-1]`. -/
def mutInversion (individual : List α) (indexOne indexTwo : Nat) : List α :=
  if individual.length = 0 then individual
  else
    let startIndex := min indexOne indexTwo
    let endIndex := max indexOne indexTwo
    sliceAssign individual startIndex endIndex (pySlice individual startIndex endIndex).reverse

/-- For an empty individual no draw is made (the driver passes `0 0`). -/
def mutInversionOk (individual : List α) (indexOne indexTwo : Nat) : Prop :=
  (individual.length = 0 ∧ indexOne = 0 ∧ indexTwo = 0) ∨
  (indexOne < individual.length ∧ indexTwo < individual.length)

instance (individual : List α) (c d : Nat) : Decidable (mutInversionOk individual c d) := by
  unfold mutInversionOk; infer_instance

/-! ### In place: object identities

Every operator above ends with `return ind1, ind2` / `return individual,` after having mutated
its arguments through item and slice assignment only; no new list is ever bound to the names.
A heap maps an object id to the current contents of that list object. -/
section InPlace

abbrev Heap (α : Type) := Nat → List α

def Heap.write (h : Heap α) (o : Nat) (v : List α) : Heap α := fun o' => if o' = o then v else h o'

/-- A two-parent operator `f` applied to the objects `o1`, `o2` (two *different* objects):
returns the ids in the returned tuple and the heap after the call. -/
def inPlace2 (f : List α → List α → List α × List α) (h : Heap α) (o1 o2 : Nat) : (Nat × Nat) × Heap α :=
  let c := f (h o1) (h o2)
  ((o1, o2), (h.write o1 c.1).write o2 c.2)

/-- A mutation `f` applied to the object `o`: the 1-tuple returned and the heap after the call. -/
def inPlace1 (f : List α → List α) (h : Heap α) (o : Nat) : Nat × Heap α :=
  (o, h.write o (f (h o)))

/-- `cxESTwoPoint` on individuals `o1`, `o2` whose `strategy` attributes are the list objects
`s1`, `s2` (all four different): the returned individuals, their strategy objects afterwards,
and the two heaps (genes, strategies). -/
def inPlaceES {σ : Type} (hg : Heap α) (hs : Heap σ) (o1 o2 s1 s2 : Nat) (pt1 pt2 : Nat) :
    (Nat × Nat) × (Nat × Nat) × Heap α × Heap σ :=
  let c := cxESTwoPoint ⟨hg o1, hs s1⟩ ⟨hg o2, hs s2⟩ pt1 pt2
  ((o1, o2), (s1, s2), (hg.write o1 c.1.genes).write o2 c.2.genes,
    (hs.write s1 c.1.strategy).write s2 c.2.strategy)

end InPlace

end CrossMut
