/-
Model of the two non-dominated sorting procedures of `deap/tools/emo.py` (C04):

* spec        `nondom` / `dominatedPart` / `peel` / `depth` / `leading` (the Pareto ranking by peeling)
* certificate `checkCert` / `checkRanking` (executable checker of the two local ranking conditions)
* model A     `sortStd`  = `sortNondominated`      (emo.py:53-117)
* model B     `sortLog`  = `sortLogNondominated`   (emo.py:201-453, with `isDominated`, `median`,
              `sortNDHelperA/B`, `splitA/B`, `sweepA/B`)

Import-free apart from `DeapModel.Core.Fitness` (dominance loop of `base.py`).  Generic in the scalar.
An individual is its identity `id` (position in the caller's list / Python object identity) and the
weighted values `w` of its fitness.  Python `dict`s are association lists in insertion order.
-/
import DeapModel.Core.Fitness

set_option linter.unusedVariables false

namespace NDSort

/-- An individual: object identity and `ind.fitness.wvalues`. -/
structure Ind (α : Type) where
  id : Nat
  w : List α
deriving Repr, DecidableEq

/-! ### Python `dict` / `defaultdict` as an insertion-ordered association list -/
section Dict
variable {κ ν : Type} [DecidableEq κ]

/-- `d[k]` (`dflt` = the `defaultdict` default; for plain dicts every looked-up key is present). -/
def dget : List (κ × ν) → ν → κ → ν
  | [], dflt, _ => dflt
  | (k', v) :: r, dflt, k => if k' = k then v else dget r dflt k

/-- `d[k] = v`: overwrite in place, or append a new key at the end (insertion order). -/
def dset : List (κ × ν) → κ → ν → List (κ × ν)
  | [], k, v => [(k, v)]
  | (k', v') :: r, k, v => if k' = k then (k', v) :: r else (k', v') :: dset r k v

/-- `list(d.keys())`. -/
def dkeys (d : List (κ × ν)) : List κ := d.map Prod.fst

/-- `list(d.values())`. -/
def dvalues (d : List (κ × ν)) : List ν := d.map Prod.snd

end Dict

/-! ### Specification: Pareto ranking by peeling -/
section Spec
variable {β : Type}

/-- The elements of `S` dominated by nobody in `S`. -/
def nondom (dom : β → β → Bool) (S : List β) : List β :=
  S.filter (fun x => !S.any (fun y => dom y x))

/-- The elements of `S` dominated by somebody in `S` (what is left once the front is removed). -/
def dominatedPart (dom : β → β → Bool) (S : List β) : List β :=
  S.filter (fun x => S.any (fun y => dom y x))

/-- `fuel` rounds of "remove the non-dominated elements". -/
def peelAux (dom : β → β → Bool) : Nat → List β → List (List β)
  | 0, _ => []
  | n + 1, S => if S.isEmpty then [] else nondom dom S :: peelAux dom n (dominatedPart dom S)

/-- The fronts of `S`: repeatedly remove the non-dominated elements.  `S.length` rounds always
suffice for a strict partial order (theorem `C04.peel_eq`: every round removes at least one element
because a finite strict partial order has a maximal element). -/
def peel (dom : β → β → Bool) (S : List β) : List (List β) := peelAux dom S.length S

/-- Index of the first front containing `x` (`fronts.length` if there is none). -/
def frontIdx [DecidableEq β] : List (List β) → β → Nat
  | [], _ => 0
  | f :: fs, x => if x ∈ f then 0 else frontIdx fs x + 1

/-- Dominance depth of `x` in `S`. -/
def depth [DecidableEq β] (dom : β → β → Bool) (S : List β) (x : β) : Nat := frontIdx (peel dom S) x

/-- The leading fronts needed to reach `k` elements: none for `k = 0`, otherwise the first front and
then the leading fronts needed for the `k - |first|` elements still missing. -/
def leading : List (List β) → Nat → List (List β)
  | [], _ => []
  | f :: fs, k => if k = 0 then [] else f :: leading fs (k - f.length)

/-- The two local conditions that characterise the ranking (certificate, left-hand side of
`C04.ranking_unique`): a dominator has a strictly smaller rank, and every element of positive rank
has a dominator exactly one rank below. -/
def checkCert (dom : β → β → Bool) (S : List β) (r : β → Nat) : Bool :=
  S.all (fun x => S.all (fun y => !dom y x || decide (r y < r x))) &&
  S.all (fun x => decide (r x = 0) || S.any (fun y => dom y x && decide (r y + 1 = r x)))

/-- Checker for a complete list of fronts returned by an implementation: the fronts are non-empty,
contain every element of `S` exactly once (`isPerm`), and the rank function "index of my front"
satisfies the certificate. -/
def checkRanking [DecidableEq β] (dom : β → β → Bool) (S : List β) (fronts : List (List β)) : Bool :=
  fronts.all (fun f => !f.isEmpty) && fronts.flatten.isPerm S && checkCert dom S (frontIdx fronts)

end Spec

variable {α : Type} [LT α] [LE α] [DecidableEq α] [DecidableLT α] [DecidableLE α]

/-- `fit_a.dominates(fit_b)` with the default `obj=slice(None)` (base.py:203-223): the loop of C01
over the complete weighted-value tuples. -/
def domW (a b : List α) : Bool := Fitness.dominatesLoop a b false

/-- Dominance between individuals = dominance between their fitnesses. -/
def domI (a b : Ind α) : Bool := domW a.w b.w

/-! ### Model A: `sortNondominated` (emo.py:53-117) -/

/-- emo.py:75-77 `map_fit_ind[ind.fitness].append(ind)`; a `Fitness` hashes and compares equal by
its `wvalues`, so the key is the weighted-value tuple. -/
def mapFitInd (pop : List (Ind α)) : List (List α × List (Ind α)) :=
  pop.foldl (fun d ind => dset d ind.w (dget d [] ind.w ++ [ind])) []

structure StdState (α : Type) where
  /-- `dominating_fits` (emo.py:82), a `defaultdict(int)` -/
  cnt : List (List α × Int)
  /-- `dominated_fits` (emo.py:83), a `defaultdict(list)` -/
  dominated : List (List α × List (List α))
  /-- `current_front` (emo.py:80) -/
  current : List (List α)

/-- emo.py:88-93, the body of the inner loop for the pair `(fit_i, fit_j)`. -/
def pairStep (fi fj : List α) (s : StdState α) : StdState α :=
  if domW fi fj then
    { s with cnt := dset s.cnt fj (dget s.cnt 0 fj + 1),
             dominated := dset s.dominated fi (dget s.dominated [] fi ++ [fj]) }
  else if domW fj fi then
    { s with cnt := dset s.cnt fi (dget s.cnt 0 fi + 1),
             dominated := dset s.dominated fj (dget s.dominated [] fj ++ [fi]) }
  else s

/-- emo.py:86-95 `for i, fit_i in enumerate(fits): for fit_j in fits[i+1:]: …; if
dominating_fits[fit_i] == 0: current_front.append(fit_i)`. -/
def rankFirst : List (List α) → StdState α → StdState α
  | [], s => s
  | fi :: rest, s =>
    let s1 := rest.foldl (fun s fj => pairStep fi fj s) s
    let s2 := if dget s1.cnt 0 fi = 0 then { s1 with current := s1.current ++ [fi] } else s1
    rankFirst rest s2

structure LoopState (α : Type) where
  cnt : List (List α × Int)
  /-- `next_front` -/
  next : List (List α)
  /-- `fronts[-1]` -/
  front : List (Ind α)
  /-- `pareto_sorted` -/
  sorted : Nat

/-- emo.py:109-113, the body of `for fit_d in dominated_fits[fit_p]`. -/
def decStep (grp : List (List α × List (Ind α))) (st : LoopState α) (fd : List α) : LoopState α :=
  let c := dget st.cnt 0 fd - 1
  let cnt := dset st.cnt fd c
  if c = 0 then
    { cnt := cnt, next := st.next ++ [fd], sorted := st.sorted + (dget grp [] fd).length,
      front := st.front ++ dget grp [] fd }
  else { st with cnt := cnt }

/-- emo.py:107-108 the two nested `for` loops of one `while` iteration. -/
def sweepFront (grp : List (List α × List (Ind α))) (dominated : List (List α × List (List α)))
    (current : List (List α)) (cnt : List (List α × Int)) (sorted : Nat) : LoopState α :=
  current.foldl (fun st fp => (dget dominated [] fp).foldl (decStep grp) st) ⟨cnt, [], [], sorted⟩

/-- emo.py:105-115 `while pareto_sorted < N`.  Python's loop has no bound; `fuel` counts the
iterations still allowed and `none` means "did not finish" (`C04.sortStd_eq_peel` shows it never
happens with the fuel `sortStd` passes). -/
def whileLoop (grp : List (List α × List (Ind α))) (dominated : List (List α × List (List α)))
    (N : Nat) : Nat → List (List α × Int) → List (List α) → List (List (Ind α)) → Nat →
    Option (List (List (Ind α)))
  | fuel, cnt, current, fronts, sorted =>
    if sorted < N then
      match fuel with
      | 0 => none
      | fuel + 1 =>
        let st := sweepFront grp dominated current cnt sorted
        whileLoop grp dominated N fuel st.cnt st.next (fronts ++ [st.front]) st.sorted
    else some fronts

/-- `sortNondominated(individuals, k, first_front_only)` for `k ≥ 0`. -/
def sortStd (pop : List (Ind α)) (k : Nat) (firstFrontOnly : Bool) : Option (List (List (Ind α))) :=
  if k = 0 then some []                                              -- emo.py:72-73
  else
    let grp := mapFitInd pop                                         -- 75-77
    let fits := dkeys grp                                            -- 78
    let s := rankFirst fits ⟨[], [], []⟩                              -- 80-95
    let front0 := s.current.foldl (fun acc f => acc ++ dget grp [] f) []   -- 97-99
    if firstFrontOnly then some [front0]                             -- 104
    else whileLoop grp s.dominated (min pop.length k) fits.length s.cnt s.current [front0]
      front0.length                                                  -- 100, 105-117

/-! ### Model B: `sortLogNondominated` (emo.py:201-453) -/

variable [Add α] [Neg α] [Inhabited α]

/-- `fit[i]` on a tuple.  All tuples have the same length `m > i` wherever the code indexes them;
the driver and the theorems require it (Python would raise `IndexError`). -/
def nth (f : List α) (i : Nat) : α := f.getD i default

/-- emo.py:209-225 `isDominated(wvalues1, wvalues2)`: "wvalues2 dominates wvalues1". -/
def isDominatedLoop : List α → List α → Bool → Bool
  | a :: as, b :: bs, notEqual =>
      if b < a then false
      else if a < b then isDominatedLoop as bs true
      else isDominatedLoop as bs notEqual
  | _, _, notEqual => notEqual

def isDominated (w1 w2 : List α) : Bool := isDominatedLoop w1 w2 false

/-- `sorted(seq, key=key)`: stable, only `<` on keys is used. -/
def pySortedBy {β : Type} (key : β → α) (l : List β) : List β :=
  l.mergeSort (fun a b => !decide (key b < key a))

/-- emo.py:228-238 `median(seq, key)` — returned as **twice** the median so that no division is
needed: `key(mid) + key(mid)` for odd length, `key(lo) + key(hi)` for even length (Python returns
that sum `/ 2.0`).  A comparison `x > median_` is modelled as `x + x > median2`. -/
def median2 {β : Type} [Inhabited β] (seq : List β) (key : β → α) : α :=
  let sseq := pySortedBy key seq
  let length := seq.length
  if length % 2 = 1 then
    key (sseq.getD ((length - 1) / 2) default) + key (sseq.getD ((length - 1) / 2) default)
  else
    key (sseq.getD ((length - 1) / 2) default) + key (sseq.getD (length / 2) default)

/-- `bisect.bisect_right(a, x)` as CPython implements it (binary search; no sortedness assumed). -/
def bisectRightBin (a : List α) (x : α) (lo hi : Nat) : Nat :=
  if h : lo < hi then
    let mid := (lo + hi) / 2
    if x < a.getD mid default then bisectRightBin a x lo mid
    else bisectRightBin a x (mid + 1) hi
  else lo
termination_by hi - lo
decreasing_by all_goals omega

def bisectRight (a : List α) (x : α) : Nat := bisectRightBin a x 0 a.length

/-- Python `max(seq, key=key)`: the first maximal element. -/
def pyMaxBy {β γ : Type} [LT γ] [DecidableLT γ] (key : β → γ) : List β → Option β
  | [] => none
  | x :: xs => some (xs.foldl (fun best y => if key best < key y then y else best) x)

/-- Python `min(seq, key=key)`: the first minimal element. -/
def pyMinBy {β γ : Type} [LT γ] [DecidableLT γ] (key : β → γ) : List β → Option β
  | [] => none
  | x :: xs => some (xs.foldl (fun best y => if key y < key best then y else best) x)

abbrev FrontDict (α : Type) := List (List α × Nat)

/-- `front[a] = max(front[a], front[b] + 1)`. -/
def bump (front : FrontDict α) (a b : List α) : FrontDict α :=
  dset front a (max (dget front 0 a) (dget front 0 b + 1))

/-- emo.py:302-319 `splitA`.  The four lists are filled by one pass of `append`s, i.e. they are the
order-preserving filters written here. -/
def splitA (fits : List (List α)) (obj : Nat) : List (List α) × List (List α) :=
  let med2 := median2 fits (fun f => nth f obj)
  let gt := fun (f : List α) => decide (med2 < nth f obj + nth f obj)
  let lt := fun (f : List α) => decide (nth f obj + nth f obj < med2)
  let best_a := fits.filter (fun f => gt f || !lt f)       -- `>` or equal
  let worst_a := fits.filter (fun f => !gt f && lt f)
  let best_b := fits.filter gt
  let worst_b := fits.filter (fun f => !gt f)               -- `<` or equal
  let balance_a := ((best_a.length : Int) - worst_a.length).natAbs
  let balance_b := ((best_b.length : Int) - worst_b.length).natAbs
  if balance_a ≤ balance_b then (best_a, worst_a) else (best_b, worst_b)

/-- emo.py:367-400 `splitB`. -/
def splitB (best worst : List (List α)) (obj : Nat) :
    List (List α) × List (List α) × List (List α) × List (List α) :=
  let med2 := median2 (if best.length > worst.length then best else worst) (fun f => nth f obj)
  let gt := fun (f : List α) => decide (med2 < nth f obj + nth f obj)
  let lt := fun (f : List α) => decide (nth f obj + nth f obj < med2)
  let best1_a := best.filter (fun f => gt f || !lt f)
  let best2_a := best.filter (fun f => !gt f && lt f)
  let best1_b := best.filter gt
  let best2_b := best.filter (fun f => !gt f)
  let worst1_a := worst.filter (fun f => gt f || !lt f)
  let worst2_a := worst.filter (fun f => !gt f && lt f)
  let worst1_b := worst.filter gt
  let worst2_b := worst.filter (fun f => !gt f)
  let balance_a := ((best1_a.length : Int) - best2_a.length + worst1_a.length - worst2_a.length).natAbs
  let balance_b := ((best1_b.length : Int) - best2_b.length + worst1_b.length - worst2_b.length).natAbs
  if balance_a ≤ balance_b then (best1_a, best2_a, worst1_a, worst2_a)
  else (best1_b, best2_b, worst1_b, worst2_b)

structure Stairs (α : Type) where
  stairs : List α
  fstairs : List (List α)

/-- emo.py:327-339, the body of `for fit in fitnesses[1:]` of `sweepA`. -/
def sweepAStep (st : Stairs α × FrontDict α) (fit : List α) : Stairs α × FrontDict α :=
  let (s, front) := st
  let idx := bisectRight s.stairs (-(nth fit 1))
  let front :=
    if 0 < idx ∧ idx ≤ s.stairs.length then
      match pyMaxBy (fun f => dget front 0 f) (s.fstairs.take idx) with
      | some fstair => bump front fit fstair
      | none => front
    else front
  -- `for i, fstair in enumerate(fstairs[idx:], idx): if front[fstair] == front[fit]: del …; break`
  let s := match (s.fstairs.drop idx).findIdx? (fun f => dget front 0 f == dget front 0 fit) with
    | some j => { stairs := s.stairs.eraseIdx (idx + j), fstairs := s.fstairs.eraseIdx (idx + j) : Stairs α }
    | none => s
  ({ stairs := Py.insertAt s.stairs idx (-(nth fit 1)), fstairs := Py.insertAt s.fstairs idx fit }, front)

/-- emo.py:322-339 `sweepA` (called with at least three fitnesses). -/
def sweepA (fits : List (List α)) (front : FrontDict α) : FrontDict α :=
  match fits with
  | [] => front
  | f0 :: rest => (rest.foldl sweepAStep ({ stairs := [-(nth f0 1)], fstairs := [f0] }, front)).2

/-- emo.py:413-425: the body of `while next_best and h[:2] <= next_best[:2]` for one `next_best`. -/
def sweepBInsert (s : Stairs α) (front : FrontDict α) (nb : List α) : Stairs α :=
  let hit := s.fstairs.findIdx? (fun f => dget front 0 f == dget front 0 nb)
  let (insert, s) := match hit with
    | some i =>
      if nth nb 1 < nth (s.fstairs.getD i []) 1 then (false, s)
      else (true, { stairs := s.stairs.eraseIdx i, fstairs := s.fstairs.eraseIdx i : Stairs α })
    | none => (true, s)
  if insert then
    let idx := bisectRight s.stairs (-(nth nb 1))
    { stairs := Py.insertAt s.stairs idx (-(nth nb 1)), fstairs := Py.insertAt s.fstairs idx nb }
  else s

/-- The `while` loop of `sweepB` for one `h`: consume `best` while `h[:2] <= next_best[:2]`.
Returns the stairs and the not yet consumed part of `best` (the iterator state). -/
def sweepBWhile (h : List α) (front : FrontDict α) : List (List α) → Stairs α → Stairs α × List (List α)
  | [], s => (s, [])
  | nb :: rest, s =>
    if Py.tupleLe (h.take 2) (nb.take 2) then sweepBWhile h front rest (sweepBInsert s front nb)
    else (s, nb :: rest)

/-- emo.py:403-431 `sweepB`. -/
def sweepB (best worst : List (List α)) (front : FrontDict α) : FrontDict α :=
  (worst.foldl (fun (st : (Stairs α × List (List α)) × FrontDict α) h =>
    let ((s, bs), front) := st
    let (s, bs) := sweepBWhile h front bs s
    let idx := bisectRight s.stairs (-(nth h 1))
    let front :=
      if 0 < idx ∧ idx ≤ s.stairs.length then
        match pyMaxBy (fun f => dget front 0 f) (s.fstairs.take idx) with
        | some fstair => bump front h fstair
        | none => front
      else front
    ((s, bs), front)) (({ stairs := [], fstairs := [] }, best), front)).2

/-- `key(min(best, key=key))` etc. of emo.py:355-360 (`none` only for an empty list). -/
def minKey (l : List (List α)) (obj : Nat) : Option α := (pyMinBy (fun f => nth f obj) l).map (nth · obj)
def maxKey (l : List (List α)) (obj : Nat) : Option α := (pyMaxBy (fun f => nth f obj) l).map (nth · obj)

/-- `a >= b` on the two optional keys (both present in the branch where it is evaluated). -/
def optGe : Option α → Option α → Bool
  | some a, some b => decide (b ≤ a)
  | _, _ => false

/-- emo.py:346-351 direct comparison branch of `sortNDHelperB`. -/
def helperBDirect (best worst : List (List α)) (obj : Nat) (front : FrontDict α) : FrontDict α :=
  worst.foldl (fun front hi => best.foldl (fun front li =>
    if isDominated (hi.take (obj + 1)) (li.take (obj + 1)) || hi.take (obj + 1) == li.take (obj + 1)
    then bump front hi li else front) front) front

/-- emo.py:292 `len(frozenset(map(itemgetter(obj), fitnesses))) == 1`. -/
def objConstant (fits : List (List α)) (obj : Nat) : Bool :=
  ((fits.map (fun f => nth f obj)).eraseDups).length == 1

/-- emo.py:342-364 `sortNDHelperB(best, worst, obj, front)`.  `none` = the Python recursion would not
make progress (a split returning the input) or `obj` fell to 0 (outside the modelled domain: it
never happens when the top-level call has at least two objectives). -/
def helperB (best worst : List (List α)) (obj : Nat) (front : FrontDict α) : Option (FrontDict α) :=
  if worst.length = 0 ∨ best.length = 0 then some front
  else if best.length = 1 ∨ worst.length = 1 then some (helperBDirect best worst obj front)
  else if h1 : obj = 1 then some (sweepB best worst front)
  else if h0 : obj = 0 then none
  else if optGe (minKey best obj) (maxKey worst obj) then helperB best worst (obj - 1) front
  else if optGe (maxKey best obj) (minKey worst obj) then
    match hs : splitB best worst obj with
    | (best1, best2, worst1, worst2) =>
      if hg : best1.length + worst1.length < best.length + worst.length ∧
              best2.length + worst2.length < best.length + worst.length ∧
              best1.length + worst2.length ≤ best.length + worst.length then
        (helperB best1 worst1 obj front).bind fun front =>
        (helperB best1 worst2 (obj - 1) front).bind fun front =>
        helperB best2 worst2 obj front
      else none
  else some front
termination_by best.length + worst.length + obj
decreasing_by all_goals omega

/-- emo.py:281-299 `sortNDHelperA(fitnesses, obj, front)`. -/
def helperA (fits : List (List α)) (obj : Nat) (front : FrontDict α) : Option (FrontDict α) :=
  if fits.length < 2 then some front
  else if fits.length = 2 then
    let s1 := fits.getD 0 []
    let s2 := fits.getD 1 []
    if isDominated (s2.take (obj + 1)) (s1.take (obj + 1)) then some (bump front s2 s1) else some front
  else if h1 : obj = 1 then some (sweepA fits front)
  else if h0 : obj = 0 then none
  else if objConstant fits obj then helperA fits (obj - 1) front
  else
    match hs : splitA fits obj with
    | (best, worst) =>
      if hg : best.length < fits.length ∧ worst.length < fits.length ∧
              best.length + worst.length ≤ fits.length then
        (helperA best obj front).bind fun front =>
        (helperB best worst (obj - 1) front).bind fun front =>
        helperA worst obj front
      else none
termination_by fits.length + obj
decreasing_by all_goals omega

/-- emo.py:262-272: ranks of the distinct weighted-value tuples and the tuples sorted
lexicographically descending. -/
def logRanks (pop : List (Ind α)) : Option (List (List α) × FrontDict α × List (List α × List (Ind α))) :=
  match pop with
  | [] => none                                                       -- `individuals[0]` raises
  | ind0 :: _ =>
    let unique_fits := pop.foldl (fun d ind => dset d ind.w (dget d [] ind.w ++ [ind])) []   -- 263-265
    let obj := ind0.w.length - 1                                      -- 268
    let fitnesses := dkeys unique_fits                                -- 269
    let front : FrontDict α := fitnesses.map (fun f => (f, 0))        -- 270 `dict.fromkeys`
    -- 273 `fitnesses.sort(reverse=True)`: stable, descending tuple order
    let fitnesses := fitnesses.mergeSort (fun a b => !Py.tupleLt a b)
    (helperA fitnesses obj front).map fun front => (fitnesses, front, unique_fits)   -- 274

/-- emo.py:277-281: distribute the individuals over `max(front.values()) + 1` fronts. -/
def logFronts (fitnesses : List (List α)) (front : FrontDict α)
    (unique_fits : List (List α × List (Ind α))) : List (List (Ind α)) :=
  let nbfronts := (dvalues front).foldl max 0 + 1
  fitnesses.foldl (fun pf fit => pf.modify (dget front 0 fit) (· ++ dget unique_fits [] fit))
    (List.replicate nbfronts [])

/-- emo.py:284-290: `pareto_fronts[:i+1]` for the first `i` with `count >= k`, else all. -/
def logTruncate (fronts : List (List (Ind α))) (k : Nat) : List (List (Ind α)) :=
  let rec go : List (List (Ind α)) → Nat → List (List (Ind α))
    | [], _ => []
    | f :: fs, count => if count + f.length ≥ k then [f] else f :: go fs (count + f.length)
  go fronts 0

/-- `sortLogNondominated(individuals, k)` (`first_front_only=False`) for `k ≥ 0`. -/
def sortLog (pop : List (Ind α)) (k : Nat) : Option (List (List (Ind α))) :=
  if k = 0 then some []
  else (logRanks pop).map fun (fitnesses, front, uf) => logTruncate (logFronts fitnesses front uf) k

/-- `sortLogNondominated(individuals, k, first_front_only=True)`: Python returns the bare first
front (`pareto_fronts[0]`), and `[]` for `k == 0`. -/
def sortLogFirst (pop : List (Ind α)) (k : Nat) : Option (List (Ind α)) :=
  if k = 0 then some []
  else (logRanks pop).map fun (fitnesses, front, uf) => (logFronts fitnesses front uf).headD []

end NDSort
