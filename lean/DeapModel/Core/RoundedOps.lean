/-
C10 — a second, *rounded* semantics for the real-coded operators of `Core/RealOps.lean`.

Import-free apart from `Core/Scalar.lean` (core Lean `Rat` only, no Mathlib).

`XF` is the value set of a floating-point format seen from outside: a finite rational, `+inf`, `-inf` or
`nan`.  An `Arith` is *any* arithmetic on `XF` whose `+ - * /` round the exact rational result with one
function `rnd : Rat → XF` and whose power is a function `pow : XF → XF → XF`; the special values follow
IEEE-754 (`inf - inf`, `0 * inf`, `inf / inf` are `nan`).  `Arith.Lawful` are the only facts the theorems
use: `rnd` is (i) monotone, (ii) exact on the representable numbers (which contain the literals of the
source, the largest finite number `omega`, the guard `eps` and the numbers next to 2 that `random.random()`
can produce), (iii) never `nan`; `pow` returns `nan` only for an invalid operation, is sign-correct,
monotone, and exact at the base 1 and the exponent 1.  Nothing says *how* a result is rounded (to nearest,
towards zero, up to a whole ulp off, flush-to-zero underflow, saturation instead of overflow, …).

`nan` also stands for "Python raises": a float division by zero (`ZeroDivisionError`), a power that overflows
(`OverflowError`), a negative base under a fractional exponent (complex result), `0.0 ** negative`.  So
"the gene is not `nan`" means: a real number or an infinity was computed and no exception was raised.

`XFA A` wraps an `XF` and carries the arithmetic `A` in its type; its `RealLike` instance makes *the same* model
definitions `RealOps.sbxbGene`, `RealOps.polyGene`, … (transcribed from the Python source) run under the
rounded semantics.  The theorems are in `Props/C10.lean` (`C10.clamp_*`, `C10.sbxb_rounded*`,
`C10.poly_rounded*`), the lemmas in `Lemmas/C10Rounded.lean`.

No signed zeros: `-0.0` and `0.0` are the same value here.  This is sound for the value-level claims made
(`-0.0 == 0.0` in every comparison, `0.0 * inf` is `nan` for either sign, and the only operations that can
tell the sign of a zero — `1/±0`, `pow(±0, negative)` — raise in Python and are `nan` here).
-/
import DeapModel.Core.Scalar

namespace RoundedOps

/-- a floating-point value seen from outside -/
inductive XF where
  | fin (q : Rat)
  | pinf
  | ninf
  | nan
  deriving DecidableEq

namespace XF

/-- Python `a < b` on floats: false as soon as a `nan` takes part -/
def lt : XF → XF → Bool
  | fin a, fin b => decide (a < b)
  | fin _, pinf => true
  | ninf, fin _ => true
  | ninf, pinf => true
  | _, _ => false

/-- Python `a <= b` on floats: false as soon as a `nan` takes part -/
def le : XF → XF → Bool
  | fin a, fin b => decide (a ≤ b)
  | fin _, pinf => true
  | ninf, fin _ => true
  | ninf, pinf => true
  | pinf, pinf => true
  | ninf, ninf => true
  | _, _ => false

/-- sign change (exact) -/
def neg : XF → XF
  | fin a => fin (-a)
  | pinf => ninf
  | ninf => pinf
  | nan => nan

/-- `abs` (exact) -/
def abs : XF → XF
  | fin a => fin (if a < 0 then -a else a)
  | pinf => pinf
  | ninf => pinf
  | nan => nan

/-- Python `max(a, b)`: `b if b > a else a` -/
def pmax (a b : XF) : XF := if lt a b then b else a
/-- Python `min(a, b)`: `b if b < a else a` -/
def pmin (a b : XF) : XF := if lt b a then b else a
/-- `min(max(c, xl), xu)` as Python evaluates it -/
def clamp (c xl xu : XF) : XF := pmin (pmax c xl) xu

/-- the exact value of an IEEE-754 binary64 bit pattern -/
def ofBits (b : UInt64) : XF :=
  let n : Nat := b.toNat
  let sign : Nat := n / 2 ^ 63
  let ex : Nat := (n / 2 ^ 52) % 2 ^ 11
  let man : Nat := n % 2 ^ 52
  if ex = 2047 then
    if man = 0 then (if sign = 1 then ninf else pinf) else nan
  else
    let mag : Rat :=
      if ex = 0 then mkRat (man : Int) (2 ^ 1074)
      else if ex < 1075 then mkRat ((2 ^ 52 + man : Nat) : Int) (2 ^ (1075 - ex))
      else ((2 ^ 52 + man) * 2 ^ (ex - 1075) : Nat)
    fin (if sign = 1 then -mag else mag)

end XF

open XF

/-- the magnitudes of a floating-point format that the hypotheses of the theorems mention -/
structure Mag where
  /-- the largest finite number -/
  omega : Rat
  /-- the value the literal `1e-14` is read as -/
  eps : Rat
  /-- the largest value `random.random()` returns -/
  top : Rat
  /-- the smallest positive number of the format -/
  tiny : Rat := 0
  /-- `2^-k` is a number of the format for every `k ≤ kmax` -/
  kmax : Nat := 0
  /-- `math.exp(x)` is finite (no `OverflowError`) for every `x ≤ expmax` -/
  expmax : Rat := 0

/-- IEEE-754 binary64 as CPython uses it: `sys.float_info.max`, `float('1e-14')`, `1 - 2**-53`, the smallest
subnormal `2^-1074`, `math.exp(709.0) = 8.2e307` (and `math.exp(710.0)` raises) -/
def binary64 : Mag where
  omega := ((2 ^ 53 - 1) * 2 ^ 971 : Nat)
  eps := mkRat 6338253001141147 (2 ^ 99)
  top := 1 - mkRat 1 (2 ^ 53)
  tiny := mkRat 1 (2 ^ 1074)
  kmax := 1074
  expmax := 709

/-- a rational lower bound of `ln 2 = 0.693147…` -/
def ln2lo : Rat := 693 / 1000

/-- a rounded arithmetic on `XF` -/
structure Arith extends Mag where
  /-- the representable numbers -/
  rep : Rat → Bool
  /-- the rounding of an exact finite result of `+ - * /` -/
  rnd : Rat → XF
  /-- C `pow` on the values of the format -/
  pow : XF → XF → XF
  /-- C `exp` on the values of the format -/
  exp : XF → XF := fun _ => nan
  /-- C `sqrt` on the values of the format -/
  sqrt : XF → XF := fun _ => nan

namespace Arith
variable (A : Arith)

/-- `a + b` -/
def add : XF → XF → XF
  | fin a, fin b => A.rnd (a + b)
  | nan, _ => nan
  | _, nan => nan
  | pinf, ninf => nan
  | ninf, pinf => nan
  | pinf, _ => pinf
  | _, pinf => pinf
  | ninf, _ => ninf
  | _, ninf => ninf

/-- `a - b` (the value of `a + (-b)`) -/
def sub (a b : XF) : XF := A.add a (neg b)

/-- `a * b`; `0 * inf` is `nan` -/
def mul : XF → XF → XF
  | fin a, fin b => A.rnd (a * b)
  | nan, _ => nan
  | _, nan => nan
  | fin a, pinf => if a = 0 then nan else if 0 < a then pinf else ninf
  | fin a, ninf => if a = 0 then nan else if 0 < a then ninf else pinf
  | pinf, fin b => if b = 0 then nan else if 0 < b then pinf else ninf
  | ninf, fin b => if b = 0 then nan else if 0 < b then ninf else pinf
  | pinf, pinf => pinf
  | ninf, ninf => pinf
  | pinf, ninf => ninf
  | ninf, pinf => ninf

/-- Python `a / b` on floats: a zero divisor raises `ZeroDivisionError` (here `nan`); `inf / inf` is `nan` -/
def div : XF → XF → XF
  | nan, _ => nan
  | _, nan => nan
  | fin a, fin b => if b = 0 then nan else A.rnd (a / b)
  | fin _, pinf => fin 0
  | fin _, ninf => fin 0
  | pinf, fin b => if b = 0 then nan else if 0 < b then pinf else ninf
  | ninf, fin b => if b = 0 then nan else if 0 < b then ninf else pinf
  | _, _ => nan

/-- Python `a ** b` on floats: C `pow`, except that an infinite result of finite operands raises
`OverflowError` (here `nan`) -/
def powPy (a b : XF) : XF :=
  match a, b, A.pow a b with
  | fin _, fin _, pinf => nan
  | fin _, fin _, ninf => nan
  | _, _, r => r

/-- Python `math.exp(a)`: C `exp`, except that an infinite result of a finite argument raises `OverflowError`
(here `nan`); an underflow to `0.0` is returned silently -/
def expPy (a : XF) : XF :=
  match a, A.exp a with
  | fin _, pinf => nan
  | _, r => r

/-- the laws: everything the theorems know about the arithmetic -/
structure Lawful (A : Arith) : Prop where
  /-- (iii) rounding a finite exact result never gives `nan` -/
  rnd_not_nan : ∀ q, A.rnd q ≠ nan
  /-- (i) rounding is monotone -/
  rnd_mono : ∀ q q', q ≤ q' → XF.le (A.rnd q) (A.rnd q') = true
  /-- (ii) a representable exact result is returned as it is -/
  rnd_exact : ∀ q, A.rep q = true → A.rnd q = fin q
  rep_zero : A.rep 0 = true
  rep_one : A.rep 1 = true
  rep_two : A.rep 2 = true
  rep_half : A.rep (1 / 2) = true
  /-- the largest finite number and its negative -/
  rep_omega : A.rep A.omega = true
  rep_neg_omega : A.rep (-A.omega) = true
  omega_ge : 2 ≤ A.omega
  /-- the literal `1e-14` is read as the representable positive number `eps` -/
  eps_lit : A.rnd (1 / 100000000000000) = fin A.eps
  rep_eps : A.rep A.eps = true
  rep_neg_eps : A.rep (-A.eps) = true
  eps_pos : 0 < A.eps
  /-- `random.random()` returns at most `top < 1`; `2 * top` and its distance to 2 are representable and
  the reciprocal of that distance is finite (binary64: `top = 1 - 2^-53`, `2 - 2*top = 2^-52`) -/
  top_lt : A.top < 1
  rep_two_top : A.rep (2 * A.top) = true
  rep_gap : A.rep (2 - 2 * A.top) = true
  gap_inv : 1 / (2 - 2 * A.top) ≤ A.omega
  /-- (iii) `pow` returns `nan` only for an invalid operation: a `nan` operand, a negative base, or a zero
  base under a negative exponent -/
  pow_nan : ∀ x y, A.pow x y = nan → x = nan ∨ y = nan ∨ XF.lt x (fin 0) = true ∨ (x = fin 0 ∧ XF.lt y (fin 0) = true)
  /-- the power of a non-negative base is not negative -/
  pow_sign : ∀ x y, XF.le (fin 0) x = true → A.pow x y = nan ∨ XF.le (fin 0) (A.pow x y) = true
  /-- (ii) `1 ** y = 1` -/
  pow_one_base : ∀ y, y ≠ nan → A.pow (fin 1) y = fin 1
  /-- (ii) `x ** 1 = x` for a representable `x ≥ 0` -/
  pow_one_exp : ∀ q, A.rep q = true → 0 ≤ q → A.pow (fin q) (fin 1) = fin q
  /-- (i) monotone in a non-negative base under an exponent `≥ 0` -/
  pow_mono_base : ∀ a b y, XF.le (fin 0) a = true → XF.le a b = true → XF.le (fin 0) y = true →
    XF.le (A.pow a y) (A.pow b y) = true
  /-- (i) antitone in a positive base under an exponent `≤ 0` -/
  pow_anti_base : ∀ a b y, XF.lt (fin 0) a = true → XF.le a b = true → XF.le y (fin 0) = true →
    XF.le (A.pow b y) (A.pow a y) = true
  /-- (i) monotone in the exponent for a base `≥ 1` -/
  pow_mono_exp : ∀ a y y', XF.le (fin 1) a = true → XF.le y y' = true → XF.le (A.pow a y) (A.pow a y') = true

/-- the laws of `exp` (used by the theorems on `mutESLogNormal` only).  `exp_ge_pow2` is the one quantitative law: the
computed `exp(x)` is at least `2^-k` whenever `x ≥ -k * 0.693` (then `e^x ≥ 2^-k * e^(0.000147 k)`) and `2^-k` is a
number of the format — true of every `exp` whose result is a monotone rounding of a value within an ulp of `e^x`.
Nothing is said about arguments below `-kmax * 0.693`: there `exp` may underflow to `0`. -/
structure LawfulExp (A : Arith) : Prop where
  /-- the smallest positive number is representable and positive -/
  rep_tiny : A.rep A.tiny = true
  tiny_pos : 0 < A.tiny
  /-- `exp` of a finite argument `≤ expmax` is a finite number (no `OverflowError`) -/
  exp_fin : ∀ x, x ≤ A.expmax → ∃ e, A.exp (fin x) = fin e
  /-- `exp(x) ≥ 2^-k` for `x ≥ -k * ln2lo`, `k ≤ kmax` -/
  exp_ge_pow2 : ∀ (k : Nat) (x e : Rat), k ≤ A.kmax → -(k : Rat) * ln2lo ≤ x → A.exp (fin x) = fin e →
    1 / 2 ^ k ≤ e

end Arith

/-- a value of `XF` carrying the arithmetic `A` in its type, so that the `RealLike` operations are those of `A` -/
structure XFA (A : Arith) where
  val : XF

instance (A : Arith) : RealLike (XFA A) where
  add a b := ⟨A.add a.val b.val⟩
  sub a b := ⟨A.sub a.val b.val⟩
  mul a b := ⟨A.mul a.val b.val⟩
  div a b := ⟨A.div a.val b.val⟩
  neg a := ⟨XF.neg a.val⟩
  lt a b := XF.lt a.val b.val = true
  le a b := XF.le a.val b.val = true
  ofNat n := ⟨fin (n : Rat)⟩
  ofRatio n d := ⟨A.rnd ((n : Rat) / (d : Rat))⟩
  sqrt a := ⟨A.sqrt a.val⟩
  exp a := ⟨A.expPy a.val⟩
  log _ := ⟨nan⟩
  sin _ := ⟨nan⟩
  cos _ := ⟨nan⟩
  pi := ⟨nan⟩
  pow a b := ⟨A.powPy a.val b.val⟩
  abs a := ⟨XF.abs a.val⟩
  decLt a b := inferInstanceAs (Decidable (XF.lt a.val b.val = true))
  decLe a b := inferInstanceAs (Decidable (XF.le a.val b.val = true))

/-! ### the hypotheses of the NaN-freedom theorems, as decidable predicates on the exact inputs -/

/-- bounded SBX at one locus, magnitudes: `eta ≥ 0` with `eta + 1` finite, both parents inside `[xl, xu]`, the
width `xu - xl` and the sum `a + b` of the parents finite.  (The guard `abs(a - b) > 1e-14` is evaluated by the
operator itself.) -/
def sbxbMag (M : Mag) (eta a b xl xu : Rat) : Bool :=
  decide (0 ≤ eta) && decide (eta + 1 ≤ M.omega) &&
  decide (xl ≤ a) && decide (a ≤ xu) && decide (xl ≤ b) && decide (b ≤ xu) &&
  decide (xu - xl ≤ M.omega) &&
  decide (-M.omega ≤ a + b) && decide (a + b ≤ M.omega)

/-- a draw of `random.random()` as bounded SBX needs it: in `[0, top]` -/
def drawTop (M : Mag) (rand : Rat) : Bool := decide (0 ≤ rand) && decide (rand ≤ M.top)

/-- bounded SBX at one locus: magnitudes and shaping draw -/
def sbxbHyp (M : Mag) (eta a b xl xu rand : Rat) : Bool := sbxbMag M eta a b xl xu && drawTop M rand

/-- which clause of `sbxbHyp` fails first (`ok` when none does) -/
def sbxbWhy (M : Mag) (eta a b xl xu rand : Rat) : String :=
  if ¬ (0 ≤ eta ∧ eta + 1 ≤ M.omega) then "eta"
  else if ¬ (xl ≤ a ∧ a ≤ xu ∧ xl ≤ b ∧ b ≤ xu) then "box"
  else if ¬ (xu - xl ≤ M.omega) then "width"
  else if ¬ (-M.omega ≤ a + b ∧ a + b ≤ M.omega) then "sum"
  else if ¬ (0 ≤ rand ∧ rand ≤ M.top) then "rand"
  else "ok"

/-- bounded polynomial mutation at one locus, magnitudes: `eta ≥ 0` with `eta + 1` finite, the gene inside
`[xl, xu]`, the width `xu - xl` finite and at least the guard `eps` -/
def polyMag (M : Mag) (eta x xl xu : Rat) : Bool :=
  decide (0 ≤ eta) && decide (eta + 1 ≤ M.omega) &&
  decide (xl ≤ x) && decide (x ≤ xu) &&
  decide (M.eps ≤ xu - xl) && decide (xu - xl ≤ M.omega)

/-- a draw of `random.random()`: in `[0, 1)` -/
def drawUnit (rand : Rat) : Bool := decide (0 ≤ rand) && decide (rand < 1)

/-- bounded polynomial mutation at one locus: magnitudes and draw -/
def polyHyp (M : Mag) (eta x xl xu rand : Rat) : Bool := polyMag M eta x xl xu && drawUnit rand

/-- which clause of `polyHyp` fails first (`ok` when none does) -/
def polyWhy (M : Mag) (eta x xl xu rand : Rat) : String :=
  if ¬ (0 ≤ eta ∧ eta + 1 ≤ M.omega) then "eta"
  else if ¬ (xl ≤ x ∧ x ≤ xu) then "box"
  else if ¬ (M.eps ≤ xu - xl) then "narrow"
  else if ¬ (xu - xl ≤ M.omega) then "width"
  else if ¬ (0 ≤ rand ∧ rand < 1) then "rand"
  else "ok"

/-! ### `mutESLogNormal`: the magnitude hypothesis of the positivity theorem -/

/-- One mutated locus of `mutESLogNormal` (:240): strategy `s`, the exponent argument `a = t0_n + t * gauss` as the
code computed it, and a witness `k`: `s > 0`, `a ≤ expmax` (no `OverflowError`), `k ≤ kmax` with `-k * 0.693 ≤ a`
(so `exp(a) ≥ 2^-k`, no underflow of `exp` to `0`) and `s * 2^-k` at least the smallest positive number (no
underflow of the product to `0`). -/
def lognMag (M : Mag) (s a : Rat) (k : Nat) : Bool :=
  decide (0 < s) && decide (a ≤ M.expmax) && decide (k ≤ M.kmax) && decide (-(k : Rat) * ln2lo ≤ a) &&
  decide (M.tiny ≤ s / 2 ^ k)

/-- the smallest `k` with `-k * ln2lo ≤ a` -/
def lognK (a : Rat) : Nat := (Rat.ceil (-a / ln2lo)).toNat

/-- which clause of `lognMag M s a (lognK a)` fails first (`ok` when none does) -/
def lognWhy (M : Mag) (s a : Rat) : String :=
  if ¬ 0 < s then "strategy"
  else if ¬ a ≤ M.expmax then "overflow"
  else if ¬ lognK a ≤ M.kmax then "expunderflow"
  else if ¬ -(lognK a : Rat) * ln2lo ≤ a then "k"
  else if ¬ M.tiny ≤ s / 2 ^ lognK a then "underflow"
  else "ok"

end RoundedOps
