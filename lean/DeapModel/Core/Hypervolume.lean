/-
C15 — hypervolume (exact `Rat`, import-free, executable).

This is a SPECIFICATION-level model.  The Fonseca–Paquete–López-Ibáñez dimension sweep of
`deap/tools/_hypervolume/_hv.c` (`hv_recursive`, l.704-1023, with AVL tree and area/volume caches) and
its pure-Python port `pyhv.py` (`_HyperVolume.hvRecursive`, l.102-176) are NOT transcribed; both are
validated against `hvSlice` below by the correspondence run.  What is transcribed statement by
statement are the two wrappers:
  * `deap/benchmarks/tools.py:306-318`  `hypervolume(front, ref=None)`      → `populationHV`
  * `deap/tools/indicator.py:11-32`     `hypervolume(front, **kargs)`       → `leastContributor`

Conventions.  A point is a `List Rat`; minimisation is implicit (as in the code): the box of a
point `p` w.r.t. the reference point `ref` is `∏ⱼ [pⱼ, refⱼ)`, empty as soon as some `pⱼ ≥ refⱼ`.
The dimension is `ref.length`; a point is read through `headD 0` / `tail`, i.e. padded with zeros /
truncated to that dimension (a totalisation: the C wrapper `hv.cpp:85-87` rejects a reference whose
length differs from the points', and every theorem that speaks about ℝᵈ assumes equal lengths).
-/
namespace Hypervolume

abbrev Pt := List Rat

/-- Insert into a strictly ascending list, dropping a value already present. -/
def insertUniq (x : Rat) : List Rat → List Rat
  | [] => [x]
  | y :: ys => if x < y then x :: y :: ys else if x = y then y :: ys else y :: insertUniq x ys

/-- The distinct values of a list in ascending order. -/
def sortDedup (l : List Rat) : List Rat := l.foldr insertUniq []

/-- Breakpoints of one coordinate axis: the distinct values `≤ r` among `r :: xs`, ascending
(so `r` is the last one).  Values beyond the reference never bound a cell. -/
def axisOf (r : Rat) (xs : List Rat) : List Rat := sortDedup ((r :: xs).filter (fun x => decide (x ≤ r)))

/-- Consecutive pairs `(lo, hi)` of a breakpoint list. -/
def intervals : List Rat → List (Rat × Rat)
  | a :: b :: t => (a, b) :: intervals (b :: t)
  | _ => []

/-- One breakpoint list per coordinate (coordinate 0 first). -/
def axes : List Rat → List Pt → List (List Rat)
  | [], _ => []
  | r :: ref, pts => axisOf r (pts.map (fun p => p.headD 0)) :: axes ref (pts.map List.tail)

/-- All cells of the grid spanned by the breakpoint lists: one interval per coordinate. -/
def cells : List (List Rat) → List (List (Rat × Rat))
  | [] => [[]]
  | ax :: rest => (intervals ax).flatMap (fun iv => (cells rest).map (fun c => iv :: c))

/-- Volume of a cell. -/
def cellVol : List (Rat × Rat) → Rat
  | [] => 1
  | iv :: c => (iv.2 - iv.1) * cellVol c

/-- `p ≤` lower corner of the cell, componentwise. -/
def below : Pt → List (Rat × Rat) → Bool
  | _, [] => true
  | p, iv :: c => decide (p.headD 0 ≤ iv.1) && below p.tail c

/-- The cell lies in the box of some point. -/
def covered (pts : List Pt) (c : List (Rat × Rat)) : Bool := pts.any (fun p => below p c)

def sumRat (l : List Rat) : Rat := l.foldr (· + ·) 0

/-- Σ over the cells of the grid `A` of `vol(cell)·[∃ p ∈ pts, p ≤ lower corner]`. -/
def hvGrid (A : List (List Rat)) (pts : List Pt) : Rat :=
  sumRat ((cells A).map (fun c => if covered pts c then cellVol c else 0))

/-- **The specification**: compress every coordinate axis to the sorted distinct values occurring in
`pts ∪ {ref}` (at or below the reference); the union of the boxes `[p, ref)` is a union of cells of
that grid, and its measure is the finite sum of the volumes of the covered cells. -/
def hvCells (ref : List Rat) (pts : List Pt) : Rat := hvGrid (axes ref pts) pts

/-- The points at or below the slab starting at `lo` in the leading coordinate, projected. -/
def sub (pts : List Pt) (lo : Rat) : List Pt :=
  (pts.filter (fun p => decide (p.headD 0 ≤ lo))).map List.tail

/-- Σ over consecutive breakpoints of `(hi - lo) * g lo`. -/
def stepSum (ax : List Rat) (g : Rat → Rat) : Rat :=
  sumRat ((intervals ax).map (fun iv => (iv.2 - iv.1) * g iv.1))

/-- **The executable definition** used by the driver: slicing recursion.  Dimension 0: 1 if there is
a point, else 0.  Otherwise, for each slab between consecutive distinct values of the leading
coordinate (the last slab ends at the reference): thickness × (d−1)-dimensional hypervolume of the
points at or below the slab.  (The implementations sweep on the *last* coordinate; `hvCells` is
symmetric in the coordinates, for lists the leading one is the natural choice.) -/
def hvSlice : List Rat → List Pt → Rat
  | [], pts => if pts.isEmpty then 0 else 1
  | r :: ref, pts =>
      stepSum (axisOf r (pts.map (fun p => p.headD 0))) (fun lo => hvSlice ref (sub pts lo))

/-- Volume of the box `[p, ref)` (0 if empty). -/
def boxVol : List Rat → Pt → Rat
  | [], _ => 1
  | r :: ref, p => (if p.headD 0 < r then r - p.headD 0 else 0) * boxVol ref p.tail

/-- Componentwise maximum (the corner of the intersection of two boxes), in the dimension of `ref`. -/
def pmax : List Rat → Pt → Pt → Pt
  | [], _, _ => []
  | _ :: ref, p, q => (if p.headD 0 ≤ q.headD 0 then q.headD 0 else p.headD 0) :: pmax ref p.tail q.tail

/-- Inclusion–exclusion recursion `hv(q :: S) = hv(S) + vol[q, ref) − hv({max(p, q) | p ∈ S})`
(exponential; specification only, used to tie `hvCells` to the Lebesgue measure). -/
def hvIE (ref : List Rat) : List Pt → Rat
  | [] => 0
  | q :: S => hvIE ref S + boxVol ref q - hvIE ref (S.map (fun p => pmax ref p q))
termination_by S => S.length
decreasing_by all_goals simp

/-! ### Wrappers (transcribed) -/

/-- `Fitness.wvalues = tuple(map(mul, values, weights))` (`deap/base.py` setValues). -/
def wvalues (weights values : List Rat) : List Rat := List.zipWith (· * ·) values weights

/-- `numpy.array([ind.fitness.wvalues for ind in front]) * -1`
(`benchmarks/tools.py:314`, `indicator.py:18`). -/
def wobj (weights : List Rat) (vals : List (List Rat)) : List Pt :=
  vals.map (fun v => (wvalues weights v).map (fun x => x * (-1)))

def maxRat (a b : Rat) : Rat := if a ≤ b then b else a

/-- `numpy.max(wobj, axis=0) + 1` (`benchmarks/tools.py:316`, `indicator.py:21`); numpy raises on an
empty array — here `[]`. -/
def defaultRef : List Pt → List Rat
  | [] => []
  | p :: ps => (ps.foldl (fun acc q => List.zipWith maxRat acc q) p).map (· + 1)

/-- `benchmarks.tools.hypervolume(front, ref=None)` (l.306-318). -/
def populationHV (weights : List Rat) (vals : List (List Rat)) (ref : Option (List Rat)) : Rat :=
  let pts := wobj weights vals                      -- l.314
  let r := match ref with                           -- l.315-316
    | none => defaultRef pts
    | some r => r
  hvSlice r pts                                     -- l.318

/-- `numpy.argmax` of a list: the index of the first maximal entry (0 on the empty list, where numpy
raises).  Right-to-left formulation: the head wins unless a strictly larger entry follows. -/
def argmaxFirst : List Rat → Nat
  | [] => 0
  | [_] => 0
  | x :: y :: t =>
    let j := argmaxFirst (y :: t)
    if x < (y :: t).getD j 0 then j + 1 else 0

/-- `contribution(i)` for every `i` (`indicator.py:23-29`): the hypervolume of the set without point `i`. -/
def looValues (ref : List Rat) (pts : List Pt) : List Rat :=
  (List.range pts.length).map (fun i => hvSlice ref (pts.eraseIdx i))

/-- `tools.indicator.hypervolume(front, ref=…)` (l.11-32). -/
def leastContributor (weights : List Rat) (vals : List (List Rat)) (ref : Option (List Rat)) : Nat :=
  let pts := wobj weights vals                      -- l.18
  let r := match ref with                           -- l.19-21
    | none => defaultRef pts
    | some r => r
  argmaxFirst (looValues r pts)                     -- l.23-32

end Hypervolume
