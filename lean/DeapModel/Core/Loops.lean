/-
C03 — model of the packaged evolutionary loops:
`deap/algorithms.py` `eaSimple` (85-189), `eaMuPlusLambda` (248-338), `eaMuCommaLambda` (341-438),
`eaGenerateUpdate` (441-503) and `deap/gp.py` `harm` (956-1153).

Core Lean only (imports the C02 model of `varAnd`/`varOr`).  Executable.

One generational machine `generation` — produce the offspring, evaluate, show them to the hall of fame,
replace the population, record — is instantiated by a `Step` per loop and per generation:

    loop              produce                                   evaluate         replace
    eaSimple          select(pop, len(pop)); varAnd             invalid ones     population[:] = offspring
    eaMuPlusLambda    varOr(pop, lambda)                        invalid ones     select(pop + offspring, mu)
    eaMuCommaLambda   varOr(pop, lambda)                        invalid ones     select(offspring, mu)
    harm              _genpop (natural) ; _genpop (accepted)    invalid ones     population[:] = offspring
    eaGenerateUpdate  toolbox.generate()                        ALL              toolbox.update (may reorder)

`toolbox.select` is a decision on the tape: the POSITIONS of the chosen individuals in the list the selector
was given (any selector that returns k members of its input is such a position list); the machine rejects a
selection of the wrong length or with a position outside the list.  `toolbox.evaluate` is a pure parameter
`ev : genome → fitness`.  HARM-GP's `_genpop` is generic in how `acceptfunc` is decided: `harmStep` reads each
result off the tape (control flow only), `harmStepR` computes it from the recorded `random()` draw with the
histogram / cutoff / target-distribution arithmetic of gp.py 1084-1122 (polymorphic in `RealLike`).

Ghost state: `log` (gen, nevals) records, `shown` (what `halloffame.update` received), `evals` (gen, oid) —
the calls of `toolbox.evaluate`.
-/
import DeapModel.Core.Variation
import DeapModel.Core.Scalar

namespace Loops
open Variation

structure LState where
  st : St
  /-- the caller's `population` list object (its content; `population[:] = …` assigns to it) -/
  pop : List Nat
  log : List (Nat × Nat) := []
  shown : List Nat := []
  /-- the same feed with the content (genome, fitness) each individual had when it was shown -/
  shownObj : List (Nat × Obj) := []
  evals : List (Nat × Nat) := []

/-- `[ind for ind in l if not ind.fitness.valid]` -/
def invalidOf (h : Heap) (l : List Nat) : List Nat := l.filter (fun o => (h o).fit.isNone)

/-- `for ind, fit in zip(invalid_ind, map(evaluate, invalid_ind)): ind.fitness.values = fit` -/
def assignFits (ev : List Int → List Int) : Heap → List Nat → Heap
  | h, [] => h
  | h, o :: os => assignFits ev (h.set o { h o with fit := some (ev (h o).genome) }) os

/-- Evaluation block + `halloffame.update(l)`: with `all = false` the invalid members of `l` are evaluated
(algorithms.py 149-155, 171-178, 300-306, 319-326, 398-404, 420-427; gp.py 1073-1079, 1135-1142), with
`all = true` every member (eaGenerateUpdate 487-493).  Returns the new state and `nevals`. -/
def evalPhase (ev : List Int → List Int) (all : Bool) (g : Nat) (s : LState) (l : List Nat) : LState × Nat :=
  let inv := if all then l else invalidOf s.st.heap l
  ({ s with st := { s.st with heap := assignFits ev s.st.heap inv },
            shown := s.shown ++ l,
            shownObj := s.shownObj ++ l.map (fun o => (o, assignFits ev s.st.heap inv o)),
            evals := s.evals ++ inv.map (fun o => (g, o)) }, inv.length)

/-! Executable counterpart of `evalPhase` (same function, proved equal, used by compiled code through `csimp`):
`assignFits` returns a heap, i.e. a function, so compiled code would re-run the whole assignment loop at every
later lookup; the boxed fold below is run once. -/

structure HeapBox where
  h : Heap

def assignFitsB (ev : List Int → List Int) : HeapBox → List Nat → HeapBox
  | b, [] => b
  | b, o :: os => assignFitsB ev ⟨b.h.set o { b.h o with fit := some (ev (b.h o).genome) }⟩ os

theorem assignFitsB_h (ev : List Int → List Int) (l : List Nat) (b : HeapBox) :
    (assignFitsB ev b l).h = assignFits ev b.h l := by
  induction l generalizing b with
  | nil => rfl
  | cons o os ih => simp only [assignFitsB, assignFits, ih]

def evalPhaseFast (ev : List Int → List Int) (all : Bool) (g : Nat) (s : LState) (l : List Nat) : LState × Nat :=
  let inv := if all then l else invalidOf s.st.heap l
  let hb := assignFitsB ev ⟨s.st.heap⟩ inv
  ({ s with st := { s.st with heap := hb.h },
            shown := s.shown ++ l,
            shownObj := s.shownObj ++ l.map (fun o => (o, hb.h o)),
            evals := s.evals ++ inv.map (fun o => (g, o)) }, inv.length)

@[csimp] theorem evalPhase_eq_fast : @evalPhase = @evalPhaseFast := by
  funext ev all g s l
  simp only [evalPhase, evalPhaseFast, assignFitsB_h]

/-- Generation 0 of the four population-based loops: evaluate the invalid individuals of the initial
population, show the population to the hall of fame, record `gen=0`. -/
def gen0 (ev : List Int → List Int) (s : LState) : LState :=
  let r := evalPhase ev false 0 s s.pop
  { r.1 with log := r.1.log ++ [(0, r.2)] }

/-- What distinguishes the loops: how one generation produces its offspring and how the next population
is formed.  (The decisions of that generation are baked into the two functions.) -/
structure Step (σ : Type) where
  produce : σ → St → List Nat → Option (Res σ)
  /-- heap, old population, offspring ↦ next population -/
  replace : Heap → List Nat → List Nat → Option (List Nat)
  evalAll : Bool := false

/-- One generation `g ≥ 1` (or `g ≥ 0` for generate–update), in the source order of the statements. -/
def generation {σ : Type} (ev : List Int → List Int) (stp : Step σ) (g : Nat) (t : σ) (s : LState) :
    Option (σ × LState) :=
  match stp.produce t s.st s.pop with                     -- offspring = select/var…(population)
  | none => none
  | some r =>
    let e := evalPhase ev stp.evalAll g { s with st := r.st } r.off     -- evaluate; halloffame.update(offspring)
    match stp.replace e.1.st.heap s.pop r.off with        -- population[:] = …
    | none => none
    | some np => some (r.tape, { e.1 with pop := np, log := e.1.log ++ [(g, e.2)] })   -- logbook.record

def runGens {σ : Type} (ev : List Int → List Int) : List (Step σ) → Nat → σ → LState → Option (σ × LState)
  | [], _, t, s => some (t, s)
  | stp :: rest, g, t, s =>
    match generation ev stp g t s with
    | none => none
    | some (t1, s1) => runGens ev rest (g + 1) t1 s1

/-- eaSimple / eaMuPlusLambda / eaMuCommaLambda / harm: generation 0, then `for gen in range(1, ngen+1)`. -/
def runPop {σ : Type} (ev : List Int → List Int) (steps : List (Step σ)) (t : σ) (s : LState) :=
  runGens ev steps 1 t (gen0 ev s)

/-- eaGenerateUpdate: `for gen in range(ngen)`, no generation 0. -/
def runGU {σ : Type} (ev : List Int → List Int) (steps : List (Step σ)) (t : σ) (s : LState) :=
  runGens ev steps 0 t s

/-! ### Selection as positions -/

/-- The individuals at the given positions; `none` if a position is outside the list. -/
def pickAll (l : List Nat) : List Nat → Option (List Nat)
  | [] => some []
  | i :: is =>
    match l[i]?, pickAll l is with
    | some x, some xs => some (x :: xs)
    | _, _ => none

/-- weighted fitness values as Python compares them (`wvalues`; `()` when invalid) -/
def fitKey (h : Heap) (o : Nat) : List Int := (h o).fit.getD []

/-- `a.wvalues <= b.wvalues` as Python compares tuples (core's lexicographic order on lists; named here so
that theorem files importing Mathlib refer to the same order as the model) -/
def keyLe (a b : List Int) : Prop := a ≤ b

/-- `tools.selBest`: `sorted(individuals, key=attrgetter("fitness"), reverse=True)[:k]` — stable, descending
in the lexicographic order of the weighted values. -/
def selBest (h : Heap) (l : List Nat) (k : Nat) : List Nat :=
  (l.mergeSort (fun a b => decide (fitKey h b ≤ fitKey h a))).take k

/-! ### eaSimple -/

structure SimpleDec where
  sel : List Nat          -- toolbox.select(population, len(population)): positions in `population`
  mateD : List Bool       -- varAnd: random() < cxpb, per adjacent pair
  mutD : List Bool        -- varAnd: random() < mutpb, per index

def simpleStep {σ : Type} (ops : Ops σ) (d : SimpleDec) : Step σ where
  produce := fun t st pop =>
    if d.sel.length = pop.length then                      -- line 165
      match pickAll pop d.sel with
      | none => none
      | some chosen => varAnd ops t st chosen d.mateD d.mutD    -- line 168
    else none
  replace := fun _ _ off => some off                       -- line 181

/-! ### eaMuPlusLambda / eaMuCommaLambda -/

structure MuLamDec where
  choices : List Choice   -- varOr
  envSel : List Nat       -- toolbox.select(candidates, mu): positions in the candidate list

def plusStep {σ : Type} (ops : Ops σ) (mu lam : Nat) (d : MuLamDec) : Step σ where
  produce := fun t st pop => varOr ops t st pop lam d.choices                      -- line 316
  replace := fun _ pop off =>                                                    -- line 329
    if d.envSel.length = mu then pickAll (pop ++ off) d.envSel else none

def commaStep {σ : Type} (ops : Ops σ) (mu lam : Nat) (d : MuLamDec) : Step σ where
  produce := fun t st pop => varOr ops t st pop lam d.choices                      -- line 417
  replace := fun _ _ off =>                                                      -- line 430
    if d.envSel.length = mu then pickAll off d.envSel else none

/-- μ+λ with truncation selection `toolbox.select = tools.selBest`. -/
def plusBestStep {σ : Type} (ops : Ops σ) (mu lam : Nat) (choices : List Choice) : Step σ where
  produce := fun t st pop => varOr ops t st pop lam choices
  replace := fun h pop off => some (selBest h (pop ++ off) mu)

/-- line 395: `assert lambda_ >= mu`. -/
def commaAssert (mu lam : Nat) : Bool := decide (mu ≤ lam)

/-! ### gp.harm -/

/-- One turn of the `while len(producedpop) < n` loop of `_genpop` (gp.py 1019-1055).  `δ` is what is
recorded for an `acceptfunc` call: its Boolean result (`δ = Bool`, control flow only) or the `random()`
draw it compared (`δ` = the scalar type, acceptance arithmetic modelled). -/
inductive HStep (δ : Type) where
  | pick (acc : δ)                       -- pickfrom.pop(); acceptfunc(len(aspirant))
  | cx (i j : Nat) (acc1 acc2 : δ)       -- opRandom < cxpb; toolbox.select(population, 2) → positions i, j
  | mutn (i : Nat) (acc : δ)             -- opRandom - cxpb < mutpb; toolbox.select(population, 1) → position i
  | rep (i : Nat) (acc : δ)              -- neither: the clone itself is the aspirant

/-- what is recorded for the `acceptfunc` calls of a turn, one per aspirant -/
def HStep.accs {δ : Type} : HStep δ → List δ
  | .cx _ _ a1 a2 => [a1, a2]
  | .mutn _ a => [a]
  | .rep _ a => [a]
  | .pick a => [a]

/-- The aspirants generated by one non-`pick` turn (lines 1033-1054), before acceptance. -/
def harmGen {σ δ : Type} (ops : Ops σ) (pop : List Nat) (t : σ) (s : St) : HStep δ → Option (σ × St × List Nat)
  | .pick _ => none
  | .cx i j _ _ =>
    match pop[i]?, pop[j]? with
    | some p, some q =>
      let c1 := clone s p                                 -- map(toolbox.clone, toolbox.select(population, 2))
      let c2 := clone c1.1 q
      let r := ops.mate t c2.1.heap c2.1.next c1.2 c2.2
      -- del aspirant1.fitness.values, aspirant2.fitness.values
      some (r.tape, { heap := delFit (delFit r.heap r.fst) r.snd, next := r.next,
                      log := c2.1.log ++ [Ev.mate c1.2 c2.2] }, [r.fst, r.snd])
    | _, _ => none
  | .mutn i _ =>
    match pop[i]? with
    | some p =>
      let c := clone s p
      let r := ops.mutate t c.1.heap c.1.next c.2         -- aspirant = toolbox.mutate(aspirant)[0]
      some (r.tape, { heap := delFit r.heap r.ret, next := r.next, log := c.1.log ++ [Ev.mutate c.2] }, [r.ret])
    | none => none
  | .rep i _ =>
    match pop[i]? with
    | some p => let c := clone s p; some (t, c.1, [c.2])
    | none => none

/-- The aspirants of one turn, each in turn: `if [len(producedpop) < n and] acceptfunc(len(aspirant)):
producedpop.append(aspirant)` (the length test is vacuous for the first aspirant of a turn).  The third
list holds the results of `acceptfunc` for the aspirants. -/
def acceptInto (n : Nat) : List Nat → List Nat → List Bool → List Nat
  | produced, a :: as, c :: cs =>
    acceptInto n (if produced.length < n && c then produced ++ [a] else produced) as cs
  | produced, _, _ => produced

/-- `_genpop(n, pickfrom, acceptfunc)`.  `accept st o d` is `acceptfunc(len(o))` evaluated in state `st` with
recorded datum `d` (`fun _ _ _ => true` is the default `acceptfunc = lambda s: True`).  `produced` is
built in order; `pickfrom.pop()` takes the LAST element.  The turn list must be used up exactly when `n`
individuals have been produced. -/
def genpop {σ δ : Type} (ops : Ops σ) (pop : List Nat) (n : Nat) (accept : St → Nat → δ → Bool) :
    List (HStep δ) → σ → St → (pickfrom produced : List Nat) → Option (σ × St × List Nat × List Nat)
  | [], t, s, pickfrom, produced => if produced.length = n then some (t, s, pickfrom, produced) else none
  | stp :: rest, t, s, pickfrom, produced =>
    if produced.length < n then
      match stp, pickfrom.getLast? with
      | .pick acc, some a =>                                            -- lines 1024-1031
        genpop ops pop n accept rest t s pickfrom.dropLast (if accept s a acc then produced ++ [a] else produced)
      | .pick _, none => none
      | _, some _ => none                                               -- pickfrom not empty: must pick
      | g, none =>
        match harmGen ops pop t s g with
        | none => none
        | some (t1, s1, asp) =>
          genpop ops pop n accept rest t1 s1 []
            (acceptInto n produced asp (List.zipWith (fun a d => accept s1 a d) asp g.accs))
    else none

structure HarmDec (δ : Type) where
  natural : List (HStep δ)     -- turns of `_genpop(nbrindsmodel, producesizes=True)`
  accepted : List (HStep δ)    -- turns of `_genpop(len(population), pickfrom=naturalpop, acceptfunc=acceptfunc)`

/-- One HARM generation's offspring, for any way `mkAccept` of building the acceptance function of the second
`_genpop` from the state after the first one (the natural population and its sizes/fitnesses): -/
def harmStepG {σ δ : Type} (ops : Ops σ) (nbr : Nat)
    (mkAccept : St → (pop natural : List Nat) → Option (St → Nat → δ → Bool)) (d : HarmDec δ) : Step σ where
  produce := fun t st pop =>
    match genpop ops pop nbr (fun _ _ _ => true) d.natural t st [] [] with     -- line 1082
    | none => none
    | some (t1, s1, _, naturalpop) =>
      match mkAccept s1 pop naturalpop with                                 -- lines 1084-1128
      | none => none
      | some accept =>
        match genpop ops pop pop.length accept d.accepted t1 s1 naturalpop [] with   -- line 1132
        | none => none
        | some (t2, s2, _, offspring) => some ⟨t2, s2, offspring⟩
  replace := fun _ _ off => some off                                     -- line 1145

/-- control flow only: every `acceptfunc` result is read off the tape -/
def harmStep {σ : Type} (ops : Ops σ) (nbr : Nat) (d : HarmDec Bool) : Step σ :=
  harmStepG ops nbr (fun _ _ _ => some (fun _ _ b => b)) d

/-! #### HARM-GP acceptance arithmetic (gp.py 1084-1128), polymorphic in the scalar -/

section HarmArith
variable {α : Type} [RealLike α]

structure HarmParams (α : Type) where
  alpha : α
  beta : α
  gamma : α
  mincutoff : Nat
  /-- `int(len(population) * rho - 1)` as computed by Python (a slice start: may be negative) -/
  cutidx : Int

/-- line 1058: `x * float(alpha) + beta` -/
def halflife (p : HarmParams α) (x : Nat) : α := RealLike.ofNat x * p.alpha + p.beta

/-- `hist[i] += v` -/
def bump (h : List α) (i : Nat) (v : α) : List α := h.mapIdx (fun j x => if j = i then x + v else x)

/-- lines 1086-1094, one individual of size `s ≥ 1` (kernel density estimation) -/
def bumpSize (h : List α) (s : Nat) : List α :=
  let h1 := bump h s (RealLike.ofRatio 2 5)                 -- naturalhist[indsize] += 0.4
  let h2 := bump h1 (s - 1) (RealLike.ofRatio 1 5)          -- naturalhist[indsize - 1] += 0.2
  let h3 := bump h2 (s + 1) (RealLike.ofRatio 1 5)          -- naturalhist[indsize + 1] += 0.2
  let h4 := bump h3 (s + 2) (RealLike.ofRatio 1 10)         -- naturalhist[indsize + 2] += 0.1
  if 2 ≤ s then bump h4 (s - 2) (RealLike.ofRatio 1 10) else h4    -- if indsize - 2 >= 0: … += 0.1

/-- lines 1084-1097: the normalised natural histogram; `none` where the code cannot be meant to run
(an empty natural population makes `max()` raise; a size 0 would index `[-1]`). -/
def naturalHist (sizes : List Nat) (npop nbr : Nat) : Option (List α) :=
  match sizes.max? with
  | none => none
  | some m =>
    if sizes.all (fun s => decide (1 ≤ s)) then
      let raw := sizes.foldl bumpSize (List.replicate (m + 3) (RealLike.ofNat 0))
      -- [val * len(population) / nbrindsmodel for val in naturalhist]
      some (raw.map (fun v => v * RealLike.ofNat npop / RealLike.ofNat nbr))
    else none

/-- Python slice start for `l[i:]` -/
def sliceStart (len : Nat) (i : Int) : Nat :=
  if i < 0 then (Int.toNat (len + i)) else min i.toNat len

/-- lines 1100-1104: `max(mincutoff, len(min(sorted(naturalpop, key=fitness)[cutidx:], key=len)))`; the
argument lists the natural population as (weighted fitness values or `[]`, size). -/
def cutoffSize (p : HarmParams α) (inds : List (List Int × Nat)) : Option Nat :=
  let sorted := inds.mergeSort (fun a b => !decide (b.1 < a.1))       -- sorted(): stable, ascending on `<`
  match ((sorted.drop (sliceStart sorted.length p.cutidx)).map (·.2)).min? with
  | none => none                                                      -- min() of an empty sequence raises
  | some m => some (max p.mincutoff m)

/-- lines 1107-1110: `(gamma * len(population) * math.log(2) / halflifefunc(x)) *
math.exp(-math.log(2) * (x - cutoffsize) / halflifefunc(x))` -/
def targetFunc (p : HarmParams α) (npop cutoff : Nat) (x : Nat) : α :=
  (p.gamma * RealLike.ofNat npop * RealLike.log (RealLike.ofNat 2) / halflife p x) *
    RealLike.exp (-(RealLike.log (RealLike.ofNat 2)) * RealLike.ofRatio ((x : Int) - (cutoff : Int)) 1 / halflife p x)

/-- lines 1112-1116: `targethist` and `probhist` -/
def probHist (p : HarmParams α) (npop cutoff : Nat) (nat : List α) : List α :=
  nat.mapIdx (fun b n =>
    let t := if b ≤ cutoff then n else targetFunc p npop cutoff b
    if RealLike.ofNat 0 < n then t / n else t)                          -- t / n if n > 0 else t

/-- lines 1118-1119: `probhist[s] if s < len(probhist) else targetfunc(s)` -/
def probFunc (p : HarmParams α) (npop cutoff : Nat) (ph : List α) (s : Nat) : α :=
  match ph[s]? with
  | some v => v
  | none => targetFunc p npop cutoff s

/-- The acceptance threshold function of one generation, from the natural population (weighted fitness,
size) — `none` where the code raises. -/
def acceptThreshold (p : HarmParams α) (npop nbr : Nat) (inds : List (List Int × Nat)) : Option (Nat → α) :=
  match naturalHist (inds.map (·.2)) npop nbr, cutoffSize p inds with
  | some nat, some cutoff => some (probFunc p npop cutoff (probHist p npop cutoff nat))
  | _, _ => none

/-- lines 1121-1122: `acceptfunc(s) = random.random() <= probfunc(s)`; the aspirant's size is its genome
length, the recorded datum is the `random()` result. -/
def mkAcceptR (p : HarmParams α) (nbr : Nat) (s1 : St) (pop natural : List Nat) :
    Option (St → Nat → α → Bool) :=
  let inds := natural.map (fun o => ((s1.heap o).fit.getD [], (s1.heap o).genome.length))
  match acceptThreshold p pop.length nbr inds with
  | none => none
  | some thr => some (fun st o r => decide (r ≤ thr (st.heap o).genome.length))

/-- gp.harm's generation with the acceptance arithmetic modelled: the tape holds the `random()` draws. -/
def harmStepR {σ : Type} (ops : Ops σ) (nbr : Nat) (p : HarmParams α) (d : HarmDec α) : Step σ :=
  harmStepG ops nbr (mkAcceptR p nbr) d

end HarmArith

/-! ### eaGenerateUpdate -/

/-- what `toolbox.generate()` hands back: the listed individuals with the listed content — brand-new
objects (oid ≥ the counter) or persistent ones that the strategy moved in place (ask/tell strategies such as
particle swarms), whatever fitness they carry -/
def writeAll : St → List (Nat × Obj) → St
  | s, [] => s
  | s, (o, x) :: ws => writeAll { s with heap := s.heap.set o x, next := max s.next (o + 1) } ws

/-- `order` is a rearrangement of the positions `0..n-1` -/
def isPerm (order : List Nat) (n : Nat) : Bool :=
  order.length == n && (List.range n).all (fun i => order.contains i)

/-- `toolbox.generate()` returns the individuals `objs` (distinct objects, else the step is rejected);
`toolbox.update(population)` may reorder the list it is given (`cma.Strategy.update` sorts it in place):
`order` = the positions after the update. -/
def guStep {σ : Type} (objs : List (Nat × Obj)) (order : List Nat) : Step σ where
  produce := fun t st _ =>                                               -- line 485
    if decide (objs.map (·.1)).Nodup then some ⟨t, writeAll st objs, objs.map (·.1)⟩ else none
  replace := fun _ _ off => if isPerm order off.length then pickAll off order else none    -- line 497
  evalAll := true                                                        -- lines 487-489: all are evaluated

/-! ### The five packaged loops (`ngen` = number of decision records) -/

def eaSimple {σ : Type} (ops : Ops σ) (ev : List Int → List Int) (decs : List SimpleDec) (t : σ) (s : LState) :=
  runPop ev (decs.map (simpleStep ops)) t s

def eaMuPlusLambda {σ : Type} (ops : Ops σ) (ev : List Int → List Int) (mu lam : Nat) (decs : List MuLamDec)
    (t : σ) (s : LState) :=
  runPop ev (decs.map (plusStep ops mu lam)) t s

/-- `none` also when the assertion `lambda_ >= mu` fails. -/
def eaMuCommaLambda {σ : Type} (ops : Ops σ) (ev : List Int → List Int) (mu lam : Nat) (decs : List MuLamDec)
    (t : σ) (s : LState) :=
  if commaAssert mu lam then runPop ev (decs.map (commaStep ops mu lam)) t s else none

/-- μ+λ with `toolbox.select = tools.selBest`. -/
def eaMuPlusLambdaBest {σ : Type} (ops : Ops σ) (ev : List Int → List Int) (mu lam : Nat)
    (decs : List (List Choice)) (t : σ) (s : LState) :=
  runPop ev (decs.map (plusBestStep ops mu lam)) t s

def harm {σ : Type} (ops : Ops σ) (ev : List Int → List Int) (nbr : Nat) (decs : List (HarmDec Bool)) (t : σ)
    (s : LState) :=
  runPop ev (decs.map (harmStep ops nbr)) t s

/-- gp.harm with the acceptance test computed by the model from the recorded draws -/
def harmR {σ α : Type} [RealLike α] (ops : Ops σ) (ev : List Int → List Int) (nbr : Nat)
    (ps : List (HarmParams α × HarmDec α)) (t : σ) (s : LState) :=
  runPop ev (ps.map (fun pd => harmStepR ops nbr pd.1 pd.2)) t s

/-- `gens`: per generation the individuals `toolbox.generate()` returns and the order `toolbox.update` leaves
them in.  There is no caller population: the run starts from an empty one. -/
def eaGenerateUpdate {σ : Type} (ev : List Int → List Int) (gens : List (List (Nat × Obj) × List Nat)) (t : σ)
    (st : St) :=
  runGU ev (gens.map (fun g => guStep (σ := σ) g.1 g.2)) t { st := st, pop := [] }

end Loops
