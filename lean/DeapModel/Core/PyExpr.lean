/-
The Python expression sub-language in which `gp.compile` writes its source (deap/gp.py:480-531):

    lambda ARG0,ARG1: add(mul(ARG0, -1), 1e-17)          concat('ab', s)          five()

Import-free executable model of what CPython does with such a text:

* `lexGo`      — the tokenizer (names, int / float literals as `repr` prints them and a few more forms,
                 quoted strings without escapes, `( ) , : -`, blanks), a character-by-character state machine
* `parseToks`  — the grammar  `top := 'lambda' [name (',' name)*] ':' expr | expr`,
                 `expr := '-' expr | NUMBER | STRING | True | False | None | name | name '(' [expr (',' expr)* [',']] ')'`
                 producing the AST `PyExpr` (the nodes `Lambda / Call / Name / Constant / UnaryOp(USub)` of CPython's `ast`)
* `parseExpr`  — tokenizer + parser
* `evalPy`     — the value of an expression in a namespace (`eval(code, pset.context, {})`): a name is looked up in
                 the lambda parameters first, then in the globals; a call evaluates the callee name, then the
                 arguments left to right, and applies; `callPy` applies a lambda to argument values.

Everything outside the sub-language is rejected (`none`): the parser is meant to be SOUND with respect to
CPython (whenever it returns an AST, `ast.parse(text, mode="eval")` returns the same one — compared on every run of
the C12 check) and COMPLETE on what `gp.compile` generates (theorem `C12.parse_compileSrc`).

Python `str` values are `List Char`.  Values are first order (`Val`); callables live in the namespace only.
-/
namespace PyLang

abbrev Str := List Char

/-- first-order Python values: `int`, `bool`, `float`, `str`, `None` -/
inductive Val
  | int (i : Int)
  | bool (b : Bool)
  | flt (x : Float)
  | str (s : Str)
  | pynone

/-! ## Numeric literals: decimal text → value -/

def allDigits (l : List Char) : Bool := !l.isEmpty && l.all Char.isDigit

def digitsVal (l : List Char) : Nat := l.foldl (fun n c => 10 * n + (c.toNat - '0'.toNat)) 0

/-- the double nearest to `n / d` (round half to even) — what Python's `float("…")` / `eval` of a decimal
literal returns; by exact integer arithmetic (normal range; outside it, the quotient of the two conversions) -/
def ratToFloat (n d : Nat) : Float :=
  if n = 0 ∨ d = 0 then 0.0 else
  let e0 : Int := (Nat.log2 n : Int) - (Nat.log2 d : Int) - 52
  let quo (e : Int) : Nat × Nat × Nat :=
    if e ≥ 0 then (n / (d * 2 ^ e.toNat), n % (d * 2 ^ e.toNat), d * 2 ^ e.toNat)
    else ((n * 2 ^ (-e).toNat) / d, (n * 2 ^ (-e).toNat) % d, d)
  let e := if (quo e0).1 ≥ 2 ^ 52 then e0 else e0 - 1
  let (q, r, den) := quo e
  let q1 := if 2 * r > den ∨ (2 * r = den ∧ q % 2 = 1) then q + 1 else q
  let (q2, e2) := if q1 ≥ 2 ^ 53 then (q1 / 2, e + 1) else (q1, e)
  let E : Int := e2 + 52 + 1023
  if E ≤ 0 ∨ E ≥ 2047 then Float.ofNat n / Float.ofNat d
  else Float.ofBits (UInt64.ofNat (E.toNat * 2 ^ 52 + (q2 - 2 ^ 52)))

/-- the double denoted by the decimal `m · 10^sc` (decimal exponents beyond ±5000 are not expanded) -/
def decToFloat (m : Nat) (sc : Int) : Float :=
  if m = 0 then 0.0
  else if sc > 5000 then 1.0 / 0.0
  else if sc < -5000 then 0.0
  else if sc ≥ 0 then ratToFloat (m * 10 ^ sc.toNat) 1 else ratToFloat m (10 ^ (-sc).toNat)

/-! ## Tokens -/

inductive Tok
  | name (x : Str)
  | int (n : Nat)
  /-- a float literal with the decimal value `m · 10^e` -/
  | flt (m : Nat) (e : Int)
  | str (s : Str)
  | lpar | rpar | comma | colon | minus
  deriving DecidableEq

def isIdChar (c : Char) : Bool := c.isAlphanum || c == '_'

/-- the characters of names and numbers (a `.` only occurs in numbers: there is no attribute access here) -/
def isWordChar (c : Char) : Bool := isIdChar c || c == '.'

def parseExp (l : List Char) : Option Int :=
  match l with
  | '-' :: r => if allDigits r then some (-(digitsVal r : Int)) else none
  | '+' :: r => if allDigits r then some (digitsVal r : Int) else none
  | r => if allDigits r then some (digitsVal r : Int) else none

/-- a word that starts with a digit or a dot: Python's `decinteger` (no underscores, no leading zeros —
`00` is not accepted here), `pointfloat` and `exponentfloat` -/
def parseNum (body : Str) : Option Tok :=
  let (mant, etext) := body.span (fun c => c != 'e' && c != 'E')
  let exp? : Option Int := match etext with | [] => some 0 | _ :: r => parseExp r
  match exp? with
  | none => none
  | some ex =>
    match mant.span (· != '.') with
    | (ip, []) =>
      if etext.isEmpty then
        if allDigits ip ∧ (ip.length = 1 ∨ ip.head? ≠ some '0') then some (.int (digitsVal ip)) else none
      else if allDigits ip then some (.flt (digitsVal ip) ex) else none                   -- `1e-17`
    | (ip, _ :: fp) =>
      -- `1.` and `.5` are literals, a bare `.` is not
      if ip.all Char.isDigit ∧ fp.all Char.isDigit ∧ ¬ (ip.isEmpty ∧ fp.isEmpty) then
        some (.flt (digitsVal (ip ++ fp)) (ex - fp.length))
      else none

/-- the token a complete word stands for -/
def wordTok (w : Str) : Option Tok :=
  match w with
  | [] => none
  | c :: _ =>
    if c.isAlpha || c == '_' then (if w.all isIdChar then some (.name w) else none)
    else parseNum w

/-! ## The tokenizer -/

inductive LexSt
  | idle
  /-- inside a name or number; `acc` = its characters so far, reversed -/
  | word (acc : Str)
  /-- inside a string opened by the quote `q` -/
  | str (q : Char) (acc : Str)

/-- a sign continues a word only as the sign of an exponent: directly after `e`/`E` in a word that began
with a digit or a dot (`1e-17`, but `x1e-17` is `x1e - 17`) -/
def expSign (acc : Str) : Bool :=
  match acc, acc.getLast? with
  | e :: _, some first => (e == 'e' || e == 'E') && (first.isDigit || first == '.')
  | _, _ => false

def contWord (acc : Str) (c : Char) : Bool := isWordChar c || ((c == '+' || c == '-') && expSign acc)

/-- what a character does outside a word: the new state and the tokens it emits (`none` = not in the language) -/
def startChar (c : Char) : Option (LexSt × List Tok) :=
  if isWordChar c then some (.word [c], [])
  else if c == '\'' || c == '"' then some (.str c [], [])
  else if c == ' ' || c == '\t' then some (.idle, [])
  else if c == '(' then some (.idle, [.lpar])
  else if c == ')' then some (.idle, [.rpar])
  else if c == ',' then some (.idle, [.comma])
  else if c == ':' then some (.idle, [.colon])
  else if c == '-' then some (.idle, [.minus])
  else none

def lexGo : LexSt → Str → Option (List Tok)
  | .idle, [] => some []
  | .word acc, [] => (wordTok acc.reverse).map (fun t => [t])
  | .str _ _, [] => none
  | .idle, c :: cs =>
    match startChar c with
    | some (st, em) => (lexGo st cs).map (fun r => em ++ r)
    | none => none
  | .word acc, c :: cs =>
    if contWord acc c then lexGo (.word (c :: acc)) cs
    else
      match wordTok acc.reverse, startChar c with
      | some t, some (st, em) => (lexGo st cs).map (fun r => t :: (em ++ r))
      | _, _ => none
  | .str q acc, c :: cs =>
    if c == q then (lexGo .idle cs).map (fun r => Tok.str acc.reverse :: r)
    else if c == '\\' || c == '\n' || c == '\r' then none                  -- no escapes, no line breaks
    else lexGo (.str q (c :: acc)) cs

def lex (s : Str) : Option (List Tok) := lexGo .idle s

/-! ## The AST -/

inductive PyExpr
  | name (x : Str)
  | int (n : Nat)
  | flt (m : Nat) (e : Int)
  | bool (b : Bool)
  | cnone
  | str (s : Str)
  /-- `UnaryOp(USub, e)` — CPython parses `-3` as minus applied to the literal `3` -/
  | neg (e : PyExpr)
  /-- `Call(Name f, args)` -/
  | call (f : Str) (args : List PyExpr)
  /-- `Lambda(params, body)`, positional parameters only -/
  | lam (params : List Str) (body : PyExpr)

def keywords : List Str :=
  ["False", "None", "True", "and", "as", "assert", "async", "await", "break", "class", "continue", "def", "del",
   "elif", "else", "except", "finally", "for", "from", "global", "if", "import", "in", "is", "lambda", "nonlocal",
   "not", "or", "pass", "raise", "return", "try", "while", "with", "yield",
   -- not a keyword, but CPython refuses it as a parameter name; kept out of the language altogether
   "__debug__"].map String.toList

def isKeyword (x : Str) : Bool := keywords.contains x

/-- a Python identifier (ASCII) that is not a keyword -/
def isIdent (x : Str) : Bool :=
  match x with
  | [] => false
  | c :: cs => (c.isAlpha || c == '_') && cs.all isIdChar && !isKeyword x

/-- the constants written as names -/
def constName (x : Str) : Option PyExpr :=
  if x = "True".toList then some (.bool true)
  else if x = "False".toList then some (.bool false)
  else if x = "None".toList then some .cnone
  else none

/-- a name token in expression position: a constant, or a variable unless it is a keyword -/
def nameExpr (x : Str) : Option PyExpr :=
  match constName x with
  | some e => some e
  | none => if isKeyword x then none else some (.name x)

/-! ## The parser (recursive descent on the token list; the fuel bounds the nesting) -/

mutual
/-- one expression at the head of the token list; returns it with the remaining tokens -/
def pExpr : Nat → List Tok → Option (PyExpr × List Tok)
  | 0, _ => none
  | n + 1, .minus :: ts =>
    match pExpr n ts with
    | some (e, r) => some (.neg e, r)
    | none => none
  | _ + 1, .int k :: ts => some (.int k, ts)
  | _ + 1, .flt m e :: ts => some (.flt m e, ts)
  | _ + 1, .str s :: ts => some (.str s, ts)
  | n + 1, .name x :: ts =>
    match ts with
    | .lpar :: r =>
      -- a call; the callee must be a variable (`True(1)` is a call of a constant in CPython: not in the language)
      if isIdent x then
        match pArgs n r with
        | some (as, r') => some (.call x as, r')
        | none => none
      else none
    | _ => match nameExpr x with
      | some e => some (e, ts)
      | none => none
  | _ + 1, _ => none
/-- the rest of a call after `(`:  `')'`  |  `expr ')'`  |  `expr ',' …`  (a trailing comma is accepted, as by CPython) -/
def pArgs : Nat → List Tok → Option (List PyExpr × List Tok)
  | 0, _ => none
  | n + 1, ts =>
    match pExpr n ts with
    | some (e, .comma :: r) =>
      match pArgs n r with
      | some (es, r') => some (e :: es, r')
      | none => none
    | some (e, .rpar :: r) => some ([e], r)
    | some _ => none
    | none =>
      match ts with
      | .rpar :: r => some ([], r)
      | _ => none
end

/-- `name (',' name)* [','] ':'` or just `':'`; returns the parameter names and the tokens of the body -/
def pParams : List Tok → Option (List Str × List Tok)
  | .colon :: r => some ([], r)
  | .name x :: .colon :: r => if isIdent x then some ([x], r) else none
  | .name x :: .comma :: r =>
    if isIdent x then
      match pParams r with
      | some (xs, body) => some (x :: xs, body)
      | none => none
    else none
  | _ => none

def nodupStr : List Str → Bool
  | [] => true
  | x :: xs => !xs.contains x && nodupStr xs

/-- a complete expression: all tokens are consumed -/
def pTop (ts : List Tok) : Option PyExpr :=
  match pExpr (2 * ts.length + 2) ts with
  | some (e, []) => some e
  | _ => none

/-- a complete source: an expression, or `lambda params: expr` (`lambda` is a keyword, so no expression starts
with it and the two cases exclude each other) -/
def parseToks (ts : List Tok) : Option PyExpr :=
  match pTop ts with
  | some e => some e
  | none =>
    match ts with
    | .name x :: rest =>
      if x = "lambda".toList then
        match pParams rest with
        | some (ps, body) =>
          -- `lambda a,a: …` is a SyntaxError (duplicate argument)
          if nodupStr ps then (pTop body).map (fun e => .lam ps e) else none
        | none => none
      else none
    | _ => none

/-- tokenizer + parser: the AST of a source text of the sub-language -/
def parseExpr (s : Str) : Option PyExpr := (lex s).bind parseToks

/-! ## Whole texts that are one atom (what a terminal of a tree prints) -/

/-- the expression a text denotes when it is, as a whole, a name or a literal: an identifier, `True`/`False`/`None`,
an int / float literal, a quoted string, or a minus sign followed by an int / float literal -/
def atomOf (s : Str) : Option PyExpr :=
  if isIdent s then some (.name s) else
  match lex s with
  | some [.name x] => constName x
  | some [.int n] => some (.int n)
  | some [.flt m e] => some (.flt m e)
  | some [.str v] => some (.str v)
  | some [.minus, .int n] => some (.neg (.int n))
  | some [.minus, .flt m e] => some (.neg (.flt m e))
  | _ => none

def isAtomText (s : Str) : Bool := (atomOf s).isSome

/-- a decimal integer literal as `repr` prints a non-negative int: digits, no leading zero (`C12.srcOK_names_ints`:
such a text, also with a minus sign in front, is an atom) -/
def isIntLit (s : Str) : Bool := allDigits s && (s.length == 1 || s.head? != some '0')

/-! ## Evaluation -/

/-- what a name of the namespace is bound to: a first-order value or a callable -/
inductive PyObj
  | val (v : Val)
  | fn (f : List Val → Option Val)

/-- `globals` = the dictionary handed to `eval` (`pset.context`), `locals` = the parameters of the lambda with
their values (the `{}` handed to `eval` as locals is empty and never written) -/
structure PyEnv where
  globals : Str → Option PyObj
  locals : List (Str × Val)

/-- name resolution inside the lambda body: parameters shadow the globals (`__builtins__` is `None` in
`pset.context`, so there is nothing behind the globals) -/
def PyEnv.lookup (P : PyEnv) (x : Str) : Option PyObj :=
  match P.locals.find? (fun nv => nv.1 == x) with
  | some nv => some (.val nv.2)
  | none => P.globals x

/-- unary minus: `-True == -1`; a string or `None` raises `TypeError` -/
def negVal : Val → Option Val
  | .int i => some (.int (-i))
  | .bool b => some (.int (if b then -1 else 0))
  | .flt x => some (.flt (-x))
  | _ => none

mutual
/-- the value of an expression (`none` = an exception, or a value that is not first order: a callable, a lambda) -/
def evalPy (P : PyEnv) : PyExpr → Option Val
  | .name x =>
    match P.lookup x with
    | some (.val v) => some v
    | _ => none
  | .int n => some (.int n)
  | .flt m e => some (.flt (decToFloat m e))
  | .bool b => some (.bool b)
  | .cnone => some .pynone
  | .str s => some (.str s)
  | .neg e =>
    match evalPy P e with
    | some v => negVal v
    | none => none
  | .call f as =>
    -- the callee is evaluated first, then the arguments from left to right, then the call
    match P.lookup f with
    | some (.fn g) =>
      match evalArgs P as with
      | some vs => g vs
      | none => none
    | _ => none
  | .lam _ _ => none
def evalArgs (P : PyEnv) : List PyExpr → Option (List Val)
  | [] => some []
  | e :: es =>
    match evalPy P e, evalArgs P es with
    | some v, some vs => some (v :: vs)
    | _, _ => none
end

/-- `e(*vals)` for a lambda expression `e` evaluated in `P`: a wrong number of arguments raises `TypeError` -/
def callPy (P : PyEnv) (e : PyExpr) (vals : List Val) : Option Val :=
  match e with
  | .lam ps body =>
    if vals.length ≠ ps.length then none
    else evalPy { P with locals := ps.zip vals } body
  | _ => none

/-- the value of a literal atom (no namespace needed); `none` for names -/
def evalConst : PyExpr → Option Val
  | .int n => some (.int n)
  | .flt m e => some (.flt (decToFloat m e))
  | .bool b => some (.bool b)
  | .cnone => some .pynone
  | .str s => some (.str s)
  | .neg (.int n) => some (.int (-(n : Int)))
  | .neg (.flt m e) => some (.flt (-(decToFloat m e)))
  | _ => none

/-- the value a whole text denotes as a literal (`eval(text)` of `-3`, `1e-17`, `True`, `'ab'`) -/
def litOf (s : Str) : Option Val :=
  match atomOf s with
  | some e => evalConst e
  | none => none

/-- what `eval(src, context, {})` denotes: for a set with arguments the lambda, applied to `vals`;
for a set without arguments the value itself (`vals = []`) -/
def evalSrc (P : PyEnv) (hasArgs : Bool) (src : Str) (vals : List Val) : Option Val :=
  match parseExpr src with
  | none => none
  | some e =>
    if hasArgs then callPy P e vals
    else if vals.isEmpty then evalPy { P with locals := [] } e else none

/-! ## Canonical dump (compared with `ast.dump`-like text of CPython's own parser by the harness) -/

def hexDigit (n : Nat) : Char := if n < 10 then Char.ofNat (48 + n) else Char.ofNat (87 + n)

/-- percent-encoding of everything outside `[A-Za-z0-9_.]` -/
def encD (s : Str) : String :=
  String.ofList (s.flatMap (fun c =>
    if c.isAlphanum || c == '_' || c == '.' then [c] else ['%', hexDigit (c.toNat / 16), hexDigit (c.toNat % 16)]))

mutual
def dump : PyExpr → String
  | .name x => "N" ++ encD x
  | .int n => "I" ++ toString n
  | .flt m e => "F" ++ toString (decToFloat m e).toBits.toNat
  | .bool b => if b then "B1" else "B0"
  | .cnone => "Z"
  | .str s => "S" ++ encD s
  | .neg e => "M(" ++ dump e ++ ")"
  | .call f as => "C" ++ encD f ++ "(" ++ dumpArgs as ++ ")"
  | .lam ps body => "L" ++ ",".intercalate (ps.map encD) ++ "(" ++ dump body ++ ")"
def dumpArgs : List PyExpr → String
  | [] => ""
  | [e] => dump e
  | e :: es => dump e ++ ";" ++ dumpArgs es
end

end PyLang
