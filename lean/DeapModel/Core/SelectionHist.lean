/-
Histories of selector calls over a family of fitness classes — property C06.

A caller's session is a list of events: class statements (`class K(Parent): weights = …` /
`creator.create("K", Parent, weights=…)`, a parent with or without a `weights` entry of its own) and
selector calls, each on the population *passed now*, whose fitnesses are instances of one class of the
table.  The only thing a selector reads of the class is `weights`, resolved through the MRO
(`Fitness.lookupWeights`, `Core/FitClass.lean`) at the moment of the call.  The unchanged library keeps
NO state between selector calls: not on the fitness class, not on the module, not per object — so the
world threaded through a history is the class table alone and a call does not change it.

A population is a list of *positions*; two positions may hold the same object (a mating pool made by a
selector with replacement) — the model never needs to know: `Ind` records what is read at a position.
Import-free (core Lean only; linked into the driver).
-/
import DeapModel.Core.Selection
import DeapModel.Core.FitClass

namespace Selection

/-- A selector with its parameters (everything except the population and the class's weights). -/
inductive Sel where
  | best (k : Nat)
  | worst (k : Nat)
  | random (k : Nat)
  | tourn (k tournsize : Nat)
  | roulette (k : Nat)
  | sus (k : Nat)
  | dtourn (k fitnessSize : Nat) (ps : Rat) (fitnessFirst : Bool)
  | lex (rule : Rule) (k : Nat)
  | dcd (k : Nat)
deriving Repr, DecidableEq

/-- One call: a pure function of the weights of the population's fitness class, the positions of the
population passed now, the parameters and the tape. -/
def runSel (w : List Rat) (pop : Pop) : Sel → Tape → Option (List Nat × Tape)
  | .best k, t => some (selBest pop k, t)
  | .worst k, t => some (selWorst pop k, t)
  | .random k, t => selRandom pop.length k t
  | .tourn k ts, t => selTournament pop k ts t
  | .roulette k, t => selRoulette w pop k t
  | .sus k, t => selSUS w pop k t
  | .dtourn k fs ps ff, t => selDoubleTournament pop k fs ps ff t
  | .lex rule k, t => selLexicaseWith rule w pop k t
  | .dcd k, t => selTournamentDCD pop k t

/-- What a caller does in a session. -/
inductive Event where
  /-- a class statement -/
  | defclass (k : Fitness.FitClass Rat)
  /-- `tools.sel…(pop, …)` on a population whose fitnesses are instances of class `cls` -/
  | call (cls : Nat) (pop : Pop) (sel : Sel)
deriving Repr

/-- One event.  `none`: the class statement names a parent that does not exist, the population's class is
abstract (no `weights` anywhere along its MRO: `Fitness.__init__` raises `TypeError`), or the call itself
has no result. -/
def runEvent (tbl : Fitness.ClassTable Rat) : Event → Tape →
    Option (Fitness.ClassTable Rat × Option (List Nat) × Tape)
  | .defclass k, t =>
    match Fitness.defClass tbl k with
    | none => none
    | some tbl' => some (tbl', none, t)
  | .call cls pop sel, t =>
    match Fitness.lookupWeights tbl cls with
    | none => none
    | some w =>
      match runSel w pop sel t with
      | none => none
      | some (r, t') => some (tbl, some r, t')

/-- A session: the events in order, one tape threaded through all of them; the outputs of the calls. -/
def runHistory (tbl : Fitness.ClassTable Rat) : List Event → Tape →
    Option (Fitness.ClassTable Rat × List (List Nat) × Tape)
  | [], t => some (tbl, [], t)
  | e :: es, t =>
    match runEvent tbl e t with
    | none => none
    | some (tbl1, o, t1) =>
      match runHistory tbl1 es t1 with
      | none => none
      | some (tbl2, os, t2) => some (tbl2, (match o with | some r => r :: os | none => os), t2)

/-- The class statements of a session. -/
def defsOf : List Event → List (Fitness.FitClass Rat)
  | [] => []
  | .defclass k :: es => k :: defsOf es
  | .call _ _ _ :: es => defsOf es

end Selection
