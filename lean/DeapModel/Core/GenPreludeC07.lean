/-
C07 — the prelude of the C07 TRANSLATOR (`harness/py2lean_c07.py`): the Lean meaning of the imperative constructs
and built-ins the translated sub-language uses.  Together with the rendering rules listed in the docstring of
`harness/py2lean_c07.py` this file is the translator's trusted base.  Import-free.

Value types: Python `int` = `Int`, `float` = an abstract scalar `α`, `list` = `List` (value semantics), a raised
exception (IndexError, ZeroDivisionError of an int divisor, ValueError of `randint` on an empty range), an
exhausted loop / recursion fuel and an exhausted tape = `none`.
-/

namespace G7

variable {β σ ρ ι : Type}

/-- `l[i]` : negative indices count from the end, `IndexError` = `none` -/
def index (l : List β) (i : Int) : Option β :=
  if i < 0 then (if i + (l.length : Int) < 0 then none else l[(i + (l.length : Int)).toNat]?)
  else l[i.toNat]?

/-- `l[i] = v` : the new contents of `l`; negative indices count from the end, `IndexError` = `none` -/
def setIdx (l : List β) (i : Int) (v : β) : Option (List β) :=
  if i < 0 then (if i + (l.length : Int) < 0 then none else some (l.set (i + (l.length : Int)).toNat v))
  else if i.toNat < l.length then some (l.set i.toNat v) else none

/-- `del l[i]` : the new contents of `l` -/
def delIdx (l : List β) (i : Int) : Option (List β) :=
  if i < 0 then (if i + (l.length : Int) < 0 then none else some (l.eraseIdx (i + (l.length : Int)).toNat))
  else if i.toNat < l.length then some (l.eraseIdx i.toNat) else none

/-- `range(a, b)` -/
def range (a b : Int) : List Int := (List.range (b - a).toNat).map fun (k : Nat) => a + (k : Int)

/-- `enumerate(l, k)` -/
def enumFrom : Int → List β → List (Int × β)
  | _, [] => []
  | k, a :: t => (k, a) :: enumFrom (k + 1) t

/-- `l[k:]` for `k ≥ 0` (a copy) -/
def dropI (l : List β) (k : Int) : List β := l.drop k.toNat

/-- `sorted(l)` on ints (every correct sort returns the same list; Python's is stable, so is this one) -/
def sortedI (l : List Int) : List Int := l.mergeSort (fun a b => decide (a ≤ b))

/-- `while c: body` over the tuple `s` of the variables the body assigns.  `c s = none` / `body s = none`: an
exception; the loop is cut after `fuel` evaluations of the condition (`none`). -/
def whileO : Nat → (σ → Option Bool) → (σ → Option σ) → σ → Option σ
  | 0, _, _, _ => none
  | f + 1, c, b, s =>
    match c s with
    | none => none
    | some false => some s
    | some true =>
      match b s with
      | none => none
      | some s' => whileO f c b s'

/-- what one round of a `while True:` body does: fall off its end (`cont`) or `return` (`ret`) -/
inductive Ctl (σ ρ : Type) where
  | cont (s : σ) : Ctl σ ρ
  | ret (r : ρ) : Ctl σ ρ

/-- `while True: body` whose only exits are `return`s; cut after `fuel` rounds (`none`) -/
def loopO : Nat → (σ → Option (Ctl σ ρ)) → σ → Option ρ
  | 0, _, _ => none
  | f + 1, b, s =>
    match b s with
    | none => none
    | some (Ctl.ret r) => some r
    | some (Ctl.cont s') => loopO f b s'

/-- `for x in l: body` without `break` / `return`, over the tuple of the variables the body assigns -/
def forO : List ι → (ι → σ → Option σ) → σ → Option σ
  | [], _, s => some s
  | x :: xs, f, s =>
    match f x s with
    | none => none
    | some s' => forO xs f s'

/-- `for x in l: body` with `break`: the body returns the new state and whether it broke -/
def forB : List ι → (ι → σ → Option (σ × Bool)) → σ → Option σ
  | [], _, s => some s
  | x :: xs, f, s =>
    match f x s with
    | none => none
    | some (s', true) => some s'
    | some (s', false) => forB xs f s'

/-- `random.randint(a, b)` read from the tape of raw draws exactly as `Spea2.randomizedPartition` reads it: the
next entry `d` gives `a + d mod (b - a + 1)`; an empty range is `ValueError`, an empty tape `none`.
The value and the rest of the tape. -/
def randint (tape : List Nat) (a b : Int) : Option (Int × List Nat) :=
  if b < a then none else
  match tape with
  | [] => none
  | d :: t => some (a + ((d : Int) % (b - a + 1)), t)

end G7
