/-
Model of `deap/tools/support.py` `Statistics`, `MultiStatistics`, `Logbook` (C18), transcribed
from the tree as it is now (with the repairs F3 slice deletion, F4 negative `pop`, F12 empty
logbook text, F18 `pop` also pops the chapters, F5 `header_streamed`).  Import-free.

Names (dictionary keys, chapter names) are numbers, scalar values are integers.  A Python `dict`
is an association list with unique keys in insertion order; every observation the property makes
is independent of that order (the driver prints dictionaries sorted by key).
Column formatting of the printed text is not modelled: `__txt__` is reduced to *which rows* and
*whether a header* are emitted.
-/
namespace Logbook

abbrev Name := Nat
/-- a `dict` of scalar fields -/
abbrev Row := List (Name × Int)

/-! ### dict -/

/-- `d.get(k, None)` -/
def dictGet (d : Row) (k : Name) : Option Int := d.lookup k

/-- `k in d` -/
def dictHas (d : Row) (k : Name) : Bool := d.any (·.1 == k)

/-- `d[k] = v` (an existing key keeps its position) -/
def dictSet : Row → Name → Int → Row
  | [], k, v => [(k, v)]
  | (k', v') :: rest, k, v => if k' = k then (k, v) :: rest else (k', v') :: dictSet rest k v

/-- `d.update(e)` -/
def dictUpdate (d e : Row) : Row := e.foldl (fun acc p => dictSet acc p.1 p.2) d

/-! ### records and logbooks -/

/-- The keyword arguments of `record(**infos)`: the non-dict items and the dict-valued items
(each again such a dictionary).  Keys are distinct (they are keyword arguments / dict keys). -/
inductive Entry where
  | mk (scalars : Row) (dicts : List (Name × Entry))

def Entry.scalars : Entry → Row | .mk s _ => s
def Entry.dicts : Entry → List (Name × Entry) | .mk _ d => d

/-- `Logbook` (support.py:259-333): the list items, `chapters` (a `defaultdict(Logbook)`, in
creation order), `buffindex`, `header`, `log_header`, and `header_streamed` (set by `stream`, absent = False).
`columns_len` only affects column widths. -/
inductive LB where
  | mk (rows : List Row) (chapters : List (Name × LB)) (buffindex : Nat)
       (header : Option (List Name)) (logHeader : Bool) (headerStreamed : Bool)

namespace LB
def rows : LB → List Row | .mk r _ _ _ _ _ => r
def chapters : LB → List (Name × LB) | .mk _ c _ _ _ _ => c
def buffindex : LB → Nat | .mk _ _ b _ _ _ => b
def header : LB → Option (List Name) | .mk _ _ _ h _ _ => h
def logHeader : LB → Bool | .mk _ _ _ _ l _ => l
/-- `getattr(self, "header_streamed", False)`: the stream has already delivered the header -/
def headerStreamed : LB → Bool | .mk _ _ _ _ _ s => s
/-- `Logbook()` (support.py:273-331) -/
def empty : LB := .mk [] [] 0 none true false
end LB

/-- `self.chapters[key]` replaced by `g` of it; the `defaultdict` creates an empty `Logbook` on
first access (support.py:275, 345). -/
def modifyChapter (g : LB → LB) (key : Name) : List (Name × LB) → List (Name × LB)
  | [] => [(key, g LB.empty)]
  | (k, ch) :: rest => if k = key then (k, g ch) :: rest else (k, ch) :: modifyChapter g key rest

/-- the chapter stored under `key`, if any -/
def getChapter (key : Name) (chs : List (Name × LB)) : Option LB := chs.lookup key

mutual
/-- `Logbook.record(**infos)` (support.py:333-347) where `infos` is the entry's dictionary
updated by `inherit` (the `apply_to_all` of the enclosing logbook: `chapter_infos = value.copy();
chapter_infos.update(apply_to_all)`, :343-344; `inherit = []` for the call made by the user). -/
def recordAux (inherit : Row) : Entry → LB → LB
  | .mk sc dicts, .mk rows chs b h lh hs =>
      -- the non-dict items of `infos` = `apply_to_all` (:340); also what remains of `infos`
      -- after the dict-valued items were deleted (:346), i.e. the appended row (:347)
      let all := dictUpdate sc inherit
      .mk (rows ++ [all]) (recordDicts all inherit dicts chs) b h lh hs
/-- the loop :341-346 over the dict-valued items; an item whose key was overwritten by an
inherited scalar (`update`) is no longer a dict -/
def recordDicts (all inherit : Row) : List (Name × Entry) → List (Name × LB) → List (Name × LB)
  | [], chs => chs
  | (key, sub) :: rest, chs =>
      if dictHas inherit key then recordDicts all inherit rest chs
      else recordDicts all inherit rest (modifyChapter (recordAux all sub) key chs)   -- :343-345
end

/-- `logbook.record(**infos)` as called by the user. -/
def record (e : Entry) (lb : LB) : LB := recordAux [] e lb

/-- Result of `select`: a plain list for one name, a tuple of lists otherwise (support.py:377-379). -/
inductive Sel where
  | single (col : List (Option Int))
  | multi (cols : List (List (Option Int)))
deriving DecidableEq, Repr

/-- `[entry.get(name, None) for entry in self]` -/
def column (lb : LB) (name : Name) : List (Option Int) := lb.rows.map (dictGet · name)

/-- `Logbook.select(*names)` (support.py:349-379). -/
def select (names : List Name) (lb : LB) : Sel :=
  match names with
  | [n] => .single (column lb n)                      -- :377-378
  | ns => .multi (ns.map (column lb))                 -- :379

/-- `index + len(self) if index < 0 else index` (support.py:422). -/
def position (len : Nat) (index : Int) : Int := if index < 0 then index + len else index

mutual
/-- `Logbook.pop(index)` (support.py:409-427).  Returns the removed row, or `none` for an
`IndexError`.  Order of the code: the `buffindex` adjustment (:423-424), then `chapter.pop(index)`
for every chapter (:425-426; chapters are logbooks, so this recurses; the first chapter that
raises leaves the later chapters and the list itself untouched), then `list.pop` (:427). -/
def pop (index : Int) : LB → Option Row × LB
  | .mk rows chs b h lh hs =>
      let pos := position rows.length index                                  -- :422
      let b' := if 0 ≤ pos ∧ pos < (b : Int) then b - 1 else b               -- :423-424
      match popChapters index chs with                                       -- :425-426
      | (chs', true) => (none, .mk rows chs' b' h lh hs)
      | (chs', false) =>
        if 0 ≤ pos ∧ pos < (rows.length : Int) then                          -- :427 list.pop
          (rows[pos.toNat]?, .mk (rows.eraseIdx pos.toNat) chs' b' h lh hs)
        else (none, .mk rows chs' b' h lh hs)
/-- `for chapter in self.chapters.values(): chapter.pop(index)`; the flag says that a chapter
raised `IndexError`. -/
def popChapters (index : Int) : List (Name × LB) → List (Name × LB) × Bool
  | [] => ([], false)
  | (k, ch) :: rest =>
      match pop index ch with
      | (none, ch') => ((k, ch') :: rest, true)
      | (some _, ch') => let r := popChapters index rest; ((k, ch') :: r.1, r.2)
end

/-- `del logbook[key]` for an integer key (support.py:406-407): `self.pop(key)`; `true` = `IndexError`. -/
def delIndex (key : Int) (lb : LB) : LB × Bool :=
  match pop key lb with
  | (none, lb') => (lb', true)
  | (some _, lb') => (lb', false)

/-- insertion into a descending list -/
def insertDesc (x : Nat) : List Nat → List Nat
  | [] => [x]
  | y :: ys => if y ≤ x then x :: y :: ys else y :: insertDesc x ys

/-- `sorted(indices, reverse=True)` on integers (the descending arrangement is unique up to
equal elements, so any sorting algorithm gives this list). -/
def sortDesc : List Nat → List Nat
  | [] => []
  | x :: xs => insertDesc x (sortDesc xs)

/-- the loop of the slice branch (support.py:404-405) over the sorted indices -/
def delEach : List Nat → LB → LB × Bool
  | [], lb => (lb, false)
  | i :: is, lb =>
      match delIndex (i : Int) lb with
      | (lb', true) => (lb', true)
      | (lb', false) => delEach is lb'

/-- `del logbook[slice]` (support.py:403-405); `idx` is `range(*key.indices(len(self)))` as
computed by Python. -/
def delSlice (idx : List Nat) (lb : LB) : LB × Bool := delEach (sortDesc idx) lb

/-- What `__txt__(startindex, header)` emits (support.py:429-486): nothing for an empty logbook
(:430-431); otherwise the rows from `startindex` on (:447) and, iff
`header and startindex == 0 and self.log_header` (:460), a header. -/
structure Text where
  header : Bool
  rows : List Row
deriving DecidableEq, Repr

def txt (startindex : Nat) (header : Bool) (lb : LB) : Text :=
  if lb.rows.length = 0 then ⟨false, []⟩
  else ⟨header && startindex == 0 && lb.logHeader, lb.rows.drop startindex⟩

/-- `logbook.stream` (support.py:381-400): `startindex, self.buffindex = self.buffindex, len(self)`,
the text is `__txt__(startindex, not header_streamed)` (:397), and `header_streamed` becomes true
`if startindex == 0 and len(self) > 0 and self.log_header` (:398-399). -/
def stream : LB → Text × LB
  | .mk rows chs b h lh hs =>
      (txt b (!hs) (.mk rows chs b h lh hs),
       .mk rows chs rows.length h lh (hs || (b == 0 && decide (0 < rows.length) && lh)))

/-- `str(logbook)` = `__str__(0)` = `__txt__(0)` with the default `header=True` (support.py:488-490). -/
def str (lb : LB) : Text := txt 0 true lb

def setHeader (hd : Option (List Name)) : LB → LB
  | .mk rows chs b _ lh hs => .mk rows chs b hd lh hs

def setLogHeader (flag : Bool) : LB → LB
  | .mk rows chs b h _ hs => .mk rows chs b h flag hs

/-- `pickle.loads(pickle.dumps(logbook))`: the class is re-created without `__init__`, the list
items are appended and `__dict__` (buffindex, chapters, header, log_header, header_streamed) is restored. -/
def pickle : LB → LB
  | .mk rows chs b h lh hs => .mk rows chs b h lh hs

/-- the chapter reached by following `path` (only existing chapters; `logbook.chapters[name]`) -/
def chapterAt : List Name → LB → Option LB
  | [], lb => some lb
  | n :: rest, lb => match getChapter n lb.chapters with
      | some ch => chapterAt rest ch
      | none => none

/-- replace the chapter stored under `key` (if there is one) by `g` of it -/
def mapChapter (g : LB → LB) (key : Name) : List (Name × LB) → List (Name × LB)
  | [] => []
  | (k, ch) :: rest => if k = key then (k, g ch) :: rest else (k, ch) :: mapChapter g key rest

/-- apply `g` to the chapter reached by `path` (nothing happens when there is no such chapter) -/
def modifyAt (g : LB → LB) : List Name → LB → LB
  | [], lb => g lb
  | n :: rest, .mk rows chs b h lh hs => .mk rows (mapChapter (modifyAt g rest) n chs) b h lh hs

/-! ### histories -/

inductive Op where
  | record (e : Entry)
  | select (path : List Name) (names : List Name)
  | stream
  /-- `logbook.chapters[c][r₁]…[rₖ].stream` (the path `c :: rest` is not empty): a chapter is a logbook and can be
  streamed on its own (it has its own `buffindex` / `header_streamed`) -/
  | streamAt (c : Name) (rest : List Name)
  | str
  | pop (index : Int)
  | delIndex (index : Int)
  | delSlice (idx : List Nat)
  | pickle
  | setHeader (hd : Option (List Name))
  | setLogHeader (flag : Bool)

/-- What one operation lets the caller observe. -/
inductive Obs where
  | none
  | sel (s : Option Sel)
  | text (t : Text)
  | textAt (t : Option Text)
  | popped (r : Option Row)
  | raised (b : Bool)

def step (lb : LB) : Op → LB × Obs
  | .record e => (record e lb, .none)
  | .select path names => (lb, .sel ((chapterAt path lb).map (select names)))
  | .stream => let r := stream lb; (r.2, .text r.1)
  | .streamAt c rest =>
      (modifyAt (fun l => (stream l).2) (c :: rest) lb,
       .textAt ((chapterAt (c :: rest) lb).map fun l => (stream l).1))
  | .str => (lb, .text (str lb))
  | .pop i => let r := pop i lb; (r.2, .popped r.1)
  | .delIndex i => let r := delIndex i lb; (r.1, .raised r.2)
  | .delSlice idx => let r := delSlice idx lb; (r.1, .raised r.2)
  | .pickle => (pickle lb, .none)
  | .setHeader hd => (setHeader hd lb, .none)
  | .setLogHeader f => (setLogHeader f lb, .none)

/-- the logbook after a history, starting from `lb` -/
def runFrom (lb : LB) (ops : List Op) : LB := ops.foldl (fun s o => (step s o).1) lb

/-- the logbook after a history on a fresh `Logbook()` -/
def run (ops : List Op) : LB := runFrom LB.empty ops

/-- the texts delivered by the `stream` operations of a history, in order -/
def streamsFrom : LB → List Op → List Text
  | _, [] => []
  | lb, .stream :: ops => (stream lb).1 :: streamsFrom (stream lb).2 ops
  | lb, o :: ops => streamsFrom (step lb o).1 ops

def streams (ops : List Op) : List Text := streamsFrom LB.empty ops

/-- how many of the streamed texts carried a header -/
def headerCount (ops : List Op) : Nat := ((streams ops).filter (·.header)).length

/-- all rows delivered by the `stream` operations of a history, in delivery order -/
def delivered (ops : List Op) : List Row := (streams ops).flatMap (·.rows)

end Logbook

/-! ### Statistics (support.py:150-238) -/
namespace Stats

open Logbook (Name)

/-- `Statistics` over data of type `δ`, key values `κ`, frozen arguments `φ`, results `ρ`.
A registered function is `functools.partial(function, *args, **kargs)`; applied to the tuple of
key values it computes `function(*args, values, **kargs)`, modelled as `fn args values`.
`functions` is a dict (a re-registered name keeps its position and gets the new function). -/
structure Statistics (δ κ φ ρ : Type) where
  key : δ → κ
  functions : List (Name × (φ × (φ → List κ → ρ)))
  fields : List Name

variable {δ κ φ ρ : Type}

/-- `Statistics(key)` (support.py:175-178) -/
def new (key : δ → κ) : Statistics δ κ φ ρ := ⟨key, [], []⟩

def setFn (name : Name) (v : φ × (φ → List κ → ρ)) :
    List (Name × (φ × (φ → List κ → ρ))) → List (Name × (φ × (φ → List κ → ρ)))
  | [] => [(name, v)]
  | (k, w) :: rest => if k = name then (k, v) :: rest else (k, w) :: setFn name v rest

/-- `register(name, function, *args, **kargs)` (support.py:180-193) -/
def register (s : Statistics δ κ φ ρ) (name : Name) (fn : φ → List κ → ρ) (args : φ) :
    Statistics δ κ φ ρ :=
  ⟨s.key, setFn name (args, fn) s.functions, s.fields ++ [name]⟩

/-- `compile(data)` (support.py:195-206): `values = tuple(self.key(elem) for elem in data)`, then
one dict entry per registered function. -/
def compile (s : Statistics δ κ φ ρ) (data : List δ) : List (Name × ρ) :=
  let values := data.map s.key                                           -- :201
  s.functions.map fun p => (p.1, p.2.2 p.2.1 values)                     -- :203-205

/-- `MultiStatistics` (support.py:209-257): a dict name → `Statistics`. -/
abbrev Multi (δ κ φ ρ : Type) := List (Name × Statistics δ κ φ ρ)

/-- `MultiStatistics.register` (support.py:244-257): registers in every statistics object. -/
def Multi.register (m : Multi δ κ φ ρ) (name : Name) (fn : φ → List κ → ρ) (args : φ) :
    Multi δ κ φ ρ :=
  m.map fun p => (p.1, Stats.register p.2 name fn args)

/-- `MultiStatistics.compile` (support.py:229-238): one record per named statistics object. -/
def Multi.compile (m : Multi δ κ φ ρ) (data : List δ) : List (Name × List (Name × ρ)) :=
  m.map fun p => (p.1, Stats.compile p.2 data)

/-- `MultiStatistics.fields` (support.py:240-242) -/
def Multi.names (m : Multi δ κ φ ρ) : List Name := m.map (·.1)

end Stats
