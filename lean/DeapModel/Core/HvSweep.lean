/-
C15 — the dimension-sweep ALGORITHM of `deap/tools/_hypervolume/pyhv.py` (variant 3 of Fonseca,
Paquete, López-Ibáñez 2006, as repaired by the F7 fix), transcribed statement by statement.
Import-free, executable, exact `Rat`.

Pointers become node ids: id 0 is the sentinel (`cargo is None`), ids 1..n are the points in input
order (the order in which `preProcess` creates the `Node` objects, pyhv.py:190).  Every per-node /
per-dimension attribute is a table `List (List _)`:

  next, prev : [dimension][id] ↦ id          (`Node.next[i]`, `Node.prev[i]`)
  area, volume : [id][dimension] ↦ Rat        (`Node.area[i]`, `Node.volume[i]`)
  ignore : [id] ↦ Nat                         (`Node.ignore`)
  bounds : [dimension] ↦ Option Rat           (`none` = the initial -1.0e308, below every coordinate)
  calls  : [dimIndex] ↦ number of `hvRecursive` invocations (observability only, not in the code)

`while` loops that follow pointers carry a fuel argument (`n + 1` suffices: proved in
`Lemmas/C15Sweep*.lean`); exhausted fuel answers `none`.  The loop `while length > 1 and …`
(pyhv.py:144) decreases `length` and is structurally recursive.
-/
namespace HvSweep

/-! ### tables -/

def tget {α : Type} (t : List (List α)) (i a : Nat) (d : α) : α := (t.getD i []).getD a d

def tset {α : Type} (t : List (List α)) (i a : Nat) (v : α) : List (List α) :=
  t.set i ((t.getD i []).set a v)

structure St where
  next : List (List Nat)
  prev : List (List Nat)
  ignore : List Nat
  area : List (List Rat)
  volume : List (List Rat)
  bounds : List (Option Rat)
  calls : List Nat

abbrev Cargo := List (List Rat)

/-- `node.cargo[i]` -/
def cg (C : Cargo) (a i : Nat) : Rat := tget C a i 0

def nx (S : St) (i a : Nat) : Nat := tget S.next i a 0
def pv (S : St) (i a : Nat) : Nat := tget S.prev i a 0
def ar (S : St) (a i : Nat) : Rat := tget S.area a i 0
def vl (S : St) (a i : Nat) : Rat := tget S.volume a i 0
def ign (S : St) (a : Nat) : Nat := S.ignore.getD a 0

def setNx (S : St) (i a v : Nat) : St := { S with next := tset S.next i a v }
def setPv (S : St) (i a v : Nat) : St := { S with prev := tset S.prev i a v }
def setAr (S : St) (a i : Nat) (v : Rat) : St := { S with area := tset S.area a i v }
def setVl (S : St) (a i : Nat) (v : Rat) : St := { S with volume := tset S.volume a i v }
def setIgn (S : St) (a v : Nat) : St := { S with ignore := S.ignore.set a v }
def setBound (S : St) (i : Nat) (v : Rat) : St := { S with bounds := S.bounds.set i (some v) }
def tick (S : St) (dimIndex : Nat) : St := { S with calls := S.calls.set dimIndex (S.calls.getD dimIndex 0 + 1) }

/-- `bounds[i] > x` (the initial bound -1.0e308 is never greater) -/
def boundGt (S : St) (i : Nat) (x : Rat) : Bool :=
  match S.bounds.getD i none with
  | none => false
  | some b => decide (x < b)

/-- `x > bounds[i]` -/
def gtBound (S : St) (i : Nat) (x : Rat) : Bool :=
  match S.bounds.getD i none with
  | none => true
  | some b => decide (b < x)

/-- `x >= bounds[i]` -/
def geBound (S : St) (i : Nat) (x : Rat) : Bool :=
  match S.bounds.getD i none with
  | none => true
  | some b => decide (b ≤ x)

/-- `if bounds[i] > node.cargo[i]: bounds[i] = node.cargo[i]`  (pyhv.py:296-297, 310-311) -/
def lowerBound (C : Cargo) (S : St) (node i : Nat) : St :=
  if boundGt S i (cg C node i) then setBound S i (cg C node i) else S

/-! ### `_MultiList` (pyhv.py:208-312) -/

/-- `_MultiList.remove(node, index, bounds)` (l.289-298): unlink from the lists `0 .. index-1`. -/
def remove (C : Cargo) (S : St) (node index : Nat) : St :=
  (List.range index).foldl (fun S i =>
    let predecessor := pv S i node                    -- l.292
    let successor := nx S i node                      -- l.293
    let S := setNx S i predecessor successor          -- l.294
    let S := setPv S i successor predecessor          -- l.295
    lowerBound C S node i) S                          -- l.296-297

/-- `_MultiList.reinsert(node, index, bounds)` (l.300-311). -/
def reinsert (C : Cargo) (S : St) (node index : Nat) : St :=
  (List.range index).foldl (fun S i =>
    let S := setNx S i (pv S i node) node             -- l.308  node.prev[i].next[i] = node
    let S := setPv S i (nx S i node) node             -- l.309  node.next[i].prev[i] = node
    lowerBound C S node i) S                          -- l.310-311

/-- `_MultiList.extend(nodes, index)` (l.278-287): append the nodes to the list of dimension `index`. -/
def extend (S : St) (nodes : List Nat) (index : Nat) : St :=
  nodes.foldl (fun S node =>
    let lastButOne := pv S index 0                    -- l.282
    let S := setNx S index node 0                     -- l.283
    let S := setPv S index node lastButOne            -- l.284
    let S := setPv S index 0 node                     -- l.286
    setNx S index lastButOne node) S                  -- l.287

/-- `sortByDimension(nodes, i)` (l.196-204): `decorated.sort()` on `(node.cargo[i], node)`.  Two entries
with equal first component are compared through `Node.__lt__` = `all(self.cargo < other.cargo)`, which is
`False` in both directions (coordinate `i` is tied), so the stable sort keeps their current order: a stable
sort by `cargo[i]`. -/
def sortByDimension (C : Cargo) (nodes : List Nat) (i : Nat) : List Nat :=
  nodes.mergeSort (fun a b => decide (cg C a i ≤ cg C b i))

/-- the loop of `preProcess` (l.191-193): the node list is re-sorted in place for every dimension. -/
def preLoop (C : Cargo) : List Nat → (S : St) → (nodes : List Nat) → St
  | [], S, _ => S
  | i :: is, S, nodes =>
    let nodes := sortByDimension C nodes i            -- l.192
    preLoop C is (extend S nodes i) nodes             -- l.193

/-- the state built by `_MultiList(dimensions)` + `Node(dimensions, point)` for `n` points (l.189-190, 217-223, 231-240) -/
def initSt (dims n : Nat) : St :=
  { next := List.replicate dims (List.replicate (n + 1) 0)
    prev := List.replicate dims (List.replicate (n + 1) 0)
    ignore := List.replicate (n + 1) 0
    area := List.replicate (n + 1) (List.replicate dims 0)
    volume := List.replicate (n + 1) (List.replicate dims 0)
    bounds := List.replicate dims none                -- l.96  [-1.0e308] * dimensions
    calls := List.replicate dims 0 }

/-- `preProcess(front)` (l.186-194). -/
def preProcess (C : Cargo) (dims n : Nat) : St :=
  preLoop C (List.range dims) (initSt dims n) ((List.range n).map (· + 1))

/-! ### `hvRecursive` (l.100-184) -/

/-- l.117-130, the loop of the special case `dimIndex == 1`: returns `(hvol, h, q, S)`. -/
def loop2d (C : Cargo) : Nat → (p q : Nat) → (h hvol : Rat) → St → Option (Rat × Rat × Nat × St)
  | 0, p, q, h, hvol, S => if p = 0 then some (hvol, h, q, S) else none
  | f + 1, p, q, h, hvol, S =>
    if p = 0 then some (hvol, h, q, S)                                  -- l.120 while p is not sentinel
    else
      let hvol := hvol + h * (cg C q 1 - cg C p 1)                      -- l.122
      if cg C p 0 < h then                                              -- l.123
        loop2d C f (nx S 1 p) p (cg C p 0) hvol S                       -- l.124, 129-130
      else
        let S := if ign S p = 0 then setIgn S p 1 else S                -- l.125-128
        loop2d C f (nx S 1 p) p h hvol S

/-- l.139-142: `while q.cargo is not None: if q.ignore < dimIndex: q.ignore = 0; q = q.prev[dimIndex]` -/
def resetLoop (dimIndex : Nat) : Nat → (q : Nat) → St → Option St
  | 0, q, S => if q = 0 then some S else none
  | f + 1, q, S =>
    if q = 0 then some S
    else
      let S := if ign S q < dimIndex then setIgn S q 0 else S
      resetLoop dimIndex f (pv S dimIndex q) S

/-- l.144-148: `while length > 1 and (q.cargo[d] > bounds[d] or q.prev[d].cargo[d] >= bounds[d])`;
returns `(p, q, length, S)`. -/
def removeLoop (C : Cargo) (dimIndex : Nat) : (length : Nat) → (p q : Nat) → St → Nat × Nat × Nat × St
  | 0, p, q, S => (p, q, 0, S)
  | 1, p, q, S => (p, q, 1, S)
  | len + 2, p, q, S =>
    if gtBound S dimIndex (cg C q dimIndex) || geBound S dimIndex (cg C (pv S dimIndex q) dimIndex) then
      let S := remove C S q dimIndex                                    -- l.145-146
      removeLoop C dimIndex (len + 1) q (pv S dimIndex q) S             -- l.147-148
    else (p, q, len + 2, S)

/-- the body shared by l.154-162 and l.177-182:
`if q.ignore >= dimIndex: q.area[d] = q.prev[d].area[d] else: q.area[d] = hvRecursive(d-1, …); promote`. -/
def areaStep (rec : Nat → St → Option (Rat × St)) (dimIndex length q : Nat) (S : St) : Option St :=
  if dimIndex ≤ ign S q then
    some (setAr S q dimIndex (ar S (pv S dimIndex q) dimIndex))
  else
    match rec length S with
    | none => none
    | some (a, S) =>
      let S := setAr S q dimIndex a
      some (if ign S q = dimIndex - 1 then setIgn S q dimIndex else S)

/-- l.168-182: `while p is not sentinel: …`; returns `(q, hvol, S)`. -/
def reinsLoop (rec : Nat → St → Option (Rat × St)) (C : Cargo) (dimIndex : Nat) :
    Nat → (p q : Nat) → (hvol : Rat) → (length : Nat) → St → Option (Nat × Rat × St)
  | 0, p, q, hvol, _, S => if p = 0 then some (q, hvol, S) else none
  | f + 1, p, q, hvol, length, S =>
    if p = 0 then some (q, hvol, S)
    else
      let pC := cg C p dimIndex                                         -- l.169
      let hvol := hvol + ar S q dimIndex * (pC - cg C q dimIndex)       -- l.170
      let S := setBound S dimIndex pC                                   -- l.171
      let S := reinsert C S p dimIndex                                  -- l.172
      let length := length + 1                                          -- l.173
      let q := p                                                        -- l.174
      let p := nx S dimIndex p                                          -- l.175
      let S := setVl S q dimIndex hvol                                  -- l.176
      match areaStep rec dimIndex length q S with                       -- l.177-182
      | none => none
      | some S => reinsLoop rec C dimIndex f p q hvol length S

/-- l.132-184, the general case `dimIndex ≥ 2`; `rec` is `hvRecursive(dimIndex - 1, ·, bounds)`. -/
def general (rec : Nat → St → Option (Rat × St)) (C : Cargo) (fuel dimIndex length : Nat) (S : St) :
    Option (Rat × St) :=
  match resetLoop dimIndex fuel (pv S dimIndex 0) S with                -- l.137-142
  | none => none
  | some S =>
    match removeLoop C dimIndex length 0 (pv S dimIndex 0) S with       -- l.143-148
    | (p, q, length, S) =>
      let qPrev := pv S dimIndex q                                      -- l.151
      let r : Option (Rat × St) :=
        if 1 < length then                                              -- l.152
          let hvol := vl S qPrev dimIndex + ar S qPrev dimIndex * (cg C q dimIndex - cg C qPrev dimIndex)
          (areaStep rec dimIndex length q S).map (fun S => (hvol, S))   -- l.153-162
        else
          let S := setAr S q 0 1                                        -- l.164
          let S := (List.range dimIndex).foldl
            (fun S i => setAr S q (i + 1) (ar S q i * -(cg C q i))) S   -- l.165-166
          some (0, S)
      match r with
      | none => none
      | some (hvol, S) =>
        let S := setVl S q dimIndex hvol                                -- l.167
        match reinsLoop rec C dimIndex fuel p q hvol length S with      -- l.168-182
        | none => none
        | some (q, hvol, S) =>
          some (hvol - ar S q dimIndex * cg C q dimIndex, S)            -- l.183-184

/-- `hvRecursive(dimIndex, length, bounds)` (l.100-184). -/
def hvRecursive (C : Cargo) (fuel : Nat) : (dimIndex : Nat) → (length : Nat) → St → Option (Rat × St)
  | 0, length, S =>
    let S := tick S 0
    if length = 0 then some (0, S)                                      -- l.109-110
    else some (-(cg C (nx S 0 0) 0), S)                                 -- l.111-114
  | 1, length, S =>
    let S := tick S 1
    if length = 0 then some (0, S)
    else
      let q := nx S 1 0                                                 -- l.117
      match loop2d C fuel (nx S 1 q) q (cg C q 0) 0 S with              -- l.118-130
      | none => none
      | some (hvol, h, q, S) => some (hvol + h * cg C q 1, S)           -- l.131-132
  | k + 2, length, S =>
    let S := tick S (k + 2)
    if length = 0 then some (0, S)
    else general (hvRecursive C fuel (k + 1)) C fuel (k + 2) length S

/-- the translated points: `if any(referencePoint): relevantPoints = numpy.asarray(relevantPoints, dtype=float) -
referencePoint` (l.82-91; a fresh array since the F23 fix, the caller's array is no longer translated in place) -/
def translate (front : List (List Rat)) (ref : List Rat) : List (List Rat) :=
  if ref.any (fun r => decide (r ≠ 0)) then front.map (fun p => List.zipWith (· - ·) p ref) else front

/-- `_HyperVolume(ref).compute(front)` (l.56-98): result and final state; needs `1 ≤ ref.length`. -/
def computeSt (front : List (List Rat)) (ref : List Rat) : Option (Rat × St) :=
  let dims := ref.length                                               -- l.71
  let C : Cargo := [] :: translate front ref
  let n := front.length
  let S := preProcess C dims n                                         -- l.95
  hvRecursive C (n + 1) (dims - 1) n S                                 -- l.96-98

def compute (front : List (List Rat)) (ref : List Rat) : Option Rat :=
  (computeSt front ref).map (·.1)

end HvSweep
