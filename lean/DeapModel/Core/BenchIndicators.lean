/-
C20 — the quality indicators of `deap/benchmarks/tools.py:262-327`: `diversity`, `convergence`, `igd`
(the `hypervolume` wrapper of `:306-318` is `Hypervolume.populationHV`, `Core/Hypervolume.lean`).
Polymorphic in `RealLike α`, operation order of the Python source.  `none` = the input the real code
rejects (IndexError / ZeroDivisionError / ValueError).  Import-free.
-/
import DeapModel.Core.Scalar

namespace BenchInd
open RealLike

variable {α : Type} [RealLike α]

/-- `math.hypot(a.x - b.x, a.y - b.y)` -/
def hyp (a b : α × α) : α := sqrt ((a.1 - b.1) * (a.1 - b.1) + (a.2 - b.2) * (a.2 - b.2))

/-- the list `dt` (`:272-274`): distances between consecutive points of the front -/
def gaps (front : List (α × α)) : List α := (front.zip front.tail).map fun p => hyp p.1 p.2

def lastOr (d : α × α) : List (α × α) → α × α
  | [] => d
  | [a] => a
  | _ :: t => lastOr d t

/-- `diversity(first_front, first, last)` (`:262-282`), the spread metric Δ of the NSGA-II article, on
the first two fitness values of every individual.  Empty front: `IndexError`; a zero denominator
(every distance zero): `ZeroDivisionError`. -/
def diversity (front : List (α × α)) (first last : α × α) : Option α :=
  match front with
  | [] => none
  | p0 :: rest =>
    let df := hyp p0 first
    let dl := hyp (lastOr p0 front) last
    if rest.isEmpty then some (df + dl) else
    let dt := gaps front
    let n : α := RealLike.ofNat dt.length
    let dm := sum dt / n
    let di := sum (dt.map fun d => abs (d - dm))
    let den := df + dl + n * dm
    if den < 0 ∨ 0 < den then some ((df + dl + di) / den) else none

/-- the inner loop of `convergence` (`:296-298`): `for i in range(len(opt)): dist += (ind[i] - opt[i])**2`;
an individual with fewer values than the optimal point raises `IndexError` -/
def sqDist (ind opt : List α) : Option α :=
  if ind.length < opt.length then none
  else some ((ind.zip opt).foldl (fun d p => d + (p.1 - p.2) * (p.1 - p.2)) (RealLike.ofNat 0))

/-- `min` by the loop `if dist < distances[-1]` starting from `inf`: the first minimal element;
`none` on the empty list (the value stays `inf`) -/
def minFirst : List α → Option α
  | [] => none
  | a :: t => some (t.foldl (fun m d => if d < m then d else m) a)

/-- the entry of `distances` for one individual (`:294-301`) -/
def nearest (opt : List (List α)) (ind : List α) : Option α :=
  match opt.mapM (sqDist ind) with
  | none => none
  | some ds => (minFirst ds).map sqrt

/-- `convergence(first_front, optimal_front)` (`:285-303`): the mean over the front of the distance to
the nearest point of the optimal front.  Empty front: `ZeroDivisionError`; empty optimal front: the
result is `inf` (`none` here: no real number). -/
def convergence (front opt : List (List α)) : Option α :=
  if front.isEmpty then none else
  match front.mapM (nearest opt) with
  | none => none
  | some ds => some (sum ds / RealLike.ofNat ds.length)

/-- one entry of `scipy.spatial.distance.cdist(A, Z)`: the Euclidean distance of two rows of equal
length (`ValueError` otherwise) -/
def euclid (a z : List α) : Option α :=
  if a.length = z.length then some (sqrt (sum ((a.zip z).map fun p => (p.1 - p.2) * (p.1 - p.2)))) else none

/-- `igd(A, Z)` (`:321-327`): `numpy.average(numpy.min(cdist(A, Z), axis=0))` — the mean over the
reference points `Z` of the distance to the nearest point of `A`.  Empty `A` or `Z`: `ValueError`. -/
def igd (A Z : List (List α)) : Option α :=
  if A.isEmpty ∨ Z.isEmpty then none else
  match Z.mapM (fun z => (A.mapM fun a => euclid a z).bind minFirst) with
  | none => none
  | some ds => some (sum ds / RealLike.ofNat ds.length)

end BenchInd
